package main

import (
	"context"
	"encoding/binary"
	"encoding/json"
	"errors"
	"fmt"
	"math/big"
	"os"
	"path/filepath"
	"sort"
	"strings"

	"github.com/sharedcode/sop"
	"github.com/sharedcode/sop/cache"
	"github.com/sharedcode/sop/encoding"
	"github.com/sharedcode/sop/fs"

	"verif/harness/hx"
)

// C21: the on-disk registry behaves as a map from id to handle.
// K2 structural correspondence: a history of Registry API calls is run against the real
// fs registry (fs.NewRegistry over real segment files); after every call the raw segment bytes
// are decoded slot by slot. The Coq model (Hashmap.v) replays the same history and must agree on
// every API result, the number of segment files and every slot. Direct oracle: a Go map.

func main() { hx.Main("c21", runC21) }

const (
	tableName = "c21reg"
	knownSig  = "displaced-id-written-after-earlier-scan-slot-vacated"
)

type c21Op struct {
	K string `json:"k"` // add | update | updatenl | remove | get
	I []int  `json:"i"` // indices into Tbl (remove/get use the handle's LogicalID)
}

type c21Hist struct {
	Name string       `json:"name,omitempty"`
	HM   int          `json:"hm"`
	Tbl  []sop.Handle `json:"tbl"`
	Ops  []c21Op      `json:"ops"`
	// Reopen[i] = close and reopen the writing registry before op i (fresh file handles and cache)
	Reopen []int `json:"reopen,omitempty"`
}

// ---------------------------------------------------------------- ids that collide

// mkID builds an id that hashes to block b (of hm) and ideal slot s, distinguished by k.
func mkID(hm, b, s int, k uint64) sop.UUID {
	var u sop.UUID
	// spread the id over all 16 bytes (a write that spills into a neighbouring slot must hit non-zero bytes):
	// hi = b (mod hm) and lo = s (mod handlesPerBlock) with high-entropy quotients derived from k
	mix := func(x uint64) uint64 {
		x += 0x9E3779B97F4A7C15
		x = (x ^ (x >> 30)) * 0xBF58476D1CE4E5B9
		x = (x ^ (x >> 27)) * 0x94D049BB133111EB
		return x ^ (x >> 31)
	}
	qh := mix(k) % ((uint64(1) << 62) / uint64(hm))
	ql := mix(k+0x5151) % ((uint64(1) << 62) / uint64(fs.VerifHandlesPerBlock))
	hi := uint64(b) + uint64(hm)*qh
	lo := uint64(s) + uint64(fs.VerifHandlesPerBlock)*ql
	binary.BigEndian.PutUint64(u[:8], hi)
	binary.BigEndian.PutUint64(u[8:], lo)
	return u
}

func mkHandle(r *hx.Rng, id sop.UUID, ver int) sop.Handle {
	h := sop.Handle{LogicalID: id, Version: int32(ver)}
	copy(h.PhysicalIDA[:], r.Bytes(16))
	if r.Chance(50) {
		copy(h.PhysicalIDB[:], r.Bytes(16))
	}
	h.IsActiveIDB = r.Bool()
	h.IsDeleted = r.Chance(20)
	if r.Chance(40) {
		h.WorkInProgressTimestamp = int64(r.U64() >> 20)
	}
	return h
}

// ---------------------------------------------------------------- disk view

type slotPos struct{ seg, blk, slot int }

type diskView struct {
	nseg  int
	cells map[slotPos]sop.Handle // non-zero slots
	bad   []string               // undecodable slots / non-zero bytes outside slots
}

func segPath(base string, i int) string {
	return filepath.Join(base, tableName, fmt.Sprintf("%s-%d%s", tableName, i+1, fs.VerifRegistryFileExtension))
}

func isZero(b []byte) bool {
	for _, x := range b {
		if x != 0 {
			return false
		}
	}
	return true
}

func readDisk(base string, hm int) (*diskView, error) {
	dv := &diskView{cells: map[slotPos]sop.Handle{}}
	B, S, n := fs.VerifBlockSize, sop.HandleSizeInBytes, fs.VerifHandlesPerBlock
	m := encoding.NewHandleMarshaler()
	for i := 0; ; i++ {
		raw, err := os.ReadFile(segPath(base, i))
		if err != nil {
			if os.IsNotExist(err) {
				break
			}
			return nil, err
		}
		if len(raw) < hm*B {
			break // findOneFileRegion treats a short file as not existing
		}
		if len(raw) != hm*B {
			dv.bad = append(dv.bad, fmt.Sprintf("segment %d has %d bytes, want %d", i, len(raw), hm*B))
		}
		dv.nseg++
		for b := 0; b < hm; b++ {
			blk := raw[b*B : (b+1)*B]
			if isZero(blk) {
				continue
			}
			for j := 0; j < n; j++ {
				hb := blk[j*S : (j+1)*S]
				if isZero(hb) {
					continue
				}
				var h sop.Handle
				if err := m.Unmarshal(hb, &h); err != nil {
					dv.bad = append(dv.bad, fmt.Sprintf("slot %d/%d/%d does not decode: %v", i, b, j, err))
					continue
				}
				dv.cells[slotPos{i, b, j}] = h
			}
			// the bytes between the last slot and the checksum stay zero
			if !isZero(blk[n*S : B-4]) {
				dv.bad = append(dv.bad, fmt.Sprintf("block %d/%d has non-zero padding", i, b))
			}
		}
	}
	return dv, nil
}

// scanOrder: the order findOneFileRegion inspects the slots of a block.
func scanOrder(ideal int) []int {
	o := []int{ideal}
	for j := 0; j < fs.VerifHandlesPerBlock; j++ {
		if j != ideal {
			o = append(o, j)
		}
	}
	return o
}

// hazard: id is stored, but an empty slot comes earlier in its scan order (so a write picks that one).
func (dv *diskView) hazard(hm int, id sop.UUID) bool {
	bo, ho := fs.VerifBlockOffsets(hm, id)
	b, s := int(bo)/fs.VerifBlockSize, int(ho)/sop.HandleSizeInBytes
	sawEmpty := false
	for i := 0; i < dv.nseg; i++ {
		for _, j := range scanOrder(s) {
			h, ok := dv.cells[slotPos{i, b, j}]
			if !ok {
				sawEmpty = true
				continue
			}
			if h.LogicalID == id {
				return sawEmpty
			}
		}
	}
	return false
}

// ---------------------------------------------------------------- running one history

type env struct {
	base string
	hm   int
	reg  fs.Registry
	l2   sop.L2Cache
}

func (e *env) open() error {
	ctx := context.Background()
	e.l2 = cache.NewL2InMemoryCache()
	rt, err := fs.NewReplicationTracker(ctx, []string{e.base}, false, e.l2)
	if err != nil {
		return err
	}
	e.reg = fs.NewRegistry(true, e.hm, rt, e.l2)
	return nil
}

// coldGet: a new registry object with a fresh L2 cache and fresh file handles, so the answer comes from disk.
func (e *env) coldGet(ids []sop.UUID, readWrite bool) ([]sop.Handle, error) {
	ctx := context.Background()
	l2 := cache.NewL2InMemoryCache()
	rt, err := fs.NewReplicationTracker(ctx, []string{e.base}, false, l2)
	if err != nil {
		return nil, err
	}
	reg := fs.NewRegistry(readWrite, e.hm, rt, l2)
	defer reg.Close()
	out, err := reg.Get(ctx, []sop.RegistryPayload[sop.UUID]{{RegistryTable: tableName, IDs: ids}})
	if err != nil {
		return nil, err
	}
	if len(out) != 1 {
		return nil, fmt.Errorf("Get returned %d payloads", len(out))
	}
	return out[0].IDs, nil
}

// errCode maps an error of Add/Update/UpdateNoLocks/Remove to the model's enum.
// Add of a stored id is recognised by its error code; registryMap.set/remove only differ by text.
func errCode(err error) int {
	if err == nil {
		return 0
	}
	var se sop.Error
	if errors.As(err, &se) && se.Code == sop.LockAcquisitionFailure {
		return 2
	}
	s := err.Error()
	switch {
	case strings.Contains(s, "maximum count of segment files"):
		return 1
	case strings.Contains(s, "can't delete a missing item"):
		return 3
	case strings.Contains(s, "is different"):
		return 4
	}
	return 9
}

func nlist(xs []int) string {
	ss := make([]string, len(xs))
	for i, x := range xs {
		ss[i] = fmt.Sprint(x)
	}
	return "[" + strings.Join(ss, ";") + "]"
}

// coqHandle: 7 numerals, see Corr/C21.v tbl_decode (Version and timestamp are generated non-negative)
func coqHandle(h sop.Handle) string {
	b2n := func(b bool) int {
		if b {
			return 1
		}
		return 0
	}
	return fmt.Sprintf("%s;%s;%s;%d;%d;%d;%d", new(big.Int).SetBytes(h.LogicalID[:]), new(big.Int).SetBytes(h.PhysicalIDA[:]), new(big.Int).SetBytes(h.PhysicalIDB[:]),
		b2n(h.IsActiveIDB), h.Version, h.WorkInProgressTimestamp, b2n(h.IsDeleted))
}

// genFunc appends the next op (and the handles it writes) to the history, given the disk state and the
// specification map before that op; false = the history is complete. nil = the op list is fixed.
type genFunc func(oi int, pre *diskView, want map[sop.UUID]sop.Handle) bool

func runHistory(res *hx.Result, workRoot string, serial int, hist *c21Hist, gen genFunc) error {
	ctx := context.Background()
	base := filepath.Join(workRoot, fmt.Sprintf("h%05d", serial))
	os.RemoveAll(base)
	if err := os.MkdirAll(filepath.Join(base, tableName), 0o755); err != nil {
		return err
	}
	defer os.RemoveAll(base)
	e := &env{base: base, hm: hist.HM}
	if err := e.open(); err != nil {
		return err
	}
	defer func() { e.reg.Close() }()

	idx := map[sop.Handle]int{}
	indexed := 0
	reindex := func() {
		for ; indexed < len(hist.Tbl); indexed++ {
			idx[hist.Tbl[indexed]] = indexed
		}
	}
	reindex()

	want := map[sop.UUID]sop.Handle{} // the specification: a map
	tainted := map[sop.UUID]bool{}    // ids that received a write while in the hazardous position
	reported := map[string]bool{}
	everUsed := map[sop.UUID]bool{}
	reopen := map[int]bool{}
	for _, i := range hist.Reopen {
		reopen[i] = true
	}
	fail := func(sig, what string) {
		if reported[sig] {
			return
		}
		reported[sig] = true
		res.Fail(sig, fmt.Sprintf("history %q (hashMod %d): %s", hist.Name, hist.HM, what), failInput{hist})
	}
	sigFor := func(generic string, ids ...sop.UUID) string {
		for _, id := range ids {
			if tainted[id] {
				return knownSig
			}
		}
		return generic
	}

	var steps []string
	canon := []string{fmt.Sprint(hist.HM)}
	hazardHit, overflow := false, false
	pre, err := readDisk(base, hist.HM)
	if err != nil {
		return err
	}
	for oi := 0; ; oi++ {
		if gen != nil && oi >= len(hist.Ops) {
			if !gen(oi, pre, want) {
				break
			}
			reindex()
			for _, i := range hist.Reopen {
				reopen[i] = true
			}
		}
		if oi >= len(hist.Ops) {
			break
		}
		op := hist.Ops[oi]
		if reopen[oi] {
			e.reg.Close()
			if err := e.open(); err != nil {
				return err
			}
			res.Count("reopen")
		}
		var hs []sop.Handle
		var ids []sop.UUID
		for _, i := range op.I {
			hs = append(hs, hist.Tbl[i])
			ids = append(ids, hist.Tbl[i].LogicalID)
			everUsed[hist.Tbl[i].LogicalID] = true
		}
		hz := false
		if op.K != "get" {
			for _, id := range ids {
				if pre.hazard(hist.HM, id) {
					hz = true
					tainted[id] = true
				}
			}
		}
		if hz {
			hazardHit = true
			res.Count("op.hazardous." + op.K)
		}
		res.Count("op." + op.K)
		outside := false
		canon = append(canon, op.K+nlist(op.I))
		var xres string
		switch op.K {
		case "add", "update", "updatenl", "remove":
			var err error
			wantCode := 0
			switch op.K {
			case "add":
				err = e.reg.Add(ctx, []sop.RegistryPayload[sop.Handle]{{RegistryTable: tableName, IDs: hs}})
				for _, h := range hs {
					if _, present := want[h.LogicalID]; present {
						wantCode = 2
						break
					}
					want[h.LogicalID] = h
				}
			case "update":
				err = e.reg.Update(ctx, []sop.RegistryPayload[sop.Handle]{{RegistryTable: tableName, IDs: hs}})
				for _, h := range hs {
					want[h.LogicalID] = h
				}
			case "updatenl":
				if len(hs) > 1 {
					for _, h := range hs {
						if _, present := want[h.LogicalID]; !present {
							// registryMap.set resolves all slots before writing any: several handles are only
							// defined for stored ids (C21_batch_upsert_outside_domain). Model and code are still
							// compared; the map oracle re-reads these ids from disk.
							outside = true
						}
					}
				}
				err = e.reg.UpdateNoLocks(ctx, false, []sop.RegistryPayload[sop.Handle]{{RegistryTable: tableName, IDs: hs}})
				for _, h := range hs {
					want[h.LogicalID] = h
				}
			case "remove":
				err = e.reg.Remove(ctx, []sop.RegistryPayload[sop.UUID]{{RegistryTable: tableName, IDs: ids}})
				all := true
				for _, id := range ids {
					if _, present := want[id]; !present {
						all = false
					}
				}
				if all {
					for _, id := range ids {
						delete(want, id)
					}
				} else {
					wantCode = 3
				}
			}
			code := errCode(err)
			res.Count(fmt.Sprintf("result.%s.%d", op.K, code))
			if code != wantCode {
				sig0 := sigFor("", ids...)
				if sig0 == knownSig {
					// the call as a whole went wrong because of a hazardous member: the other ids of the
					// batch are collateral (e.g. a Remove batch that fails removes none of its ids)
					for _, id := range ids {
						tainted[id] = true
					}
				}
				fail(sigFor(fmt.Sprintf("api-result-%s-got%d-want%d", op.K, code, wantCode), ids...),
					fmt.Sprintf("op %d %s%v returned code %d (%v), a map returns %d", oi, op.K, op.I, code, err, wantCode))
			}
			xres = fmt.Sprintf("(XDone %d)", code)
		case "get":
			got, err := e.coldGet(ids, oi%2 == 0)
			if err != nil {
				fail("get-error", fmt.Sprintf("op %d get: %v", oi, err))
			}
			var gi []int
			for _, h := range got {
				k, ok := idx[h]
				if !ok {
					k = len(hist.Tbl)
				}
				gi = append(gi, k)
			}
			// a map returns the present ones, in request order
			var exp []sop.Handle
			for _, id := range ids {
				if h, ok := want[id]; ok {
					exp = append(exp, h)
				}
			}
			if fmt.Sprint(got) != fmt.Sprint(exp) {
				var bad []sop.UUID
				gm := map[sop.UUID]sop.Handle{}
				for _, h := range got {
					gm[h.LogicalID] = h
				}
				for _, id := range ids {
					w, wok := want[id]
					g, gok := gm[id]
					if wok != gok || w != g {
						bad = append(bad, id)
					}
				}
				sig := knownSig
				for _, id := range bad {
					if !tainted[id] {
						sig = "cold-lookup-mismatch"
					}
				}
				if len(bad) == 0 {
					sig = "cold-lookup-order"
				}
				fail(sig, fmt.Sprintf("op %d get%v returned %d handles, a map returns %d; differing ids %v", oi, op.I, len(got), len(exp), bad))
			}
			xres = "(XGot " + nlist(gi) + ")"
		default:
			return fmt.Errorf("unknown op kind %q", op.K)
		}

		// ---- structure after the op
		dv, err := readDisk(base, hist.HM)
		if err != nil {
			return err
		}
		if dv.nseg > 1 {
			overflow = true
		}
		for _, b := range dv.bad {
			fail("undecodable-slot", b)
		}
		var ps []slotPos
		where := map[sop.UUID][]slotPos{}
		for p, h := range dv.cells {
			ps = append(ps, p)
			where[h.LogicalID] = append(where[h.LogicalID], p)
			bo, _ := fs.VerifBlockOffsets(hist.HM, h.LogicalID)
			if int(bo)/fs.VerifBlockSize != p.blk {
				fail("record-in-wrong-block", fmt.Sprintf("after op %d: id %v sits in block %d, hashes to %d", oi, h.LogicalID, p.blk, int(bo)/fs.VerifBlockSize))
			}
			if _, ok := idx[h]; !ok {
				fail("foreign-record", fmt.Sprintf("after op %d: slot %v holds a record that was never written: %+v", oi, p, h))
			}
		}
		// A call that names a tainted id is outside the domain of the map specification as a whole (a Remove
		// batch that fails removes none of its ids, an Add stops at the first failing handle): its other ids
		// are re-read from disk instead of being blamed or trusted.
		opTainted := false
		if op.K != "get" {
			for _, id := range ids {
				opTainted = opTainted || tainted[id]
			}
		}
		if outside {
			res.Count("op.updatenl_outside_domain")
		}
		if opTainted || outside {
			res.Count("op.names_tainted_id_or_outside_domain")
			for _, id := range ids {
				if tainted[id] {
					continue
				}
				if l := where[id]; len(l) == 1 {
					want[id] = dv.cells[l[0]]
				} else if len(l) == 0 {
					delete(want, id)
				}
			}
		}
		for id, l := range where {
			if len(l) > 1 {
				fail(sigFor("duplicate-id-on-disk", id), fmt.Sprintf("after op %d: id %v is stored in %d slots %v", oi, id, len(l), l))
			}
		}
		// disk content as a map must equal the specification map (the cold Get checks the read path)
		for id, l := range where {
			w, ok := want[id]
			if !ok {
				fail(sigFor("removed-id-still-on-disk", id), fmt.Sprintf("after op %d: id %v is on disk at %v, a map does not have it", oi, id, l))
			} else if len(l) == 1 && dv.cells[l[0]] != w {
				fail(sigFor("stale-record-on-disk", id), fmt.Sprintf("after op %d: id %v holds version %d, last written %d", oi, id, dv.cells[l[0]].Version, w.Version))
			}
		}
		for id := range want {
			if len(where[id]) == 0 {
				fail(sigFor("present-id-missing-on-disk", id), fmt.Sprintf("after op %d: id %v is in the map but in no slot", oi, id))
			}
		}
		// cold lookup of every id used so far
		if op.K != "get" {
			var all []sop.UUID
			for id := range everUsed {
				all = append(all, id)
			}
			sort.Slice(all, func(i, j int) bool { return all[i].Compare(all[j]) < 0 })
			got, err := e.coldGet(all, oi%2 == 1)
			if err != nil {
				fail("get-error", fmt.Sprintf("after op %d: cold get: %v", oi, err))
			}
			gm := map[sop.UUID]sop.Handle{}
			for _, h := range got {
				if _, dup := gm[h.LogicalID]; dup {
					fail("cold-lookup-duplicate", fmt.Sprintf("after op %d: id %v returned twice", oi, h.LogicalID))
				}
				gm[h.LogicalID] = h
			}
			for _, id := range all {
				w, wok := want[id]
				g, gok := gm[id]
				if wok != gok || w != g {
					fail(sigFor("cold-lookup-mismatch", id), fmt.Sprintf("after op %d (%s%v): cold lookup of %v gives present=%v version=%d, a map gives present=%v version=%d",
						oi, op.K, op.I, id, gok, g.Version, wok, w.Version))
				}
			}
		}
		// ---- the step for the model: the slots whose bytes changed during the op
		chg := map[slotPos]bool{}
		for p, h := range dv.cells {
			if o, ok := pre.cells[p]; !ok || o != h {
				chg[p] = true
			}
		}
		for p := range pre.cells {
			if _, ok := dv.cells[p]; !ok {
				chg[p] = true
			}
		}
		ps = ps[:0]
		for p := range chg {
			ps = append(ps, p)
		}
		sort.Slice(ps, func(i, j int) bool {
			a, b := ps[i], ps[j]
			if a.seg != b.seg {
				return a.seg < b.seg
			}
			if a.blk != b.blk {
				return a.blk < b.blk
			}
			return a.slot < b.slot
		})
		var ds []string
		for _, p := range ps {
			k := 0
			if h, ok := dv.cells[p]; ok {
				if i, known := idx[h]; known {
					k = i + 1
				} else {
					k = len(hist.Tbl) + 1
				}
			}
			ds = append(ds, fmt.Sprintf("%d;%d;%d;%d", p.seg, p.blk, p.slot, k))
		}
		xo := map[string]string{"add": "XAdd", "update": "XUpdate", "updatenl": "XUpdateNoLocks", "remove": "XRemove", "get": "XGet"}[op.K]
		steps = append(steps, fmt.Sprintf("XStep (%s %s) %s %s %d [%s]", xo, nlist(op.I), xres, hx.CoqBool(hz), dv.nseg, strings.Join(ds, ";")))
		pre = dv
	}
	if hazardHit {
		res.Count("history.hazard")
	}
	if overflow {
		res.Count("history.overflow_into_further_segments")
	}
	res.Count(fmt.Sprintf("history.hashmod.%d", hist.HM))
	// blocks of interest: every block an id of the history hashes to (all blocks for tiny moduli);
	// a record anywhere else is reported above and makes the dump differ from the model's
	blkSet := map[int]bool{}
	for _, h := range hist.Tbl {
		bo, _ := fs.VerifBlockOffsets(hist.HM, h.LogicalID)
		blkSet[int(bo)/fs.VerifBlockSize] = true
	}
	if hist.HM <= 4 {
		for b := 0; b < hist.HM; b++ {
			blkSet[b] = true
		}
	}
	var blocks []int
	for b := range blkSet {
		blocks = append(blocks, b)
	}
	sort.Ints(blocks)
	res.Seen(strings.Join(canon, " "), len(hist.Ops) >= 3)
	var tb []string
	for _, h := range hist.Tbl {
		tb = append(tb, coqHandle(h))
	}
	res.AddCase(fmt.Sprintf("C21Case %s\n [%s]\n %s\n [%s]", hx.CoqZ(int64(hist.HM)), strings.Join(tb, ";\n  "), nlist(blocks), strings.Join(steps, ";\n  ")), failInput{hist})
	res.Sample(map[string]any{"name": hist.Name, "hash_mod": hist.HM, "ops": hist.Ops, "handles": len(hist.Tbl)})
	return nil
}

// failInput defers JSON rendering of a history until the result is written (the history may still grow).
type failInput struct{ h *c21Hist }

func (f failInput) MarshalJSON() ([]byte, error) { return json.Marshal(f.h) }

// ---------------------------------------------------------------- history builder

type builder struct {
	r   *hx.Rng
	h   *c21Hist
	ids []sop.UUID
	ver int
}

func newBuilder(r *hx.Rng, name string, hm int) *builder {
	return &builder{r: r, h: &c21Hist{Name: name, HM: hm}}
}
func (b *builder) id(blk, slot int, k uint64) int {
	b.ids = append(b.ids, mkID(b.h.HM, blk, slot, k))
	return len(b.ids) - 1
}
func (b *builder) handle(i int) int {
	b.ver++
	b.h.Tbl = append(b.h.Tbl, mkHandle(b.r, b.ids[i], b.ver))
	return len(b.h.Tbl) - 1
}

// idRef: a table entry carrying id i (remove/get only use the LogicalID)
func (b *builder) idRef(i int) int {
	for k := range b.h.Tbl {
		if b.h.Tbl[k].LogicalID == b.ids[i] {
			return k
		}
	}
	return b.handle(i)
}
func (b *builder) op(k string, idxs ...int) { b.h.Ops = append(b.h.Ops, c21Op{K: k, I: idxs}) }
func (b *builder) write(kind string, is ...int) {
	var l []int
	for _, i := range is {
		l = append(l, b.handle(i))
	}
	b.op(kind, l...)
}
func (b *builder) add(is ...int)                 { b.write("add", is...) }
func (b *builder) update(kind string, is ...int) { b.write(kind, is...) }
func (b *builder) remove(is ...int) {
	var l []int
	for _, i := range is {
		l = append(l, b.idRef(i))
	}
	b.op("remove", l...)
}
func (b *builder) get(is ...int) {
	var l []int
	for _, i := range is {
		l = append(l, b.idRef(i))
	}
	b.op("get", l...)
}
func (b *builder) getAll() {
	var l []int
	for i := range b.ids {
		l = append(l, i)
	}
	b.get(l...)
}

// corpus: deterministic histories run first on every run.
func corpus(r *hx.Rng) []*c21Hist {
	var out []*c21Hist
	// S2, the DESIGN.md witness: X and Y collide in block and slot; Y is displaced; X removed; Y updated
	// (a second copy goes into the vacated ideal slot); Y removed (only one copy zeroed); Y comes back.
	{
		b := newBuilder(r, "s2-update-then-remove-stale-copy-returns", 2)
		x, y := b.id(1, 5, 1), b.id(1, 5, 2)
		b.add(x)
		b.add(y)
		b.remove(x)
		b.update("update", y)
		b.get(y)
		b.remove(y)
		b.get(y)
		out = append(out, b.h)
	}
	{ // remove of a present id fails
		b := newBuilder(r, "s2-remove-of-present-fails", 2)
		x, y := b.id(0, 7, 1), b.id(0, 7, 2)
		b.add(x, y)
		b.remove(x)
		b.remove(y)
		b.get(y)
		out = append(out, b.h)
	}
	{ // add of a present id writes a second copy
		b := newBuilder(r, "s2-add-of-present-duplicates", 3)
		x, y := b.id(2, 0, 1), b.id(2, 0, 2)
		b.add(x)
		b.add(y)
		b.remove(x)
		b.add(y)
		b.getAll()
		out = append(out, b.h)
	}
	{ // the vacated slot is not the ideal one: X at 9, Y at 0, Z at 1; remove Y; update Z
		b := newBuilder(r, "s2-non-ideal-slot-vacated", 1)
		x, y, z := b.id(0, 9, 1), b.id(0, 9, 2), b.id(0, 9, 3)
		b.add(x, y, z)
		b.remove(y)
		b.update("updatenl", z)
		b.remove(z)
		b.getAll()
		out = append(out, b.h)
	}
	{ // hazard healed: the hole is filled by a new id before the displaced id is written again
		b := newBuilder(r, "hole-refilled-before-write", 2)
		x, y, z := b.id(1, 5, 1), b.id(1, 5, 2), b.id(1, 5, 3)
		b.add(x)
		b.add(y)
		b.remove(x)
		b.add(z)
		b.update("update", y)
		b.remove(y)
		b.getAll()
		out = append(out, b.h)
	}
	{ // a full block overflowing into segment 2 and 3, no hazard: removals take the last-scanned entries
		b := newBuilder(r, "full-block-overflow-three-segments", 1)
		var l []int
		for k := 0; k < 140; k++ {
			l = append(l, b.id(0, k%3, uint64(k+1)))
		}
		for k := 0; k < 140; k += 7 {
			b.add(l[k : k+7]...)
		}
		b.getAll()
		b.update("updatenl", l[130], l[66], l[0], l[139])
		b.update("update", l[67], l[1])
		b.add(l[5])
		b.remove(l[139], l[138])
		b.add(b.id(0, 1, 999))
		b.remove(b.id(0, 2, 1000))
		b.getAll()
		out = append(out, b.h)
	}
	{ // overflow then the hazard across segments: Y lives in segment 2, a slot of segment 1 is vacated
		b := newBuilder(r, "s2-across-segments", 2)
		var l []int
		for k := 0; k < 67; k++ {
			l = append(l, b.id(1, 4, uint64(k+1)))
		}
		for k := 0; k < 66; k += 11 {
			b.add(l[k : k+11]...)
		}
		b.add(l[66])
		b.remove(l[10])
		b.update("update", l[66])
		b.remove(l[66])
		b.get(l[66], l[10], l[0])
		out = append(out, b.h)
	}
	{ // outside the domain of the specification, still compared with the model: UpdateNoLocks of two absent colliding ids
		b := newBuilder(r, "updatenl-batch-of-absent-ids-outside-domain", 2)
		x, y, z := b.id(1, 5, 1), b.id(1, 5, 2), b.id(1, 6, 3)
		b.add(z)
		b.update("updatenl", x, y)
		b.getAll()
		b.update("updatenl", z, x)
		b.getAll()
		out = append(out, b.h)
	}
	for _, hm := range []int{1, 2, 3, 250} { // plain life cycle at each modulus, several blocks
		b := newBuilder(r, fmt.Sprintf("lifecycle-hm%d", hm), hm)
		var l []int
		for k := 0; k < 6; k++ {
			l = append(l, b.id(k%hm, (k*13)%66, uint64(k+1)))
		}
		b.add(l[0], l[1], l[2])
		b.add(l[3])
		b.add(l[1]) // busy
		b.update("update", l[0], l[4])
		b.update("updatenl", l[1], l[2])
		b.remove(l[5]) // absent
		b.remove(l[3], l[0])
		b.get(l[0], l[1], l[2], l[3], l[4], l[5])
		b.update("updatenl", l[3]) // single upsert
		b.remove(l[1], l[1])       // the same id twice in one batch
		b.getAll()
		out = append(out, b.h)
	}
	return out
}

// randomHistory: ids drawn to collide (1-2 blocks, 1-3 ideal slots); ops are chosen one at a time, biased by
// what is stored. With avoid = true a write never names an id that is in the hazardous position on disk, so
// the history stays inside the domain of C21_map_partial and every deviation from a map is an alarm.
func randomHistory(r *hx.Rng, serial int, big, avoid bool) (*c21Hist, genFunc) {
	hm := hx.Pick(r, []int{1, 2, 2, 3, 3, 250})
	b := newBuilder(r, fmt.Sprintf("random-%d", serial), hm)
	nblk := 1 + r.Intn(2)
	if nblk > hm {
		nblk = hm
	}
	var blks, slots []int
	for i := 0; i < nblk; i++ {
		blks = append(blks, r.Intn(hm))
	}
	for i := 0; i < 1+r.Intn(3); i++ {
		slots = append(slots, hx.Pick(r, []int{0, 1, 64, 65, r.Intn(66)}))
	}
	nid, nops := 3+r.Intn(6), 8+r.Intn(22)
	if big { // enough ids in one block to fill it and spill into further segments
		nid, nops = 68+r.Intn(75), 30+r.Intn(30)
		blks = blks[:1]
	}
	for k := 0; k < nid; k++ {
		b.id(hx.Pick(r, blks), hx.Pick(r, slots), uint64(k+1)+uint64(r.Intn(1000))*1000)
	}
	var bulk []int
	if big { // bulk load first, in identity or shuffled order
		bulk = make([]int, nid)
		for k := range bulk {
			bulk[k] = k
		}
		if r.Bool() {
			for k := nid - 1; k > 0; k-- {
				j := r.Intn(k + 1)
				bulk[k], bulk[j] = bulk[j], bulk[k]
			}
		}
		nops += nid / 6
	}
	done := false
	gen := func(oi int, pre *diskView, want map[sop.UUID]sop.Handle) bool {
		if done {
			return false
		}
		if len(b.h.Ops) >= nops {
			b.getAll()
			done = true
			return true
		}
		if len(bulk) > 0 {
			n := 1 + r.Intn(12)
			if n > len(bulk) {
				n = len(bulk)
			}
			b.add(bulk[:n]...)
			bulk = bulk[n:]
			return true
		}
		present := func(i int) bool { _, ok := want[b.ids[i]]; return ok }
		// pick an id with the wanted presence; for writes in avoid mode never a hazardous one (-1 = none found)
		pick := func(wantPresent, forWrite bool) int {
			fallback := -1
			for try := 0; try < 16; try++ {
				i := r.Intn(nid)
				if forWrite && avoid && pre.hazard(hm, b.ids[i]) {
					continue
				}
				if present(i) == wantPresent {
					return i
				}
				fallback = i
			}
			return fallback
		}
		some := func(n int, wantPresent, forWrite bool) []int {
			var l []int
			seen := map[int]bool{}
			for try := 0; len(l) < n && try < 4*n+4; try++ {
				i := pick(wantPresent, forWrite)
				if i < 0 || (seen[i] && !r.Chance(10)) { // rarely the same id twice in one batch
					continue
				}
				seen[i] = true
				l = append(l, i)
			}
			return l
		}
		if r.Chance(8) {
			b.h.Reopen = append(b.h.Reopen, len(b.h.Ops))
		}
		var l []int
		kind := ""
		switch k := r.Intn(100); {
		case k < 30:
			kind = "add"
			if r.Chance(12) { // malformed: add of a stored id
				l = some(1, true, true)
			} else {
				l = some(1+r.Intn(3), false, true)
			}
		case k < 45:
			kind = "update"
			if r.Chance(15) { // upsert of an absent id, one handle
				l = some(1, false, true)
			} else {
				l = some(1+r.Intn(2), true, true)
			}
		case k < 60:
			kind = "updatenl"
			l = some(1+r.Intn(3), true, true)
			for _, i := range l {
				if !present(i) { // UpdateNoLocks with several handles is only defined for stored ids
					l = l[:1]
					break
				}
			}
		case k < 88:
			kind = "remove"
			if r.Chance(12) { // malformed: remove of an absent id
				l = some(1, false, true)
			} else {
				l = some(1+r.Intn(2), true, true)
			}
		}
		switch {
		case kind == "" || len(l) == 0:
			if g := some(1+r.Intn(4), r.Bool(), false); len(g) > 0 {
				b.get(g...)
			} else {
				b.getAll()
			}
		case kind == "remove":
			b.remove(l...)
		default:
			b.write(kind, l...)
		}
		return true
	}
	return b.h, gen
}

func runC21(cfg *hx.RunCfg) (*hx.Result, error) {
	res := hx.NewResult("C21")
	res.Imports = []string{"Lib.Bytes", "Gen.HandleCodec", "Hashmap", "Corr.C21"}
	res.CaseType = "c21case"
	res.Checker = "c21_check"
	res.Rule = "one evaluation = one history of Registry calls (Add/Update/UpdateNoLocks/Remove/Get) on a real fs registry with hash modulus 1,2,3 or 250 and ids built to collide in block and ideal slot; after every call: API result, raw slots of all segment files, cold lookup of every id used; distinct = distinct (modulus, op list) with at least 3 ops"
	prev := fs.VerifSetLockSectorRetryTimeout(0) // Add of a stored id fails at once instead of retrying for 3 minutes
	defer fs.VerifSetLockSectorRetryTimeout(prev)
	workRoot := os.Getenv("VERIF_WORK")
	if workRoot == "" {
		workRoot = cfg.Out
	}
	if workRoot == "" {
		workRoot = "/var/tmp/C21"
	}
	workRoot = filepath.Join(workRoot, "fsdata")
	defer os.RemoveAll(workRoot)

	if cfg.Replay != "" {
		raw, err := os.ReadFile(cfg.Replay)
		if err != nil {
			return nil, err
		}
		var rp struct {
			Input c21Hist `json:"input"`
		}
		if err := json.Unmarshal(raw, &rp); err != nil {
			return nil, err
		}
		return res, runHistory(res, workRoot, 0, &rp.Input, nil)
	}
	r := hx.NewRng(cfg.Seed)
	serial := 0
	for _, h := range corpus(r) {
		serial++
		res.Count("corpus")
		if err := runHistory(res, workRoot, serial, h, nil); err != nil {
			return nil, err
		}
	}
	if cfg.Tier == "thorough" {
		// exhaustive small scope: every sequence of up to 4 single-id calls (add / update / remove) over three ids
		// of one block, two of them with the same ideal slot and the third sitting in the slot scanned next
		kinds := []string{"add", "update", "remove"}
		var rec func(prefix []int)
		var ferr error
		rec = func(prefix []int) {
			if ferr != nil {
				return
			}
			if len(prefix) > 0 {
				b := newBuilder(r, fmt.Sprintf("exhaustive-%v", prefix), 2)
				ids := []int{b.id(1, 5, 1), b.id(1, 5, 2), b.id(1, 0, 3)}
				for _, c := range prefix {
					k, i := kinds[c/3], ids[c%3]
					if k == "remove" {
						b.remove(i)
					} else {
						b.write(k, i)
					}
				}
				b.getAll()
				serial++
				res.Count("exhaustive")
				ferr = runHistory(res, workRoot, serial, b.h, nil)
			}
			if len(prefix) == 4 {
				return
			}
			for c := 0; c < 9; c++ {
				rec(append(append([]int(nil), prefix...), c))
			}
		}
		rec(nil)
		if ferr != nil {
			return nil, ferr
		}
	}
	n := cfg.N
	if n == 0 {
		n = 80
		if cfg.Tier == "thorough" {
			n = 1000
		}
	}
	for i := 0; i < n; i++ {
		serial++
		h, gen := randomHistory(r, serial, i%25 == 24, i%10 < 7)
		if err := runHistory(res, workRoot, serial, h, gen); err != nil {
			return nil, err
		}
	}
	return res, nil
}

package main

import (
	"verif/harness/hx"
	"verif/harness/protox"
)

func main() {
	hx.Main("c01", func(cfg *hx.RunCfg) (*hx.Result, error) {
		res, err := protox.Run(protox.Mode{Prop: "C01", Faults: true, FailAfter: true, ShapesQuick: 24, ShapesThor: 45, MaxFaults: 14}, cfg, protox.EmitCoq)
		if res != nil {
			res.Imports = []string{"Lib.Bytes", "Proto", "Corr.Proto"}
			res.CaseType = "protocase"
			res.Checker = "proto_check"
			res.Rule = "generated programs (1-3 stores x value placement x slot length 2-8 x op mix forcing new root/split/node removal/update) with a populated prefix; the subject transaction is run fault-free and once per injected failure at an interface call of its commit (fail = not performed, failafter = performed then reported failed); each run in a child process, state read back by a fresh process; distinct = distinct (program, fault) pairs; non-trivial = a fault is injected or the subject has > 2 ops"
		}
		return res, err
	})
}

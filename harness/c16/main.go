package main

import (
	"context"
	"encoding/json"
	"errors"
	"fmt"
	"log/slog"
	"os"
	"path/filepath"
	"strings"
	"time"

	"github.com/sharedcode/sop"
	_ "github.com/sharedcode/sop/cache" // registers the in-memory L2 cache
	"github.com/sharedcode/sop/fs"
	"github.com/sharedcode/sop/infs"

	"verif/harness/hx"
)

// C16: external two-phase participants follow SOP's commit outcome.
// One case = one session (Begin, work, Commit | Rollback) on the real sop.SinglePhaseTransaction that
// wraps a real infs two-phase transaction (behind a recording, fault-injecting decorator) plus n
// scripted participants. Recorded: the call log, top-level results, HasBegun() afterwards and the
// store contents seen by a fresh reader. Direct oracle = the property statement over the call log.

func main() { hx.Main("c16", runC16) }

// ---------------------------------------------------------------- inputs

type partScript struct {
	B  bool `json:"b,omitempty"`  // Begin fails
	P1 bool `json:"p1,omitempty"` // Phase1Commit fails
	P2 bool `json:"p2,omitempty"` // Phase2Commit fails
	R  bool `json:"r,omitempty"`  // Rollback fails
}

// "" real method runs; "before" error without running it; "after" it runs, then an error is reported;
// "natural" (Phase1Commit only) a conflicting commit by another transaction makes the real method fail
type sopScript struct {
	B  string `json:"b,omitempty"`
	P1 string `json:"p1,omitempty"`
	P2 string `json:"p2,omitempty"`
	R  string `json:"r,omitempty"`
}

type c16Input struct {
	Kind    string       `json:"kind"`
	Session string       `json:"session"` // commit | rollback
	Cleanup bool         `json:"cleanup,omitempty"`
	Sop     sopScript    `json:"sop"`
	Parts   []partScript `json:"parts"`
}

// ---------------------------------------------------------------- recording participants

type evt struct {
	Who int // -1 = SOP, otherwise participant index
	Op  string
	OK  bool
}

var errInjected = errors.New("injected failure")

type recorder struct{ log []evt }

func (r *recorder) add(who int, op string, ok bool) { r.log = append(r.log, evt{who, op, ok}) }

type participant struct {
	idx int
	s   partScript
	rec *recorder
	id  sop.UUID
}

func (p *participant) do(op string, fail bool) error {
	p.rec.add(p.idx, op, !fail)
	if fail {
		return fmt.Errorf("participant %d %s: %w", p.idx, op, errInjected)
	}
	return nil
}
func (p *participant) Begin(ctx context.Context) error             { return p.do("B", p.s.B) }
func (p *participant) Phase1Commit(ctx context.Context) error      { return p.do("P1", p.s.P1) }
func (p *participant) Phase2Commit(ctx context.Context) error      { return p.do("P2", p.s.P2) }
func (p *participant) Rollback(ctx context.Context, _ error) error { return p.do("R", p.s.R) }
func (p *participant) HasBegun() bool                              { return false }
func (p *participant) GetMode() sop.TransactionMode                { return sop.ForWriting }
func (p *participant) GetStores(ctx context.Context) ([]string, error) {
	return nil, nil
}
func (p *participant) Close() error                                      { return nil }
func (p *participant) GetID() sop.UUID                                   { return p.id }
func (p *participant) CommitMaxDuration() time.Duration                  { return time.Minute }
func (p *participant) OnCommit(callback func(ctx context.Context) error) {}

// sopDeco records the calls the wrapper makes on SOP's own transaction and injects faults.
type sopDeco struct {
	sop.TwoPhaseCommitTransaction
	s   sopScript
	rec *recorder
}

func (d *sopDeco) call(op, mode string, real func() error) error {
	if mode == "before" {
		d.rec.add(-1, op, false)
		return fmt.Errorf("sop %s: %w", op, errInjected)
	}
	err := real()
	if mode == "after" {
		d.rec.add(-1, op, false)
		if err != nil {
			return err
		}
		return fmt.Errorf("sop %s (after): %w", op, errInjected)
	}
	d.rec.add(-1, op, err == nil)
	return err
}
func (d *sopDeco) Begin(ctx context.Context) error {
	return d.call("B", d.s.B, func() error { return d.TwoPhaseCommitTransaction.Begin(ctx) })
}
func (d *sopDeco) Phase1Commit(ctx context.Context) error {
	return d.call("P1", d.s.P1, func() error { return d.TwoPhaseCommitTransaction.Phase1Commit(ctx) })
}
func (d *sopDeco) Phase2Commit(ctx context.Context) error {
	return d.call("P2", d.s.P2, func() error { return d.TwoPhaseCommitTransaction.Phase2Commit(ctx) })
}
func (d *sopDeco) Rollback(ctx context.Context, e error) error {
	return d.call("R", d.s.R, func() error { return d.TwoPhaseCommitTransaction.Rollback(ctx, e) })
}

// ---------------------------------------------------------------- the store side

var baseDir string
var storeSeq int

func opts(mode sop.TransactionMode) sop.TransactionOptions {
	return sop.TransactionOptions{StoresFolders: []string{baseDir}, Mode: mode, MaxTime: 20 * time.Second,
		RegistryHashModValue: fs.MinimumModValue, CacheType: sop.InMemory}
}

func withTx(ctx context.Context, mode sop.TransactionMode, f func(t sop.Transaction) error) error {
	t, err := infs.NewTransaction(ctx, opts(mode))
	if err != nil {
		return err
	}
	if err := t.Begin(ctx); err != nil {
		return err
	}
	if err := f(t); err != nil {
		t.Rollback(ctx)
		return err
	}
	return t.Commit(ctx)
}

func readStore(ctx context.Context, name string) (map[int]string, error) {
	out := map[int]string{}
	err := withTx(ctx, sop.ForReading, func(t sop.Transaction) error {
		b3, err := infs.OpenBtree[int, string](ctx, name, t, nil)
		if err != nil {
			return err
		}
		ok, err := b3.First(ctx)
		for ok && err == nil {
			k := b3.GetCurrentKey().Key
			v, e := b3.GetCurrentValue(ctx)
			if e != nil {
				return e
			}
			out[k] = v
			ok, err = b3.Next(ctx)
		}
		return err
	})
	return out, err
}

func sameMap(a, b map[int]string) bool {
	if len(a) != len(b) {
		return false
	}
	for k, v := range a {
		if w, ok := b[k]; !ok || w != v {
			return false
		}
	}
	return true
}

// ---------------------------------------------------------------- one session

type observed struct {
	Log      []evt
	Results  []bool
	HasBegun bool
	Store    int // 0 before, 1 session's changes, 2 other
	Detail   string
	beginLen int // log length when Begin returned
}

func runSession(ctx context.Context, in c16Input) (*observed, error) {
	storeSeq++
	name := fmt.Sprintf("c16s%d", storeSeq)
	before := map[int]string{1: "a", 2: "b"}
	after := map[int]string{1: "a2", 3: "c"}
	if err := withTx(ctx, sop.ForWriting, func(t sop.Transaction) error {
		b3, err := infs.NewBtree[int, string](ctx, sop.StoreOptions{Name: name, SlotLength: 8, IsUnique: true, IsValueDataInNodeSegment: true}, t, nil)
		if err != nil {
			return err
		}
		for k, v := range before {
			if ok, err := b3.Add(ctx, k, v); err != nil || !ok {
				return fmt.Errorf("setup add %d: ok=%v err=%v", k, ok, err)
			}
		}
		return nil
	}); err != nil {
		return nil, fmt.Errorf("setup: %w", err)
	}

	real, err := infs.NewTwoPhaseCommitTransaction(ctx, opts(sop.ForWriting))
	if err != nil {
		return nil, err
	}
	rec := &recorder{}
	plain, _ := sop.NewTransaction(sop.ForWriting, real) // same underlying transaction; used to open the B-tree
	wrapped, _ := sop.NewTransaction(sop.ForWriting, &sopDeco{TwoPhaseCommitTransaction: real, s: in.Sop, rec: rec})
	for i, ps := range in.Parts {
		wrapped.AddPhasedTransaction(&participant{idx: i, s: ps, rec: rec, id: sop.NewUUID()})
	}
	ob := &observed{}
	berr := wrapped.Begin(ctx)
	ob.Results = append(ob.Results, berr == nil)
	ob.beginLen = len(rec.log)
	if berr == nil {
		b3, err := infs.OpenBtree[int, string](ctx, name, plain, nil)
		if err != nil {
			return nil, fmt.Errorf("open: %w", err)
		}
		if ok, err := b3.Add(ctx, 3, "c"); err != nil || !ok {
			return nil, fmt.Errorf("add: ok=%v err=%v", ok, err)
		}
		if ok, err := b3.Update(ctx, 1, "a2"); err != nil || !ok {
			return nil, fmt.Errorf("update: ok=%v err=%v", ok, err)
		}
		if ok, err := b3.Remove(ctx, 2); err != nil || !ok {
			return nil, fmt.Errorf("remove: ok=%v err=%v", ok, err)
		}
		if in.Sop.P1 == "natural" && in.Session == "commit" {
			// another transaction commits a change of an item this one has modified
			if err := withTx(ctx, sop.ForWriting, func(t sop.Transaction) error {
				o, err := infs.OpenBtree[int, string](ctx, name, t, nil)
				if err != nil {
					return err
				}
				if ok, err := o.Update(ctx, 1, "z"); err != nil || !ok {
					return fmt.Errorf("conflicting update: ok=%v err=%v", ok, err)
				}
				return nil
			}); err != nil {
				return nil, fmt.Errorf("conflicting writer: %w", err)
			}
			before = map[int]string{1: "z", 2: "b"}
		}
		var rerr error
		if in.Session == "commit" {
			rerr = wrapped.Commit(ctx)
		} else {
			rerr = wrapped.Rollback(ctx)
		}
		ob.Results = append(ob.Results, rerr == nil)
		if rerr != nil {
			ob.Detail = rerr.Error()
		}
	} else {
		ob.Detail = berr.Error()
		if in.Cleanup {
			rerr := wrapped.Rollback(ctx)
			ob.Results = append(ob.Results, rerr == nil)
		}
	}
	ob.Log = rec.log
	ob.HasBegun = real.HasBegun()
	got, err := readStore(ctx, name)
	switch {
	case err != nil:
		ob.Store = 2
		ob.Detail += " | read: " + err.Error()
	case sameMap(got, before):
		ob.Store = 0
	case sameMap(got, after):
		ob.Store = 1
	default:
		ob.Store = 2
		ob.Detail += fmt.Sprintf(" | store=%v", got)
	}
	// a later writer must not be blocked by anything the session left behind
	if err := withTx(ctx, sop.ForWriting, func(t sop.Transaction) error {
		o, err := infs.OpenBtree[int, string](ctx, name, t, nil)
		if err != nil {
			return err
		}
		if ok, err := o.Update(ctx, 1, "w"); err != nil || !ok {
			return fmt.Errorf("later update: ok=%v err=%v", ok, err)
		}
		return nil
	}); err != nil {
		ob.Detail += " | later writer: " + err.Error()
		ob.Store = 2
	}
	if !ob.HasBegun {
		real.Close()
	}
	return ob, nil
}

// ---------------------------------------------------------------- printing

func coqWho(w int) string {
	if w < 0 {
		return "Sop"
	}
	return fmt.Sprintf("(Part %d%%nat)", w)
}

var coqOp = map[string]string{"B": "OBegin", "P1": "OP1", "P2": "OP2", "R": "ORollback"}
var coqFault = map[string]string{"": "FNone", "before": "FBefore", "after": "FAfter", "natural": "FNatural"}

func coqCase(in c16Input, ob *observed) string {
	var ps, ev, rs []string
	for _, p := range in.Parts {
		ps = append(ps, fmt.Sprintf("P %s %s %s %s", hx.CoqBool(p.B), hx.CoqBool(p.P1), hx.CoqBool(p.P2), hx.CoqBool(p.R)))
	}
	for _, e := range ob.Log {
		ev = append(ev, fmt.Sprintf("E %s %s %s", coqWho(e.Who), coqOp[e.Op], hx.CoqBool(e.OK)))
	}
	for _, r := range ob.Results {
		rs = append(rs, hx.CoqBool(r))
	}
	k := "SCommit"
	if in.Session == "rollback" {
		k = "SRollback"
	}
	return fmt.Sprintf("SessionCase %s %s (SScript %s %s %s %s) %s %s %s %s %d", k, hx.CoqBool(in.Cleanup),
		coqFault[in.Sop.B], coqFault[in.Sop.P1], coqFault[in.Sop.P2], coqFault[in.Sop.R],
		hx.CoqList(ps), hx.CoqList(ev), hx.CoqList(rs), hx.CoqBool(ob.HasBegun), ob.Store)
}

func logString(l []evt) string {
	var sb strings.Builder
	for i, e := range l {
		if i > 0 {
			sb.WriteString(" ")
		}
		w := "SOP"
		if e.Who >= 0 {
			w = fmt.Sprintf("p%d", e.Who)
		}
		r := "ok"
		if !e.OK {
			r = "FAIL"
		}
		fmt.Fprintf(&sb, "%s.%s=%s", w, e.Op, r)
	}
	return sb.String()
}

// ---------------------------------------------------------------- the property over the call log

func firstIdx(l []evt, from int, pred func(evt) bool) int {
	for i := from; i < len(l); i++ {
		if pred(l[i]) {
			return i
		}
	}
	return -1
}

func count(l []evt, pred func(evt) bool) int {
	n := 0
	for _, e := range l {
		if pred(e) {
			n++
		}
	}
	return n
}

func oracle(res *hx.Result, in c16Input, ob *observed) {
	n := len(in.Parts)
	l := ob.Log
	desc := fmt.Sprintf("session=%s cleanup=%v sop=%+v parts=%+v: log [%s] results=%v hasBegun=%v store=%d %s", in.Session, in.Cleanup, in.Sop, in.Parts, logString(l), ob.Results, ob.HasBegun, ob.Store, ob.Detail)
	is := func(who int, op string) func(evt) bool {
		return func(e evt) bool { return e.Who == who && e.Op == op }
	}
	// 1. no participant's second phase unless every first phase and SOP's second phase succeeded before it
	for i, e := range l {
		if e.Who < 0 || e.Op != "P2" {
			continue
		}
		pre := l[:i]
		okAll := count(pre, func(x evt) bool { return x.Who == -1 && x.Op == "P1" && x.OK }) == 1 &&
			count(pre, func(x evt) bool { return x.Who == -1 && x.Op == "P2" && x.OK }) == 1 &&
			count(pre, func(x evt) bool { return (x.Op == "P1" || (x.Op == "P2" && x.Who == -1)) && !x.OK }) == 0
		for j := 0; j < n; j++ {
			if count(pre, func(x evt) bool { return x.Who == j && x.Op == "P1" && x.OK }) != 1 {
				okAll = false
			}
		}
		if !okAll {
			res.Fail("participant-p2-without-commit", desc, in)
			break
		}
	}
	// 2. anything failing before that: SOP rolled back, every participant asked to roll back, no second phase
	f := firstIdx(l, ob.beginLen, func(e evt) bool { return !e.OK && (e.Op == "P1" || (e.Op == "P2" && e.Who == -1)) })
	if f >= 0 {
		res.Count("fail-position." + map[bool]string{true: "sop", false: "participant"}[l[f].Who < 0] + "." + l[f].Op)
		miss := firstIdx(l, f+1, is(-1, "R")) < 0
		for j := 0; j < n; j++ {
			if firstIdx(l, f+1, is(j, "R")) < 0 {
				miss = true
			}
		}
		if miss {
			res.Fail("rollback-fanout-missing", desc, in)
		}
		if count(l, func(e evt) bool { return e.Who >= 0 && e.Op == "P2" }) > 0 {
			res.Fail("participant-p2-after-failure", desc, in)
		}
		if ob.Store != 0 {
			res.Fail("store-changed-after-failed-commit", desc, in)
		}
		if len(ob.Results) < 2 || ob.Results[1] {
			res.Fail("commit-reports-success-after-failure", desc, in)
		}
	}
	// 3. a failing Begin: by the time Begin returns, whoever had begun must have been asked to roll back
	bf := firstIdx(l[:ob.beginLen], 0, func(e evt) bool { return !e.OK && e.Op == "B" })
	if bf >= 0 {
		if l[bf].Who >= 0 {
			res.Count("fail-position.participant.B")
			pre := l[:ob.beginLen]
			miss := firstIdx(pre, bf+1, is(-1, "R")) < 0
			for j := 0; j < l[bf].Who; j++ {
				if firstIdx(pre, bf+1, is(j, "R")) < 0 {
					miss = true
				}
			}
			if miss {
				res.Fail("begin-failure-no-rollback-fanout", desc, in)
			}
			// nothing may stay begun: SOP's transaction has been ended by that Rollback; participants
			// from the failing one on never began and get no other call while Begin runs
			if ob.HasBegun {
				res.Fail("begin-failure-leaves-sop-begun", desc, in)
			}
			if count(pre, func(e evt) bool { return e.Who >= l[bf].Who }) != 1 {
				res.Fail("begin-failure-calls-unbegun-participant", desc, in)
			}
		} else {
			res.Count("fail-position.sop.B")
			if count(l[:ob.beginLen], func(e evt) bool { return e.Who >= 0 }) > 0 {
				res.Fail("participant-called-after-sop-begin-failure", desc, in)
			}
		}
		if ob.Store != 0 {
			res.Fail("store-changed-after-failed-begin", desc, in)
		}
	}
	// 4. a successful commit: every participant's second phase exactly once, nothing rolled back, changes stored
	if f < 0 && bf < 0 && in.Session == "commit" {
		res.Count("outcome.committed")
		bad := count(l, func(e evt) bool { return e.Op == "R" }) > 0 || ob.Store != 1 || len(ob.Results) != 2 || !ob.Results[1] || ob.HasBegun
		for j := 0; j < n; j++ {
			if count(l, is(j, "P2")) != 1 {
				bad = true
			}
		}
		if bad {
			res.Fail("successful-commit-incomplete", desc, in)
		}
	}
	// 5. a requested rollback (session or cleanup) reaches SOP and every participant exactly once, whatever fails
	if (bf < 0 && in.Session == "rollback") || (bf >= 0 && in.Cleanup) {
		res.Count("outcome.rollback-requested")
		post := l[ob.beginLen:]
		bad := count(post, is(-1, "R")) != 1 || ob.Store != 0
		for j := 0; j < n; j++ {
			if count(post, is(j, "R")) != 1 {
				bad = true
			}
		}
		if count(post, func(e evt) bool { return e.Op == "P1" || e.Op == "P2" }) > 0 {
			bad = true
		}
		if bad {
			res.Fail("rollback-does-not-reach-everyone", desc, in)
		}
	}
	if ob.Store == 2 {
		res.Fail("store-unexpected", desc, in)
	}
}

func c16Session(ctx context.Context, res *hx.Result, in c16Input) error {
	ob, err := runSession(ctx, in)
	if err != nil {
		return err
	}
	canon, _ := json.Marshal(in)
	nFaults := 0
	for _, s := range []string{in.Sop.B, in.Sop.P1, in.Sop.P2, in.Sop.R} {
		if s != "" {
			nFaults++
		}
	}
	for _, p := range in.Parts {
		for _, b := range []bool{p.B, p.P1, p.P2, p.R} {
			if b {
				nFaults++
			}
		}
	}
	res.Seen(string(canon), nFaults > 0 && len(in.Parts) > 0)
	res.Count(fmt.Sprintf("participants.%d", len(in.Parts)))
	res.Count(fmt.Sprintf("faults.%d", nFaults))
	res.Count("session." + in.Session)
	oracle(res, in, ob)
	res.AddCase(coqCase(in, ob), in)
	res.Sample(map[string]any{"input": in, "log": logString(ob.Log), "results": ob.Results, "store": ob.Store})
	return nil
}

// ---------------------------------------------------------------- enumeration of failure positions

type position struct {
	who int // -1 SOP
	op  string
	how string // SOP only
}

func positions(n int) []position {
	ps := []position{{-1, "B", "before"}, {-1, "B", "after"}, {-1, "P1", "before"}, {-1, "P1", "after"}, {-1, "P1", "natural"}, {-1, "P2", "before"}, {-1, "R", "after"}}
	for i := 0; i < n; i++ {
		for _, op := range []string{"B", "P1", "P2", "R"} {
			ps = append(ps, position{who: i, op: op})
		}
	}
	return ps
}

// apply returns false when two positions name the same operation of the same party
func apply(in *c16Input, p position) bool {
	if p.who < 0 {
		f := map[string]*string{"B": &in.Sop.B, "P1": &in.Sop.P1, "P2": &in.Sop.P2, "R": &in.Sop.R}[p.op]
		if *f != "" {
			return false
		}
		*f = p.how
		return true
	}
	f := map[string]*bool{"B": &in.Parts[p.who].B, "P1": &in.Parts[p.who].P1, "P2": &in.Parts[p.who].P2, "R": &in.Parts[p.who].R}[p.op]
	if *f {
		return false
	}
	*f = true
	return true
}

func mk(n int, session string, cleanup bool, ps ...position) (c16Input, bool) {
	in := c16Input{Kind: "session", Session: session, Cleanup: cleanup, Parts: make([]partScript, n)}
	for _, p := range ps {
		if !apply(&in, p) {
			return in, false
		}
	}
	return in, true
}

// subsets of failure positions of size <= k for n participants, both sessions
func enumerate(n, k int, emit func(c16Input)) {
	pos := positions(n)
	var rec func(start int, chosen []position)
	rec = func(start int, chosen []position) {
		for _, session := range []string{"commit", "rollback"} {
			if in, ok := mk(n, session, false, chosen...); ok {
				emit(in)
				if in.Sop.B != "" || anyBegin(in.Parts) {
					c, _ := mk(n, session, true, chosen...)
					if session == "commit" { // cleanup after a failed Begin does not depend on the session kind
						emit(c)
					}
				}
			}
		}
		if len(chosen) == k {
			return
		}
		for i := start; i < len(pos); i++ {
			rec(i+1, append(append([]position{}, chosen...), pos[i]))
		}
	}
	rec(0, nil)
}

func anyBegin(ps []partScript) bool {
	for _, p := range ps {
		if p.B {
			return true
		}
	}
	return false
}

func genRandom(r *hx.Rng, maxN int) c16Input {
	n := r.Intn(maxN + 1)
	in := c16Input{Kind: "session", Session: hx.Pick(r, []string{"commit", "commit", "rollback"}), Cleanup: r.Bool(), Parts: make([]partScript, n)}
	pct := hx.Pick(r, []int{5, 15, 35})
	for i := range in.Parts {
		in.Parts[i] = partScript{B: r.Chance(pct / 2), P1: r.Chance(pct), P2: r.Chance(pct), R: r.Chance(pct)}
	}
	if r.Chance(pct / 2) {
		in.Sop.B = hx.Pick(r, []string{"before", "after"})
	}
	if r.Chance(pct) {
		in.Sop.P1 = hx.Pick(r, []string{"before", "after", "natural"})
	}
	if r.Chance(pct) {
		in.Sop.P2 = "before"
	}
	if r.Chance(pct) {
		in.Sop.R = "after"
	}
	return in
}

func runC16(cfg *hx.RunCfg) (*hx.Result, error) {
	slog.SetLogLoggerLevel(slog.LevelError) // the conflict scenario makes the commit loop log warnings
	slog.SetDefault(slog.New(slog.NewTextHandler(os.Stderr, &slog.HandlerOptions{Level: slog.LevelError})))
	res := hx.NewResult("C16")
	res.Imports = []string{"Lib.Bytes", "TwoPC", "Corr.C16"}
	res.CaseType = "c16case"
	res.Checker = "c16_check"
	res.Rule = "one evaluation = one session (Begin; work; Commit or Rollback; optional Rollback after a failed Begin) on the real SinglePhaseTransaction over a real infs transaction and 0-3 (random stream: up to 5) scripted participants; failure positions: SOP Begin/Phase1 (injected before, injected after, natural conflict)/Phase2/Rollback and each participant's Begin/Phase1/Phase2/Rollback; quick = every subset of at most 2 positions for 0-3 participants, thorough = at most 3 (4 for 0-2 participants) plus a larger random stream; distinct = distinct script; non-trivial = at least one participant and one fault"
	dir := os.Getenv("VERIF_WORK")
	if dir == "" {
		dir = os.TempDir()
	}
	var err error
	baseDir, err = os.MkdirTemp(dir, "c16data-")
	if err != nil {
		return nil, err
	}
	defer os.RemoveAll(baseDir)
	baseDir, _ = filepath.Abs(baseDir)
	ctx := context.Background()

	if cfg.Replay != "" {
		raw, err := os.ReadFile(cfg.Replay)
		if err != nil {
			return nil, err
		}
		var rp struct {
			Input c16Input `json:"input"`
		}
		if err := json.Unmarshal(raw, &rp); err != nil {
			return nil, err
		}
		return res, c16Session(ctx, res, rp.Input)
	}
	seen := map[string]bool{}
	var firstErr error
	emit := func(in c16Input) {
		k, _ := json.Marshal(in)
		if seen[string(k)] || firstErr != nil {
			return
		}
		seen[string(k)] = true
		firstErr = c16Session(ctx, res, in)
	}
	// corpus: a participant's Begin fails after SOP and participant 0 have begun (the repaired defect
	// begin-failure-no-rollback-fanout: every run must see the fan-out)
	in, _ := mk(2, "commit", false, position{who: 1, op: "B"})
	emit(in)
	in, _ = mk(1, "commit", false)
	emit(in)
	in, _ = mk(3, "commit", false, position{who: 1, op: "P1"}, position{who: 0, op: "R"})
	emit(in)
	in, _ = mk(2, "commit", false, position{-1, "P2", "before"})
	emit(in)
	k3, k2, nRand := 2, 2, 150
	if cfg.Tier == "thorough" {
		k3, k2, nRand = 3, 4, 4000
	}
	for n := 0; n <= 3; n++ {
		k := k3
		if n <= 2 {
			k = k2
		}
		enumerate(n, k, emit)
	}
	if cfg.N > 0 {
		nRand = cfg.N
	}
	r := hx.NewRng(cfg.Seed)
	for i := 0; i < nRand; i++ {
		emit(genRandom(r, 5))
	}
	return res, firstErr
}

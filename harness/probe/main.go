package main

import (
	"context"
	"encoding/json"
	"fmt"
	"os"
	"time"

	"github.com/sharedcode/sop"

	"verif/harness/hx"
	"verif/harness/sopx"
)

func main() {
	if len(os.Args) > 1 {
		hx.Main("probe", nil)
	}
	ctx := context.Background()
	dir := "/var/tmp/probe1"
	os.RemoveAll(dir)
	e, _ := sopx.NewEnv(dir, 2)
	run := func(label string, f func(t *sopx.Txn) error) {
		t, err := e.NewTxn(ctx, sop.ForWriting, time.Minute, label, false)
		if err != nil {
			panic(err)
		}
		t.Begin(ctx)
		if err := f(t); err != nil {
			fmt.Println("ops err", err)
		}
		e.Rec.Reset()
		e.Rec.Arm()
		err = t.Commit(ctx)
		e.Rec.Disarm()
		fmt.Println("=== ", label, "commit:", err)
		for _, ev := range e.Rec.Snapshot() {
			b, _ := json.Marshal(ev)
			fmt.Println(string(b))
		}
	}
	o := sopx.StoreOpts{Name: "s1", Slot: 4, Unique: true, InNode: true}
	run("t1", func(t *sopx.Txn) error {
		b, err := t.NewStore(ctx, o)
		if err != nil {
			return err
		}
		for i := 0; i < 3; i++ {
			b.Add(ctx, i, fmt.Sprint("v", i))
		}
		return nil
	})
	run("t2", func(t *sopx.Txn) error {
		b, err := t.OpenStore(ctx, "s1")
		if err != nil {
			return err
		}
		for i := 3; i < 12; i++ {
			b.Add(ctx, i, fmt.Sprint("v", i))
		}
		return nil
	})
	run("t3", func(t *sopx.Txn) error {
		b, err := t.OpenStore(ctx, "s1")
		if err != nil {
			return err
		}
		for i := 0; i < 9; i++ {
			b.Remove(ctx, i)
		}
		return nil
	})
	d := sopx.DumpFresh(dir, 2, true)
	b, _ := json.Marshal(d)
	fmt.Println(string(b))
	raw, _ := sopx.ReadRaw(dir)
	for n, s := range raw.Stores {
		fmt.Println(n, len(s.Handles), len(s.Blobs), s.Info.Count, raw.TLogs, raw.PLogs, raw.Other)
	}
}

package main

import (
	"encoding/json"
	"fmt"
	"os"

	"verif/harness/hx"
	"verif/harness/protox"
	"verif/harness/sopx"
)

func main() {
	if len(os.Args) > 1 && os.Args[1] != "run" {
		hx.Main("probe", nil)
	}
	root := "/var/tmp/probe2"
	os.RemoveAll(root)
	os.MkdirAll(root, 0o755)
	st := []sopx.StoreOpts{{Name: "st1", Slot: 4, Unique: true}}
	folder := root + "/db"
	run := func(label string, ops []protox.Op) {
		out, err := protox.RunTxn(&protox.ChildIn{Folder: folder, HashMod: 2, Stores: st, Txn: protox.TxnSpec{Ops: ops, End: "commit", Fault: protox.Fault{Index: -1}}, Label: label}, root)
		fmt.Println(label, err, out.EndErr, out.OpResults)
		for _, ev := range out.Events {
			if ev.Iface == "blob" || ev.Iface == "reg" {
				b, _ := json.Marshal(ev)
				fmt.Println("   ", string(b))
			}
		}
		rep := protox.Orphans(folder)
		fmt.Println("   orphans:", rep.Problems, "blobs", rep.Blobs, "valueblobs", rep.ValueBlobs)
	}
	run("t0", []protox.Op{{Store: 0, Kind: "add", Key: 1, Val: "a"}, {Store: 0, Kind: "add", Key: 2, Val: "b"}, {Store: 0, Kind: "add", Key: 3, Val: "c"}})
	run("t1", []protox.Op{{Store: 0, Kind: "rem", Key: 2}})
	run("t2", []protox.Op{{Store: 0, Kind: "upd", Key: 1, Val: "zz"}})
}

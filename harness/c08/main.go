package main

import (
	"verif/harness/hx"
	"verif/harness/protox"
)

func main() {
	hx.Main("c08", func(cfg *hx.RunCfg) (*hx.Result, error) {
		res, err := protox.RunCrash(cfg, 10, 40, 10)
		if res != nil {
			res.Imports = []string{"Lib.Bytes", "Proto", "ProtoCrash", "Corr.Proto", "Corr.C08"}
			res.CaseType = "crashcase"
			res.Checker = "crash_check"
			res.Rule = "the subject transaction of each corpus / generated program is run in a child process that exits just before a chosen durable interface call of its commit (every such call for the corpus; a sample per generated shape in quick tier), or in the middle of the per-handle writes of a registry batch; then fresh processes read every store (must equal the state before or after the transaction, Count = number of items) and a new writer must be able to commit on the same stores; distinct = distinct (program, crash point); non-trivial = the crash point was reached"
		}
		return res, err
	})
}

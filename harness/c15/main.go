package main

// C15: commits end within their time budget and never deadlock (partial claim).
// Wall-clock Commit durations of 2-8 contending writers on one sopx.Env
// (opposite key orders, a holder stalled at a gate while owning node and item
// locks, a holder whose goroutine dies while owning them), small maxTime and
// context deadlines.  Oracle: every Commit returns within
// min(deadline, maxTime) + B, B = the model's overheadB (Timeout.v) instantiated
// with the MEASURED per-call maximum, call count and handle count of that
// transaction; after error returns a follow-up transaction on the same keys
// commits at once (no leftover locks); no scenario hangs (watchdog).

import (
	"context"
	"encoding/json"
	"errors"
	"fmt"
	"os"
	"runtime"
	"strings"
	"sync"
	"time"

	"github.com/sharedcode/sop"

	"verif/harness/hx"
	"verif/harness/sopx"
)

func main() { hx.Main("c15", runC15) }

type scenario struct {
	Kind         string `json:"kind"` // opposite | stalled | killed
	Writers      int    `json:"writers"`
	MaxTimeMs    int    `json:"max_time_ms"`
	DeadlineMs   int    `json:"deadline_ms,omitempty"` // context deadline of the writers, 0 = none
	HolderMaxMs  int    `json:"holder_max_ms,omitempty"`
	RetryStartMs int    `json:"retry_start_ms"`
	Seed         uint64 `json:"seed"`
	// deterministic caller-budget scenarios (kind stalled, the holder owns the node locks for the whole wait):
	CancelMs int    `json:"cancel_ms,omitempty"` // the writers' context is cancelled after this many ms
	Expect   string `json:"expect,omitempty"`    // deadline | cancel | maxtime: which budget must end the wait
}

const nKeys = 48

type stats struct {
	mu       sync.Mutex
	start    map[*sopx.Event]time.Time
	maxCall  map[string]time.Duration
	calls    map[string]int
	handles  map[string]int
	rounds   map[string]int
	lockKeys map[string]map[string]bool // node lock key names requested, per transaction
	seg      map[string]int             // calls since the transaction's last node-lock attempt
	segMax   map[string]int             // largest such segment (pre-loop, one loop round, or body+post+rollback+phase 2)
	latency  time.Duration              // largest timer overshoot seen by the probe goroutine (scheduling noise)
}

func newStats() *stats {
	return &stats{start: map[*sopx.Event]time.Time{}, maxCall: map[string]time.Duration{}, calls: map[string]int{}, handles: map[string]int{}, rounds: map[string]int{}, lockKeys: map[string]map[string]bool{}, seg: map[string]int{}, segMax: map[string]int{}}
}

// model constants (Gen/TimeoutConsts.v: unit 20 ms, multiplier 1..4; fibonacci total 12)
const sleepMaxMs = 80

func overheadB(cCall, nH, nCalls, regionWait, retryStart int64) int64 {
	regWrite := regionWait + 3*cCall
	pre := nCalls * cCall
	iter := nCalls*cCall + 2*nH*regWrite
	post := nCalls*cCall + retryStart*12
	rb := nCalls*cCall + retryStart*12 + 2*nH*regWrite
	return pre + iter + sleepMaxMs + post + rb
}

type outcome struct {
	Label   string
	Elapsed time.Duration
	Err     error
}

func runScenario(res *hx.Result, sc scenario, idx int) {
	ctx := context.Background()
	dir := fmt.Sprintf("/var/tmp/C15/s%d-%d", os.Getpid(), idx)
	os.RemoveAll(dir)
	defer os.RemoveAll(dir)
	sop.RetryStartDuration = time.Duration(sc.RetryStartMs) * time.Millisecond
	e, err := sopx.NewEnv(dir, 2)
	if err != nil {
		res.Fail("harness", err.Error(), sc)
		return
	}
	js, _ := json.Marshal(sc)
	res.Seen(string(js), true)
	res.Count("scenario." + sc.Kind)
	res.Count(fmt.Sprintf("writers.%d", sc.Writers))
	// seed the store
	{
		t, _ := e.NewTxn(ctx, sop.ForWriting, time.Minute, "seed", true)
		t.Begin(ctx)
		b, err := t.NewStore(ctx, sopx.StoreOpts{Name: "s", Slot: 4, Unique: true, InNode: true})
		if err != nil {
			res.Fail("harness", err.Error(), sc)
			return
		}
		for k := 0; k < nKeys; k++ {
			b.Add(ctx, k, "v")
		}
		if err := t.Commit(ctx); err != nil {
			res.Fail("harness", "seed commit: "+err.Error(), sc)
			return
		}
	}
	st := newStats()
	gate := make(chan struct{})
	holderAt := make(chan struct{}, 1)
	var once sync.Once
	e.Rec.Before = func(ev *sopx.Event) sopx.Action {
		if ev.Txn == "H" && ev.Iface == "tlog" && ev.Method == "Add" && ev.Step == 10 {
			// the holder owns its node locks and item lock records here
			once.Do(func() { holderAt <- struct{}{} })
			if sc.Kind == "killed" {
				runtime.Goexit()
			}
			<-gate
		}
		st.mu.Lock()
		st.start[ev] = time.Now()
		st.mu.Unlock()
		return sopx.Proceed
	}
	e.Rec.After = func(ev *sopx.Event) {
		now := time.Now()
		st.mu.Lock()
		if t0, ok := st.start[ev]; ok {
			d := now.Sub(t0)
			if d > st.maxCall[ev.Txn] {
				st.maxCall[ev.Txn] = d
			}
			delete(st.start, ev)
		}
		st.calls[ev.Txn]++
		if ev.Iface == "l2" && ev.Method == "Lock" {
			if st.seg[ev.Txn] > st.segMax[ev.Txn] {
				st.segMax[ev.Txn] = st.seg[ev.Txn]
			}
			st.seg[ev.Txn] = 0
		}
		st.seg[ev.Txn]++
		if st.seg[ev.Txn] > st.segMax[ev.Txn] {
			st.segMax[ev.Txn] = st.seg[ev.Txn]
		}
		if ev.Iface == "reg" && ev.Method != "Get" {
			st.handles[ev.Txn] += len(ev.Handles) + len(ev.IDs)
		}
		if ev.Iface == "l2" && ev.Method == "Lock" {
			st.rounds[ev.Txn]++
		}
		if ev.Iface == "l2" && (ev.Method == "Lock" || ev.Method == "DualLock") {
			if st.lockKeys[ev.Txn] == nil {
				st.lockKeys[ev.Txn] = map[string]bool{}
			}
			for _, n := range ev.Names {
				st.lockKeys[ev.Txn][n] = true
			}
		}
		st.mu.Unlock()
	}
	// scheduling-noise probe: how late a 1 ms timer fires while the scenario runs; added to the per-call bound so that
	// a loaded machine can only widen the allowance, never produce an alarm
	probeStop := make(chan struct{})
	defer close(probeStop)
	go func() {
		for {
			select {
			case <-probeStop:
				return
			default:
			}
			t0 := time.Now()
			time.Sleep(time.Millisecond)
			if over := time.Since(t0) - time.Millisecond; over > 0 {
				st.mu.Lock()
				if over > st.latency {
					st.latency = over
				}
				st.mu.Unlock()
			}
		}
	}()
	e.Rec.Arm()

	prepare := func(label string, maxTime time.Duration, keys []int) (*sopx.Txn, error) {
		t, err := e.NewTxn(ctx, sop.ForWriting, maxTime, label, false)
		if err != nil {
			return nil, err
		}
		t.Begin(ctx)
		b, err := t.OpenStore(ctx, "s")
		if err != nil {
			return nil, err
		}
		for _, k := range keys {
			if _, err := b.Update(ctx, k, "u"+label); err != nil {
				return nil, err
			}
		}
		return t, nil
	}
	keysOf := func(i, n int, desc bool) []int {
		var ks []int
		for k := i; k < nKeys; k += n {
			ks = append(ks, k)
		}
		if desc {
			for a, b := 0, len(ks)-1; a < b; a, b = a+1, b-1 {
				ks[a], ks[b] = ks[b], ks[a]
			}
		}
		return ks
	}

	holderDone := make(chan error, 1)
	if sc.Kind != "opposite" {
		hm := time.Duration(sc.HolderMaxMs) * time.Millisecond
		h, err := prepare("H", hm, keysOf(0, sc.Writers+1, false))
		if err != nil {
			res.Fail("harness", "holder: "+err.Error(), sc)
			return
		}
		go func() {
			defer func() { holderDone <- fmt.Errorf("holder goroutine ended") }()
			err := h.Commit(ctx)
			holderDone <- err
		}()
		select {
		case <-holderAt:
		case <-time.After(20 * time.Second):
			res.Fail("hang:holder-never-reached-gate", "the holder did not reach the beforeFinalize log step", sc)
			close(gate)
			return
		}
	}

	maxTime := time.Duration(sc.MaxTimeMs) * time.Millisecond
	outs := make(chan outcome, sc.Writers)
	var txs []*sopx.Txn
	n := sc.Writers
	if sc.Kind != "opposite" {
		n = sc.Writers + 1
	}
	for i := 0; i < sc.Writers; i++ {
		slot := i
		if sc.Kind != "opposite" {
			slot = i + 1
		}
		t, err := prepare(fmt.Sprintf("W%d", i), maxTime, keysOf(slot, n, i%2 == 1))
		if err != nil {
			res.Fail("harness", "writer prepare: "+err.Error(), sc)
			return
		}
		txs = append(txs, t)
	}
	startAll := make(chan struct{})
	for i, t := range txs {
		go func(i int, t *sopx.Txn) {
			<-startAll
			cctx := ctx
			if sc.DeadlineMs > 0 {
				var cancel context.CancelFunc
				cctx, cancel = context.WithTimeout(ctx, time.Duration(sc.DeadlineMs)*time.Millisecond)
				defer cancel()
			}
			if sc.CancelMs > 0 {
				var cancel context.CancelFunc
				cctx, cancel = context.WithCancel(cctx)
				tm := time.AfterFunc(time.Duration(sc.CancelMs)*time.Millisecond, cancel)
				defer tm.Stop()
				defer cancel()
			}
			t0 := time.Now()
			err := t.Commit(cctx)
			outs <- outcome{Label: t.Label, Elapsed: time.Since(t0), Err: err}
		}(i, t)
	}
	close(startAll)
	watchdog := time.After(time.Duration(sc.MaxTimeMs+sc.HolderMaxMs)*time.Millisecond + 45*time.Second)
	var got []outcome
	for len(got) < sc.Writers {
		select {
		case o := <-outs:
			got = append(got, o)
		case <-watchdog:
			res.Fail("hang:"+sc.Kind, fmt.Sprintf("%d of %d writers did not return from Commit (maxTime %d ms)", sc.Writers-len(got), sc.Writers, sc.MaxTimeMs), sc)
			if sc.Kind == "stalled" {
				close(gate)
			}
			return
		}
	}
	anyErr := false
	for _, o := range got {
		if o.Err != nil {
			anyErr = true
		}
	}
	// (b) after the error returns, a follow-up on the keys of the failed writers commits at once.  For the
	// stalled scenario the holder is released first (its own locks are legitimately held until then).
	if sc.Kind == "stalled" {
		close(gate)
		select {
		case <-holderDone:
		case <-time.After(30 * time.Second):
			res.Fail("hang:holder", "released holder did not finish", sc)
			return
		}
	}
	if sc.Kind == "killed" {
		// the dead holder's locks expire with its maxTime (lock TTL); wait that long, not longer
		time.Sleep(time.Duration(sc.HolderMaxMs)*time.Millisecond + 100*time.Millisecond)
	}
	released := true
	if sc.Kind != "killed" {
		// direct probe of the lock table: every node lock key a writer asked for is free once all writers
		// have returned (successful ones unlock in phase 2) and the stalled holder has finished
		st.mu.Lock()
		var names []string
		for lbl, m := range st.lockKeys {
			if lbl == "F" {
				continue
			}
			for n := range m {
				names = append(names, n)
			}
		}
		st.mu.Unlock()
		for _, n := range names {
			if locked, _ := e.Cache.IsLockedByOthers(ctx, []string{n}); locked {
				released = false
				res.Fail("node-locks-left-behind:"+sc.Kind, fmt.Sprintf("lock key %s is still held after every transaction returned (any writer failed=%v)", n, anyErr), sc)
				break
			}
		}
	}
	if sc.Kind == "killed" {
		// the dead holder's half-committed handles stay in the registry (recovering them is property C09's
		// subject, not a lock): a follow-up on the same nodes cannot tell that apart from a leftover lock
		res.Count("followup.skipped_killed")
	} else {
		var ks []int
		for k := 0; k < nKeys; k++ {
			ks = append(ks, k)
		}
		f, err := prepare("F", 30*time.Second, ks)
		if err != nil {
			res.Fail("followup-prepare", err.Error(), sc)
			return
		}
		t0 := time.Now()
		done := make(chan error, 1)
		go func() { done <- f.Commit(ctx) }()
		select {
		case err := <-done:
			el := time.Since(t0)
			// Lock release is judged by what it is about: node locks by the lock-table probe above, item lock
			// records by the conflict the follow-up gets.  Its duration is NOT a criterion (load-sensitive).
			res.Count("followup.elapsed_ms." + fmt.Sprint(bucket(int(el/time.Millisecond)/50)))
			switch {
			case err == nil:
			case strings.Contains(err.Error(), "lock(item"):
				// the message text is the only discriminator between an item lock record and anything else
				released = false
				res.Fail("item-lock-records-left-behind", fmt.Sprintf("follow-up transaction on the same keys: err=%v after %v (maxTime of the writers %v, any writer failed=%v)", err, el, maxTime, anyErr), sc)
			case sc.DeadlineMs > 0 && sc.Expect == "" && strings.Contains(err.Error(), "exceeded retry limit"):
				// not a lock: a writer whose context expired mid-commit rolls back under the expired context and
				// cannot undo its registry claims (inactive ids with a fresh timestamp); the next writer of those
				// nodes is refused for the IsExpiredInactive window.  Recorded under C07/C08
				// (retry-blocked/leftover-claimed-inactive-id, next-writer-refused/...); the lock table is clean (probe above).
				res.Count("followup.refused_by_leftover_claims_after_deadline")
			default:
				released = false
				res.Fail("followup-refused:"+sc.Kind, fmt.Sprintf("follow-up transaction on the same keys: err=%v after %v (maxTime of the writers %v, no expired context explains leftovers; any writer failed=%v)", err, el, maxTime, anyErr), sc)
			}
		case <-time.After(40 * time.Second):
			released = false
			res.Fail("hang:followup", "follow-up commit did not return", sc)
		}
	}
	e.Rec.Disarm()

	for _, o := range got {
		st.mu.Lock()
		// per-call bound = largest measured call + largest measured scheduling delay; call count = the largest number of
		// calls between two node-lock attempts (the model charges pre, one round, post and rollback separately)
		cc := int64((st.maxCall[o.Label]+st.latency)/time.Millisecond) + 1
		nc := int64(st.segMax[o.Label])
		total := st.calls[o.Label]
		nh := int64(st.handles[o.Label])
		rounds := int64(st.rounds[o.Label])
		st.mu.Unlock()
		limit := int64(sc.MaxTimeMs)
		dl := "None"
		budget := int64(sc.DeadlineMs)
		if sc.CancelMs > 0 && (budget == 0 || int64(sc.CancelMs) < budget) {
			budget = int64(sc.CancelMs) // a cancelled context is a deadline at the moment of cancellation
		}
		if budget > 0 {
			dl = fmt.Sprintf("(Some %s)", hx.CoqZ(budget))
			if budget < limit {
				limit = budget
			}
		}
		B := overheadB(cc, nh, nc, 0, int64(sc.RetryStartMs))
		el := int64(o.Elapsed / time.Millisecond)
		if o.Err != nil {
			res.Count("commit.error")
		} else {
			res.Count("commit.ok")
		}
		res.Count(fmt.Sprintf("rounds.%d", bucket(int(rounds))))
		if el > limit+B {
			res.Fail("overshoot:"+sc.Kind, fmt.Sprintf("%s: Commit took %d ms; min(deadline, maxTime) = %d ms, B = %d ms (measured per-call max incl. scheduling delay %d ms, at most %d calls between two lock attempts, %d handles); err=%v", o.Label, el, limit, B, cc, nc, nh, o.Err), sc)
		}
		if sc.Expect != "" {
			res.Count("expect." + sc.Expect)
			// the holder owns the node locks during the whole wait: the writer can only leave through its budget
			var te sop.ErrTimeout
			good := false
			switch sc.Expect {
			case "deadline":
				good = errors.Is(o.Err, context.DeadlineExceeded)
			case "cancel":
				good = errors.Is(o.Err, context.Canceled)
			case "maxtime":
				good = errors.As(o.Err, &te) && te.Cause == nil
			}
			if !good {
				res.Fail("wrong-give-up-reason:"+sc.Expect, fmt.Sprintf("%s: Commit returned %v after %d ms; the holder owned the node locks throughout, so the wait had to end by %s (budget %d ms, maxTime %d ms)", o.Label, o.Err, el, sc.Expect, budget, sc.MaxTimeMs), sc)
			}
		}
		_ = total
		if rounds > int64(sc.MaxTimeMs)/20+1 {
			res.Fail("too-many-rounds:"+sc.Kind, fmt.Sprintf("%s: %d lock rounds within maxTime %d ms", o.Label, rounds, sc.MaxTimeMs), sc)
		}
		res.AddCase(fmt.Sprintf("TimingCase %s %s %s %s %s %s %s %s %s %s %s", hx.CoqZ(int64(sc.MaxTimeMs)), dl, hx.CoqZ(el), hx.CoqBool(o.Err == nil), hx.CoqBool(released),
			hx.CoqZ(cc), hx.CoqZ(nh), hx.CoqZ(nc), hx.CoqZ(0), hx.CoqZ(int64(sc.RetryStartMs)), hx.CoqZ(rounds)), sc)
		res.Sample(map[string]any{"scenario": sc, "txn": o.Label, "elapsed_ms": el, "limit_ms": limit, "B_ms": B, "per_call_max_ms": cc, "calls": nc, "handles": nh, "rounds": rounds, "err": fmt.Sprint(o.Err)})
	}
}

func bucket(n int) int {
	switch {
	case n <= 1:
		return 1
	case n <= 5:
		return 5
	case n <= 20:
		return 20
	}
	return 99
}

func runC15(cfg *hx.RunCfg) (*hx.Result, error) {
	res := hx.NewResult("C15")
	res.Imports = []string{"Lib.Bytes", "Timeout", "Corr.C15"}
	res.CaseType = "c15case"
	res.Checker = "c15_check"
	res.Rule = "one evaluation = one contention scenario (kind x writers x maxTime x deadline x seed) run with real goroutines on one database; one correspondence case per writer Commit (measured duration, measured per-call maximum, call and handle counts, lock rounds)"
	os.MkdirAll("/var/tmp/C15", 0o755)
	if cfg.Replay != "" {
		raw, err := os.ReadFile(cfg.Replay)
		if err != nil {
			return nil, err
		}
		var rp struct {
			Input scenario `json:"input"`
		}
		if err := json.Unmarshal(raw, &rp); err != nil {
			return nil, err
		}
		runScenario(res, rp.Input, 0)
		return res, nil
	}
	var scs []scenario
	for _, w := range []int{2, 4, 8} {
		scs = append(scs, scenario{Kind: "opposite", Writers: w, MaxTimeMs: 2000, RetryStartMs: 5})
	}
	scs = append(scs,
		scenario{Kind: "opposite", Writers: 6, MaxTimeMs: 1500, DeadlineMs: 300, RetryStartMs: 5},
		scenario{Kind: "stalled", Writers: 2, MaxTimeMs: 1000, HolderMaxMs: 20000, RetryStartMs: 5},
		scenario{Kind: "stalled", Writers: 4, MaxTimeMs: 1000, DeadlineMs: 400, HolderMaxMs: 20000, RetryStartMs: 5},
		// caller budgets, deterministic: the stalled holder owns the node locks for the whole wait, the writer's own
		// maxTime is far away (or, for maxtime, the deadline is)
		scenario{Kind: "stalled", Writers: 1, MaxTimeMs: 8000, DeadlineMs: 300, HolderMaxMs: 60000, RetryStartMs: 5, Expect: "deadline"},
		scenario{Kind: "stalled", Writers: 2, MaxTimeMs: 8000, CancelMs: 250, HolderMaxMs: 60000, RetryStartMs: 5, Expect: "cancel"},
		scenario{Kind: "stalled", Writers: 1, MaxTimeMs: 400, DeadlineMs: 8000, HolderMaxMs: 60000, RetryStartMs: 5, Expect: "maxtime"},
		scenario{Kind: "killed", Writers: 2, MaxTimeMs: 2000, HolderMaxMs: 1000, RetryStartMs: 5},
		scenario{Kind: "killed", Writers: 3, MaxTimeMs: 1000, HolderMaxMs: 3000, RetryStartMs: 5},
	)
	if cfg.Tier == "thorough" {
		r := hx.NewRng(cfg.Seed)
		for i := 0; i < 24; i++ {
			k := hx.Pick(r, []string{"opposite", "stalled", "killed"})
			sc := scenario{Kind: k, Writers: 2 + r.Intn(7), MaxTimeMs: 1000 + 500*r.Intn(5), RetryStartMs: 5, Seed: uint64(i)}
			if r.Chance(40) {
				sc.DeadlineMs = 200 + 100*r.Intn(10)
			}
			if k != "opposite" {
				sc.HolderMaxMs = hx.Pick(r, []int{1000, 3000, 20000})
				if k == "killed" && sc.HolderMaxMs > 3000 {
					sc.HolderMaxMs = 3000
				}
			}
			scs = append(scs, sc)
		}
		for i := 0; i < 6; i++ {
			ex := []string{"deadline", "cancel", "maxtime"}[i%3]
			sc := scenario{Kind: "stalled", Writers: 1 + r.Intn(3), MaxTimeMs: 6000 + 1000*r.Intn(4), HolderMaxMs: 60000, RetryStartMs: 5, Seed: uint64(100 + i), Expect: ex}
			switch ex {
			case "deadline":
				sc.DeadlineMs = 150 + 50*r.Intn(8)
			case "cancel":
				sc.CancelMs = 150 + 50*r.Intn(8)
			case "maxtime":
				sc.DeadlineMs, sc.MaxTimeMs = sc.MaxTimeMs, 200+100*r.Intn(5)
			}
			scs = append(scs, sc)
		}
		// production constants (RetryStartDuration 1 s) on one scenario
		scs = append(scs, scenario{Kind: "stalled", Writers: 4, MaxTimeMs: 3000, HolderMaxMs: 60000, RetryStartMs: 1000})
	}
	if cfg.N > 0 && cfg.N < len(scs) {
		scs = scs[:cfg.N]
	}
	for i, sc := range scs {
		runScenario(res, sc, i)
	}
	return res, nil
}

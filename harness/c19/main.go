package main

import (
	"context"
	"encoding/json"
	"fmt"
	"os"
	"path/filepath"
	"sort"
	"strconv"
	"strings"
	"time"

	"github.com/sharedcode/sop"
	"github.com/sharedcode/sop/btree"
	"github.com/sharedcode/sop/common"

	"verif/harness/hx"
	"verif/harness/sopx"
)

// C19: persisted stores hold exactly what was written, under every value placement.
// Full-stack differential (fresh-process dump vs reference map) + K3/K2 tie of the
// item action tracker (blob / value-cache calls per operation, tracker state before commit)
// to the Coq model Tracker.v.

func main() { hx.Main("c19", runC19) }

const scratch = "/var/tmp/C19/run"

type Op struct {
	// a Add, u Update, r Remove, g Find+GetCurrentValue, k UpdateKey(same key), K Find+UpdateCurrentKey(same key),
	// U Find+UpdateCurrentItem, V Find+UpdateCurrentValue
	K   string `json:"k"`
	Key int    `json:"key"`
	Val int    `json:"val,omitempty"` // index into Prog.Vals
}
type TxnIn struct {
	Ops    []Op `json:"ops"`
	Commit bool `json:"commit"`
}
type ValSpec struct {
	Size int `json:"size"`
}
type Prog struct {
	Name    string         `json:"name"`
	Opts    sopx.StoreOpts `json:"opts"`
	HashMod int            `json:"hash_mod"`
	Vals    []ValSpec      `json:"vals"`
	Txns    []TxnIn        `json:"txns"`
	// DumpEvery n: fresh-process dump after every n-th transaction (and always after the last); <=1: after every one
	DumpEvery int `json:"dump_every,omitempty"`
	// Reposition: in an actively persisted, not cached store, move the cursor (First) before an Add while the current item
	// holds a fetched value. A successful Add does not reposition the cursor but may shift the slots under it, after which
	// unfetchCurrentValue works on another item and the fetched value is persisted inline or not depending on the node
	// layout, which the list model cannot know. Without Reposition the correspondence case ends at such an Add.
	Reposition bool `json:"reposition,omitempty"`
}

func valueOf(p *Prog, i int) string {
	n := p.Vals[i].Size
	if n == 0 {
		return ""
	}
	s := fmt.Sprintf("%d|", i)
	var sb strings.Builder
	for sb.Len() < n {
		sb.WriteString(s)
		s = fmt.Sprintf("%x.", sb.Len()*31+i)
	}
	return sb.String()[:n]
}

type runner struct {
	p       *Prog
	res     *hx.Result
	dir     string
	env     *sopx.Env
	tokens  map[string]int // value content -> token (0 = "")
	canon   map[sop.UUID]int
	keyOf   map[int]int // canonical item id -> key
	nextID  int
	ref     map[int]string // committed reference content
	failed  bool
	caseTx  []string
	feature []string
}

func (r *runner) token(s string) uint64 {
	if s == "" {
		return 0
	}
	if t, ok := r.tokens[s]; ok {
		return uint64(t)
	}
	return 4294967295
}

func (r *runner) cid(u sop.UUID) (int, bool) {
	v, ok := r.canon[u]
	return v, ok
}

func (r *runner) blobPath(u sop.UUID) string {
	s := u.String()
	return filepath.Join(r.dir, r.p.Opts.Name, s[0:1], s[1:2], s[2:3], s[3:4], s)
}

func (r *runner) blobToken(u sop.UUID) uint64 {
	b, err := os.ReadFile(r.blobPath(u))
	if err != nil {
		return 4294967294
	}
	var s string
	if json.Unmarshal(b, &s) != nil {
		return 4294967293
	}
	return r.token(s)
}

func (r *runner) cacheToken(ctx context.Context, u sop.UUID) uint64 {
	var s string
	ok, err := r.env.Cache.GetStruct(ctx, "V"+u.String(), &s)
	if !ok || err != nil {
		return 4294967292
	}
	return r.token(s)
}

// calls converts the recorded events of one step into model calls (value blobs and value cache only).
func (r *runner) calls(ctx context.Context, evs []*sopx.Event) string {
	var out []string
	for _, ev := range evs {
		switch ev.Iface + "." + ev.Method {
		case "blob.Add":
			var ps []string
			for _, i := range ev.IDs {
				u := r.env.Rec.Canon.UUID(i)
				if c, ok := r.cid(u); ok {
					ps = append(ps, fmt.Sprintf("(%d,%d)", c, r.blobToken(u)))
				}
			}
			if len(ps) > 0 {
				out = append(out, "BAdd "+hx.CoqList(ps))
			}
		case "blob.GetOne":
			if c, ok := r.cid(r.env.Rec.Canon.UUID(ev.IDs[0])); ok {
				out = append(out, fmt.Sprintf("BGet %d", c))
			}
		case "blob.Remove":
			var ps []string
			for _, i := range ev.IDs {
				if c, ok := r.cid(r.env.Rec.Canon.UUID(i)); ok {
					ps = append(ps, fmt.Sprint(c))
				}
			}
			if len(ps) > 0 {
				out = append(out, "BRemove "+hx.CoqList(ps))
			}
		case "l2.GetStruct", "l2.GetStructEx", "l2.SetStruct", "l2.Delete":
			for _, n := range ev.Names {
				if !strings.HasPrefix(n, "V") {
					continue
				}
				u, err := sop.ParseUUID(n[1:])
				if err != nil {
					continue
				}
				c, ok := r.cid(u)
				if !ok {
					continue
				}
				switch ev.Method {
				case "SetStruct":
					out = append(out, fmt.Sprintf("CSet %d %d", c, r.cacheToken(ctx, u)))
				case "Delete":
					out = append(out, fmt.Sprintf("CDel %d", c))
				default:
					out = append(out, fmt.Sprintf("CGet %d", c))
				}
			}
		}
	}
	return hx.CoqList(out)
}

type trackerDump struct {
	items []common.VerifC19Tracked
	fd    []sop.UUID
}

func dumpTracker(b btree.BtreeInterface[int, string]) trackerDump {
	it, fd, _ := common.VerifC19Dump[int, string](b)
	return trackerDump{it, fd}
}

// reported finds which item id tracker.Remove was given, by diffing two snapshots.
func reported(before, after trackerDump) (sop.UUID, bool) {
	if len(after.fd) == len(before.fd)+1 {
		return after.fd[len(after.fd)-1], true
	}
	bm := map[sop.UUID]common.VerifC19Tracked{}
	for _, e := range before.items {
		bm[e.UUID] = e
	}
	am := map[sop.UUID]common.VerifC19Tracked{}
	for _, e := range after.items {
		am[e.UUID] = e
		if o, ok := bm[e.UUID]; (!ok || o.LockID != e.LockID) && e.Action == 4 {
			return e.UUID, true
		}
	}
	for _, e := range before.items {
		if _, ok := am[e.UUID]; !ok {
			return e.UUID, true
		}
	}
	return sop.NilUUID, false
}

func (r *runner) coqDump(d trackerDump) (string, string) {
	var es []string
	for _, e := range d.items {
		u, _ := r.cid(e.UUID)
		if e.Action == 1 {
			es = append(es, fmt.Sprintf("(%d,1,0,false,false,0%%Z,0%%Z)", u))
			continue
		}
		i, ok := r.cid(e.ItemID)
		if !ok {
			i = 999999
		}
		es = append(es, fmt.Sprintf("(%d,%d,%d,%s,%s,%s,%s)", u, e.Action, i, hx.CoqBool(e.HasValue), hx.CoqBool(e.NeedsFetch), hx.CoqZ(int64(e.Version)), hx.CoqZ(int64(e.VersionInDB))))
	}
	var fd []string
	for _, u := range d.fd {
		c, ok := r.cid(u)
		if !ok {
			c = 999999
		}
		fd = append(fd, fmt.Sprint(c))
	}
	return hx.CoqList(es), hx.CoqList(fd)
}

func coqOpts(o sopx.StoreOpts) string {
	// NewStoreInfo normalisation: in-node switches the other two off
	a, g := o.ActivelyP && !o.InNode, o.GlobalCache && !o.InNode
	return fmt.Sprintf("(mkOpts %s %s %s)", hx.CoqBool(o.InNode), hx.CoqBool(a), hx.CoqBool(g))
}

func modeName(o sopx.StoreOpts) string {
	switch {
	case o.InNode:
		return "in-node"
	case o.ActivelyP && o.GlobalCache:
		return "actively-persisted+cached"
	case o.ActivelyP:
		return "actively-persisted"
	case o.GlobalCache:
		return "separate+cached"
	}
	return "separate"
}

func sortedKeys(m map[int]string) []int {
	ks := make([]int, 0, len(m))
	for k := range m {
		ks = append(ks, k)
	}
	sort.Ints(ks)
	return ks
}

// runProg executes one program; returns the Coq case term.
func runProg(res *hx.Result, p *Prog, idx int) {
	ctx := context.Background()
	r := &runner{p: p, res: res, dir: filepath.Join(scratch, fmt.Sprint(os.Getpid(), "-", idx)), tokens: map[string]int{}, canon: map[sop.UUID]int{}, keyOf: map[int]int{}, nextID: 1, ref: map[int]string{}}
	os.RemoveAll(r.dir)
	defer os.RemoveAll(r.dir)
	for i := range p.Vals {
		v := valueOf(p, i)
		if _, ok := r.tokens[v]; !ok && v != "" {
			r.tokens[v] = i + 1
		}
	}
	e, err := sopx.NewEnv(r.dir, p.HashMod)
	if err != nil {
		res.Fail("harness:env", err.Error(), p)
		return
	}
	r.env = e
	for _, k := range []string{"tlog", "plog", "reg", "sr", "l2.Lock", "l2.Unlock", "l2.IsLocked", "l2.DualLock"} {
		e.Rec.Mute[k] = true
	}
	mode := modeName(p.Opts)
	res.Count("mode." + mode)
	res.Count(fmt.Sprintf("slot.%d", p.Opts.Slot))
	first := true
	nontrivial := false
	stopCorr := false
	var txTerms []string
	for ti, tx := range p.Txns {
		t, err := e.NewTxn(ctx, sop.ForWriting, time.Minute, fmt.Sprint("t", ti), false)
		if err != nil {
			res.Fail("harness:newtxn", err.Error(), p)
			return
		}
		if err := t.Begin(ctx); err != nil {
			res.Fail("harness:begin", err.Error(), p)
			return
		}
		var b btree.BtreeInterface[int, string]
		if first {
			b, err = t.NewStore(ctx, p.Opts)
		} else {
			b, err = t.OpenStore(ctx, p.Opts.Name)
		}
		if err != nil {
			res.Fail("harness:open", err.Error(), p)
			return
		}
		first = false
		work := map[int]string{}
		for k, v := range r.ref {
			work[k] = v
		}
		e.Rec.Arm()
		var opTerms []string
		repWrong, hasRemove, getThenUpdate, keyOnly := false, false, false, false
		gotKeys := map[int]bool{}
		gotAt := map[int]int{} // op index of the last Get of a key that fetched an out-of-node value
		lastShift := -1        // op index of the last successful Add/Remove (slots move inside nodes)
		dropTxn := false
		pending, hasPending := 0, false // key of the current item holding a fetched value (actively persisted, not cached)
		modeA := p.Opts.ActivelyP && !p.Opts.GlobalCache && !p.Opts.InNode
		lookupID := func(key int, reposition bool) (sop.UUID, bool) {
			e.Rec.Disarm()
			defer e.Rec.Arm()
			if reposition {
				// after Add the cursor can rest on an empty slot whose zero key equals 0, which Find(0) takes for a hit
				b.First(ctx)
			}
			ok, err := b.Find(ctx, key, false)
			if os.Getenv("C19_DEBUG") != "" {
				fmt.Fprintln(os.Stderr, "lookup", key, ok, err, b.GetCurrentKey().Key, b.GetCurrentKey().ID)
			}
			if !ok || err != nil {
				return sop.NilUUID, false
			}
			return b.GetCurrentKey().ID, true
		}
		for oi, op := range tx.Ops {
			e.Rec.Reset()
			before := dumpTracker(b)
			var coqOp, coqRes string
			res.Count("op." + op.K)
			if hasPending && (op.K == "a" || op.Key != pending) {
				if op.K == "a" && modeA {
					if p.Reposition {
						e.Rec.Disarm()
						b.First(ctx)
						e.Rec.Arm()
					} else if !stopCorr {
						stopCorr = true
						res.Count("corr.truncated-at-add-under-fetched-cursor")
					}
				}
				hasPending = false
			}
			switch op.K {
			case "a":
				v := valueOf(p, op.Val)
				ok, err := b.Add(ctx, op.Key, v)
				_, exists := work[op.Key]
				if err != nil || ok == exists {
					res.Fail("op-result:add:"+mode, fmt.Sprintf("Add(%d) = %v,%v but key exists=%v", op.Key, ok, err, exists), p)
					r.failed = true
				}
				if ok {
					work[op.Key] = v
					lastShift = oi
					if u, f := lookupID(op.Key, true); f {
						if _, known := r.canon[u]; !known {
							r.canon[u] = r.nextID
							r.keyOf[r.nextID] = op.Key
							r.nextID++
						}
					}
				}
				coqOp = fmt.Sprintf("OAdd %s %d", hx.CoqZ(int64(op.Key)), r.token(v))
				coqRes = "RBool " + hx.CoqBool(ok)
				if err != nil {
					coqRes = "RErr"
				}
				res.Count(fmt.Sprintf("valsize.%s", sizeBucket(len(v))))
			case "k", "K":
				var ok bool
				var err error
				if op.K == "k" {
					ok, err = b.UpdateKey(ctx, op.Key)
				} else if ok, err = b.Find(ctx, op.Key, false); ok && err == nil {
					ok, err = b.UpdateCurrentKey(ctx, op.Key)
				}
				_, exists := work[op.Key]
				if err != nil || ok != exists {
					res.Fail("op-result:updatekey:"+mode, fmt.Sprintf("UpdateKey(%d) = %v,%v but key exists=%v", op.Key, ok, err, exists), p)
					r.failed = true
				}
				if ok {
					if gotKeys[op.Key] {
						getThenUpdate = true
					} else {
						keyOnly = true
					}
					if u, f := lookupID(op.Key, false); f {
						if _, known := r.canon[u]; !known {
							r.canon[u] = r.nextID
							r.keyOf[r.nextID] = op.Key
							r.nextID++
						}
					}
				}
				coqOp = fmt.Sprintf("OUpdKey %s", hx.CoqZ(int64(op.Key)))
				coqRes = "RBool " + hx.CoqBool(ok)
				if err != nil {
					coqRes = "RErr"
				}
			case "u", "U", "V":
				v := valueOf(p, op.Val)
				var ok bool
				var err error
				switch op.K {
				case "u":
					ok, err = b.Update(ctx, op.Key, v)
				case "U":
					if ok, err = b.Find(ctx, op.Key, false); ok && err == nil {
						ok, err = b.UpdateCurrentItem(ctx, op.Key, v)
					}
				default:
					if ok, err = b.Find(ctx, op.Key, false); ok && err == nil {
						ok, err = b.UpdateCurrentValue(ctx, v)
					}
				}
				_, exists := work[op.Key]
				if err != nil || ok != exists {
					res.Fail("op-result:update:"+mode, fmt.Sprintf("Update(%d) = %v,%v but key exists=%v", op.Key, ok, err, exists), p)
					r.failed = true
				}
				if ok {
					work[op.Key] = v
					if gotKeys[op.Key] {
						getThenUpdate = true
					}
					if u, f := lookupID(op.Key, false); f {
						if _, known := r.canon[u]; !known {
							r.canon[u] = r.nextID
							r.keyOf[r.nextID] = op.Key
							r.nextID++
						}
					}
				}
				coqOp = fmt.Sprintf("OUpdate %s %d", hx.CoqZ(int64(op.Key)), r.token(v))
				coqRes = "RBool " + hx.CoqBool(ok)
				if err != nil {
					coqRes = "RErr"
				}
				res.Count(fmt.Sprintf("valsize.%s", sizeBucket(len(v))))
			case "r":
				ok, err := b.Remove(ctx, op.Key)
				_, exists := work[op.Key]
				if err != nil || ok != exists {
					res.Fail("op-result:remove:"+mode, fmt.Sprintf("Remove(%d) = %v,%v but key exists=%v", op.Key, ok, err, exists), p)
					r.failed = true
				}
				rep := op.Key
				if ok {
					hasRemove = true
					lastShift = oi
					delete(work, op.Key)
					after := dumpTracker(b)
					if u, f := reported(before, after); f {
						if c, known := r.cid(u); known {
							rep = r.keyOf[c]
						}
					} else {
						res.Count("remove.report-unknown")
					}
					if rep != op.Key {
						repWrong = true
						res.Count("remove.reported-successor")
					}
				}
				coqOp = fmt.Sprintf("ORemove %s %s", hx.CoqZ(int64(op.Key)), hx.CoqZ(int64(rep)))
				coqRes = "RBool " + hx.CoqBool(ok)
				if err != nil {
					coqRes = "RErr"
				}
			case "g":
				found, err := b.Find(ctx, op.Key, false)
				coqOp = fmt.Sprintf("OGet %s", hx.CoqZ(int64(op.Key)))
				want, exists := work[op.Key]
				if err != nil {
					coqRes = "RErr"
					res.Fail("op-result:find:"+mode, fmt.Sprintf("Find(%d): %v", op.Key, err), p)
					r.failed = true
				} else if !found {
					coqRes = "RVal false 0"
					if exists {
						res.Fail("op-result:find:"+mode, fmt.Sprintf("Find(%d) = false but key exists", op.Key), p)
						r.failed = true
					}
				} else {
					v, err := b.GetCurrentValue(ctx)
					if err != nil {
						coqRes = "RErr"
						res.Fail("op-result:get-error:"+mode, fmt.Sprintf("GetCurrentValue(%d): %v", op.Key, err), p)
						r.failed = true
					} else {
						coqRes = fmt.Sprintf("RVal true %d", r.token(v))
						if !exists || v != want {
							sig := "op-result:get-value:" + mode
							if at, was := gotAt[op.Key]; exists && v == "" && was && at < lastShift && p.Opts.ActivelyP && !p.Opts.GlobalCache && !p.Opts.InNode {
								// the tracker's get entry still points at the slot the item occupied before the node's slots moved
								sig = "actively-persisted:get-after-slot-shift-returns-zero-value"
								dropTxn = true // slot positions are not in the list model: the correspondence case ends before this transaction
								res.Count("failure." + sig)
							}
							res.Fail(sig, fmt.Sprintf("Get(%d) returned %d bytes, want %d bytes (exists=%v)", op.Key, len(v), len(want), exists), p)
							r.failed = true
						}
						gotKeys[op.Key] = true
						if strings.Contains(r.calls(ctx, e.Rec.Snapshot()), "BGet") {
							gotAt[op.Key] = oi
							pending, hasPending = op.Key, true
						}
					}
				}
			}
			cs := r.calls(ctx, e.Rec.Snapshot())
			if op.K == "g" && p.Opts.ActivelyP && p.Opts.GlobalCache && !p.Opts.InNode && cs != "[]" && !stopCorr {
				// actively persisted + globally cached: whether a fetched value is persisted inline depends on
				// whether its node is saved, which the list model cannot know; the correspondence case ends here
				// (the direct oracle continues)
				stopCorr = true
				res.Count("corr.truncated-at-cached-fetch")
			}
			opTerms = append(opTerms, fmt.Sprintf("(%s, %s, %s)", coqOp, coqRes, cs))
		}
		// leave a fetched item before commit (Btree.unfetchCurrentValue), see Tracker.v commit
		e.Rec.Disarm()
		b.First(ctx)
		e.Rec.Arm()
		d := dumpTracker(b)
		cd, cfd := r.coqDump(d)
		trackerEmpty := len(d.items) == 0
		e.Rec.Reset()
		var endErr error
		if tx.Commit {
			endErr = t.Commit(ctx)
			res.Count("txn.commit")
		} else {
			endErr = t.Rollback(ctx)
			res.Count("txn.rollback")
		}
		e.Rec.Disarm()
		endCalls := r.calls(ctx, e.Rec.Snapshot())
		if endErr != nil {
			res.Fail("txn-end-error:"+mode, fmt.Sprintf("txn %d commit=%v: %v", ti, tx.Commit, endErr), p)
			r.failed = true
		}
		changed := false
		if tx.Commit && endErr == nil {
			if len(work) != len(r.ref) {
				changed = true
			}
			for k, v := range work {
				if o, ok := r.ref[k]; !ok || o != v {
					changed = true
				}
			}
			r.ref = work
		}
		if changed {
			nontrivial = true
		}
		// what a fresh process sees
		// always look after a transaction that meets the precondition of a known defect, so that it is attributed to that transaction
		doDump := ti == len(p.Txns)-1 || p.DumpEvery <= 1 || ti%p.DumpEvery == 0 || (tx.Commit && trackerEmpty) || (!tx.Commit && p.Opts.ActivelyP && !p.Opts.InNode)
		var view []string
		bad := ""
		var sd *sopx.StoreDump
		var fd *sopx.Dump
		if doDump {
			fd = sopx.DumpFresh(r.dir, p.HashMod, false)
			sd = fd.Stores[p.Opts.Name]
			res.Count("fresh-dump")
		}
		if !doDump {
		} else if sd == nil {
			bad = "store missing in fresh dump: " + fd.Err
		} else {
			for i, k := range sd.Keys {
				view = append(view, fmt.Sprintf("(%s, Some %d)", hx.CoqZ(int64(k)), r.token(sd.Vals[i])))
			}
			if sd.Err != "" {
				if strings.HasPrefix(sd.Err, "value of key ") {
					ks := strings.SplitN(strings.TrimPrefix(sd.Err, "value of key "), ":", 2)[0]
					k, _ := strconv.Atoi(ks)
					view = append(view, fmt.Sprintf("(%s, None)", hx.CoqZ(int64(k))))
				}
				bad = sd.Err
			} else {
				ks := sortedKeys(r.ref)
				if len(ks) != len(sd.Keys) {
					bad = fmt.Sprintf("fresh process reads %d items %v, reference has %d %v", len(sd.Keys), sd.Keys, len(ks), ks)
				} else {
					for i, k := range ks {
						if sd.Keys[i] != k || sd.Vals[i] != r.ref[k] {
							bad = fmt.Sprintf("item %d: fresh process reads key %d (%d bytes), reference key %d (%d bytes)", i, sd.Keys[i], len(sd.Vals[i]), k, len(r.ref[k]))
							break
						}
					}
				}
				if bad == "" && sd.Count != int64(len(ks)) {
					bad = fmt.Sprintf("fresh process: Count() = %d but %d items are stored and the reference has %d", sd.Count, len(sd.Keys), len(ks))
				}
			}
		}
		if !stopCorr && !dropTxn {
			vt := "None"
			if doDump {
				vt = "(Some " + hx.CoqList(view) + ")"
			}
			txTerms = append(txTerms, fmt.Sprintf("mkTx %s %s %s %s %s %s", hx.CoqList(opTerms), hx.CoqBool(tx.Commit), cd, cfd, endCalls, vt))
		}
		if bad != "" {
			sig := "content-mismatch:" + mode
			switch {
			case tx.Commit && trackerEmpty && repWrong:
				sig = "lost-commit:remove-reported-successor-item:tracker-empty"
			case tx.Commit && trackerEmpty && p.Opts.ActivelyP && !p.Opts.InNode && hasRemove && !repWrong:
				sig = "actively-persisted:remove-only-transaction-skipped"
			case !tx.Commit && p.Opts.ActivelyP && !p.Opts.InNode && getThenUpdate:
				sig = "actively-persisted:rollback-after-get-update-deletes-committed-value"
			case !tx.Commit && p.Opts.ActivelyP && !p.Opts.InNode && keyOnly:
				sig = "actively-persisted:rollback-after-key-only-update-deletes-committed-value"
			}
			res.Count("failure." + sig)
			res.Fail(sig, fmt.Sprintf("after txn %d (commit=%v, tracker empty=%v): %s", ti, tx.Commit, trackerEmpty, bad), p)
			r.failed = true
		}
		if r.failed {
			break
		}
	}
	canon, _ := json.Marshal(p)
	res.Seen(string(canon), nontrivial)
	res.AddCase(fmt.Sprintf("mkCase %s %s", coqOpts(p.Opts), hx.CoqList(txTerms)), p)
	res.Sample(map[string]any{"name": p.Name, "mode": mode, "slot": p.Opts.Slot, "txns": len(p.Txns)})
}

func sizeBucket(n int) string {
	switch {
	case n == 0:
		return "0"
	case n == 1:
		return "1"
	case n <= 64:
		return "<=64"
	case n <= 4096:
		return "<=4K"
	case n <= 65536:
		return "<=64K"
	}
	return ">64K"
}

var modes = []sopx.StoreOpts{
	{InNode: true}, {}, {GlobalCache: true}, {ActivelyP: true}, {ActivelyP: true, GlobalCache: true},
}

func mkOpts(m sopx.StoreOpts, slot int) sopx.StoreOpts {
	m.Name, m.Slot, m.Unique = "s1", slot, true
	return m
}

// corpus: fixed programs, one per known finding and an edge grid per mode.
func corpus() []*Prog {
	var ps []*Prog
	small := func(n int) []ValSpec {
		v := make([]ValSpec, n)
		for i := range v {
			v[i].Size = 3 + i%5
		}
		return v
	}
	adds := func(from, to, step int) []Op {
		var o []Op
		for k := from; k < to; k += step {
			o = append(o, Op{K: "a", Key: k, Val: (k / step) % 40})
		}
		return o
	}
	for _, m := range modes {
		for _, slot := range []int{2, 5, 7} { // 5 and 7 are odd REQUESTED lengths (effective 4 and 6): NewStoreInfo must round them down
			p := &Prog{Name: "grid", Opts: mkOpts(m, slot), HashMod: 2, Vals: small(64), DumpEvery: 2}
			p.Vals[50].Size = 0
			p.Vals[51].Size = 1
			p.Vals[52].Size = 20000
			p.Txns = []TxnIn{
				{Ops: adds(0, 120, 10), Commit: true},
				{Ops: []Op{{K: "u", Key: 30, Val: 41}, {K: "u", Key: 50, Val: 52}, {K: "g", Key: 50}, {K: "g", Key: 0}, {K: "u", Key: 999, Val: 1}, {K: "a", Key: 30, Val: 2}}, Commit: true},
				{Ops: []Op{{K: "g", Key: 30}, {K: "u", Key: 30, Val: 42}, {K: "u", Key: 30, Val: 43}, {K: "a", Key: 35, Val: 50}, {K: "u", Key: 35, Val: 51}, {K: "g", Key: 35}}, Commit: true},
				{Ops: []Op{{K: "a", Key: 500, Val: 3}, {K: "r", Key: 110}, {K: "r", Key: 0}, {K: "r", Key: 35}, {K: "g", Key: 50}}, Commit: true},
				{Ops: []Op{{K: "a", Key: 600, Val: 3}, {K: "u", Key: 40, Val: 9}, {K: "r", Key: 10}}, Commit: false},
				{Ops: []Op{{K: "a", Key: 700, Val: 4}, {K: "u", Key: 50, Val: 44}, {K: "r", Key: 50}, {K: "a", Key: 50, Val: 45}}, Commit: true},
			}
			ps = append(ps, p)
		}
	}
	// key-only update (UpdateKey / UpdateCurrentKey) of a value that was never read in the transaction, all placements:
	// T1 add, T2 update (actively persisted: moves the value out of the node), T3 key-only update, T4 again + a get
	for _, m := range modes {
		for _, kk := range []string{"k", "K"} {
			p := &Prog{Name: "key-only-update-" + kk, Opts: mkOpts(m, 4), HashMod: 2, Vals: small(64), DumpEvery: 2}
			p.Vals[7].Size = 9000
			p.Txns = []TxnIn{
				{Ops: []Op{{K: "a", Key: 1, Val: 1}, {K: "a", Key: 2, Val: 2}, {K: "a", Key: 3, Val: 3}}, Commit: true},
				{Ops: []Op{{K: "u", Key: 1, Val: 7}, {K: "V", Key: 2, Val: 8}}, Commit: true},
				{Ops: []Op{{K: kk, Key: 1}, {K: kk, Key: 3}, {K: kk, Key: 99}}, Commit: true},
				{Ops: []Op{{K: kk, Key: 2}, {K: "g", Key: 1}, {K: "U", Key: 3, Val: 9}, {K: kk, Key: 3}}, Commit: true},
				{Ops: []Op{{K: "g", Key: 1}, {K: "g", Key: 2}, {K: "g", Key: 3}}, Commit: true},
				{Ops: []Op{{K: kk, Key: 4}, {K: kk, Key: 1}}, Commit: false},
			}
			ps = append(ps, p)
		}
	}
	// odd requested slot lengths with enough adds to split leaves and the root (several levels), every placement:
	// btree/node.go's split keeps all items only for an even effective length
	for _, m := range modes {
		for _, sl := range []struct{ slot, items int }{{3, 16}, {9, 30}} {
			name := fmt.Sprintf("odd-slot-%d-splits", sl.slot)
			if sl.slot == 9 && (m.GlobalCache || (!m.InNode && !m.ActivelyP)) {
				name = "x-" + name // extended corpus
			}
			p := &Prog{Name: name, Opts: mkOpts(m, sl.slot), HashMod: 2, Vals: small(64)}
			var t1, t2 []Op
			for i := 0; i < sl.items; i++ {
				k := (i * 7) % sl.items // a permutation: items is coprime to 7
				o := Op{K: "a", Key: k * 3, Val: i % 40}
				if i < sl.items*2/3 {
					t1 = append(t1, o)
				} else {
					t2 = append(t2, o)
				}
			}
			t2 = append(t2, Op{K: "g", Key: 0}, Op{K: "u", Key: 3, Val: 41}, Op{K: "r", Key: 6})
			p.Txns = []TxnIn{{Ops: t1, Commit: true}, {Ops: t2, Commit: true}}
			p.DumpEvery = 99 // one fresh dump, after the last transaction
			ps = append(ps, p)
		}
	}
	// finding F1: Add(51)+Remove(50) where 50 sits in an interior node: tracker ends empty, commit persists nothing
	for _, m := range []sopx.StoreOpts{{InNode: true}, {}} {
		p := &Prog{Name: "finding-lost-commit", Opts: mkOpts(m, 4), HashMod: 2, Vals: small(64)}
		p.Txns = []TxnIn{{Ops: adds(0, 120, 10), Commit: true}, {Ops: []Op{{K: "a", Key: 51, Val: 40}, {K: "r", Key: 50}}, Commit: true}}
		ps = append(ps, p)
	}
	// finding F2: actively persisted store, a transaction that only removes
	p2 := &Prog{Name: "finding-remove-only", Opts: mkOpts(sopx.StoreOpts{ActivelyP: true}, 4), HashMod: 2, Vals: small(64)}
	p2.Txns = []TxnIn{{Ops: []Op{{K: "a", Key: 1, Val: 1}, {K: "a", Key: 2, Val: 2}}, Commit: true}, {Ops: []Op{{K: "u", Key: 1, Val: 3}}, Commit: true}, {Ops: []Op{{K: "r", Key: 1}}, Commit: true}}
	ps = append(ps, p2)
	// finding F3: actively persisted store, get + update of an out-of-node value, then rollback
	p3 := &Prog{Name: "finding-rollback", Opts: mkOpts(sopx.StoreOpts{ActivelyP: true}, 4), HashMod: 2, Vals: small(64)}
	p3.Txns = []TxnIn{{Ops: []Op{{K: "a", Key: 1, Val: 1}, {K: "a", Key: 2, Val: 2}}, Commit: true}, {Ops: []Op{{K: "u", Key: 1, Val: 3}}, Commit: true}, {Ops: []Op{{K: "g", Key: 1}, {K: "u", Key: 1, Val: 4}}, Commit: false}}
	ps = append(ps, p3)
	// finding F4: actively persisted store, key-only update of an out-of-node value in a transaction that also actively
	// persisted something, then rollback
	p4 := &Prog{Name: "finding-rollback-key-only", Opts: mkOpts(sopx.StoreOpts{ActivelyP: true}, 4), HashMod: 2, Vals: small(64)}
	p4.Txns = []TxnIn{{Ops: []Op{{K: "a", Key: 1, Val: 1}, {K: "a", Key: 2, Val: 2}}, Commit: true}, {Ops: []Op{{K: "u", Key: 1, Val: 3}}, Commit: true}, {Ops: []Op{{K: "a", Key: 4, Val: 4}, {K: "k", Key: 1}}, Commit: false}}
	ps = append(ps, p4)
	// finding F5: actively persisted (not cached) store: Get of an out-of-node value, then a Remove that shifts the node's
	// slots, then Get of the same key again returns the zero value
	p5 := &Prog{Name: "finding-get-after-shift", Opts: mkOpts(sopx.StoreOpts{ActivelyP: true}, 16), HashMod: 2, Vals: small(64)}
	p5.Txns = []TxnIn{{Ops: []Op{{K: "a", Key: 4, Val: 2}, {K: "a", Key: 2, Val: 3}, {K: "a", Key: 0, Val: 4}}, Commit: true}, {Ops: []Op{{K: "u", Key: 4, Val: 5}}, Commit: true}, {Ops: []Op{{K: "a", Key: 9, Val: 1}, {K: "g", Key: 4}, {K: "r", Key: 0}, {K: "g", Key: 4}}, Commit: true}}
	ps = append(ps, p5)
	for _, q := range ps {
		q.Reposition = true
		if strings.HasPrefix(q.Name, "finding-") {
			q.DumpEvery = 99 // the defect shows after the last transaction (a dump is forced wherever a known precondition is met)
		}
	}
	return ps
}

func genProg(r *hx.Rng, tier string, i int) *Prog {
	m := hx.Pick(r, modes)
	slot := hx.Pick(r, []int{2, 2, 3, 4, 5, 7, 8, 9, 16, 64})
	p := &Prog{Name: fmt.Sprint("rand", i), Opts: mkOpts(m, slot), HashMod: hx.Pick(r, []int{1, 2, 5}), DumpEvery: hx.Pick(r, []int{1, 2, 3}), Reposition: r.Chance(70)}
	nv := 48
	p.Vals = make([]ValSpec, nv)
	big := 65536
	if tier == "thorough" {
		big = 2 << 20
	}
	for j := range p.Vals {
		switch k := r.Intn(20); {
		case k == 0:
			p.Vals[j].Size = 0
		case k == 1:
			p.Vals[j].Size = 1
		case k == 2:
			sz := 4096 << r.Intn(10) // 4 KiB .. 2 MiB, log-uniform
			sz += r.Intn(sz)
			if sz > big {
				sz = big
			}
			p.Vals[j].Size = sz
		case k < 6:
			p.Vals[j].Size = 100 + r.Intn(4000)
		default:
			p.Vals[j].Size = 2 + r.Intn(30)
		}
	}
	keyRange := hx.Pick(r, []int{6, 12, 30, 60})
	avoid := r.Chance(60) // steer around the three known defect patterns so the rest of the space is explored
	nt := 2 + r.Intn(5)
	anchor := 1000
	for t := 0; t < nt; t++ {
		tx := TxnIn{Commit: !r.Chance(15)}
		no := 1 + r.Intn(12)
		if t == 0 {
			no += keyRange / 2
			tx.Commit = true
		}
		if avoid {
			tx.Ops = append(tx.Ops, Op{K: "a", Key: anchor, Val: r.Intn(nv)})
			anchor++
		}
		got := map[int]bool{}
		for j := 0; j < no; j++ {
			k := r.Intn(keyRange)
			switch c := r.Intn(100); {
			case c < 35 || t == 0 && c < 70:
				tx.Ops = append(tx.Ops, Op{K: "a", Key: k, Val: r.Intn(nv)})
			case c < 60:
				if avoid && m.ActivelyP && !m.InNode && !tx.Commit && got[k] {
					continue
				}
				kind := hx.Pick(r, []string{"u", "u", "U", "V", "k", "k", "K"})
				if avoid && m.ActivelyP && !m.InNode && !tx.Commit && (kind == "k" || kind == "K") {
					kind = "u"
				}
				tx.Ops = append(tx.Ops, Op{K: kind, Key: k, Val: r.Intn(nv)})
			case c < 75:
				tx.Ops = append(tx.Ops, Op{K: "r", Key: k})
			default:
				tx.Ops = append(tx.Ops, Op{K: "g", Key: k})
				got[k] = true
			}
		}
		p.Txns = append(p.Txns, tx)
	}
	return p
}

func runC19(cfg *hx.RunCfg) (*hx.Result, error) {
	res := hx.NewResult("C19")
	res.Imports = []string{"Lib.Bytes", "Tracker", "Corr.C19"}
	res.CaseType = "c19case"
	res.Checker = "c19_check"
	res.Rule = "one evaluation = one program (2-6 transactions of add/update/remove/get on one store, commit or rollback, a fresh-process dump after every transaction) on the real filesystem backend; value placement x slot length x value sizes x batching are drawn per program; distinct = distinct program JSON; non-trivial = at least one committed transaction changed the reference content"
	os.MkdirAll(scratch, 0o755)
	if cfg.Replay != "" {
		raw, err := os.ReadFile(cfg.Replay)
		if err != nil {
			return nil, err
		}
		var rp struct {
			Input Prog `json:"input"`
		}
		var sn struct {
			Input struct {
				Kind      string `json:"kind"`
				Requested int    `json:"requested"`
			} `json:"input"`
		}
		if json.Unmarshal(raw, &sn) == nil && sn.Input.Kind == "slotnorm" {
			req := sn.Input.Requested
			eff := sop.NewStoreInfo(sop.StoreOptions{Name: "x", SlotLength: req}).SlotLength
			res.Seen(fmt.Sprint("slotnorm:", req), true)
			if eff%2 != 0 || eff < 2 || eff > 20000 {
				res.Fail("slot-length-normalisation", fmt.Sprintf("NewStoreInfo(SlotLength: %d).SlotLength = %d", req, eff), sn.Input)
			}
			res.AddCase(fmt.Sprintf("SlotNorm %s %s", hx.CoqZ(int64(req)), hx.CoqZ(int64(eff))), sn.Input)
			return res, nil
		}
		if err := json.Unmarshal(raw, &rp); err != nil {
			return nil, err
		}
		runProg(res, &rp.Input, 0)
		return res, nil
	}
	n := cfg.N
	if n == 0 {
		n = 40
		if cfg.Tier == "thorough" {
			n = 400
		}
	}
	for _, req := range []int{-5, 0, 1, 2, 3, 4, 5, 7, 9, 99, 100, 1999, 2000, 2001, 19999, 20000, 20001, 20003, 50001} {
		eff := sop.NewStoreInfo(sop.StoreOptions{Name: "x", SlotLength: req}).SlotLength
		res.Seen(fmt.Sprint("slotnorm:", req), req > 0)
		res.Count("slotnorm")
		in := map[string]any{"kind": "slotnorm", "requested": req}
		if eff%2 != 0 || eff < 2 || eff > 20000 {
			res.Fail("slot-length-normalisation", fmt.Sprintf("NewStoreInfo(SlotLength: %d).SlotLength = %d: not an even length in [2, 20000] (the node split loses an item for an odd length)", req, eff), in)
		}
		res.AddCase(fmt.Sprintf("SlotNorm %s %s", hx.CoqZ(int64(req)), hx.CoqZ(int64(eff))), in)
	}
	// Core corpus (always run): one program per known finding and the split-forcing odd-slot programs. Extended corpus
	// (grid, key-only updates): always in the thorough tier; in the quick tier it shares the wall-clock budget with the random
	// programs, starting at an offset that depends on the seed so that successive seeds cover all of it.
	// The budget exists because the machine may be heavily loaded (a fresh-process dump then costs seconds); programs are a
	// deterministic function of (seed, index), so a run that hits the budget covers a prefix of the same sequence.
	idx := 0
	var core, ext []*Prog
	for _, p := range corpus() {
		if strings.HasPrefix(p.Name, "finding-") || strings.HasPrefix(p.Name, "odd-slot-") {
			core = append(core, p)
		} else {
			ext = append(ext, p)
		}
	}
	for _, p := range core {
		runProg(res, p, idx)
		idx++
	}
	budget := 55 * time.Second
	if cfg.Tier == "thorough" {
		budget = 11 * time.Minute
	}
	if cfg.N != 0 {
		budget = 24 * time.Hour
	}
	start := time.Now()
	r := hx.NewRng(cfg.Seed)
	ran, ranExt := 0, 0
	if cfg.Tier == "thorough" {
		for _, p := range ext {
			runProg(res, p, idx)
			idx++
			ranExt++
		}
		start = time.Now()
	}
	off := int(cfg.Seed*7) % len(ext)
	for i := 0; i < n && time.Since(start) < budget; i++ {
		if cfg.Tier != "thorough" && ranExt < len(ext) && i%2 == 0 {
			runProg(res, ext[(off+ranExt)%len(ext)], idx)
			idx++
			ranExt++
			continue
		}
		runProg(res, genProg(r, cfg.Tier, i), idx)
		idx++
		ran++
	}
	res.Notes = append(res.Notes, fmt.Sprintf("core corpus %d, extended corpus %d of %d", len(core), ranExt, len(ext)))
	res.Notes = append(res.Notes, fmt.Sprintf("random programs run: %d of at most %d (budget %v)", ran, n, budget))
	return res, nil
}

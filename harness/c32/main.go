package main

// C32: text search returns exactly the matching documents ranked by BM25.
//
// K1: the real SimpleTokenizer on generated text (ASCII, Unicode letters/digits/case pairs,
// punctuation, stop words, invalid UTF-8) against the concrete tokenizer model.
// K2: small corpora indexed with the real search.Index over filesystem B-trees, the indexing split
// over 1-4 transactions, then searched; direct oracle = an independent reference BM25 over the
// corpus (membership, each document once, score within 1e-9 relative, non-increasing order);
// the statistics the reference used go to cases_*.v where the Coq model must produce the same.

import (
	"context"
	"encoding/json"
	"fmt"
	"math"
	"os"
	"path/filepath"
	"sort"
	"strings"

	"github.com/sharedcode/sop"
	"github.com/sharedcode/sop/infs"
	"github.com/sharedcode/sop/search"

	"verif/harness/hx"
)

func main() { hx.Main("c32", runC32) }

type doc struct {
	ID   string `json:"id"`
	Text string `json:"text"`
}

type c32Input struct {
	Kind    string   `json:"kind"` // "tok" | "search"
	Text    []int    `json:"text,omitempty"`
	Docs    []doc    `json:"docs,omitempty"`
	Splits  []int    `json:"splits,omitempty"` // number of documents per indexing transaction
	Queries []string `json:"queries,omitempty"`
	SameTx  bool     `json:"same_tx,omitempty"` // search inside the last indexing transaction, before its commit
	Big     int      `json:"big,omitempty"`     // >0: the generated multi-node corpus with that many documents (docs/queries are rebuilt from it)
}

func ints(b []byte) []int {
	o := make([]int, len(b))
	for i, x := range b {
		o[i] = int(x)
	}
	return o
}
func unints(b []int) []byte {
	o := make([]byte, len(b))
	for i, x := range b {
		o[i] = byte(x)
	}
	return o
}

// ---------------------------------------------------------------- generators

var vocab = []string{
	"ab", "abc", "ab1", "abd", "b", "zeta", "fox", "quick", "go", "golang", "x", "x1", "42", "007",
	"Été", "été", "ÉCOLE", "straße", "STRASSE", "İstanbul", "istanbul", "ǅ", "ǆ", "Ǆ", "K", "k", "Ω", "ω", "Σ", "ς", "σ",
	"日本語", "日本", "٣٤", "Ⅷ", "ⅷ", "½", "Ⓐ", "ß", "ſ", "ﬁ", "Ａ", "ａ", "𝐀", "𐐀", "𐐨", "ǈ",
}
var stops = []string{"the", "a", "an", "and", "The", "AND", "is", "of", "Will", "with"}
var seps = []string{" ", "  ", ", ", ".", "|", "-", "\t", "\n", "!?", "'", "’", " — ", "_", " ", "́", "\xff", "\xc3", "\xe2\x82", "​", "😀"}

func genText(r *hx.Rng, maxWords int) string {
	var sb strings.Builder
	n := r.Intn(maxWords + 1)
	if r.Chance(30) {
		sb.WriteString(hx.Pick(r, seps))
	}
	for i := 0; i < n; i++ {
		switch k := r.Intn(10); {
		case k < 6:
			sb.WriteString(hx.Pick(r, vocab))
		case k < 8:
			sb.WriteString(hx.Pick(r, stops))
		case k < 9:
			sb.WriteString(strings.ToUpper(hx.Pick(r, vocab)))
		default: // random code points from interesting blocks
			for j := 0; j < 1+r.Intn(3); j++ {
				blocks := [][2]int{{0x20, 0x7f}, {0xa0, 0x24f}, {0x370, 0x52f}, {0x10a0, 0x10ff}, {0x1e00, 0x1fff}, {0x2100, 0x218f}, {0x2c00, 0x2d2f}, {0xa640, 0xa7ff}, {0xff00, 0xff5f}, {0x10400, 0x1044f}, {0x1e900, 0x1e95f}, {0x3040, 0x30ff}}
				b := hx.Pick(r, blocks)
				sb.WriteRune(rune(b[0] + r.Intn(b[1]-b[0]+1)))
			}
		}
		if r.Chance(85) {
			sb.WriteString(hx.Pick(r, seps))
		}
	}
	return sb.String()
}

var idPool = []string{"d1", "d2", "d10", "doc|1", "doc|1|x", "|", "||", "a|b", "a", "ab|", "", "日本", "x y", "D1", "é", "~", "}", "{", "ab", "abc|d1", "z\x00", "\xff"}

func genCorpus(r *hx.Rng) c32Input {
	in := c32Input{Kind: "search"}
	n := 1 + r.Intn(7)
	used := map[string]bool{}
	for len(in.Docs) < n {
		id := hx.Pick(r, idPool)
		if r.Chance(30) {
			id = fmt.Sprintf("%s%d", hx.Pick(r, []string{"d", "doc|", "ab|", "", "|"}), r.Intn(30))
		}
		if used[id] {
			continue
		}
		used[id] = true
		in.Docs = append(in.Docs, doc{ID: id, Text: genText(r, 8)})
	}
	left := n
	for left > 0 && len(in.Splits) < 3 {
		k := 1 + r.Intn(left)
		in.Splits = append(in.Splits, k)
		left -= k
	}
	if left > 0 {
		in.Splits = append(in.Splits, left)
	}
	in.SameTx = r.Chance(25)
	for q := 0; q < 3; q++ {
		switch r.Intn(6) {
		case 0:
			in.Queries = append(in.Queries, hx.Pick(r, vocab))
		case 1:
			w := hx.Pick(r, vocab)
			in.Queries = append(in.Queries, w+" "+w+" "+hx.Pick(r, vocab)) // duplicate query term
		case 2:
			in.Queries = append(in.Queries, hx.Pick(r, stops)+" "+hx.Pick(r, seps))
		case 3:
			in.Queries = append(in.Queries, "nosuchterm "+hx.Pick(r, vocab))
		default:
			in.Queries = append(in.Queries, genText(r, 4))
		}
	}
	return in
}

// ---------------------------------------------------------------- K1 tokenizer

func coqToks(ts []string) string {
	var xs []string
	for _, t := range ts {
		xs = append(xs, hx.CoqString(t))
	}
	return hx.CoqList(xs)
}

func c32Tok(res *hx.Result, text []byte) {
	toks := (&search.SimpleTokenizer{}).Tokenize(string(text))
	in := c32Input{Kind: "tok", Text: ints(text)}
	res.Seen("tok:"+string(text), len(toks) > 0)
	res.Count("tok")
	nonASCII := false
	for _, b := range text {
		if b >= 0x80 {
			nonASCII = true
		}
	}
	if nonASCII {
		res.Count("tok.non_ascii")
	}
	// direct oracle: the facts the theorems rely on
	for _, t := range toks {
		if t == "" || strings.Contains(t, "|") || search.DefaultStopWords[t] {
			res.Fail("token-shape", fmt.Sprintf("Tokenize(%q) produced %q (empty, stop word or containing '|')", text, t), in)
		}
	}
	res.AddCase(fmt.Sprintf("TokCase %s %s", hx.CoqBytes(text), coqToks(toks)), in)
	res.Sample(map[string]any{"kind": "tok", "text": string(text), "tokens": toks})
}

// ---------------------------------------------------------------- K2 index

type contrib struct {
	N, TotalLen, Nq, F int
	DocLen         int
}

func bm25(cs []contrib) float64 {
	s := 0.0
	for _, c := range cs {
		N, nq := float64(c.N), float64(c.Nq)
		avgDL := float64(c.TotalLen) / N
		idf := math.Log((N-nq+0.5)/(nq+0.5) + 1)
		k1, b := 1.2, 0.75
		s += idf * (float64(c.F) * (k1 + 1)) / (float64(c.F) + k1*(1-b+b*float64(c.DocLen)/avgDL))
	}
	return s
}

func baseDir(out string) string {
	if st, err := os.Stat("/dev/shm"); err == nil && st.IsDir() && os.Getenv("VERIF_C32_FS") == "" {
		return filepath.Join("/dev/shm", fmt.Sprintf("verif-c32-%d", os.Getpid()))
	}
	if v := os.Getenv("VERIF_C32_FS"); v != "" {
		return filepath.Join(v, fmt.Sprintf("verif-c32-%d", os.Getpid()))
	}
	return filepath.Join(out, "fs")
}

var dirSeq int

func c32Search(res *hx.Result, base string, in c32Input) {
	ctx := context.Background()
	dirSeq++
	dir := filepath.Join(base, fmt.Sprintf("c%d", dirSeq))
	os.MkdirAll(dir, 0o755)
	defer os.RemoveAll(dir)
	tk := &search.SimpleTokenizer{}
	fail := func(sig, what string) {
		if in.Big > 0 {
			if len(what) > 600 {
				what = what[:300] + " ... " + what[len(what)-300:]
			}
			res.Fail(sig, what, c32Input{Kind: "search", Big: in.Big})
			return
		}
		res.Fail(sig, what, in)
	}
	newTx := func() (sop.Transaction, *search.Index, error) {
		t, err := infs.NewTransaction(ctx, sop.TransactionOptions{StoresFolders: []string{dir}, Mode: sop.ForWriting, CacheType: sop.InMemory})
		if err != nil {
			return nil, nil, err
		}
		if err := t.Begin(ctx); err != nil {
			return nil, nil, err
		}
		idx, err := search.NewIndex(ctx, sop.DatabaseOptions{StoresFolders: []string{dir}}, t, "ix")
		if err != nil {
			t.Rollback(ctx)
			return nil, nil, err
		}
		return t, idx, nil
	}
	type searchOut struct {
		q  string
		rs []search.TextSearchResult
	}
	var outs []searchOut
	doSearch := func(idx *search.Index) bool {
		for _, q := range in.Queries {
			rs, err := idx.Search(ctx, q)
			if err != nil {
				fail("search-error", fmt.Sprintf("Search(%q): %v", q, err))
				return false
			}
			outs = append(outs, searchOut{q, rs})
		}
		return true
	}
	pos := 0
	for si, k := range in.Splits {
		t, idx, err := newTx()
		if err != nil {
			fail("index-error", "NewIndex: "+err.Error())
			return
		}
		for _, d := range in.Docs[pos : pos+k] {
			if err := idx.Add(ctx, d.ID, d.Text); err != nil {
				fail("index-error", fmt.Sprintf("Add(%q): %v", d.ID, err))
				t.Rollback(ctx)
				return
			}
		}
		pos += k
		if si == len(in.Splits)-1 && in.SameTx {
			if !doSearch(idx) {
				t.Rollback(ctx)
				return
			}
		}
		if err := t.Commit(ctx); err != nil {
			fail("index-error", "Commit: "+err.Error())
			return
		}
	}
	if !in.SameTx {
		t, idx, err := newTx()
		if err != nil {
			fail("index-error", "NewIndex: "+err.Error())
			return
		}
		ok := doSearch(idx)
		t.Rollback(ctx)
		if !ok {
			return
		}
	}
	// reference statistics of the corpus
	docToks := map[string][]string{}
	totalLen := 0
	var adds []string
	for _, d := range in.Docs {
		ts := tk.Tokenize(d.Text)
		docToks[d.ID] = ts
		totalLen += len(ts)
		adds = append(adds, fmt.Sprintf("(%s, %s)", hx.CoqString(d.ID), coqToks(ts)))
	}
	N := len(in.Docs)
	res.Count(fmt.Sprintf("corpus.docs=%d", N))
	res.Count(fmt.Sprintf("corpus.transactions=%d", len(in.Splits)))
	if in.SameTx {
		res.Count("search.before_commit")
	}
	for _, so := range outs {
		qt := tk.Tokenize(so.q)
		ref := map[string][]contrib{}
		for _, t := range qt {
			nq := 0
			for _, d := range in.Docs {
				for _, x := range docToks[d.ID] {
					if x == t {
						nq++
						break
					}
				}
			}
			for _, d := range in.Docs {
				f := 0
				for _, x := range docToks[d.ID] {
					if x == t {
						f++
					}
				}
				if f > 0 {
					ref[d.ID] = append(ref[d.ID], contrib{N, totalLen, nq, f, len(docToks[d.ID])})
				}
			}
		}
		if in.Big > 0 {
			res.Seen(fmt.Sprintf("search:big%d:%q", in.Big, so.q[:12]), len(ref) > 0)
		} else {
			res.Seen(fmt.Sprintf("search:%v:%q", in.Docs, so.q), len(ref) > 0)
		}
		res.Count(fmt.Sprintf("search.hits=%d", min(len(ref), 5)))
		if len(qt) == 0 {
			res.Count("search.empty_query")
		}
		what := func(msg string) string {
			return fmt.Sprintf("docs=%+v splits=%v query=%q: %s; got %+v", in.Docs, in.Splits, so.q, msg, so.rs)
		}
		seen := map[string]bool{}
		for i, r := range so.rs {
			if seen[r.DocID] {
				fail("duplicate-result", what(fmt.Sprintf("document %q returned twice", r.DocID)))
			}
			seen[r.DocID] = true
			cs, ok := ref[r.DocID]
			if !ok {
				fail("membership-extra", what(fmt.Sprintf("document %q contains no query term", r.DocID)))
				continue
			}
			want := bm25(cs)
			if math.IsNaN(r.Score) || math.Abs(r.Score-want) > 1e-9*math.Max(math.Abs(want), 1e-300) {
				fail("score", what(fmt.Sprintf("score of %q is %v, BM25 over the corpus statistics gives %v", r.DocID, r.Score, want)))
			}
			if i > 0 && so.rs[i-1].Score < r.Score {
				fail("order", what("results are not in non-increasing score order"))
			}
		}
		for id := range ref {
			if !seen[id] {
				fail("membership-missing", what(fmt.Sprintf("document %q contains a query term but is not returned", id)))
			}
		}
		// case: the implementation's documents with the reference statistics
		var hs []string
		for _, r := range so.rs {
			var cs []string
			for _, c := range ref[r.DocID] {
				cs = append(cs, fmt.Sprintf("(%s, %s, %s, %s, Some %s)", hx.CoqZ(int64(c.N)), hx.CoqZ(int64(c.TotalLen)), hx.CoqZ(int64(c.Nq)), hx.CoqZ(int64(c.F)), hx.CoqZ(int64(c.DocLen))))
			}
			hs = append(hs, fmt.Sprintf("(%s, %s)", hx.CoqString(r.DocID), hx.CoqList(cs)))
		}
		one := in
		one.Queries = []string{so.q}
		if in.Big > 0 {
			res.Count("search.multi_node_corpus_query")
			continue
		}
		res.AddCase(fmt.Sprintf("SearchCase %s %s %s", hx.CoqList(adds), coqToks(qt), hx.CoqList(hs)), one)
		res.Sample(map[string]any{"kind": "search", "docs": in.Docs, "splits": in.Splits, "query": so.q, "results": so.rs})
	}
}

// bigCorpus: more postings than one B-tree node holds (DefaultSlotLength = 5000), every term in one
// document only, so that some "term|" start key falls between the last item of a leaf and its
// separator in the parent: Find then leaves the cursor on the PREDECESSOR and the miss handling of
// Search has to advance. Every term is queried (one query per document = its own text). Checked by
// the direct oracle only (the Coq evaluation of a 6000-entry insertion-sorted list is too slow).
func bigCorpus(nDocs int) c32Input {
	in := c32Input{Kind: "search", Big: nDocs}
	const perDoc = 100
	for d := 0; d < nDocs; d++ {
		var sb strings.Builder
		for w := 0; w < perDoc; w++ {
			// interleave the terms of the documents in key order
			fmt.Fprintf(&sb, "w%05d ", w*nDocs+d)
		}
		in.Docs = append(in.Docs, doc{ID: fmt.Sprintf("big|%d", d), Text: sb.String()})
		in.Queries = append(in.Queries, sb.String())
	}
	in.Splits = []int{nDocs / 2, nDocs - nDocs/2}
	return in
}

func fixedCorpus() []c32Input {
	return []c32Input{
		{Kind: "search", Docs: []doc{{"doc1", "the quick brown fox jumps over the lazy dog"}, {"doc2", "the quick brown fox"}, {"doc3", "jumps over the lazy dog"}, {"doc4", "programming in go is fun"}},
			Splits: []int{4}, Queries: []string{"fox", "go", "quick dog", "the", "", "fox fox"}},
		// doc ids with '|' and terms that are prefixes of each other
		{Kind: "search", Docs: []doc{{"b|x", "a1 ab"}, {"x", "a1|b c"}, {"", "ab abc a1"}, {"|", "abc ab ab"}, {"a1|b", "zz"}},
			Splits: []int{2, 1, 2}, Queries: []string{"a1", "ab", "abc", "b", "zz a1", "c"}},
		// scan reaching the end of the postings, first and last terms
		{Kind: "search", Docs: []doc{{"d", "zzz"}, {"e", "zzz 000"}}, Splits: []int{1, 1}, Queries: []string{"zzz", "000", "zzzz", "0", "~"}},
		{Kind: "search", Docs: []doc{{"u1", "Été ÉTÉ été"}, {"u2", "İstanbul STRASSE straße K"}, {"u3", "日本語 の 本"}}, Splits: []int{1, 2}, Queries: []string{"ÉTÉ", "istanbul", "k", "strasse", "日本語"}, SameTx: true},
		// empty documents
		{Kind: "search", Docs: []doc{{"e1", ""}, {"e2", "the and of"}, {"e3", "x"}}, Splits: []int{3}, Queries: []string{"x", "the"}},
	}
}

func runC32(cfg *hx.RunCfg) (*hx.Result, error) {
	res := hx.NewResult("C32")
	res.Imports = []string{"Lib.Bytes", "Search", "SearchTok", "Corr.C32"}
	res.CaseType = "c32case"
	res.Checker = "c32_check"
	res.Rule = "K1: texts from a vocabulary of ASCII/Unicode words (case pairs, title case, digits of several scripts, stop words), separators incl. invalid UTF-8, random code points of cased blocks; K2: corpora of 1-7 documents with distinct ids (ids containing '|', empty, prefixes of each other) over that vocabulary, indexed in 1-4 transactions, 3 queries each (single term, duplicate terms, stop words only, unknown term, random text), searched after commit or inside the last transaction; distinct = distinct (corpus, query) / text; non-trivial = at least one hit / one token"
	out := cfg.Out
	if out == "" {
		out = filepath.Join("/var/tmp/C32", fmt.Sprintf("run%d", os.Getpid()))
	}
	base := baseDir(out)
	os.MkdirAll(base, 0o755)
	defer os.RemoveAll(base)
	if cfg.Replay != "" {
		raw, err := os.ReadFile(cfg.Replay)
		if err != nil {
			return nil, err
		}
		var rp struct {
			Input c32Input `json:"input"`
		}
		if err := json.Unmarshal(raw, &rp); err != nil {
			return nil, err
		}
		if rp.Input.Kind == "tok" {
			c32Tok(res, unints(rp.Input.Text))
		} else if rp.Input.Big > 0 {
			c32Search(res, base, bigCorpus(rp.Input.Big))
		} else {
			c32Search(res, base, rp.Input)
		}
		return res, nil
	}
	nCorp, nTok := 150, 700
	if cfg.Tier == "thorough" {
		nCorp, nTok = 3000, 12000
	}
	if cfg.N > 0 {
		nCorp, nTok = cfg.N, cfg.N*4
	}
	r := hx.NewRng(cfg.Seed)
	for _, in := range fixedCorpus() {
		c32Search(res, base, in)
	}
	c32Search(res, base, bigCorpus(64))
	if cfg.Tier == "thorough" {
		c32Search(res, base, bigCorpus(170))
	}
	for _, w := range vocab {
		c32Tok(res, []byte(w))
		c32Tok(res, []byte(strings.ToUpper(w)+"|"+strings.ToTitle(w)))
	}
	for _, s := range seps {
		c32Tok(res, []byte("ab"+s+"CD"+s))
	}
	stopList := make([]string, 0)
	for w := range search.DefaultStopWords {
		stopList = append(stopList, w)
	}
	sort.Strings(stopList)
	c32Tok(res, []byte(strings.Join(stopList, " ")+" thee intoo"))
	for i := 0; i < nTok; i++ {
		if r.Chance(15) { // malformed stream: raw bytes
			c32Tok(res, r.Bytes(1+r.Intn(12)))
		} else {
			c32Tok(res, []byte(genText(r, 6)))
		}
	}
	for i := 0; i < nCorp; i++ {
		c32Search(res, base, genCorpus(r))
	}
	return res, nil
}

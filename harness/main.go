// Command harness runs the implementation side of every correspondence check
// and every direct property oracle. One subcommand per property:
//
//	harness <cNN> -seed S -n N -out DIR [-replay FILE] [-tier quick|thorough]
//
// It writes DIR/cases_*.v (inputs + observed outputs, for evaluation by the Coq
// model) and DIR/result.json (coverage counts and oracle failures).
package main

import (
	"flag"
	"fmt"
	"os"
	"strings"
)

type RunCfg struct {
	Seed   uint64
	N      int
	Out    string
	Replay string
	Tier   string
	Args   []string
}

type runner func(cfg *RunCfg) (*Result, error)

var runners = map[string]runner{}

// child entry points (fresh-process reads etc.), keyed by name
var children = map[string]func(args []string) int{}

func main() {
	if len(os.Args) < 2 {
		fmt.Fprintln(os.Stderr, "usage: harness <property|child:NAME> [flags]")
		os.Exit(2)
	}
	cmd := strings.ToLower(os.Args[1])
	if strings.HasPrefix(cmd, "child:") {
		f, ok := children[strings.TrimPrefix(cmd, "child:")]
		if !ok {
			fmt.Fprintln(os.Stderr, "unknown child", cmd)
			os.Exit(2)
		}
		os.Exit(f(os.Args[2:]))
	}
	fs := flag.NewFlagSet(cmd, flag.ExitOnError)
	cfg := &RunCfg{}
	fs.Uint64Var(&cfg.Seed, "seed", 1, "PRNG seed")
	fs.IntVar(&cfg.N, "n", 0, "case budget (0 = property default for the tier)")
	fs.StringVar(&cfg.Out, "out", "", "output directory")
	fs.StringVar(&cfg.Replay, "replay", "", "replay file")
	fs.StringVar(&cfg.Tier, "tier", "quick", "quick|thorough")
	fs.Parse(os.Args[2:])
	cfg.Args = fs.Args()
	r, ok := runners[cmd]
	if !ok {
		fmt.Fprintln(os.Stderr, "unknown property", cmd)
		os.Exit(2)
	}
	res, err := r(cfg)
	if err != nil {
		fmt.Fprintln(os.Stderr, "harness error:", err)
		os.Exit(3)
	}
	if cfg.Out != "" {
		if err := res.Write(cfg.Out, 0); err != nil {
			fmt.Fprintln(os.Stderr, "harness error:", err)
			os.Exit(3)
		}
	}
	fmt.Printf("harness %s: evaluations=%d distinct_nontrivial=%d corr_cases=%d oracle_failures=%d\n",
		cmd, res.Evaluations, res.DistinctNontrivial, len(res.cases), len(res.OracleFailures))
}

package main

import (
	"fmt"

	"verif/harness/c04/cx"
	"verif/harness/hx"
	"verif/harness/protox"
	"verif/harness/sopx"
)

func main() {
	hx.Main("c10", func(cfg *hx.RunCfg) (*hx.Result, error) {
		res, err := protox.Run(protox.Mode{Prop: "C10", Faults: true, FailAfter: true, ShapesQuick: 24, ShapesThor: 45, MaxFaults: 14}, cfg, protox.EmitCoq)
		if res != nil {
			res.Imports = []string{"Lib.Bytes", "Proto", "Corr.Proto"}
			res.CaseType = "protocase"
			res.Checker = "proto_check"
			res.Rule = "generated programs (1-3 stores x value placement x slot length 2-8 x op mix forcing new root/split/node removal/update) with a populated prefix; the subject transaction is run fault-free and once per injected failure at an interface call of its commit (fail = not performed, failafter = performed then reported failed); each run in a child process, state read back by a fresh process; plus concurrent histories: two writers adding disjoint keys to the same leaves of a store whose values live outside the nodes, under random gate schedules (the loser rolls back its partial phase 1, refetches, merges and retries), then a cold full traversal reading every value in a fresh process; distinct = distinct (program, fault) pairs / distinct concurrent programs; non-trivial = a fault is injected or the subject has > 2 ops / at least one writer merged"
		}
		if err != nil || cfg.Replay != "" {
			return res, err
		}
		// concurrent histories: the in-flight rollback before a refetch-and-retry must not remove data the
		// retried commit publishes (value blobs of the re-merged items)
		n := 6
		if cfg.Tier == "thorough" {
			n = 80
		}
		r := hx.NewRng(hx.NewRng(cfg.Seed).U64() + 10)
		var jobs []cx.Job
		for len(jobs) < n {
			p := cx.GenDisjoint(r, "leaf")
			if len(p.Writers) != 2 {
				continue
			}
			p.Store.InNode = false
			p.Schedule = cx.RandomSchedule(r, 2)
			jobs = append(jobs, cx.Job{P: p, Bucket: "c10-conc", NoModel: true})
		}
		// first insert into an EMPTY store by two racing writers, colliding on a unique key: the loser rolls back
		// its half-done new-root step and must not take the winner's registered root blob with it
		nroot := 4
		if cfg.Tier == "thorough" {
			nroot = 40
		}
		for i := 0; i < nroot; i++ {
			p := &cx.Program{Store: sopx.StoreOpts{Slot: hx.Pick(r, []int{2, 4}), Unique: true, InNode: i%2 == 0}, HashMod: 2, MaxTimeMs: 25000, Note: "c10/first-insert-race"}
			p.Writers = []cx.Writer{{Label: "W1", Ops: []cx.Op{{Kind: "add", Key: 1, Val: 1001}}}, {Label: "W2", Ops: []cx.Op{{Kind: "add", Key: 1, Val: 2001}}}}
			if r.Chance(50) {
				p.Writers[1].Ops = append(p.Writers[1].Ops, cx.Op{Kind: "add", Key: 2, Val: 2002})
			}
			p.Schedule = cx.RandomSchedule(r, 2)
			jobs = append(jobs, cx.Job{P: p, Bucket: "c10-conc", NoModel: true})
		}
		outs := cx.RunAll(jobs, 6, false)
		for i, o := range outs {
			p := jobs[i].P
			merged := false
			committed := 0
			for _, w := range o.W {
				if w.Merges > 0 {
					merged = true
				}
				if w.Committed {
					committed++
				}
			}
			res.Seen(fmt.Sprintf("conc:%v:%v", p.Init, p.Writers), merged)
			res.Count(fmt.Sprintf("concurrent.committed=%d", committed))
			if merged {
				res.Count("concurrent.merged")
			}
			if o.ChildErr != "" || o.SetupErr != "" || o.Stuck != "" {
				res.Count("concurrent.unusable")
				continue
			}
			res.Evaluations++
			switch {
			case o.DumpErr != "":
				res.Fail("dangling-reference/concurrent-disjoint-adds", fmt.Sprintf("two concurrent writers (%s; merged=%v, committed=%d): the cold traversal in a fresh process failed: %s", noteOf(p), merged, committed, o.DumpErr), map[string]any{"concurrent": p})
			case o.Dump != nil && o.Dump.Err != "":
				res.Fail("dangling-reference/concurrent-disjoint-adds", fmt.Sprintf("two concurrent writers (%s; merged=%v, committed=%d): the cold traversal in a fresh process failed: %s", noteOf(p), merged, committed, o.Dump.Err), map[string]any{"concurrent": p})
			}
		}
		return res, nil
	})
}

func noteOf(p *cx.Program) string {
	if p.Note == "c10/first-insert-race" {
		return "first insert into an empty unique store, colliding on key 1"
	}
	return "adding disjoint keys to one store with out-of-node values"
}

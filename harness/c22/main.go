package main

import (
	"context"
	"encoding/json"
	"fmt"
	"os"
	"os/exec"
	"path/filepath"
	"runtime"
	"strconv"
	"time"

	"github.com/sharedcode/sop"

	"verif/harness/c22/bio"
	"verif/harness/hx"
)

// C22: registry block writes survive a crash as either the old or the new block.
// Real registry updates run in a child process whose DirectIO simulator writes a prefix of the
// block and exits (crash); readers and a non-crashing writer are paused at chosen points with
// the same simulator (gating). Direct oracle + comparison with the model BlockIO.v.

func main() { hx.Main("c22", runC22) }

const (
	sigTornServed  = "concurrent-read-torn-block-served"
	sigLiveBackup  = "reader-removed-live-backup-writer-crash-unrecoverable"
	sigInterleaved = "reader-restore-between-writer-chunks-left-mixture"
)

// ---------------------------------------------------------------- crash child

type childOp struct {
	Op        string      `json:"op"` // update | get
	Handle    *sop.Handle `json:"handle,omitempty"`
	ID        sop.UUID    `json:"id"`
	TearWrite int         `json:"tear_write"` // 1-based index of the WriteAt to tear; 0 = none
	K         int         `json:"k"`
}

func init() {
	hx.Children["c22op"] = func(args []string) int {
		// args: base hashMod opJSON
		hashMod, _ := strconv.Atoi(args[1])
		var op childOp
		if err := json.Unmarshal([]byte(args[2]), &op); err != nil {
			return 3
		}
		n := 0
		bio.Install(&bio.Sim{OnWrite: func(role string, f *os.File, block []byte, off int64) (bool, int, error) {
			n++
			if n == op.TearWrite {
				if op.K > 0 {
					f.WriteAt(block[:op.K], off)
				}
				os.Exit(7) // the process dies inside the write
			}
			return false, 0, nil
		}})
		env := bio.OpenEnv(args[0], hashMod)
		ctx := context.Background()
		if op.Op == "update" {
			if c, _ := env.Update(ctx, *op.Handle); c != "ok" {
				return 4
			}
		} else {
			if _, c, _ := env.Get(ctx, op.ID); c == "err" || c == "panic" {
				return 4
			}
		}
		return 0
	}
}

// procEvery: every n-th crash is a real process death (child exits inside the write); the others
// end the writer goroutine at the same point with runtime.Goexit (only deferred in-memory lock
// releases and file closes still run; starting a process costs ~0.5 s here).
var crashCount, procEvery = 0, 8
var roCases, roAll, roEvery = 0, false, 3

func runChild(env *bio.Env, op childOp) (int, error) {
	crashCount++
	if op.TearWrite == 0 || crashCount%procEvery == 1 {
		return runChildProc(env, op)
	}
	n := 0
	code := 0
	done := make(chan struct{})
	bio.Install(&bio.Sim{OnWrite: func(role string, f *os.File, block []byte, off int64) (bool, int, error) {
		n++
		if n == op.TearWrite {
			if op.K > 0 {
				f.WriteAt(block[:op.K], off)
			}
			code = 7
			runtime.Goexit()
		}
		return false, 0, nil
	}})
	go func() {
		defer close(done)
		ctx := context.Background()
		if op.Op == "update" {
			if c, _ := env.Update(ctx, *op.Handle); c != "ok" {
				code = 4
			}
		} else {
			if _, c, _ := env.Get(ctx, op.ID); c == "err" || c == "panic" {
				code = 4
			}
		}
	}()
	<-done
	bio.Install(&bio.Sim{})
	return code, nil
}

func runChildProc(env *bio.Env, op childOp) (int, error) {
	js, _ := json.Marshal(op)
	cmd := exec.Command(os.Args[0], "child:c22op", env.Base, strconv.Itoa(env.HashMod), string(js))
	cmd.Env = os.Environ()
	err := cmd.Run()
	if ee, ok := err.(*exec.ExitError); ok {
		return ee.ExitCode(), nil
	}
	if err != nil {
		return -1, err
	}
	return 0, nil
}

// ---------------------------------------------------------------- inputs

type c22Input struct {
	Kind     string       `json:"kind"` // crash | readcrash | conc | crashreader | undone
	HashMod  int          `json:"hash_mod"`
	BlockIdx int          `json:"block"`
	Handles  []sop.Handle `json:"handles"`
	Stale    string       `json:"stale"` // backup lying around before: none | junk | valid_older
	Torn0    int          `json:"torn0"` // >=0: an earlier update (Prev) died after Torn0 bytes of its block write
	Prev     *sop.Handle  `json:"prev,omitempty"`
	Upd      sop.Handle   `json:"upd"`
	Point    string       `json:"point"` // restore | cow | block | done
	K        int          `json:"k"`
	P1       string       `json:"p1,omitempty"` // start | blk
	P2       string       `json:"p2,omitempty"` // same | done | blk (writer still inside the write)
	RO       bool         `json:"ro,omitempty"` // the lock-free reader uses a read-only registry
	Tag      string       `json:"tag"`
}

func idealOf(id sop.UUID) int { return int(bio.LowOf(id)%uint64(bio.NSlot)) * bio.S }

func pointTerm(p string, k int) string {
	switch p {
	case "restore":
		return fmt.Sprintf("(PRestore %d)", k)
	case "cow":
		return fmt.Sprintf("(PCow %d)", k)
	case "block":
		return fmt.Sprintf("(PBlock %d)", k)
	}
	return "PDone"
}

func obsTerm(class string, h sop.Handle) string {
	switch class {
	case "found":
		return "(GoFound " + hx.CoqBytes(bio.Encode(h)) + ")"
	case "notfound":
		return "GoNotFound"
	}
	return "GoErr"
}

// setup builds the table, the initial state of the target block and the block a completed,
// uninterrupted update produces (reference "new").
type snapshot struct {
	seg                []byte
	init               bio.State
	oldContent, refNew []byte
}

var snapshots = map[string]*snapshot{}

// setup memoises setupFresh per scenario: later cases restore the recorded segment file and
// backup into a new folder instead of rebuilding the table through the registry.
func setup(in c22Input) (env *bio.Env, init bio.State, oldContent, refNew []byte, err error) {
	kk := 0
	if in.Stale == "junk" {
		kk = in.K
	}
	keyB, _ := json.Marshal([]any{in.HashMod, in.BlockIdx, in.Handles, in.Stale, in.Torn0, in.Prev, in.Upd, kk})
	key := string(keyB)
	if sn, ok := snapshots[key]; ok {
		env, err = bio.NewEnv(in.HashMod)
		if err != nil {
			return
		}
		if err = os.WriteFile(env.SegPath(), sn.seg, 0o644); err != nil {
			return
		}
		err = env.WriteState(int64(in.BlockIdx)*bio.B, sn.init)
		return env, sn.init.Clone(), sn.oldContent, sn.refNew, err
	}
	env, init, oldContent, refNew, err = setupFresh(in)
	if err == nil {
		seg, e := os.ReadFile(env.SegPath())
		if e == nil {
			snapshots[key] = &snapshot{seg, init.Clone(), oldContent, refNew}
		}
	}
	return
}

func setupFresh(in c22Input) (env *bio.Env, init bio.State, oldContent, refNew []byte, err error) {
	ctx := context.Background()
	env, err = bio.NewEnv(in.HashMod)
	if err != nil {
		return
	}
	blockOff := int64(in.BlockIdx) * bio.B
	var older []byte
	for _, h := range in.Handles {
		if st, e := env.ReadState(blockOff); e == nil {
			older = st.Block
		}
		if err = env.Add(ctx, h); err != nil {
			return
		}
	}
	st, err := env.ReadState(blockOff)
	if err != nil {
		return
	}
	switch in.Stale {
	case "junk":
		st.HasCow, st.Cow = true, hx.NewRng(uint64(in.K)+5).Bytes(bio.B)
	case "valid_older":
		if older != nil {
			st.HasCow, st.Cow = true, older
		}
	}
	if err = env.WriteState(blockOff, st); err != nil {
		return
	}
	if in.Torn0 >= 0 && in.Prev != nil { // an earlier writer died inside its block write
		if _, err = runChild(env, childOp{Op: "update", Handle: in.Prev, TearWrite: 1, K: in.Torn0}); err != nil {
			return
		}
	}
	init, err = env.ReadState(blockOff)
	if err != nil {
		return
	}
	oldContent = init.Block
	if !bio.Valid(init.Block) && bio.CowValid(init) {
		oldContent = init.Cow
	}
	// reference: the same update, uninterrupted, on a copy of the table
	ref, err := bio.NewEnv(in.HashMod)
	if err != nil {
		return
	}
	defer ref.Remove()
	raw, err := os.ReadFile(env.SegPath())
	if err != nil {
		return
	}
	if err = os.WriteFile(ref.SegPath(), raw, 0o644); err != nil {
		return
	}
	if err = ref.WriteState(blockOff, init); err != nil {
		return
	}
	if c, e := ref.Update(ctx, in.Upd); c != "ok" {
		err = fmt.Errorf("reference update failed: %v", e)
		return
	}
	rs, err := ref.ReadState(blockOff)
	refNew = rs.Block
	return
}

func c22Case(res *hx.Result, in c22Input) error {
	env, init, oldContent, refNew, err := setup(in)
	if env != nil {
		defer env.Remove()
	}
	if err != nil {
		return err
	}
	ctx := context.Background()
	blockOff := int64(in.BlockIdx) * bio.B
	id := in.Upd.LogicalID
	ideal := idealOf(id)
	dataT := hx.CoqBytes(bio.Encode(in.Upd))
	idT := hx.CoqBytes(id[:])
	res.Count("kind." + in.Kind)
	res.Count("tag." + in.Tag)
	notOldNew := func(b []byte) bool { return string(b) != string(oldContent) && string(b) != string(refNew) }

	switch in.Kind {
	case "crash":
		res.Seen(fmt.Sprintf("crash|%x|%x|%s|%d|%x", init.Block, init.Cow, in.Point, in.K, bio.Encode(in.Upd)), in.Point != "done")
		res.Count("point." + in.Point)
		restoreNeeded := !bio.Valid(init.Block) && bio.CowValid(init)
		switch in.Point {
		case "cow": // no I/O seam inside os.WriteFile: the state is planted (k bytes of the backup written)
			st := init.Clone()
			st.HasCow, st.Cow = true, append([]byte(nil), init.Block[:in.K]...)
			if err := env.WriteState(blockOff, st); err != nil {
				return err
			}
		case "restore":
			if code, err := runChild(env, childOp{Op: "update", Handle: &in.Upd, TearWrite: 1, K: in.K}); err != nil || (restoreNeeded && code != 7) {
				return fmt.Errorf("restore-crash child: code %d err %v", code, err)
			}
		case "block":
			tw := 1
			if restoreNeeded {
				tw = 2
			}
			if code, err := runChild(env, childOp{Op: "update", Handle: &in.Upd, TearWrite: tw, K: in.K}); err != nil || code != 7 {
				return fmt.Errorf("block-crash child: code %d err %v", code, err)
			}
		default:
			if code, err := runChild(env, childOp{Op: "update", Handle: &in.Upd}); err != nil || code != 0 {
				return fmt.Errorf("update child: code %d err %v", code, err)
			}
		}
		crashed, err := env.ReadState(blockOff)
		if err != nil {
			return err
		}
		if !bio.Valid(crashed.Block) {
			res.Count("crashed.block_invalid")
		} else if notOldNew(crashed.Block) {
			res.Count("crashed.mixture_passes_checksum") // crc_detects would be false for this pair
		}
		if err := readOnlyLookup(res, in, env, crashed, oldContent, refNew, fmt.Sprintf("crash at %s %d", in.Point, in.K)); err != nil {
			return err
		}
		got, class, gerr := env.Get(ctx, id)
		after, err := env.ReadState(blockOff)
		if err != nil {
			return err
		}
		res.Count("get." + class)
		// direct oracle: entirely as before or entirely as written, repaired on disk, no error
		want, wantOK := bio.Lookup(after.Block, id, ideal)
		switch {
		case class == "err" || class == "panic":
			res.Fail("post-crash-read-error", fmt.Sprintf("%s: lookup after crash at %s %d failed: %v", in.Tag, in.Point, in.K, gerr), in)
		case notOldNew(after.Block):
			res.Fail("post-crash-block-not-old-or-new", fmt.Sprintf("%s: after crash at %s %d and one lookup the block is neither the old nor the new block", in.Tag, in.Point, in.K), in)
		case (class == "found") != wantOK || (wantOK && got != want):
			res.Fail("post-crash-read-differs-from-disk", fmt.Sprintf("%s: lookup after crash at %s %d returned something else than what it left on disk", in.Tag, in.Point, in.K), in)
		case in.Point == "done" && string(after.Block) != string(refNew):
			res.Fail("completed-update-lost", fmt.Sprintf("%s: completed update not on disk", in.Tag), in)
		}
		res.AddCase(bio.TripleTerm(init, crashed, after, func(a, b, c string) string {
			return fmt.Sprintf("C22Crash %s %s %d %s %s %s %s %s", a, idT, ideal, dataT, pointTerm(in.Point, in.K), b, obsTerm(class, got), c)
		}), in)
		res.Sample(map[string]any{"kind": "crash", "point": in.Point, "k": in.K, "result": class, "block_after_is_new": string(after.Block) == string(refNew)})

	case "readcrash": // a reader dies k bytes into its restore write
		if bio.Valid(init.Block) || !bio.CowValid(init) { // the earlier torn write changed nothing: no restore will happen
			res.Count("readcrash.skipped_no_restore_needed")
			return nil
		}
		res.Seen(fmt.Sprintf("readcrash|%x|%d", init.Block, in.K), true)
		if code, err := runChild(env, childOp{Op: "get", ID: id, TearWrite: 1, K: in.K}); err != nil || code != 7 {
			return fmt.Errorf("reader child: code %d err %v", code, err)
		}
		crashed, err := env.ReadState(blockOff)
		if err != nil {
			return err
		}
		if err := readOnlyLookup(res, in, env, crashed, oldContent, refNew, fmt.Sprintf("torn restore k=%d", in.K)); err != nil {
			return err
		}
		_, class, gerr := env.Get(ctx, id)
		after, _ := env.ReadState(blockOff)
		if class == "err" || class == "panic" || string(after.Block) != string(oldContent) {
			res.Fail("post-crash-block-not-old-or-new", fmt.Sprintf("%s: lookup after a torn restore (k=%d) failed or did not repair: %v", in.Tag, in.K, gerr), in)
		}
		res.AddCase(bio.TripleTerm(init, crashed, crashed, func(a, b, _ string) string {
			return fmt.Sprintf("C22ReadCrash %s %d %s", a, in.K, b)
		}), in)

	case "conc", "crashreader", "undone":
		res.Seen(fmt.Sprintf("%s|%x|%s|%s|%d|%v", in.Kind, init.Block, in.P1, in.P2, in.K, in.RO), true)
		return concurrent(res, in, env, init, oldContent, refNew)
	}
	return nil
}

// readOnlyLookup: a lookup through a READ-ONLY registry (what non-writing transactions use) on the
// state a crash left: it must return the old or the new record (the restored image when the block
// is torn, never the torn bytes), must not fail, and cannot change the block.
func readOnlyLookup(res *hx.Result, in c22Input, env *bio.Env, crashed bio.State, oldContent, refNew []byte, where string) error {
	id := in.Upd.LogicalID
	ideal := idealOf(id)
	blockOff := int64(in.BlockIdx) * bio.B
	got, class, gerr := env.GetMode(context.Background(), id, false)
	st, err := env.ReadState(blockOff)
	if err != nil {
		return err
	}
	res.Count("get_readonly." + class)
	if !bio.Valid(crashed.Block) {
		res.Count("get_readonly.on_torn_block")
	}
	oldH, oldOK := bio.Lookup(oldContent, id, ideal)
	newH, newOK := bio.Lookup(refNew, id, ideal)
	isOld := (class == "found") == oldOK && (!oldOK || got == oldH)
	isNew := (class == "found") == newOK && (!newOK || got == newH)
	switch {
	case class == "err" || class == "panic":
		res.Fail("post-crash-readonly-read-error", fmt.Sprintf("%s: read-only lookup after %s failed: %v", in.Tag, where, gerr), in)
	case !isOld && !isNew:
		res.Fail("post-crash-readonly-read-not-old-or-new", fmt.Sprintf("%s: read-only lookup after %s returned a record that is neither the old nor the new one (version %d; old %d, new %d): the torn block was parsed instead of the restored image",
			in.Tag, where, got.Version, oldH.Version, newH.Version), in)
	case string(st.Block) != string(crashed.Block):
		res.Fail("readonly-reader-changed-block", fmt.Sprintf("%s: read-only lookup after %s changed the block", in.Tag, where), in)
	}
	// the oracle above runs on every crash; the model comparison on every 3rd one in the quick
	// tier (and on every corpus case) to keep the coqc time down
	roCases++
	if roAll || roCases%roEvery == 1 || in.Tag == "block_write_torn_inside_record" {
		res.AddCase(bio.PairTerm(crashed, st, func(a, b string) string {
			return fmt.Sprintf("C22ReadRO %s %s %d %s %s", a, hx.CoqBytes(id[:]), ideal, obsTerm(class, got), b)
		}), in)
	}
	return nil
}

// ---------------------------------------------------------------- gated reader / writer

type gates struct {
	readerRead, readerGo     chan struct{}
	writerMid, writerGo      chan struct{}
	writerWritten, writerFin chan struct{}
}

func concurrent(res *hx.Result, in c22Input, env *bio.Env, init bio.State, oldContent, refNew []byte) error {
	ctx := context.Background()
	blockOff := int64(in.BlockIdx) * bio.B
	id := in.Upd.LogicalID
	ideal := idealOf(id)
	dataT := hx.CoqBytes(bio.Encode(in.Upd))
	idT := hx.CoqBytes(id[:])
	g := gates{make(chan struct{}), make(chan struct{}), make(chan struct{}), make(chan struct{}), make(chan struct{}), make(chan struct{})}
	pauseAfterWrite := in.Kind == "undone"
	readerReads, writerWrites := 0, 0
	sim := &bio.Sim{
		AfterRead: func(role string, f *os.File, block []byte, off int64) {
			if role == "reader" && off == blockOff {
				readerReads++
				if readerReads == 1 {
					g.readerRead <- struct{}{}
					<-g.readerGo
				}
			}
		},
		OnWrite: func(role string, f *os.File, block []byte, off int64) (bool, int, error) {
			if role != "writer" || off != blockOff {
				return false, 0, nil
			}
			writerWrites++
			if writerWrites != 1 {
				return false, 0, nil
			}
			if in.K > 0 {
				f.WriteAt(block[:in.K], off)
			}
			g.writerMid <- struct{}{}
			<-g.writerGo
			if _, err := f.WriteAt(block[in.K:], off+int64(in.K)); err != nil {
				return true, 0, err
			}
			if pauseAfterWrite {
				g.writerWritten <- struct{}{}
				<-g.writerFin
			}
			return true, len(block), nil
		},
	}
	bio.Install(sim)
	defer bio.Install(&bio.Sim{})
	type rres struct {
		h     sop.Handle
		class string
		err   error
	}
	rch := make(chan rres, 1)
	wch := make(chan string, 1)
	startReader := func() {
		go func() {
			h, c, e := env.GetMode(bio.WithRole(ctx, "reader"), id, !in.RO)
			rch <- rres{h, c, e}
		}()
	}
	startWriter := func() {
		go func() {
			c, _ := env.Update(bio.WithRole(ctx, "writer"), in.Upd)
			wch <- c
		}()
	}
	wait := func(ch chan struct{}, what string) error {
		select {
		case <-ch:
			return nil
		case <-time.After(20 * time.Second):
			return fmt.Errorf("timeout waiting for %s", what)
		}
	}
	p1T := "QStart"
	if in.P1 == "blk" {
		p1T = fmt.Sprintf("(QBlk %d)", in.K)
	}

	switch in.Kind {
	case "conc":
		var rr rres
		if in.P1 == "start" { // reader reads the intact block first
			startReader()
			if err := wait(g.readerRead, "reader read"); err != nil {
				return err
			}
			startWriter()
			if err := wait(g.writerMid, "writer mid-write"); err != nil {
				return err
			}
			if in.P2 == "done" {
				g.writerGo <- struct{}{}
				<-wch
				g.readerGo <- struct{}{}
				rr = <-rch
			} else {
				g.readerGo <- struct{}{}
				rr = <-rch
				g.writerGo <- struct{}{}
				<-wch
			}
		} else { // reader reads the torn block
			startWriter()
			if err := wait(g.writerMid, "writer mid-write"); err != nil {
				return err
			}
			startReader()
			if err := wait(g.readerRead, "reader read"); err != nil {
				return err
			}
			if in.P2 == "done" {
				g.writerGo <- struct{}{}
				<-wch
				g.readerGo <- struct{}{}
				rr = <-rch
			} else {
				g.readerGo <- struct{}{}
				rr = <-rch
				g.writerGo <- struct{}{}
				<-wch
			}
		}
		p2T := "QDone"
		if in.P2 != "done" {
			p2T = fmt.Sprintf("(QBlk %d)", in.K)
		}
		mode := "rw"
		if in.RO {
			mode = "ro"
		}
		res.Count("conc." + mode + "." + in.P1 + "." + in.P2 + "." + rr.class)
		oldH, oldOK := bio.Lookup(oldContent, id, ideal)
		newH, newOK := bio.Lookup(refNew, id, ideal)
		isOld := (rr.class == "found") == oldOK && (!oldOK || rr.h == oldH)
		isNew := (rr.class == "found") == newOK && (!newOK || rr.h == newH)
		if rr.class == "err" || rr.class == "panic" {
			res.Count("conc.reader_error")
			res.Fail("concurrent-read-error", fmt.Sprintf("%s: lock-free lookup next to a running update failed: %v", in.Tag, rr.err), in)
		} else if !isOld && !isNew && !(in.P1 == "blk" && in.P2 == "done") {
			res.Fail("concurrent-read-neither-old-nor-new", fmt.Sprintf("%s: lock-free lookup (read-only=%v) read the block %d bytes into the writer's block write while the backup was still there and returned a record that is neither the old nor the new one (version %d; old %d, new %d)",
				in.Tag, in.RO, in.K, rr.h.Version, oldH.Version, newH.Version), in)
		} else if !isOld && !isNew {
			res.Fail(sigTornServed, fmt.Sprintf("%s: lock-free lookup read the block %d bytes into the writer's block write and looked for the backup after the writer removed it: it returned a record that is neither the old nor the new one (version %d; old %d, new %d)",
				in.Tag, in.K, rr.h.Version, oldH.Version, newH.Version), in)
		}
		if fin, err := env.ReadState(blockOff); err == nil && string(fin.Block) != string(oldContent) && string(fin.Block) != string(refNew) {
			res.Fail(sigInterleaved, fmt.Sprintf("%s: the lock-free reader restored the old image between two chunks of the writer's block write (first %d bytes written before, the rest after): the block on disk is an old/new mixture and the writer removed the backup", in.Tag, in.K), in)
		}
		res.AddCase(fmt.Sprintf("C22Conc %s %s %d %s %s %s %s", bio.DiskTerm(init), idT, ideal, dataT, p1T, p2T, obsTerm(rr.class, rr.h)), in)
		res.Sample(map[string]any{"kind": "conc", "p1": in.P1, "p2": in.P2, "k": in.K, "result": rr.class, "version": rr.h.Version})

	case "crashreader":
		// the reader reads the intact block, then a writer PROCESS dies k bytes into its block
		// write, then the reader goes on (removes the "stale" backup)
		startReader()
		if err := wait(g.readerRead, "reader read"); err != nil {
			return err
		}
		if code, err := runChildProc(env, childOp{Op: "update", Handle: &in.Upd, TearWrite: 1, K: in.K}); err != nil || code != 7 {
			return fmt.Errorf("writer child: code %d err %v", code, err)
		}
		g.readerGo <- struct{}{}
		<-rch
		final, err := env.ReadState(blockOff)
		if err != nil {
			return err
		}
		bio.Install(&bio.Sim{})
		got, class, gerr := env.Get(ctx, id)
		after, _ := env.ReadState(blockOff)
		res.Count("crashreader.later_get." + class)
		bad := class == "err" || class == "panic" || (string(after.Block) != string(oldContent) && string(after.Block) != string(refNew))
		if bad {
			res.Fail(sigLiveBackup, fmt.Sprintf("%s: a lock-free lookup that had read the intact block removed the writer's live backup as stale; the writer died %d bytes into the block write; the torn block has no backup any more: a later lookup returned %s (version %d) err=%v and the block on disk is neither old nor new",
				in.Tag, in.K, class, got.Version, gerr), in)
		}
		res.AddCase(fmt.Sprintf("C22CrashReader %s %s %d %s QStart (QBlk %d) %s", bio.DiskTerm(init), idT, ideal, dataT, in.K, bio.DiskTerm(final)), in)

	case "undone":
		startWriter()
		if err := wait(g.writerMid, "writer mid-write"); err != nil {
			return err
		}
		startReader()
		if err := wait(g.readerRead, "reader read"); err != nil {
			return err
		}
		g.writerGo <- struct{}{}
		if err := wait(g.writerWritten, "writer wrote"); err != nil {
			return err
		}
		g.readerGo <- struct{}{}
		rr := <-rch
		g.writerFin <- struct{}{}
		wc := <-wch
		final, err := env.ReadState(blockOff)
		if err != nil {
			return err
		}
		if wc == "ok" && string(final.Block) == string(oldContent) && string(oldContent) != string(refNew) {
			res.Count("S15.update_reported_ok_but_block_is_old")
		}
		if string(final.Block) != string(oldContent) && string(final.Block) != string(refNew) {
			res.Fail("concurrent-restore-left-mixture", fmt.Sprintf("%s: block after reader restore racing with writer is neither old nor new", in.Tag), in)
		}
		_ = rr
		res.AddCase(fmt.Sprintf("C22Undone %s %s %d %s %s %s", bio.DiskTerm(init), idT, ideal, dataT, p1T, bio.DiskTerm(final)), in)
	}
	return nil
}

// ---------------------------------------------------------------- generation

func genHandle(r *hx.Rng, id sop.UUID) sop.Handle {
	return sop.Handle{LogicalID: id, PhysicalIDA: sop.UUID(r.Bytes(16)), PhysicalIDB: sop.UUID(r.Bytes(16)), IsActiveIDB: r.Bool(),
		Version: int32(1 + r.Intn(1000)), WorkInProgressTimestamp: int64(r.U64() >> 16), IsDeleted: r.Chance(10)}
}

func tearPoints(tier string) []int {
	if tier == "thorough" {
		ks := make([]int, bio.B+1)
		for i := range ks {
			ks[i] = i
		}
		return ks
	}
	seen := map[int]bool{}
	var ks []int
	add := func(k int) {
		if k >= 0 && k <= bio.B && !seen[k] {
			seen[k] = true
			ks = append(ks, k)
		}
	}
	for _, k := range []int{0, 1, bio.B - 5, bio.B - 4, bio.B - 3, bio.B - 2, bio.B - 1, bio.B} {
		add(k)
	}
	for i := 0; i <= bio.NSlot; i++ {
		add(i*bio.S - 1)
		add(i * bio.S)
		add(i*bio.S + 1)
	}
	return ks
}

func runC22(cfg *hx.RunCfg) (*hx.Result, error) {
	res := hx.NewResult("C22")
	res.Imports = []string{"Lib.Bytes", "BlockIO", "BlockIOCorr", "Corr.C22"}
	res.CaseType = "c22case"
	res.Checker = "c22_check"
	res.Rule = "a registry block populated through Add; an Update of a stored or new record runs in a child process that dies k bytes into the block write (k = 0, 1, every multiple of 62 +-1, around the CRC trailer, 4096; thorough: all 4097), k bytes into the restore write, with k bytes of the backup file written (planted state), or completes; initial states: intact, intact + stale backup (junk / valid older), torn by an earlier crashed update. After every crash first a lookup through a READ-ONLY registry (readWrite=false), then one through a read-write registry. Then lock-free lookups (read-write and read-only) gated against a running / dying writer. distinct = distinct (initial block, backup, crash point, k, record); non-trivial = the update did not complete"
	bio.Install(&bio.Sim{})
	if cfg.Tier == "thorough" {
		procEvery, roEvery = 50, 2 // thorough: model comparison of the read-only lookup on every 2nd crash
	}
	if cfg.Replay != "" {
		procEvery, roAll = 1, true
		raw, err := os.ReadFile(cfg.Replay)
		if err != nil {
			return nil, err
		}
		var rp struct {
			Input c22Input `json:"input"`
		}
		if err := json.Unmarshal(raw, &rp); err != nil {
			return nil, err
		}
		return res, c22Case(res, rp.Input)
	}
	r := hx.NewRng(cfg.Seed)
	run := func(in c22Input) error {
		if err := c22Case(res, in); err != nil {
			// the scenario could not be driven as scripted (a crash point was never reached, a
			// gate timed out, a reference update failed): the implementation left the modelled
			// protocol; reported with the input, and the run goes on
			res.Fail("scenario-aborted", fmt.Sprintf("%s %s k=%d: %v", in.Kind, in.Tag, in.K, err), in)
		}
		return nil
	}

	// ---- fixed scenario: three records in block 0 of a 1-block table, update of the middle one
	idA, idB, idC := bio.IDFor(1, 0, 2, 5), bio.IDFor(1, 0, 40, 6), bio.IDFor(1, 0, 65, 7)
	hA := sop.Handle{LogicalID: idA, PhysicalIDA: bio.IDFor(1, 0, 9, 9), Version: 3}
	hB := sop.Handle{LogicalID: idB, PhysicalIDA: bio.IDFor(1, 0, 8, 8), Version: 11, WorkInProgressTimestamp: 1700000000000}
	hC := sop.Handle{LogicalID: idC, PhysicalIDA: bio.IDFor(1, 0, 7, 7), Version: 5}
	updB := sop.Handle{LogicalID: idB, PhysicalIDA: bio.IDFor(1, 0, 8, 8), PhysicalIDB: bio.IDFor(1, 0, 3, 1234), IsActiveIDB: true, Version: 12}
	base := c22Input{HashMod: 1, Handles: []sop.Handle{hA, hB, hC}, Stale: "none", Torn0: -1, Upd: updB}
	with := func(f func(*c22Input)) c22Input { in := base; f(&in); return in }

	// corpus: the two known findings and S15, hit on every run
	fixed := []c22Input{
		with(func(in *c22Input) {
			in.Kind, in.P1, in.P2, in.K, in.Tag = "conc", "blk", "done", 40*bio.S+55, "corpus_torn_read_backup_gone"
		}),
		with(func(in *c22Input) {
			in.Kind, in.P1, in.K, in.Tag = "crashreader", "start", 40*bio.S+55, "corpus_live_backup_removed"
		}),
		with(func(in *c22Input) {
			in.Kind, in.P1, in.K, in.Tag = "undone", "blk", 40*bio.S+55, "corpus_S15_reader_restores_over_writer"
		}),
		with(func(in *c22Input) {
			in.Kind, in.P1, in.P2, in.K, in.Tag = "conc", "blk", "blk", 40*bio.S+55, "conc_torn_read_backup_present"
		}),
		with(func(in *c22Input) {
			in.Kind, in.P1, in.P2, in.K, in.Tag = "conc", "start", "blk", 2000, "conc_intact_read"
		}),
		with(func(in *c22Input) {
			in.Kind, in.P1, in.P2, in.K, in.Tag = "conc", "start", "done", 2000, "conc_intact_read_late"
		}),
		with(func(in *c22Input) {
			in.Kind, in.P1, in.P2, in.K, in.Tag = "conc", "blk", "done", 0, "conc_nothing_written_yet"
		}),
		with(func(in *c22Input) {
			in.Kind, in.P1, in.P2, in.K, in.Tag = "conc", "blk", "done", bio.B, "conc_all_written"
		}),
		with(func(in *c22Input) { in.Kind, in.Point, in.Tag = "crash", "done", "update_completes" }),
		// read-only readers (readWrite=false), torn prefix cutting through the updated record
		with(func(in *c22Input) {
			in.Kind, in.P1, in.P2, in.K, in.RO, in.Tag = "conc", "blk", "blk", 40*bio.S+55, true, "readonly_in_flight_torn_backup_present"
		}),
		with(func(in *c22Input) {
			in.Kind, in.P1, in.P2, in.K, in.RO, in.Tag = "conc", "blk", "blk", 40*bio.S+20, true, "readonly_in_flight_torn_backup_present"
		}),
		with(func(in *c22Input) {
			in.Kind, in.P1, in.P2, in.K, in.RO, in.Tag = "conc", "start", "blk", 40*bio.S+55, true, "readonly_intact_read"
		}),
		with(func(in *c22Input) {
			in.Kind, in.P1, in.P2, in.K, in.RO, in.Tag = "conc", "blk", "done", 40*bio.S+55, true, "readonly_torn_read_backup_gone"
		}),
		with(func(in *c22Input) {
			in.Kind, in.P1, in.K, in.RO, in.Tag = "crashreader", "start", 40*bio.S+55, true, "readonly_reader_removes_live_backup"
		}),
		with(func(in *c22Input) {
			in.Kind, in.Point, in.K, in.Tag = "crash", "block", 40*bio.S+20, "block_write_torn_inside_record"
		}),
		with(func(in *c22Input) {
			in.Kind, in.Point, in.K, in.Tag = "crash", "block", 40*bio.S+55, "block_write_torn_inside_record"
		}),
	}
	for _, in := range fixed {
		if err := run(in); err != nil {
			return nil, err
		}
	}
	// every tear point of the block write
	for _, k := range tearPoints(cfg.Tier) {
		if err := run(with(func(in *c22Input) { in.Kind, in.Point, in.K, in.Tag = "crash", "block", k, "block_write_torn" })); err != nil {
			return nil, err
		}
	}
	sample := func(n int) []int {
		ks := []int{0, 1, bio.B - 4, bio.B - 1, bio.B}
		for len(ks) < n {
			ks = append(ks, r.Intn(bio.B+1))
		}
		return ks
	}
	nS := 12
	if cfg.Tier == "thorough" {
		nS = 150
	}
	// backup write torn (planted state)
	for _, k := range sample(nS) {
		if err := run(with(func(in *c22Input) { in.Kind, in.Point, in.K, in.Tag = "crash", "cow", k, "backup_write_torn" })); err != nil {
			return nil, err
		}
	}
	// an earlier update died mid-write; the next update dies in its restore write / its block write;
	// a reader dies in its restore write
	prev := sop.Handle{LogicalID: idB, PhysicalIDA: bio.IDFor(1, 0, 1, 1), Version: 77, IsDeleted: true}
	for _, k := range sample(nS) {
		t0 := 40*bio.S + 30 + r.Intn(32) // inside the record, past the bytes old and new share
		for _, pt := range []string{"restore", "block"} {
			if err := run(with(func(in *c22Input) {
				in.Kind, in.Point, in.K, in.Torn0, in.Prev, in.Tag = "crash", pt, k, t0, &prev, "after_earlier_torn_update_"+pt
			})); err != nil {
				return nil, err
			}
		}
		if err := run(with(func(in *c22Input) {
			in.Kind, in.K, in.Torn0, in.Prev, in.Tag = "readcrash", k, t0, &prev, "reader_dies_in_restore"
		})); err != nil {
			return nil, err
		}
	}
	// ---- random scenarios: other tables, stale backups, inserts into empty slots, first/last slot
	nR := cfg.N
	if nR == 0 {
		nR = 40
		if cfg.Tier == "thorough" {
			nR = 1500
		}
	}
	for i := 0; i < nR; i++ {
		hm := hx.Pick(r, []int{1, 2, 3})
		blk := r.Intn(hm)
		var hs []sop.Handle
		for j, n := 0, 1+r.Intn(4); j < n; j++ {
			slot := r.Intn(bio.NSlot)
			if r.Chance(30) {
				slot = hx.Pick(r, []int{0, bio.NSlot - 1})
			}
			if j > 0 && r.Chance(25) {
				slot = idealOf(hs[0].LogicalID) / bio.S
			}
			hs = append(hs, genHandle(r, bio.IDFor(hm, blk, slot, uint32(1+r.Intn(1<<20)))))
		}
		upd := genHandle(r, hs[r.Intn(len(hs))].LogicalID)
		if r.Chance(25) { // a record that is not there yet
			upd = genHandle(r, bio.IDFor(hm, blk, r.Intn(bio.NSlot), uint32(1<<21+r.Intn(1000))))
		}
		in := c22Input{Kind: "crash", HashMod: hm, BlockIdx: blk, Handles: hs, Stale: hx.Pick(r, []string{"none", "none", "junk", "valid_older"}), Torn0: -1, Upd: upd,
			Point: hx.Pick(r, []string{"block", "block", "block", "cow", "done"}), Tag: "random"}
		in.K = r.Intn(bio.B + 1)
		if r.Chance(40) {
			in.K = hx.Pick(r, tearPoints("quick"))
		}
		if in.Stale != "none" && in.Point == "cow" {
			in.Point = "block"
		}
		if r.Chance(20) {
			in.Kind, in.P1, in.P2 = "conc", hx.Pick(r, []string{"start", "blk"}), hx.Pick(r, []string{"blk", "done"})
			in.Stale, in.RO = "none", r.Bool()
		}
		if err := run(in); err != nil {
			return nil, err
		}
	}
	res.Notes = append(res.Notes,
		fmt.Sprintf("torn block writes observed: %d failed the checksum rule, %d were byte-wise mixtures that pass it (the crc_detects assumption would be false for those pairs)",
			res.Distribution["crashed.block_invalid"], res.Distribution["crashed.mixture_passes_checksum"]),
		fmt.Sprintf("S15 (not a C22 violation, recorded): reader restore racing with a non-crashing writer left the OLD block while the update reported success in %d gated run(s)", res.Distribution["S15.update_reported_ok_but_block_is_old"]))
	_ = filepath.Join
	return res, nil
}

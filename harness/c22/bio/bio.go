// Package bio holds what the C22 and C23 harnesses share: a registry table on a
// scratch folder, raw access to its segment file and .cow backup, a DirectIO
// simulator with hooks (tearing, gating, crashing), and printers of the compact
// "sparse file" Coq terms used in cases_*.v.
package bio

import (
	"context"
	"encoding/binary"
	"fmt"
	"hash/crc32"
	"os"
	"path/filepath"
	"strings"
	"sync"

	"github.com/sharedcode/sop"
	"github.com/sharedcode/sop/cache"
	"github.com/sharedcode/sop/encoding"
	"github.com/sharedcode/sop/fs"
)

const (
	B     = fs.VerifBlockSize
	S     = sop.HandleSizeInBytes
	NSlot = fs.VerifHandlesPerBlock
	Table = "t"
)

// ---------------------------------------------------------------- DirectIO simulator

type roleKey struct{}

// WithRole tags a context so that the simulator knows which actor issues an I/O.
func WithRole(ctx context.Context, role string) context.Context {
	return context.WithValue(ctx, roleKey{}, role)
}
func Role(ctx context.Context) string {
	if v, ok := ctx.Value(roleKey{}).(string); ok {
		return v
	}
	return ""
}

// Sim implements fs.DirectIO on plain files. OnWrite may take over a write
// (tear it, block, exit the process); AfterRead runs after the bytes were read.
type Sim struct {
	Mu        sync.Mutex
	OnWrite   func(role string, f *os.File, block []byte, off int64) (handled bool, n int, err error)
	AfterRead func(role string, f *os.File, block []byte, off int64)
	Reads     int
	Writes    int
}

func (s *Sim) Open(ctx context.Context, filename string, flag int, perm os.FileMode) (*os.File, error) {
	return os.OpenFile(filename, flag, perm)
}
func (s *Sim) WriteAt(ctx context.Context, f *os.File, block []byte, off int64) (int, error) {
	s.Mu.Lock()
	s.Writes++
	h := s.OnWrite
	s.Mu.Unlock()
	if h != nil {
		if handled, n, err := h(Role(ctx), f, block, off); handled {
			return n, err
		}
	}
	return f.WriteAt(block, off)
}
func (s *Sim) ReadAt(ctx context.Context, f *os.File, block []byte, off int64) (int, error) {
	n, err := f.ReadAt(block, off)
	s.Mu.Lock()
	s.Reads++
	h := s.AfterRead
	s.Mu.Unlock()
	if h != nil && err == nil {
		h(Role(ctx), f, block, off)
	}
	return n, err
}
func (s *Sim) Close(f *os.File) error { return f.Close() }

// Install makes s the DirectIO of every hashmap opened from now on.
func Install(s *Sim) { fs.DirectIOSim = s }

// ---------------------------------------------------------------- a registry table on disk

type Env struct {
	Base    string
	HashMod int
}

func scratchRoot() string {
	if w := os.Getenv("VERIF_WORK"); w != "" {
		return w
	}
	return ""
}

// NewEnv creates <scratch>/bioN/ with the table folder the registry expects to exist.
func NewEnv(hashMod int) (*Env, error) {
	base, err := os.MkdirTemp(scratchRoot(), "bio")
	if err != nil {
		return nil, err
	}
	if err := os.MkdirAll(filepath.Join(base, Table), 0o755); err != nil {
		return nil, err
	}
	return &Env{Base: base, HashMod: hashMod}, nil
}
func OpenEnv(base string, hashMod int) *Env { return &Env{Base: base, HashMod: hashMod} }
func (e *Env) Remove()                      { os.RemoveAll(e.Base) }
func (e *Env) SegPath() string              { return filepath.Join(e.Base, Table, Table+"-1.reg") }
func (e *Env) CowPath(blockOff int64) string {
	return fmt.Sprintf("%s_%d.cow", strings.TrimSuffix(e.SegPath(), ".reg"), blockOff)
}

// Reg is a fresh registry object with a fresh in-memory L2 cache: reads hit the disk.
type Reg struct {
	R interface {
		sop.Registry
		Close() error
	}
}

func (e *Env) Open() (*Reg, error) { return e.OpenMode(true) }

// OpenMode(false) is a read-only registry (readWrite=false: segment files opened O_RDONLY), what
// every non-writing transaction uses.
func (e *Env) OpenMode(rw bool) (*Reg, error) {
	// a fresh cache per registry object; the default pre-sizes 2 x 256 shards x 1000 entries,
	// far more than the handful of keys used here
	cache.DefaultInMemoryCacheShardCapacity = 16
	c := cache.NewL2InMemoryCache()
	rt, err := fs.NewReplicationTracker(context.Background(), []string{e.Base}, false, c)
	if err != nil {
		return nil, err
	}
	return &Reg{R: fs.NewRegistry(rw, e.HashMod, rt, c)}, nil
}

// Get looks one id up with a fresh registry. class: "found" | "notfound" | "err".
func (e *Env) Get(ctx context.Context, id sop.UUID) (h sop.Handle, class string, err error) {
	return e.GetMode(ctx, id, true)
}

// GetMode(…, false) looks the id up through a read-only registry.
func (e *Env) GetMode(ctx context.Context, id sop.UUID, rw bool) (h sop.Handle, class string, err error) {
	defer func() {
		if p := recover(); p != nil {
			class, err = "panic", fmt.Errorf("panic: %v", p)
		}
	}()
	r, err := e.OpenMode(rw)
	if err != nil {
		return h, "err", err
	}
	defer r.R.Close()
	res, err := r.R.Get(ctx, []sop.RegistryPayload[sop.UUID]{{RegistryTable: Table, IDs: []sop.UUID{id}}})
	if err != nil {
		return h, "err", err
	}
	if len(res) == 0 || len(res[0].IDs) == 0 {
		return h, "notfound", nil
	}
	return res[0].IDs[0], "found", nil
}

// Update writes one handle with a fresh registry. class: "ok" | "err".
func (e *Env) Update(ctx context.Context, h sop.Handle) (class string, err error) {
	defer func() {
		if p := recover(); p != nil {
			class, err = "panic", fmt.Errorf("panic: %v", p)
		}
	}()
	r, err := e.Open()
	if err != nil {
		return "err", err
	}
	defer r.R.Close()
	if err := r.R.Update(ctx, []sop.RegistryPayload[sop.Handle]{{RegistryTable: Table, IDs: []sop.Handle{h}}}); err != nil {
		return "err", err
	}
	return "ok", nil
}
func (e *Env) Add(ctx context.Context, h sop.Handle) error {
	r, err := e.Open()
	if err != nil {
		return err
	}
	defer r.R.Close()
	return r.R.Add(ctx, []sop.RegistryPayload[sop.Handle]{{RegistryTable: Table, IDs: []sop.Handle{h}}})
}

// raw state of one block: bytes of the block region and of the backup file
type State struct {
	Block  []byte
	Cow    []byte
	HasCow bool
}

func (e *Env) ReadState(blockOff int64) (State, error) {
	var st State
	f, err := os.Open(e.SegPath())
	if err != nil {
		return st, err
	}
	defer f.Close()
	st.Block = make([]byte, B)
	if _, err := f.ReadAt(st.Block, blockOff); err != nil {
		return st, err
	}
	c, err := os.ReadFile(e.CowPath(blockOff))
	if err == nil {
		st.Cow, st.HasCow = c, true
	} else if !os.IsNotExist(err) {
		return st, err
	}
	return st, nil
}
func (e *Env) WriteState(blockOff int64, st State) error {
	f, err := os.OpenFile(e.SegPath(), os.O_RDWR, 0o644)
	if err != nil {
		return err
	}
	if _, err := f.WriteAt(st.Block, blockOff); err != nil {
		f.Close()
		return err
	}
	if err := f.Close(); err != nil {
		return err
	}
	if st.HasCow {
		return os.WriteFile(e.CowPath(blockOff), st.Cow, 0o644)
	}
	if err := os.Remove(e.CowPath(blockOff)); err != nil && !os.IsNotExist(err) {
		return err
	}
	return nil
}
func (st State) Clone() State {
	return State{Block: append([]byte(nil), st.Block...), Cow: append([]byte(nil), st.Cow...), HasCow: st.HasCow}
}
func (st State) Equal(o State) bool {
	return string(st.Block) == string(o.Block) && st.HasCow == o.HasCow && (!st.HasCow || string(st.Cow) == string(o.Cow))
}

// ---------------------------------------------------------------- ids, records, block helpers

// IDFor builds an id that hashes to the given block and ideal slot (UUID.Split is big endian).
func IDFor(hashMod, block, slot int, salt uint32) sop.UUID {
	var u sop.UUID
	hi := (uint64(salt)+1)*uint64(hashMod)*1000003 + uint64(block) // hi mod hashMod == block
	lo := (uint64(salt)+1)*uint64(NSlot)*7919 + uint64(slot)       // lo mod 66 == slot
	binary.BigEndian.PutUint64(u[:8], hi)
	binary.BigEndian.PutUint64(u[8:], lo)
	return u
}

func Encode(h sop.Handle) []byte {
	b, _ := encoding.NewHandleMarshaler().Marshal(h, make([]byte, 0, S))
	return b
}

// Valid is the checksum rule computed independently of the implementation: all-zero block, or
// CRC-32/IEEE of the data area equals the little-endian trailer. ImplValid asks the code.
func Valid(block []byte) bool {
	if len(block) < 4 {
		return false
	}
	zero := true
	for _, x := range block {
		if x != 0 {
			zero = false
			break
		}
	}
	return zero || crc32.ChecksumIEEE(block[:len(block)-4]) == binary.LittleEndian.Uint32(block[len(block)-4:])
}
func ImplValid(block []byte) bool {
	_, err := fs.VerifUnmarshalData(block)
	return err == nil
}

// CowValid is checkCow's rule: exactly one block long and checksum-valid.
func CowValid(st State) bool { return st.HasCow && len(st.Cow) == B && Valid(st.Cow) }

// Lookup scans a block the way findOneFileRegion(forWriting=false) does.
func Lookup(block []byte, id sop.UUID, ideal int) (sop.Handle, bool) {
	try := func(off int) (sop.Handle, bool) {
		s := block[off : off+S]
		zero := true
		for _, x := range s {
			if x != 0 {
				zero = false
				break
			}
		}
		var h sop.Handle
		if zero || string(s[:16]) != string(id[:]) {
			return h, false
		}
		if err := encoding.NewHandleMarshaler().Unmarshal(s, &h); err != nil {
			return h, false
		}
		return h, true
	}
	if h, ok := try(ideal); ok {
		return h, true
	}
	for i := 0; i < NSlot; i++ {
		if i*S == ideal {
			continue
		}
		if h, ok := try(i * S); ok {
			return h, true
		}
	}
	return sop.Handle{}, false
}

// ---------------------------------------------------------------- Coq printers

// Sparse prints a file as (len, [(off, bytes); ...]) listing only the non-zero runs
// (runs separated by fewer than 6 zero bytes are merged).
func Sparse(b []byte) string {
	var sb strings.Builder
	fmt.Fprintf(&sb, "(%d, [", len(b))
	first := true
	i := 0
	for i < len(b) {
		if b[i] == 0 {
			i++
			continue
		}
		j, last := i, i
		for j < len(b) && j-last < 6 {
			if b[j] != 0 {
				last = j
			}
			j++
		}
		if !first {
			sb.WriteString("; ")
		}
		first = false
		fmt.Fprintf(&sb, "(%d, [", i)
		for k := i; k <= last; k++ {
			if k > i {
				sb.WriteString(";")
			}
			fmt.Fprintf(&sb, "%d", b[k])
		}
		sb.WriteString("])")
		i = last + 1
	}
	sb.WriteString("])")
	return sb.String()
}

// DiskTerm prints a State as the argument pair of BlockIO.mkdisk_of.
func DiskTerm(st State) string {
	if st.HasCow {
		return fmt.Sprintf("(mkDisk (fo %s) (Some (fo %s)))", Sparse(st.Block), Sparse(st.Cow))
	}
	return fmt.Sprintf("(mkDisk (fo %s) None)", Sparse(st.Block))
}

// PairTerm prints "let b := <block> in <ctor applied to pre and post disks>" sharing the block
// (and the whole disk) between pre and post when their bytes are equal; mk receives the two
// disk terms.
func PairTerm(pre, post State, mk func(preT, postT string) string) string {
	var sb strings.Builder
	sb.WriteString("(let b_ := fo " + Sparse(pre.Block) + " in ")
	preCow, postCow := "None", "None"
	if pre.HasCow {
		sb.WriteString("let c_ := fo " + Sparse(pre.Cow) + " in ")
		preCow = "(Some c_)"
	}
	postBlk := "b_"
	if string(post.Block) != string(pre.Block) {
		if pre.HasCow && string(post.Block) == string(pre.Cow) {
			postBlk = "c_"
		} else {
			postBlk = "(fo " + Sparse(post.Block) + ")"
		}
	}
	if post.HasCow {
		if pre.HasCow && string(post.Cow) == string(pre.Cow) {
			postCow = "(Some c_)"
		} else if string(post.Cow) == string(pre.Block) {
			postCow = "(Some b_)"
		} else {
			postCow = "(Some (fo " + Sparse(post.Cow) + "))"
		}
	}
	sb.WriteString(mk("(mkDisk b_ "+preCow+")", "(mkDisk "+postBlk+" "+postCow+")"))
	sb.WriteString(")")
	return sb.String()
}

func LowOf(id sop.UUID) uint64 { return binary.BigEndian.Uint64(id[8:]) }

// TripleTerm is PairTerm for three states (initial, after the crash, after the next lookup).
func TripleTerm(a, b, c State, mk func(aT, bT, cT string) string) string {
	var sb strings.Builder
	sb.WriteString("(let b_ := fo " + Sparse(a.Block) + " in ")
	aCow := "None"
	if a.HasCow {
		sb.WriteString("let c_ := fo " + Sparse(a.Cow) + " in ")
		aCow = "(Some c_)"
	}
	file := func(x []byte) string {
		if string(x) == string(a.Block) {
			return "b_"
		}
		if a.HasCow && string(x) == string(a.Cow) {
			return "c_"
		}
		return "(fo " + Sparse(x) + ")"
	}
	disk := func(st State) string {
		if st.HasCow {
			return "(mkDisk " + file(st.Block) + " (Some " + file(st.Cow) + "))"
		}
		return "(mkDisk " + file(st.Block) + " None)"
	}
	sb.WriteString(mk("(mkDisk b_ "+aCow+")", disk(b), disk(c)))
	sb.WriteString(")")
	return sb.String()
}

func Ints(b []byte) []int {
	o := make([]int, len(b))
	for i, x := range b {
		o[i] = int(x)
	}
	return o
}
func Unints(b []int) []byte {
	o := make([]byte, len(b))
	for i, x := range b {
		o[i] = byte(x)
	}
	return o
}

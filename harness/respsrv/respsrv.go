// Package respsrv is a small in-process RESP2 server: the subset of Redis that
// github.com/redis/go-redis/v9 needs as used by /repo/adapters/redis (strings
// with TTL, NX/XX sets, GETEX, DEL, EXISTS, EXPIRE, MGET, pipelines), with a
// purely logical, controllable clock. It is a stand-in for a Redis server (none
// is available offline) and therefore part of the trusted base of every check
// that uses it (Redis halves of C28, C09, C20).
//
// Semantics follow Redis 7: a key with expiry time `when` (ms) is gone iff
// now > when (db.c keyIsExpired); SET without KEEPTTL clears the TTL; SET NX on
// a live key replies nil and changes nothing; GETEX PERSIST/EX/PX only touch the
// TTL of a live key; DEL/EXISTS count live keys; commands of one connection are
// executed in order; every command is atomic (one global mutex).
//
// HELLO is answered with an error so that go-redis falls back to RESP2.
package respsrv

import (
	"bufio"
	"fmt"
	"io"
	"net"
	"sort"
	"strconv"
	"strings"
	"sync"
	"time"
)

// Entry is one live key as seen by Dump. ExpireAtMs < 0 means no TTL.
type Entry struct {
	Key        string
	Value      string
	ExpireAtMs int64
}

type val struct {
	s      string
	expire int64 // ms on the server clock; <0 = no expiry
}

// Server is one fake Redis instance (a single database).
type Server struct {
	mu    sync.Mutex
	ln    net.Listener
	data  map[string]val
	nowMs int64
	conns map[net.Conn]struct{}
	// Commands counts executed commands by upper-case name.
	commands map[string]int
	log      []string
	logOn    bool
	// Fault, when non-nil, is consulted before every command (under the server
	// mutex). Returning a non-empty reply (raw RESP, e.g. "-ERR boom\r\n")
	// short-circuits the command; returning drop=true closes the connection.
	fault  func(cmd []string) (reply string, drop bool)
	closed bool
	wg     sync.WaitGroup
}

// Start listens on addr ("127.0.0.1:0" picks a free port) and serves until Close.
// The logical clock starts at 1_000_000 ms.
func Start(addr string) (*Server, error) {
	if addr == "" {
		addr = "127.0.0.1:0"
	}
	ln, err := net.Listen("tcp", addr)
	if err != nil {
		return nil, err
	}
	s := &Server{ln: ln, data: map[string]val{}, nowMs: 1_000_000, conns: map[net.Conn]struct{}{}, commands: map[string]int{}}
	s.wg.Add(1)
	go s.accept()
	return s, nil
}

// Addr is the host:port the server listens on.
func (s *Server) Addr() string { return s.ln.Addr().String() }

// Close stops the listener and drops every connection.
func (s *Server) Close() {
	s.mu.Lock()
	if s.closed {
		s.mu.Unlock()
		return
	}
	s.closed = true
	s.ln.Close()
	for c := range s.conns {
		c.Close()
	}
	s.mu.Unlock()
	s.wg.Wait()
}

// ---- clock control (logical milliseconds; never advances by itself)

func (s *Server) NowMs() int64 { s.mu.Lock(); defer s.mu.Unlock(); return s.nowMs }
func (s *Server) SetNowMs(ms int64) {
	s.mu.Lock()
	s.nowMs = ms
	s.mu.Unlock()
}
func (s *Server) Advance(d time.Duration) {
	s.mu.Lock()
	s.nowMs += d.Milliseconds()
	s.mu.Unlock()
}

// ---- inspection / control

// Dump returns the live (unexpired) keys sorted by key.
func (s *Server) Dump() []Entry {
	s.mu.Lock()
	defer s.mu.Unlock()
	var out []Entry
	for k, v := range s.data {
		if s.expired(v) {
			continue
		}
		out = append(out, Entry{k, v.s, v.expire})
	}
	sort.Slice(out, func(i, j int) bool { return out[i].Key < out[j].Key })
	return out
}

// FlushAll removes every key (the clock is not touched).
func (s *Server) FlushAll() {
	s.mu.Lock()
	s.data = map[string]val{}
	s.mu.Unlock()
}

// SetFault installs (or clears with nil) the fault hook.
func (s *Server) SetFault(f func(cmd []string) (reply string, drop bool)) {
	s.mu.Lock()
	s.fault = f
	s.mu.Unlock()
}

// CommandCounts returns a copy of the per-command counters.
func (s *Server) CommandCounts() map[string]int {
	s.mu.Lock()
	defer s.mu.Unlock()
	o := map[string]int{}
	for k, v := range s.commands {
		o[k] = v
	}
	return o
}

// EnableLog switches the command log on/off; TakeLog returns and clears it.
func (s *Server) EnableLog(on bool) { s.mu.Lock(); s.logOn = on; s.mu.Unlock() }
func (s *Server) TakeLog() []string {
	s.mu.Lock()
	defer s.mu.Unlock()
	l := s.log
	s.log = nil
	return l
}

// ---- networking

func (s *Server) accept() {
	defer s.wg.Done()
	for {
		c, err := s.ln.Accept()
		if err != nil {
			return
		}
		s.mu.Lock()
		if s.closed {
			s.mu.Unlock()
			c.Close()
			return
		}
		s.conns[c] = struct{}{}
		s.mu.Unlock()
		s.wg.Add(1)
		go s.serve(c)
	}
}

func (s *Server) serve(c net.Conn) {
	defer s.wg.Done()
	defer func() {
		c.Close()
		s.mu.Lock()
		delete(s.conns, c)
		s.mu.Unlock()
	}()
	r := bufio.NewReader(c)
	w := bufio.NewWriter(c)
	for {
		cmd, err := readCommand(r)
		if err != nil {
			return
		}
		if len(cmd) == 0 {
			continue
		}
		reply, drop := s.exec(cmd)
		if drop {
			return
		}
		w.WriteString(reply)
		// flush when the client has nothing more buffered (end of a pipeline)
		if r.Buffered() == 0 {
			if w.Flush() != nil {
				return
			}
		}
		if strings.EqualFold(cmd[0], "QUIT") {
			w.Flush()
			return
		}
	}
}

func readLine(r *bufio.Reader) (string, error) {
	l, err := r.ReadString('\n')
	if err != nil {
		return "", err
	}
	return strings.TrimRight(l, "\r\n"), nil
}

// readCommand reads one RESP array of bulk strings (or an inline command).
func readCommand(r *bufio.Reader) ([]string, error) {
	l, err := readLine(r)
	if err != nil {
		return nil, err
	}
	if l == "" {
		return nil, nil
	}
	if l[0] != '*' {
		return strings.Fields(l), nil
	}
	n, err := strconv.Atoi(l[1:])
	if err != nil || n < 0 || n > 1<<20 {
		return nil, fmt.Errorf("bad array header %q", l)
	}
	out := make([]string, 0, n)
	for i := 0; i < n; i++ {
		h, err := readLine(r)
		if err != nil {
			return nil, err
		}
		if h == "" || h[0] != '$' {
			return nil, fmt.Errorf("bad bulk header %q", h)
		}
		m, err := strconv.Atoi(h[1:])
		if err != nil || m < 0 || m > 512<<20 {
			return nil, fmt.Errorf("bad bulk length %q", h)
		}
		buf := make([]byte, m+2)
		if _, err := io.ReadFull(r, buf); err != nil {
			return nil, err
		}
		out = append(out, string(buf[:m]))
	}
	return out, nil
}

// ---- RESP2 replies

func rOK() string            { return "+OK\r\n" }
func rNil() string           { return "$-1\r\n" }
func rInt(n int64) string    { return ":" + strconv.FormatInt(n, 10) + "\r\n" }
func rBulk(s string) string  { return "$" + strconv.Itoa(len(s)) + "\r\n" + s + "\r\n" }
func rErr(msg string) string { return "-" + msg + "\r\n" }
func rArr(items []string) string {
	var sb strings.Builder
	sb.WriteString("*" + strconv.Itoa(len(items)) + "\r\n")
	for _, it := range items {
		sb.WriteString(it)
	}
	return sb.String()
}

func errArgs(name string) string {
	return rErr("ERR wrong number of arguments for '" + strings.ToLower(name) + "' command")
}

const errSyntax = "ERR syntax error"
const errNotInt = "ERR value is not an integer or out of range"

// ---- data helpers (call with s.mu held)

func (s *Server) expired(v val) bool { return v.expire >= 0 && s.nowMs > v.expire }

func (s *Server) get(k string) (val, bool) {
	v, ok := s.data[k]
	if !ok {
		return val{}, false
	}
	if s.expired(v) {
		delete(s.data, k)
		return val{}, false
	}
	return v, true
}

// parseExpiry reads "EX n" / "PX n" / "EXAT n" / "PXAT n" at args[i]; returns the
// absolute expiry (ms), the number of args consumed (0 = not an expiry option).
func (s *Server) parseExpiry(args []string, i int) (when int64, used int, err string) {
	opt := strings.ToUpper(args[i])
	switch opt {
	case "EX", "PX", "EXAT", "PXAT":
	default:
		return 0, 0, ""
	}
	if i+1 >= len(args) {
		return 0, 0, errSyntax
	}
	n, e := strconv.ParseInt(args[i+1], 10, 64)
	if e != nil {
		return 0, 0, errNotInt
	}
	if n <= 0 {
		return 0, 0, "ERR invalid expire time"
	}
	switch opt {
	case "EX":
		when = s.nowMs + n*1000
	case "PX":
		when = s.nowMs + n
	case "EXAT":
		when = n * 1000
	case "PXAT":
		when = n
	}
	return when, 2, ""
}

func (s *Server) exec(cmd []string) (string, bool) {
	s.mu.Lock()
	defer s.mu.Unlock()
	name := strings.ToUpper(cmd[0])
	s.commands[name]++
	if s.logOn {
		s.log = append(s.log, strings.Join(cmd, " "))
	}
	if s.fault != nil {
		if rep, drop := s.fault(cmd); drop || rep != "" {
			return rep, drop
		}
	}
	a := cmd[1:]
	switch name {
	case "PING":
		if len(a) == 1 {
			return rBulk(a[0]), false
		}
		return "+PONG\r\n", false
	case "ECHO":
		if len(a) != 1 {
			return errArgs(name), false
		}
		return rBulk(a[0]), false
	case "HELLO":
		// pre-RESP3 server: go-redis then stays on RESP2
		return rErr("ERR unknown command 'HELLO'"), false
	case "CLIENT", "SELECT", "AUTH", "READONLY", "READWRITE":
		return rOK(), false
	case "QUIT":
		return rOK(), false
	case "INFO":
		return rBulk("# Server\r\nredis_version:7.0.0-respsrv\r\nrun_id:0000000000000000000000000000000000000001\r\n"), false
	case "DBSIZE":
		n := int64(0)
		for k := range s.data {
			if _, ok := s.get(k); ok {
				n++
			}
		}
		return rInt(n), false
	case "FLUSHDB", "FLUSHALL":
		s.data = map[string]val{}
		return rOK(), false
	case "SET":
		return s.cmdSet(a), false
	case "SETNX":
		if len(a) != 2 {
			return errArgs(name), false
		}
		if _, ok := s.get(a[0]); ok {
			return rInt(0), false
		}
		s.data[a[0]] = val{a[1], -1}
		return rInt(1), false
	case "SETEX", "PSETEX":
		if len(a) != 3 {
			return errArgs(name), false
		}
		n, e := strconv.ParseInt(a[1], 10, 64)
		if e != nil {
			return rErr(errNotInt), false
		}
		if n <= 0 {
			return rErr("ERR invalid expire time in '" + strings.ToLower(name) + "' command"), false
		}
		if name == "SETEX" {
			n *= 1000
		}
		s.data[a[0]] = val{a[2], s.nowMs + n}
		return rOK(), false
	case "GET":
		if len(a) != 1 {
			return errArgs(name), false
		}
		if v, ok := s.get(a[0]); ok {
			return rBulk(v.s), false
		}
		return rNil(), false
	case "GETDEL":
		if len(a) != 1 {
			return errArgs(name), false
		}
		if v, ok := s.get(a[0]); ok {
			delete(s.data, a[0])
			return rBulk(v.s), false
		}
		return rNil(), false
	case "GETEX":
		return s.cmdGetEx(a), false
	case "MGET":
		if len(a) == 0 {
			return errArgs(name), false
		}
		items := make([]string, len(a))
		for i, k := range a {
			if v, ok := s.get(k); ok {
				items[i] = rBulk(v.s)
			} else {
				items[i] = rNil()
			}
		}
		return rArr(items), false
	case "MSET":
		if len(a) == 0 || len(a)%2 != 0 {
			return errArgs(name), false
		}
		for i := 0; i < len(a); i += 2 {
			s.data[a[i]] = val{a[i+1], -1}
		}
		return rOK(), false
	case "DEL", "UNLINK":
		if len(a) == 0 {
			return errArgs(name), false
		}
		n := int64(0)
		for _, k := range a {
			if _, ok := s.get(k); ok {
				delete(s.data, k)
				n++
			}
		}
		return rInt(n), false
	case "EXISTS":
		if len(a) == 0 {
			return errArgs(name), false
		}
		n := int64(0)
		for _, k := range a {
			if _, ok := s.get(k); ok {
				n++
			}
		}
		return rInt(n), false
	case "EXPIRE", "PEXPIRE":
		if len(a) < 2 {
			return errArgs(name), false
		}
		n, e := strconv.ParseInt(a[1], 10, 64)
		if e != nil {
			return rErr(errNotInt), false
		}
		v, ok := s.get(a[0])
		if !ok {
			return rInt(0), false
		}
		if name == "EXPIRE" {
			n *= 1000
		}
		if n <= 0 { // a non-positive TTL deletes the key
			delete(s.data, a[0])
			return rInt(1), false
		}
		v.expire = s.nowMs + n
		s.data[a[0]] = v
		return rInt(1), false
	case "PERSIST":
		if len(a) != 1 {
			return errArgs(name), false
		}
		v, ok := s.get(a[0])
		if !ok || v.expire < 0 {
			return rInt(0), false
		}
		v.expire = -1
		s.data[a[0]] = v
		return rInt(1), false
	case "TTL", "PTTL":
		if len(a) != 1 {
			return errArgs(name), false
		}
		v, ok := s.get(a[0])
		if !ok {
			return rInt(-2), false
		}
		if v.expire < 0 {
			return rInt(-1), false
		}
		left := v.expire - s.nowMs
		if name == "TTL" {
			left = (left + 500) / 1000
		}
		return rInt(left), false
	case "INCR", "DECR", "INCRBY", "DECRBY":
		if (name == "INCR" || name == "DECR") && len(a) != 1 || (name == "INCRBY" || name == "DECRBY") && len(a) != 2 {
			return errArgs(name), false
		}
		by := int64(1)
		if len(a) == 2 {
			var e error
			if by, e = strconv.ParseInt(a[1], 10, 64); e != nil {
				return rErr(errNotInt), false
			}
		}
		if name[0] == 'D' {
			by = -by
		}
		v, ok := s.get(a[0])
		cur := int64(0)
		if ok {
			var e error
			if cur, e = strconv.ParseInt(v.s, 10, 64); e != nil {
				return rErr(errNotInt), false
			}
		} else {
			v.expire = -1
		}
		cur += by
		v.s = strconv.FormatInt(cur, 10)
		s.data[a[0]] = v
		return rInt(cur), false
	case "KEYS":
		if len(a) != 1 {
			return errArgs(name), false
		}
		var ks []string
		for k := range s.data {
			if _, ok := s.get(k); ok && globMatch(a[0], k) {
				ks = append(ks, k)
			}
		}
		sort.Strings(ks)
		items := make([]string, len(ks))
		for i, k := range ks {
			items[i] = rBulk(k)
		}
		return rArr(items), false
	case "SCAN":
		// one-shot scan: cursor 0 returns everything that matches
		pat := "*"
		for i := 1; i+1 < len(a); i += 2 {
			if strings.EqualFold(a[i], "MATCH") {
				pat = a[i+1]
			}
		}
		var ks []string
		for k := range s.data {
			if _, ok := s.get(k); ok && globMatch(pat, k) {
				ks = append(ks, k)
			}
		}
		sort.Strings(ks)
		items := make([]string, len(ks))
		for i, k := range ks {
			items[i] = rBulk(k)
		}
		return rArr([]string{rBulk("0"), rArr(items)}), false
	}
	return rErr("ERR unknown command '" + cmd[0] + "'"), false
}

func (s *Server) cmdSet(a []string) string {
	if len(a) < 2 {
		return errArgs("set")
	}
	key, value := a[0], a[1]
	var nx, xx, keepttl, get bool
	when := int64(-1)
	hasExp := false
	for i := 2; i < len(a); {
		switch strings.ToUpper(a[i]) {
		case "NX":
			nx = true
			i++
		case "XX":
			xx = true
			i++
		case "KEEPTTL":
			keepttl = true
			i++
		case "GET":
			get = true
			i++
		default:
			w, used, e := s.parseExpiry(a, i)
			if e != "" {
				if e == "ERR invalid expire time" {
					e += " in 'set' command"
				}
				return rErr(e)
			}
			if used == 0 {
				return rErr(errSyntax)
			}
			if hasExp {
				return rErr(errSyntax)
			}
			when, hasExp = w, true
			i += used
		}
	}
	if nx && xx || hasExp && keepttl {
		return rErr(errSyntax)
	}
	old, exists := s.get(key)
	prev := rNil()
	if exists {
		prev = rBulk(old.s)
	}
	if nx && exists || xx && !exists {
		if get {
			return prev
		}
		return rNil()
	}
	nv := val{value, when}
	if keepttl && exists {
		nv.expire = old.expire
	}
	s.data[key] = nv
	if get {
		return prev
	}
	return rOK()
}

func (s *Server) cmdGetEx(a []string) string {
	if len(a) < 1 {
		return errArgs("getex")
	}
	persist := false
	when := int64(-1)
	hasExp := false
	for i := 1; i < len(a); {
		if strings.EqualFold(a[i], "PERSIST") {
			persist = true
			i++
			continue
		}
		w, used, e := s.parseExpiry(a, i)
		if e != "" {
			if e == "ERR invalid expire time" {
				e += " in 'getex' command"
			}
			return rErr(e)
		}
		if used == 0 || hasExp {
			return rErr(errSyntax)
		}
		when, hasExp = w, true
		i += used
	}
	if persist && hasExp {
		return rErr(errSyntax)
	}
	v, ok := s.get(a[0])
	if !ok {
		return rNil()
	}
	if persist {
		v.expire = -1
		s.data[a[0]] = v
	} else if hasExp {
		v.expire = when
		s.data[a[0]] = v
	}
	return rBulk(v.s)
}

// globMatch supports '*' and '?' (enough for KEYS/SCAN MATCH as used in tests).
func globMatch(p, s string) bool {
	if p == "" {
		return s == ""
	}
	switch p[0] {
	case '*':
		for i := 0; i <= len(s); i++ {
			if globMatch(p[1:], s[i:]) {
				return true
			}
		}
		return false
	case '?':
		return s != "" && globMatch(p[1:], s[1:])
	case '\\':
		if len(p) > 1 {
			return s != "" && s[0] == p[1] && globMatch(p[2:], s[1:])
		}
	}
	return s != "" && s[0] == p[0] && globMatch(p[1:], s[1:])
}

// Command racer is the concurrent workload of property C36. The harness
// (../main.go) builds it with `go build -race -tags verif` against the
// repository under check and runs one workload per process:
//
//	racer -w NAME -seed S -dur MILLIS -g GOROUTINES -dir SCRATCH
//
// Everything here is written so that the workload itself cannot race: each
// goroutine owns its PRNG and its data, results are summed through atomics and
// joined through a WaitGroup. Any report of the race detector therefore points
// into the library.
package main

import (
	"context"
	"encoding/json"
	"flag"
	"fmt"
	"math/rand"
	"os"
	"path/filepath"
	"sync"
	"sync/atomic"
	"time"

	"github.com/sharedcode/sop"
	"github.com/sharedcode/sop/btree"
	"github.com/sharedcode/sop/cache"
	"github.com/sharedcode/sop/fs"
	"github.com/sharedcode/sop/infs"
)

type stats struct {
	ops    atomic.Int64
	errs   atomic.Int64
	kinds  sync.Map // string -> *atomic.Int64
	panics atomic.Int64
}

func (s *stats) add(kind string) {
	s.ops.Add(1)
	v, _ := s.kinds.LoadOrStore(kind, new(atomic.Int64))
	v.(*atomic.Int64).Add(1)
}

var st stats

type rng struct{ s uint64 }

func (r *rng) u64() uint64 {
	r.s += 0x9E3779B97F4A7C15
	z := r.s
	z = (z ^ (z >> 30)) * 0xBF58476D1CE4E5B9
	z = (z ^ (z >> 27)) * 0x94D049BB133111EB
	return z ^ (z >> 31)
}
func (r *rng) intn(n int) int { return int(r.u64() % uint64(n)) }

// fan runs g goroutines until the deadline; each gets its own PRNG
func fan(g int, seed uint64, dur time.Duration, body func(id int, r *rng, stop func() bool)) {
	var wg sync.WaitGroup
	deadline := time.Now().Add(dur)
	stop := func() bool { return time.Now().After(deadline) }
	start := make(chan struct{})
	for i := 0; i < g; i++ {
		wg.Add(1)
		go func(id int) {
			defer wg.Done()
			defer func() {
				if x := recover(); x != nil {
					st.panics.Add(1)
					fmt.Fprintf(os.Stderr, "racer: panic in goroutine %d: %v\n", id, x)
				}
			}()
			r := &rng{s: seed*1000003 + uint64(id)*7919 + 1}
			<-start
			body(id, r, stop)
		}(i)
	}
	close(start)
	wg.Wait()
}

func topts(dir string, mode sop.TransactionMode) sop.TransactionOptions {
	return sop.TransactionOptions{StoresFolders: []string{dir}, CacheType: sop.InMemory, RegistryHashModValue: 250, Mode: mode, MaxTime: 20 * time.Second}
}

func sopts(name, dir string, slot int) sop.StoreOptions {
	return sop.StoreOptions{Name: name, SlotLength: slot, IsUnique: true, IsValueDataInNodeSegment: true,
		DisableRegistryStoreFormatting: true, DisableBlobStoreFormatting: true, BlobStoreBaseFolderPath: dir}
}

// wTxn: concurrent writers and readers over private and shared stores of one standalone database
func wTxn(dir string, g int, seed uint64, dur time.Duration) {
	ctx, cancel := context.WithTimeout(context.Background(), dur+15*time.Second)
	defer cancel()
	// create the shared store up front (one committed transaction)
	{
		t, err := infs.NewTransaction(ctx, topts(dir, sop.ForWriting))
		if err == nil && t.Begin(ctx) == nil {
			if b, err := infs.NewBtree[int, string](ctx, sopts("shared", dir, 8), t, nil); err == nil {
				b.Add(ctx, 0, "zero")
			}
			if err := t.Commit(ctx); err != nil {
				st.errs.Add(1)
			}
		}
	}
	fan(g, seed, dur, func(id int, r *rng, stop func() bool) {
		own := fmt.Sprintf("own%d", id)
		round := 0
		for !stop() {
			round++
			reader := id%4 == 3
			mode := sop.ForWriting
			if reader {
				mode = sop.ForReading
			}
			t, err := infs.NewTransaction(ctx, topts(dir, mode))
			if err != nil {
				st.errs.Add(1)
				continue
			}
			if err := t.Begin(ctx); err != nil {
				st.errs.Add(1)
				continue
			}
			st.add("txn.begin")
			ok := true
			if reader {
				if b, err := infs.OpenBtree[int, string](ctx, "shared", t, nil); err == nil {
					for k := 0; k < 8; k++ {
						b.Find(ctx, r.intn(64), false)
						st.add("txn.find")
					}
					if b.First(ctx); true {
						for k := 0; k < 5; k++ {
							b.GetCurrentValue(ctx)
							if ok, _ := b.Next(ctx); !ok {
								break
							}
						}
					}
				} else {
					ok = false
				}
			} else {
				name := own
				if r.intn(3) == 0 {
					name = "shared"
				}
				var b btree.BtreeInterface[int, string]
				if name == "shared" {
					b, err = infs.OpenBtree[int, string](ctx, name, t, nil)
				} else {
					b, err = infs.NewBtree[int, string](ctx, sopts(name, dir, 4+2*(id%3)), t, nil)
				}
				if err != nil {
					ok = false
				} else {
					for k := 0; k < 1+r.intn(6); k++ {
						key := id*100000 + round*10 + k
						if name == "shared" && r.intn(2) == 0 {
							key = r.intn(64)
						}
						switch r.intn(4) {
						case 0:
							b.Remove(ctx, key)
							st.add("txn.remove")
						case 1:
							b.Upsert(ctx, key, fmt.Sprintf("u%d", round))
							st.add("txn.upsert")
						default:
							b.Add(ctx, key, fmt.Sprintf("v%d", round))
							st.add("txn.add")
						}
					}
				}
			}
			if !ok || r.intn(10) == 0 {
				t.Rollback(ctx)
				st.add("txn.rollback")
				continue
			}
			if err := t.Commit(ctx); err != nil {
				st.add("txn.commit_failed")
			} else {
				st.add("txn.commit")
			}
		}
	})
}

// wBegin: 64 goroutines call Begin at once (Begin services the background maintenance, onIdle);
// half of them then read the shared store, a few write their own store
func wBegin(dir string, g int, seed uint64, dur time.Duration) {
	ctx, cancel := context.WithTimeout(context.Background(), dur+10*time.Second)
	defer cancel()
	{
		t, err := infs.NewTransaction(ctx, topts(dir, sop.ForWriting))
		if err == nil && t.Begin(ctx) == nil {
			if b, err := infs.NewBtree[int, string](ctx, sopts("shared", dir, 8), t, nil); err == nil {
				for k := 0; k < 20; k++ {
					b.Add(ctx, k, "v")
				}
			}
			if err := t.Commit(ctx); err != nil {
				st.errs.Add(1)
			}
		}
	}
	fan(g, seed, dur, func(id int, r *rng, stop func() bool) {
		for first := true; first || !stop(); first = false {
			mode := sop.ForReading
			if id%16 == 0 {
				mode = sop.ForWriting
			}
			t, err := infs.NewTransaction(ctx, topts(dir, mode))
			if err != nil {
				st.errs.Add(1)
				return
			}
			if err := t.Begin(ctx); err != nil {
				st.errs.Add(1)
			}
			st.add("begin")
			switch {
			case mode == sop.ForWriting:
				if b, err := infs.NewBtree[int, string](ctx, sopts(fmt.Sprintf("b%d", id), dir, 4), t, nil); err == nil {
					b.Add(ctx, r.intn(100000), "x")
					st.add("begin.add")
				}
				if err := t.Commit(ctx); err != nil {
					st.add("begin.commit_failed")
				} else {
					st.add("begin.commit")
				}
			case id%2 == 0:
				if b, err := infs.OpenBtree[int, string](ctx, "shared", t, nil); err == nil {
					b.Find(ctx, r.intn(20), false)
					b.GetCurrentValue(ctx)
					st.add("begin.read")
				}
				t.Commit(ctx)
			default:
				t.Rollback(ctx)
				st.add("begin.rollback")
			}
		}
	})
}

// wL1: the process-global L1 cache and its synchronized handle cache, used directly
func wL1(g int, seed uint64, dur time.Duration) {
	ctx := context.Background()
	l2 := sop.GetL2Cache(sop.TransactionOptions{CacheType: sop.InMemory})
	ids := make([]sop.UUID, 200)
	for i := range ids {
		ids[i] = sop.NewUUID()
	}
	fan(g, seed, dur, func(id int, r *rng, stop func() bool) {
		c := cache.GetGlobalL1Cache(l2) // first use races to create the singleton
		for !stop() {
			nid := ids[r.intn(len(ids))]
			switch r.intn(9) {
			case 0, 1:
				n := &btree.Node[int, string]{ID: nid, Version: int32(r.intn(3))}
				c.SetNode(ctx, nid, n, time.Minute)
				st.add("l1.setnode")
			case 2:
				h := sop.NewHandle(nid)
				h.Version = int32(r.intn(3))
				c.GetNode(ctx, h, &btree.Node[int, string]{}, false, time.Minute)
				st.add("l1.getnode")
			case 3:
				h := sop.NewHandle(nid)
				h.Version = int32(r.intn(3))
				c.GetNodeFromMRU(h, &btree.Node[int, string]{})
				st.add("l1.getmru")
			case 4:
				c.DeleteNodes(ctx, []sop.UUID{nid})
				st.add("l1.delete")
			case 5:
				c.Count()
				c.IsFull()
				if r.intn(8) == 0 {
					c.Evict()
				}
				st.add("l1.count")
			case 6:
				h := sop.NewHandle(nid)
				c.Handles.Set([]sop.KeyValuePair[sop.UUID, sop.Handle]{{Key: nid, Value: h}})
				st.add("l1.handles.set")
			case 7:
				c.Handles.Get([]sop.UUID{nid})
				st.add("l1.handles.get")
			case 8:
				c.Handles.Delete([]sop.UUID{nid})
				st.add("l1.handles.delete")
			}
		}
	})
}

// wL1API: the methods of the cache.Cache interface that the "thread-safe" handle cache
// (cache.NewSynchronizedCache, L1Cache.Handles) does not wrap: Count and IsFull, each against a
// concurrent Set over 20 fixed keys (below every capacity, so Set never evicts). Two goroutines,
// two phases; deterministic apart from the schedule.
func wL1API(seed uint64, dur time.Duration) {
	l2 := sop.GetL2Cache(sop.TransactionOptions{CacheType: sop.InMemory})
	c := cache.GetGlobalL1Cache(l2)
	ids := make([]sop.UUID, 20)
	for i := range ids {
		ids[i] = sop.NewUUID()
	}
	for phase := 0; phase < 2; phase++ {
		fan(2, seed+uint64(phase), dur/2, func(id int, r *rng, stop func() bool) {
			for !stop() {
				switch {
				case id == 0:
					nid := ids[r.intn(len(ids))]
					c.Handles.Set([]sop.KeyValuePair[sop.UUID, sop.Handle]{{Key: nid, Value: sop.NewHandle(nid)}})
					st.add("l1api.set")
				case phase == 0:
					c.Handles.Count()
					st.add("l1api.count")
				default:
					c.Handles.IsFull()
					st.add("l1api.isfull")
				}
			}
		})
	}
}

// wL2: the in-memory L2 cache (sharded map, locks) from many goroutines
func wL2(g int, seed uint64, dur time.Duration) {
	ctx := context.Background()
	l2 := sop.GetL2Cache(sop.TransactionOptions{CacheType: sop.InMemory})
	type payload struct {
		A int
		B string
	}
	fan(g, seed, dur, func(id int, r *rng, stop func() bool) {
		for !stop() {
			k := fmt.Sprintf("k%d", r.intn(3000))
			switch r.intn(10) {
			case 0, 1:
				l2.Set(ctx, k, "v", time.Duration(r.intn(3))*time.Second)
				st.add("l2.set")
			case 2:
				l2.Get(ctx, k)
				st.add("l2.get")
			case 3:
				l2.GetEx(ctx, k, time.Second)
				st.add("l2.getex")
			case 4:
				l2.SetStruct(ctx, k, payload{id, k}, time.Minute)
				st.add("l2.setstruct")
			case 5:
				var p payload
				l2.GetStruct(ctx, k, &p)
				st.add("l2.getstruct")
			case 6:
				l2.Delete(ctx, []string{k})
				st.add("l2.delete")
			case 7, 8:
				lk := l2.CreateLockKeys([]string{fmt.Sprintf("L%d", r.intn(20)), fmt.Sprintf("L%d", 20+r.intn(20))})
				if ok, _, _ := l2.Lock(ctx, time.Second, lk); ok {
					l2.IsLocked(ctx, lk)
					l2.Unlock(ctx, lk)
				}
				st.add("l2.lock")
			case 9:
				l2.IsLockedByOthers(ctx, []string{l2.FormatLockKey(fmt.Sprintf("L%d", r.intn(40)))})
				st.add("l2.islocked")
			}
		}
	})
}

// wRepl: the process-global replication status through the exported API of package fs
func wRepl(dir string, g int, seed uint64, dur time.Duration) {
	ctx := context.Background()
	l2 := sop.GetL2Cache(sop.TransactionOptions{CacheType: sop.InMemory})
	a, b := filepath.Join(dir, "a"), filepath.Join(dir, "b")
	os.MkdirAll(a, 0o755)
	os.MkdirAll(b, 0o755)
	fan(g, seed, dur, func(id int, r *rng, stop func() bool) {
		n := 0
		for !stop() {
			n++
			if _, err := fs.NewReplicationTracker(ctx, []string{a, b}, true, l2); err != nil {
				st.errs.Add(1)
			}
			st.add("repl.new")
			if id == 0 && n%50 == 0 {
				if err := fs.TriggerFailover(ctx, []string{a, b}, true, l2); err != nil {
					st.errs.Add(1)
				}
				st.add("repl.failover")
			}
		}
	})
}

// wJitter: the shared jitter RNG
func wJitter(g int, seed uint64, dur time.Duration) {
	ctx := context.Background()
	fan(g, seed, dur, func(id int, r *rng, stop func() bool) {
		for !stop() {
			switch {
			case id == 0 && r.intn(50) == 0:
				sop.SetJitterRNG(rand.New(rand.NewSource(int64(r.u64()))))
				st.add("jitter.set")
			case r.intn(200) == 0:
				sop.RandomSleep(ctx)
				st.add("jitter.sleep")
			default:
				sop.RandomSleepWithUnit(ctx, time.Microsecond)
				st.add("jitter.sleep_unit")
			}
		}
	})
}

func main() {
	w := flag.String("w", "", "workload")
	seed := flag.Uint64("seed", 1, "seed")
	durMs := flag.Int("dur", 1000, "duration in milliseconds")
	g := flag.Int("g", 8, "goroutines")
	dir := flag.String("dir", "", "scratch directory (created, removed)")
	flag.Parse()
	if *dir == "" {
		fmt.Fprintln(os.Stderr, "racer: -dir required")
		os.Exit(2)
	}
	os.RemoveAll(*dir)
	if err := os.MkdirAll(*dir, 0o755); err != nil {
		fmt.Fprintln(os.Stderr, "racer:", err)
		os.Exit(2)
	}
	defer os.RemoveAll(*dir)
	dur := time.Duration(*durMs) * time.Millisecond
	switch *w {
	case "txn":
		wTxn(*dir, *g, *seed, dur)
	case "begin64":
		wBegin(*dir, 64, *seed, dur)
	case "l1":
		wL1(*g, *seed, dur)
	case "l1api":
		wL1API(*seed, dur)
	case "l2":
		wL2(*g, *seed, dur)
	case "repl":
		wRepl(*dir, *g, *seed, dur)
	case "jitter":
		wJitter(*g, *seed, dur)
	default:
		fmt.Fprintln(os.Stderr, "racer: unknown workload", *w)
		os.Exit(2)
	}
	kinds := map[string]int64{}
	st.kinds.Range(func(k, v any) bool { kinds[k.(string)] = v.(*atomic.Int64).Load(); return true })
	out, _ := json.Marshal(map[string]any{"workload": *w, "seed": *seed, "ops": st.ops.Load(), "errors": st.errs.Load(), "panics": st.panics.Load(), "kinds": kinds})
	fmt.Println(string(out))
	os.RemoveAll(*dir)
}

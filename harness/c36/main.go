package main

// C36: concurrent use of the library is free of data races (partial).
//
// The theorems are about the locking discipline and the generated site table
// (Props/C36.v). This harness is the implementation-side observation and the
// failing-input search:
//
//  1. it re-runs the translator's lockset pass on the source tree it was built
//     against and emits one correspondence case per shared object (number of
//     sites, number of unguarded sites, digest of the site lines) which
//     Corr/C36.v compares with the table the theorems were proved over;
//  2. it builds ./racer with `go build -race` against the same tree and runs
//     the concurrent workloads; every report of the race detector is an oracle
//     failure whose signature is the sorted pair of the two access functions.

import (
	"bytes"
	"encoding/json"
	"fmt"
	"os"
	"os/exec"
	"path/filepath"
	"regexp"
	"sort"
	"strings"
	"time"

	"verif/harness/hx"
)

func main() { hx.Main("c36", run) }

type wlInput struct {
	Workload string `json:"workload"`
	Seed     uint64 `json:"seed"`
	DurMs    int    `json:"dur_ms"`
	G        int    `json:"g"`
}

type siteObj struct {
	Name       string   `json:"name"`
	Guard      string   `json:"guard"`
	NSites     int      `json:"nsites"`
	NUnguarded int      `json:"nunguarded"`
	Digest     uint32   `json:"digest"`
	Unguarded  []string `json:"unguarded"`
	Sites      []string `json:"sites"`
}

func findRoot() string {
	if r := os.Getenv("VERIF_ROOT"); r != "" {
		return r
	}
	if exe, err := os.Executable(); err == nil {
		d := filepath.Dir(exe)
		for i := 0; i < 5; i++ {
			if _, err := os.Stat(filepath.Join(d, "harness", "go.mod")); err == nil {
				return d
			}
			d = filepath.Dir(d)
		}
	}
	return "/verif"
}

func goEnv() []string {
	env := os.Environ()
	set := map[string]string{
		"GOTOOLCHAIN": "local", "GOPROXY": "off", "GOSUMDB": "off", "GOFLAGS": "-mod=mod", "GOWORK": "off", "CGO_ENABLED": "1",
		"PATH": "/opt/veriftools/go1.26.8/bin:" + os.Getenv("PATH"),
	}
	var out []string
	for _, e := range env {
		k := e[:strings.Index(e, "=")]
		if _, ok := set[k]; !ok {
			out = append(out, e)
		}
	}
	for k, v := range set {
		out = append(out, k+"="+v)
	}
	return out
}

// ---------------------------------------------------------------- site table of the tree under check

func siteCases(res *hx.Result, root, repo, tmp string) error {
	gen := filepath.Join(root, "bin", "gen")
	js := filepath.Join(tmp, "sites.json")
	cmd := exec.Command(gen, repo, filepath.Join(tmp, "gen"))
	cmd.Env = append(os.Environ(), "VERIF_SITES_JSON="+js, "VERIF_ROOT="+root)
	out, err := cmd.CombinedOutput()
	raw, rerr := os.ReadFile(js)
	if rerr != nil {
		return fmt.Errorf("translator %s did not produce the site table (%v): %s", gen, err, string(out))
	}
	var doc struct {
		Objects      []siteObj `json:"objects"`
		FreshSkipped int       `json:"fresh_skipped"`
	}
	if err := json.Unmarshal(raw, &doc); err != nil {
		return err
	}
	baseline := map[string][]string{}
	if b, err := os.ReadFile(filepath.Join(root, "corpus", "C36", "sites.json")); err == nil {
		json.Unmarshal(b, &baseline)
	}
	for _, o := range doc.Objects {
		for _, s := range o.Sites {
			res.Seen("site:"+o.Name+":"+s, true)
			switch {
			case strings.Contains(s, ":rd|") || strings.Contains(s, ":rd#"):
				res.Count("site.rd")
			default:
				res.Count("site.wr")
			}
			if strings.HasSuffix(s, "|") {
				res.Count("site.no_lock_held")
			} else if strings.Contains(s, "/shared,") {
				res.Count("site.shared_lock")
			} else {
				res.Count("site.exclusive_lock")
			}
		}
		res.Distribution["site.unguarded"] += o.NUnguarded
		res.AddCase(fmt.Sprintf("SiteCase %s %d %d %d", hx.CoqString(o.Name), o.NSites, o.NUnguarded, o.Digest),
			map[string]any{"kind": "sites", "object": o.Name})
		if o.NUnguarded > 0 {
			res.Notes = append(res.Notes, fmt.Sprintf("object %s (guard %s): %d of %d sites unguarded, no guardedness theorem: %s",
				o.Name, o.Guard, o.NUnguarded, o.NSites, strings.Join(o.Unguarded, ", ")))
		}
		have := map[string]bool{}
		for _, u := range o.Unguarded {
			have[u] = true
		}
		for _, b := range baseline[o.Name] {
			if !have[b] {
				res.Notes = append(res.Notes, fmt.Sprintf("baseline entry %s of %s no longer matches an unguarded site (stale: remove it from corpus/C36/sites.json)", b, o.Name))
			}
		}
		for _, u := range o.Unguarded {
			found := false
			for _, b := range baseline[o.Name] {
				found = found || b == u
			}
			if !found {
				res.Notes = append(res.Notes, fmt.Sprintf("NEW unguarded site of %s outside the committed baseline: %s", o.Name, u))
			}
		}
	}
	res.Sample(map[string]any{"kind": "sites", "objects": len(doc.Objects), "constructor_accesses_skipped": doc.FreshSkipped})
	return nil
}

// ---------------------------------------------------------------- race detector

func buildRacer(root, repo, tmp string) (string, error) {
	bin := filepath.Join(tmp, "racer.bin")
	args := []string{"build", "-race", "-tags", "verif"}
	if repo != "/repo" {
		mod, err := os.ReadFile(filepath.Join(root, "harness", "go.mod"))
		if err != nil {
			return "", err
		}
		alt := filepath.Join(tmp, "alt.mod")
		if err := os.WriteFile(alt, []byte(strings.ReplaceAll(string(mod), "=> /repo", "=> "+repo)), 0o644); err != nil {
			return "", err
		}
		sum, _ := os.ReadFile(filepath.Join(root, "harness", "go.sum"))
		os.WriteFile(filepath.Join(tmp, "alt.sum"), sum, 0o644)
		args = append(args, "-modfile", alt)
	}
	args = append(args, "-o", bin, "./c36/racer")
	cmd := exec.Command("go", args...)
	cmd.Dir = filepath.Join(root, "harness")
	cmd.Env = goEnv()
	out, err := cmd.CombinedOutput()
	if err != nil {
		return "", fmt.Errorf("go build -race ./c36/racer: %v\n%s", err, tail(string(out), 3000))
	}
	return bin, nil
}

func tail(s string, n int) string {
	if len(s) > n {
		return s[len(s)-n:]
	}
	return s
}

var (
	reAccess = regexp.MustCompile(`^(Previous )?([Rr]ead|[Ww]rite|[Aa]tomic [a-z]+) at 0x[0-9a-f]+ by (main goroutine|goroutine \d+)`)
	reFrame  = regexp.MustCompile(`^  (\S.*)\(\)$`)
	reLoc    = regexp.MustCompile(`^      (\S+):(\d+)`)
)

// stripGenerics removes balanced [...] instantiation brackets
func stripGenerics(s string) string {
	var b strings.Builder
	depth := 0
	for _, c := range s {
		switch {
		case c == '[':
			depth++
		case c == ']':
			if depth > 0 {
				depth--
			}
		case depth == 0:
			b.WriteRune(c)
		}
	}
	return b.String()
}

func normFunc(f string) string {
	f = stripGenerics(f)
	f = strings.TrimPrefix(f, "github.com/sharedcode/sop/")
	f = strings.TrimPrefix(f, "github.com/sharedcode/")
	return f
}

type raceReport struct {
	kinds [2]string
	funcs [2]string
	locs  [2]string
}

// parseRaces extracts, for every report, the first non-runtime frame of the two accesses
func parseRaces(stderr string) []raceReport {
	var out []raceReport
	for _, blk := range strings.Split(stderr, "==================") {
		if !strings.Contains(blk, "WARNING: DATA RACE") {
			continue
		}
		var rep raceReport
		idx := -1
		have := false
		lines := strings.Split(blk, "\n")
		for i := 0; i < len(lines); i++ {
			ln := lines[i]
			if m := reAccess.FindStringSubmatch(ln); m != nil {
				idx++
				if idx > 1 {
					break
				}
				rep.kinds[idx] = strings.ToLower(m[2])
				have = false
				continue
			}
			if strings.HasPrefix(ln, "Goroutine ") {
				break
			}
			if idx < 0 || idx > 1 || have {
				continue
			}
			if m := reFrame.FindStringSubmatch(ln); m != nil {
				fn := m[1]
				if strings.HasPrefix(fn, "runtime.") || strings.HasPrefix(fn, "internal/") || strings.HasPrefix(fn, "sync/atomic.") || strings.HasPrefix(fn, "sync.") {
					continue
				}
				rep.funcs[idx] = normFunc(fn)
				if i+1 < len(lines) {
					if l := reLoc.FindStringSubmatch(lines[i+1]); l != nil {
						rep.locs[idx] = filepath.Base(filepath.Dir(l[1])) + "/" + filepath.Base(l[1]) + ":" + l[2]
					}
				}
				have = true
			}
		}
		if rep.funcs[0] == "" {
			rep.funcs[0] = "?"
		}
		if rep.funcs[1] == "" {
			rep.funcs[1] = "?"
		}
		out = append(out, rep)
	}
	return out
}

func (r raceReport) signature() string {
	f := []string{r.funcs[0], r.funcs[1]}
	sort.Strings(f)
	return "race:" + f[0] + "|" + f[1]
}

func runWorkload(res *hx.Result, bin, tmp string, in wlInput) {
	dir := filepath.Join("/var/tmp/C36", fmt.Sprintf("run-%d", os.Getpid()), fmt.Sprintf("%s-%d", in.Workload, in.Seed))
	defer os.RemoveAll(filepath.Dir(dir))
	cmd := exec.Command(bin, "-w", in.Workload, "-seed", fmt.Sprint(in.Seed), "-dur", fmt.Sprint(in.DurMs), "-g", fmt.Sprint(in.G), "-dir", dir)
	cmd.Env = append(os.Environ(), "GORACE=halt_on_error=0 exitcode=66")
	var so, se bytes.Buffer
	cmd.Stdout, cmd.Stderr = &so, &se
	t0 := time.Now()
	done := make(chan error, 1)
	if err := cmd.Start(); err != nil {
		res.Notes = append(res.Notes, fmt.Sprintf("workload %s: cannot start: %v", in.Workload, err))
		return
	}
	go func() { done <- cmd.Wait() }()
	limit := time.Duration(in.DurMs)*time.Millisecond*3 + 180*time.Second
	var werr error
	select {
	case werr = <-done:
	case <-time.After(limit):
		cmd.Process.Kill()
		<-done
		res.Notes = append(res.Notes, fmt.Sprintf("workload %s seed %d killed after %v (not counted as a failure)", in.Workload, in.Seed, limit))
		res.Count("run.timeout")
		return
	}
	code := 0
	if ee, ok := werr.(*exec.ExitError); ok {
		code = ee.ExitCode()
	} else if werr != nil {
		code = -1
	}
	var sum struct {
		Ops    int64            `json:"ops"`
		Errors int64            `json:"errors"`
		Panics int64            `json:"panics"`
		Kinds  map[string]int64 `json:"kinds"`
	}
	for _, ln := range strings.Split(so.String(), "\n") {
		if strings.HasPrefix(ln, "{") {
			json.Unmarshal([]byte(ln), &sum)
		}
	}
	res.Seen(fmt.Sprintf("run:%s:%d:%d:%d", in.Workload, in.Seed, in.DurMs, in.G), sum.Ops > 0)
	res.Count("run." + in.Workload)
	for k, v := range sum.Kinds {
		res.Distribution["op."+k] += int(v)
	}
	res.Distribution["op.errors"] += int(sum.Errors)
	res.Evaluations += int(sum.Ops) // every library call made under the race detector is one evaluation of the oracle
	stderr := se.String()
	reps := parseRaces(stderr)
	res.Distribution["race_reports"] += len(reps)
	res.Sample(map[string]any{"kind": "run", "workload": in.Workload, "seed": in.Seed, "dur_ms": in.DurMs, "goroutines": in.G,
		"library_calls": sum.Ops, "exit": code, "race_reports": len(reps), "wall_ms": time.Since(t0).Milliseconds()})
	seen := map[string]bool{}
	for _, r := range reps {
		sig := r.signature()
		if seen[sig] {
			continue
		}
		seen[sig] = true
		a, b := 0, 1
		if r.funcs[1] < r.funcs[0] {
			a, b = 1, 0
		}
		res.Fail(sig, fmt.Sprintf("DATA RACE (go race detector, workload %s seed %d): %s in %s (%s) vs %s in %s (%s)",
			in.Workload, in.Seed, r.kinds[a], r.funcs[a], r.locs[a], r.kinds[b], r.funcs[b], r.locs[b]), in)
	}
	if strings.Contains(stderr, "fatal error: concurrent map") {
		res.Fail("race:fatal-concurrent-map:"+in.Workload, "the Go runtime aborted the workload: "+firstLineWith(stderr, "fatal error:"), in)
	} else if code != 0 && code != 66 {
		res.Notes = append(res.Notes, fmt.Sprintf("workload %s seed %d exited with %d: %s", in.Workload, in.Seed, code, tail(stderr, 600)))
		res.Count("run.abnormal_exit")
	}
	if sum.Panics > 0 {
		res.Notes = append(res.Notes, fmt.Sprintf("workload %s seed %d: %d goroutine(s) panicked inside the library (recovered): %s", in.Workload, in.Seed, sum.Panics, firstLineWith(stderr, "racer: panic")))
	}
	if code == 66 && len(reps) == 0 {
		res.Fail("race:unparsed", "race detector exit code 66 but no report could be parsed: "+tail(stderr, 800), in)
	}
}

func firstLineWith(s, sub string) string {
	for _, ln := range strings.Split(s, "\n") {
		if strings.Contains(ln, sub) {
			return ln
		}
	}
	return ""
}

func plan(tier string, seed uint64) []wlInput {
	if tier == "thorough" {
		var p []wlInput
		p = append(p, wlInput{"l1api", seed, 1000, 2})
		for k := uint64(0); k < 4; k++ {
			s := seed + 7919*k
			p = append(p,
				wlInput{"l1", s, 10000, 16}, wlInput{"l2", s, 10000, 16}, wlInput{"jitter", s, 5000, 16},
				wlInput{"repl", s, 10000, 12}, wlInput{"begin64", s, 15000, 64}, wlInput{"txn", s, 75000, 12})
		}
		return p
	}
	return []wlInput{
		{"l1api", seed, 600, 2}, {"l1", seed, 1500, 8}, {"l2", seed, 1500, 8}, {"jitter", seed, 1000, 8},
		{"repl", seed, 1500, 8}, {"begin64", seed, 2000, 64}, {"txn", seed, 4000, 8},
	}
}

func run(cfg *hx.RunCfg) (*hx.Result, error) {
	res := hx.NewResult("C36")
	res.Imports = []string{"Lib.Bytes", "RaceDiscipline", "Gen.AccessSites", "Corr.C36"}
	res.CaseType = "c36case"
	res.Checker = "c36_check"
	res.Rule = "evaluations = library calls made by the concurrent workloads under the Go race detector (racer, built with -race against the tree under check) + one per syntactic access site of the lockset pass; distinct non-trivial = distinct access sites + workload runs (workload, seed, duration, goroutines) that made at least one library call; a race report is an oracle failure with signature race:<two access functions, sorted>"
	root := findRoot()
	repo := os.Getenv("VERIF_REPO")
	if repo == "" {
		repo = "/repo"
	}
	tmp := cfg.Out
	if tmp == "" {
		tmp = filepath.Join("/var/tmp/C36", fmt.Sprintf("out-%d", os.Getpid()))
		defer os.RemoveAll(tmp)
	}
	tmp = filepath.Join(tmp, "c36tmp")
	os.RemoveAll(tmp)
	if err := os.MkdirAll(tmp, 0o755); err != nil {
		return nil, err
	}
	defer os.RemoveAll(tmp)

	var todo []wlInput
	var siteErr error
	if cfg.Replay != "" {
		raw, err := os.ReadFile(cfg.Replay)
		if err != nil {
			return nil, err
		}
		var rp struct {
			Input json.RawMessage `json:"input"`
		}
		if err := json.Unmarshal(raw, &rp); err != nil {
			return nil, err
		}
		var in wlInput
		if err := json.Unmarshal(rp.Input, &in); err == nil && in.Workload != "" {
			todo = []wlInput{in}
		}
	}
	if cfg.Replay == "" || len(todo) == 0 {
		if err := siteCases(res, root, repo, tmp); err != nil {
			// the tie is broken (the driver reports that from its own translator run); the race workloads below
			// are still run against the tree, because they are the search for a concrete failing input
			siteErr = err
			res.Notes = append(res.Notes, "site table unavailable: "+err.Error())
			// the three known races fire on every run, so OracleFailures is never empty on this tree and siteErr alone
			// would go unnoticed: record a case no object of the proved table matches, so that the driver always sees
			// the broken tie as a correspondence mismatch
			res.AddCase(fmt.Sprintf("SiteCase %s 0 0 0", hx.CoqString("site-table-unavailable")), map[string]any{"site_table_error": err.Error()})
		}
	}
	if cfg.Replay == "" {
		todo = plan(cfg.Tier, cfg.Seed)
	}
	if len(todo) > 0 {
		bin, err := buildRacer(root, repo, tmp)
		if err != nil {
			return nil, err
		}
		for _, in := range todo {
			runWorkload(res, bin, tmp, in)
		}
	}
	if siteErr != nil && len(res.OracleFailures) == 0 {
		return nil, siteErr
	}
	return res, nil
}

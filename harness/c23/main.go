package main

import (
	"context"
	"encoding/binary"
	"encoding/json"
	"fmt"
	"hash/crc32"
	"os"

	"github.com/sharedcode/sop"

	"verif/harness/c22/bio"
	"verif/harness/hx"
)

// C23: corrupted registry data is reported, never served.
// A real registry table (fs.NewRegistry, one segment file) is populated through Add, the block
// is corrupted on disk (bit flips, bursts), a backup file is planted or not, and Get / Update
// are called with a fresh registry + fresh in-memory L2 cache. Direct oracle + model comparison.

func main() { hx.Main("c23", runC23) }

type patch struct {
	Off   int   `json:"off"`
	Bytes []int `json:"bytes"`
}

type c23Input struct {
	HashMod  int          `json:"hash_mod"`
	BlockIdx int          `json:"block"`
	Handles  []sop.Handle `json:"handles"` // added in this order
	Corrupt  []patch      `json:"corrupt"` // bytes written over the block
	CowKind  string       `json:"cow"`     // none|empty|short|junk|badcrc|valid_base|valid_older
	CowParam int          `json:"cow_param"`
	Op       string       `json:"op"` // get|update
	Target   sop.UUID     `json:"target"`
	Ideal    int          `json:"ideal"` // byte offset of the target's ideal slot
	Upd      *sop.Handle  `json:"upd,omitempty"`
	Tag      string       `json:"tag"`
}

const (
	sigGet    = "unverifiable-block-served-by-get"
	sigUpdate = "unverifiable-block-rewritten-by-update"
)

func idealOf(id sop.UUID) int {
	lo := binary.BigEndian.Uint64(id[8:])
	return int(lo%uint64(bio.NSlot)) * bio.S
}

func cowFor(in c23Input, base, older, corrupted []byte) bio.State {
	st := bio.State{Block: corrupted}
	switch in.CowKind {
	case "none":
	case "empty":
		st.HasCow, st.Cow = true, []byte{}
	case "short":
		st.HasCow, st.Cow = true, append([]byte(nil), base[:in.CowParam%bio.B]...)
	case "junk":
		r := hx.NewRng(uint64(in.CowParam) + 77)
		st.HasCow, st.Cow = true, r.Bytes(bio.B)
	case "badcrc":
		c := append([]byte(nil), base...)
		c[in.CowParam%(bio.B-4)] ^= 0x10
		st.HasCow, st.Cow = true, c
	case "valid_base":
		st.HasCow, st.Cow = true, append([]byte(nil), base...)
	case "valid_older":
		st.HasCow, st.Cow = true, append([]byte(nil), older...)
	}
	return st
}

func c23Case(res *hx.Result, in c23Input) error {
	ctx := context.Background()
	env, err := bio.NewEnv(in.HashMod)
	if err != nil {
		return err
	}
	defer env.Remove()
	blockOff := int64(in.BlockIdx) * bio.B
	older := make([]byte, bio.B)
	for i, h := range in.Handles {
		if i == len(in.Handles)-1 && i > 0 {
			st, err := env.ReadState(blockOff)
			if err != nil {
				return err
			}
			older = st.Block
		}
		if err := env.Add(ctx, h); err != nil {
			return fmt.Errorf("populate: %w", err)
		}
	}
	baseSt, err := env.ReadState(blockOff)
	if err != nil {
		return err
	}
	if baseSt.HasCow || !bio.Valid(baseSt.Block) || !bio.ImplValid(baseSt.Block) {
		res.Fail("populate-left-bad-state", "a block written through Add is invalid or left a backup file behind", in)
	}
	corrupted := append([]byte(nil), baseSt.Block...)
	for _, p := range in.Corrupt {
		copy(corrupted[p.Off:], bio.Unints(p.Bytes))
	}
	pre := cowFor(in, baseSt.Block, older, corrupted)
	if err := env.WriteState(blockOff, pre); err != nil {
		return err
	}
	invalid := !bio.Valid(pre.Block)
	if bio.ImplValid(pre.Block) == invalid {
		res.Fail("checksum-rule-disagrees", "unmarshalData and the independently computed checksum rule disagree on this block", in)
	}
	cowOK := bio.CowValid(pre)
	changed := string(corrupted) != string(baseSt.Block)

	canon := fmt.Sprintf("%s|%x|%s|%x|%x", in.Op, pre.Block, in.CowKind, pre.Cow, in.Target[:])
	res.Seen(canon, changed)
	res.Count("op." + in.Op)
	res.Count("cow." + in.CowKind)
	res.Count("kind." + in.Tag)
	switch {
	case !changed:
		res.Count("block.unchanged")
	case invalid:
		res.Count("block.corrupted_invalid")
	default:
		res.Count("block.corrupted_but_passes_checksum_rule")
	}

	var class string
	var got sop.Handle
	var opErr error
	if in.Op == "get" {
		got, class, opErr = env.Get(ctx, in.Target)
	} else {
		class, opErr = env.Update(ctx, *in.Upd)
	}
	res.Count("result." + in.Op + "." + class)
	post, err := env.ReadState(blockOff)
	if err != nil {
		return err
	}

	// ---- direct oracle
	what := func(s string) string {
		return fmt.Sprintf("%s [%s, cow=%s, op=%s -> %s err=%v]", s, in.Tag, in.CowKind, in.Op, class, opErr)
	}
	switch {
	case class == "panic":
		res.Fail("panic", what("registry call panicked"), in)
	case invalid && !cowOK:
		if class != "err" && in.Op == "get" && !post.Equal(pre) {
			res.Fail("unverifiable-block-disk-changed-by-get", what("block fails its checksum and has no valid backup: the lookup returned without error AND changed the block or backup file"), in)
		} else if class != "err" && in.Op == "update" && !onlySlotAndTrailerChanged(pre.Block, post.Block, in.Upd.LogicalID) {
			res.Fail("unverifiable-block-update-changed-other-bytes", what("block fails its checksum and has no valid backup: the update changed bytes outside the written record and the trailer"), in)
		} else if class != "err" {
			if in.Op == "get" {
				res.Fail(sigGet, what("block fails its checksum and has no valid backup, yet the lookup returned without error"), in)
			} else {
				res.Fail(sigUpdate, what("block fails its checksum and has no valid backup, yet the update re-checksummed and rewrote it"), in)
			}
		} else if !post.Equal(pre) {
			res.Fail("unverifiable-block-disk-changed", what("error reported but block or backup file changed"), in)
		}
	case invalid && cowOK:
		want, wantOK := bio.Lookup(pre.Cow, in.Target, in.Ideal)
		if in.Op == "get" {
			if class == "err" || (class == "found") != wantOK || (wantOK && got != want) || string(post.Block) != string(pre.Cow) {
				res.Fail("valid-backup-not-restored", what("corrupted block with a valid backup: lookup did not return the backup's record or did not restore the block"), in)
			}
		} else {
			h, ok := bio.Lookup(post.Block, in.Upd.LogicalID, idealOf(in.Upd.LogicalID))
			if class != "ok" || !bio.Valid(post.Block) || !ok || h != *in.Upd || post.HasCow {
				res.Fail("valid-backup-not-restored", what("corrupted block with a valid backup: update did not go through on the restored block"), in)
			}
		}
	default: // block passes the checksum rule
		want, wantOK := bio.Lookup(pre.Block, in.Target, in.Ideal)
		if in.Op == "get" {
			if class == "err" || (class == "found") != wantOK || (wantOK && got != want) || string(post.Block) != string(pre.Block) || post.HasCow {
				res.Fail("valid-block-misread", what("valid block: lookup result or disk state wrong (a stale backup must be removed)"), in)
			}
		} else {
			h, ok := bio.Lookup(post.Block, in.Upd.LogicalID, idealOf(in.Upd.LogicalID))
			if class != "ok" || !bio.Valid(post.Block) || !ok || h != *in.Upd || post.HasCow {
				res.Fail("valid-block-misread", what("valid block: update failed or left a wrong block"), in)
			}
		}
	}

	// ---- correspondence case
	if in.Op == "get" {
		obs := "GoNotFound"
		if class == "found" {
			obs = "(GoFound " + hx.CoqBytes(bio.Encode(got)) + ")"
		} else if class != "notfound" {
			obs = "GoErr"
		}
		res.AddCase(bio.PairTerm(pre, post, func(a, b string) string {
			return fmt.Sprintf("C23Get %s %s %d %s %s", a, hx.CoqBytes(in.Target[:]), in.Ideal, obs, b)
		}), in)
	} else {
		obs := "UoOk"
		if class != "ok" {
			obs = "UoErr"
		}
		res.AddCase(bio.PairTerm(pre, post, func(a, b string) string {
			return fmt.Sprintf("C23Upd %s %s %d %s %s %s", a, hx.CoqBytes(in.Upd.LogicalID[:]), idealOf(in.Upd.LogicalID), hx.CoqBytes(bio.Encode(*in.Upd)), obs, b)
		}), in)
	}
	if in.Tag == "crc" || res.NumCases()%25 == 1 {
		res.AddCase(fmt.Sprintf("C23Crc %s %d %s", bio.Sparse(pre.Block), crc32.ChecksumIEEE(pre.Block[:bio.B-4]), hx.CoqBool(bio.Valid(pre.Block))), in)
	}
	res.Sample(map[string]any{"tag": in.Tag, "cow": in.CowKind, "op": in.Op, "block_invalid": invalid, "backup_valid": cowOK, "result": class})
	return nil
}

// onlySlotAndTrailerChanged: post differs from pre only inside the slot now holding id and in the CRC trailer
func onlySlotAndTrailerChanged(pre, post []byte, id sop.UUID) bool {
	slot := -1
	for i := 0; i < bio.NSlot; i++ {
		if string(post[i*bio.S:i*bio.S+16]) == string(id[:]) && string(pre[i*bio.S:(i+1)*bio.S]) != string(post[i*bio.S:(i+1)*bio.S]) {
			slot = i
			break
		}
	}
	for k := 0; k < bio.B-4; k++ {
		if pre[k] != post[k] && (slot < 0 || k < slot*bio.S || k >= (slot+1)*bio.S) {
			return false
		}
	}
	return true
}

// ---------------------------------------------------------------- generators

func genHandle(r *hx.Rng, id sop.UUID) sop.Handle {
	h := sop.Handle{LogicalID: id, PhysicalIDA: sop.UUID(r.Bytes(16)), IsActiveIDB: r.Bool(), Version: int32(r.Intn(1000)), IsDeleted: r.Chance(10)}
	if r.Bool() {
		h.PhysicalIDB = sop.UUID(r.Bytes(16))
	}
	if r.Chance(30) {
		h.WorkInProgressTimestamp = int64(r.U64() >> 20)
	}
	return h
}

type scenario struct {
	hashMod, block int
	handles        []sop.Handle
	slots          []int // byte offset where each handle ended up (ideal or displaced)
}

func genScenario(r *hx.Rng) scenario {
	sc := scenario{hashMod: hx.Pick(r, []int{1, 1, 2, 3})}
	sc.block = r.Intn(sc.hashMod)
	n := 1 + r.Intn(5)
	used := map[int]bool{}
	for i := 0; i < n; i++ {
		slot := r.Intn(bio.NSlot)
		if r.Chance(25) {
			slot = hx.Pick(r, []int{0, 1, bio.NSlot - 1, bio.NSlot - 2})
		}
		if i > 0 && r.Chance(30) { // collide with an earlier handle's ideal slot
			slot = idealOf(sc.handles[r.Intn(i)].LogicalID) / bio.S
		}
		id := bio.IDFor(sc.hashMod, sc.block, slot, uint32(1+r.Intn(1<<20)))
		sc.handles = append(sc.handles, genHandle(r, id))
		// where Add puts it: ideal slot if free, else first free slot scanning from 0
		at := slot
		if used[at] {
			for at = 0; used[at]; at++ {
			}
		}
		used[at] = true
		sc.slots = append(sc.slots, at*bio.S)
	}
	return sc
}

func genCorruption(r *hx.Rng, sc scenario) ([]patch, string) {
	// where: inside a stored record (most), the checksum trailer, the zero area
	pickOff := func() int {
		switch k := r.Intn(10); {
		case k < 6:
			return sc.slots[r.Intn(len(sc.slots))] + r.Intn(bio.S)
		case k < 8:
			return bio.B - 4 + r.Intn(4)
		default:
			return r.Intn(bio.B)
		}
	}
	switch k := r.Intn(20); {
	case k < 9: // single bit flip (needs the current byte: encoded as xor patch by the caller)
		return []patch{{Off: pickOff(), Bytes: []int{-(1 << r.Intn(8))}}}, "bitflip"
	case k < 11: // two separate bit flips
		return []patch{{Off: pickOff(), Bytes: []int{-(1 << r.Intn(8))}}, {Off: pickOff(), Bytes: []int{-(1 << r.Intn(8))}}}, "bitflip2"
	case k < 17: // burst of 2..64 bytes
		n := 2 + r.Intn(63)
		off := pickOff()
		if off+n > bio.B {
			off = bio.B - n
		}
		var bs []byte
		tag := "burst_random"
		switch r.Intn(4) {
		case 0:
			bs, tag = make([]byte, n), "burst_zero"
		case 1:
			bs, tag = make([]byte, n), "burst_ff"
			for i := range bs {
				bs[i] = 0xff
			}
		default:
			bs = r.Bytes(n)
		}
		return []patch{{Off: off, Bytes: bio.Ints(bs)}}, tag
	case k < 18: // checksum trailer overwritten
		return []patch{{Off: bio.B - 4, Bytes: bio.Ints(r.Bytes(4))}}, "trailer"
	case k < 19: // a whole record replaced by another well-formed record (same id, other version)
		i := r.Intn(len(sc.handles))
		h := sc.handles[i]
		h.Version += 1 + int32(r.Intn(5))
		return []patch{{Off: sc.slots[i], Bytes: bio.Ints(bio.Encode(h))}}, "record_swap"
	default:
		return nil, "control_uncorrupted"
	}
}

// negative byte values in a patch mean "xor the stored byte with -v"; resolved against the base block
func resolve(ps []patch, sc scenario) ([]patch, error) {
	need := false
	for _, p := range ps {
		for _, b := range p.Bytes {
			if b < 0 {
				need = true
			}
		}
	}
	if !need {
		return ps, nil
	}
	env, err := bio.NewEnv(sc.hashMod)
	if err != nil {
		return nil, err
	}
	defer env.Remove()
	for _, h := range sc.handles {
		if err := env.Add(context.Background(), h); err != nil {
			return nil, err
		}
	}
	st, err := env.ReadState(int64(sc.block) * bio.B)
	if err != nil {
		return nil, err
	}
	cur := append([]byte(nil), st.Block...)
	out := make([]patch, len(ps))
	for i, p := range ps {
		q := patch{Off: p.Off}
		for j, b := range p.Bytes {
			if b < 0 {
				b = int(cur[p.Off+j]) ^ (-b)
			}
			cur[p.Off+j] = byte(b)
			q.Bytes = append(q.Bytes, b)
		}
		out[i] = q
	}
	return out, nil
}

func runC23(cfg *hx.RunCfg) (*hx.Result, error) {
	res := hx.NewResult("C23")
	res.Imports = []string{"Lib.Bytes", "BlockIO", "BlockIOCorr", "Corr.C23"}
	res.CaseType = "c23case"
	res.Checker = "c23_check"
	res.Rule = "a registry block populated through Add (1-5 records, colliding ideal slots, first/last slots, hash modulus 1-3), then corrupted on disk: single/double bit flips and 2-64 byte bursts (random/zero/0xff) placed inside records, in the CRC trailer or anywhere, trailer overwrite, record swap, plus uncorrupted controls; backup file absent/empty/short/junk/bad-checksum/valid; then Get or Update of a stored or absent id. distinct = distinct (op, block bytes, backup bytes, id); non-trivial = the block bytes differ from what the registry wrote"
	bio.Install(&bio.Sim{})
	if cfg.Replay != "" {
		raw, err := os.ReadFile(cfg.Replay)
		if err != nil {
			return nil, err
		}
		var rp struct {
			Input c23Input `json:"input"`
		}
		if err := json.Unmarshal(raw, &rp); err != nil {
			return nil, err
		}
		return res, c23Case(res, rp.Input)
	}
	r := hx.NewRng(cfg.Seed)

	// ---- deterministic corpus
	id := bio.IDFor(1, 0, 2, 5)
	h3 := sop.Handle{LogicalID: id, PhysicalIDA: bio.IDFor(1, 0, 9, 9), Version: 3}
	other := sop.Handle{LogicalID: bio.IDFor(1, 0, 40, 6), PhysicalIDA: bio.IDFor(1, 0, 8, 8), Version: 1}
	verOff := 2*bio.S + 49
	h9 := h3
	h9.Version = 9
	absent := bio.IDFor(1, 0, 7, 77)
	newcomer := sop.Handle{LogicalID: absent, PhysicalIDA: bio.IDFor(1, 0, 3, 3), Version: 1}
	flip := []patch{{Off: verOff, Bytes: []int{7}}} // version 3 -> 7: one flipped bit (S3)
	corpus := []c23Input{
		{HashMod: 1, Handles: []sop.Handle{h3}, Corrupt: flip, CowKind: "none", Op: "get", Target: id, Ideal: idealOf(id), Tag: "corpus_S3_bitflip_version"},
		{HashMod: 1, Handles: []sop.Handle{h3, other}, Corrupt: flip, CowKind: "none", Op: "update", Target: absent, Ideal: idealOf(absent), Upd: &newcomer, Tag: "corpus_S3_update_other_record"},
		{HashMod: 1, Handles: []sop.Handle{h3}, Corrupt: flip, CowKind: "empty", Op: "get", Target: id, Ideal: idealOf(id), Tag: "corpus_empty_backup"},
		{HashMod: 1, Handles: []sop.Handle{h3}, Corrupt: flip, CowKind: "short", CowParam: 2048, Op: "get", Target: id, Ideal: idealOf(id), Tag: "corpus_short_backup"},
		{HashMod: 1, Handles: []sop.Handle{h3}, Corrupt: flip, CowKind: "badcrc", CowParam: 130, Op: "update", Target: id, Ideal: idealOf(id), Upd: &h9, Tag: "corpus_bad_backup_update"},
		{HashMod: 1, Handles: []sop.Handle{h3}, Corrupt: flip, CowKind: "valid_base", Op: "get", Target: id, Ideal: idealOf(id), Tag: "corpus_valid_backup"},
		{HashMod: 1, Handles: []sop.Handle{other, h3}, Corrupt: flip, CowKind: "valid_older", Op: "get", Target: id, Ideal: idealOf(id), Tag: "corpus_valid_older_backup"},
		{HashMod: 1, Handles: []sop.Handle{h3}, Corrupt: flip, CowKind: "valid_base", Op: "update", Target: id, Ideal: idealOf(id), Upd: &h9, Tag: "corpus_valid_backup_update"},
		{HashMod: 1, Handles: []sop.Handle{h3}, Corrupt: []patch{{Off: bio.B - 1, Bytes: []int{-128}}}, CowKind: "none", Op: "get", Target: id, Ideal: idealOf(id), Tag: "corpus_trailer_bitflip"},
		{HashMod: 1, Handles: []sop.Handle{h3}, Corrupt: []patch{{Off: 2 * bio.S, Bytes: []int{-1}}}, CowKind: "none", Op: "get", Target: id, Ideal: idealOf(id), Tag: "corpus_id_bitflip"},
		{HashMod: 1, Handles: []sop.Handle{h3}, Corrupt: nil, CowKind: "junk", CowParam: 3, Op: "get", Target: id, Ideal: idealOf(id), Tag: "corpus_valid_block_stale_backup"},
		{HashMod: 1, Handles: []sop.Handle{h3}, Corrupt: nil, CowKind: "none", Op: "get", Target: absent, Ideal: idealOf(absent), Tag: "crc"},
	}
	// a burst that zeroes the only record AND the trailer: the block becomes the valid sparse block
	last := bio.IDFor(1, 0, bio.NSlot-1, 4)
	hl := sop.Handle{LogicalID: last, Version: 2}
	corpus = append(corpus, c23Input{HashMod: 1, Handles: []sop.Handle{hl}, Corrupt: []patch{{Off: (bio.NSlot - 1) * bio.S, Bytes: make([]int, bio.S+4)}},
		CowKind: "none", Op: "get", Target: last, Ideal: idealOf(last), Tag: "corpus_tail_zeroed_66_bytes"})
	for _, in := range corpus {
		sc := scenario{hashMod: in.HashMod, block: in.BlockIdx, handles: in.Handles}
		ps, err := resolve(in.Corrupt, sc)
		if err != nil {
			return nil, err
		}
		in.Corrupt = ps
		if err := c23Case(res, in); err != nil {
			return nil, err
		}
	}

	// ---- seeded generation
	n := cfg.N
	if n == 0 {
		n = 200
		if cfg.Tier == "thorough" {
			n = 6000
		}
	}
	cowKinds := []string{"none", "none", "none", "none", "empty", "short", "junk", "badcrc", "valid_base", "valid_older"}
	for i := 0; i < n; {
		sc := genScenario(r)
		for j := 0; j < 6 && i < n; j, i = j+1, i+1 {
			ps, tag := genCorruption(r, sc)
			ps, err := resolve(ps, sc)
			if err != nil {
				return nil, err
			}
			in := c23Input{HashMod: sc.hashMod, BlockIdx: sc.block, Handles: sc.handles, Corrupt: ps, CowKind: hx.Pick(r, cowKinds), CowParam: r.Intn(1 << 16), Tag: tag}
			if in.CowKind == "valid_older" && len(sc.handles) < 2 {
				in.CowKind = "valid_base"
			}
			t := r.Intn(len(sc.handles))
			in.Target = sc.handles[t].LogicalID
			if r.Chance(15) {
				in.Target = bio.IDFor(sc.hashMod, sc.block, r.Intn(bio.NSlot), uint32(1<<21+r.Intn(1000)))
			}
			in.Ideal = idealOf(in.Target)
			if r.Chance(40) {
				in.Op = "update"
				u := genHandle(r, in.Target)
				in.Upd = &u
			} else {
				in.Op = "get"
			}
			if err := c23Case(res, in); err != nil {
				return nil, err
			}
		}
	}
	res.Notes = append(res.Notes, fmt.Sprintf("corruptions that changed the block: %d failed the checksum rule, %d still passed it (e.g. a burst that zeroes the last record together with the trailer yields the valid all-zero block; no-op bursts are counted as unchanged)",
		res.Distribution["block.corrupted_invalid"], res.Distribution["block.corrupted_but_passes_checksum_rule"]))
	return res, nil
}

package main

import (
	"context"
	"fmt"
	"os"

	"github.com/sharedcode/sop"
	"github.com/sharedcode/sop/ai"
	"github.com/sharedcode/sop/ai/database"
	"github.com/sharedcode/sop/ai/vector"
)

func dump(ctx context.Context, idx ai.VectorStore[map[string]any]) {
	c, _ := idx.Content(ctx)
	ok, _ := c.First(ctx)
	n := 0
	for ok {
		if n < 6 {
			fmt.Printf("  content %+v\n", c.GetCurrentKey().Key)
		}
		n++
		ok, _ = c.Next(ctx)
	}
	fmt.Println("  content count", n)
	v, _ := idx.Vectors(ctx)
	ok, _ = v.First(ctx)
	n = 0
	for ok {
		if n < 6 {
			val, _ := v.GetCurrentValue(ctx)
			fmt.Printf("  vec %+v %v\n", v.GetCurrentKey().Key, val)
		}
		n++
		ok, _ = v.Next(ctx)
	}
	fmt.Println("  vectors count", n)
}

func main() {
	dir, _ := os.MkdirTemp("/var/tmp/C33", "probe-*")
	defer os.RemoveAll(dir)
	ctx := context.Background()
	db := database.NewDatabase(sop.DatabaseOptions{StoresFolders: []string{dir}})
	buf := vector.Config{UsageMode: ai.Dynamic, EnableIngestionBuffer: true}
	nob := vector.Config{UsageMode: ai.Dynamic}
	// scenario A: buffered upsert a,b; delete a; optimize; reopen unbuffered; get a
	tx, _ := db.BeginTransaction(ctx, sop.ForWriting)
	idx, _ := db.OpenVectorStore(ctx, "A", tx, buf)
	idx.Upsert(ctx, ai.Item[map[string]any]{ID: "a", Vector: []float32{1, 0}, Payload: map[string]any{"p": 1}})
	idx.Upsert(ctx, ai.Item[map[string]any]{ID: "b", Vector: []float32{0, 1}, Payload: map[string]any{"p": 2}})
	fmt.Println("delete b:", idx.Delete(ctx, "b"))
	_, e := idx.Get(ctx, "a")
	fmt.Println("A get a before optimize:", e)
	fmt.Println("A optimize:", idx.Optimize(ctx))
	tx, _ = db.BeginTransaction(ctx, sop.ForWriting)
	idx, _ = db.OpenVectorStore(ctx, "A", tx, nob)
	it, e := idx.Get(ctx, "a")
	fmt.Println("A get a after optimize:", it, e)
	it, e = idx.Get(ctx, "b")
	fmt.Println("A get b after optimize:", it, e)
	h, e := idx.Query(ctx, []float32{1, 0}, 5, nil)
	fmt.Println("A query:", h, e)
	dump(ctx, idx)
	tx.Commit(ctx)

	// scenario B: 150 buffered upserts; optimize; reopen unbuffered; count gets
	tx, _ = db.BeginTransaction(ctx, sop.ForWriting)
	idx, _ = db.OpenVectorStore(ctx, "B", tx, buf)
	for i := 0; i < 150; i++ {
		idx.Upsert(ctx, ai.Item[map[string]any]{ID: fmt.Sprintf("i%03d", i), Vector: []float32{float32(i%7) + 1, float32(i % 5)}, Payload: map[string]any{"p": i}})
	}
	fmt.Println("B optimize:", idx.Optimize(ctx))
	tx, _ = db.BeginTransaction(ctx, sop.ForWriting)
	idx, _ = db.OpenVectorStore(ctx, "B", tx, nob)
	okc, bad := 0, 0
	var firstErr error
	for i := 0; i < 150; i++ {
		if _, e := idx.Get(ctx, fmt.Sprintf("i%03d", i)); e != nil {
			bad++
			if firstErr == nil {
				firstErr = e
			}
		} else {
			okc++
		}
	}
	fmt.Println("B gets ok", okc, "bad", bad, firstErr)
	dump(ctx, idx)
	tx.Commit(ctx)
	// reopen buffered: are the remaining 50 still in temp?
	tx, _ = db.BeginTransaction(ctx, sop.ForWriting)
	idx, _ = db.OpenVectorStore(ctx, "B", tx, buf)
	okc, bad = 0, 0
	for i := 0; i < 150; i++ {
		if _, e := idx.Get(ctx, fmt.Sprintf("i%03d", i)); e != nil {
			bad++
		} else {
			okc++
		}
	}
	fmt.Println("B buffered gets ok", okc, "bad", bad)
	tx.Commit(ctx)
}

package main

import (
	"context"
	"encoding/json"
	"errors"
	"fmt"
	"os"
	"sort"

	"github.com/sharedcode/sop"

	"verif/harness/hx"
)

// C34: access-control decisions. K1 value-level differential through the real exported
// functions (Authorize, CheckPolicy, EnforcePolicy, CanPerformAction, IsSystemReadOnly,
// ActionToUICapability, RegisterAssetRBAC + ResolveRBACMap) plus a direct oracle that is the
// property statement written out in Go, independently of the Coq model.

func main() { hx.Main("c34", runC34) }

// ---------------------------------------------------------------- inputs

type callerIn struct {
	NoAuth bool     `json:"no_auth,omitempty"` // context without an AuthContext
	User   string   `json:"user"`
	Roles  []string `json:"roles"`
	System bool     `json:"system"`
}

type grant struct {
	Key  string   `json:"key"`
	Acts []string `json:"acts"`
}

type accessIn struct {
	Vis     string  `json:"vis"`
	Owner   string  `json:"owner"`
	Roles   []grant `json:"roles"`
	Users   []grant `json:"users"`
	NilMaps bool    `json:"nil_maps,omitempty"` // leave empty grant maps nil instead of allocated
}

type evalRow struct {
	Action string `json:"action"`
	Allow  bool   `json:"allow"`
}

type c34Input struct {
	Kind string `json:"kind"` // enum | policy | map
	Idx  int    `json:"idx,omitempty"`

	Caller  *callerIn `json:"caller,omitempty"`
	Name    string    `json:"name,omitempty"`
	Access  *accessIn `json:"access,omitempty"`
	Actions []string  `json:"actions,omitempty"`

	Local      *accessIn `json:"local,omitempty"`
	Registered bool      `json:"registered,omitempty"`
	HasEval    bool      `json:"has_eval,omitempty"`
	Eval       []evalRow `json:"eval,omitempty"`
}

func (c callerIn) ctx() context.Context {
	if c.NoAuth {
		return context.Background()
	}
	return sop.ContextWithAuth(context.Background(), sop.AuthContext{UserID: c.User, Roles: c.Roles, IsSystem: c.System})
}

// effective identity (what GetAuthFromContext yields)
func (c callerIn) eff() callerIn {
	if c.NoAuth {
		return callerIn{}
	}
	return c
}

func dedupe(gs []grant) []grant {
	seen := map[string]bool{}
	var out []grant
	for _, g := range gs {
		if !seen[g.Key] {
			seen[g.Key] = true
			out = append(out, g)
		}
	}
	return out
}

func (a accessIn) real() sop.ResourceAccess {
	ra := sop.ResourceAccess{Visibility: sop.Visibility(a.Vis), OwnerID: a.Owner}
	mk := func(gs []grant) map[string][]string {
		if len(gs) == 0 && a.NilMaps {
			return nil
		}
		m := map[string][]string{}
		for _, g := range dedupe(gs) {
			m[g.Key] = g.Acts
		}
		return m
	}
	ra.Roles, ra.Users = mk(a.Roles), mk(a.Users)
	return ra
}

// ---------------------------------------------------------------- Coq printers

// vocab mirrors the definitions v0, v1, ... of Corr/C34.v (checked by VocabCase on every run).
var vocab = []string{"", "alice", "bob", "Alice", "alice ", "*", "system", "Admin", "User", "Guest", "X", "admin", "ADMIN", "Admin ", "SOP", "LongTermMemory", "kb1", "sop", "Sop", "longtermmemory", "LongTermMemory ", "SOP/x", "memory_1", "public", "private", "PUBLIC", "System", "internal", "system ", "read", "write", "delete", "list", "ai_select", "execute", "Read", "share", "can_read", "can_edit", "can_delete", "can_ai_select", "root"}

var vocabID = func() map[string]string {
	m := map[string]string{}
	for i, v := range vocab {
		m[v] = fmt.Sprintf("v%d", i)
	}
	return m
}()

// cs prints a string as a Coq term of type str: its vocabulary name, or the byte list.
func cs(s string) string {
	if id, ok := vocabID[s]; ok {
		return id
	}
	return hx.CoqString(s)
}

func vocabCase() string {
	o := make([]string, len(vocab))
	for i, v := range vocab {
		o[i] = fmt.Sprintf("(v%d, %s)", i, hx.CoqString(v))
	}
	return "VocabCase " + hx.CoqList(o)
}

func coqStrs(xs []string) string {
	o := make([]string, len(xs))
	for i, x := range xs {
		o[i] = cs(x)
	}
	return hx.CoqList(o)
}

func coqCaller(c callerIn) string {
	c = c.eff()
	return fmt.Sprintf("(mkCaller %s %s %s)", cs(c.User), coqStrs(c.Roles), hx.CoqBool(c.System))
}

func coqGrants(gs []grant) string {
	gs = dedupe(gs)
	o := make([]string, len(gs))
	for i, g := range gs {
		o[i] = fmt.Sprintf("(%s, %s)", cs(g.Key), coqStrs(g.Acts))
	}
	return hx.CoqList(o)
}

func coqAccess(a accessIn) string {
	return fmt.Sprintf("(mkAccess %s %s %s %s)", cs(a.Vis), cs(a.Owner), coqGrants(a.Roles), coqGrants(a.Users))
}

// ---------------------------------------------------------------- the property, written out

var coreNames = map[string]bool{"SOP": true, "LongTermMemory": true}

func has(xs []string, s string) bool {
	for _, x := range xs {
		if x == s {
			return true
		}
	}
	return false
}

func findGrant(gs []grant, k string) ([]string, bool) {
	for _, g := range dedupe(gs) {
		if g.Key == k {
			return g.Acts, true
		}
	}
	return nil, false
}

// entitled is the "otherwise" clause of the statement for a resource whose visibility is not system.
func entitled(c callerIn, a accessIn, action string) (bool, string) {
	if has(c.Roles, "Admin") {
		return true, "admin"
	}
	if a.Owner != "" && c.User == a.Owner {
		return true, "owner"
	}
	if (a.Vis == "public" || a.Vis == "") && (action == "read" || action == "list") {
		return true, "public"
	}
	for _, r := range c.Roles {
		if acts, ok := findGrant(a.Roles, r); ok && (has(acts, action) || has(acts, "*")) {
			return true, "role-grant"
		}
	}
	if acts, ok := findGrant(a.Users, c.User); ok && (has(acts, action) || has(acts, "*")) {
		return true, "user-grant"
	}
	return false, "none"
}

func errCode(err error) int {
	switch {
	case err == nil:
		return 0
	case errors.Is(err, sop.ErrSystemReadOnly):
		return 1
	case errors.Is(err, sop.ErrUnauthorized):
		return 2
	}
	return 3
}

var wantCap = map[string]string{"read": "can_read", "write": "can_edit", "delete": "can_delete", "ai_select": "can_ai_select"}

type outRec struct {
	action   string
	au, can  bool
	ce, ee   int
	uc       string
}

func c34Policy(res *hx.Result, in c34Input) {
	ro, recs := evalPolicy(res, in)
	var outs []string
	for _, o := range recs {
		outs = append(outs, fmt.Sprintf("(mkOut %s %s %d %d %s %s)", cs(o.action), hx.CoqBool(o.au), o.ce, o.ee, hx.CoqBool(o.can), cs(o.uc)))
	}
	res.AddCase(fmt.Sprintf("PolicyCase %s %s %s %s %s", coqCaller(*in.Caller), cs(in.Name), coqAccess(*in.Access), hx.CoqBool(ro), hx.CoqList(outs)), compact(in))
	res.Sample(in)
}

// evalPolicy runs every entry point for every action of the input and applies the direct oracle.
func evalPolicy(res *hx.Result, in c34Input) (bool, []outRec) {
	c, a := *in.Caller, *in.Access
	ctx, ra := c.ctx(), a.real()
	eff := c.eff()
	ro := sop.IsSystemReadOnly(in.Name)
	if ro != coreNames[in.Name] {
		res.Fail("core-resource-set", fmt.Sprintf("IsSystemReadOnly(%q) = %v", in.Name, ro), in)
	}
	var outs []outRec
	for _, action := range in.Actions {
		act := sop.Action(action)
		au := sop.Authorize(ctx, ra, act)
		ce := sop.CheckPolicy(ctx, in.Name, ra, act)
		ee := sop.EnforcePolicy(ctx, in.Name, ra, act)
		can := sop.CanPerformAction(ctx, in.Name, ra, act)
		uc := string(sop.ActionToUICapability(act))
		allowed := ce == nil
		ent, why := entitled(eff, a, action)
		nontrivial := ent || a.Vis == "system" || coreNames[in.Name]
		res.Seen(fmt.Sprintf("p|%v|%q|%v|%q|%q|%q|%v|%v|%q", eff.User, eff.Roles, eff.System, in.Name, a.Vis, a.Owner, dedupe(a.Roles), dedupe(a.Users), action), nontrivial)
		res.Count("action." + action)
		desc := fmt.Sprintf("caller=%+v resource=%q access=%+v action=%q: Authorize=%v CheckPolicy=%v CanPerformAction=%v", eff, in.Name, a, action, au, ce, can)
		// 1. core resources are never written or deleted
		if coreNames[in.Name] && (action == "write" || action == "delete") {
			res.Count("rule.core-readonly")
			if allowed || can || ee == nil {
				res.Fail("core-resource-writable", desc, in)
			}
		}
		// 2. system visibility: system callers only
		if a.Vis == "system" {
			res.Count("rule.system-visibility")
			if au && !eff.System {
				res.Fail("system-visibility-leak", desc, in)
			}
			if !au && eff.System {
				res.Fail("system-caller-denied", desc, in)
			}
		} else {
			// 3. otherwise only the entitled (and, as the converse, all of them)
			res.Count("rule." + why)
			if au && !ent {
				res.Fail("allowed-without-entitlement", desc, in)
			}
			if !au && ent {
				res.Fail("denied-despite-entitlement:"+why, desc, in)
			}
		}
		// the three entry points are one decision
		blocked := coreNames[in.Name] && (action == "write" || action == "delete")
		if allowed != (au && !blocked) || can != allowed || (ee == nil) != allowed {
			res.Fail("policy-inconsistent", desc+fmt.Sprintf(" EnforcePolicy=%v", ee), in)
		}
		if w, ok := wantCap[action]; ok && uc != w {
			res.Fail("ui-capability-key", fmt.Sprintf("ActionToUICapability(%q) = %q, want %q", action, uc, w), in)
		}
		if allowed {
			res.Count("verdict.allowed")
		} else {
			res.Count(fmt.Sprintf("verdict.denied-%d", errCode(ce)))
		}
		outs = append(outs, outRec{action, au, can, errCode(ce), errCode(ee), uc})
	}
	return ro, outs
}

const nEnumCallers = 48 // users x role subsets x system flag: the innermost coordinates of enumInput

// c34EnumACL evaluates one (resource, ACL) point of the enumerated domain for all 48 callers and all
// actions; the correspondence case carries one packed number per caller.
func c34EnumACL(res *hx.Result, k int) {
	var packed []byte
	var first c34Input
	ro := false
	for ci := 0; ci < nEnumCallers; ci++ {
		in := enumInput(k*nEnumCallers + ci)
		if ci == 0 {
			first = in
		}
		r, recs := evalPolicy(res, in)
		ro = r
		for _, o := range recs {
			code := o.ce*4 + o.ee*16
			if o.au {
				code++
			}
			if o.can {
				code += 2
			}
			packed = append(packed, byte(48+code))
		}
	}
	res.AddCase(fmt.Sprintf("EnumCase %s %s %s \"%s\"%%string", cs(first.Name), coqAccess(*first.Access), hx.CoqBool(ro), string(packed)), c34Input{Kind: "enumacl", Idx: k})
	res.Sample(first)
}

func enumDomainCase() string {
	var cl []string
	for ci := 0; ci < nEnumCallers; ci++ {
		cl = append(cl, coqCaller(*enumInput(ci).Caller))
	}
	return fmt.Sprintf("EnumDomainCase %s %s", hx.CoqList(cl), coqStrs(dActions))
}

// compact keeps result.json small for enumerated cases: the index alone replays them.
func compact(in c34Input) any {
	if in.Kind == "enum" {
		return c34Input{Kind: "enum", Idx: in.Idx}
	}
	return in
}

const assetType = "t"

func c34Map(res *hx.Result, in c34Input) {
	c := *in.Caller
	ctx := c.ctx()
	eff := c.eff()
	acts := make([]sop.Action, len(in.Actions))
	for i, a := range in.Actions {
		acts[i] = sop.Action(a)
	}
	var local sop.ResourceAccess
	var getLocal func() sop.ResourceAccess
	localIn := accessIn{}
	if in.Local != nil {
		localIn = *in.Local
		local = in.Local.real()
		getLocal = func() sop.ResourceAccess { return local }
	}
	evalTbl := map[string]bool{}
	for _, r := range in.Eval {
		if _, dup := evalTbl[r.Action]; !dup {
			evalTbl[r.Action] = r.Allow
		}
	}
	at := assetType
	if in.Registered {
		bp := sop.AssetBlueprint{AssetType: at, Actions: acts}
		if in.HasEval {
			bp.Evaluator = func(_ context.Context, _ sop.EntitlementContext, a sop.Action) bool { return evalTbl[string(a)] }
		}
		sop.RegisterAssetRBAC(bp)
		if got, ok := sop.GetAssetBlueprint(at); !ok || len(got.Actions) != len(acts) || (got.Evaluator != nil) != in.HasEval {
			res.Fail("registry-lookup", "GetAssetBlueprint does not return the registered blueprint", in)
		}
	} else {
		at = "t-never-registered"
	}
	m := sop.ResolveRBACMap(ctx, at, sop.EntitlementContext{AssetID: in.Name, UserID: eff.User}, getLocal)
	res.Seen(fmt.Sprintf("m|%v|%q|%v|%q|%+v|%v|%v|%v|%v", eff.User, eff.Roles, eff.System, in.Name, localIn, in.Registered, in.Actions, in.HasEval, in.Eval), in.Registered && len(acts) > 0)
	res.Count("map")
	if in.HasEval {
		res.Count("map.evaluator")
	}
	if in.Local == nil {
		res.Count("map.no-local-access")
	}
	// direct oracle: the map agrees with the enforcement decision, action by action
	if !in.Registered && len(m) != 0 {
		res.Fail("ui-map-unregistered", fmt.Sprintf("map for an unregistered asset type is %v", m), in)
	}
	caps := map[string]bool{}
	if in.Registered {
		for i, a := range acts {
			k := sop.ActionToUICapability(a)
			caps[string(k)] = true
			var want bool
			if in.HasEval {
				want = evalTbl[string(a)]
			} else {
				want = sop.CanPerformAction(ctx, in.Name, local, a)
			}
			got, present := m[k]
			desc := fmt.Sprintf("caller=%+v asset=%q local=%+v actions=%v: map[%q]=%v (present=%v) but the decision for action %q is %v", eff, in.Name, localIn, in.Actions, k, got, present, a, want)
			if !present {
				res.Fail("ui-map-missing", desc, in)
				continue
			}
			if got != want {
				alias := false
				for j, b := range acts {
					if j != i && b != a && sop.ActionToUICapability(b) == k {
						alias = true
					}
				}
				if alias {
					res.Count("map.alias-disagreement")
					res.Fail("ui-map-alias-last-wins", desc, in)
				} else {
					res.Fail("ui-map-disagrees", desc, in)
				}
			}
		}
		for k := range m {
			if !caps[string(k)] {
				res.Fail("ui-map-extra-key", fmt.Sprintf("map has key %q that no blueprint action maps to", k), in)
			}
		}
	}
	var keys []string
	for k := range m {
		keys = append(keys, string(k))
	}
	sort.Strings(keys)
	kv := make([]string, len(keys))
	for i, k := range keys {
		kv[i] = fmt.Sprintf("(%s, %s)", cs(k), hx.CoqBool(m[sop.UICapability(k)]))
	}
	ev := "None"
	if in.HasEval {
		var rows []string
		seen := map[string]bool{}
		for _, r := range in.Eval {
			if !seen[r.Action] {
				seen[r.Action] = true
				rows = append(rows, fmt.Sprintf("(%s, %s)", cs(r.Action), hx.CoqBool(r.Allow)))
			}
		}
		ev = "(Some " + hx.CoqList(rows) + ")"
	}
	loc := "None"
	if in.Local != nil {
		loc = "(Some " + coqAccess(*in.Local) + ")"
	}
	res.AddCase(fmt.Sprintf("MapCase %s %s %s %s %s %s %s", coqCaller(c), cs(in.Name), loc, hx.CoqBool(in.Registered), coqStrs(in.Actions), ev, hx.CoqList(kv)), in)
}

// ---------------------------------------------------------------- the finite abstract domain

var (
	dUsers     = []string{"", "alice", "bob"}
	dRoleBase  = []string{"Admin", "User", "X"}
	dNames     = []string{"SOP", "LongTermMemory", "kb1"}
	dVis       = []string{"public", "private", "system", ""}
	dOwners    = []string{"", "alice", "bob"}
	dRoleUser  = [][]string{nil, {}, {"write"}, {"*"}} // grant for role "User" (nil = no entry)
	dRoleX     = [][]string{nil, {"read"}, {"delete"}}
	dUserEmpty = [][]string{nil, {"write"}} // grant for user ""
	dUserAlice = [][]string{nil, {"*"}, {"list"}}
	dActions   = []string{"read", "write", "delete", "list", "ai_select", "execute", "*"}
)

var radices = []int{len(dUsers), 8, 2, len(dNames), len(dVis), len(dOwners), len(dRoleUser), len(dRoleX), len(dUserEmpty), len(dUserAlice)}

func domainSize() int {
	n := 1
	for _, r := range radices {
		n *= r
	}
	return n
}

func enumInput(idx int) c34Input {
	d := make([]int, len(radices))
	x := idx
	for i, r := range radices {
		d[i] = x % r
		x /= r
	}
	var roles []string
	for b := 0; b < 3; b++ {
		if d[1]&(1<<b) != 0 {
			roles = append(roles, dRoleBase[b])
		}
	}
	if roles == nil {
		roles = []string{}
	}
	acc := accessIn{Vis: dVis[d[4]], Owner: dOwners[d[5]], NilMaps: idx%2 == 0}
	if g := dRoleUser[d[6]]; g != nil {
		acc.Roles = append(acc.Roles, grant{"User", g})
	}
	if g := dRoleX[d[7]]; g != nil {
		acc.Roles = append(acc.Roles, grant{"X", g})
	}
	if g := dUserEmpty[d[8]]; g != nil {
		acc.Users = append(acc.Users, grant{"", g})
	}
	if g := dUserAlice[d[9]]; g != nil {
		acc.Users = append(acc.Users, grant{"alice", g})
	}
	return c34Input{Kind: "enum", Idx: idx, Caller: &callerIn{User: dUsers[d[0]], Roles: roles, System: d[2] == 1}, Name: dNames[d[3]], Access: &acc, Actions: dActions}
}

// ---------------------------------------------------------------- random streams (a wider domain)

var (
	rUsers   = []string{"", "alice", "bob", "Alice", "alice ", "*", "system"}
	rRoles   = []string{"Admin", "User", "Guest", "X", "admin", "ADMIN", "", "*", "Admin "}
	rNames   = []string{"SOP", "LongTermMemory", "kb1", "sop", "Sop", "longtermmemory", "LongTermMemory ", "", "SOP/x", "memory_1"}
	rVis     = []string{"public", "private", "system", "", "PUBLIC", "System", "internal", "system "}
	rActions = []string{"read", "write", "delete", "list", "ai_select", "execute", "*", "", "Read", "can_edit", "can_read"}
)

func genCaller(r *hx.Rng) callerIn {
	if r.Chance(5) {
		return callerIn{NoAuth: true, Roles: []string{}}
	}
	c := callerIn{User: hx.Pick(r, rUsers), System: r.Chance(30), Roles: []string{}}
	for k := r.Intn(4); k > 0; k-- {
		c.Roles = append(c.Roles, hx.Pick(r, rRoles)) // duplicates allowed
	}
	return c
}

func genActs(r *hx.Rng) []string {
	out := []string{}
	for k := r.Intn(4); k > 0; k-- {
		out = append(out, hx.Pick(r, rActions))
	}
	return out
}

func genAccess(r *hx.Rng) accessIn {
	a := accessIn{Vis: hx.Pick(r, rVis), Owner: hx.Pick(r, rUsers), NilMaps: r.Bool()}
	if r.Chance(60) {
		a.Vis = hx.Pick(r, dVis)
	}
	for k := r.Intn(4); k > 0; k-- {
		a.Roles = append(a.Roles, grant{hx.Pick(r, rRoles), genActs(r)})
	}
	for k := r.Intn(3); k > 0; k-- {
		a.Users = append(a.Users, grant{hx.Pick(r, rUsers), genActs(r)})
	}
	a.Roles, a.Users = dedupe(a.Roles), dedupe(a.Users)
	return a
}

func genPolicy(r *hx.Rng) c34Input {
	c, a := genCaller(r), genAccess(r)
	return c34Input{Kind: "policy", Caller: &c, Name: hx.Pick(r, rNames), Access: &a, Actions: rActions}
}

// actions of a blueprint: a shuffled subset of the declared actions plus unknown ones, possibly with
// repeats; names that alias a capability key are left to the corpus (known finding) unless alias is set
func genBlueprintActions(r *hx.Rng, alias bool) []string {
	pool := []string{"read", "write", "delete", "list", "ai_select", "execute", "share", "*", ""}
	if alias {
		pool = append(pool, "can_read", "can_edit", "can_delete", "can_ai_select")
	}
	n := r.Intn(7)
	out := []string{}
	for i := 0; i < n; i++ {
		out = append(out, hx.Pick(r, pool))
	}
	return out
}

func genMap(r *hx.Rng, alias bool) c34Input {
	c := genCaller(r)
	in := c34Input{Kind: "map", Caller: &c, Name: hx.Pick(r, rNames), Registered: !r.Chance(5), Actions: genBlueprintActions(r, alias)}
	if r.Chance(50) {
		in.Name = hx.Pick(r, dNames)
	}
	if !r.Chance(15) {
		a := genAccess(r)
		in.Local = &a
	}
	if r.Chance(30) {
		in.HasEval = true
		for _, a := range in.Actions {
			if r.Chance(80) {
				in.Eval = append(in.Eval, evalRow{a, r.Bool()})
			}
		}
	}
	return in
}

// ---------------------------------------------------------------- corpus

func corpus() []c34Input {
	acc := func(vis, owner string, roles, users []grant) *accessIn {
		return &accessIn{Vis: vis, Owner: owner, Roles: roles, Users: users}
	}
	call := func(u string, sys bool, roles ...string) *callerIn {
		if roles == nil {
			roles = []string{}
		}
		return &callerIn{User: u, Roles: roles, System: sys}
	}
	all := rActions
	return []c34Input{
		// admin and system callers against the core resources
		{Kind: "policy", Caller: call("root", true, "Admin"), Name: "SOP", Access: acc("public", "root", []grant{{"Admin", []string{"*"}}}, []grant{{"root", []string{"*"}}}), Actions: all},
		{Kind: "policy", Caller: call("root", true, "Admin"), Name: "LongTermMemory", Access: acc("system", "root", nil, nil), Actions: all},
		// system visibility: admin and owner are not enough
		{Kind: "policy", Caller: call("alice", false, "Admin"), Name: "kb1", Access: acc("system", "alice", []grant{{"Admin", []string{"*"}}}, []grant{{"alice", []string{"*"}}}), Actions: all},
		// anonymous caller and a grant for the empty user id; empty owner never matches
		{Kind: "policy", Caller: &callerIn{NoAuth: true, Roles: []string{}}, Name: "kb1", Access: acc("private", "", nil, []grant{{"", []string{"write"}}}), Actions: all},
		{Kind: "policy", Caller: call("", false), Name: "kb1", Access: acc("private", "", nil, nil), Actions: all},
		// role names are case sensitive; wildcard grant; empty visibility is public
		{Kind: "policy", Caller: call("bob", false, "admin", "User"), Name: "kb1", Access: acc("", "alice", []grant{{"User", []string{"*"}}}, nil), Actions: all},
		{Kind: "policy", Caller: call("bob", false, "Guest"), Name: "sop", Access: acc("PUBLIC", "alice", []grant{{"User", []string{"write"}}}, []grant{{"bob", []string{"delete", "list"}}}), Actions: all},
		// the map for the declared actions, with and without local access / evaluator
		{Kind: "map", Caller: call("alice", false, "User"), Name: "kb1", Registered: true, Actions: []string{"read", "write", "delete", "ai_select", "list"}, Local: acc("public", "alice", nil, nil)},
		{Kind: "map", Caller: call("bob", false, "User"), Name: "SOP", Registered: true, Actions: []string{"read", "write", "delete", "ai_select"}, Local: acc("public", "bob", nil, nil)},
		{Kind: "map", Caller: call("bob", false), Name: "kb1", Registered: true, Actions: []string{"read", "write", "delete"}},
		{Kind: "map", Caller: call("bob", false), Name: "kb1", Registered: true, Actions: []string{"read", "write", "read"}, HasEval: true, Eval: []evalRow{{"read", true}}},
		{Kind: "map", Caller: call("bob", false), Name: "kb1", Registered: false, Actions: []string{"read"}},
		// KNOWN FINDING (ui-map-alias-last-wins): an action whose text is a capability key shares the
		// key of a declared action; the later one overwrites the earlier one's decision
		{Kind: "map", Caller: call("bob", false), Name: "kb1", Registered: true, Actions: []string{"write", "can_edit"}, Local: acc("private", "alice", nil, []grant{{"bob", []string{"can_edit"}}})},
	}
}

// ---------------------------------------------------------------- run

func dispatch(res *hx.Result, in c34Input) {
	switch in.Kind {
	case "vocab":
		res.AddCase(vocabCase(), in)
		res.AddCase(enumDomainCase(), in)
	case "enumacl":
		c34EnumACL(res, in.Idx)
	case "enum":
		e := enumInput(in.Idx)
		c34Policy(res, e)
	case "policy":
		c34Policy(res, in)
	case "map":
		if in.Caller.Roles == nil {
			in.Caller.Roles = []string{}
		}
		c34Map(res, in)
	}
}

func runC34(cfg *hx.RunCfg) (*hx.Result, error) {
	res := hx.NewResult("C34")
	res.Imports = []string{"Lib.Bytes", "Gen.RbacConsts", "Rbac", "Corr.C34"}
	res.CaseType = "c34case"
	res.Checker = "c34_check"
	res.Rule = fmt.Sprintf("one evaluation = one (caller, resource, ACL, action) decision through Authorize+CheckPolicy+EnforcePolicy+CanPerformAction, or one ResolveRBACMap call; enumerated domain of %d (caller,resource,ACL) points x %d actions (3 users incl. \"\", role subsets of {Admin,User,X}, system flag, 3 resource names incl. both core names, 4 visibilities incl. \"\", 3 owners, grant maps over roles User/X and users \"\"/alice incl. wildcard and empty list) walked completely in the thorough tier and with a stride in the quick tier, plus random streams over a wider vocabulary (case variants, trailing blanks, duplicates, unknown actions, nil maps, missing auth); distinct = distinct canonical input; non-trivial = some rule other than plain denial applies (entitled, system visibility or core resource) / registered non-empty blueprint", domainSize(), len(dActions))
	if cfg.Replay != "" {
		raw, err := os.ReadFile(cfg.Replay)
		if err != nil {
			return nil, err
		}
		var rp struct {
			Input c34Input `json:"input"`
		}
		if err := json.Unmarshal(raw, &rp); err != nil {
			return nil, err
		}
		dispatch(res, rp.Input)
		return res, nil
	}
	dispatch(res, c34Input{Kind: "vocab"})
	for _, in := range corpus() {
		dispatch(res, in)
	}
	r := hx.NewRng(cfg.Seed)
	blocks := domainSize() / nEnumCallers
	nEnum, nPol, nMap := 432, 450, 500
	if cfg.Tier == "thorough" {
		nEnum, nPol, nMap = blocks, 12000, 8000
	}
	if cfg.N > 0 {
		nEnum, nPol, nMap = cfg.N, cfg.N, cfg.N
	}
	// the three streams are interleaved so that the (expensive to parse) enumeration cases spread over all shards
	const stride = 1559 // coprime to every radix: visits all values of every coordinate and a spread of combinations
	start := 0
	if nEnum >= blocks {
		nEnum = blocks
		res.Notes = append(res.Notes, fmt.Sprintf("enumerated domain walked completely: %d (resource, ACL) points x %d callers x %d actions", blocks, nEnumCallers, len(dActions)))
	} else {
		start = int(r.U64() % uint64(blocks)) // different seeds cover different points
		res.Notes = append(res.Notes, fmt.Sprintf("enumerated domain sampled: %d of %d (resource, ACL) points (stride %d from %d), each with all %d callers x %d actions", nEnum, blocks, stride, start, nEnumCallers, len(dActions)))
	}
	total := nEnum + nPol + nMap
	de, dp, dm := 0, 0, 0
	for i := 1; i <= total; i++ {
		switch {
		case de*total < i*nEnum && de < nEnum:
			dispatch(res, c34Input{Kind: "enumacl", Idx: (start + de*stride) % blocks})
			de++
		case dp*total < i*nPol && dp < nPol:
			dispatch(res, genPolicy(r))
			dp++
		case dm < nMap:
			dispatch(res, genMap(r, false))
			dm++
		case dp < nPol:
			dispatch(res, genPolicy(r))
			dp++
		default:
			dispatch(res, c34Input{Kind: "enumacl", Idx: (start + de*stride) % blocks})
			de++
		}
	}
	return res, nil
}

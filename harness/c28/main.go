package main

import (
	"context"
	"encoding/json"
	"fmt"
	"os"
	"runtime"
	"sort"
	"strings"
	"sync"
	"sync/atomic"
	"time"

	"github.com/sharedcode/sop"
	sopredis "github.com/sharedcode/sop/adapters/redis"
	"github.com/sharedcode/sop/cache"

	"verif/harness/hx"
	"verif/harness/respsrv"
)

// C28: a lock is held by at most one owner and only its owner can release it.
//
// K2 correspondence: scripted interleavings of 2-4 owners over overlapping key
// sets against (a) cache.NewL2InMemoryCache with shard capacity 1..8 and (b) the
// Redis adapter talking to the in-process RESP2 stand-in (verif/harness/respsrv).
// After every command the answer, the whole lock table (and for Redis the
// IsLockOwner flags) are recorded; Corr/C28.v steps the Coq model over the same
// script and compares everything.
//
// Direct oracle: an omniscient holder oracle (who was told "you hold k", until
// which recorded expiry) evaluated after every command on the implementation.

func main() { hx.Main("c28", runC28) }

// ---------------------------------------------------------------- scripts

type Op struct {
	Kind string `json:"kind"` // lock|dual|islocked|ttl|others|unlock|tick
	O    int    `json:"o,omitempty"`
	D    int    `json:"d,omitempty"`
	Ks   []int  `json:"ks,omitempty"`
	N    int    `json:"n,omitempty"`
}

type Script struct {
	Name string `json:"name,omitempty"`
	Svc  string `json:"svc"`           // im|rd
	Cap  int    `json:"cap,omitempty"` // in-memory shard capacity
	NS   int    `json:"ns,omitempty"`  // number of distinct shards the keys are spread over (0 = natural hashing)
	Ops  []Op   `json:"ops"`
}

func (o Op) coq() string {
	ks := make([]string, len(o.Ks))
	for i, k := range o.Ks {
		ks[i] = fmt.Sprint(k)
	}
	l := "[" + strings.Join(ks, ";") + "]"
	switch o.Kind {
	case "lock":
		return fmt.Sprintf("OLock %d %d %s", o.O, o.D, l)
	case "dual":
		return fmt.Sprintf("ODualLock %d %d %s", o.O, o.D, l)
	case "islocked":
		return fmt.Sprintf("OIsLocked %d %s", o.O, l)
	case "ttl":
		return fmt.Sprintf("OIsLockedTTL %d %d %s", o.O, o.D, l)
	case "others":
		return fmt.Sprintf("OIsLockedByOthers %s", l)
	case "unlock":
		return fmt.Sprintf("OUnlock %d %s", o.O, l)
	case "tick":
		return fmt.Sprintf("OTick %d", o.N)
	}
	panic("bad op kind " + o.Kind)
}

type ent struct {
	K, O int
	E    int64 // logical expiry; -1 = none
}

// coqTable: flat k;o;h;e quadruples (h = 0: no TTL), see Corr/C28.v dec_table.
func coqTable(t []ent) string {
	xs := make([]string, 0, 4*len(t))
	for _, e := range t {
		if e.E >= 0 {
			xs = append(xs, fmt.Sprint(e.K), fmt.Sprint(e.O), "1", fmt.Sprint(e.E))
		} else {
			xs = append(xs, fmt.Sprint(e.K), fmt.Sprint(e.O), "0", "0")
		}
	}
	return "[" + strings.Join(xs, ";") + "]"
}

// coqResp: answer and reported owner (0 = NilUUID).
func coqResp(ok bool, other int) string {
	if other < 0 {
		other = 0
	}
	return fmt.Sprintf("%s %d", hx.CoqBool(ok), other)
}

// ---------------------------------------------------------------- owners, keys

func ownerID(o int) sop.UUID {
	var u sop.UUID
	u[0] = 0xC2
	u[1] = 0x8
	u[15] = byte(o)
	return u
}

func ownerOf(u sop.UUID) int {
	if u == sop.NilUUID {
		return -1
	}
	for o := 0; o < 16; o++ {
		if ownerID(o) == u {
			return o
		}
	}
	return 999
}

var ctx = context.Background()

// service is one lock service under test with a logical clock.
type service interface {
	locker() sop.L2Cache
	keyName(k int) string // unformatted key name (FormatLockKey is applied by CreateLockKeysForIDs)
	dump() []ent          // lock table, sorted by key
	tick(n int)
	dur(kind string, d int) time.Duration
	now() int64
	shardOf(k int) int
	close()
}

// ---- in-memory

const imUnit = time.Hour

type imSvc struct {
	c      sop.L2Cache
	ns     int
	t0     time.Time
	ticks  int64
	names  map[int]string
	byName map[string]int
	oldCap int
}

var physShards = []int{7, 77, 177, 200, 31, 250}

func newIm(cap, ns int) *imSvc {
	s := &imSvc{ns: ns, names: map[int]string{}, byName: map[string]int{}, oldCap: cache.DefaultInMemoryCacheShardCapacity}
	cache.DefaultInMemoryCacheShardCapacity = cap
	s.c = cache.NewL2InMemoryCache()
	cache.DefaultInMemoryCacheShardCapacity = s.oldCap
	s.t0 = time.Now()
	return s
}
func (s *imSvc) locker() sop.L2Cache { return s.c }
func (s *imSvc) close()              {}
func (s *imSvc) now() int64          { return s.ticks }
func (s *imSvc) keyName(k int) string {
	if n, ok := s.names[k]; ok {
		return n
	}
	name := fmt.Sprintf("k%03d", k)
	if s.ns > 0 {
		want := physShards[(k%s.ns)%len(physShards)]
		for salt := 0; ; salt++ {
			name = fmt.Sprintf("k%03d_%d", k, salt)
			if cache.VerifLockShardIndex(s.c, s.c.FormatLockKey(name)) == want {
				break
			}
		}
	}
	s.names[k] = name
	s.byName[s.c.FormatLockKey(name)] = k
	return name
}
func (s *imSvc) shardOf(k int) int {
	return cache.VerifLockShardIndex(s.c, s.c.FormatLockKey(s.keyName(k)))
}

// The cache reads time.Now() directly; logical time is realised by moving every
// stored expiry into the past (hook VerifShiftLockExpirations).  A duration of d
// ticks is d hours + 30 min so that "expired" is decided by whole ticks and never
// by the few microseconds of real time a script takes; d = 0 reaches the code as 0
// (Lock's default of 15 min = "expires with the next tick" = logical default TTL 0).
func (s *imSvc) dur(kind string, d int) time.Duration {
	if d == 0 {
		return 0
	}
	return time.Duration(d)*imUnit + imUnit/2
}
func (s *imSvc) tick(n int) {
	cache.VerifShiftLockExpirations(s.c, time.Duration(n)*imUnit)
	s.ticks += int64(n)
}
func floorDiv(a, b int64) int64 {
	q := a / b
	if a%b != 0 && (a < 0) != (b < 0) {
		q--
	}
	return q
}
func (s *imSvc) dump() []ent {
	var out []ent
	for _, e := range cache.VerifLockTable(s.c) {
		k, ok := s.byName[e.Key]
		if !ok {
			k = 9999
		}
		le := floorDiv(int64(e.Expiration.Sub(s.t0)), int64(imUnit)) + s.ticks
		out = append(out, ent{k, ownerOf(e.LockID), le})
	}
	sort.Slice(out, func(i, j int) bool { return out[i].K < out[j].K })
	return out
}

// ---- redis adapter over the RESP stand-in

const rdUnitMs = 500
const rdBaseMs = 1_000_000

var (
	rdSrv    *respsrv.Server
	rdClient sop.CloseableCache
)

func rdEnsure() error {
	if rdSrv != nil {
		return nil
	}
	srv, err := respsrv.Start("127.0.0.1:0")
	if err != nil {
		return err
	}
	rdSrv = srv
	rdClient = sopredis.NewConnectionClient(sopredis.Options{Address: srv.Addr(), MaxRetries: -1})
	return nil
}

type rdSvc struct {
	ticks int64
	names map[string]int
}

func newRd() *rdSvc {
	rdSrv.FlushAll()
	rdSrv.SetNowMs(rdBaseMs)
	return &rdSvc{names: map[string]int{}}
}
func (s *rdSvc) locker() sop.L2Cache { return rdClient }
func (s *rdSvc) close()              {}
func (s *rdSvc) now() int64          { return s.ticks }
func (s *rdSvc) shardOf(k int) int   { return 0 }
func (s *rdSvc) keyName(k int) string {
	n := fmt.Sprintf("k%03d", k)
	s.names[rdClient.FormatLockKey(n)] = k
	return n
}
func (s *rdSvc) dur(kind string, d int) time.Duration {
	return time.Duration(d) * rdUnitMs * time.Millisecond
}
func (s *rdSvc) tick(n int) {
	rdSrv.Advance(time.Duration(n) * rdUnitMs * time.Millisecond)
	s.ticks += int64(n)
}
func (s *rdSvc) dump() []ent {
	var out []ent
	for _, e := range rdSrv.Dump() {
		k, ok := s.names[e.Key]
		if !ok {
			k = 9999
		}
		id, err := sop.ParseUUID(e.Value)
		o := 999
		if err == nil {
			o = ownerOf(id)
		}
		le := int64(-1)
		if e.ExpireAtMs >= 0 {
			le = (e.ExpireAtMs - rdBaseMs) / rdUnitMs
			if (e.ExpireAtMs-rdBaseMs)%rdUnitMs != 0 {
				le = -7 // never produced by the scripts; shows up as a mismatch
			}
		}
		out = append(out, ent{k, o, le})
	}
	sort.Slice(out, func(i, j int) bool { return out[i].K < out[j].K })
	return out
}

// ---------------------------------------------------------------- running one script

type stepRec struct {
	ok    bool
	other int
	post  []ent
	flags [][2]int
}

type runner struct {
	sc   Script
	svc  service
	lks  map[[2]int]*sop.LockKey // one LockKey object per (owner,key), reused across calls like a transaction does
	bel  map[[2]int]int64        // oracle: (owner,key) -> recorded expiry at the last true answer (-1 = no TTL)
	res  *hx.Result
	keys map[int]bool
}

func (r *runner) lockKeys(o int, ks []int) []*sop.LockKey {
	out := make([]*sop.LockKey, len(ks))
	for i, k := range ks {
		id := [2]int{o, k}
		lk, ok := r.lks[id]
		if !ok {
			lk = r.svc.locker().CreateLockKeysForIDs([]sop.Tuple[string, sop.UUID]{{First: r.svc.keyName(k), Second: ownerID(o)}})[0]
			r.lks[id] = lk
		}
		r.keys[k] = true
		out[i] = lk
	}
	return out
}

func (r *runner) flags() [][2]int {
	var out [][2]int
	for id, lk := range r.lks {
		if lk.IsLockOwner {
			out = append(out, id)
		}
	}
	sort.Slice(out, func(i, j int) bool {
		if out[i][0] != out[j][0] {
			return out[i][0] < out[j][0]
		}
		return out[i][1] < out[j][1]
	})
	return out
}

func lookupEnt(t []ent, k int) (ent, bool) {
	for _, e := range t {
		if e.K == k {
			return e, true
		}
	}
	return ent{}, false
}

func liveAt(e ent, now int64) bool { return e.E < 0 || e.E >= now }

type failure struct{ sig, what string }

var failCount = map[string]int{}

func (r *runner) fail(sig, what string) {
	failCount[sig]++
	r.res.Count("oracle." + sig)
	if failCount[sig] <= 3 { // keep result.json small; every further hit is counted in the distribution
		r.res.Fail(sig, what, r.sc)
	}
}

// exec runs one command on the implementation and evaluates the direct oracle.
func (r *runner) exec(i int, op Op) (rec stepRec, err error) {
	L := r.svc.locker()
	pre := r.svc.dump()
	preFlags := map[[2]int]bool{}
	for _, f := range r.flags() {
		preFlags[f] = true
	}
	rec.other = -1
	var e error
	switch op.Kind {
	case "lock":
		var u sop.UUID
		rec.ok, u, e = L.Lock(ctx, r.svc.dur(op.Kind, op.D), r.lockKeys(op.O, op.Ks))
		rec.other = ownerOf(u)
	case "dual":
		var u sop.UUID
		rec.ok, u, e = L.DualLock(ctx, r.svc.dur(op.Kind, op.D), r.lockKeys(op.O, op.Ks))
		rec.other = ownerOf(u)
	case "islocked":
		rec.ok, e = L.IsLocked(ctx, r.lockKeys(op.O, op.Ks))
	case "ttl":
		rec.ok, e = L.IsLockedTTL(ctx, r.svc.dur(op.Kind, op.D), r.lockKeys(op.O, op.Ks))
	case "others":
		names := make([]string, len(op.Ks))
		for j, k := range op.Ks {
			names[j] = L.FormatLockKey(r.svc.keyName(k))
			r.keys[k] = true
		}
		rec.ok, e = L.IsLockedByOthers(ctx, names)
	case "unlock":
		e = L.Unlock(ctx, r.lockKeys(op.O, op.Ks))
		rec.ok = true
	case "tick":
		r.svc.tick(op.N)
		rec.ok = true
	default:
		return rec, fmt.Errorf("bad op %q", op.Kind)
	}
	if e != nil {
		return rec, fmt.Errorf("step %d %s: service error: %v", i, op.Kind, e)
	}
	rec.post = r.svc.dump()
	rec.flags = r.flags()
	r.oracle(i, op, pre, preFlags, rec)
	return rec, nil
}

func inInts(k int, ks []int) bool {
	for _, x := range ks {
		if x == k {
			return true
		}
	}
	return false
}

// oracle: who believes to hold what, checked against the lock table after every command.
func (r *runner) oracle(i int, op Op, pre []ent, preFlags map[[2]int]bool, rec stepRec) {
	now := r.svc.now()
	preNow := now
	if op.Kind == "tick" {
		preNow = now - int64(op.N)
	}
	svc := r.sc.Svc
	post := rec.post
	crowded := func(k int) bool { // more distinct keys of k's shard around than the shard can hold
		if svc != "im" {
			return false
		}
		sh := r.svc.shardOf(k)
		seen := map[int]bool{}
		for _, e := range pre {
			if e.K != 9999 && r.svc.shardOf(e.K) == sh {
				seen[e.K] = true
			}
		}
		for _, x := range op.Ks {
			if r.svc.shardOf(x) == sh {
				seen[x] = true
			}
		}
		return len(seen) > r.sc.Cap
	}
	// (1) a live entry of owner o1 disappeared or changed hands / lost TTL in this command
	for _, pe := range pre {
		if op.Kind == "tick" || !liveAt(pe, preNow) { // expiry by the clock is not a loss
			continue
		}
		qe, ok := lookupEnt(post, pe.K)
		gone := !ok || qe.O != pe.O
		shortened := ok && qe.O == pe.O && pe.E != qe.E && (pe.E < 0 || (qe.E >= 0 && qe.E < pe.E))
		actor := op.O
		switch {
		case gone && op.Kind == "unlock" && actor == pe.O && inInts(pe.K, op.Ks):
			// the owner's own release
		case gone && op.Kind == "unlock":
			if svc == "rd" && preFlags[[2]int{actor, pe.K}] && inInts(pe.K, op.Ks) {
				r.fail("redis-unlock-deletes-foreign-lock", fmt.Sprintf("step %d: Unlock by owner %d (stale IsLockOwner flag) deleted key %d held by owner %d until %d (now %d)", i, actor, pe.K, pe.O, pe.E, now))
			} else {
				r.fail("foreign-release:"+svc, fmt.Sprintf("step %d: Unlock by owner %d removed key %d held by owner %d", i, actor, pe.K, pe.O))
			}
			delete(r.bel, [2]int{pe.O, pe.K})
		case gone && (op.Kind == "lock" || op.Kind == "dual") && svc == "im" && crowded(pe.K):
			r.fail("inmem-live-lock-evicted", fmt.Sprintf("step %d: %s by owner %d on %v evicted the unexpired lock on key %d of owner %d (expiry %d, now %d, shard capacity %d)", i, op.Kind, actor, op.Ks, pe.K, pe.O, pe.E, now, r.sc.Cap))
			delete(r.bel, [2]int{pe.O, pe.K})
		case gone:
			r.fail("live-lock-lost:"+svc+":"+op.Kind, fmt.Sprintf("step %d: %s by owner %d made the live lock on key %d of owner %d disappear", i, op.Kind, actor, pe.K, pe.O))
			delete(r.bel, [2]int{pe.O, pe.K})
		case shortened && actor != pe.O && op.Kind == "ttl" && svc == "rd":
			r.fail("redis-islockedttl-shortens-foreign-ttl", fmt.Sprintf("step %d: IsLockedTTL(d=%d) by owner %d (answer %v) cut the TTL of key %d held by owner %d from %d to %d", i, op.D, actor, rec.ok, pe.K, pe.O, pe.E, qe.E))
			delete(r.bel, [2]int{pe.O, pe.K})
		case shortened && actor != pe.O:
			r.fail("foreign-ttl-change:"+svc+":"+op.Kind, fmt.Sprintf("step %d: %s by owner %d shortened the TTL of key %d held by owner %d", i, op.Kind, actor, pe.K, pe.O))
			delete(r.bel, [2]int{pe.O, pe.K})
		}
	}
	// (2) update what the caller was told
	switch op.Kind {
	case "lock", "dual", "islocked", "ttl":
		for _, k := range op.Ks {
			id := [2]int{op.O, k}
			if !rec.ok {
				delete(r.bel, id)
				continue
			}
			if qe, ok := lookupEnt(post, k); ok && qe.O == op.O && liveAt(qe, now) {
				r.bel[id] = qe.E
			} else {
				// answered true without holding the key
				if svc == "im" && (op.Kind == "lock") && crowded(k) {
					r.fail("inmem-live-lock-evicted", fmt.Sprintf("step %d: Lock by owner %d on %v answered true but key %d is not held (evicted by a later key of the same call, shard capacity %d)", i, op.O, op.Ks, k, r.sc.Cap))
				} else {
					r.fail("true-answer-without-lock:"+svc+":"+op.Kind, fmt.Sprintf("step %d: %s by owner %d on %v answered true but key %d is not held by it", i, op.Kind, op.O, op.Ks, k))
				}
				delete(r.bel, id)
			}
		}
	case "unlock":
		for _, k := range op.Ks {
			delete(r.bel, [2]int{op.O, k})
		}
	}
	// (3) every believer within its TTL is the holder; hence never two believers
	byKey := map[int][]int{}
	var ids [][2]int
	for id := range r.bel {
		ids = append(ids, id)
	}
	sort.Slice(ids, func(a, b int) bool {
		if ids[a][1] != ids[b][1] {
			return ids[a][1] < ids[b][1]
		}
		return ids[a][0] < ids[b][0]
	})
	for _, id := range ids {
		e := r.bel[id]
		if e >= 0 && e < now {
			continue
		}
		byKey[id[1]] = append(byKey[id[1]], id[0])
		qe, ok := lookupEnt(post, id[1])
		if !ok || qe.O != id[0] || !liveAt(qe, now) {
			r.fail("believer-not-holder:"+svc, fmt.Sprintf("step %d (%s): owner %d was told it holds key %d until %d (now %d) but the table says %+v present=%v", i, op.Kind, id[0], id[1], e, now, qe, ok))
			delete(r.bel, id)
		}
	}
	for k, os := range byKey {
		if len(os) > 1 {
			r.fail("two-believers:"+svc, fmt.Sprintf("step %d (%s): owners %v all believe to hold key %d at time %d", i, op.Kind, os, k, now))
		}
	}
}

func contended(sc Script) bool {
	who := map[int]map[int]bool{}
	for _, op := range sc.Ops {
		if op.Kind == "lock" || op.Kind == "dual" {
			for _, k := range op.Ks {
				if who[k] == nil {
					who[k] = map[int]bool{}
				}
				who[k][op.O] = true
			}
		}
	}
	for _, m := range who {
		if len(m) > 1 {
			return true
		}
	}
	return false
}

func runScript(res *hx.Result, sc Script) error {
	var svc service
	switch sc.Svc {
	case "im":
		if sc.Cap <= 0 {
			sc.Cap = 1000
		}
		svc = newIm(sc.Cap, sc.NS)
	case "rd":
		if err := rdEnsure(); err != nil {
			return err
		}
		svc = newRd()
	default:
		return fmt.Errorf("bad service %q", sc.Svc)
	}
	defer svc.close()
	r := &runner{sc: sc, svc: svc, lks: map[[2]int]*sop.LockKey{}, bel: map[[2]int]int64{}, res: res, keys: map[int]bool{}}
	var steps []string
	for i, op := range sc.Ops {
		rec, err := r.exec(i, op)
		if err != nil {
			res.Fail("service-error:"+sc.Svc, err.Error(), sc)
			break
		}
		res.Count(sc.Svc + "." + op.Kind)
		if op.Kind != "tick" && op.Kind != "unlock" {
			res.Count(fmt.Sprintf("%s.%s.%v", sc.Svc, op.Kind, rec.ok))
		}
		if sc.Svc == "im" {
			steps = append(steps, fmt.Sprintf("IS (%s) %s %s", op.coq(), coqResp(rec.ok, rec.other), coqTable(rec.post)))
		} else {
			fl := make([]string, len(rec.flags))
			for j, f := range rec.flags {
				fl[j] = fmt.Sprintf("%d;%d", f[0], f[1])
			}
			steps = append(steps, fmt.Sprintf("RS (%s) %s %s [%s]", op.coq(), coqResp(rec.ok, rec.other), coqTable(rec.post), strings.Join(fl, ";")))
		}
	}
	js, _ := json.Marshal(sc)
	res.Seen(string(js), contended(sc))
	res.Sample(sc)
	if sc.Svc == "im" {
		// shard index of every key 0..max as the implementation hashes it
		maxK := 0
		for k := range r.keys {
			if k > maxK {
				maxK = k
			}
		}
		sh := make([]string, maxK+1)
		for k := 0; k <= maxK; k++ {
			sh[k] = fmt.Sprint(svc.shardOf(k))
		}
		res.Count(fmt.Sprintf("im.cap=%d", sc.Cap))
		res.AddCase(fmt.Sprintf("ImScript %s [%s] 0 [\n  %s]", hx.CoqNat(sc.Cap), strings.Join(sh, ";"), strings.Join(steps, ";\n  ")), sc)
	} else {
		res.AddCase(fmt.Sprintf("RdScript [\n  %s]", strings.Join(steps, ";\n  ")), sc)
	}
	return nil
}

// ---------------------------------------------------------------- corpus and generators

func lk(o, d int, ks ...int) Op { return Op{Kind: "lock", O: o, D: d, Ks: ks} }
func dl(o, d int, ks ...int) Op { return Op{Kind: "dual", O: o, D: d, Ks: ks} }
func il(o int, ks ...int) Op    { return Op{Kind: "islocked", O: o, Ks: ks} }
func tt(o, d int, ks ...int) Op { return Op{Kind: "ttl", O: o, D: d, Ks: ks} }
func ot(ks ...int) Op           { return Op{Kind: "others", Ks: ks} }
func ul(o int, ks ...int) Op    { return Op{Kind: "unlock", O: o, Ks: ks} }
func tk(n int) Op               { return Op{Kind: "tick", N: n} }
func both(name string, ops ...Op) []Script {
	return []Script{{Name: name, Svc: "im", Cap: 1000, NS: 1, Ops: ops}, {Name: name, Svc: "rd", Ops: ops}}
}

func corpus() []Script {
	var cs []Script
	// former finding S7 (a full shard evicted an unexpired lock), repaired in the code: these
	// scripts must now run clean (the shard grows instead) and stay here as regression cases
	cs = append(cs,
		Script{Name: "S7 full shard must not evict a live lock", Svc: "im", Cap: 1, NS: 1, Ops: []Op{lk(1, 10, 0), il(1, 0), lk(2, 10, 1), il(1, 0), lk(2, 10, 0), il(2, 0), il(1, 0)}},
		Script{Name: "S7 no self eviction inside one Lock", Svc: "im", Cap: 1, NS: 1, Ops: []Op{lk(1, 10, 0, 1), il(1, 0), il(1, 0, 1), dl(1, 10, 2, 3), il(1, 0, 1, 2, 3)}},
		Script{Name: "S7 capacity 3", Svc: "im", Cap: 3, NS: 1, Ops: []Op{lk(1, 10, 0), lk(2, 20, 1), lk(3, 30, 2), lk(2, 5, 3), lk(3, 5, 0), il(1, 0)}},
		Script{Name: "full shard: expired entries are evicted one by one, held ones never", Svc: "im", Cap: 2, NS: 1, Ops: []Op{lk(1, 1, 0), lk(2, 2, 1), tk(2), lk(3, 9, 2), il(2, 1), tk(1), lk(3, 9, 3), lk(1, 9, 4), lk(2, 9, 1), tk(20), lk(1, 3, 5), lk(1, 3, 6)}},
		Script{Name: "full shard above the sample size", Svc: "im", Cap: 6, NS: 1, Ops: []Op{lk(1, 1, 0), lk(1, 2, 1), lk(1, 3, 2), lk(2, 9, 3), lk(2, 9, 4), lk(2, 9, 5), tk(4), lk(3, 9, 6), lk(3, 9, 7), lk(3, 9, 8), lk(3, 9, 9), il(2, 3, 4, 5)}},
	)
	// known findings, hit on every run
	cs = append(cs,
		Script{Name: "R1 unlock after own expiry", Svc: "rd", Ops: []Op{lk(1, 2, 0), tk(3), lk(2, 10, 0), ul(1, 0), il(2, 0), lk(3, 10, 0)}},
		Script{Name: "R1 second unlock with a stale flag", Svc: "rd", Ops: []Op{lk(1, 10, 0), ul(1, 0), lk(2, 10, 0), ul(1, 0), il(2, 0)}},
		Script{Name: "R2 IsLockedTTL by a non-owner shortens the TTL", Svc: "rd", Ops: []Op{lk(1, 2, 0), tk(3), lk(2, 100, 0), tt(1, 1, 0), il(2, 0), tk(2), lk(3, 5, 0)}},
	)
	// the same patterns where they must be harmless
	cs = append(cs,
		Script{Name: "eviction pattern, default capacity", Svc: "im", Cap: 1000, NS: 1, Ops: []Op{lk(1, 10, 0), lk(2, 10, 1), il(1, 0), lk(2, 10, 0), il(1, 0)}},
		Script{Name: "eviction of an expired entry only", Svc: "im", Cap: 1, NS: 1, Ops: []Op{lk(1, 2, 0), tk(3), lk(2, 10, 1), il(1, 0), il(2, 1), lk(1, 3, 0)}},
		Script{Name: "unlock after own expiry, in-memory is owner checked", Svc: "im", Cap: 1000, NS: 1, Ops: []Op{lk(1, 2, 0), tk(3), lk(2, 10, 0), ul(1, 0), il(2, 0), lk(3, 10, 0)}},
		Script{Name: "IsLockedTTL by a non-owner, in-memory is owner checked", Svc: "im", Cap: 1000, NS: 1, Ops: []Op{lk(1, 2, 0), tk(3), lk(2, 100, 0), tt(1, 1, 0), il(2, 0), tk(2), lk(3, 5, 0)}},
		Script{Name: "natural hashing", Svc: "im", Cap: 2, NS: 0, Ops: []Op{lk(1, 10, 0, 1, 2, 3), lk(2, 10, 4, 5, 6, 7), il(1, 0, 1, 2, 3), ul(1, 0, 1), il(1, 2, 3)}},
	)
	// edge grid for both services
	cs = append(cs, both("re-entry keeps the old TTL", lk(1, 5, 0), tk(4), lk(1, 5, 0), tk(2), il(1, 0), lk(2, 5, 0))...)
	cs = append(cs, both("expiry boundary is strict", lk(1, 3, 0), tk(3), il(1, 0), lk(2, 3, 0), tk(1), il(1, 0), lk(2, 3, 0))...)
	cs = append(cs, both("partial failure and rollback", lk(2, 9, 2), lk(1, 9, 0, 1, 2, 3), il(1, 0), il(1, 1), il(1, 3), lk(3, 9, 0, 1), ul(1, 0, 1, 2, 3), lk(3, 9, 0, 1))...)
	cs = append(cs, both("dual lock, others, ttl refresh", dl(1, 4, 0, 1), ot(0), ot(2), ot(0, 2), tt(1, 9, 0, 1), tk(6), il(1, 0, 1), tt(2, 3, 0), dl(2, 4, 1), ul(1, 0, 1), dl(2, 4, 1, 0))...)
	cs = append(cs, both("duplicates, empty sets, zero duration", lk(1, 0, 0, 0), il(1), tt(1, 2), ot(), ul(1), lk(2, 0, 0), tk(1), lk(2, 3, 0, 0), lk(1, 0))...)
	cs = append(cs, both("refresh can shorten the own TTL", lk(1, 10, 0), tt(1, 1, 0), tk(2), lk(2, 5, 0), il(1, 0))...)
	cs = append(cs, both("unsorted keys, reported owner", lk(2, 9, 1), lk(3, 9, 3), lk(1, 9, 3, 1, 0), lk(1, 9, 0, 3), lk(1, 9, 1))...)
	return cs
}

type genCfg struct {
	svc     string
	owners  int
	nkeys   int
	steps   int
	polite  bool // owners unlock / refresh only what they were last told they hold
	cap, ns int
}

func genScript(r *hx.Rng, g genCfg) Script {
	sc := Script{Svc: g.svc, Cap: g.cap, NS: g.ns}
	durs := []int{1, 1, 2, 3, 5, 8, 20}
	pickKeys := func() []int {
		n := 1 + r.Intn(3)
		if r.Chance(10) {
			n = 4
		}
		ks := make([]int, 0, n)
		for j := 0; j < n; j++ {
			ks = append(ks, r.Intn(g.nkeys))
		}
		return ks
	}
	lastKeys := map[int][]int{} // polite mode: what each owner locked last (answer unknown to the generator)
	for i := 0; i < g.steps; i++ {
		o := 1 + r.Intn(g.owners)
		d := hx.Pick(r, durs)
		if g.svc == "rd" || r.Chance(50) {
			if r.Chance(6) {
				d = 0
			}
		}
		switch x := r.Intn(100); {
		case x < 34:
			ks := pickKeys()
			lastKeys[o] = ks
			sc.Ops = append(sc.Ops, lk(o, d, ks...))
		case x < 44:
			ks := pickKeys()
			lastKeys[o] = ks
			sc.Ops = append(sc.Ops, dl(o, d, ks...))
		case x < 56:
			ks := pickKeys()
			if len(lastKeys[o]) > 0 && r.Chance(70) {
				ks = lastKeys[o]
			}
			sc.Ops = append(sc.Ops, il(o, ks...))
		case x < 64:
			ks := pickKeys()
			if g.polite || r.Chance(50) {
				ks = lastKeys[o]
				if len(ks) == 0 {
					continue
				}
			}
			dd := d
			if g.svc == "im" && dd == 0 {
				dd = 1 // in-memory IsLockedTTL(0) stores "now" as the expiry: below the resolution of the logical clock
			}
			sc.Ops = append(sc.Ops, tt(o, dd, ks...))
		case x < 68:
			sc.Ops = append(sc.Ops, ot(pickKeys()...))
		case x < 84:
			ks := pickKeys()
			if g.polite || r.Chance(60) {
				ks = lastKeys[o]
				if len(ks) == 0 {
					continue
				}
				lastKeys[o] = nil
			}
			sc.Ops = append(sc.Ops, ul(o, ks...))
		default:
			sc.Ops = append(sc.Ops, tk(hx.Pick(r, []int{1, 1, 2, 3, 6, 9})))
		}
	}
	return sc
}

// ---------------------------------------------------------------- concurrent stress (beyond the atomic-command hypothesis)

// stress runs real goroutines against one service with a capacity that never
// evicts and a TTL that never expires, and checks mutual exclusion per key with
// an atomic counter: after Lock answered true for a key set nobody else may be
// inside any of those keys.
func stress(res *hx.Result, svcName string, workers, rounds, nkeys int, seed uint64) {
	var L sop.L2Cache
	if svcName == "im" {
		L = cache.NewL2InMemoryCache()
	} else {
		if err := rdEnsure(); err != nil {
			res.Fail("service-error:rd", err.Error(), nil)
			return
		}
		rdSrv.FlushAll()
		L = rdClient
	}
	inside := make([]int32, nkeys)
	var bad atomic.Int64
	var acquired atomic.Int64
	var wg sync.WaitGroup
	var first sync.Once
	var firstMsg string
	for w := 0; w < workers; w++ {
		wg.Add(1)
		go func(w int) {
			defer wg.Done()
			r := hx.NewRng(seed*1000 + uint64(w))
			id := ownerID(w + 1)
			for i := 0; i < rounds; i++ {
				n := 1 + r.Intn(2)
				seen := map[int]bool{}
				var tuples []sop.Tuple[string, sop.UUID]
				var ks []int
				for j := 0; j < n; j++ {
					k := r.Intn(nkeys)
					if seen[k] {
						continue
					}
					seen[k] = true
					ks = append(ks, k)
					tuples = append(tuples, sop.Tuple[string, sop.UUID]{First: fmt.Sprintf("s%03d", k), Second: id})
				}
				lks := L.CreateLockKeysForIDs(tuples)
				var ok bool
				var err error
				if r.Bool() {
					ok, _, err = L.Lock(ctx, time.Hour, lks)
				} else {
					ok, _, err = L.DualLock(ctx, time.Hour, lks)
				}
				if err != nil {
					bad.Add(1)
					first.Do(func() { firstMsg = "service error: " + err.Error() })
					return
				}
				if ok {
					acquired.Add(1)
					for _, k := range ks {
						if atomic.AddInt32(&inside[k], 1) != 1 {
							bad.Add(1)
							first.Do(func() { firstMsg = fmt.Sprintf("worker %d entered key %d while another worker was inside", w, k) })
						}
					}
					runtime.Gosched() // stay inside for a moment so that others really contend
					if okl, _ := L.IsLocked(ctx, lks); !okl {
						bad.Add(1)
						first.Do(func() { firstMsg = fmt.Sprintf("worker %d: IsLocked false right after a successful lock of %v", w, ks) })
					}
					for _, k := range ks {
						atomic.AddInt32(&inside[k], -1)
					}
				}
				// the code's contract after a failed Lock is to release what it may have taken
				if err := L.Unlock(ctx, lks); err != nil {
					bad.Add(1)
				}
			}
		}(w)
	}
	wg.Wait()
	res.Seen(fmt.Sprintf("stress:%s:%d:%d:%d:%d", svcName, workers, rounds, nkeys, seed), true)
	res.Distribution["stress."+svcName+".acquired"] += int(acquired.Load())
	res.Distribution["stress."+svcName+".attempts"] += workers * rounds
	if bad.Load() > 0 {
		res.Fail("concurrent-mutex:"+svcName, fmt.Sprintf("%d violations under real concurrency; first: %s", bad.Load(), firstMsg),
			map[string]any{"stress": svcName, "workers": workers, "rounds": rounds, "nkeys": nkeys, "seed": seed})
	}
}

// ---------------------------------------------------------------- entry

func runC28(cfg *hx.RunCfg) (*hx.Result, error) {
	res := hx.NewResult("C28")
	res.Imports = []string{"Lib.Bytes", "Locks", "Corr.C28"}
	res.CaseType = "c28case"
	res.Checker = "c28_check"
	res.Rule = "one evaluation = one scripted interleaving (8-24 commands Lock/DualLock/IsLocked/IsLockedTTL/IsLockedByOthers/Unlock/Tick by 2-4 owners over 2-7 overlapping keys) run against the in-memory cache (shard capacity 1-8 or default, keys forced into 1-3 shards) or the Redis adapter over the RESP stand-in, plus goroutine stress runs; distinct = distinct script; non-trivial = at least two owners try to lock the same key"
	defer func() {
		if rdClient != nil {
			rdClient.Close()
		}
		if rdSrv != nil {
			rdSrv.Close()
		}
	}()
	if cfg.Replay != "" {
		raw, err := os.ReadFile(cfg.Replay)
		if err != nil {
			return nil, err
		}
		var rp struct {
			Input json.RawMessage `json:"input"`
		}
		if err := json.Unmarshal(raw, &rp); err != nil {
			return nil, err
		}
		var st struct {
			Stress  string `json:"stress"`
			Workers int    `json:"workers"`
			Rounds  int    `json:"rounds"`
			NKeys   int    `json:"nkeys"`
			Seed    uint64 `json:"seed"`
		}
		if json.Unmarshal(rp.Input, &st) == nil && st.Stress != "" {
			stress(res, st.Stress, st.Workers, st.Rounds, st.NKeys, st.Seed)
			return res, nil
		}
		var sc Script
		if err := json.Unmarshal(rp.Input, &sc); err != nil {
			return nil, err
		}
		return res, runScript(res, sc)
	}
	n := cfg.N
	if n == 0 {
		n = 700
		if cfg.Tier == "thorough" {
			n = 12000
		}
	}
	for _, sc := range corpus() {
		if err := runScript(res, sc); err != nil {
			return nil, err
		}
	}
	r := hx.NewRng(cfg.Seed)
	for i := 0; i < n; i++ {
		g := genCfg{owners: 2 + r.Intn(3), nkeys: 2 + r.Intn(6), steps: 8 + r.Intn(17), polite: r.Chance(50)}
		if r.Chance(45) {
			g.svc = "rd"
		} else {
			g.svc = "im"
			g.ns = 1 + r.Intn(3)
			switch x := r.Intn(10); {
			case x < 6:
				g.cap = 1 + r.Intn(4)
			case x < 8:
				g.cap = 5 + r.Intn(4) // above the eviction sample size when the shard is full
				g.nkeys = 7 + r.Intn(6)
				g.ns = 1
			default:
				g.cap = 1000
			}
			if r.Chance(8) {
				g.ns = 0
			}
		}
		if err := runScript(res, genScript(r, g)); err != nil {
			return nil, err
		}
	}
	rounds := 300
	if cfg.Tier == "thorough" {
		rounds = 4000
	}
	stress(res, "im", 8, rounds, 3, cfg.Seed)
	stress(res, "rd", 6, rounds/3, 3, cfg.Seed)
	return res, nil
}

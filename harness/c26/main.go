package main

import (
	"encoding/json"
	"fmt"
	"os"
	"runtime"

	"verif/harness/c25/ecx"
	"verif/harness/hx"
)

// C26: with RepairCorruptedShards on, a successful read of a blob with damaged shards rewrites them; afterwards
// every shard file is intact, so the blob tolerates p new failures.
// Every damage pattern within parity on real shard files; after the repairing read every shard file is
// byte-compared with a fresh encode; then p new failures are applied and the blob is read again.

func main() { hx.Main("c26", runC26) }

func className(c int) string { return []string{"ok-equal", "ok-different", "error", "panic"}[c] }

// second damage: p shards chosen by rotation r, kinds alternating missing / flipdata / short file
func secondDamage(n, p, r int) []ecx.Dmg {
	out := make([]ecx.Dmg, n)
	for i := range out {
		out[i] = ecx.Dmg{K: "good"}
	}
	kinds := []ecx.Dmg{{K: "missing"}, {K: "flipdata"}, {K: "trunc", N: 5}}
	for k := 0; k < p; k++ {
		out[(r+k*(1+r%2))%n] = kinds[(r+k)%len(kinds)]
	}
	return out
}

func metadataOnly(g ecx.Dmg) bool { return g.K == "flipsum" || g.K == "flippad" }

func record(res *hx.Result, c ecx.Case, o ecx.Outcome) {
	js, _ := json.Marshal(c)
	if o.Skipped {
		res.Count("skipped.short-file-after-repeated-process-death")
		return
	}
	all, data := ecx.Damaged(c.Dmg)
	res.Seen(string(js), all > 0)
	res.Count(fmt.Sprintf("repair.(%d,%d)", c.D, c.P))
	res.Count("first-read." + className(o.Class))
	for _, g := range c.Dmg {
		if g.K != "good" {
			res.Count("kind." + g.K)
		}
	}
	desc := fmt.Sprintf("d=%d p=%d size=%d damage=%v: repairing read -> %s %s", c.D, c.P, c.Size, c.Dmg, className(o.Class), o.Msg)
	post := "[]"
	if o.Class == ecx.OkEqual {
		post = ecx.CoqBools(o.Post)
		res.Count("second-read." + className(o.Class2))
		// what remains damaged after the repairing read
		var left []int
		onlyMeta := true
		for i, ok := range o.Post {
			if !ok {
				left = append(left, i)
				if !metadataOnly(c.Dmg[i]) {
					onlyMeta = false
				}
			}
		}
		desc += fmt.Sprintf("; shards still not intact afterwards: %v; after new damage %v the read -> %s %s", left, c.Dmg2, className(o.Class2), o.Msg2)
		if all <= c.P {
			switch {
			case len(left) > 0 && onlyMeta:
				// damage confined to the metadata never makes Verify fail, so it is neither noticed nor repaired
				res.Fail("repair-skips-metadata-only-damage", desc, c)
			case len(left) > 0:
				res.Fail("repair-incomplete", desc, c)
			case o.Class2 != ecx.OkEqual:
				res.Fail("post-repair-read:"+className(o.Class2), desc, c)
			}
		}
		if data > 0 {
			res.Count("repair.had-data-damage")
		}
	} else if o.Class == ecx.Panic {
		res.Fail("panic", desc, c)
	} else if all <= c.P && !ecx.FirstReadablePadFlipped(c, c.Dmg) {
		// a read within parity that fails is C25's business; it is reported here too because no repair can happen
		res.Fail("read-within-parity-failed", desc, c)
	}
	res.AddCase(fmt.Sprintf("RepairCase %s %s %d %s %d %s %s %d", hx.CoqNat(c.D), hx.CoqNat(c.P), c.Size,
		ecx.CoqDmgs(c.Dmg, ecx.TruePad(c.D, c.Size)), o.Class, post, ecx.CoqDmgs(c.Dmg2, 0), o.Class2), c)
	if all > 0 {
		res.Sample(map[string]any{"case": c, "first": className(o.Class), "post_intact": o.Post, "second": className(o.Class2)})
	}
}

func runC26(cfg *hx.RunCfg) (*hx.Result, error) {
	res := hx.NewResult("C26")
	res.Imports = []string{"Lib.Bytes", "EC", "Corr.C26"}
	res.CaseType = "c26case"
	res.Checker = "c26_check"
	res.Rule = "exhaustive: for each (d,p) and blob size every damage pattern with at most p damaged shard files (all ten kinds) plus a band of patterns with p+1, read with RepairCorruptedShards on in a child process; every shard file then byte-compared with a fresh encode; then p new failures (three rotations of missing / flipped / short) and a second read. distinct = distinct (geometry, size, pattern, second damage); non-trivial = at least one damaged shard"
	work := ecx.WorkRoot(cfg, "ec26")
	defer os.RemoveAll(work)
	workers := runtime.NumCPU()
	if workers > 12 {
		workers = 12
	}
	if cfg.Replay != "" {
		raw, err := os.ReadFile(cfg.Replay)
		if err != nil {
			return nil, err
		}
		var rp struct {
			Input ecx.Case `json:"input"`
		}
		if err := json.Unmarshal(raw, &rp); err != nil {
			return nil, err
		}
		outs, err := ecx.RunAll(work, []ecx.Case{rp.Input}, 1)
		if err != nil {
			return nil, err
		}
		record(res, rp.Input, outs[0])
		return res, nil
	}
	type geom struct {
		d, p  int
		sizes []int
		level int
	}
	gs := []geom{{1, 1, ecx.Sizes(1), 2}, {2, 1, ecx.Sizes(2), 2}, {2, 2, []int{3, 4099}, 2}}
	if cfg.Tier == "thorough" {
		gs = []geom{{1, 1, ecx.Sizes(1), 2}, {2, 1, ecx.Sizes(2), 2}, {2, 2, ecx.Sizes(2), 2}, {3, 2, ecx.Sizes(3), 2}, {4, 2, []int{5, 4099}, 1}}
	}
	g := func(k string) ecx.Dmg { return ecx.Dmg{K: k} }
	// corpus: the open finding, then one mixed pattern that the unpatched code could not read
	cases := []ecx.Case{
		{Op: "repair", D: 2, P: 1, Size: 9, Dmg: []ecx.Dmg{g("flipsum"), g("good"), g("good")}, Dmg2: []ecx.Dmg{g("good"), g("missing"), g("good")}},
		{Op: "repair", D: 2, P: 2, Size: 9, Dmg: []ecx.Dmg{g("missing"), g("flipdata"), g("good"), g("good")}, Dmg2: []ecx.Dmg{g("good"), g("good"), g("missing"), g("flipdata")}},
	}
	for _, ge := range gs {
		n := ge.d + ge.p
		for _, size := range ge.sizes {
			for _, pat := range ecx.Patterns(n, ecx.Kinds(ge.d, size, ge.level), ge.p+1) {
				all, _ := ecx.Damaged(pat)
				if all == ge.p+1 && (len(cases)%5 != 0) { // a band of excess patterns only
					continue
				}
				for r := 0; r < 3; r++ {
					cases = append(cases, ecx.Case{Op: "repair", D: ge.d, P: ge.p, Size: size, Dmg: pat, Dmg2: secondDamage(n, ge.p, r+len(cases)%n)})
				}
			}
		}
	}
	if cfg.N > 0 && cfg.N < len(cases) {
		cases = cases[:cfg.N]
	}
	outs, err := ecx.RunAll(work, cases, workers)
	if err != nil {
		return nil, err
	}
	for i, c := range cases {
		record(res, c, outs[i])
	}
	res.Notes = append(res.Notes, fmt.Sprintf("%d cases executed in child processes with %d workers", len(cases), workers))
	return res, nil
}

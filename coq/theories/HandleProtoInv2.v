(* Proofs about HandleProto, part 3: every step allowed by `strict` preserves the invariant Inv. *)
From Coq Require Import List ZArith NArith Bool Lia PeanoNat.
From SopVerif Require Import Proto ProtoProofs HandleProto HandleProtoProofs HandleProtoInv.
Import ListNotations.
Local Open Scope N_scope.

(* ------------------------------------------------------------------ frames *)

(* what a transaction's part of the invariant needs from the shared state *)
Definition stable (s s' : state) (i : nat) (t : txn) : Prop :=
  t_crashed t = false -> hold_pc (t_pc t) = true -> forall l, In l (upd_lids t) ->
    lock_of (slocks s') l = lock_of (slocks s) l
    /\ (forall h0, lookup (sreg s) l = Some h0 -> exists h0', lookup (sreg s') l = Some h0' /\ ver h0' = ver h0).

Lemma img_hold p : img_pc p = true -> hold_pc p = true.
Proof. destruct p; cbn; intros H; try discriminate; reflexivity. Qed.

Lemma delta_ok_ver k h0 h0' h : ver h0' = ver h0 -> delta_ok k h0 h -> delta_ok k h0' h.
Proof. intros E. destruct k; cbn; intros H; try rewrite E; exact H. Qed.

Lemma txn_ok_frame s s' i t : txn_ok s i t -> stable s s' i t -> txn_ok s' i t.
Proof.
  intros O St. constructor.
  - exact (o_norem _ _ _ O).
  - exact (o_nd _ _ _ O).
  - intros Hc Hh l Hl. rewrite (proj1 (St Hc Hh l Hl)). exact (o_lock _ _ _ O Hc Hh l Hl).
  - intros Hc k h Hin. destruct (o_pend _ _ _ O Hc k h Hin) as (Hk & Hl & h0 & Hlk & Hd).
    split; [exact Hk|]. split; [exact Hl|].
    destruct (proj2 (St Hc (kind_ok_hold _ _ Hk) _ Hl) _ Hlk) as (h0' & Hl' & Hv).
    exists h0'. split; [exact Hl'|]. eapply delta_ok_ver; eassumption.
  - exact (o_pend_nd _ _ _ O).
  - intros Hc Hh c Hin. destruct (o_pres _ _ _ O Hc Hh c Hin) as (Hl & h0 & Hlk).
    split; [exact Hl|]. destruct (proj2 (St Hc Hh _ Hl) _ Hlk) as (h0' & Hl' & _). eauto.
  - intros Hc Hi c h0' Hin Hlk'.
    destruct (o_pres _ _ _ O Hc (img_hold _ Hi) c Hin) as (Hl & h0 & Hlk).
    destruct (proj2 (St Hc (img_hold _ Hi) _ Hl) _ Hlk) as (h1 & Hl1 & Hv).
    rewrite Hl1 in Hlk'. inversion Hlk'; subst h1. rewrite Hv. exact (o_img _ _ _ O Hc Hi c h0 Hin Hlk).
  - exact (o_img_nd _ _ _ O).
  - exact (o_plog _ _ _ O).
  - exact (o_start _ _ _ O).
Qed.

Lemma stable_refl s s' i t : slocks s' = slocks s -> sreg s' = sreg s -> stable s s' i t.
Proof. intros El Er _ _ l _. rewrite El, Er. split; [reflexivity|]. intros h0 H. eauto. Qed.

Lemma get_put_same s i t t' : get_tx s i = Some t -> nth_error (set_nth (stxs s) i t') i = Some t'.
Proof. unfold get_tx. intros H. eapply nth_set_same; exact H. Qed.

(* assembling Inv after a step of transaction i *)
Lemma inv_assemble s s' i t t' :
  Inv s -> get_tx s i = Some t -> stxs s' = set_nth (stxs s) i t' ->
  (forall j tj, j <> i -> get_tx s j = Some tj -> stable s s' j tj) ->
  txn_ok s' i t' ->
  (forall j l v, In (j, l, v) (live_installs (shist s')) -> exists h0, lookup (sreg s') l = Some h0 /\ (v < ver h0)%Z) ->
  hist_ok (shist s') ->
  Inv s'.
Proof.
  intros I Hg Etx Hst Hok Hh Hhk. constructor; [|exact Hh|exact Hhk].
  intros j tj Hj. unfold get_tx in Hj. rewrite Etx in Hj.
  destruct (Nat.eq_dec j i) as [->|Hne].
  - rewrite (get_put_same _ _ _ _ Hg) in Hj. inversion Hj; subst tj. exact Hok.
  - rewrite nth_set_other in Hj by congruence.
    eapply txn_ok_frame; [exact (i_tx _ I _ _ Hj)|exact (Hst _ _ Hne Hj)].
Qed.

(* a step that changes neither the registry, nor the locks, nor the history *)
Lemma inv_local s s' i t t' :
  Inv s -> get_tx s i = Some t -> stxs s' = set_nth (stxs s) i t' ->
  slocks s' = slocks s -> sreg s' = sreg s -> shist s' = shist s ->
  txn_ok s i t' -> Inv s'.
Proof.
  intros I Hg Etx El Er Eh Hok.
  eapply inv_assemble; try eassumption.
  - intros j tj _ _. apply stable_refl; assumption.
  - eapply txn_ok_frame; [exact Hok|apply stable_refl; assumption].
  - rewrite Eh, Er. exact (i_hist _ I).
  - rewrite Eh. exact (i_hok _ I).
Qed.

(* an environment step: no transaction record changes *)
Lemma inv_env s s' :
  Inv s -> stxs s' = stxs s ->
  (forall j tj, get_tx s j = Some tj -> stable s s' j tj) ->
  (forall j l v, In (j, l, v) (live_installs (shist s')) -> exists h0, lookup (sreg s') l = Some h0 /\ (v < ver h0)%Z) ->
  hist_ok (shist s') -> Inv s'.
Proof.
  intros I Etx Hst Hh Hhk. constructor; [|exact Hh|exact Hhk].
  intros j tj Hj. unfold get_tx in Hj. rewrite Etx in Hj.
  eapply txn_ok_frame; [exact (i_tx _ I _ _ Hj)|exact (Hst _ _ Hj)].
Qed.

(* no pending write outside the writing stages *)
Lemma pend_nil_of_pc s i t : txn_ok s i t -> t_crashed t = false -> (forall k, kind_ok (t_pc t) k = false) -> t_pend t = [].
Proof.
  intros O Hc Hk. destruct (t_pend t) as [|[k h] r] eqn:E; [reflexivity|exfalso].
  destruct (o_pend _ _ _ O Hc k h) as (Hk' & _); [rewrite E; left; reflexivity|]. rewrite Hk in Hk'. discriminate.
Qed.

(* two live holders of one node are the same transaction *)
Lemma holder_unique s i j ti tj l : Inv s -> get_tx s i = Some ti -> get_tx s j = Some tj ->
  t_crashed ti = false -> hold_pc (t_pc ti) = true -> In l (upd_lids ti) ->
  t_crashed tj = false -> hold_pc (t_pc tj) = true -> In l (upd_lids tj) -> i = j.
Proof.
  intros I Hi Hj C1 H1 L1 C2 H2 L2.
  pose proof (o_lock _ _ _ (i_tx _ I _ _ Hi) C1 H1 l L1) as E1.
  pose proof (o_lock _ _ _ (i_tx _ I _ _ Hj) C2 H2 l L2) as E2. congruence.
Qed.

(* ------------------------------------------------------------------ facts about the batch computations *)

Lemma claims_spec r u : forall hs, claims r u = Some hs ->
  map lid hs = map (fun x => fst (fst x)) u
  /\ forall h, In h hs -> exists h0, lookup r (lid h) = Some h0 /\ ver h = ver h0.
Proof.
  induction u as [|[[l v] p] u IH]; intros hs H; cbn [claims] in H.
  - inversion H; subst. split; [reflexivity|intros h []].
  - destruct (lookup r l) as [h0|] eqn:El; [|discriminate].
    destruct (claim h0 v p) as [h'|] eqn:Ec; [|discriminate].
    destruct (claims r u) as [hs'|] eqn:Eu; [|discriminate]. inversion H; subst hs. clear H.
    destruct (IH _ eq_refl) as [IH1 IH2].
    destruct (claim_image _ _ _ _ Ec) as (C1 & _ & C3 & C4 & _).
    destruct (lookup_In _ _ _ El) as [_ Hl0].
    split.
    + cbn [map fst]. rewrite IH1, C1, Hl0. reflexivity.
    + intros h [<-|Hin]; [|exact (IH2 _ Hin)]. exists h0. rewrite C1, Hl0. split; [exact El|congruence].
Qed.

Lemma reg_get_lookup r ids h : In h (reg_get r ids) -> In (lid h) ids /\ lookup r (lid h) = Some h.
Proof.
  unfold reg_get. intros H. apply in_flat_map in H. destruct H as (l & Hl & Hin).
  destruct (lookup r l) as [h'|] eqn:E; [|destruct Hin]. destruct Hin as [<-|[]].
  destruct (lookup_In _ _ _ E) as [_ El]. rewrite El. split; [exact Hl|exact E].
Qed.

Lemma rb_updated_spec hs h : In h (rb_updated_handles hs) -> exists h1, In h1 hs /\ lid h = lid h1 /\ ver h = ver h1.
Proof.
  unfold rb_updated_handles. intros H. apply in_map_iff in H. destruct H as (h1 & E & Hin). exists h1. split; [exact Hin|].
  subst h. destruct (inactive h1 =? 0); unfold set_del, clear_inactive, set_inactive; [cbn; split; reflexivity|].
  destruct (activeB h1); cbn; split; reflexivity.
Qed.

Lemma in_tag k hs k' h : In (k', h) (tag k hs) -> k' = k /\ In h hs.
Proof. unfold tag. intros H. apply in_map_iff in H. destruct H as (x & E & Hin). inversion E; subst. split; [reflexivity|exact Hin]. Qed.

Lemma lock_of_filter_first f lk l o : lock_of lk l = Some o -> f (l, o) = true -> lock_of (filter f lk) l = Some o.
Proof.
  induction lk as [|[l' o'] r IH]; cbn [lock_of filter]; [discriminate|].
  destruct (N.eqb_spec l' l) as [E|E]; intros H Hf.
  - inversion H; subst. rewrite Hf. cbn [lock_of]. rewrite N.eqb_refl. reflexivity.
  - destruct (f (l', o')); cbn [lock_of]; [destruct (N.eqb_spec l' l); [contradiction|]|]; apply IH; assumption.
Qed.

(* C14 model: transaction lifecycle and mode guards.

   Transcribed function by function from
     /repo/common/twophasecommittransaction.go  (Transaction.Begin/Phase1Commit/Phase2Commit/Rollback/Close/HasBegun)
     /repo/transaction.go                       (SinglePhaseTransaction.Commit/Rollback, no other participants)
     /repo/btree/withtransaction.go             (guards of write and read operations)
     /repo/common/managebtree.go                (NewBtree / OpenBtree preconditions and store creation)
   One store name; the stored data is [disk : option (Z * items)] (None = the store does not exist;
   otherwise the item count recorded in the store's info record and the items in its nodes).
   The commit protocol proper is abstracted: phase 1 of a writer snapshots the working copy,
   phase 2 installs the snapshot; an environment flag on a call says that the delegate / the
   protocol step fails (I/O error, conflict).  Definitions only. *)
From Coq Require Import List ZArith NArith Bool.
Import ListNotations.
Local Open Scope Z_scope.

Inductive mode := NoCheck | ForWriting | ForReading.
Definition mode_eqb (a b : mode) : bool :=
  match a, b with NoCheck, NoCheck | ForWriting, ForWriting | ForReading, ForReading => true | _, _ => false end.

(* The program's calls.  [f] flags: the environment makes the delegated B-tree call / the
   protocol phase fail. *)
(* how the undo inside Transaction.Rollback fares: no failure / the store-repository step (removing
   a store created by the transaction, putting the count back) fails and is not performed / another
   step fails (the rest of the undo is still carried out: rollback() only remembers the last error) *)
Inductive rbfail := RbNone | RbStore | RbOther.

(* how phase 1 fares: no failure / some protocol step fails / the failing step is a store-repository
   write (the count update of commitStores, or — inside the retry loop of a repeated phase 1 —
   the removal of the store the transaction had created) *)
Inductive pfail := PNone | PFail | PFailStore.
Definition pf_any (f : pfail) : bool := match f with PNone => false | _ => true end.
Definition pf_store (f : pfail) : bool := match f with PFailStore => true | _ => false end.
Arguments pf_any : simpl never.
Arguments pf_store : simpl never.

Inductive call :=
| CBegin
| CCommit (f1 : pfail) (f2 : bool)
| CRollback (f : rbfail)
| CP1 (f : pfail)
| CP2 (f : bool)
| CClose
| CAdd (k v : N) (f : bool)
| CFind (k : N) (f : bool)
| CUpdate (k v : N) (f : bool)
| CRemove (k : N) (f : bool)
| CNewBtree
| COpenBtree.

Inductive result := ROk | RFalse | RErr | RNoHandle.
Definition result_eqb (a b : result) : bool :=
  match a, b with ROk, ROk | RFalse, RFalse | RErr, RErr | RNoHandle, RNoHandle => true | _, _ => false end.

(* where an item of the transaction's working copy comes from (drives the item action tracker) *)
Inductive origin := ONew | ODb | ODbUpdated.

Definition items := list (N * N).
Definition witems := list (N * N * origin).
Definition store := (Z * items)%type.        (* StoreInfo.Count, items reachable from the root *)
Definition len (w : witems) : Z := Z.of_nat (length w).

Record state := mkState {
  phase : Z;                 (* phaseDone: -1 initial, 0 begun, 1 phase 1 started, 2 done *)
  committed : bool;
  tmode : mode;
  disk : option store;       (* the stored data; None = store absent *)
  handle : bool;             (* the program holds a B-tree handle *)
  opened : bool;             (* the store is registered in the transaction (btreesBackend) *)
  created : bool;            (* ... and was created by this transaction *)
  work : witems;             (* the transaction's working copy of the store *)
  removed_db : bool;         (* a stored item was removed (tracked removeAction) *)
  bcount : Z;                (* nodeRepository.count: the store's count when it was opened / last refetched *)
  wcount : Z;                (* the B-tree's own StoreInfo.Count: bcount + adds - removes since then *)
  prepared : option items;   (* what phase 1 persisted, installed by phase 2 *)
  stale : bool               (* a repeated phase 1 has replaced the B-tree's nodes under the program's cursor *)
}.

Definition init (m : mode) (d : option store) : state :=
  mkState (-1) false m d false false false [] false 0 0 None false.

Definition has_begun (s : state) : bool := (0 <=? phase s) && (phase s <? 2).

Definition set_phase (s : state) (p : Z) : state :=
  mkState p (committed s) (tmode s) (disk s) (handle s) (opened s) (created s) (work s) (removed_db s) (bcount s) (wcount s) (prepared s) (stale s).
Definition set_committed (s : state) : state :=
  mkState (phase s) true (tmode s) (disk s) (handle s) (opened s) (created s) (work s) (removed_db s) (bcount s) (wcount s) (prepared s) (stale s).
Definition set_disk (s : state) (d : option store) : state :=
  mkState (phase s) (committed s) (tmode s) d (handle s) (opened s) (created s) (work s) (removed_db s) (bcount s) (wcount s) (prepared s) (stale s).
Definition set_work (s : state) (w : witems) (rm : bool) (dc : Z) : state :=
  mkState (phase s) (committed s) (tmode s) (disk s) (handle s) (opened s) (created s) w rm (bcount s) (wcount s + dc) (prepared s) (stale s).
Definition set_prepared (s : state) (p : option items) : state :=
  mkState (phase s) (committed s) (tmode s) (disk s) (handle s) (opened s) (created s) (work s) (removed_db s) (bcount s) (wcount s) p (stale s).
Definition set_open (s : state) (d : option store) (cr : bool) (w : witems) : state :=
  let c := match d with Some (c, _) => c | None => 0 end in
  mkState (phase s) (committed s) (tmode s) d true true cr w (removed_db s) c c (prepared s) (stale s).
(* refetchAndMerge with nothing left to replay: the working copy, both counts and the tracker are
   reset to what is stored.  The B-tree's cursor is NOT reset: it keeps pointing into the discarded
   node objects (Btree.currentItem is a pointer to a slot), so from here on Find's shortcut "the
   current item has this key" may answer from a node that is no longer part of the tree.  The
   model does not track cursors; [stale] marks the states where that can happen. *)
Definition set_refetched (s : state) (p : option items) : state :=
  match disk s with
  | Some (c, its) =>
      mkState (phase s) (committed s) (tmode s) (disk s) (handle s) (opened s) (created s)
              (map (fun x => (fst x, snd x, ODb)) its) false c c p true
  | None => s
  end.
Definition set_handle (s : state) : state :=
  mkState (phase s) (committed s) (tmode s) (disk s) true (opened s) (created s) (work s) (removed_db s) (bcount s) (wcount s) (prepared s) (stale s).

Definition add_count (d : option store) (dz : Z) : option store :=
  match d with None => None | Some (c, its) => Some (c + dz, its) end.
Definition set_items (d : option store) (its : items) : option store :=
  match d with None => None | Some (c, _) => Some (c, its) end.

(* Transaction.rollback.  A store created by this transaction is removed.  Otherwise, when phase 1
   had updated the store's info record (committedState > commitStoreInfo), the count is put back by
   getRollbackStoresInfo: delta = nodeRepository.count - (the B-tree's count NOW). *)
Definition undo (s : state) : state :=
  if created s then set_disk s None
  else match prepared s with
       | Some _ => set_disk s (add_count (disk s) (bcount s - wcount s))
       | None => s
       end.
(* the rollback run by a failing Phase2Commit: the log position is finalizeCommit whatever phase 1
   did, so the count delta (nodeRepository.count - current B-tree count) is applied even when phase 1
   had persisted nothing *)
Definition undo_p2 (s : state) : state :=
  if created s then set_disk s None
  else set_disk s (add_count (disk s) (bcount s - wcount s)).
(* a created store that could not be removed keeps what phase 1 wrote for it *)
Definition keep_created (s : state) : state :=
  match prepared s with
  | Some w => set_disk s (set_items (disk s) w)
  | None => s
  end.
(* the rollback run by a Phase1Commit that is called again over already persisted work: the log
   position was rewound by the second run, so the info record of the first run is not put back *)
Definition undo_rewound (s : state) : state :=
  if created s then set_disk s None else s.

(* Transaction.Rollback.  phaseDone = 2 is set BEFORE the undo runs: a Rollback whose undo fails
   returns the error but the transaction is over all the same. *)
Definition do_rollback_f (f : rbfail) (s : state) : result * state :=
  if phase s =? 2 then ((if committed s then RErr else ROk), s)
  else if negb (has_begun s) then (RErr, s)
  else match f with
       | RbNone => (ROk, undo (set_phase s 2))
       | RbOther => (RErr, undo (set_phase s 2))
       | RbStore => (RErr, set_phase s 2)
       end.
Definition do_rollback (s : state) : result * state := do_rollback_f RbNone s.

(* Transaction.Begin *)
Definition do_begin (s : state) : result * state :=
  if has_begun s then (RErr, s)
  else if phase s =? 2 then (RErr, s)
  else (ROk, set_phase s 0).

(* working copy helpers *)
Fixpoint w_find (k : N) (w : witems) : option (N * origin) :=
  match w with
  | [] => None
  | (k', v, o) :: r => if N.eqb k k' then Some (v, o) else w_find k r
  end.
Fixpoint w_insert (k v : N) (o : origin) (w : witems) : witems :=
  match w with
  | [] => [(k, v, o)]
  | (k', v', o') :: r => if N.ltb k k' then (k, v, o) :: w else (k', v', o') :: w_insert k v o r
  end.
Fixpoint w_update (k v : N) (w : witems) : witems :=
  match w with
  | [] => []
  | (k', v', o') :: r =>
      if N.eqb k k' then (k', v, match o' with ONew => ONew | _ => ODbUpdated end) :: r
      else (k', v', o') :: w_update k v r
  end.
Fixpoint w_remove (k : N) (w : witems) : witems :=
  match w with
  | [] => []
  | (k', v', o') :: r => if N.eqb k k' then r else (k', v', o') :: w_remove k r
  end.
Definition w_items (w : witems) : items := map (fun x => (fst (fst x), snd (fst x))) w.
Definition w_load (d : items) : witems := map (fun x => (fst x, snd x, ODb)) d.

(* itemActionTracker.hasTrackedItems *)
Definition has_tracked (s : state) : bool :=
  removed_db s || existsb (fun x => match snd x with ODb => false | _ => true end) (work s).

(* some stored item was updated (tracked updateAction) *)
Definition has_db_update (w : witems) : bool :=
  existsb (fun x => match snd x with ODbUpdated => true | _ => false end) w.

Arguments has_db_update : simpl never.

(* Transaction.Phase1Commit *)
Definition do_p1 (f : pfail) (s : state) : result * state :=
  if negb (has_begun s) then (RErr, s)
  else
    let s1 := set_phase s 1 in
    match tmode s with
    | NoCheck => (ROk, s1)
    | ForReading => (ROk, s1)      (* commitForReaderTransaction: nothing is tracked by Find *)
    | ForWriting =>
        if negb (has_tracked s) then (ROk, s1)
        else
          match prepared s with
          | Some _ =>
              (* Phase 1 run again over work that an earlier phase 1 already persisted.  The node
                 handles claimed by the first run are still in flight, so committing the updated
                 nodes fails and the retry loop (rollback(false), refetchAndMerge) starts:
                 - a store created by this transaction was removed by that rollback: "store not found";
                 - tracked updates/removes are replayed and re-tracked on every round, the node
                   commit fails again each time (retry limit), or the item is no longer found;
                 - tracked adds are replayed once but NOT re-tracked (value-in-node stores), so the
                   next round has nothing to replay, nothing to commit, and phase 1 "succeeds" with
                   the working copy reset to the stored items: the adds are silently dropped.
                 The log position was rewound by this run, so on failure the count update of the
                 first run is not put back (undo_rewound). *)
              if pf_any f || created s || removed_db s || has_db_update (work s)
              then (RErr, if created s && pf_store f
                          then keep_created (set_phase s1 2)   (* the retry could not remove the created store; its final
                                                                 rollback finds the log rewound to "unknown" and undoes nothing:
                                                                 the store stays with the root and count the first phase 1 wrote *)
                          else undo_rewound (set_phase s1 2))
              else (ROk, set_refetched s1 (option_map snd (disk s)))
          | None =>
              if pf_any f then (RErr, undo (set_phase s1 2))
              else (ROk, set_prepared (set_disk s1 (add_count (disk s) (wcount s - bcount s)))   (* commitStores *)
                                      (Some (w_items (work s))))
          end
    end.

(* Transaction.Phase2Commit *)
Definition do_p2 (f : bool) (s : state) : result * state :=
  if negb (has_begun s) then (RErr, s)
  else if phase s =? 0 then (RErr, s)
  else
    let s2 := set_phase s 2 in
    match tmode s with
    | ForWriting =>
        (* phase2Commit always logs finalizeCommit first, also when phase 1 had nothing to persist *)
        if f then (RErr, undo_p2 s2)
        else match prepared s with
             | Some w => (ROk, set_committed (set_disk s2 (set_items (disk s) w)))
             | None => (ROk, set_committed s2)
             end
    | _ => (ROk, set_committed s2)
    end.

(* SinglePhaseTransaction.Commit *)
Definition do_commit (f1 : pfail) (f2 : bool) (s : state) : result * state :=
  match do_p1 f1 s with
  | (ROk, s1) =>
      match do_p2 f2 s1 with
      | (ROk, s2) => (ROk, s2)
      | (_, s2) => (RErr, snd (do_rollback s2))
      end
  | (_, s1) => (RErr, snd (do_rollback s1))
  end.

(* btreeWithTransaction, write operations *)
Definition guard_write (f : bool) (s : state) (op : state -> result * state) : result * state :=
  if negb (handle s) then (RNoHandle, s)
  else if negb (has_begun s) then (RErr, s)
  else if negb (mode_eqb (tmode s) ForWriting) then (RErr, snd (do_rollback s))
  else if f then (RErr, snd (do_rollback s))
  else op s.

(* btreeWithTransaction, read operations *)
Definition guard_read (f : bool) (s : state) (op : state -> result * state) : result * state :=
  if negb (handle s) then (RNoHandle, s)
  else if negb (has_begun s) then (RErr, snd (do_rollback s))
  else if f then (RErr, snd (do_rollback s))
  else op s.

Definition op_add (k v : N) (s : state) : result * state :=
  match w_find k (work s) with
  | Some _ => (RFalse, s)                       (* unique store *)
  | None => (ROk, set_work s (w_insert k v ONew (work s)) (removed_db s) 1)
  end.
Definition op_find (k : N) (s : state) : result * state :=
  match w_find k (work s) with Some _ => (ROk, s) | None => (RFalse, s) end.
Definition op_update (k v : N) (s : state) : result * state :=
  match w_find k (work s) with
  | Some _ => (ROk, set_work s (w_update k v (work s)) (removed_db s) 0)
  | None => (RFalse, s)
  end.
Definition op_remove (k : N) (s : state) : result * state :=
  match w_find k (work s) with
  | Some (_, o) => (ROk, set_work s (w_remove k (work s)) (removed_db s || match o with ONew => false | _ => true end) (-1))
  | None => (RFalse, s)
  end.

(* common.NewBtree / common.OpenBtree *)
Definition do_newbtree (s : state) : result * state :=
  if negb (has_begun s) then (RErr, s)
  else
    match disk s with
    | None => (ROk, set_open s (Some (0, [])) true [])            (* StoreRepository.Add, before any mode check *)
    | Some d => if opened s then (ROk, set_handle s) else (ROk, set_open s (Some d) false (w_load (snd d)))
    end.
Definition do_openbtree (s : state) : result * state :=
  if negb (has_begun s) then (RErr, s)
  else if opened s then (ROk, set_handle s)
  else
    match disk s with
    | None => (RErr, snd (do_rollback s))
    | Some d => (ROk, set_open s (Some d) false (w_load (snd d)))
    end.

Definition step (s : state) (c : call) : result * state :=
  match c with
  | CBegin => do_begin s
  | CCommit f1 f2 => do_commit f1 f2 s
  | CRollback f => do_rollback_f f s
  | CP1 f => do_p1 f s
  | CP2 f => do_p2 f s
  | CClose => (ROk, s)
  | CAdd k v f => guard_write f s (op_add k v)
  | CFind k f => guard_read f s (op_find k)
  | CUpdate k v f => guard_write f s (op_update k v)
  | CRemove k f => guard_write f s (op_remove k)
  | CNewBtree => do_newbtree s
  | COpenBtree => do_openbtree s
  end.

Fixpoint run (s : state) (cs : list call) : list result * state :=
  match cs with
  | [] => ([], s)
  | c :: r => let '(x, s1) := step s c in let '(xs, s2) := run s1 r in (x :: xs, s2)
  end.

(* the state before the i-th call, and the i-th result *)
Definition state_after (s : state) (cs : list call) : state := snd (run s cs).
Definition results (s : state) (cs : list call) : list result := fst (run s cs).

Definition is_store_op (c : call) : bool :=
  match c with CAdd _ _ _ | CFind _ _ | CUpdate _ _ _ | CRemove _ _ | CNewBtree | COpenBtree => true | _ => false end.
Definition is_success (r : result) : bool := match r with ROk | RFalse => true | _ => false end.

(* what a fresh reader sees: Count, and the items it can scan (First gives up when Count = 0) *)
Definition view (d : option store) : option store :=
  match d with
  | None => None
  | Some (c, its) => Some (c, if c =? 0 then [] else its)
  end.
(* a well-formed stored state: the recorded count is the number of items *)
Definition disk_wf (d : option store) : Prop :=
  match d with None => True | Some (c, its) => c = Z.of_nat (length its) end.

(* the result call [c] gets when it is issued after the calls [a] *)
Definition result_at (s0 : state) (a : list call) (c : call) : result := fst (step (state_after s0 a) c).
(* calls whose success ends the transaction *)
Definition is_end (c : call) : bool := match c with CCommit _ _ | CP2 _ | CRollback _ => true | _ => false end.
Definition is_commit (c : call) : bool := match c with CCommit _ _ | CP2 _ => true | _ => false end.
(* calls that enter the commit protocol *)
Definition is_commit_phase (c : call) : bool := match c with CCommit _ _ | CP1 _ | CP2 _ => true | _ => false end.

(* Lemmas about the item-level model Merge.v (C04, C05). *)
From Coq Require Import List ZArith NArith Bool Lia Permutation.
From SopVerif Require Import Merge.
Import ListNotations.
Local Open Scope Z_scope.

Definition nodupk (s : store) : Prop := NoDup (keys s).

(* ---------------------------------------------------------------- association-list facts *)

Lemma lookup_none_notin : forall k s, lookup k s = None <-> ~ In k (keys s).
Proof.
  intros k s. induction s as [|[k' it] r IH]; cbn.
  - split; auto.
  - destruct (Z.eqb_spec k k') as [->|Hne].
    + split; [discriminate|]. intros H. exfalso. apply H. now left.
    + rewrite IH. split; intros H; [intros [H1|H1]; [congruence|auto]|auto].
Qed.

Lemma in_keys_ins : forall k it s x, In x (keys (ins k it s)) <-> x = k \/ In x (keys s).
Proof.
  intros k it s x. induction s as [|[k' it'] r IH]; cbn.
  - intuition.
  - destruct (Z.leb k k'); cbn.
    + intuition.
    + rewrite IH. intuition.
Qed.

Lemma nodupk_ins : forall k it s, lookup k s = None -> nodupk s -> nodupk (ins k it s).
Proof.
  unfold nodupk. intros k it s. induction s as [|[k' it'] r IH]; cbn; intros Hl Hn.
  - constructor; [intros []|constructor].
  - destruct (Z.eqb_spec k k') as [->|Hne]; [discriminate|].
    inversion Hn as [|? ? Hnot Hn']; subst.
    destruct (Z.leb k k'); cbn.
    + constructor.
      * cbn. intros [H|H]; [congruence|]. apply lookup_none_notin in Hl. auto.
      * constructor; auto.
    + constructor.
      * rewrite in_keys_ins. intros [H|H]; [congruence|auto].
      * apply IH; auto.
Qed.

Lemma lookup_ins_same : forall k it s, lookup k (ins k it s) = Some it.
Proof.
  intros k it s. induction s as [|[k' it'] r IH]; cbn.
  - now rewrite Z.eqb_refl.
  - destruct (Z.leb k k') eqn:E; cbn.
    + now rewrite Z.eqb_refl.
    + destruct (Z.eqb_spec k k') as [->|Hne]; [rewrite Z.leb_refl in E; discriminate|exact IH].
Qed.

Lemma lookup_ins_other : forall k it s k', k' <> k -> lookup k' (ins k it s) = lookup k' s.
Proof.
  intros k it s k' Hne. induction s as [|[k2 it2] r IH]; cbn.
  - destruct (Z.eqb_spec k' k); [congruence|reflexivity].
  - destruct (Z.leb k k2); cbn.
    + destruct (Z.eqb_spec k' k); [congruence|reflexivity].
    + destruct (Z.eqb k' k2); [reflexivity|exact IH].
Qed.

Lemma in_keys_del : forall k id s x, In x (keys (del k id s)) -> In x (keys s).
Proof.
  intros k id s x. induction s as [|[k' it] r IH]; cbn; auto.
  destruct (Z.eqb k k' && N.eqb (iid it) id); cbn; intuition.
Qed.

Lemma nodupk_del : forall k id s, nodupk s -> nodupk (del k id s).
Proof.
  unfold nodupk. intros k id s. induction s as [|[k' it] r IH]; cbn; intros Hn; auto.
  inversion Hn as [|? ? Hnot Hn']; subst.
  destruct (Z.eqb k k' && N.eqb (iid it) id); cbn; auto.
  constructor; auto. intros H. apply Hnot. eapply in_keys_del; eauto.
Qed.

Lemma lookup_del_other : forall k id s k', k' <> k -> lookup k' (del k id s) = lookup k' s.
Proof.
  intros k id s k' Hne. induction s as [|[k2 it2] r IH]; cbn; auto.
  destruct (Z.eqb_spec k k2) as [->|H2]; cbn.
  - destruct (N.eqb (iid it2) id); cbn.
    + destruct (Z.eqb_spec k' k2); [congruence|reflexivity].
    + destruct (Z.eqb k' k2); [reflexivity|exact IH].
  - destruct (Z.eqb k' k2); [reflexivity|exact IH].
Qed.

Lemma lookup_del_same : forall k id s it, nodupk s -> lookup k s = Some it -> iid it = id ->
  lookup k (del k id s) = None.
Proof.
  unfold nodupk. intros k id s it. induction s as [|[k2 it2] r IH]; cbn; intros Hn Hl Hid; [discriminate|].
  inversion Hn as [|? ? Hnot Hn']; subst.
  destruct (Z.eqb_spec k k2) as [->|H2]; cbn.
  - inversion Hl; subst. rewrite N.eqb_refl. cbn. now apply lookup_none_notin.
  - destruct (Z.eqb_spec k k2); [congruence|]. apply IH; auto.
Qed.

Lemma keys_upd : forall k id it s, keys (upd k id it s) = keys s.
Proof.
  intros k id it s. unfold keys. induction s as [|[k2 it2] r IH]; cbn; auto.
  destruct (Z.eqb k k2 && N.eqb (iid it2) id); cbn; [reflexivity|now rewrite IH].
Qed.

Lemma lookup_upd_other : forall k id it s k', k' <> k -> lookup k' (upd k id it s) = lookup k' s.
Proof.
  intros k id it s k' Hne. induction s as [|[k2 it2] r IH]; cbn; auto.
  destruct (Z.eqb_spec k k2) as [->|H2]; cbn.
  - destruct (N.eqb (iid it2) id); cbn.
    + destruct (Z.eqb_spec k' k2); [congruence|reflexivity].
    + destruct (Z.eqb k' k2); [reflexivity|exact IH].
  - destruct (Z.eqb k' k2); [reflexivity|exact IH].
Qed.

Lemma lookup_upd_same : forall k id it' s it, lookup k s = Some it -> iid it = id ->
  lookup k (upd k id it' s) = Some it'.
Proof.
  intros k id it' s it. induction s as [|[k2 it2] r IH]; cbn; intros Hl Hid; [discriminate|].
  destruct (Z.eqb_spec k k2) as [->|H2]; cbn.
  - inversion Hl; subst. rewrite N.eqb_refl. cbn. now rewrite Z.eqb_refl.
  - destruct (Z.eqb_spec k k2); [congruence|]. apply IH; auto.
Qed.

Lemma find_id_lookup : forall k id s it, lookup k s = Some it -> iid it = id -> find_id k id s = Some it.
Proof.
  intros k id s it. induction s as [|[k2 it2] r IH]; cbn; intros Hl Hid; [discriminate|].
  destruct (Z.eqb_spec k k2) as [->|H2]; cbn.
  - inversion Hl; subst. now rewrite N.eqb_refl.
  - apply IH; auto.
Qed.

Lemma in_keys_rmkey : forall k s x, In x (keys (rmkey k s)) -> In x (keys s) /\ x <> k.
Proof.
  intros k s x. induction s as [|[k2 it2] r IH]; cbn; [intros []|].
  destruct (Z.eqb_spec k k2) as [->|H2]; cbn.
  - intros H. destruct (IH H). auto.
  - intros [H|H]; [subst; auto|]. destruct (IH H). auto.
Qed.

Lemma nodupk_rmkey : forall k s, nodupk s -> nodupk (rmkey k s).
Proof.
  unfold nodupk. intros k s. induction s as [|[k2 it2] r IH]; cbn; intros Hn; auto.
  inversion Hn as [|? ? Hnot Hn']; subst.
  destruct (Z.eqb k k2); cbn; auto.
  constructor; auto. intros H. apply in_keys_rmkey in H. tauto.
Qed.

Lemma lookup_rmkey_same : forall k s, lookup k (rmkey k s) = None.
Proof.
  intros k s. apply lookup_none_notin. intros H. apply in_keys_rmkey in H. tauto.
Qed.

Lemma items_at_nodup : forall k s, nodupk s -> items_at k s = [] \/ exists it, items_at k s = [(k, it)].
Proof.
  unfold nodupk, items_at. intros k s. induction s as [|[k2 it2] r IH]; cbn; intros Hn; auto.
  inversion Hn as [|? ? Hnot Hn']; subst.
  destruct (Z.eqb_spec k k2) as [->|H2].
  - right. exists it2. f_equal.
    assert (Hr : forall r', ~ In k2 (keys r') -> filter (fun e : Z * item => Z.eqb k2 (fst e)) r' = []).
    { induction r' as [|[k3 it3] r' IHr]; cbn; auto. intros Hni.
      destruct (Z.eqb_spec k2 k3) as [->|]; [exfalso; apply Hni; now left|apply IHr; tauto]. }
    now apply Hr.
  - apply IH; auto.
Qed.

Lemma nodupk_set_key : forall local k s, nodupk local -> nodupk s -> nodupk (set_key local k s).
Proof.
  intros local k s Hl Hs. unfold set_key.
  destruct (items_at_nodup k local Hl) as [->|[it ->]]; cbn.
  - now apply nodupk_rmkey.
  - apply nodupk_ins; [apply lookup_rmkey_same|now apply nodupk_rmkey].
Qed.

Lemma nodupk_install : forall local t s, nodupk local -> nodupk s -> nodupk (install local t s).
Proof.
  intros local t. unfold install. induction t as [|e r IH]; cbn; intros s Hl Hs; auto.
  apply IH; auto. unfold install1. destruct (tk e); auto; now apply nodupk_set_key.
Qed.

(* ---------------------------------------------------------------- one transaction keeps keys distinct (unique store) *)

Lemma do_add_nodup : forall k v w b w', do_add true k v w = (b, w') -> nodupk (wlocal w) -> nodupk (wlocal w').
Proof.
  intros k v w b w'. unfold do_add, ins_u.
  destruct (lookup k (wlocal w)) eqn:E; intros H Hn; inversion H; subst; cbn; auto.
  now apply nodupk_ins.
Qed.

Lemma do_update_nodup : forall k nv w b w', do_update k nv w = (b, w') -> nodupk (wlocal w) -> nodupk (wlocal w').
Proof.
  intros k nv w b w'. unfold do_update.
  destruct (lookup k (wlocal w)) eqn:E; intros H Hn; [|inversion H; subst; auto].
  destruct (t_find (iid i) (wtrk w)); [destruct (akind_eqb (tk t) AAdd)|];
    inversion H; subst; cbn; unfold nodupk; now rewrite keys_upd.
Qed.

Lemma do_remove_nodup : forall k w b w', do_remove k w = (b, w') -> nodupk (wlocal w) -> nodupk (wlocal w').
Proof.
  intros k w b w'. unfold do_remove.
  destruct (lookup k (wlocal w)) eqn:E; intros H Hn; [|inversion H; subst; auto].
  destruct (t_find (iid i) (wtrk w)); [destruct (akind_eqb (tk t) AAdd)|];
    inversion H; subst; cbn; now apply nodupk_del.
Qed.

Lemma exec_op_nodup : forall o w b w', exec_op true o w = (b, w') -> nodupk (wlocal w) -> nodupk (wlocal w').
Proof.
  intros o w b w'. unfold exec_op. destruct (okind o); intros H Hn.
  - eapply do_add_nodup; eauto.
  - eapply do_add_nodup; eauto.
  - destruct (do_add true (okey o) (oval o) w) as [ok w1] eqn:E. destruct ok.
    + inversion H; subst. eapply do_add_nodup; eauto.
    + eapply do_update_nodup; eauto.
  - eapply do_update_nodup; eauto.
  - eapply do_update_nodup; eauto.
  - eapply do_remove_nodup; eauto.
  - unfold do_get in H. destruct (lookup (okey o) (wlocal w)); inversion H; subst; auto.
Qed.

Lemma exec_ops_nodup : forall os w bs w', exec_ops true os w = (bs, w') -> nodupk (wlocal w) -> nodupk (wlocal w').
Proof.
  induction os as [|o r IH]; cbn; intros w bs w' H Hn.
  - inversion H; subst; auto.
  - destruct (exec_op true o w) as [b w1] eqn:E1. destruct (exec_ops true r w1) as [bs2 w2] eqn:E2.
    inversion H; subst. eapply IH; eauto. eapply exec_op_nodup; eauto.
Qed.

(* ---------------------------------------------------------------- the merge replay keeps keys distinct (unique store) *)

Lemma replay1_nodup : forall innode e s t s' t', replay1 true innode e (s, t) = inr (s', t') -> nodupk s -> nodupk s'.
Proof.
  intros innode e s t s' t'. unfold replay1, ins_u.
  destruct (tk e) eqn:Ek.
  - destruct (find_id (tkey e) (tid e) s) eqn:Ef; [|discriminate].
    destruct (negb (Z.eqb (iver i) (tverdb e))); [discriminate|].
    intros H Hn; inversion H; subst; auto.
  - destruct (lookup (tkey e) s) eqn:El; cbv iota; [discriminate|]. intros H Hn. inversion H; subst. now apply nodupk_ins.
  - destruct (find_id (tkey e) (tid e) s) eqn:Ef; [|discriminate].
    destruct (negb (Z.eqb (iver i) (tverdb e))); [discriminate|].
    intros H Hn; inversion H; subst. unfold nodupk. now rewrite keys_upd.
  - destruct (find_id (tkey e) (tid e) s) eqn:Ef; [|discriminate].
    destruct (negb (Z.eqb (iver i) (tverdb e))); [discriminate|].
    intros H Hn; inversion H; subst. now apply nodupk_del.
Qed.

Lemma replay_nodup : forall innode es s t s' t', replay true innode es (s, t) = inr (s', t') -> nodupk s -> nodupk s'.
Proof.
  intros innode es. induction es as [|e r IH]; intros s t s' t' H Hn.
  - cbn in H. inversion H; subst; auto.
  - change (replay true innode (e :: r) (s, t)) with
      (match replay1 true innode e (s, t) with inl x => inl x | inr st' => replay true innode r st' end) in H.
    destruct (replay1 true innode e (s, t)) as [x|[s1 t1]] eqn:E; [discriminate|].
    eapply IH; eauto. eapply replay1_nodup; eauto.
Qed.

(* committed stores reachable by any number of writers: each reads some earlier committed store, runs any
   calls, and commits either directly or through refetch-and-merge rounds; only the last round's store is
   installed, and its tracker (left by earlier rounds against earlier stores) is arbitrary *)
Inductive reach (innode : bool) (init : store) : store -> Prop :=
| reach_init : reach innode init init
| reach_direct : forall cur snap os nid res w,
    reach innode init cur -> reach innode init snap -> run_ops true snap nid os = (res, w) ->
    reach innode init (install (wlocal w) (wtrk w) cur)
| reach_merge : forall cur t s t',
    reach innode init cur -> replay true innode t (cur, []) = inr (s, t') -> reach innode init s.

Lemma reach_nodup : forall innode init s, nodupk init -> reach innode init s -> nodupk s.
Proof.
  intros innode init s Hi Hr. induction Hr as [|cur snap os nid res w Hc IHc Hs IHs Hrun|cur t s t' Hc IHc Hrep]; auto.
  - apply nodupk_install; auto. unfold run_ops in Hrun. eapply exec_ops_nodup in Hrun; eauto.
  - eapply replay_nodup; eauto.
Qed.

Lemma nodup_no_adjacent : forall l, NoDup l -> adjacent_dup l = false.
Proof.
  induction l as [|a [|b r] IH]; cbn; intros Hn; auto.
  inversion Hn as [|? ? Hnot Hn']; subst.
  destruct (Z.eqb_spec a b) as [->|]; [exfalso; apply Hnot; now left|]. cbn. now apply IH.
Qed.

(* ---------------------------------------------------------------- replay of an action on a store that holds what was read *)

(* the store holds under the entry's key what the writer read: nothing for an add, the tracked item at the
   version read otherwise *)
Definition reads_hold (e : tent) (s : store) : Prop :=
  match tk e with
  | AAdd => lookup (tkey e) s = None
  | _ => exists it, lookup (tkey e) s = Some it /\ iid it = tid e /\ iver it = tverdb e
  end.

(* what the key holds afterwards *)
Definition effect (e : tent) (s : store) : option item :=
  match tk e with
  | AAdd | AUpd => Some (titem e)
  | ARem => None
  | AGet => lookup (tkey e) s
  end.

Lemma replay1_ok : forall unique innode e s t, nodupk s -> reads_hold e s ->
  exists s' t', replay1 unique innode e (s, t) = inr (s', t')
    /\ lookup (tkey e) s' = effect e s
    /\ (forall k, k <> tkey e -> lookup k s' = lookup k s)
    /\ nodupk s'.
Proof.
  intros unique innode e s t Hn Hr. unfold reads_hold in Hr. unfold replay1, effect, ins_u.
  destruct (tk e) eqn:Ek.
  - destruct Hr as (it & Hl & Hid & Hv). rewrite (find_id_lookup _ _ _ _ Hl Hid), Hv, Z.eqb_refl. cbn.
    eexists _, _. repeat split; auto.
  - rewrite Hr. destruct unique; eexists _, _; (split; [reflexivity|]);
      (split; [apply lookup_ins_same|]); (split; [intros k Hk; now apply lookup_ins_other|]); now apply nodupk_ins.
  - destruct Hr as (it & Hl & Hid & Hv). rewrite (find_id_lookup _ _ _ _ Hl Hid), Hv, Z.eqb_refl. cbn.
    eexists _, _. split; [reflexivity|]. split; [eapply lookup_upd_same; eauto|].
    split; [intros k Hk; now apply lookup_upd_other|]. unfold nodupk. now rewrite keys_upd.
  - destruct Hr as (it & Hl & Hid & Hv). rewrite (find_id_lookup _ _ _ _ Hl Hid), Hv, Z.eqb_refl. cbn.
    eexists _, _. split; [reflexivity|]. split; [eapply lookup_del_same; eauto|].
    split; [intros k Hk; now apply lookup_del_other|]. now apply nodupk_del.
Qed.

Lemma reads_hold_ext : forall e s s', lookup (tkey e) s' = lookup (tkey e) s -> reads_hold e s -> reads_hold e s'.
Proof. intros e s s' H. unfold reads_hold. rewrite H. auto. Qed.

Lemma effect_ext : forall e s s', lookup (tkey e) s' = lookup (tkey e) s -> effect e s' = effect e s.
Proof. intros e s s' H. unfold effect. now rewrite H. Qed.

(* a whole tracker whose entries have pairwise distinct keys, in the order given (any order: the hypotheses
   are invariant under permutation) *)
Lemma replay_ok : forall unique innode es s t, nodupk s -> NoDup (map tkey es) -> Forall (fun e => reads_hold e s) es ->
  exists s' t', replay unique innode es (s, t) = inr (s', t')
    /\ (forall e, In e es -> lookup (tkey e) s' = effect e s)
    /\ (forall k, ~ In k (map tkey es) -> lookup k s' = lookup k s)
    /\ nodupk s'.
Proof.
  intros unique innode es. induction es as [|e r IH]; intros s t Hn Hnd Hall.
  - eexists _, _. cbn. repeat split; auto. intros e [].
  - cbn [map] in Hnd. inversion Hnd as [|? ? Hnot Hnd']; subst. inversion Hall as [|? ? He Hall']; subst.
    destruct (replay1_ok unique innode e s t Hn He) as (s1 & t1 & E1 & Hk1 & Ho1 & Hn1).
    change (replay unique innode (e :: r) (s, t)) with
      (match replay1 unique innode e (s, t) with inl x => inl x | inr st' => replay unique innode r st' end).
    rewrite E1.
    assert (Hall1 : Forall (fun e0 => reads_hold e0 s1) r).
    { rewrite Forall_forall in *. intros x Hx. eapply reads_hold_ext; [|apply Hall'; auto].
      apply Ho1. intros Heq. apply Hnot. rewrite <- Heq. now apply in_map. }
    destruct (IH s1 t1 Hn1 Hnd' Hall1) as (s2 & t2 & E2 & Hin2 & Hout2 & Hn2).
    exists s2, t2. split; [exact E2|]. split; [|split; [|exact Hn2]].
    + intros x [->|Hx].
      * rewrite Hout2; auto.
      * rewrite (Hin2 x Hx). apply effect_ext. apply Ho1. intros Heq. apply Hnot. rewrite <- Heq. now apply in_map.
    + intros k Hk. rewrite Hout2; [apply Ho1|]; intros H; apply Hk; cbn; auto.
Qed.

(* ---------------------------------------------------------------- lock rounds *)

Lemma lock_round_first_finishes : forall i ks r, exists f w, lock_round [] ((i, ks) :: r) = (i :: f, w).
Proof.
  intros i ks r. cbn. assert (H : disjointb ks [] = true).
  { unfold disjointb. apply forallb_forall. intros x _. reflexivity. }
  rewrite H. destruct (lock_round (ks ++ []) r) as [f w]. eauto.
Qed.

Lemma lock_round_lengths : forall cs held, (length (fst (lock_round held cs)) + length (snd (lock_round held cs)) = length cs)%nat.
Proof.
  induction cs as [|[i ks] r IH]; cbn; intros held; auto.
  destruct (disjointb ks held).
  - specialize (IH (ks ++ held)). destruct (lock_round (ks ++ held) r) as [f w]. cbn in *. lia.
  - specialize (IH held). destruct (lock_round held r) as [f w]. cbn in *. lia.
Qed.

Lemma lock_round_shrinks : forall c r, (length (snd (lock_round [] (c :: r))) < length (c :: r))%nat.
Proof.
  intros [i ks] r. destruct (lock_round_first_finishes i ks r) as (f & w & E).
  pose proof (lock_round_lengths ((i, ks) :: r) []) as H. rewrite E in *. cbn in *. lia.
Qed.

(* the scheduler may present the contenders in a different order in every round *)
Inductive finishes : list (nat * lockset) -> nat -> Prop :=
| fin_nil : finishes [] 0
| fin_round : forall cs cs' n, cs <> [] -> Permutation cs cs' -> finishes (snd (lock_round [] cs')) n -> finishes cs (S n).

Lemma finishes_bound : forall cs n, finishes cs n -> (n <= length cs)%nat.
Proof.
  intros cs n H. induction H as [|cs cs' n Hne Hp Hf IH]; auto.
  destruct cs' as [|c r]; [apply Permutation_sym, Permutation_nil in Hp; congruence|].
  pose proof (lock_round_shrinks c r). rewrite (Permutation_length Hp). lia.
Qed.

Lemma finishes_exists : forall m cs, (length cs <= m)%nat -> exists n, finishes cs n.
Proof.
  induction m as [|m IH]; intros cs Hl.
  - destruct cs; [exists O; constructor|cbn in Hl; lia].
  - destruct cs as [|c r]; [exists O; constructor|].
    pose proof (lock_round_shrinks c r) as Hs.
    destruct (IH (snd (lock_round [] (c :: r)))) as [n Hn]; [cbn in *; lia|].
    exists (S n). eapply fin_round with (cs' := c :: r); eauto; discriminate.
Qed.

(* Proofs about the node-level model: soundness of the bounded explorer, the
   lifting of a per-call simulation to whole runs, and the witnesses that refute
   the full statements on the faithful model (each reproduced on the real code by
   a deterministic corpus case of the harness). *)
From Coq Require Import List ZArith NArith Bool Lia.
From SopVerif Require Import OMap Btree BtreeSim.
Import ListNotations.
Local Open Scope Z_scope.

(* ------------------------------------------------------------------ explorer *)
Lemma explore_sound : forall cfg alpha n b s, explore cfg alpha n b s = true ->
  forall ops, (length ops <= n)%nat -> Forall (fun o => In o alpha) ops -> sim_from cfg b s ops = true.
Proof.
  intros cfg alpha n. induction n as [|n IH]; intros b s He ops Hl Hin.
  - destruct ops; [reflexivity|cbn in Hl; lia].
  - destruct ops as [|o r]; [reflexivity|].
    inversion Hin as [|? ? Ho Hr]; subst. cbn [explore] in He.
    rewrite forallb_forall in He. specialize (He o Ho). cbn [sim_from].
    destruct (sim_step cfg b s o) as [[b' s']|]; [|discriminate].
    apply IH; auto. cbn in Hl. lia.
Qed.

(* ------------------------------------------------------------------ lifting *)
Section Lifting.
  Variable cfg : bcfg.
  Variable R : bstate -> omap -> Prop.          (* simulation relation (invariant + abstraction) *)
  Variable allowed : op -> Prop.                (* the calls the per-call simulation covers *)
  Hypothesis step_sim : forall b s o, R b s -> allowed o ->
    exists b' s', sim_step cfg b s o = Some (b', s') /\ R b' s'.

  Theorem sim_lift : forall ops b s, R b s -> Forall allowed ops -> sim_from cfg b s ops = true.
  Proof.
    induction ops as [|o r IH]; intros b s HR Hall; [reflexivity|].
    inversion Hall as [|? ? Ho Hr]; subst.
    destruct (step_sim b s o HR Ho) as [b' [s' [Hs HR']]]. cbn [sim_from]. rewrite Hs. apply IH; auto.
  Qed.
End Lifting.

(* what sim_from = true means, call by call *)
Lemma sim_from_app : forall cfg ops1 ops2 b s, sim_from cfg b s (ops1 ++ ops2) = true ->
  sim_from cfg b s ops1 = true.
Proof.
  intros cfg. induction ops1 as [|o r IH]; intros ops2 b s H; [reflexivity|].
  cbn in *. destruct (sim_step cfg b s o) as [[b' s']|]; [|discriminate]. eapply IH; eauto.
Qed.

(* ------------------------------------------------------------------ witnesses *)
Definition lb_witness_ghost : list op :=
  [OAdd 3 113;
   OAdd (-1) 114;
   OAdd 6 115;
   OAdd 3 131;
   OAddIfNotExist 4 132;
   OAddIfNotExist 7 134;
   OAdd 5 149;
   OAdd 0 150;
   OAdd (-1) 152;
   OAdd (-1) 154;
   OAdd 5 178;
   ORemove (-1);
   ORemove 3;
   OFind 3 false;
   ORemoveCurrent;
   ORemove 0;
   OAdd 1 228].

Definition lb_witness_unsorted : list op :=
  [OAddIfNotExist 11 103;
   OAddIfNotExist 12 104;
   OAdd 7 108;
   OAdd 10 109;
   OAdd 8 119;
   OAdd 11 121;
   OUpsert (-1) 127;
   OAdd 7 156;
   OAdd 1 158;
   ORemove 11;
   ORemove (-1);
   ORemove 11;
   OFind 1 false;
   ORemoveCurrent;
   OAdd 0 213;
   OAdd 5 215].

Definition lb_witness_content : list op :=
  [OAdd 11 106;
   OAdd 7 107;
   OAdd 0 110;
   OAdd 12 122;
   OAdd 11 123;
   OAdd 1 126;
   OAdd 11 127;
   OAdd 9 128;
   OAdd 11 129;
   OUpsert 3 132;
   OAdd 4 133;
   OAdd 3 134;
   OAdd 2 135;
   OAdd 9 136;
   ORemove 12;
   ORemove 4;
   ORemove 9;
   OLast;
   ORemoveCurrent;
   OAdd 10 204;
   OAdd 11 211].

Definition cfg_lb2 : bcfg := mkCfg 2 false true.

(* leaf load balancing on, slot length 2: the in-order walk stops being sorted /
   holds a ghost zero item / Count() is wrong; the same sequences with load
   balancing off keep refining the specification *)
Lemma lb_unsorted_witness :
  sortedb (b_inorder (fst (brun cfg_lb2 empty_bstate lb_witness_unsorted))) = false
  /\ sim_run (mkCfg 2 false false) lb_witness_unsorted = true.
Proof. vm_compute. split; reflexivity. Qed.

Lemma lb_ghost_witness :
  let b := fst (brun cfg_lb2 empty_bstate lb_witness_ghost) in
  existsb (fun x => N.eqb (iid x) 0) (b_inorder b) = true
  /\ Z.eqb (bcount b) (Z.of_nat (length (b_inorder b))) = false
  /\ sim_run (mkCfg 2 false false) lb_witness_ghost = true.
Proof. vm_compute. repeat split; reflexivity. Qed.

Lemma lb_content_witness :
  sim_run cfg_lb2 lb_witness_content = false /\ sim_run (mkCfg 2 false false) lb_witness_content = true.
Proof. vm_compute. split; reflexivity. Qed.

(* a key-changing update right after a failed unique Add: rejected by a panic *)
Definition reject_witness : list op := [OAdd 1 1; OAdd 1 2; OUpdateCurrentKey 2].
Lemma reject_panic_witness :
  let '(b, rs) := brun (mkCfg 4 true false) empty_bstate reject_witness in
  map rerr rs = [ENone; ENone; EPanic] /\ map rok rs = [true; false; false]
  /\ map ikey (b_inorder b) = [1].
Proof. vm_compute. repeat split; reflexivity. Qed.

(* Find(0,false) answers true from an emptied slot although key 0 is absent *)
Definition ghost_witness : list op := [OAdd 1 1; OAdd 2 2; OFind 2 false; OAdd 3 3; OFind 0 false].
Lemma find_ghost_witness :
  let '(b, rs) := brun (mkCfg 2 false false) empty_bstate ghost_witness in
  map rok rs = [true; true; true; true; true] /\ map ikey (b_inorder b) = [1; 2; 3]
  /\ sim_run (mkCfg 2 false false) ghost_witness = true.
Proof. vm_compute. repeat split; reflexivity. Qed.

(* FindWithID(1, id of the item with key 2) succeeds *)
Definition foreign_witness : list op := [OAdd 1 1; OAdd 2 2; OFindWithID 1 2%N].
Lemma find_id_foreign_witness :
  let '(b, rs) := brun (mkCfg 4 false false) empty_bstate foreign_witness in
  map rok rs = [true; true; true] /\ bcurrent_key b = mkItem 2%N 2 0.
Proof. vm_compute. repeat split; reflexivity. Qed.

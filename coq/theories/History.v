(* History.v -- recorded transaction histories over a key/value store and the
   serializability checker used as the C02/C03 oracle.  Definitions only.

   A history is what the harness records around the public B-tree API: for every
   finished transaction the operations it issued WITH the results the
   implementation returned, and whether its Commit returned nil.  The
   sequential specification is the obvious one: a store is a finite map from
   keys to values. *)
From Coq Require Import List NArith Bool Permutation.
Import ListNotations.

Definition key := N.
Definition val := N.

(* a store state: association list, first binding wins, [None] = absent *)
Definition state := list (key * option val).

Fixpoint lookup (k : key) (s : state) : option val :=
  match s with
  | [] => None
  | (k', v) :: r => if N.eqb k k' then v else lookup k r
  end.

Definition upd (k : key) (v : option val) (s : state) : state := (k, v) :: s.

(* one API call together with the answer the implementation gave *)
Inductive op :=
| OGet (k : key) (r : option val)        (* Find(k)+GetCurrentValue: Some v, or None = not found *)
| OAdd (k : key) (v : val) (ok : bool)   (* Add: ok = false when the key already exists (unique store) *)
| OUpd (k : key) (v : val) (ok : bool)   (* Update: ok = false when the key does not exist *)
| ORem (k : key) (ok : bool).            (* Remove: ok = false when the key does not exist *)

Definition opt_eqb (a b : option val) : bool :=
  match a, b with
  | Some x, Some y => N.eqb x y
  | None, None => true
  | _, _ => false
  end.

Definition present (o : option val) : bool := match o with Some _ => true | None => false end.

(* sequential semantics: [None] when the recorded answer is not the one a map gives *)
Definition apply_op (s : state) (o : op) : option state :=
  match o with
  | OGet k r => if opt_eqb (lookup k s) r then Some s else None
  | OAdd k v ok =>
      if present (lookup k s) then (if ok then None else Some s)
      else (if ok then Some (upd k (Some v) s) else None)
  | OUpd k v ok =>
      if present (lookup k s) then (if ok then Some (upd k (Some v) s) else None)
      else (if ok then None else Some s)
  | ORem k ok =>
      if present (lookup k s) then (if ok then Some (upd k None s) else None)
      else (if ok then None else Some s)
  end.

Fixpoint apply_ops (s : state) (l : list op) : option state :=
  match l with
  | [] => Some s
  | o :: r => match apply_op s o with Some s' => apply_ops s' r | None => None end
  end.

Record txn := mkTxn { t_id : N; t_ops : list op; t_committed : bool }.

Record history := mkHist {
  h_init : state;          (* store content before the first transaction *)
  h_txns : list txn;       (* every finished transaction, committed or not *)
  h_final : state          (* store content after the last one (read by a later transaction) *)
}.

Fixpoint run_txns (s : state) (l : list txn) : option state :=
  match l with
  | [] => Some s
  | t :: r => match apply_ops s (t_ops t) with Some s' => run_txns s' r | None => None end
  end.

Definition committed_of (h : history) : list txn := filter t_committed (h_txns h).

Definition op_key (o : op) : key :=
  match o with OGet k _ => k | OAdd k _ _ => k | OUpd k _ _ => k | ORem k _ => k end.

Definition state_eq (a b : state) : Prop := forall k, lookup k a = lookup k b.

Definition state_eqb (a b : state) : bool :=
  forallb (fun k => opt_eqb (lookup k a) (lookup k b)) (map fst a ++ map fst b).

(* [order] explains the history: run one at a time in that order from the initial
   state, every operation returns what was recorded and the store ends as recorded *)
Definition explains (h : history) (order : list txn) : Prop :=
  exists s, run_txns (h_init h) order = Some s /\ state_eq s (h_final h).

Definition explainsb (h : history) (order : list txn) : bool :=
  match run_txns (h_init h) order with
  | Some s => state_eqb s (h_final h)
  | None => false
  end.

(* the property: some order of the COMMITTED transactions (readers included) explains
   every recorded answer and the final content; aborted transactions explain nothing *)
Definition serializable (h : history) : Prop :=
  exists order, Permutation order (committed_of h) /\ explains h order.

(* all permutations of a list *)
Fixpoint inserts {A} (a : A) (l : list A) : list (list A) :=
  match l with
  | [] => [[a]]
  | x :: t => (a :: x :: t) :: map (cons x) (inserts a t)
  end.

Fixpoint perms {A} (l : list A) : list (list A) :=
  match l with
  | [] => [[]]
  | a :: t => flat_map (inserts a) (perms t)
  end.

(* the checker: exact (every order of the committed transactions is tried) *)
Definition ser_check (h : history) : bool :=
  existsb (explainsb h) (perms (committed_of h)).

(* certificate variant: the committed transactions in the order given by ids *)
Definition find_txn (l : list txn) (i : N) : option txn :=
  find (fun t => N.eqb (t_id t) i) l.

Fixpoint pick_order (l : list txn) (ids : list N) : list txn :=
  match ids with
  | [] => []
  | i :: r => match find_txn l i with Some t => t :: pick_order l r | None => pick_order l r end
  end.

(* BOUNDED theorems (vm_compute over a finite domain, the bound is in the statement):
   Btree refines OMap on every call sequence up to the stated length over the stated
   alphabet.  These are NOT the C17 claim; they cover the part of the refinement that
   is not proved by induction (see Props/C17.v). *)
From Coq Require Import List ZArith NArith Bool.
From SopVerif Require Import OMap Btree BtreeSim BtreeProofs.
Import ListNotations.
Local Open Scope Z_scope.

Definition alpha_mixed : list op :=
  [OAdd 1 1; OAdd 2 2; OAdd 3 3; ORemove 1; ORemove 2; OFirst; OLast; ONext; OPrev; ORemoveCurrent;
   OFind 2 false; OFind 2 true; OFindDesc 2; OAddIfNotExist 2 7; OUpdateCurrentKey 3].

(* BOUNDED: every sequence of at most 5 calls from a mixed alphabet (mutation, navigation, search,
   cursor-relative removal, key-changing update), slot length 2, duplicates allowed *)
Theorem bounded_L2_dup_mixed : forall ops, (length ops <= 5)%nat -> Forall (fun o => In o alpha_mixed) ops ->
  sim_run (mkCfg 2 false false) ops = true.
Proof. apply explore_sound. vm_cast_no_check (eq_refl true). Qed.

(* Spec-side theorems of C17/C18 over OMap: scans, counts, rejected key changes,
   find positions, FindWithID, ranges. *)
From Coq Require Import List ZArith NArith Bool Lia Arith.
From Coq Require Import ZifyBool ZifyNat ZifyN.
From SopVerif Require Import OMap OMapProofs.
Import ListNotations.
Local Open Scope Z_scope.

(* ------------------------------------------------------------------ scans *)
Lemma skipn_nth_cons : forall (l : list item) i x, nth_error l i = Some x -> skipn i l = x :: skipn (S i) l.
Proof.
  induction l as [|y r IH]; intros [|i] x H; cbn in *; try discriminate.
  - congruence.
  - apply IH. exact H.
Qed.

Lemma current_key_at : forall s i x, cur s = CAt i -> cached s = true -> nth_error (items s) i = Some x ->
  current_key s = key_id x.
Proof.
  intros s i x Hc Hca Hn. unfold current_key, cur_item. rewrite Hca, Hc, Hn. reflexivity.
Qed.

Lemma scan_next_spec : forall fuel s i, cur s = CAt i -> cached s = true -> (i < length (items s))%nat ->
  (length (items s) - i <= fuel)%nat -> scan_next s fuel = map key_id (skipn i (items s)).
Proof.
  induction fuel as [|f IH]; intros s i Hc Hca Hi Hf; [lia|].
  destruct (nth_error (items s) i) as [x|] eqn:En; [|apply nth_error_None in En; lia].
  cbn [scan_next]. rewrite (current_key_at s i x Hc Hca En).
  rewrite (skipn_nth_cons _ _ _ En). cbn [map].
  unfold move_next. destruct (items s) as [|x0 r0] eqn:El; [cbn in Hi; lia|]. rewrite <- El in *.
  rewrite Hc. destruct (Nat.ltb (S i) (length (items s))) eqn:E.
  - cbn [rok ok_res]. f_equal. apply Nat.ltb_lt in E.
    rewrite (IH (set_cur s (CAt (S i)) true) (S i)); cbn; auto. lia.
  - cbn [rok ok_res]. apply Nat.ltb_ge in E. rewrite skipn_all2 by lia. reflexivity.
Qed.

Theorem scan_forward_spec : forall u s, scan_forward u s = map key_id (items s).
Proof.
  intros u s. unfold scan_forward. cbn [ostep].
  destruct (items s) as [|x0 r0] eqn:El; [reflexivity|].
  cbn [rok ok_res]. rewrite <- El.
  rewrite (scan_next_spec _ (set_cur s (CAt 0) true) 0%nat); cbn; auto; rewrite El; cbn; lia.
Qed.

Lemma firstn_S_rev : forall (l : list item) i x, nth_error l i = Some x ->
  rev (firstn (S i) l) = x :: rev (firstn i l).
Proof.
  induction l as [|y r IH]; intros [|i] x H; cbn in *; try discriminate.
  - congruence.
  - rewrite (IH i x H). cbn. reflexivity.
Qed.

Lemma scan_prev_spec : forall fuel s i, cur s = CAt i -> cached s = true -> (i < length (items s))%nat ->
  (S i <= fuel)%nat -> scan_prev s fuel = map key_id (rev (firstn (S i) (items s))).
Proof.
  induction fuel as [|f IH]; intros s i Hc Hca Hi Hf; [lia|].
  destruct (nth_error (items s) i) as [x|] eqn:En; [|apply nth_error_None in En; lia].
  cbn [scan_prev]. rewrite (current_key_at s i x Hc Hca En).
  rewrite (firstn_S_rev _ _ _ En). cbn [map].
  unfold move_prev. destruct (items s) as [|x0 r0] eqn:El; [cbn in Hi; lia|]. rewrite <- El in *.
  rewrite Hc. destruct i as [|j].
  - cbn [rok ok_res]. reflexivity.
  - cbn [rok ok_res]. f_equal.
    rewrite (IH (set_cur s (CAt j) true) j); cbn; auto; lia.
Qed.

Theorem scan_backward_spec : forall u s, scan_backward u s = map key_id (rev (items s)).
Proof.
  intros u s. unfold scan_backward. cbn [ostep].
  destruct (items s) as [|x0 r0] eqn:El; [reflexivity|].
  cbn [rok ok_res]. rewrite <- El.
  assert (Hlen : (0 < length (items s))%nat) by (rewrite El; cbn; lia).
  set (n := length (items s)) in *.
  rewrite (scan_prev_spec n (set_cur s (CAt (pred n)) true) (pred n) eq_refl eq_refl);
    [|cbn [items set_cur]; fold n; lia|lia].
  cbn [items set_cur]. replace (S (pred n)) with n by lia. unfold n. rewrite firstn_all. reflexivity.
Qed.

(* ------------------------------------------------------------------ counts *)
Lemma find_any_items : forall s k h s' b, find_any s k h = Some (s', b) -> items s' = items s.
Proof.
  intros s k h s' b H. unfold find_any in H. destruct (items s) eqn:El; [inversion H; subst; auto|].
  destruct (selected s && _); [inversion H; subst; auto|].
  destruct (has_key _ k).
  - destruct (hint_on_key _ h k); inversion H; subst; auto.
  - destruct (hint_near _ h _); inversion H; subst; auto.
Qed.

Lemma do_add_count : forall uq s k v h s' b, do_add uq s k v h = Some (s', b) ->
  (b = true /\ length (items s') = S (length (items s)) /\ (uq = true -> has_key (items s) k = false))
  \/ (b = false /\ items s' = items s /\ has_key (items s) k = true).
Proof.
  intros uq s k v h s' b H. unfold do_add in H.
  destruct (uq && has_key (items s) k) eqn:E.
  - destruct (hint_on_key _ h k); [|discriminate]. inversion H; subst. right.
    apply andb_true_iff in E. cbn. tauto.
  - destruct (resolve _ h); [|discriminate]. destruct (havoc_ok _ _); [|discriminate].
    inversion H; subst. left. cbn. rewrite insert_at_length. repeat split; auto.
    intros ->. cbn in E. exact E.
Qed.

Lemma remove_current_count : forall s s' r, remove_current s = (s', r) ->
  (rok r = true /\ S (length (items s')) = length (items s)) \/ (rok r = false /\ s' = s).
Proof.
  intros s s' r H. unfold remove_current in H.
  destruct (cur s) as [|i|]; try (inversion H; subst; right; auto; fail).
  destruct (Nat.ltb i (length (items s))) eqn:E; inversion H; subst; [left|right; auto].
  cbn. split; auto. apply remove_at_length. apply Nat.ltb_lt. exact E.
Qed.

(* an add reports true exactly when the store grew by one; a conditional add is
   refused exactly when the key is present *)
Theorem count_add : forall u s k v h s' r, ostep u s (OAdd k v) h = Some (s', r) ->
  ocount s' = ocount s + (if rok r then 1 else 0) /\
  (u = true -> rok r = negb (has_key (items s) k)) /\ (u = false -> rok r = true).
Proof.
  intros u s k v h s' r H. cbn [ostep] in H.
  destruct (do_add u s k v (h_cur h)) as [[s1 b]|] eqn:E; [|discriminate]. inversion H; subst. clear H.
  pose proof E as E'. apply do_add_count in E as [[-> [Hl Hu]]|[-> [Hi Hh]]]; cbn [rok ok_res]; unfold ocount.
  - rewrite Hl. split; [lia|]. split; [intros Hu'; rewrite (Hu Hu'); reflexivity|reflexivity].
  - rewrite Hi. split; [lia|]. split; [intros _; rewrite Hh; reflexivity|].
    intros ->. unfold do_add in E'. cbn in E'.
    destruct (resolve _ _); [|discriminate]. destruct (havoc_ok _ _); discriminate.
Qed.

Theorem count_add_if_not_exist : forall u s k v h s' r, ostep u s (OAddIfNotExist k v) h = Some (s', r) ->
  ocount s' = ocount s + (if rok r then 1 else 0) /\ rok r = negb (has_key (items s) k).
Proof.
  intros u s k v h s' r H. cbn [ostep] in H.
  destruct (do_add true s k v (h_cur h)) as [[s1 b]|] eqn:E; [|discriminate]. inversion H; subst. clear H.
  apply do_add_count in E as [[-> [Hl Hu]]|[-> [Hi Hh]]]; cbn [rok ok_res]; unfold ocount.
  - rewrite Hl, (Hu eq_refl). split; [lia|reflexivity].
  - rewrite Hi, Hh. split; [lia|reflexivity].
Qed.

Theorem count_remove_current : forall u s h s' r, ostep u s ORemoveCurrent h = Some (s', r) ->
  ocount s' = ocount s - (if rok r then 1 else 0).
Proof.
  intros u s h s' r H. cbn [ostep lift] in H. inversion H as [H1].
  apply remove_current_count in H1 as [[-> Hl]|[-> ->]]; unfold ocount; lia.
Qed.

Theorem count_remove : forall u s k h s' r, ostep u s (ORemove k) h = Some (s', r) ->
  ocount s' = ocount s - (if rok r then 1 else 0).
Proof.
  intros u s k h s' r H. cbn [ostep] in H.
  destruct (find_any s k _) as [[s1 [|]]|] eqn:E; try discriminate.
  - apply find_any_items in E. cbn [lift] in H. inversion H as [H1].
    apply remove_current_count in H1 as [[-> Hl]|[-> ->]]; unfold ocount; rewrite <- E; lia.
  - apply find_any_items in E. inversion H; subst. cbn. unfold ocount. rewrite E. lia.
Qed.

(* ------------------------------------------------------------------ key-changing updates *)
Theorem reject_key_change : forall s i x k v, cur s = CAt i -> nth_error (items s) i = Some x -> ikey x <> k ->
  update_current s k v = (s, reject s).
Proof.
  intros s i x k v Hc Hn Hk. unfold update_current. rewrite Hc, Hn.
  destruct (ikey x =? k) eqn:E; [lia|reflexivity].
Qed.

Lemma reject_not_ok : forall s, rok (reject s) = false /\ rerr (reject s) <> ENone.
Proof. intros s. unfold reject. destruct (cached s); cbn; split; auto; discriminate. Qed.

Definition is_update (o : op) : bool :=
  match o with
  | OUpdate _ _ | OUpdateKey _ | OUpdateCurrentItem _ _ | OUpdateCurrentValue _ | OUpdateCurrentKey _ => true
  | _ => false
  end.

(* no update call ever changes a key, an id or the order of the items *)
Theorem update_keeps_keys : forall u s o h s' r, Inv u s -> is_update o = true ->
  ostep u s o h = Some (s', r) -> map key_id (items s') = map key_id (items s).
Proof.
  intros u s o h s' r HI Hu H. destruct o; try discriminate; cbn [ostep lift] in H.
  - destruct (find_any s k (h_cur h)) as [[s1 [|]]|] eqn:E; try discriminate.
    + pose proof (find_any_inv u _ _ _ _ _ HI E) as [HI1 [Hit _]]. inversion H as [H1].
      apply update_current_inv with (u := u) in H1 as [_ Hm]; auto. rewrite Hm, Hit. reflexivity.
    + apply find_any_items in E. inversion H; subst. rewrite E. reflexivity.
  - destruct (find_any s k (h_cur h)) as [[s1 [|]]|] eqn:E; try discriminate.
    + pose proof (find_any_inv u _ _ _ _ _ HI E) as [HI1 [Hit _]]. inversion H as [H1].
      apply update_current_inv with (u := u) in H1 as [_ Hm]; auto. rewrite Hm, Hit. reflexivity.
    + apply find_any_items in E. inversion H; subst. rewrite E. reflexivity.
  - inversion H as [H1]. apply update_current_inv with (u := u) in H1; tauto.
  - inversion H as [H1]. apply update_current_value_inv with (u := u) in H1; tauto.
  - inversion H as [H1]. apply update_current_inv with (u := u) in H1; tauto.
Qed.

(* ------------------------------------------------------------------ find positions *)
Lemma key_at_nth : forall l i x, nth_error l i = Some x -> key_at l i = ikey x.
Proof. intros l i x H. unfold key_at. rewrite (nth_error_nth _ _ zero_item H). reflexivity. Qed.

Lemma lb_before_idx : forall l k j, (j < lb l k)%nat -> key_at l j < k.
Proof.
  intros l k j Hj. pose proof (lb_le l k).
  destruct (nth_error l j) as [x|] eqn:E; [|apply nth_error_None in E; lia].
  rewrite (key_at_nth _ _ _ E). apply (lb_before l k). eapply nth_error_in_firstn; eauto.
Qed.

Lemma lb_after_idx : forall l k j, sorted l -> (lb l k <= j < length l)%nat -> k <= key_at l j.
Proof.
  intros l k j Hs Hj.
  destruct (nth_error l j) as [x|] eqn:E; [|apply nth_error_None in E; lia].
  rewrite (key_at_nth _ _ _ E). apply (lb_after l k); auto. eapply nth_error_in_skipn; eauto. lia.
Qed.

Lemma ub_before_idx : forall l k j, (j < ub l k)%nat -> key_at l j <= k.
Proof.
  intros l k j Hj. pose proof (ub_le l k).
  destruct (nth_error l j) as [x|] eqn:E; [|apply nth_error_None in E; lia].
  rewrite (key_at_nth _ _ _ E). apply (ub_before l k). eapply nth_error_in_firstn; eauto.
Qed.

Lemma ub_after_idx : forall l k j, sorted l -> (ub l k <= j < length l)%nat -> k < key_at l j.
Proof.
  intros l k j Hs Hj.
  destruct (nth_error l j) as [x|] eqn:E; [|apply nth_error_None in E; lia].
  rewrite (key_at_nth _ _ _ E). apply (ub_after l k); auto. eapply nth_error_in_skipn; eauto. lia.
Qed.

Lemma miss_strict : forall l k j, sorted l -> has_key l k = false -> (lb l k <= j < length l)%nat -> k < key_at l j.
Proof.
  intros l k j Hs Hh Hj. rewrite (lb_miss_eq_ub _ _ Hh) in Hj. apply ub_after_idx; auto.
Qed.

(* Find(k, true): on a hit the cursor is on the least index holding the key; on a
   miss it is adjacent to the insertion point, everything before which is smaller
   and everything from which on is greater *)
Theorem find_first_spec : forall u s k h s' r, Inv u s -> items s <> [] ->
  ostep u s (OFind k true) h = Some (s', r) ->
  let l := items s in
  items s' = l /\
  (has_key l k = true ->
     rok r = true /\ cur s' = CAt (lb l k) /\ key_at l (lb l k) = k /\ (lb l k < length l)%nat /\
     forall j, (j < lb l k)%nat -> key_at l j < k) /\
  (has_key l k = false ->
     rok r = false /\ exists i, cur s' = CAt i /\ (i < length l)%nat /\ (i = lb l k \/ S i = lb l k) /\
     (forall j, (j < lb l k)%nat -> key_at l j < k) /\
     (forall j, (lb l k <= j < length l)%nat -> k < key_at l j)).
Proof.
  intros u s k h s' r HI Hne H. cbv zeta. cbn [ostep] in H. unfold find_first in H.
  destruct (items s) as [|x0 r0] eqn:El; [congruence|]. rewrite <- El in *. set (l := items s) in *.
  destruct (has_key l k) eqn:Hh.
  - inversion H; subst. cbn. split; auto. split; [|discriminate]. intros _.
    destruct (lb_hit l k (inv_sorted u s HI) Hh) as [x [Hn Hk]].
    repeat split; auto.
    + rewrite (key_at_nth _ _ _ Hn). exact Hk.
    + apply nth_error_Some. congruence.
    + apply lb_before_idx.
  - destruct (hint_near l (h_cur h) (lb l k)) as [i|] eqn:E; [|discriminate]. inversion H; subst. cbn.
    split; auto. split; [discriminate|]. intros _. split; auto.
    apply hint_near_spec in E as [Hi Hadj]. exists i. repeat split; auto.
    + apply lb_before_idx.
    + intros j Hj. apply miss_strict; auto. apply (inv_sorted u s HI).
Qed.

(* FindInDescendingOrder: the greatest index holding the key *)
Theorem find_desc_spec : forall u s k h s' r, Inv u s -> items s <> [] ->
  ostep u s (OFindDesc k) h = Some (s', r) ->
  let l := items s in
  items s' = l /\
  (has_key l k = true ->
     rok r = true /\ cur s' = CAt (pred (ub l k)) /\ key_at l (pred (ub l k)) = k /\ (0 < ub l k <= length l)%nat /\
     forall j, (ub l k <= j < length l)%nat -> k < key_at l j) /\
  (has_key l k = false ->
     rok r = false /\ exists i, cur s' = CAt i /\ (i < length l)%nat /\ (i = ub l k \/ S i = ub l k) /\
     (forall j, (j < ub l k)%nat -> key_at l j < k) /\
     (forall j, (ub l k <= j < length l)%nat -> k < key_at l j)).
Proof.
  intros u s k h s' r HI Hne H. cbv zeta. cbn [ostep] in H. unfold find_desc in H.
  destruct (items s) as [|x0 r0] eqn:El; [congruence|]. rewrite <- El in *. set (l := items s) in *.
  destruct (has_key l k) eqn:Hh.
  - inversion H; subst. cbn. split; auto. split; [|discriminate]. intros _.
    destruct (ub_hit l k (inv_sorted u s HI) Hh) as [Hpos [x [Hn Hk]]].
    pose proof (ub_le l k). repeat split; auto.
    + rewrite (key_at_nth _ _ _ Hn). exact Hk.
    + intros j Hj. apply ub_after_idx; auto. apply (inv_sorted u s HI).
  - destruct (hint_near l (h_cur h) (ub l k)) as [i|] eqn:E; [|discriminate]. inversion H; subst. cbn.
    split; auto. split; [discriminate|]. intros _. split; auto.
    apply hint_near_spec in E as [Hi Hadj]. exists i. repeat split; auto.
    + intros j Hj. rewrite <- (lb_miss_eq_ub _ _ Hh) in Hj. apply lb_before_idx. exact Hj.
    + intros j Hj. apply ub_after_idx; auto. apply (inv_sorted u s HI).
Qed.

(* Find(k, false) when the cursor is not on an emptied slot: true exactly when the
   key is stored, and then the cursor is on an item with that key *)
Theorem find_any_spec : forall u s k h s' r, Inv u s -> items s <> [] -> cur s <> CGhost ->
  ostep u s (OFind k false) h = Some (s', r) ->
  items s' = items s /\ rok r = has_key (items s) k /\
  (rok r = true -> exists i x, cur s' = CAt i /\ nth_error (items s) i = Some x /\ ikey x = k).
Proof.
  intros u s k h s' r HI Hne Hg H. cbn [ostep] in H. unfold find_any in H.
  destruct (items s) as [|x0 r0] eqn:El; [congruence|]. rewrite <- El in *.
  destruct (selected s && match cur_item s with Some x => ikey x =? k | None => false end) eqn:Esel.
  - inversion H; subst. cbn. split; auto.
    apply andb_true_iff in Esel as [_ Hhit]. unfold cur_item in Hhit.
    destruct (cur s) as [|i|] eqn:Ec; try discriminate; [|congruence].
    destruct (nth_error (items s) i) as [x|] eqn:En; [|discriminate].
    assert (Hh : has_key (items s) k = true).
    { apply has_key_In. exists x. split; [eapply nth_error_In; eauto|lia]. }
    rewrite Hh. split; auto. intros _. exists i, x. repeat split; auto. lia.
  - destruct (has_key (items s) k) eqn:Hh.
    + destruct (hint_on_key (items s) (h_cur h) k) as [i|] eqn:E; [|discriminate]. inversion H; subst. cbn.
      split; auto. split; auto. intros _. apply hint_on_key_spec in E as [Hi Hk].
      destruct (nth_error (items s) i) as [x|] eqn:En; [|apply nth_error_None in En; lia].
      exists i, x. repeat split; auto. rewrite <- (key_at_nth _ _ _ En). exact Hk.
    + destruct (hint_near (items s) (h_cur h) (lb (items s) k)) as [i|] eqn:E; [|discriminate]. inversion H; subst. cbn.
      split; auto. split; auto. discriminate.
Qed.

(* ------------------------------------------------------------------ FindWithID *)
Lemma scan_id_Some : forall l from id j, scan_id l from id = Some j ->
  (from <= j)%nat /\ exists x, nth_error l j = Some x /\ iid x = id.
Proof.
  induction l as [|y r IH]; intros from id j H; cbn in H; [discriminate|].
  destruct from as [|f].
  - destruct (N.eqb (iid y) id) eqn:E.
    + inversion H; subst. split; [lia|]. exists y. split; auto. apply N.eqb_eq. exact E.
    + destruct (scan_id r 0 id) eqn:E2; [|discriminate]. inversion H; subst.
      destruct (IH _ _ _ E2) as [_ Hx]. split; [lia|exact Hx].
  - destruct (scan_id r f id) eqn:E2; [|discriminate]. inversion H; subst.
    destruct (IH _ _ _ E2) as [Hf Hx]. split; [lia|exact Hx].
Qed.

Lemma scan_id_None : forall l from id j x, scan_id l from id = None ->
  (from <= j)%nat -> nth_error l j = Some x -> iid x <> id.
Proof.
  induction l as [|y r IH]; intros from id j x H Hj Hn; [destruct j; discriminate|].
  cbn in H. destruct from as [|f].
  - destruct (N.eqb (iid y) id) eqn:E; [discriminate|].
    destruct (scan_id r 0 id) eqn:E2; [discriminate|].
    destruct j as [|j]; cbn in Hn.
    + inversion Hn; subst. apply N.eqb_neq. exact E.
    + apply (IH 0%nat id j x E2); [lia|exact Hn].
  - destruct (scan_id r f id) eqn:E2; [discriminate|].
    destruct j as [|j]; [lia|]. cbn in Hn. apply (IH f id j x E2); [lia|exact Hn].
Qed.

Lemma NoDup_ids_index : forall (l : list item) i j x y, NoDup (map iid l) ->
  nth_error l i = Some x -> nth_error l j = Some y -> iid x = iid y -> i = j.
Proof.
  intros l i j x y Hnd Hi Hj He.
  assert (Hi' : nth_error (map iid l) i = Some (iid x)) by (rewrite nth_error_map, Hi; reflexivity).
  assert (Hj' : nth_error (map iid l) j = Some (iid y)) by (rewrite nth_error_map, Hj; reflexivity).
  rewrite <- He in Hj'.
  rewrite NoDup_nth_error in Hnd. apply Hnd.
  - apply nth_error_Some. congruence.
  - congruence.
Qed.

(* FindWithID(k, id): when it returns true the cursor is on the item with that id;
   the item (k, id), when stored, is always found; when the key is stored and no item
   with that id sits at or after the first item with the key, it fails *)
Theorem find_with_id_spec : forall u s k id h s' r, Inv u s ->
  ostep u s (OFindWithID k id) h = Some (s', r) ->
  let l := items s in
  items s' = l /\
  (rok r = true -> exists j x, cur s' = CAt j /\ nth_error l j = Some x /\ iid x = id /\ k <= ikey x) /\
  (forall j x, nth_error l j = Some x -> iid x = id -> ikey x = k -> rok r = true /\ cur s' = CAt j) /\
  (has_key l k = false -> rok r = false).
Proof.
  intros u s k id h s' r HI H. cbv zeta. cbn [ostep] in H.
  pose proof (inv_sorted u s HI) as Hs. destruct (inv_ids u s HI) as [Hnd _].
  destruct (find_first s k (h_cur h)) as [[s1 b]|] eqn:E; [|discriminate].
  pose proof (find_first_inv u _ _ _ _ _ HI E) as [_ [Hit _]].
  unfold find_first in E.
  destruct (items s) as [|x0 r0] eqn:El.
  { inversion E; subst. inversion H; subst. cbn. split; [auto|]. split; [discriminate|]. split; [|auto].
    intros j x Hn. destruct j; discriminate. }
  rewrite <- El in *. set (l := items s) in *.
  destruct (has_key l k) eqn:Hh.
  - inversion E; subst b. clear E.
    destruct (scan_id l (lb l k) id) as [j|] eqn:Es.
    + inversion H; subst. cbn. split; auto.
      destruct (scan_id_Some _ _ _ _ Es) as [Hj [x [Hn Hid]]].
      split; [|split; [|discriminate]].
      * intros _. exists j, x. repeat split; auto.
        rewrite <- (key_at_nth _ _ _ Hn). apply lb_after_idx; auto.
        split; [exact Hj|]. apply nth_error_Some. congruence.
      * intros j' x' Hn' Hid' _. split; auto. f_equal.
        eapply NoDup_ids_index; eauto. congruence.
    + inversion H; subst. cbn. split; auto. split; [discriminate|]. split; [|discriminate].
      intros j x Hn Hid Hk. exfalso.
      assert (Hj : (lb l k <= j)%nat).
      { destruct (Nat.le_gt_cases (lb l k) j) as [Hle|Hgt]; auto.
        pose proof (lb_before_idx l k j Hgt). rewrite (key_at_nth _ _ _ Hn) in H0. lia. }
      exact (scan_id_None _ _ _ _ _ Es Hj Hn Hid).
  - destruct (hint_near l (h_cur h) (lb l k)); [|discriminate]. inversion E; subst. inversion H; subst. cbn.
    split; auto. split; [discriminate|]. split; auto.
    intros j x Hn Hid Hk. exfalso.
    assert (has_key l (ikey x) = true); [|congruence].
    apply has_key_In. exists x. split; auto. eapply nth_error_In; eauto.
Qed.

(* ------------------------------------------------------------------ ranges *)
Definition in_range (from to : Z) (x : item) : bool := (from <=? ikey x) && (ikey x <=? to).

Lemma filter_none : forall (f : item -> bool) l, (forall x, In x l -> f x = false) -> filter f l = [].
Proof.
  induction l as [|y r IH]; intros H; cbn; auto.
  rewrite (H y (or_introl eq_refl)). apply IH. intros x Hx. apply H. right. exact Hx.
Qed.

Lemma range_from_filter : forall l j from to, sorted l -> (forall x, In x l -> from <= ikey x) ->
  fst (range_from l j to) = filter (in_range from to) l.
Proof.
  induction l as [|x r IH]; intros j from to Hs Hf; cbn; auto.
  destruct Hs as [Hx Hs]. unfold in_range at 1.
  pose proof (Hf x (or_introl eq_refl)).
  destruct (to <? ikey x) eqn:E.
  - replace ((from <=? ikey x) && (ikey x <=? to)) with false by lia. cbn.
    symmetry. apply filter_none. intros y Hy. specialize (Hx y Hy). unfold in_range. lia.
  - replace ((from <=? ikey x) && (ikey x <=? to)) with true by lia.
    specialize (IH (S j) from to Hs (fun y Hy => Hf y (or_intror Hy))).
    destruct (range_from r (S j) to) as [ys c]. cbn in *. f_equal. exact IH.
Qed.

(* Range(from, to) yields exactly the stored items with from <= key <= to, in order *)
Theorem C18_range_spec : forall u s from to h s' r, Inv u s ->
  ostep u s (ORange from to) h = Some (s', r) ->
  rout r = map kv (filter (in_range from to) (items s)) /\ items s' = items s.
Proof.
  intros u s from to h s' r HI H. cbn [ostep lift] in H. inversion H as [H1]. clear H.
  pose proof (inv_sorted u s HI) as Hs.
  unfold do_range in H1. destruct (items s) as [|x0 r0] eqn:El; [inversion H1; subst; cbn; auto|].
  rewrite <- El in *.
  set (l := items s) in *.
  pose proof (range_from_filter (skipn (lb l from) l) (lb l from) from to) as Hr.
  destruct (range_from (skipn (lb l from) l) (lb l from) to) as [ys c]. inversion H1; subst. cbn.
  split; auto. f_equal. cbn in Hr. rewrite Hr.
  - assert (Hsp : filter (in_range from to) l =
                   filter (in_range from to) (firstn (lb l from) l) ++ filter (in_range from to) (skipn (lb l from) l))
      by (rewrite <- filter_app, firstn_skipn; reflexivity).
    rewrite Hsp, (filter_none _ (firstn (lb l from) l)); [reflexivity|].
    intros x Hx. apply lb_before in Hx. unfold in_range. lia.
  - rewrite <- (firstn_skipn (lb l from) l) in Hs. apply sorted_app in Hs. tauto.
  - intros x Hx. apply (lb_after l from); auto.
Qed.

(* descending lists *)
Fixpoint sorted_desc (l : list item) : Prop :=
  match l with
  | [] => True
  | x :: r => (forall y, In y r -> ikey y <= ikey x) /\ sorted_desc r
  end.

Lemma sorted_desc_app_one : forall a x, sorted_desc a -> (forall y, In y a -> ikey x <= ikey y) -> sorted_desc (a ++ [x]).
Proof.
  induction a as [|z a IH]; intros x Ha Hx; cbn.
  - split; [intros ? []|exact I].
  - destruct Ha as [Hz Ha]. split.
    + intros y Hy. apply in_app_or in Hy as [Hy|[<-|[]]]; [auto|]. apply Hx. left. reflexivity.
    + apply IH; auto. intros y Hy. apply Hx. right. exact Hy.
Qed.

Lemma sorted_rev_desc : forall l, sorted l -> sorted_desc (rev l).
Proof.
  induction l as [|x r IH]; intros Hs; cbn; auto.
  destruct Hs as [Hx Hs]. apply sorted_desc_app_one; auto.
  intros y Hy. apply Hx. apply in_rev. exact Hy.
Qed.

Lemma range_down_filter : forall l j from to, sorted_desc l -> (forall x, In x l -> ikey x <= from) ->
  fst (range_down l j to) = filter (in_range to from) l.
Proof.
  induction l as [|x r IH]; intros j from to Hs Hf; cbn; auto.
  destruct Hs as [Hx Hs]. unfold in_range at 1.
  pose proof (Hf x (or_introl eq_refl)).
  destruct (ikey x <? to) eqn:E.
  - replace ((to <=? ikey x) && (ikey x <=? from)) with false by lia. cbn.
    symmetry. apply filter_none. intros y Hy. specialize (Hx y Hy). unfold in_range. lia.
  - replace ((to <=? ikey x) && (ikey x <=? from)) with true by lia.
    specialize (IH (pred j) from to Hs (fun y Hy => Hf y (or_intror Hy))).
    destruct (range_down r (pred j) to) as [ys c]. cbn in *. f_equal. exact IH.
Qed.

Lemma filter_rev : forall (f : item -> bool) l, filter f (rev l) = rev (filter f l).
Proof.
  induction l as [|x r IH]; cbn; auto. rewrite filter_app, IH. cbn.
  destruct (f x); cbn; [reflexivity|rewrite app_nil_r; reflexivity].
Qed.

(* RangeDesc(from, to) (from is the high bound) yields the items with to <= key <= from,
   in descending order: the reverse of the ascending range *)
Theorem C18_range_desc_spec : forall u s from to h s' r, Inv u s ->
  ostep u s (ORangeDesc from to) h = Some (s', r) ->
  rout r = map kv (rev (filter (in_range to from) (items s))) /\ items s' = items s.
Proof.
  intros u s from to h s' r HI H. cbn [ostep lift] in H. inversion H as [H1]. clear H.
  pose proof (inv_sorted u s HI) as Hs.
  unfold do_range_desc in H1. destruct (items s) as [|x0 r0] eqn:El; [inversion H1; subst; cbn; auto|].
  rewrite <- El in *.
  set (l := items s) in *.
  pose proof (range_down_filter (rev (firstn (ub l from) l)) (pred (ub l from)) from to) as Hr.
  destruct (range_down (rev (firstn (ub l from) l)) (pred (ub l from)) to) as [ys c]. inversion H1; subst. cbn.
  split; auto. f_equal. cbn in Hr. rewrite Hr.
  - rewrite filter_rev. f_equal.
    assert (Hsp : filter (in_range to from) l =
                   filter (in_range to from) (firstn (ub l from) l) ++ filter (in_range to from) (skipn (ub l from) l))
      by (rewrite <- filter_app, firstn_skipn; reflexivity).
    rewrite Hsp, (filter_none _ (skipn (ub l from) l)); [rewrite app_nil_r; reflexivity|].
    intros x Hx. apply (ub_after l from) in Hx; auto. unfold in_range. lia.
  - apply sorted_rev_desc. rewrite <- (firstn_skipn (ub l from) l) in Hs. apply sorted_app in Hs. tauto.
  - intros x Hx. apply in_rev in Hx. apply (ub_before l from). exact Hx.
Qed.

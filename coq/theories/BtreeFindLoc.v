(* Find(key, true) on a stored key with a LOCATED result: the found slot sits at position
   lb(list, key) of the in-order list, so the call re-establishes the navigation relation RelN
   and can be followed by Next / Previous (the node-level core of range scans). *)
From Coq Require Import List ZArith NArith Bool Lia.
From Coq Require Import ZifyBool ZifyNat ZifyN.
From SopVerif Require Import OMap OMapProofs OMapProofs2 Btree BtreeSim BtreeProofs BtreeProofs2 BtreeLemmas BtreeShape BtreeFind BtreeNext BtreePrev.
Import ListNotations.
Local Open Scope Z_scope.

Section OneNodeLb.
  Variables (n : node) (kids : list (list item)) (k : Z).
  Hypothesis Hcnt : 1 <= ncount n.
  Hypothesis Hlen : ncount n <= Z.of_nat (length (nslots n)).
  Hypothesis Hsorted : sorted (node_list n kids).
  Let idx := lb (occupied n) k.
  Let Bf := flat_map (piece n kids) (seq 0 idx).
  Let K := nth idx kids [].

  Lemma node_lb_in_kid : has_key K k = true ->
    lb (node_list n kids) k = (length Bf + lb K k)%nat.
  Proof.
    intros HK. rewrite (node_split n kids k Hcnt Hlen). fold idx Bf K.
    rewrite (lb_app_lt Bf _ k (B_lt n kids k Hcnt Hlen Hsorted)). f_equal.
    apply has_key_In in HK as [x [Hx Hk]]. assert (Hge : k <= ikey x) by lia.
    apply (lb_app_ge K _ k (ex_intro _ x (conj Hx Hge))).
  Qed.

  Lemma node_lb_on_slot : has_key K k = false -> (idx < Z.to_nat (ncount n))%nat ->
    ikey (nth idx (nslots n) zero_item) = k ->
    lb (node_list n kids) k = (length Bf + length K)%nat.
  Proof.
    intros HK Hi Hk. rewrite (node_split n kids k Hcnt Hlen). fold idx Bf K.
    rewrite (lb_app_lt Bf _ k (B_lt n kids k Hcnt Hlen Hsorted)). f_equal.
    assert (HKlt : forall x, In x K -> ikey x < k).
    { intros x Hx. pose proof (K_le_sl n kids k Hsorted x Hi Hx). fold idx in H.
      destruct (Z.eq_dec (ikey x) k) as [e|]; [|lia].
      assert (has_key K k = true) by (apply has_key_In; eauto). congruence. }
    rewrite (lb_app_lt K _ k HKlt). apply Nat.ltb_lt in Hi. fold idx. rewrite Hi. cbn [app lb].
    destruct (ikey (nth idx (nslots n) zero_item) <? k) eqn:E; [lia|]. lia.
  Qed.
End OneNodeLb.

(* the descent of node.find with the location of the found slot *)
Lemma find_loop_first_loc : forall H s L k id p T, pshape (bnodes s) L H id p T -> sorted T ->
  forall fuel, (H <= fuel)%nat -> forall fn fi,
  let r := find_loop fuel s k true id fn fi in
  (has_key T k = true -> exists d n' kids' A' B' j,
      loc (bnodes s) L d H id p T (fnode_of r) n' kids' A' B' /\ fidx_of r = Z.of_nat j /\
      (j < Z.to_nat (ncount n'))%nat /\ length (prefix_of n' kids' A' j) = lb T k) /\
  (has_key T k = false -> fnode_of r = fn /\ fidx_of r = fi).
Proof.
  induction H as [|h IH]; intros s L k id p T Hps Hsort fuel Hf fn fi; [inversion Hps|].
  destruct (pshape_inv _ _ _ _ _ _ Hps) as [h0 [n [kids [EH [ET Hn]]]]]. injection EH as EH. subst h0 T.
  pose proof Hn as [Hid [Hget [Hpar [Hcnt [Hlen [Hnone Hsome]]]]]].
  destruct fuel as [|f]; [lia|]. cbn [find_loop].
  assert (Hgetn : getn s id = Some n) by (apply getn_of; auto).
  rewrite Hgetn.
  assert (Hpos : (0 <? ncount n) = true) by lia. rewrite Hpos. cbn [andb].
  pose proof (occupied_sorted n kids ltac:(lia) Hsort) as Hocc.
  rewrite (node_search_is_lb n k ltac:(lia) Hocc).
  set (idx := lb (occupied n) k). rewrite slot_nat.
  set (sl := nth idx (nslots n) zero_item).
  pose proof (idx_le n k Hcnt Hlen) as Hile. fold idx in Hile.
  pose proof (node_has_key n kids k Hcnt Hlen Hsort) as Hhk. fold idx sl in Hhk.
  pose proof (node_lb_in_kid n kids k Hcnt Hlen Hsort) as Hkid. fold idx in Hkid.
  pose proof (node_lb_on_slot n kids k Hcnt Hlen Hsort) as Hslot. fold idx sl in Hslot.
  pose proof (K_sorted n kids k Hcnt Hlen Hsort) as HKs. fold idx in HKs.
  assert (Hlt : (Z.of_nat idx <? ncount n) = Nat.ltb idx (Z.to_nat (ncount n))).
  { destruct (Nat.ltb idx (Z.to_nat (ncount n))) eqn:E; [apply Nat.ltb_lt in E|apply Nat.ltb_ge in E]; lia. }
  rewrite Hlt. rewrite andb_false_r.
  set (hit := Nat.ltb idx (Z.to_nat (ncount n)) && (ikey sl =? k)) in *.
  assert (Hstop : has_key (nth idx kids []) k = false ->
    let r := ((if hit then id else fn), (if hit then Z.of_nat idx else fi), id, Z.of_nat idx) in
    (has_key (node_list n kids) k = true -> exists d n' kids' A' B' j,
        loc (bnodes s) L d (S h) id p (node_list n kids) (fnode_of r) n' kids' A' B' /\ fidx_of r = Z.of_nat j /\
        (j < Z.to_nat (ncount n'))%nat /\ length (prefix_of n' kids' A' j) = lb (node_list n kids) k) /\
    (has_key (node_list n kids) k = false -> fnode_of r = fn /\ fidx_of r = fi)).
  { intros HK. cbv zeta. unfold fnode_of, fidx_of. cbn [fst snd]. rewrite Hhk, HK. cbn [orb]. fold hit.
    destruct hit eqn:Eh.
    - split; [|discriminate]. intros _. unfold hit in Eh. apply andb_true_iff in Eh as [E1 E2].
      apply Nat.ltb_lt in E1. exists 0%nat, n, kids, [], [], idx.
      split; [apply LocHere; exact Hn|]. split; [reflexivity|]. split; [exact E1|].
      rewrite (Hslot HK E1 ltac:(lia)). unfold prefix_of. cbn [app]. rewrite app_length. reflexivity.
    - split; [discriminate|]. intros _. split; reflexivity. }
  destruct (has_children n) eqn:Ehc.
  - destruct (nchildren n) as [ch|] eqn:Ech; [|unfold has_children in Ehc; rewrite Ech in Ehc; discriminate].
    rewrite (child_id_nat n ch idx Ech).
    destruct (Hsome ch eq_refl idx Hile) as [[H0 Hk0]|[Hn0 [Hix Hsh]]].
    + rewrite H0. cbn [N.eqb]. apply Hstop. rewrite Hk0. reflexivity.
    + destruct (N.eqb (nth idx ch 0%N) 0) eqn:E; [apply N.eqb_eq in E; congruence|].
      specialize (IH s L k _ _ _ Hsh HKs f ltac:(lia) (if hit then id else fn) (if hit then Z.of_nat idx else fi)).
      cbv zeta in IH. destruct IH as [IH1 IH2].
      destruct (has_key (nth idx kids []) k) eqn:HK.
      * split.
        -- intros _. destruct (IH1 eq_refl) as [d [n' [kids' [A' [B' [j [Hl [Hfi [Hj Hp]]]]]]]]].
           exists (S d), n', kids', (flat_map (piece n kids) (seq 0 idx) ++ A'), (B' ++ rest_from n kids idx), j.
           split; [eapply LocChild; eauto|]. split; [exact Hfi|]. split; [exact Hj|].
           rewrite (Hkid eq_refl), <- Hp. unfold prefix_of. rewrite <- app_assoc, app_length. reflexivity.
        -- rewrite Hhk. cbn [orb]. discriminate.
      * destruct (IH2 eq_refl) as [E1 E2]. specialize (Hstop eq_refl). cbv zeta in Hstop.
        unfold fnode_of, fidx_of in *. cbn [fst snd] in Hstop. rewrite E1, E2. exact Hstop.
  - apply Hstop. destruct (nchildren n) as [ch|] eqn:Ech.
    + unfold has_children in Ehc. rewrite Ech in Ehc. destruct ch; [|discriminate].
      destruct (Hsome [] eq_refl idx Hile) as [[_ Hk0]|[Hn0 _]]; [rewrite Hk0; reflexivity|].
      destruct idx; cbn in Hn0; congruence.
    + rewrite (Hnone eq_refl idx). reflexivity.
Qed.

Theorem find_first_hit_simN : forall cfg b s k, RelN (cL cfg) b s -> sorted (items s) -> has_key (items s) k = true ->
  exists b' s', sim_step cfg b s (OFind k true) = Some (b', s') /\ RelN (cL cfg) b' s' /\
                cur s' = CAt (lb (items s) k) /\ items s' = items s.
Proof.
  intros cfg b s k HR Hsort Hhas.
  destruct HR as [Hi Hc Hca Hnd Hcur Hshp].
  assert (Hne : items s <> []) by (intros E; rewrite E in Hhas; discriminate).
  assert (Hbc : bcount b <> 0).
  { unfold ocount in Hc. destruct (items s); [congruence|cbn in Hc; lia]. }
  destruct (Hshp Hbc) as [H [Hps HH]].
  unfold sim_step. cbn [bstep ostep bres]. unfold b_find.
  assert (E0 : (bcount b =? 0) = false) by lia. rewrite E0.
  rewrite andb_false_r. cbn [andb].
  set (b0 := if is_selected b then load_current b else b).
  assert (Hb0 : bnodes b0 = bnodes b /\ broot b0 = broot b /\ bcount b0 = bcount b /\ fuel_of b0 = fuel_of b).
  { unfold b0, load_current. destruct (is_selected b); [destruct (N.eqb (bcur_node b) 0)|]; repeat split; reflexivity. }
  destruct Hb0 as [Hn0 [Hr0 [Hc0 Hf0]]].
  rewrite Hf0, Hr0.
  assert (Hps0 : pshape (bnodes b0) (cL cfg) H (broot b) 0%N (b_inorder b)) by (rewrite Hn0; exact Hps).
  assert (Hsort' : sorted (b_inorder b)) by (rewrite <- Hi; exact Hsort).
  pose proof (find_loop_first_loc H b0 (cL cfg) k (broot b) 0%N (b_inorder b) Hps0 Hsort' (fuel_of b) HH 0%N 0) as [Hhit _].
  cbv zeta in Hhit. rewrite <- Hi in Hhit at 1. destruct (Hhit Hhas) as [d [n' [kids' [A' [B' [j [Hl [Hfi [Hj Hp]]]]]]]]].
  set (r := find_loop (fuel_of b) b0 k true (broot b) 0 0) in *.
  destruct r as [[[fnode fidx] lid] lidx] eqn:Er. unfold fnode_of, fidx_of in *. cbn [fst snd] in *.
  rewrite Hn0 in Hl.
  destruct (loc_node_h _ _ _ _ _ _ _ _ _ _ _ _ Hl) as [h2 [p2 [[Hid2 [Hget2 _]] _]]].
  assert (Hfn : N.eqb fnode 0 = false) by (destruct (N.eqb fnode 0) eqn:E; [apply N.eqb_eq in E; congruence|reflexivity]).
  unfold find_finish. rewrite Hfn. cbn [negb fst snd]. subst fidx.
  set (b' := load_current (set_current b0 fnode (Z.of_nat j))).
  assert (Hb' : b' = with_cached (set_current b0 fnode (Z.of_nat j)) true).
  { unfold b', load_current. cbn [bcur_node set_current]. rewrite Hfn. reflexivity. }
  assert (Hin : b_inorder b' = b_inorder b).
  { apply b_inorder_ext; rewrite Hb'; cbn [bnodes broot with_cached set_current]; assumption. }
  unfold find_first. destruct (items s) as [|x0 r0] eqn:El; [congruence|]. rewrite <- El in *.
  rewrite Hhas.
  assert (HR' : RelN (cL cfg) b' (set_cur s (CAt (lb (items s) k)) true)).
  { constructor.
    - cbn [items set_cur]. rewrite Hin. exact Hi.
    - unfold ocount. cbn [items set_cur]. fold (ocount s). rewrite Hc, Hb'. cbn [bcount with_cached set_current]. symmetry. exact Hc0.
    - rewrite Hb'. reflexivity.
    - exact Hnd.
    - unfold cursor_rel. cbn [cur set_cur]. exists d, H, fnode, n', kids', A', B', j.
      rewrite Hin. rewrite Hb'. cbn [bnodes broot bcur_node bcur_idx with_cached set_current]. rewrite Hn0, Hr0.
      repeat split; auto.
      + unfold fuel_of in *. cbn [bnodes with_cached set_current]. rewrite Hn0. exact HH.
      + rewrite Hp, Hi. reflexivity.
    - intros _. exists H. rewrite Hin. split.
      + rewrite Hb'. cbn [bnodes broot with_cached set_current]. rewrite Hn0, Hr0. exact Hps.
      + rewrite Hb'. unfold fuel_of in *. cbn [bnodes with_cached set_current]. rewrite Hn0. exact HH. }
  exists b', (set_cur s (CAt (lb (items s) k)) true). split; [|split; [exact HR'|split; reflexivity]].
  pose proof (reln_observables _ _ _ HR') as [Hsame' Hkey'].
  rewrite agree_intro; auto; try (rewrite Hb'; reflexivity);
    try (destruct HR' as [_ Hc' _ _ _ _]; exact Hc'); try (destruct HR' as [Hi' _ _ _ _ _]; exact Hi').
Qed.

(* a search for a stored key followed by any navigation: the node-level core of range scans *)
Theorem find_then_navigate : forall cfg b s k ops, RelN (cL cfg) b s -> sorted (items s) ->
  has_key (items s) k = true -> Forall is_nav_op ops ->
  sim_from cfg b s (OFind k true :: ops) = true.
Proof.
  intros cfg b s k ops HR Hsort Hhas Hall.
  destruct (find_first_hit_simN cfg b s k HR Hsort Hhas) as [b' [s' [Hstep [HR' _]]]].
  cbn [sim_from]. rewrite Hstep. apply nav_refines; assumption.
Qed.

(* node level: on every related pair of states an update whose key compares unequal to the
   current item's key changes nothing and is refused (error value, or the nil-dereference panic
   when the current item pointer is not cached) *)
Theorem key_change_rejected_node : forall L b s i x k v, RelN L b s -> cur s = CAt i ->
  nth_error (items s) i = Some x -> ikey x <> k ->
  b_update_current b k v = (b, b_reject b) /\ rok (b_reject b) = false /\ rerr (b_reject b) <> ENone.
Proof.
  intros L b s i x k v [Hi Hc Hca Hnd Hcur Hshp] Ec Hx Hk.
  unfold cursor_rel in Hcur. rewrite Ec in Hcur.
  destruct Hcur as [d [H [nid [n' [kids' [A [B [idx [Hl [HH [Hn [Hix [Hlt Hpos]]]]]]]]]]]]].
  destruct (loc_node_h _ _ _ _ _ _ _ _ _ _ _ _ Hl) as [h' [p' [[Hid [Hget _]] _]]].
  assert (Hg : getn b nid = Some n') by (apply getn_of; auto).
  assert (Hne : N.eqb nid 0 = false) by (destruct (N.eqb nid 0) eqn:E; [apply N.eqb_eq in E; congruence|reflexivity]).
  pose proof (loc_decomp _ _ _ _ _ _ _ _ _ _ _ _ idx Hl Hlt) as Hd.
  assert (Hslot : x = nth idx (nslots n') zero_item).
  { rewrite Hi, Hd, Hpos, nth_error_mid in Hx. congruence. }
  split.
  - unfold b_update_current. rewrite Hn, Hne, Hg, Hix.
    assert (E1 : (ncount n' <=? Z.of_nat idx) = false) by lia. rewrite E1, slot_nat, <- Hslot.
    assert (E2 : negb (ikey x =? k) = true) by lia. rewrite E2. reflexivity.
  - unfold b_reject. destruct (bcached b); cbn; split; auto; discriminate.
Qed.

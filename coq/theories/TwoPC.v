(* Model of sop.SinglePhaseTransaction (/repo/transaction.go): Begin, Commit, Rollback over SOP's own
   two-phase transaction and n attached participants (otherTransactions), as functions producing the
   log of calls made on the participants together with each call's outcome.

   The wrapper is modelled generically: SOP's transaction and every participant are arbitrary state
   machines (sstep / pstep: state -> operation -> (succeeded?, new state)), so the theorems hold for
   any behaviour of either, any number of participants and any combination of failures.
   Two instances are used by the correspondence check and the outcome theorems:
     lifecycle  — the phase state machine of common.Transaction (/repo/common/twophasecommittransaction.go:
                  Begin, Phase1Commit, Phase2Commit, Rollback, HasBegun) with injected faults;
     scripted   — a participant that fails exactly the operations its script names.
   Definitions only; lemmas live in TwoPCProofs.v. *)
From Coq Require Import List Bool Arith.
Import ListNotations.

Inductive who := Sop | Part (i : nat).
Inductive op := OBegin | OP1 | OP2 | ORollback.
Record event := Ev { e_who : who; e_op : op; e_ok : bool }.

Definition who_eqb (a b : who) : bool :=
  match a, b with
  | Sop, Sop => true
  | Part i, Part j => Nat.eqb i j
  | _, _ => false
  end.
Definition op_eqb (a b : op) : bool :=
  match a, b with
  | OBegin, OBegin | OP1, OP1 | OP2, OP2 | ORollback, ORollback => true
  | _, _ => false
  end.
Definition event_eqb (a b : event) : bool :=
  who_eqb (e_who a) (e_who b) && op_eqb (e_op a) (e_op b) && Bool.eqb (e_ok a) (e_ok b).

Section Wrapper.
  Variables SS PS : Type.
  Variable sstep : SS -> op -> bool * SS.
  Variable pstep : PS -> op -> bool * PS.

  (* for _, ot := range t.otherTransactions { if err := ot.X(ctx); err != nil { <stop> } }
     result: calls made, whether all succeeded, participant states afterwards *)
  Fixpoint until_fail (o : op) (i : nat) (ps : list PS) : list event * bool * list PS :=
    match ps with
    | [] => ([], true, [])
    | p :: r =>
        let (ok, p') := pstep p o in
        if ok then
          let '(l, res, r') := until_fail o (S i) r in (Ev (Part i) o true :: l, res, p' :: r')
        else ([Ev (Part i) o false], false, p' :: r)
    end.

  (* for _, ot := range t.otherTransactions { ot.X(ctx) }  — everybody is called whatever the results *)
  Fixpoint for_all (o : op) (i : nat) (ps : list PS) : list event * bool * list PS :=
    match ps with
    | [] => ([], true, [])
    | p :: r =>
        let (ok, p') := pstep p o in
        let '(l, res, r') := for_all o (S i) r in (Ev (Part i) o ok :: l, ok && res, p' :: r')
    end.

  Record outcome := Out { o_log : list event; o_ok : bool; o_sop : SS; o_parts : list PS }.

  (* func (t *SinglePhaseTransaction) Rollback: lastErr == nil iff every rollback succeeded *)
  Definition w_rollback (s : SS) (ps : list PS) : outcome :=
    let (ok, s') := sstep s ORollback in
    let '(l, res, ps') := for_all ORollback 0 ps in
    Out (Ev Sop ORollback ok :: l) (ok && res) s' ps'.

  (* func (t *SinglePhaseTransaction) Begin. When participant i's Begin fails, what has begun so far is
     rolled back before the error is returned: SOP's own transaction and otherTransactions[:i]
     (i = number of calls made on participants - 1); the outcomes of these rollbacks are ignored. *)
  Definition w_begin (s : SS) (ps : list PS) : outcome :=
    let (ok, s') := sstep s OBegin in
    if ok then
      let '(l, res, ps') := until_fail OBegin 0 ps in
      if res then Out (Ev Sop OBegin true :: l) true s' ps'
      else
        let i := pred (length l) in
        let r := w_rollback s' (firstn i ps') in
        Out ((Ev Sop OBegin true :: l) ++ o_log r) false (o_sop r) (o_parts r ++ skipn i ps')
    else Out [Ev Sop OBegin false] false s' ps.

  (* the error paths of Commit: the calls so far, then t.Rollback(ctx); Commit returns an error either way *)
  Definition fail_with (pre : list event) (s : SS) (ps : list PS) : outcome :=
    let r := w_rollback s ps in Out (pre ++ o_log r) false (o_sop r) (o_parts r).

  (* func (t *SinglePhaseTransaction) Commit *)
  Definition w_commit (s : SS) (ps : list PS) : outcome :=
    let (ok1, s1) := sstep s OP1 in
    if negb ok1 then fail_with [Ev Sop OP1 false] s1 ps
    else
      let '(l1, okp, ps1) := until_fail OP1 0 ps in
      if negb okp then fail_with (Ev Sop OP1 true :: l1) s1 ps1
      else
        let (ok2, s2) := sstep s1 OP2 in
        if negb ok2 then fail_with (Ev Sop OP1 true :: l1 ++ [Ev Sop OP2 false]) s2 ps1
        else
          let '(l2, _, ps2) := for_all OP2 0 ps1 in
          Out (Ev Sop OP1 true :: l1 ++ Ev Sop OP2 true :: l2) true s2 ps2.

  (* what the caller does after Begin *)
  Inductive session := SCommit | SRollback.

  (* Begin, then Commit or Rollback when Begin succeeded; when Begin failed the caller either just
     returns the error (cleanup = false) or calls Rollback as well (cleanup = true).
     Result: the whole call log, the success of each top-level call, the final states. *)
  Definition run_session (k : session) (cleanup : bool) (s : SS) (ps : list PS)
      : list event * list bool * SS * list PS :=
    let b := w_begin s ps in
    if o_ok b then
      let r := match k with SCommit => w_commit | SRollback => w_rollback end (o_sop b) (o_parts b) in
      (o_log b ++ o_log r, [true; o_ok r], o_sop r, o_parts r)
    else if cleanup then
      let r := w_rollback (o_sop b) (o_parts b) in
      (o_log b ++ o_log r, [false; o_ok r], o_sop r, o_parts r)
    else (o_log b, [false], o_sop b, o_parts b).
End Wrapper.

Arguments Out {SS PS}.
Arguments o_log {SS PS}.
Arguments o_ok {SS PS}.
Arguments o_sop {SS PS}.
Arguments o_parts {SS PS}.

(* ------------------------------------------------------------------ scripted participants *)

(* true = that operation fails *)
Record pscript := PScript { pf_begin : bool; pf_p1 : bool; pf_p2 : bool; pf_rollback : bool }.

Definition pfails (p : pscript) (o : op) : bool :=
  match o with OBegin => pf_begin p | OP1 => pf_p1 p | OP2 => pf_p2 p | ORollback => pf_rollback p end.

Definition scripted (p : pscript) (o : op) : bool * pscript := (negb (pfails p o), p).

(* ------------------------------------------------------------------ SOP's own transaction *)

(* t.phaseDone: -1, 0, 1, 2 *)
Inductive phase := NotBegun | Begun | Phase1Done | Done.

(* injected behaviour of one operation:
     FNone    the real method runs and succeeds
     FBefore  an error is reported without running the real method
     FAfter   the real method runs (and succeeds), then an error is reported
     FNatural the real method itself fails (Phase1Commit on a conflict: it rolls itself back and ends) *)
Inductive fault := FNone | FBefore | FAfter | FNatural.

Record sscript := SScript { sf_begin : fault; sf_p1 : fault; sf_p2 : fault; sf_rollback : fault }.

Record sop_state := SopState { s_phase : phase; s_committed : bool; s_script : sscript }.

Definition has_begun (p : phase) : bool := match p with Begun | Phase1Done => true | _ => false end.

(* the real methods of common.Transaction (writer mode), natural = the method's own work fails *)
Definition real_step (st : sop_state) (o : op) (natural : bool) : bool * sop_state :=
  let sc := s_script st in
  match o with
  | OBegin =>
      if has_begun (s_phase st) then (false, st)
      else match s_phase st with
           | Done => (false, st)
           | _ => (true, SopState Begun (s_committed st) sc)
           end
  | OP1 =>
      if negb (has_begun (s_phase st)) then (false, st)
      else if natural then (false, SopState Done (s_committed st) sc)   (* phase1Commit failed: own rollback, ended *)
      else (true, SopState Phase1Done (s_committed st) sc)
  | OP2 =>
      if negb (has_begun (s_phase st)) then (false, st)
      else match s_phase st with
           | Begun => (false, st)                                        (* phase 1 commit has not been invoked *)
           | _ => if natural then (false, SopState Done (s_committed st) sc)
                  else (true, SopState Done true sc)
           end
  | ORollback =>
      match s_phase st with
      | Done => (negb (s_committed st), st)                              (* idempotent unless committed *)
      | NotBegun => (false, st)
      | _ => (negb natural, SopState Done (s_committed st) sc)
      end
  end.

Definition sfault (sc : sscript) (o : op) : fault :=
  match o with OBegin => sf_begin sc | OP1 => sf_p1 sc | OP2 => sf_p2 sc | ORollback => sf_rollback sc end.

Definition lifecycle (st : sop_state) (o : op) : bool * sop_state :=
  match sfault (s_script st) o with
  | FNone => real_step st o false
  | FBefore => (false, st)
  | FAfter => (false, snd (real_step st o false))
  | FNatural => real_step st o true
  end.

Definition sop_init (sc : sscript) : sop_state := SopState NotBegun false sc.

(* the instance the correspondence check runs *)
Definition run_scripted (k : session) (cleanup : bool) (sc : sscript) (ps : list pscript) :=
  run_session sop_state pscript lifecycle scripted k cleanup (sop_init sc) ps.

(* C13 — proofs about the JSON primitives and the repaired patcher (generic in the member list). *)
From Coq Require Import List ZArith NArith Bool Lia.
From Coq Require Decimal DecimalN DecimalPos.
From SopVerif Require Import Lib.Bytes StoreInfoPatchLib.
Import ListNotations.
Local Open Scope N_scope.

(* ---------------------------------------------------------------- small facts *)
Definition prepend_list (x : list N) (o : option (list N * list N)) : option (list N * list N) :=
  match o with None => None | Some (p, q) => Some (x ++ p, q) end.

Lemma prepend_list_nil : forall o, prepend_list [] o = o.
Proof. intros [[p q]|]; reflexivity. Qed.

Lemma prepend_list_cons : forall c x o, prepend c (prepend_list x o) = prepend_list (c :: x) o.
Proof. intros c x [[p q]|]; reflexivity. Qed.

Lemma prepend_list_app : forall x y o, prepend_list x (prepend_list y o) = prepend_list (x ++ y) o.
Proof. intros x y [[p q]|]; cbn; [rewrite app_assoc|]; reflexivity. Qed.

Lemma list_N_eq_refl : forall a, list_N_eq a a = true.
Proof. induction a as [|x a IH]; cbn; [reflexivity|]. rewrite N.eqb_refl, IH. reflexivity. Qed.

Lemma list_N_eq_true : forall a b, list_N_eq a b = true -> a = b.
Proof.
  induction a as [|x a IH]; intros [|y b] H; cbn in H; try discriminate; [reflexivity|].
  apply andb_true_iff in H as [Hx Hr]. apply N.eqb_eq in Hx. subst. f_equal. apply IH, Hr.
Qed.

(* character classes (boolean, so that they compute on the concrete member names) *)
Definition str_plain (c : N) : bool := negb ((c =? 34) || (c =? 92)).          (* may occur raw inside a literal *)
Definition find_plain (c : N) : bool :=
  negb ((c =? 123) || (c =? 91) || (c =? 125) || (c =? 93) || (c =? 34)).      (* ignored by the member scan *)
Definition numchar (c : N) : bool := (c =? 45) || ((48 <=? c) && (c <=? 57)).
Definition wordchar (c : N) : bool := (97 <=? c) && (c <=? 122).

Ltac nb := repeat match goal with
  | H : (_ =? _) = true |- _ => apply N.eqb_eq in H
  | H : (_ =? _) = false |- _ => apply N.eqb_neq in H
  | H : (_ <=? _) = true |- _ => apply N.leb_le in H
  | H : (_ <=? _) = false |- _ => apply N.leb_gt in H
  | H : (_ <? _) = true |- _ => apply N.ltb_lt in H
  | H : (_ <? _) = false |- _ => apply N.ltb_ge in H
  | H : _ && _ = true |- _ => apply andb_true_iff in H; destruct H
  | H : _ || _ = false |- _ => apply orb_false_iff in H; destruct H
  end.

Ltac decide_chars :=
  repeat match goal with
  | |- context [?a =? ?b] => destruct (N.eqb_spec a b); try lia
  | |- context [?a <=? ?b] => destruct (N.leb_spec a b); try lia
  | |- context [?a <? ?b] => destruct (N.ltb_spec a b); try lia
  end; cbn; try reflexivity; try lia.

Lemma numchar_props : forall c, numchar c = true ->
  find_plain c = true /\ is_ws c = false /\ value_end c = false /\ str_plain c = true /\ (c =? c_colon) = false.
Proof.
  intros c H. unfold numchar in H. unfold find_plain, is_ws, value_end, str_plain, c_comma, c_rbrace, c_colon.
  destruct (N.eqb_spec c 45).
  - subst. repeat split; reflexivity.
  - cbn in H. nb. repeat split; decide_chars.
Qed.

Lemma wordchar_props : forall c, wordchar c = true -> find_plain c = true.
Proof. intros c H. unfold wordchar in H. nb. unfold find_plain. decide_chars. Qed.

(* ---------------------------------------------------------------- integers *)
Lemma uint_bytes_numchar : forall u, Forall (fun c => numchar c = true) (uint_bytes u).
Proof. induction u; cbn; constructor; auto. Qed.

Lemma uint_bytes_nonnil : forall u, u <> Decimal.Nil -> uint_bytes u <> [].
Proof. intros [] H; cbn; try discriminate. congruence. Qed.

Lemma dec_N_numchar : forall n, Forall (fun c => numchar c = true) (dec_N n).
Proof. intro n. apply uint_bytes_numchar. Qed.

Lemma dec_N_nonnil : forall n, dec_N n <> [].
Proof.
  intros [|p]; unfold dec_N; cbn [N.to_uint].
  - cbn. discriminate.
  - apply uint_bytes_nonnil, DecimalPos.Unsigned.to_uint_nonnil.
Qed.

Lemma dec_Z_numchar : forall z, Forall (fun c => numchar c = true) (dec_Z z).
Proof.
  intros [|p|p]; cbn [dec_Z].
  - constructor; [reflexivity|constructor].
  - apply dec_N_numchar.
  - constructor; [reflexivity|apply dec_N_numchar].
Qed.

Lemma dec_Z_nonnil : forall z, dec_Z z <> [].
Proof. intros [|p|p]; cbn [dec_Z]; try discriminate. apply dec_N_nonnil. Qed.

(* ---------------------------------------------------------------- string literals are skipped as a whole *)
Lemma str_body_plain : forall s r, forallb str_plain s = true -> str_body (s ++ c_quote :: r) = Some (s, r).
Proof.
  induction s as [|c s IH]; intros r H.
  - reflexivity.
  - cbn in H. apply andb_true_iff in H as [Hc Hs]. cbn [app str_body].
    unfold str_plain, c_quote, c_bslash in *. apply negb_true_iff in Hc. apply orb_false_iff in Hc as [H1 H2].
    rewrite H1, H2, (IH r Hs). reflexivity.
Qed.

(* the chunks the escaper emits *)
Definition good_chunk (ch : list N) : Prop :=
  (exists c, ch = [c] /\ str_plain c = true) \/
  (exists e t, ch = c_bslash :: e :: t /\ forallb str_plain t = true).

Lemma hex_digit_plain : forall n, str_plain (hex_digit n) = true.
Proof.
  intros n. unfold hex_digit, str_plain. destruct (N.ltb_spec n 10); decide_chars.
Qed.

Lemma esc_unit_good : forall c r, good_chunk (fst (esc_unit c r)).
Proof.
  intros c r. unfold esc_unit.
  destruct ((c =? 34) || (c =? 92)) eqn:E1; [right; exists c, []; split; reflexivity|].
  destruct (c =? 8) eqn:E2; [right; eexists; eexists; split; reflexivity|].
  destruct (c =? 12) eqn:E3; [right; eexists; eexists; split; reflexivity|].
  destruct (c =? 10) eqn:E4; [right; eexists; eexists; split; reflexivity|].
  destruct (c =? 13) eqn:E5; [right; eexists; eexists; split; reflexivity|].
  destruct (c =? 9) eqn:E6; [right; eexists; eexists; split; reflexivity|].
  destruct ((c <? 32) || (c =? 60) || (c =? 62) || (c =? 38)) eqn:E7.
  { right. eexists; eexists; split; [reflexivity|]. cbn [fst forallb].
    rewrite !hex_digit_plain. reflexivity. }
  assert (Hp : str_plain c = true) by (unfold str_plain; rewrite E1; reflexivity).
  destruct (c =? 226) eqn:E8; [|left; exists c; split; [reflexivity|exact Hp]].
  destruct r as [|a [|b r]]; try (left; exists c; split; [reflexivity|exact Hp]).
  destruct ((a =? 128) && (b =? 168)); [right; eexists; eexists; split; reflexivity|].
  destruct ((a =? 128) && (b =? 169)); [right; eexists; eexists; split; reflexivity|].
  left; exists c; split; [reflexivity|exact Hp].
Qed.

Lemma str_body_chunk : forall ch x, good_chunk ch -> str_body (ch ++ x) = prepend_list ch (str_body x).
Proof.
  intros ch x [[c [-> Hc]]|[e [t [-> Ht]]]].
  - cbn [app str_body]. unfold str_plain, c_quote, c_bslash in *. apply negb_true_iff in Hc. apply orb_false_iff in Hc as [H1 H2].
    rewrite H1, H2. destruct (str_body x) as [[p q]|]; reflexivity.
  - cbn [app str_body]. unfold c_quote, c_bslash. cbn [N.eqb Pos.eqb].
    rewrite <- prepend_list_cons, <- prepend_list_cons. do 2 f_equal.
    induction t as [|c t IH]; [symmetry; apply prepend_list_nil|].
    cbn in Ht. apply andb_true_iff in Ht as [Hc Ht]. cbn [app str_body].
    unfold str_plain, c_quote, c_bslash in *. apply negb_true_iff in Hc. apply orb_false_iff in Hc as [H1 H2].
    rewrite H1, H2, (IH Ht). apply prepend_list_cons.
Qed.

Lemma str_body_esc_go : forall s k r, str_body (esc_go s k ++ c_quote :: r) = Some (esc_go s k, r).
Proof.
  induction s as [|c s IH]; intros k r.
  - reflexivity.
  - cbn [esc_go]. destruct k as [|k]; [|apply IH].
    pose proof (esc_unit_good c s) as Hg. destruct (esc_unit c s) as [out k'] eqn:E. cbn [fst] in Hg.
    rewrite <- app_assoc, (str_body_chunk _ _ Hg), IH. cbn. reflexivity.
Qed.

Lemma str_body_esc : forall s r, str_body (esc s ++ c_quote :: r) = Some (esc s, r).
Proof. intros. apply str_body_esc_go. Qed.

(* hex text (UUIDs) contains neither quote nor backslash *)
Lemma hex_bytes_plain : forall u, forallb str_plain (hex_bytes u) = true.
Proof.
  induction u as [|b u IH]; [reflexivity|]. cbn [hex_bytes forallb].
  rewrite !hex_digit_plain, IH. reflexivity.
Qed.

(* ---------------------------------------------------------------- the member scan *)
Lemma find_skip : forall x f r d, find_member f (x ++ r) d (length x) = prepend_list x (find_member f r d 0).
Proof.
  induction x as [|c x IH]; intros f r d.
  - cbn. symmetry. apply prepend_list_nil.
  - cbn [List.app length find_member]. rewrite IH. apply prepend_list_cons.
Qed.

Lemma find_plain_char : forall c f r d, find_plain c = true ->
  find_member f (c :: r) d 0 = prepend c (find_member f r d 0).
Proof.
  intros c f r d H. unfold find_plain in H. apply negb_true_iff in H.
  repeat (apply orb_false_iff in H; destruct H as [H ?]).
  cbn [find_member]. unfold c_lbrace, c_lbrack, c_rbrace, c_rbrack, c_quote.
  repeat match goal with E : (_ =? _) = false |- _ => rewrite E; clear E end. reflexivity.
Qed.

Lemma find_plain_list : forall x f r d, Forall (fun c => find_plain c = true) x ->
  find_member f (x ++ r) d 0 = prepend_list x (find_member f r d 0).
Proof.
  induction 1 as [|c x Hc _ IH].
  - cbn. symmetry. apply prepend_list_nil.
  - cbn [List.app]. rewrite (find_plain_char _ _ _ _ Hc), IH. apply prepend_list_cons.
Qed.

(* a string literal that is not the member name looked for, or not followed by ':' *)
Lemma find_string_skip : forall s f c2 r d,
  str_body (s ++ c_quote :: c2 :: r) = Some (s, c2 :: r) ->
  is_ws c2 = false ->
  (list_N_eq s f = false \/ (c2 =? c_colon) = false) ->
  find_member f (c_quote :: s ++ c_quote :: c2 :: r) d 0 =
  prepend_list (c_quote :: s ++ [c_quote]) (find_member f (c2 :: r) d 0).
Proof.
  intros s f c2 r d Hb Hws Hne.
  cbn [find_member]. unfold c_lbrace, c_lbrack, c_rbrace, c_rbrack, c_quote in *. cbn [N.eqb Pos.eqb orb].
  rewrite Hb. cbn [drop_while]. rewrite Hws.
  assert (E : ((d =? 1)%Z && list_N_eq s f && (c2 =? c_colon)) = false).
  { destruct Hne as [-> | ->]; [rewrite andb_false_r|rewrite andb_false_r]; reflexivity. }
  rewrite E.
  replace (s ++ 34 :: c2 :: r) with ((s ++ [34]) ++ c2 :: r) by (rewrite <- app_assoc; reflexivity).
  replace (length s + 1)%nat with (length (s ++ [34])) by (rewrite app_length; reflexivity).
  rewrite find_skip, prepend_list_cons. reflexivity.
Qed.

(* the member name looked for, at depth 1 *)
Lemma find_key_hit : forall f r,
  forallb str_plain f = true ->
  find_member f (ser_key f ++ r) 1 0 = Some (ser_key f, r).
Proof.
  intros f r Hf. unfold ser_key. cbn [List.app find_member].
  unfold c_lbrace, c_lbrack, c_rbrace, c_rbrack. unfold c_quote at 1 2 3. cbn [N.eqb Pos.eqb orb].
  rewrite <- app_assoc. cbn [List.app]. rewrite (str_body_plain f _ Hf).
  cbn [drop_while is_ws]. unfold c_colon. cbn [N.eqb Pos.eqb orb take_while].
  rewrite list_N_eq_refl. cbn [Z.eqb Pos.eqb andb List.app]. reflexivity.
Qed.

Lemma find_key_other : forall k f r d,
  forallb str_plain k = true -> list_N_eq k f = false ->
  find_member f (ser_key k ++ r) d 0 = prepend_list (ser_key k) (find_member f r d 0).
Proof.
  intros k f r d Hk Hne. unfold ser_key. cbn [List.app]. rewrite <- app_assoc. cbn [List.app].
  rewrite find_string_skip; [| apply str_body_plain, Hk | reflexivity | left; exact Hne].
  rewrite (find_plain_char c_colon) by reflexivity.
  destruct (find_member f r d 0) as [[p q]|]; cbn; [|reflexivity].
  rewrite <- !app_assoc. reflexivity.
Qed.

(* scalar values that can precede the patched member *)
Definition simple_sval (v : sval) : bool :=
  match v with SStr _ | SInt _ | SBool _ | SUuid _ => true | SRaw _ => false end.

Lemma uuid_text_plain : forall u, forallb str_plain (uuid_text u) = true.
Proof.
  intros u. unfold uuid_text.
  repeat (rewrite forallb_app; apply andb_true_iff; split; [apply hex_bytes_plain|]; cbn [forallb]; rewrite ?andb_true_l).
  apply hex_bytes_plain.
Qed.

(* scanning over a simple value that is followed by a ',' *)
Lemma find_value_skip : forall v f r d, simple_sval v = true ->
  find_member f (ser_sval v ++ c_comma :: r) d 0 = prepend_list (ser_sval v) (find_member f (c_comma :: r) d 0).
Proof.
  intros [s|z|b|u|bs] f r d Hs; cbn in Hs; try discriminate; cbn [ser_sval].
  - unfold ser_string. cbn [List.app]. rewrite <- app_assoc. cbn [List.app].
    apply find_string_skip; [apply str_body_esc|reflexivity|right; reflexivity].
  - apply find_plain_list. eapply Forall_impl; [|apply dec_Z_numchar]. intros c Hc. apply numchar_props, Hc.
  - apply find_plain_list. destruct b; cbn; repeat constructor.
  - cbn [List.app]. rewrite <- app_assoc. cbn [List.app].
    apply find_string_skip; [apply str_body_plain, uuid_text_plain|reflexivity|right; reflexivity].
Qed.

(* ---------------------------------------------------------------- members in front of the patched one *)
Definition simple_member (f : list N) (m : member) : bool :=
  negb (m_omitempty m) && forallb str_plain (m_key m) && negb (list_N_eq (m_key m) f) &&
  match m_val m with MScalar v => simple_sval v | MObject _ => false end.

Definition sep (first : bool) : list N := if first then [] else [c_comma].

(* everything ser_members emits for `pre ++ [member f]` up to and including the ':' of f *)
Fixpoint head_part (f : list N) (first : bool) (pre : list member) : list N :=
  match pre with
  | [] => sep first ++ ser_key f
  | m :: r => sep first ++ ser_key (m_key m) ++ ser_mval (m_val m) ++ head_part f false r
  end.

Definition int_member (f : list N) (x : Z) : member := mkMember f false (MScalar (SInt x)).

Lemma simple_not_omitted : forall f m, simple_member f m = true -> omitted m = false.
Proof.
  intros f m H. unfold simple_member in H. unfold omitted.
  destruct (m_omitempty m); [cbn in H; discriminate|reflexivity].
Qed.

Lemma ser_split : forall f pre first x post, forallb (simple_member f) pre = true ->
  ser_members first (pre ++ int_member f x :: post) = head_part f first pre ++ dec_Z x ++ ser_members false post.
Proof.
  induction pre as [|m pre IH]; intros first x post H.
  - cbn. unfold sep. destruct first; cbn; rewrite <- ?app_assoc; reflexivity.
  - cbn in H. apply andb_true_iff in H as [Hm Hp].
    cbn [List.app ser_members head_part]. rewrite (simple_not_omitted _ _ Hm), (IH false x post Hp).
    unfold sep. rewrite <- !app_assoc. reflexivity.
Qed.

Lemma head_part_false_comma : forall f pre, exists t, head_part f false pre = c_comma :: t.
Proof. intros f [|m pre]; cbn; eexists; reflexivity. Qed.

Lemma find_head : forall f pre first r, forallb str_plain f = true ->
  forallb (simple_member f) pre = true ->
  find_member f (head_part f first pre ++ r) 1 0 = Some (head_part f first pre, r).
Proof.
  intros f pre. induction pre as [|m pre IH]; intros first r Hf H.
  - cbn [head_part]. rewrite <- app_assoc.
    assert (E : find_member f (sep first ++ ser_key f ++ r) 1 0 = prepend_list (sep first) (find_member f (ser_key f ++ r) 1 0)).
    { destruct first; cbn [sep]; [cbn [List.app]; symmetry; apply prepend_list_nil|].
      cbn [List.app]. rewrite find_plain_char by reflexivity. destruct (find_member f (ser_key f ++ r) 1 0) as [[p q]|]; reflexivity. }
    rewrite E, (find_key_hit f r Hf). cbn. reflexivity.
  - cbn in H. apply andb_true_iff in H as [Hm Hp].
    unfold simple_member in Hm. repeat (apply andb_true_iff in Hm; destruct Hm as [Hm ?]).
    destruct (m_val m) as [v|ms] eqn:Ev; [|discriminate].
    match goal with Hk : negb (list_N_eq (m_key m) f) = true |- _ => apply negb_true_iff in Hk; rename Hk into Hne end.
    match goal with Hk : forallb str_plain (m_key m) = true |- _ => rename Hk into Hkey end.
    cbn [head_part]. rewrite Ev. cbn [ser_mval].
    destruct (head_part_false_comma f pre) as [t Ht].
    assert (IH' := IH false r Hf Hp). rewrite Ht in IH'.
    rewrite Ht. rewrite <- !app_assoc.
    assert (E : forall X, find_member f (sep first ++ X) 1 0 = prepend_list (sep first) (find_member f X 1 0)).
    { intro X. destruct first; cbn [sep]; [cbn [List.app]; symmetry; apply prepend_list_nil|].
      cbn [List.app]. rewrite find_plain_char by reflexivity. destruct (find_member f X 1 0) as [[p q]|]; reflexivity. }
    rewrite E, (find_key_other _ _ _ _ Hkey Hne).
    cbn [List.app]. rewrite (find_value_skip v f (t ++ r) 1) by assumption.
    change (c_comma :: t ++ r) with ((c_comma :: t) ++ r). rewrite IH'.
    cbn [prepend_list]. reflexivity.
Qed.

(* what follows the patched value begins with ',' or '}' *)
Lemma tail_head : forall post, exists c t, ser_members false post ++ [c_rbrace] = c :: t /\ value_end c = true.
Proof.
  induction post as [|m post [c [t [E Hc]]]].
  - exists c_rbrace, []. split; reflexivity.
  - cbn [ser_members]. destruct (omitted m); [exists c, t; auto|].
    cbn [List.app]. eexists; eexists; split; [reflexivity|reflexivity].
Qed.

Lemma take_while_all : forall p x c r, Forall (fun a => p a = true) x -> p c = false ->
  take_while p (x ++ c :: r) = x /\ drop_while p (x ++ c :: r) = c :: r.
Proof.
  induction 1 as [|a x Ha _ IH]; intro Hc; cbn.
  - rewrite Hc. auto.
  - rewrite Ha. destruct (IH Hc) as [-> ->]. auto.
Qed.

Lemma find_lbrace : forall f X, find_member f (c_lbrace :: X) 0 0 = prepend c_lbrace (find_member f X 1 0).
Proof. reflexivity. Qed.

(* THE GENERIC RESULT: patching member f of a marshalled object whose members in front of f are
   simple scalars yields exactly the marshalling of the object with the new value. *)
Theorem patch_member_generic : forall f pre post x v,
  forallb str_plain f = true -> forallb (simple_member f) pre = true ->
  patch_num (ser_object (pre ++ int_member f x :: post)) f v = Some (ser_object (pre ++ int_member f v :: post)).
Proof.
  intros f pre post x v Hf Hp. unfold patch_num, ser_object.
  rewrite !(ser_split f pre true _ post Hp).
  rewrite find_lbrace.
  rewrite <- !app_assoc. rewrite (find_head f pre true _ Hf Hp). cbn [prepend].
  destruct (tail_head post) as [c [t [Et Hc]]]. rewrite Et.
  pose proof (dec_Z_numchar x) as Hx. pose proof (dec_Z_nonnil x) as Hn.
  destruct (dec_Z x) as [|d0 ds] eqn:Ed; [congruence|].
  inversion Hx as [|? ? Hd0 Hds]; subst.
  destruct (numchar_props _ Hd0) as [_ [Hws0 [Hve0 _]]].
  cbn [List.app take_while drop_while]. rewrite Hws0. cbn [List.app].
  assert (Hall : Forall (fun a => negb (value_end a) = true) (d0 :: ds)).
  { eapply Forall_impl; [|exact Hx]. intros a Ha. destruct (numchar_props _ Ha) as [_ [_ [Hv _]]]. rewrite Hv. reflexivity. }
  assert (Hc' : negb (value_end c) = false) by (rewrite Hc; reflexivity).
  destruct (take_while_all (fun a => negb (value_end a)) (d0 :: ds) c t Hall Hc') as [E1 E2].
  cbn [List.app] in E1, E2. rewrite E1, E2. reflexivity.
Qed.

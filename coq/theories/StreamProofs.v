(* C31 — lemmas about the model in Stream.v: keys, the ordered collection, the
   cursor shortcut, the (repaired) reader, then writer / Close / Remove. *)
From Coq Require Import List ZArith NArith Bool Lia.
From SopVerif Require Import Stream.
Import ListNotations.

(* ------------------------------------------------------------------ *)
(* keys                                                                *)

Definition sdk_lt (a b : sdk) : Prop :=
  (fst a < fst b)%N \/ (fst a = fst b /\ (snd a < snd b)%Z).

Lemma sdk_eqb_eq : forall a b, sdk_eqb a b = true <-> a = b.
Proof.
  intros [a1 a2] [b1 b2]. unfold sdk_eqb. cbn [fst snd].
  rewrite andb_true_iff, N.eqb_eq, Z.eqb_eq. split.
  - intros [H1 H2]. subst. reflexivity.
  - intros H. inversion H. split; reflexivity.
Qed.

Lemma sdk_eqb_refl : forall a, sdk_eqb a a = true.
Proof. intros a. apply sdk_eqb_eq. reflexivity. Qed.

Lemma sdk_eqb_neq : forall a b, sdk_eqb a b = false <-> a <> b.
Proof.
  intros a b. split.
  - intros H E. apply sdk_eqb_eq in E. congruence.
  - intros H. destruct (sdk_eqb a b) eqn:E; [apply sdk_eqb_eq in E; contradiction|reflexivity].
Qed.

Lemma sdk_eqb_sym : forall a b, sdk_eqb a b = sdk_eqb b a.
Proof.
  intros a b. destruct (sdk_eqb b a) eqn:E.
  - apply sdk_eqb_eq in E. subst. apply sdk_eqb_refl.
  - apply sdk_eqb_neq in E. apply sdk_eqb_neq. congruence.
Qed.

Lemma sdk_ltb_lt : forall a b, sdk_ltb a b = true <-> sdk_lt a b.
Proof.
  intros [a1 a2] [b1 b2]. unfold sdk_ltb, sdk_lt. cbn [fst snd].
  rewrite orb_true_iff, andb_true_iff, N.ltb_lt, N.eqb_eq, Z.ltb_lt. reflexivity.
Qed.

Lemma sdk_ltb_nlt : forall a b, sdk_ltb a b = false <-> ~ sdk_lt a b.
Proof.
  intros a b. rewrite <- sdk_ltb_lt. destruct (sdk_ltb a b); split; intros; congruence.
Qed.

Lemma sdk_pair_eq : forall (a b : sdk), fst a = fst b -> snd a = snd b -> a = b.
Proof. intros [a1 a2] [b1 b2]. cbn. intros. subst. reflexivity. Qed.

Lemma sdk_lt_irrefl : forall a, ~ sdk_lt a a.
Proof. intros a. unfold sdk_lt. lia. Qed.

Lemma sdk_lt_trans : forall a b c, sdk_lt a b -> sdk_lt b c -> sdk_lt a c.
Proof. intros a b c. unfold sdk_lt. lia. Qed.

Lemma sdk_lt_total : forall a b, sdk_lt a b \/ a = b \/ sdk_lt b a.
Proof.
  intros a b. unfold sdk_lt.
  destruct (N.lt_trichotomy (fst a) (fst b)) as [H|[H|H]]; [left; left; exact H| |right; right; left; exact H].
  destruct (Z.lt_trichotomy (snd a) (snd b)) as [G|[G|G]].
  - left. right. split; assumption.
  - right. left. apply sdk_pair_eq; assumption.
  - right. right. right. split; [symmetry; assumption|assumption].
Qed.

(* nothing lies strictly between (k,i) and (k,i+1): ChunkIndex is an integer *)
Lemma sdk_adjacent : forall k i x, sdk_lt (k, i) x -> sdk_lt x (k, (i + 1)%Z) -> False.
Proof. intros k i [x1 x2]. unfold sdk_lt. cbn [fst snd]. lia. Qed.

Lemma sdk_lt_succ : forall k i, sdk_lt (k, i) (k, (i + 1)%Z).
Proof. intros k i. unfold sdk_lt. cbn [fst snd]. lia. Qed.

(* ------------------------------------------------------------------ *)
(* association list                                                    *)

Lemma mem_lookup : forall s k, mem s k = true <-> lookup s k <> None.
Proof. intros s k. unfold mem. destruct (lookup s k); split; intros; congruence. Qed.

Lemma mem_false_lookup : forall s k, mem s k = false <-> lookup s k = None.
Proof. intros s k. unfold mem. destruct (lookup s k); split; intros; congruence. Qed.

Lemma mem_cons : forall k v t x, mem ((k, v) :: t) x = true <-> k = x \/ mem t x = true.
Proof.
  intros k v t x. unfold mem. cbn [lookup]. destruct (sdk_eqb k x) eqn:E.
  - apply sdk_eqb_eq in E. split; intros; [left; exact E|reflexivity].
  - apply sdk_eqb_neq in E. split; [intros H; right; exact H|intros [H|H]; [contradiction|exact H]].
Qed.

Lemma mem_nil : forall x, mem [] x = false.
Proof. reflexivity. Qed.

Lemma lookup_set_val : forall s c v x,
  lookup (set_val s c v) x =
  match lookup s x with Some old => if sdk_eqb x c then Some v else Some old | None => None end.
Proof.
  induction s as [|[k v0] t IH]; intros c v x; [reflexivity|].
  cbn [set_val map lookup fst]. destruct (sdk_eqb k c) eqn:Ekc; cbn [lookup fst].
  - destruct (sdk_eqb k x) eqn:Ekx.
    + apply sdk_eqb_eq in Ekc, Ekx. subst. rewrite sdk_eqb_refl. reflexivity.
    + apply IH.
  - destruct (sdk_eqb k x) eqn:Ekx.
    + apply sdk_eqb_eq in Ekx. subst. rewrite Ekc. reflexivity.
    + apply IH.
Qed.

Lemma lookup_remove_key : forall s c x,
  lookup (remove_key s c) x = if sdk_eqb c x then None else lookup s x.
Proof.
  induction s as [|[k v0] t IH]; intros c x.
  - cbn. destruct (sdk_eqb c x); reflexivity.
  - cbn [remove_key filter fst]. destruct (sdk_eqb k c) eqn:Ekc; cbn [negb lookup].
    + fold (remove_key t c). rewrite IH. apply sdk_eqb_eq in Ekc. subst.
      destruct (sdk_eqb c x); reflexivity.
    + fold (remove_key t c). rewrite IH. destruct (sdk_eqb k x) eqn:Ekx.
      * apply sdk_eqb_eq in Ekx. subst. rewrite sdk_eqb_sym, Ekc. reflexivity.
      * reflexivity.
Qed.

Lemma length_remove_key_le : forall s c, length (remove_key s c) <= length s.
Proof.
  induction s as [|[k v] t IH]; intros c; [cbn; lia|].
  cbn [remove_key filter fst]. destruct (negb (sdk_eqb k c)); cbn [length]; fold (remove_key t c); specialize (IH c); lia.
Qed.

Lemma length_remove_key : forall s c, mem s c = true -> length (remove_key s c) < length s.
Proof.
  induction s as [|[k v] t IH]; intros c H; [discriminate|].
  cbn [remove_key filter fst]. destruct (sdk_eqb k c) eqn:E; cbn [negb length]; fold (remove_key t c).
  - pose proof (length_remove_key_le t c). lia.
  - apply mem_cons in H. destruct H as [H|H]; [apply sdk_eqb_neq in E; contradiction|].
    specialize (IH c H). lia.
Qed.

(* ------------------------------------------------------------------ *)
(* Next on the ordered collection                                      *)

Lemma succ_key_spec : forall s c,
  match succ_key s c with
  | Some n => mem s n = true /\ sdk_lt c n /\ (forall x, mem s x = true -> sdk_lt c x -> x = n \/ sdk_lt n x)
  | None => forall x, mem s x = true -> ~ sdk_lt c x
  end.
Proof.
  induction s as [|[k v] t IH]; intros c.
  - cbn. intros x H. discriminate.
  - cbn [succ_key]. specialize (IH c).
    destruct (sdk_ltb c k) eqn:Eck.
    + apply sdk_ltb_lt in Eck. destruct (succ_key t c) as [k'|] eqn:Er.
      * destruct IH as (Hm & Hlt & Hleast).
        destruct (sdk_ltb k' k) eqn:Ek'k.
        -- apply sdk_ltb_lt in Ek'k. split; [apply mem_cons; right; exact Hm|]. split; [exact Hlt|].
           intros x Hx Hcx. apply mem_cons in Hx. destruct Hx as [Hx|Hx].
           ++ subst x. right. exact Ek'k.
           ++ apply Hleast; assumption.
        -- apply sdk_ltb_nlt in Ek'k. split; [apply mem_cons; left; reflexivity|]. split; [exact Eck|].
           intros x Hx Hcx. apply mem_cons in Hx. destruct Hx as [Hx|Hx].
           ++ left. symmetry. exact Hx.
           ++ destruct (Hleast x Hx Hcx) as [E|L].
              ** subst x. destruct (sdk_lt_total k k') as [A|[A|A]]; [right; exact A|left; symmetry; exact A|contradiction].
              ** destruct (sdk_lt_total k k') as [A|[A|A]].
                 --- right. eapply sdk_lt_trans; eassumption.
                 --- subst k'. right. exact L.
                 --- contradiction.
      * split; [apply mem_cons; left; reflexivity|]. split; [exact Eck|].
        intros x Hx Hcx. apply mem_cons in Hx. destruct Hx as [Hx|Hx].
        -- left. symmetry. exact Hx.
        -- exfalso. exact (IH x Hx Hcx).
    + apply sdk_ltb_nlt in Eck. destruct (succ_key t c) as [k'|] eqn:Er.
      * destruct IH as (Hm & Hlt & Hleast). split; [apply mem_cons; right; exact Hm|]. split; [exact Hlt|].
        intros x Hx Hcx. apply mem_cons in Hx. destruct Hx as [Hx|Hx].
        -- subst x. contradiction.
        -- apply Hleast; assumption.
      * intros x Hx Hcx. apply mem_cons in Hx. destruct Hx as [Hx|Hx].
        -- subst x. contradiction.
        -- exact (IH x Hx Hcx).
Qed.

(* THE SHORTCUT: moving Next from (k,i) lands on (k,i+1) exactly when (k,i+1)
   is in the collection — so "GetCurrentKey()+1 == wanted ? Next : Find" is a lookup.
   (The cursor key (k,i) need not even be present.) *)
Lemma succ_key_adjacent : forall s k i,
  succ_key s (k, i) = Some (k, (i + 1)%Z) <-> mem s (k, (i + 1)%Z) = true.
Proof.
  intros s k i. pose proof (succ_key_spec s (k, i)) as H. split.
  - intros E. rewrite E in H. apply H.
  - intros Hm. destruct (succ_key s (k, i)) as [n|].
    + destruct H as (Hn & Hlt & Hleast).
      destruct (Hleast _ Hm (sdk_lt_succ k i)) as [E|L]; [rewrite E; reflexivity|].
      exfalso. exact (sdk_adjacent k i n Hlt L).
    + exfalso. exact (H _ Hm (sdk_lt_succ k i)).
Qed.

Lemma succ_key_mem : forall s c n, succ_key s c = Some n -> mem s n = true.
Proof. intros s c n E. pose proof (succ_key_spec s c) as H. rewrite E in H. apply H. Qed.

(* ------------------------------------------------------------------ *)
(* cursor operations                                                   *)

Section WithOracle.
Variable orc : oracle.

Lemma bt_find_hit : forall b k, mem (bitems b) k = true ->
  bt_find orc b k = (true, mkBt (bitems b) (Some k) (btick b)).
Proof.
  intros b k H. unfold bt_find. destruct (bitems b) eqn:E; [discriminate|]. rewrite H. reflexivity.
Qed.

Lemma bt_find_miss : forall b k, mem (bitems b) k = false ->
  fst (bt_find orc b k) = false /\ bitems (snd (bt_find orc b k)) = bitems b.
Proof.
  intros b k H. unfold bt_find. destruct (bitems b) eqn:E; [split; [reflexivity|exact E]|].
  rewrite H. split; reflexivity.
Qed.

Lemma bt_next_items : forall b, bitems (snd (bt_next b)) = bitems b.
Proof.
  intros b. unfold bt_next. destruct (bcur b); [|reflexivity].
  destruct (succ_key (bitems b) s); reflexivity.
Qed.

(* the cursor precondition of the shortcut: with an UNSET cursor GetCurrentKey is
   the zero item, whose "+1" is (zero key, 1); a reader/writer of the zero key that
   wants chunk 1 would then call Next on an unset cursor (which finds nothing). *)
Definition safe (b : bt) (k : N) (i : Z) : Prop := bcur b = None -> (k, i) <> (kzero, 1%Z).

Lemma safe_some : forall b k i c, bcur b = Some c -> safe b k i.
Proof. intros b k i c H N. congruence. Qed.

Lemma seek_items : forall b k i, bitems (snd (seek orc b k i)) = bitems b.
Proof.
  intros b k i. unfold seek. destruct (sdk_eqb _ _).
  - pose proof (bt_next_items b) as H. destruct (bt_next b) as [f b1]. cbn [snd] in H.
    destruct (f && negb (sdk_eqb (bt_curkey b1) (k, i))); cbn [snd]; exact H.
  - unfold bt_find. destruct (bitems b) as [|e t] eqn:E; [cbn [snd]; exact E|].
    destruct (mem (e :: t) (k, i)); reflexivity.
Qed.

(* a chunk that is not there is never "found", whatever the cursor *)
Lemma seek_absent : forall b k i, mem (bitems b) (k, i) = false -> fst (seek orc b k i) = false.
Proof.
  intros b k i H. unfold seek. destruct (sdk_eqb _ _) eqn:E.
  - unfold bt_next. destruct (bcur b) as [c|] eqn:Ec; [|reflexivity].
    destruct (succ_key (bitems b) c) as [n|] eqn:En; [|reflexivity].
    cbn [andb]. unfold bt_curkey. cbn [bcur].
    destruct (sdk_eqb n (k, i)) eqn:Enk.
    + apply sdk_eqb_eq in Enk. subst n. apply succ_key_mem in En. congruence.
    + reflexivity.
  - apply bt_find_miss. exact H.
Qed.

(* a chunk that is there is found and selected, provided the cursor is [safe] *)
Lemma seek_present : forall b k i, mem (bitems b) (k, i) = true -> safe b k i ->
  seek orc b k i = (true, mkBt (bitems b) (Some (k, i)) (btick b)).
Proof.
  intros b k i H Hs. unfold seek. destruct (sdk_eqb _ _) eqn:E.
  - apply sdk_eqb_eq in E. unfold bt_curkey in E. unfold bt_next.
    destruct (bcur b) as [[ck ci]|] eqn:Ec.
    + cbn [fst snd] in E. inversion E. subst k i.
      apply succ_key_adjacent in H. rewrite H. cbn [andb]. unfold bt_curkey. cbn [bcur].
      rewrite sdk_eqb_refl. reflexivity.
    + cbn [fst snd] in E. exfalso. apply (Hs Ec). symmetry. exact E.
  - apply bt_find_hit. exact H.
Qed.

End WithOracle.

(* ------------------------------------------------------------------ *)
(* chunk lists                                                         *)

(* the chunks of key k in store s, as a function of the chunk index *)
Definition chunk_view (s : items) (k : N) (f : Z -> option chunk) : Prop :=
  forall i, lookup s (k, i) = f i.

(* key k holds exactly the chunks cs at indices 0 .. length cs - 1 *)
Definition has_chunks (s : items) (k : N) (cs : list chunk) : Prop := chunk_view s k (nthZ cs).

(* the chunks of every other key are what they were *)
Definition others_same (s s' : items) (k : N) : Prop :=
  forall k' i, k' <> k -> lookup s' (k', i) = lookup s (k', i).

Lemma nthZ_nat : forall cs j, nthZ cs (Z.of_nat j) = nth_error cs j.
Proof.
  intros cs j. unfold nthZ. destruct (Z.of_nat j <? 0)%Z eqn:E; [apply Z.ltb_lt in E; lia|].
  rewrite Nat2Z.id. reflexivity.
Qed.

Lemma nthZ_neg : forall cs i, (i < 0)%Z -> nthZ cs i = None.
Proof. intros cs i H. unfold nthZ. apply Z.ltb_lt in H. rewrite H. reflexivity. Qed.

Lemma nthZ_beyond : forall cs i, (Z.of_nat (length cs) <= i)%Z -> nthZ cs i = None.
Proof.
  intros cs i H. unfold nthZ. destruct (i <? 0)%Z; [reflexivity|].
  apply nth_error_None. lia.
Qed.

Lemma nthZ_some : forall cs i c, nthZ cs i = Some c -> (0 <= i < Z.of_nat (length cs))%Z.
Proof.
  intros cs i c H. unfold nthZ in H. destruct (i <? 0)%Z eqn:E; [discriminate|].
  apply Z.ltb_ge in E. assert (Hn : nth_error cs (Z.to_nat i) <> None) by congruence.
  apply nth_error_Some in Hn. lia.
Qed.

Lemma skipn_nth_error : forall (A : Type) (l : list A) j x,
  nth_error l j = Some x -> skipn j l = x :: skipn (S j) l.
Proof.
  induction l as [|a t IH]; intros j x H; [destruct j; discriminate|].
  destruct j as [|j]; [cbn in H; inversion H; reflexivity|].
  cbn [nth_error] in H. change (skipn (S j) (a :: t)) with (skipn j t).
  change (skipn (S (S j)) (a :: t)) with (skipn (S j) t). apply IH. exact H.
Qed.

Lemma skipn_skipn_add : forall (A : Type) a b (l : list A), skipn a (skipn b l) = skipn (b + a) l.
Proof.
  intros A a b. induction b as [|b IH]; intros l; [reflexivity|].
  destruct l as [|x t]; [rewrite !skipn_nil; reflexivity|]. cbn [skipn Nat.add]. apply IH.
Qed.

(* ------------------------------------------------------------------ *)
(* the repaired reader                                                 *)

Section Reader.
Variable orc : oracle.
Variable s : items.
Variable k : N.
Variable cs : list chunk.
Hypothesis Hcs : has_chunks s k cs.

(* bytes the reader still has to deliver when it stands at chunk j *)
Definition remaining (r : reader) (j : nat) : chunk :=
  match rchunk r with
  | Some ch => skipn (rcount r) ch ++ concat (skipn (S j) cs)
  | None => concat (skipn j cs)
  end.

Definition rinv (b : bt) (r : reader) (j : nat) : Prop :=
  bitems b = s /\ rkey r = k /\ ridx r = Z.of_nat j /\ j <= length cs /\
  match rchunk r with
  | Some ch => nth_error cs j = Some ch /\ rcount r < length ch /\ bcur b = Some (k, Z.of_nat j)
  | None => rcount r = 0 /\ (j < length cs -> safe b k (Z.of_nat j))
  end.

Definition mu (r : reader) (j : nat) : nat := length (remaining r j) + (length cs - j).

Lemma mem_chunk : forall j, mem s (k, Z.of_nat j) = true <-> j < length cs.
Proof.
  intros j. rewrite mem_lookup, (Hcs (Z.of_nat j)), nthZ_nat. apply nth_error_Some.
Qed.

Lemma read_step : forall b r j p, rinv b r j -> 1 <= p ->
  exists d eof b' r' j',
    read orc true b r p = ((d, eof), b', r') /\ rinv b' r' j' /\
    remaining r j = d ++ remaining r' j' /\ length d <= p /\
    (eof = true -> d = [] /\ mu r j = 0 /\ r' = r /\ j' = j) /\
    (eof = false -> mu r' j' < mu r j).
Proof.
  intros b r j p (Hit & Hk & Hi & Hj & Hst) Hp.
  unfold read. destruct r as [rk ri rc rn]. cbn [rkey ridx rchunk rcount] in *. subst rk ri.
  destruct rc as [ch|].
  - (* draining the buffered remainder *)
    destruct Hst as (Hnth & Hcnt & Hcur).
    set (d := firstn p (skipn rn ch)).
    assert (Hlen_skip : length (skipn rn ch) = length ch - rn) by apply skipn_length.
    assert (Hd : length d = Nat.min p (length ch - rn)) by (unfold d; rewrite firstn_length, Hlen_skip; reflexivity).
    destruct (Nat.leb (length ch) (length d + rn)) eqn:E.
    + apply Nat.leb_le in E.
      exists d, false, b, (mkReader k (Z.of_nat j + 1) None 0), (S j).
      assert (Hall : d = skipn rn ch) by (unfold d; apply firstn_all2; lia).
      split; [reflexivity|]. split.
      { split; [exact Hit|]. split; [reflexivity|]. split; [cbn [ridx]; lia|].
        split; [apply nth_error_Some; congruence|]. cbn [rchunk rcount].
        assert (Hjl : j < length cs) by (apply nth_error_Some; congruence).
        split; [reflexivity|]. intros _. eapply safe_some. exact Hcur. }
      split; [unfold remaining; cbn [rchunk rcount]; rewrite Hall; reflexivity|].
      split; [unfold d; rewrite firstn_length; lia|].
      split; [discriminate|]. intros _. unfold mu, remaining. cbn [rchunk rcount].
      assert (Hjl : j < length cs) by (apply nth_error_Some; congruence).
      rewrite app_length, Hlen_skip. lia.
    + apply Nat.leb_gt in E.
      exists d, false, b, (mkReader k (Z.of_nat j) (Some ch) (rn + length d)), j.
      assert (Hdp : length d = p) by lia.
      split; [reflexivity|]. split.
      { split; [exact Hit|]. split; [reflexivity|]. split; [reflexivity|]. split; [exact Hj|].
        cbn [rchunk rcount]. split; [exact Hnth|]. split; [lia|exact Hcur]. }
      split.
      { unfold remaining. cbn [rchunk rcount]. rewrite app_assoc. f_equal.
        rewrite <- skipn_skipn_add. rewrite Hdp. unfold d. symmetry. apply firstn_skipn. }
      split; [lia|]. split; [discriminate|]. intros _.
      unfold mu, remaining. cbn [rchunk rcount]. rewrite !app_length, !skipn_length. lia.
  - (* fetching the next chunk *)
    destruct Hst as (Hrn & Hsafe). subst rn.
    destruct (Nat.lt_ge_cases j (length cs)) as [Hlt|Hge].
    + (* chunk j exists *)
      assert (Hm : mem (bitems b) (k, Z.of_nat j) = true) by (rewrite Hit; apply mem_chunk; exact Hlt).
      rewrite (seek_present orc b k (Z.of_nat j) Hm (Hsafe Hlt)). cbn [negb].
      destruct (nth_error cs j) as [ch|] eqn:Hnth; [|apply nth_error_None in Hnth; lia].
      assert (Hval : bt_curval (mkBt (bitems b) (Some (k, Z.of_nat j)) (btick b)) = ch).
      { unfold bt_curval. cbn [bcur bitems]. rewrite Hit, (Hcs (Z.of_nat j)), nthZ_nat, Hnth. reflexivity. }
      rewrite Hval. set (d := firstn p ch).
      assert (Hd : length d = Nat.min p (length ch)) by (unfold d; apply firstn_length).
      assert (Hskip : concat (skipn j cs) = ch ++ concat (skipn (S j) cs)).
      { rewrite (skipn_nth_error _ cs j ch Hnth). reflexivity. }
      destruct (Nat.ltb (length d) (length ch)) eqn:E.
      * apply Nat.ltb_lt in E.
        exists d, false, (mkBt (bitems b) (Some (k, Z.of_nat j)) (btick b)), (mkReader k (Z.of_nat j) (Some ch) (length d)), j.
        split; [reflexivity|]. split.
        { split; [exact Hit|]. split; [reflexivity|]. split; [reflexivity|]. split; [exact Hj|].
          cbn [rchunk rcount bcur]. split; [exact Hnth|]. split; [exact E|reflexivity]. }
        assert (Hdp : length d = p) by lia.
        split.
        { unfold remaining. cbn [rchunk rcount]. rewrite Hskip, app_assoc. f_equal.
          rewrite Hdp. unfold d. symmetry. apply firstn_skipn. }
        split; [lia|]. split; [discriminate|]. intros _.
        unfold mu, remaining. cbn [rchunk rcount]. rewrite Hskip, !app_length, skipn_length. lia.
      * apply Nat.ltb_ge in E.
        exists d, false, (mkBt (bitems b) (Some (k, Z.of_nat j)) (btick b)), (mkReader k (Z.of_nat j + 1) None 0), (S j).
        assert (Hall : d = ch) by (unfold d; apply firstn_all2; lia).
        split; [reflexivity|]. split.
        { split; [exact Hit|]. split; [reflexivity|]. split; [cbn [ridx]; lia|]. split; [lia|].
          cbn [rchunk rcount]. split; [reflexivity|]. intros _. eapply safe_some. reflexivity. }
        split; [unfold remaining; cbn [rchunk]; rewrite Hskip, Hall; reflexivity|].
        split; [unfold d; rewrite firstn_length; lia|]. split; [discriminate|]. intros _.
        unfold mu, remaining. cbn [rchunk]. rewrite Hskip, app_length. lia.
    + (* no chunk j: io.EOF *)
      assert (Hm : mem (bitems b) (k, Z.of_nat j) = false).
      { rewrite Hit. destruct (mem s (k, Z.of_nat j)) eqn:E; [apply mem_chunk in E; lia|reflexivity]. }
      pose proof (seek_absent orc b k (Z.of_nat j) Hm) as Hf.
      pose proof (seek_items orc b k (Z.of_nat j)) as Hi.
      destruct (seek orc b k (Z.of_nat j)) as [f b1]. cbn [fst snd] in Hf, Hi. subst f. cbn [negb].
      exists [], true, b1, (mkReader k (Z.of_nat j) None 0), j.
      split; [reflexivity|]. split.
      { split; [congruence|]. split; [reflexivity|]. split; [reflexivity|]. split; [exact Hj|].
        cbn [rchunk rcount]. split; [reflexivity|]. intros; lia. }
      split; [reflexivity|]. split; [cbn; lia|]. split; [|discriminate]. intros _.
      split; [reflexivity|]. split; [|split; reflexivity].
      unfold mu, remaining. cbn [rchunk]. rewrite skipn_all2 by exact Hge. cbn. lia.
Qed.

Lemma reads_spec : forall sizes b r j, rinv b r j -> Forall (fun p => 1 <= p) sizes ->
  exists datas n,
    reads orc true b r sizes = map (fun d => (d, false)) datas ++ repeat ([], true) n /\
    length datas <= mu r j /\
    (exists rest, remaining r j = concat datas ++ rest) /\
    (0 < n -> concat datas = remaining r j) /\
    Forall2 (fun d p => length d <= p) datas (firstn (length datas) sizes).
Proof.
  induction sizes as [|p t IH]; intros b r j Hinv Hsz.
  - exists [], 0. cbn. split; [reflexivity|]. split; [lia|]. split; [exists (remaining r j); reflexivity|].
    split; [lia|constructor].
  - inversion Hsz as [|? ? Hp Ht]; subst.
    destruct (read_step b r j p Hinv Hp) as (d & eof & b' & r' & j' & Hrd & Hinv' & Hrem & Hlen & Heof & Hne).
    cbn [reads]. rewrite Hrd.
    destruct (IH b' r' j' Hinv' Ht) as (datas & n & Hres & Hcnt & (rest & Hrest) & Hfull & Hbuf).
    destruct eof.
    + destruct (Heof eq_refl) as (Hd & Hmu & Hr & Hjj). subst d r' j'.
      assert (Hdz : datas = []) by (destruct datas; [reflexivity|cbn in Hcnt; lia]).
      subst datas. exists [], (S n). cbn [map app repeat length concat firstn].
      split; [rewrite Hres; reflexivity|]. split; [lia|].
      assert (Hz : remaining r j = []) by (unfold mu in Hmu; destruct (remaining r j); [reflexivity|cbn in Hmu; lia]).
      split; [exists []; rewrite Hz; reflexivity|]. split; [intros _; symmetry; exact Hz|constructor].
    + specialize (Hne eq_refl). exists (d :: datas), n.
      split; [rewrite Hres; reflexivity|]. split; [cbn [length]; lia|].
      split; [exists rest; cbn [concat]; rewrite Hrem, Hrest, app_assoc; reflexivity|].
      split; [intros Hn; cbn [concat]; rewrite Hrem, (Hfull Hn); reflexivity|].
      cbn [length firstn]. constructor; assumption.
Qed.

End Reader.

(* ------------------------------------------------------------------ *)
(* writer, Encoder.Close, Remove                                       *)

Lemma chunk_view_mem : forall s k f i, chunk_view s k f -> (mem s (k, i) = true <-> f i <> None).
Proof. intros s k f i H. rewrite mem_lookup, (H i). reflexivity. Qed.

Lemma chunk_view_mem_false : forall s k f i, chunk_view s k f -> f i = None -> mem s (k, i) = false.
Proof. intros s k f i H E. apply mem_false_lookup. rewrite (H i). exact E. Qed.

Lemma others_same_refl : forall s k, others_same s s k.
Proof. intros s k k' i H. reflexivity. Qed.

Lemma others_same_trans : forall s1 s2 s3 k, others_same s1 s2 k -> others_same s2 s3 k -> others_same s1 s3 k.
Proof. intros s1 s2 s3 k H1 H2 k' i Hk. rewrite (H2 k' i Hk). apply H1. exact Hk. Qed.

Lemma sdk_eqb_key : forall k i j, sdk_eqb (k, j) (k, i) = (i =? j)%Z.
Proof.
  intros k i j. unfold sdk_eqb. cbn [fst snd]. rewrite N.eqb_refl. cbn [andb]. apply Z.eqb_sym.
Qed.

Lemma sdk_eqb_other : forall k k' i j, k' <> k -> sdk_eqb (k, j) (k', i) = false.
Proof.
  intros k k' i j H. apply sdk_eqb_neq. intros E. inversion E. congruence.
Qed.

(* interval test used by the chunk views *)
Definition inr (j n i : Z) : bool := ((j <=? i) && (i <? j + n))%Z.

Lemma inr_true : forall j n i, inr j n i = true <-> (j <= i < j + n)%Z.
Proof. intros. unfold inr. rewrite andb_true_iff, Z.leb_le, Z.ltb_lt. reflexivity. Qed.

Lemma inr_false : forall j n i, inr j n i = false <-> ~ (j <= i < j + n)%Z.
Proof. intros. rewrite <- inr_true. destruct (inr j n i); split; intros; congruence. Qed.

Lemma inr_step : forall (news : list chunk) p j i f,
  (if inr (j + 1) (Z.of_nat (length news)) i then nthZ news (i - (j + 1))
   else if (i =? j)%Z then Some p else f i) =
  (if inr j (Z.of_nat (length (p :: news))) i then nthZ (p :: news) (i - j) else f i).
Proof.
  intros news p j i f. cbn [length].
  destruct (inr (j + 1) (Z.of_nat (length news)) i) eqn:E1.
  - apply inr_true in E1.
    replace (inr j (Z.of_nat (S (length news))) i) with true by (symmetry; apply inr_true; lia).
    unfold nthZ. destruct (i - (j + 1) <? 0)%Z eqn:N1; [apply Z.ltb_lt in N1; lia|].
    destruct (i - j <? 0)%Z eqn:N2; [apply Z.ltb_lt in N2; lia|].
    replace (Z.to_nat (i - j)) with (S (Z.to_nat (i - (j + 1)))) by lia. reflexivity.
  - apply inr_false in E1. destruct (i =? j)%Z eqn:E.
    + apply Z.eqb_eq in E. subst i.
      replace (inr j (Z.of_nat (S (length news))) j) with true by (symmetry; apply inr_true; lia).
      rewrite Z.sub_diag. reflexivity.
    + apply Z.eqb_neq in E.
      replace (inr j (Z.of_nat (S (length news))) i) with false by (symmetry; apply inr_false; lia).
      reflexivity.
Qed.

(* "once absent, absent from there on" (what contiguous chunk lists satisfy) *)
Definition dclosed (f : Z -> option chunk) (j : Z) : Prop :=
  forall i i', (j <= i)%Z -> (i <= i')%Z -> f i = None -> f i' = None.

Lemma dclosed_nthZ : forall cs j, (0 <= j)%Z -> dclosed (nthZ cs) j.
Proof.
  intros cs j Hj i i' H1 H2 E. apply nthZ_beyond.
  destruct (Z_lt_le_dec i (Z.of_nat (length cs))) as [L|L]; [|lia].
  exfalso. unfold nthZ in E. destruct (i <? 0)%Z eqn:Ei; [apply Z.ltb_lt in Ei; lia|].
  apply nth_error_None in E. lia.
Qed.

Section Writer.
Variable orc : oracle.
Variable k : N.

(* ---- one Write in add mode on an absent chunk *)
Lemma write_add_step : forall b f j p, chunk_view (bitems b) k f -> f j = None ->
  exists b', write orc b (mkWriter k j true) p = (true, b', mkWriter k (j + 1)%Z true) /\
    chunk_view (bitems b') k (fun i => if (i =? j)%Z then Some p else f i) /\
    others_same (bitems b) (bitems b') k.
Proof.
  intros b f j p Hv Hf. unfold write. cbn [wadd wkey widx]. unfold bt_add.
  rewrite (chunk_view_mem_false _ _ _ _ Hv Hf).
  eexists. split; [reflexivity|]. cbn [bitems]. split.
  - intros i. cbn [lookup]. rewrite sdk_eqb_key. destruct (i =? j)%Z; [reflexivity|apply Hv].
  - intros k' i Hk. cbn [lookup]. rewrite (sdk_eqb_other k k' i j Hk). reflexivity.
Qed.

(* ---- one Write in update mode: replaces chunk j if it is there, adds it otherwise *)
Lemma write_update_step : forall b f j p, chunk_view (bitems b) k f -> (f j <> None -> safe b k j) ->
  exists b', write orc b (mkWriter k j false) p = (true, b', mkWriter k (j + 1)%Z false) /\
    chunk_view (bitems b') k (fun i => if (i =? j)%Z then Some p else f i) /\
    others_same (bitems b) (bitems b') k /\
    (f j <> None -> bcur b' = Some (k, j)).
Proof.
  intros b f j p Hv Hs. unfold write. cbn [wadd wkey widx].
  destruct (f j) as [old|] eqn:Hf.
  - assert (Hm : mem (bitems b) (k, j) = true) by (apply (chunk_view_mem _ _ _ _ Hv); congruence).
    rewrite (seek_present orc b k j Hm (Hs ltac:(discriminate))).
    unfold bt_update_cur. cbn [bcur bitems]. rewrite Hm.
    eexists. split; [reflexivity|]. cbn [bitems bcur]. split; [|split; [|reflexivity]].
    + intros i. rewrite lookup_set_val, (Hv i), sdk_eqb_key, Z.eqb_sym.
      destruct (i =? j)%Z eqn:E; [apply Z.eqb_eq in E; subst i; rewrite Hf; reflexivity|].
      destruct (f i); reflexivity.
    + intros k' i Hk. rewrite lookup_set_val. rewrite sdk_eqb_sym, (sdk_eqb_other k k' i j Hk).
      destruct (lookup (bitems b) (k', i)); reflexivity.
  - assert (Hm : mem (bitems b) (k, j) = false) by (apply (chunk_view_mem_false _ _ _ _ Hv); exact Hf).
    pose proof (seek_absent orc b k j Hm) as Hfst. pose proof (seek_items orc b k j) as Hit.
    destruct (seek orc b k j) as [fd b1]. cbn [fst snd] in Hfst, Hit. subst fd.
    unfold bt_add. rewrite Hit, Hm.
    eexists. split; [reflexivity|]. cbn [bitems]. split; [|split; [|congruence]].
    + intros i. cbn [lookup]. rewrite sdk_eqb_key. destruct (i =? j)%Z; [reflexivity|apply Hv].
    + intros k' i Hk. cbn [lookup]. rewrite (sdk_eqb_other k k' i j Hk). reflexivity.
Qed.

(* ---- all Writes of one Encoder in update mode *)
Lemma write_all_update : forall news b f j, chunk_view (bitems b) k f -> (f j <> None -> safe b k j) -> dclosed f j ->
  exists b', write_all orc b (mkWriter k j false) news = (true, b', mkWriter k (j + Z.of_nat (length news))%Z false) /\
    chunk_view (bitems b') k (fun i => if inr j (Z.of_nat (length news)) i then nthZ news (i - j) else f i) /\
    others_same (bitems b) (bitems b') k.
Proof.
  induction news as [|p t IH]; intros b f j Hv Hs Hd.
  - exists b. cbn [write_all length]. rewrite Z.add_0_r. split; [reflexivity|]. split; [|apply others_same_refl].
    intros i. replace (inr j (Z.of_nat 0) i) with false by (symmetry; apply inr_false; lia). apply Hv.
  - destruct (write_update_step b f j p Hv Hs) as (b1 & Hw & Hv1 & Ho1 & Hc1).
    cbn [write_all]. rewrite Hw.
    destruct (IH b1 _ (j + 1)%Z Hv1) as (b2 & Hw2 & Hv2 & Ho2).
    + intros Hne. destruct (j + 1 =? j)%Z eqn:E; [apply Z.eqb_eq in E; lia|].
      destruct (f j) eqn:Hfj.
      * eapply safe_some. apply Hc1. discriminate.
      * exfalso. apply Hne. apply (Hd j (j + 1)%Z); [lia|lia|exact Hfj].
    + intros i i' H1 H2. destruct (i =? j)%Z eqn:E; [apply Z.eqb_eq in E; lia|].
      destruct (i' =? j)%Z eqn:E'; [apply Z.eqb_eq in E'; lia|]. apply Hd; lia.
    + exists b2. split.
      { rewrite Hw2. f_equal. f_equal. cbn [length]. lia. }
      split; [|eapply others_same_trans; eassumption].
      intros i. rewrite (Hv2 i). apply inr_step.
Qed.

(* ---- all Writes of one Encoder in add mode *)
Lemma write_all_add : forall news b f j, chunk_view (bitems b) k f -> (forall i, (j <= i)%Z -> f i = None) ->
  exists b', write_all orc b (mkWriter k j true) news = (true, b', mkWriter k (j + Z.of_nat (length news))%Z true) /\
    chunk_view (bitems b') k (fun i => if inr j (Z.of_nat (length news)) i then nthZ news (i - j) else f i) /\
    others_same (bitems b) (bitems b') k.
Proof.
  induction news as [|p t IH]; intros b f j Hv Hn.
  - exists b. cbn [write_all length]. rewrite Z.add_0_r. split; [reflexivity|]. split; [|apply others_same_refl].
    intros i. replace (inr j (Z.of_nat 0) i) with false by (symmetry; apply inr_false; lia). apply Hv.
  - destruct (write_add_step b f j p Hv (Hn j ltac:(lia))) as (b1 & Hw & Hv1 & Ho1).
    cbn [write_all]. rewrite Hw.
    destruct (IH b1 _ (j + 1)%Z Hv1) as (b2 & Hw2 & Hv2 & Ho2).
    + intros i Hi. destruct (i =? j)%Z eqn:E; [apply Z.eqb_eq in E; lia|]. apply Hn. lia.
    + exists b2. split.
      { rewrite Hw2. f_equal. f_equal. cbn [length]. lia. }
      split; [|eapply others_same_trans; eassumption].
      intros i. rewrite (Hv2 i). apply inr_step.
Qed.

(* ---- Encoder.Close in update mode: every chunk from chunkIndex on is deleted, and the
   fuel S (number of items) is never exhausted *)
Lemma close_loop_spec : forall fuel b g j, chunk_view (bitems b) k g -> dclosed g j -> length (bitems b) < fuel ->
  exists b' w', close_loop orc fuel b (mkWriter k j false) = (true, b', w') /\
    chunk_view (bitems b') k (fun i => if (j <=? i)%Z then None else g i) /\
    others_same (bitems b) (bitems b') k.
Proof.
  induction fuel as [|fuel IH]; intros b g j Hv Hd Hlen; [lia|].
  cbn [close_loop wkey widx]. destruct (g j) as [old|] eqn:Hg.
  - assert (Hm : mem (bitems b) (k, j) = true) by (apply (chunk_view_mem _ _ _ _ Hv); congruence).
    rewrite (bt_find_hit orc b (k, j) Hm). cbn [negb]. unfold bt_remove_cur. cbn [bcur bitems]. rewrite Hm.
    unfold bump. cbn [wkey widx wadd].
    set (b1 := mkBt (remove_key (bitems b) (k, j)) None (btick b)).
    assert (Hv1 : chunk_view (bitems b1) k (fun i => if (i =? j)%Z then None else g i)).
    { intros i. cbn [b1 bitems]. rewrite lookup_remove_key, sdk_eqb_key. destruct (i =? j)%Z; [reflexivity|apply Hv]. }
    destruct (IH b1 _ (j + 1)%Z Hv1) as (b2 & w2 & Hc & Hv2 & Ho2).
    + intros i i' H1 H2. destruct (i =? j)%Z eqn:E; [apply Z.eqb_eq in E; lia|].
      destruct (i' =? j)%Z eqn:E'; [reflexivity|]. apply Hd; lia.
    + cbn [b1 bitems]. pose proof (length_remove_key (bitems b) (k, j) Hm). lia.
    + exists b2, w2. split; [exact Hc|]. split.
      * intros i. rewrite (Hv2 i). destruct (Z.eq_dec i j) as [->|Hij].
        -- destruct (j + 1 <=? j)%Z eqn:A; [apply Z.leb_le in A; lia|]. rewrite Z.eqb_refl, Z.leb_refl. reflexivity.
        -- destruct (i =? j)%Z eqn:E; [apply Z.eqb_eq in E; contradiction|].
           destruct (j + 1 <=? i)%Z eqn:A; destruct (j <=? i)%Z eqn:B; try reflexivity.
           ++ apply Z.leb_le in A. apply Z.leb_gt in B. lia.
           ++ apply Z.leb_gt in A. apply Z.leb_le in B. lia.
      * eapply others_same_trans; [|exact Ho2]. intros k' i Hk. cbn [b1 bitems].
        rewrite lookup_remove_key, (sdk_eqb_other k k' i j Hk). reflexivity.
  - assert (Hm : mem (bitems b) (k, j) = false) by (apply (chunk_view_mem_false _ _ _ _ Hv); exact Hg).
    pose proof (bt_find_miss orc b (k, j) Hm) as [Hf Hit].
    destruct (bt_find orc b (k, j)) as [fd b1]. cbn [fst snd] in Hf, Hit. subst fd. cbn [negb].
    exists b1, (mkWriter k j false). split; [reflexivity|]. split.
    + intros i. rewrite Hit, (Hv i). destruct (j <=? i)%Z eqn:A; [|reflexivity].
      apply Z.leb_le in A. apply (Hd j i); [lia|exact A|exact Hg].
    + rewrite Hit. apply others_same_refl.
Qed.

End Writer.

(* ------------------------------------------------------------------ *)
(* StreamingDataStore operations                                       *)

Lemma nthZ_nil : forall i, nthZ [] i = None.
Proof. intros i. unfold nthZ. destruct (i <? 0)%Z; [reflexivity|]. destruct (Z.to_nat i); reflexivity. Qed.

Lemma has_chunks_first : forall s k cs, has_chunks s k cs -> cs <> [] -> mem s (k, 0%Z) = true.
Proof.
  intros s k cs H Hne. apply (chunk_view_mem _ _ _ _ H). change 0%Z with (Z.of_nat 0). rewrite nthZ_nat.
  destruct cs; [contradiction|discriminate].
Qed.

Lemma has_chunks_nofirst : forall s k, has_chunks s k [] -> mem s (k, 0%Z) = false.
Proof. intros s k H. apply (chunk_view_mem_false _ _ _ _ H). apply nthZ_nil. Qed.

(* a key with m chunks needs m items *)
Lemma mem_count : forall k n s, (forall t, t < n -> mem s (k, Z.of_nat t) = true) -> n <= length s.
Proof.
  intros k. induction n as [|n IH]; intros s H; [lia|].
  assert (Hn : mem s (k, Z.of_nat n) = true) by (apply H; lia).
  pose proof (length_remove_key s _ Hn) as Hl.
  assert (n <= length (remove_key s (k, Z.of_nat n))); [|lia].
  apply IH. intros t Ht. apply mem_lookup. rewrite lookup_remove_key, sdk_eqb_key.
  destruct (Z.of_nat t =? Z.of_nat n)%Z eqn:E; [apply Z.eqb_eq in E; lia|].
  apply mem_lookup. apply H. lia.
Qed.

Lemma has_chunks_length : forall s k cs, has_chunks s k cs -> length cs <= length s.
Proof.
  intros s k cs H. apply (mem_count k). intros t Ht. apply (chunk_view_mem _ _ _ _ H).
  rewrite nthZ_nat. apply nth_error_Some. exact Ht.
Qed.

Section Store.
Variable orc : oracle.
Variable k : N.

Lemma sd_update_current_spec : forall b old news,
  has_chunks (bitems b) k old -> old <> [] -> bcur b = Some (k, 0%Z) ->
  exists b', sd_update_current orc b news = (StOk, b') /\ has_chunks (bitems b') k news /\
             others_same (bitems b) (bitems b') k.
Proof.
  intros b old news Hv Hne Hc.
  pose proof (has_chunks_first _ _ _ Hv Hne) as Hm.
  unfold sd_update_current. destruct (bitems b) as [|e t] eqn:E; [discriminate|]. rewrite <- E in Hv, Hm |- *.
  unfold bt_curkey. rewrite Hc. cbn [fst].
  destruct (write_all_update orc k news b (nthZ old) 0%Z Hv) as (b1 & Hw & Hv1 & Ho1).
  { intros _. eapply safe_some. exact Hc. }
  { apply dclosed_nthZ. lia. }
  rewrite Hw. unfold enc_close. cbn [wadd].
  destruct (close_loop_spec orc k (S (length (bitems b1))) b1 _ (0 + Z.of_nat (length news))%Z Hv1) as (b2 & w2 & Hc2 & Hv2 & Ho2).
  { intros i i' H1 H2.
    replace (inr 0 (Z.of_nat (length news)) i) with false by (symmetry; apply inr_false; lia).
    replace (inr 0 (Z.of_nat (length news)) i') with false by (symmetry; apply inr_false; lia).
    apply (dclosed_nthZ old (0 + Z.of_nat (length news))%Z); lia. }
  { lia. }
  rewrite Hc2. exists b2. split; [reflexivity|]. split; [|eapply others_same_trans; eassumption].
  intros i. rewrite (Hv2 i). destruct (0 + Z.of_nat (length news) <=? i)%Z eqn:A.
  - apply Z.leb_le in A. symmetry. apply nthZ_beyond. lia.
  - apply Z.leb_gt in A. destruct (inr 0 (Z.of_nat (length news)) i) eqn:B.
    + rewrite Z.sub_0_r. reflexivity.
    + apply inr_false in B. rewrite !nthZ_neg by lia. reflexivity.
Qed.

(* Update(key) + Encode* + Close on an existing entry *)
Lemma sd_update_spec : forall b old news, has_chunks (bitems b) k old -> old <> [] ->
  exists b', sd_update orc b k news = (StOk, b') /\ has_chunks (bitems b') k news /\
             others_same (bitems b) (bitems b') k.
Proof.
  intros b old news Hv Hne. unfold sd_update, sd_find_one.
  rewrite (bt_find_hit orc b _ (has_chunks_first _ _ _ Hv Hne)).
  apply (sd_update_current_spec (mkBt (bitems b) (Some (k, 0%Z)) (btick b)) old news Hv Hne eq_refl).
Qed.

Lemma sd_update_missing : forall b news, has_chunks (bitems b) k [] ->
  exists b', sd_update orc b k news = (StNotFound, b') /\ bitems b' = bitems b.
Proof.
  intros b news Hv. unfold sd_update, sd_find_one.
  pose proof (bt_find_miss orc b _ (has_chunks_nofirst _ _ Hv)) as [Hf Hit].
  destruct (bt_find orc b (k, 0%Z)) as [fd b1]. cbn [fst snd] in Hf, Hit. subst fd.
  exists b1. split; [reflexivity|exact Hit].
Qed.

(* Add(key) + Encode* + Close on a key that has no chunks *)
Lemma sd_add_spec : forall b news, has_chunks (bitems b) k [] ->
  exists b', sd_add orc b k news = (StOk, b') /\ has_chunks (bitems b') k news /\
             others_same (bitems b) (bitems b') k.
Proof.
  intros b news Hv. unfold sd_add.
  destruct (write_all_add orc k news b (nthZ []) 0%Z Hv) as (b1 & Hw & Hv1 & Ho1).
  { intros i _. apply nthZ_nil. }
  rewrite Hw. unfold enc_close. cbn [wadd]. exists b1. split; [reflexivity|]. split; [|exact Ho1].
  intros i. rewrite (Hv1 i). destruct (inr 0 (Z.of_nat (length news)) i) eqn:B.
  - rewrite Z.sub_0_r. reflexivity.
  - apply inr_false in B. rewrite nthZ_nil. symmetry.
    destruct (Z_lt_le_dec i 0); [apply nthZ_neg; assumption|apply nthZ_beyond; lia].
Qed.

Lemma sd_upsert_spec : forall b old news, has_chunks (bitems b) k old ->
  exists b', sd_upsert orc b k news = (StOk, b') /\ has_chunks (bitems b') k news /\
             others_same (bitems b) (bitems b') k.
Proof.
  intros b old news Hv. unfold sd_upsert, sd_find_one. destruct old as [|c0 old'].
  - pose proof (bt_find_miss orc b _ (has_chunks_nofirst _ _ Hv)) as [Hf Hit].
    destruct (bt_find orc b (k, 0%Z)) as [fd b1]. cbn [fst snd] in Hf, Hit. subst fd.
    rewrite <- Hit in Hv |- *. apply sd_add_spec. exact Hv.
  - assert (Hne : c0 :: old' <> []) by discriminate.
    rewrite (bt_find_hit orc b _ (has_chunks_first _ _ _ Hv Hne)).
    apply (sd_update_spec (mkBt (bitems b) (Some (k, 0%Z)) (btick b)) (c0 :: old') news Hv Hne).
Qed.

(* ---- Remove *)
Definition kseq (j n : nat) : list sdk := map (fun t => (k, Z.of_nat t)) (seq j n).

Lemma collect_spec : forall cs n fuel b j acc,
  has_chunks (bitems b) k cs -> bcur b = Some (k, Z.of_nat j) -> j + S n = length cs -> n < fuel ->
  exists b', collect fuel b k acc = (true, acc ++ kseq j (S n), b') /\ bitems b' = bitems b.
Proof.
  intros cs. induction n as [|n IH]; intros fuel b j acc Hv Hc Hlen Hfuel;
    (destruct fuel as [|fuel]; [lia|]); cbn [collect]; unfold bt_next; rewrite Hc;
    (assert (Hck : bt_curkey b = (k, Z.of_nat j)) by (unfold bt_curkey; rewrite Hc; reflexivity)); rewrite !Hck; cbn [snd].
  - (* the last chunk of the key: Next leaves the key (or the store) *)
    destruct (succ_key (bitems b) (k, Z.of_nat j)) as [nx|] eqn:En.
    + unfold bt_curkey. cbn [bcur negb orb fst].
      pose proof (succ_key_spec (bitems b) (k, Z.of_nat j)) as Hs. rewrite En in Hs. destruct Hs as (Hm & Hlt & _).
      destruct (N.eqb (fst nx) k) eqn:Ek.
      * exfalso. apply N.eqb_eq in Ek. destruct nx as [nk ni]. cbn [fst] in Ek. subst nk.
        apply (chunk_view_mem _ _ _ _ Hv) in Hm. apply Hm. apply nthZ_beyond.
        unfold sdk_lt in Hlt. cbn [fst snd] in Hlt. lia.
      * cbn [negb orb]. eexists. split; [reflexivity|reflexivity].
    + cbn [negb orb]. eexists. split; [reflexivity|reflexivity].
  - (* an inner chunk: Next lands on the following chunk of the same key *)
    assert (Hm : mem (bitems b) (k, (Z.of_nat j + 1)%Z) = true).
    { apply (chunk_view_mem _ _ _ _ Hv). replace (Z.of_nat j + 1)%Z with (Z.of_nat (S j)) by lia.
      rewrite nthZ_nat. apply nth_error_Some. lia. }
    apply succ_key_adjacent in Hm. rewrite Hm. unfold bt_curkey. cbn [bcur fst]. rewrite N.eqb_refl. cbn [negb orb].
    destruct (IH fuel (mkBt (bitems b) (Some (k, (Z.of_nat j + 1)%Z)) (btick b)) (S j) (acc ++ [(k, Z.of_nat j)])) as (b' & Hcol & Hit).
    + exact Hv.
    + cbn [bcur]. f_equal. f_equal. lia.
    + lia.
    + lia.
    + exists b'. split; [|exact Hit]. rewrite <- app_assoc in Hcol. exact Hcol.
Qed.

Lemma remove_keys_spec : forall n j b g,
  chunk_view (bitems b) k g -> (forall t, j <= t < j + n -> g (Z.of_nat t) <> None) ->
  exists b', remove_keys orc b (kseq j n) true = (true, b') /\
    chunk_view (bitems b') k (fun i => if inr (Z.of_nat j) (Z.of_nat n) i then None else g i) /\
    others_same (bitems b) (bitems b') k.
Proof.
  induction n as [|n IH]; intros j b g Hv Hg.
  - exists b. split; [reflexivity|]. split; [|apply others_same_refl].
    intros i. replace (inr (Z.of_nat j) (Z.of_nat 0) i) with false by (symmetry; apply inr_false; lia). apply Hv.
  - unfold kseq. cbn [seq map remove_keys]. fold (kseq (S j) n).
    assert (Hm : mem (bitems b) (k, Z.of_nat j) = true) by (apply (chunk_view_mem _ _ _ _ Hv); apply Hg; lia).
    unfold bt_remove. rewrite (bt_find_hit orc b _ Hm). unfold bt_remove_cur. cbn [bcur bitems]. rewrite Hm. cbn [andb].
    set (b1 := mkBt (remove_key (bitems b) (k, Z.of_nat j)) None (btick b)).
    assert (Hv1 : chunk_view (bitems b1) k (fun i => if (i =? Z.of_nat j)%Z then None else g i)).
    { intros i. cbn [b1 bitems]. rewrite lookup_remove_key, sdk_eqb_key. destruct (i =? Z.of_nat j)%Z; [reflexivity|apply Hv]. }
    destruct (IH (S j) b1 _ Hv1) as (b2 & Hr & Hv2 & Ho2).
    + intros t Ht. destruct (Z.of_nat t =? Z.of_nat j)%Z eqn:E; [apply Z.eqb_eq in E; lia|]. apply Hg. lia.
    + exists b2. split; [exact Hr|]. split.
      * intros i. rewrite (Hv2 i).
        destruct (inr (Z.of_nat (S j)) (Z.of_nat n) i) eqn:A.
        -- apply inr_true in A. replace (inr (Z.of_nat j) (Z.of_nat (S n)) i) with true by (symmetry; apply inr_true; lia). reflexivity.
        -- apply inr_false in A. destruct (i =? Z.of_nat j)%Z eqn:E.
           ++ apply Z.eqb_eq in E. replace (inr (Z.of_nat j) (Z.of_nat (S n)) i) with true by (symmetry; apply inr_true; lia). reflexivity.
           ++ apply Z.eqb_neq in E. replace (inr (Z.of_nat j) (Z.of_nat (S n)) i) with false by (symmetry; apply inr_false; lia). reflexivity.
      * eapply others_same_trans; [|exact Ho2]. intros k' i Hk. cbn [b1 bitems].
        rewrite lookup_remove_key, (sdk_eqb_other k k' i (Z.of_nat j) Hk). reflexivity.
Qed.

(* Remove(key) of an existing entry *)
Lemma sd_remove_current_spec : forall b cs, has_chunks (bitems b) k cs -> cs <> [] -> bcur b = Some (k, 0%Z) ->
  exists b', sd_remove_current orc b = (StOk, b') /\ has_chunks (bitems b') k [] /\
             others_same (bitems b) (bitems b') k.
Proof.
  intros b cs Hv Hne Hc.
  pose proof (has_chunks_first _ _ _ Hv Hne) as Hm.
  pose proof (has_chunks_length _ _ _ Hv) as Hl.
  assert (Hlen : exists n, 0 + S n = length cs) by (destruct cs; [contradiction|eexists; reflexivity]).
  destruct Hlen as (n & Hn).
  destruct (collect_spec cs n (S (length (bitems b))) b 0 [] Hv Hc Hn ltac:(lia)) as (b1 & Hcol & Hit1).
  destruct (remove_keys_spec (S n) 0 b1 (nthZ cs)) as (b2 & Hr & Hv2 & Ho2).
  { rewrite Hit1. exact Hv. }
  { intros t Ht. rewrite nthZ_nat. apply nth_error_Some. lia. }
  assert (Hck : fst (bt_curkey b) = k) by (unfold bt_curkey; rewrite Hc; reflexivity).
  unfold sd_remove_current. rewrite Hck, Hcol. cbn [app]. rewrite Hr.
  destruct (bitems b) as [|e t] eqn:E; [discriminate|].
  exists b2. split; [reflexivity|]. split.
  - intros i. rewrite (Hv2 i), nthZ_nil. destruct (inr (Z.of_nat 0) (Z.of_nat (S n)) i) eqn:A; [reflexivity|].
    apply inr_false in A. destruct (Z_lt_le_dec i 0); [apply nthZ_neg; assumption|apply nthZ_beyond; lia].
  - rewrite <- Hit1. exact Ho2.
Qed.

Lemma sd_remove_spec : forall b cs, has_chunks (bitems b) k cs -> cs <> [] ->
  exists b', sd_remove orc b k = (StOk, b') /\ has_chunks (bitems b') k [] /\
             others_same (bitems b) (bitems b') k.
Proof.
  intros b cs Hv Hne. unfold sd_remove, sd_find_one.
  rewrite (bt_find_hit orc b _ (has_chunks_first _ _ _ Hv Hne)).
  apply (sd_remove_current_spec (mkBt (bitems b) (Some (k, 0%Z)) (btick b)) cs Hv Hne eq_refl).
Qed.

Lemma sd_remove_missing : forall b, has_chunks (bitems b) k [] ->
  exists b', sd_remove orc b k = (StNotFound, b') /\ bitems b' = bitems b.
Proof.
  intros b Hv. unfold sd_remove, sd_find_one.
  pose proof (bt_find_miss orc b _ (has_chunks_nofirst _ _ Hv)) as [Hf Hit].
  destruct (bt_find orc b (k, 0%Z)) as [fd b1]. cbn [fst snd] in Hf, Hit. subst fd.
  exists b1. split; [reflexivity|exact Hit].
Qed.

End Store.

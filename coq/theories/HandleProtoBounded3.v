(* bounded exploration, configuration 3: two transactions over two nodes (T0 updates 10 and 11, T1 updates 11 and
   removes 10), every interleaving of their 13 own step kinds (including rollback and a failed phase-2 write), without
   crashes and environment steps *)
From Coq Require Import List ZArith NArith Bool.
From SopVerif Require Import Proto HandleProto HandleProtoProofs HandleProtoBounded.
Import ListNotations.
Local Open Scope N_scope.

Definition r22 : list handle := [mkH 10 10 0 false 3%Z 0 false; mkH 11 11 0 false 5%Z 0 false].
Definition s22 : state := init_state r22 [10; 11] [([(10, 3%Z, 30); (11, 5%Z, 31)], []); ([(11, 5%Z, 41)], [(10, 3%Z)])].
Definition labs_nocrash : list label :=
  flat_map (fun i => [LLock i; LClaim i; LWrite i; LBlob i; LMark i; LPlog i; LCheck i; LFlipFail i; LPlogRm i; LUnlock i; LCleanBlobs i; LCleanReg i; LRollback i]) [0%nat; 1%nat].

Lemma bounded_22 : complete_and_ok (explore strict labs_nocrash 80 s22 chk_all) = true.
Proof. vm_compute. reflexivity. Qed.

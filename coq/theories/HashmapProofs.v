(* C21 — lemmas about the registry hash-map model (Hashmap.v). *)
From Coq Require Import List ZArith NArith Bool Lia PeanoNat.
From SopVerif Require Import Lib.Bytes Lib.BytesProofs Gen.Consts Gen.HandleCodec Layout Hashmap.
Import ListNotations.

(* ------------------------------------------------------------------ equality tests, emptiness *)

Lemma bytes_eqb_spec a : forall b, bytes_eqb a b = true <-> a = b.
Proof.
  induction a as [|x a IH]; intros [|y b]; cbn; split; intros H; try reflexivity; try discriminate.
  - apply andb_true_iff in H as [H1 H2]. apply N.eqb_eq in H1. apply IH in H2. congruence.
  - injection H as -> ->. rewrite N.eqb_refl. cbn. apply IH. reflexivity.
Qed.

Lemma uuid_eqb_eq a b : uuid_eqb a b = true <-> a = b.
Proof. apply bytes_eqb_spec. Qed.

Lemma uuid_eqb_refl a : uuid_eqb a a = true.
Proof. apply uuid_eqb_eq. reflexivity. Qed.

Lemma uuid_eqb_neq a b : a <> b -> uuid_eqb a b = false.
Proof. intros H. destruct (uuid_eqb a b) eqn:E; [|reflexivity]. apply uuid_eqb_eq in E. contradiction. Qed.

Lemma uuid_eqb_false a b : uuid_eqb a b = false -> a <> b.
Proof. intros H E. subst. rewrite uuid_eqb_refl in H. discriminate. Qed.

Lemma all_zero_repeat u : all_zero u = true -> u = repeat 0%N (length u).
Proof.
  unfold all_zero. induction u as [|x u IH]; cbn [forallb length repeat]; intros H; [reflexivity|].
  apply andb_true_iff in H as [H1 H2]. apply N.eqb_eq in H1. subst x. f_equal. apply IH. exact H2.
Qed.

Lemma all_zero_wf id : wf_id id -> all_zero id = false.
Proof.
  intros [Hl Hn]. destruct (all_zero id) eqn:E; [|reflexivity].
  apply all_zero_repeat in E. rewrite Hl in E. contradiction.
Qed.

Lemma is_zero_wf c : wf_id (LogicalID c) -> is_zero c = false.
Proof. intros H. unfold is_zero. rewrite (all_zero_wf _ H). reflexivity. Qed.

Lemma is_zero_zero : is_zero zero_handle = true.
Proof. reflexivity. Qed.

Lemma h_is_empty_zero : h_is_empty zero_handle = true.
Proof. reflexivity. Qed.

Lemma h_is_empty_wf h : wf_id (LogicalID h) -> h_is_empty h = false.
Proof. intros [_ Hn]. unfold h_is_empty. rewrite (uuid_eqb_neq _ _ Hn). reflexivity. Qed.

Lemma pos_eqb_eq p q : pos_eqb p q = true <-> p = q.
Proof.
  destruct p as [[a b] c], q as [[a' b'] c']. cbn. rewrite !andb_true_iff, !Nat.eqb_eq.
  split; [intros [[-> ->] ->]; reflexivity|intros H; injection H as -> -> ->; auto].
Qed.

(* ------------------------------------------------------------------ upd_nth, get_cell, write_cell *)

Lemma upd_nth_length {A} n (f : A -> A) l : length (upd_nth n f l) = length l.
Proof. revert n. induction l as [|x l IH]; intros [|n]; cbn; auto. Qed.

Lemma nth_upd_nth {A} n m (f : A -> A) l d :
  nth m (upd_nth n f l) d = if Nat.eqb n m && Nat.ltb n (length l) then f (nth m l d) else nth m l d.
Proof.
  revert n m. induction l as [|x l IH]; intros n m.
  - destruct n, m; cbn; try reflexivity; rewrite ?andb_false_r; reflexivity.
  - destruct n as [|n], m as [|m]; cbn [upd_nth nth length]; try reflexivity.
    rewrite IH. cbn [Nat.eqb]. replace (S n <? S (length l))%nat with (n <? length l)%nat by reflexivity. reflexivity.
Qed.

Lemma Forall_upd_nth {A} (P : A -> Prop) n f l :
  Forall P l -> (forall x, P x -> P (f x)) -> Forall P (upd_nth n f l).
Proof.
  intros H Hf. revert n. induction H as [|x l Hx Hl IH]; intros [|n]; cbn; constructor; auto.
Qed.

Lemma shape_seg hm t i : shape hm t -> (i < length t)%nat ->
  length (nth i t []) = Z.to_nat hm /\ Forall (fun b : block => length b = nslots) (nth i t []).
Proof.
  intros H Hi. unfold shape in H. rewrite Forall_forall in H. apply H. apply nth_In. exact Hi.
Qed.

Lemma shape_blk hm t i b : shape hm t -> (i < length t)%nat -> (b < Z.to_nat hm)%nat ->
  length (nth b (nth i t []) []) = nslots.
Proof.
  intros H Hi Hb. destruct (shape_seg hm t i H Hi) as [Hl Hf].
  rewrite Forall_forall in Hf. apply Hf. apply nth_In. lia.
Qed.

Lemma get_write_same hm t p c : shape hm t -> valid_pos hm t p -> get_cell (write_cell t p c) p = c.
Proof.
  destruct p as [[i b] j]. intros Hs (Hi & Hb & Hj). unfold get_cell, write_cell.
  pose proof (shape_seg hm t i Hs Hi) as [Hl _]. pose proof (shape_blk hm t i b Hs Hi Hb) as Hlb.
  rewrite nth_upd_nth, Nat.eqb_refl. replace (i <? length t)%nat with true by (symmetry; apply Nat.ltb_lt; exact Hi).
  cbn [andb]. rewrite nth_upd_nth, Nat.eqb_refl. replace (b <? length (nth i t []))%nat with true by (symmetry; apply Nat.ltb_lt; lia).
  cbn [andb]. rewrite nth_upd_nth, Nat.eqb_refl. replace (j <? length (nth b (nth i t []) []))%nat with true by (symmetry; apply Nat.ltb_lt; lia).
  reflexivity.
Qed.

Lemma get_write_other t p q c : p <> q -> get_cell (write_cell t p c) q = get_cell t q.
Proof.
  destruct p as [[i b] j], q as [[i' b'] j']. intros Hne. unfold get_cell, write_cell.
  rewrite nth_upd_nth. destruct (Nat.eqb i i' && (i <? length t)%nat) eqn:E1; [|reflexivity].
  apply andb_true_iff in E1 as [E1 _]. apply Nat.eqb_eq in E1. subst i'.
  rewrite nth_upd_nth. destruct (Nat.eqb b b' && (b <? length (nth i t []))%nat) eqn:E2; [|reflexivity].
  apply andb_true_iff in E2 as [E2 _]. apply Nat.eqb_eq in E2. subst b'.
  rewrite nth_upd_nth. destruct (Nat.eqb j j' && (j <? length (nth b (nth i t []) []))%nat) eqn:E3; [|reflexivity].
  apply andb_true_iff in E3 as [E3 _]. apply Nat.eqb_eq in E3. subst j'. contradiction Hne. reflexivity.
Qed.

Lemma write_length t p c : length (write_cell t p c) = length t.
Proof. destruct p as [[i b] j]. unfold write_cell. apply upd_nth_length. Qed.

Lemma write_valid hm t p c q : valid_pos hm (write_cell t p c) q <-> valid_pos hm t q.
Proof. destruct q as [[i b] j]. unfold valid_pos. rewrite write_length. reflexivity. Qed.

Lemma write_shape hm t p c : shape hm t -> shape hm (write_cell t p c).
Proof.
  destruct p as [[i b] j]. intros H. unfold write_cell, shape. apply Forall_upd_nth; [exact H|].
  intros sg [Hl Hf]. split; [rewrite upd_nth_length; exact Hl|].
  apply Forall_upd_nth; [exact Hf|]. intros bl Hbl. rewrite upd_nth_length. exact Hbl.
Qed.

(* ------------------------------------------------------------------ block and slot of an id *)

Lemma id_block_lt hm id : (0 < hm)%Z -> (id_block hm id < Z.to_nat hm)%nat.
Proof.
  intros Hm. unfold id_block, id_offsets, blockOffset. cbn [fst].
  rewrite Z.div_mul by (unfold B_, blockSize; lia).
  pose proof (Z.mod_pos_bound (id_high id) hm Hm). lia.
Qed.

Lemma id_slot_lt hm id : (id_slot hm id < nslots)%nat.
Proof.
  unfold id_slot, id_offsets, handleInBlockOffset, nslots. cbn [snd].
  rewrite Z.div_mul by (unfold S_, HandleSizeInBytes; lia).
  pose proof (Z.mod_pos_bound (id_low id) handlesPerBlock ltac:(reflexivity)). lia.
Qed.

(* ------------------------------------------------------------------ the scan *)

Lemma scan_order_in s j : (s < nslots)%nat -> (In j (scan_order s) <-> (j < nslots)%nat).
Proof.
  intros Hs. unfold scan_order. cbn [In]. rewrite filter_In, in_seq. split.
  - intros [->|[H _]]; lia.
  - intros Hj. destruct (Nat.eq_dec j s) as [->|Hne]; [left; reflexivity|right].
    split; [lia|]. apply negb_true_iff. apply Nat.eqb_neq. exact Hne.
Qed.

Lemma find_in_block_some hit b s j : (s < nslots)%nat -> find_in_block hit b s = Some j ->
  (j < nslots)%nat /\ hit (nth j b zero_handle) = true.
Proof.
  intros Hs H. unfold find_in_block in H. apply find_some in H as [Hin Hh].
  split; [apply (scan_order_in s j Hs); exact Hin|exact Hh].
Qed.

Lemma find_in_block_none hit b s : (s < nslots)%nat -> find_in_block hit b s = None ->
  forall j, (j < nslots)%nat -> hit (nth j b zero_handle) = false.
Proof.
  intros Hs H j Hj. unfold find_in_block in H.
  apply (find_none _ _ H j). apply (scan_order_in s j Hs). exact Hj.
Qed.

Lemma find_seg_some hit bi s t : (s < nslots)%nat -> forall i0 p, find_seg hit bi s t i0 = Some p ->
  exists i j, p = ((i0 + i)%nat, bi, j) /\ (i < length t)%nat /\ (j < nslots)%nat /\ hit (get_cell t (i, bi, j)) = true.
Proof.
  intros Hs. induction t as [|sg r IH]; intros i0 p H; cbn [find_seg] in H; [discriminate|].
  destruct (find_in_block hit (nth bi sg []) s) as [j|] eqn:E.
  - injection H as <-. apply find_in_block_some in E as [Hj Hh]; [|exact Hs].
    exists 0%nat, j. rewrite Nat.add_0_r. cbn [length get_cell nth]. repeat split; [lia|exact Hj|exact Hh].
  - apply IH in H as (i & j & -> & Hi & Hj & Hh). exists (S i), j.
    replace (i0 + S i)%nat with (S i0 + i)%nat by lia. cbn [length]. repeat split; [lia|exact Hj|exact Hh].
Qed.

Lemma find_seg_none hit bi s t : (s < nslots)%nat -> forall i0, find_seg hit bi s t i0 = None ->
  forall i j, (i < length t)%nat -> (j < nslots)%nat -> hit (get_cell t (i, bi, j)) = false.
Proof.
  intros Hs. induction t as [|sg r IH]; intros i0 H i j Hi Hj; cbn [length] in Hi; [lia|].
  cbn [find_seg] in H. destruct (find_in_block hit (nth bi sg []) s) as [j'|] eqn:E; [discriminate|].
  destruct i as [|i].
  - cbn [get_cell nth]. apply (find_in_block_none _ _ _ Hs E j Hj).
  - change (get_cell (sg :: r) (S i, bi, j)) with (get_cell r (i, bi, j)). apply (IH _ H). lia. exact Hj.
Qed.

Lemma find_seg_app hit bi s t e : forall i0 p, find_seg hit bi s t i0 = Some p -> find_seg hit bi s (t ++ e) i0 = Some p.
Proof.
  induction t as [|sg r IH]; intros i0 p H; cbn [find_seg app] in *; [discriminate|].
  destruct (find_in_block hit (nth bi sg []) s); [exact H|apply IH; exact H].
Qed.

Lemma find_pos_some fw hm t id p : (0 < hm)%Z -> find_pos fw hm t id = Some p ->
  valid_pos hm t p /\ slot_hit fw id (get_cell t p) = true /\ snd (fst p) = id_block hm id.
Proof.
  intros Hm H. unfold find_pos in H. apply find_seg_some in H as (i & j & -> & Hi & Hj & Hh); [|apply id_slot_lt].
  cbn [Nat.add fst snd valid_pos]. repeat split; try assumption. apply id_block_lt. exact Hm.
Qed.

Lemma find_pos_none fw hm t id : find_pos fw hm t id = None ->
  forall i j, (i < length t)%nat -> (j < nslots)%nat -> slot_hit fw id (get_cell t (i, id_block hm id, j)) = false.
Proof. intros H. apply (find_seg_none _ _ _ _ (id_slot_lt hm id) 0%nat H). Qed.

Lemma slot_hit_read id c : slot_hit false id c = true <-> is_zero c = false /\ LogicalID c = id.
Proof.
  unfold slot_hit. destruct (is_zero c); split.
  - discriminate.
  - intros [H _]; discriminate.
  - intros H. apply uuid_eqb_eq in H. auto.
  - intros [_ H]. apply uuid_eqb_eq. exact H.
Qed.

Lemma slot_hit_write id c : slot_hit true id c = true <-> is_zero c = true \/ (is_zero c = false /\ LogicalID c = id).
Proof.
  unfold slot_hit. destruct (is_zero c); split; auto.
  - intros H. right. apply uuid_eqb_eq in H. auto.
  - intros [H|[_ H]]; [discriminate|]. apply uuid_eqb_eq. exact H.
Qed.

(* ------------------------------------------------------------------ lookups under the invariant *)

Lemma holds_wf hm t p id : Inv hm t -> valid_pos hm t p -> holds t p id -> wf_id id /\ snd (fst p) = id_block hm id.
Proof.
  intros (_ & _ & Hb) Hv [Hz Hl]. destruct p as [[i b] j]. destruct (Hb i b j Hv Hz) as [H1 H2].
  rewrite Hl in *. cbn [fst snd]. auto.
Qed.

(* a stored id is found by the read scan, at its only slot *)
Lemma find_read_complete hm t id p : (0 < hm)%Z -> Inv hm t -> valid_pos hm t p -> holds t p id ->
  find_pos false hm t id = Some p.
Proof.
  intros Hm HI Hv Hh. destruct (find_pos false hm t id) as [q|] eqn:E.
  - apply find_pos_some in E as (Hvq & Hq & _); [|exact Hm]. apply slot_hit_read in Hq.
    destruct HI as (_ & Hu & _). f_equal. apply (Hu q p id Hvq Hv Hq Hh).
  - exfalso. destruct (holds_wf hm t p id HI Hv Hh) as [_ Hb]. destruct p as [[i b] j]. cbn [fst snd] in Hb. subst b.
    destruct Hv as (Hi & _ & Hj). pose proof (find_pos_none _ _ _ _ E i j Hi Hj) as Hn.
    apply slot_hit_read in Hh. congruence.
Qed.

Lemma lookup_some hm t id c : (0 < hm)%Z -> lookup hm t id = Some c ->
  exists p, valid_pos hm t p /\ holds t p id /\ get_cell t p = c.
Proof.
  intros Hm H. unfold lookup in H. destruct (find_pos false hm t id) as [p|] eqn:E; [|discriminate].
  apply find_pos_some in E as (Hv & Hq & _); [|exact Hm]. apply slot_hit_read in Hq.
  destruct (h_is_empty (get_cell t p)); [discriminate|]. injection H as <-. exists p. auto.
Qed.

Lemma lookup_holds hm t id p : (0 < hm)%Z -> Inv hm t -> valid_pos hm t p -> holds t p id ->
  lookup hm t id = Some (get_cell t p).
Proof.
  intros Hm HI Hv Hh. unfold lookup. rewrite (find_read_complete hm t id p Hm HI Hv Hh).
  destruct (holds_wf hm t p id HI Hv Hh) as [Hw _]. destruct Hh as [_ Hl].
  rewrite h_is_empty_wf; [reflexivity|]. rewrite Hl. exact Hw.
Qed.

(* the abstraction relation: m is exactly the content of the slots *)
Definition content (hm : Z) (t : table) (id : uuid) (c : handle) : Prop :=
  exists p, valid_pos hm t p /\ holds t p id /\ get_cell t p = c.

Definition R (hm : Z) (t : table) (m : amap) : Prop :=
  forall id c, wf_id id -> (m id = Some c <-> content hm t id c).

Lemma lookup_eq hm t m id : (0 < hm)%Z -> Inv hm t -> R hm t m -> wf_id id -> lookup hm t id = m id.
Proof.
  intros Hm HI HR Hw. destruct (m id) as [c|] eqn:E.
  - apply HR in E as (p & Hv & Hh & <-); [|exact Hw]. apply lookup_holds; assumption.
  - destruct (lookup hm t id) as [c|] eqn:E2; [|reflexivity].
    apply lookup_some in E2; [|exact Hm]. apply HR in E2; [|exact Hw]. congruence.
Qed.

Lemma R_lookup hm t : (0 < hm)%Z -> Inv hm t -> R hm t (lookup hm t).
Proof.
  intros Hm HI id c Hw. split.
  - intros H. apply lookup_some; assumption.
  - intros (p & Hv & Hh & <-). apply lookup_holds; assumption.
Qed.

Lemma R_absent hm t m id : R hm t m -> wf_id id -> m id = None -> forall p, valid_pos hm t p -> ~ holds t p id.
Proof.
  intros HR Hw Hn p Hv Hh. assert (m id = Some (get_cell t p)) as H by (apply HR; [exact Hw|exists p; auto]). congruence.
Qed.

Lemma Inv_nil hm : Inv hm [].
Proof.
  split; [constructor|]. split.
  - intros [[i b] j] q id (Hi & _). cbn in Hi. lia.
  - intros i b j (Hi & _). cbn in Hi. lia.
Qed.

Lemma R_nil hm : R hm [] aempty.
Proof.
  intros id c _. split; [discriminate|]. intros ([[i b] j] & (Hi & _) & _). cbn in Hi. lia.
Qed.

(* ------------------------------------------------------------------ appending empty segment files *)

Definition ext (hm : Z) (t t' : table) : Prop := exists k, t' = t ++ repeat (empty_segment hm) k.

Lemma ext_refl hm t : ext hm t t.
Proof. exists 0%nat. cbn. rewrite app_nil_r. reflexivity. Qed.

Lemma ext_trans hm t1 t2 t3 : ext hm t1 t2 -> ext hm t2 t3 -> ext hm t1 t3.
Proof. intros [k ->] [k' ->]. exists (k + k')%nat. rewrite <- app_assoc, repeat_app. reflexivity. Qed.

Lemma ext_snoc hm t : ext hm t (t ++ [empty_segment hm]).
Proof. exists 1%nat. reflexivity. Qed.

Lemma nth_repeat_default {A} (x d : A) k n : nth n (repeat x k) d = x \/ nth n (repeat x k) d = d.
Proof.
  revert n. induction k as [|k IH]; intros [|n]; cbn; auto.
Qed.

Lemma nth_repeat_P {A} (P : A -> Prop) (x d : A) k n : P x -> P d -> P (nth n (repeat x k) d).
Proof. intros Hx Hd. destruct (nth_repeat_default x d k n) as [E|E]; rewrite E; assumption. Qed.

Lemma get_empty_segments hm k i b j : is_zero (nth j (nth b (nth i (repeat (empty_segment hm) k) []) []) zero_handle) = true.
Proof.
  apply (nth_repeat_P (fun sg => is_zero (nth j (nth b sg []) zero_handle) = true)).
  - unfold empty_segment. apply (nth_repeat_P (fun bl => is_zero (nth j bl zero_handle) = true)).
    + unfold empty_block. apply (nth_repeat_P (fun c => is_zero c = true)); reflexivity.
    + destruct j; reflexivity.
  - destruct b, j; reflexivity.
Qed.

Lemma ext_get hm t t' q : ext hm t t' -> valid_pos hm t q -> get_cell t' q = get_cell t q.
Proof.
  intros [k ->] Hv. destruct q as [[i b] j]. destruct Hv as (Hi & _). unfold get_cell.
  rewrite app_nth1 by exact Hi. reflexivity.
Qed.

Lemma ext_new_zero hm t t' q : ext hm t t' -> ~ valid_pos hm t q -> valid_pos hm t' q -> is_zero (get_cell t' q) = true.
Proof.
  intros [k ->] Hn Hv. destruct q as [[i b] j]. unfold get_cell.
  destruct Hv as (Hi & Hb & Hj). assert (length t <= i)%nat as Hge.
  { destruct (Nat.lt_ge_cases i (length t)) as [Hlt|Hge]; [|exact Hge]. exfalso. apply Hn. cbn. auto. }
  rewrite app_nth2 by exact Hge. apply get_empty_segments.
Qed.

Lemma ext_valid hm t t' q : ext hm t t' -> valid_pos hm t q -> valid_pos hm t' q.
Proof.
  intros [k ->] Hv. destruct q as [[i b] j]. destruct Hv as (Hi & Hb & Hj). unfold valid_pos. rewrite app_length. repeat split; lia.
Qed.

Lemma ext_holds hm t t' q id : ext hm t t' -> valid_pos hm t' q -> holds t' q id -> valid_pos hm t q /\ holds t q id.
Proof.
  intros He Hv [Hz Hl].
  assert (valid_pos hm t q) as Hvq.
  { destruct q as [[i b] j]. destruct Hv as (Hi & Hb & Hj).
    destruct (Nat.lt_ge_cases i (length t)) as [Hlt|Hge]; [cbn; auto|].
    exfalso. assert (~ valid_pos hm t (i, b, j)) as Hn by (cbn; lia).
    rewrite (ext_new_zero hm t t' (i, b, j) He Hn) in Hz; [discriminate|cbn; auto]. }
  split; [exact Hvq|]. unfold holds. rewrite <- (ext_get hm t t' q He Hvq). auto.
Qed.

Lemma shape_empty_segment hm : length (empty_segment hm) = Z.to_nat hm /\ Forall (fun b : block => length b = nslots) (empty_segment hm).
Proof.
  unfold empty_segment. split; [apply repeat_length|]. apply Forall_forall. intros b Hb.
  apply repeat_spec in Hb. subst b. apply repeat_length.
Qed.

Lemma ext_Inv hm t t' : ext hm t t' -> Inv hm t -> Inv hm t'.
Proof.
  intros He (Hs & Hu & Hb). split; [|split].
  - destruct He as [k ->]. unfold shape. apply Forall_app. split; [exact Hs|].
    apply Forall_forall. intros sg Hsg. apply repeat_spec in Hsg. subst sg. apply shape_empty_segment.
  - intros p q id Hvp Hvq Hp Hq.
    destruct (ext_holds hm t t' p id He Hvp Hp) as [Hvp' Hp']. destruct (ext_holds hm t t' q id He Hvq Hq) as [Hvq' Hq'].
    apply (Hu p q id); assumption.
  - intros i b j Hv Hz.
    destruct (ext_holds hm t t' (i, b, j) _ He Hv (conj Hz eq_refl)) as [Hv' [Hz' _]].
    rewrite (ext_get hm t t' (i, b, j) He Hv'). apply Hb; assumption.
Qed.

Lemma ext_content hm t t' id c : ext hm t t' -> (content hm t' id c <-> content hm t id c).
Proof.
  intros He. split.
  - intros (p & Hv & Hh & Hc). destruct (ext_holds hm t t' p id He Hv Hh) as [Hv' Hh'].
    exists p. rewrite <- (ext_get hm t t' p He Hv'). auto.
  - intros (p & Hv & [Hz Hl] & Hc). exists p. unfold holds. rewrite (ext_get hm t t' p He Hv).
    split; [apply (ext_valid hm t t' p He Hv)|auto].
Qed.

Lemma ext_R hm t t' m : ext hm t t' -> R hm t m -> R hm t' m.
Proof. intros He HR id c Hw. rewrite (ext_content hm t t' id c He). apply HR. exact Hw. Qed.

(* ------------------------------------------------------------------ effect of one slot write *)

Lemma pos_dec (p q : pos) : p = q \/ p <> q.
Proof.
  destruct (pos_eqb p q) eqn:E; [left; apply pos_eqb_eq; exact E|right].
  intros H. apply pos_eqb_eq in H. congruence.
Qed.

Lemma holds_write_same hm t p c id : shape hm t -> valid_pos hm t p ->
  (holds (write_cell t p c) p id <-> is_zero c = false /\ LogicalID c = id).
Proof. intros Hs Hv. unfold holds. rewrite (get_write_same hm t p c Hs Hv). reflexivity. Qed.

Lemma holds_write_other t p q c id : p <> q -> (holds (write_cell t p c) q id <-> holds t q id).
Proof. intros Hne. unfold holds. rewrite (get_write_other t p q c Hne). reflexivity. Qed.

Lemma aset_same m h : aset m h (LogicalID h) = Some h.
Proof. unfold aset. rewrite uuid_eqb_refl. reflexivity. Qed.

Lemma aset_other m h id : id <> LogicalID h -> aset m h id = m id.
Proof. intros H. unfold aset. rewrite (uuid_eqb_neq _ _ H). reflexivity. Qed.

Lemma adel_same m id : adel m id id = None.
Proof. unfold adel. rewrite uuid_eqb_refl. reflexivity. Qed.

Lemma adel_other m k id : id <> k -> adel m k id = m id.
Proof. intros H. unfold adel. rewrite (uuid_eqb_neq _ _ H). reflexivity. Qed.

Lemma uuid_dec (a b : uuid) : a = b \/ a <> b.
Proof. destruct (uuid_eqb a b) eqn:E; [left; apply uuid_eqb_eq; exact E|right; apply uuid_eqb_false; exact E]. Qed.

(* (A) a new id written into an empty slot of its block *)
Lemma insert_ok hm t m p h : (0 < hm)%Z -> Inv hm t -> R hm t m -> valid_pos hm t p ->
  is_zero (get_cell t p) = true -> snd (fst p) = id_block hm (LogicalID h) -> wf_h h -> m (LogicalID h) = None ->
  Inv hm (write_cell t p h) /\ R hm (write_cell t p h) (aset m h).
Proof.
  intros Hm HI HR Hv Hz Hblk Hw Hnone. pose proof HI as (Hs & Hu & Hb).
  pose proof (R_absent hm t m _ HR Hw Hnone) as Habs.
  assert (Hzh : is_zero h = false) by (apply is_zero_wf; exact Hw).
  split; [split; [|split]|].
  - apply write_shape. exact Hs.
  - intros p1 q1 id Hv1 Hv2 H1 H2. apply write_valid in Hv1, Hv2.
    destruct (pos_dec p p1) as [<-|N1], (pos_dec p q1) as [<-|N2].
    + reflexivity.
    + apply (holds_write_same hm t p h id Hs Hv) in H1 as [_ <-]. apply holds_write_other in H2; [|exact N2].
      exfalso. apply (Habs q1 Hv2 H2).
    + apply (holds_write_same hm t p h id Hs Hv) in H2 as [_ <-]. apply holds_write_other in H1; [|exact N1].
      exfalso. apply (Habs p1 Hv1 H1).
    + apply holds_write_other in H1; [|exact N1]. apply holds_write_other in H2; [|exact N2]. apply (Hu p1 q1 id); assumption.
  - intros i b j Hv1 Hz1. apply write_valid in Hv1. destruct (pos_dec p (i, b, j)) as [E|N].
    + subst p. rewrite (get_write_same hm t _ h Hs Hv). cbn [fst snd] in Hblk. split; [exact Hblk|exact Hw].
    + rewrite (get_write_other t p _ h N) in *. apply Hb; assumption.
  - intros id c Hwid. destruct (uuid_dec id (LogicalID h)) as [->|Nid].
    + rewrite aset_same. split.
      * intros E. injection E as <-. exists p. split; [apply write_valid; exact Hv|].
        split; [apply (holds_write_same hm t p h _ Hs Hv); auto|apply (get_write_same hm t p h Hs Hv)].
      * intros (p1 & Hv1 & H1 & Hc). apply write_valid in Hv1. destruct (pos_dec p p1) as [<-|N1].
        -- rewrite (get_write_same hm t p h Hs Hv) in Hc. congruence.
        -- apply holds_write_other in H1; [|exact N1]. exfalso. apply (Habs p1 Hv1 H1).
    + rewrite (aset_other m h id Nid). rewrite (HR id c Hwid). split.
      * intros (p1 & Hv1 & H1 & Hc). assert (p <> p1) as N1 by (intros <-; destruct H1 as [H1 _]; congruence).
        exists p1. split; [apply write_valid; exact Hv1|]. split; [apply holds_write_other; assumption|].
        rewrite (get_write_other t p p1 h N1). exact Hc.
      * intros (p1 & Hv1 & H1 & Hc). apply write_valid in Hv1. destruct (pos_dec p p1) as [<-|N1].
        -- apply (holds_write_same hm t p h id Hs Hv) in H1 as [_ E]. congruence.
        -- exists p1. rewrite (get_write_other t p p1 h N1) in Hc. apply holds_write_other in H1; auto.
Qed.

(* (B) the record of a stored id overwritten in place *)
Lemma overwrite_holds hm t p h : shape hm t -> valid_pos hm t p -> holds t p (LogicalID h) -> wf_h h ->
  forall q id, holds (write_cell t p h) q id <-> holds t q id.
Proof.
  intros Hs Hv [Hz Hl] Hw q id. destruct (pos_dec p q) as [<-|N].
  - rewrite (holds_write_same hm t p h id Hs Hv). unfold holds. rewrite Hl, Hz, (is_zero_wf h Hw). reflexivity.
  - apply holds_write_other. exact N.
Qed.

Lemma overwrite_ok hm t m p h : (0 < hm)%Z -> Inv hm t -> R hm t m -> valid_pos hm t p ->
  holds t p (LogicalID h) -> wf_h h ->
  Inv hm (write_cell t p h) /\ R hm (write_cell t p h) (aset m h).
Proof.
  intros Hm HI HR Hv Hh Hw. pose proof HI as (Hs & Hu & Hb).
  pose proof (overwrite_holds hm t p h Hs Hv Hh Hw) as Heq.
  split; [split; [|split]|].
  - apply write_shape. exact Hs.
  - intros p1 q1 id Hv1 Hv2 H1 H2. apply write_valid in Hv1, Hv2. apply Heq in H1, H2. apply (Hu p1 q1 id); assumption.
  - intros i b j Hv1 Hz1. apply write_valid in Hv1. destruct (pos_dec p (i, b, j)) as [E|N].
    + subst p. rewrite (get_write_same hm t _ h Hs Hv). destruct Hh as [Hz Hl]. destruct (Hb i b j Hv Hz) as [Hblk _].
      rewrite Hl in Hblk. split; [exact Hblk|exact Hw].
    + rewrite (get_write_other t p _ h N) in *. apply Hb; assumption.
  - intros id c Hwid. destruct (uuid_dec id (LogicalID h)) as [->|Nid].
    + rewrite aset_same. split.
      * intros E. injection E as <-. exists p. split; [apply write_valid; exact Hv|].
        split; [apply Heq; exact Hh|apply (get_write_same hm t p h Hs Hv)].
      * intros (p1 & Hv1 & H1 & Hc). apply write_valid in Hv1. apply Heq in H1.
        assert (p1 = p) as -> by (apply (Hu p1 p (LogicalID h)); assumption).
        rewrite (get_write_same hm t p h Hs Hv) in Hc. congruence.
    + rewrite (aset_other m h id Nid). rewrite (HR id c Hwid).
      assert (forall p1, holds t p1 id -> p <> p1) as Hne.
      { intros p1 [_ H1] <-. destruct Hh as [_ Hl]. congruence. }
      split.
      * intros (p1 & Hv1 & H1 & Hc). exists p1. split; [apply write_valid; exact Hv1|]. split; [apply Heq; exact H1|].
        rewrite (get_write_other t p p1 h (Hne p1 H1)). exact Hc.
      * intros (p1 & Hv1 & H1 & Hc). apply write_valid in Hv1. apply Heq in H1. exists p1.
        rewrite (get_write_other t p p1 h (Hne p1 H1)) in Hc. auto.
Qed.

(* (C) a slot zeroed: p is empty or holds id, and id is nowhere else *)
Lemma erase_holds hm t p : shape hm t -> valid_pos hm t p ->
  forall q id, holds (write_cell t p zero_handle) q id <-> (p <> q /\ holds t q id).
Proof.
  intros Hs Hv q id. destruct (pos_dec p q) as [<-|N].
  - rewrite (holds_write_same hm t p zero_handle id Hs Hv). rewrite is_zero_zero. split; [intros [H _]; discriminate|intros [H _]; contradiction].
  - rewrite (holds_write_other t p q zero_handle id N). tauto.
Qed.

Lemma erase_ok hm t m p id : (0 < hm)%Z -> Inv hm t -> R hm t m -> valid_pos hm t p -> wf_id id ->
  (is_zero (get_cell t p) = true \/ holds t p id) ->
  (forall q, valid_pos hm t q -> holds t q id -> q = p) ->
  Inv hm (write_cell t p zero_handle) /\ R hm (write_cell t p zero_handle) (adel m id).
Proof.
  intros Hm HI HR Hv Hwid Hor Honly. pose proof HI as (Hs & Hu & Hb).
  pose proof (erase_holds hm t p Hs Hv) as Heq.
  split; [split; [|split]|].
  - apply write_shape. exact Hs.
  - intros p1 q1 id1 Hv1 Hv2 H1 H2. apply write_valid in Hv1, Hv2. apply Heq in H1 as [_ H1], H2 as [_ H2]. apply (Hu p1 q1 id1); assumption.
  - intros i b j Hv1 Hz1. apply write_valid in Hv1. destruct (pos_dec p (i, b, j)) as [E|N].
    + subst p. rewrite (get_write_same hm t _ zero_handle Hs Hv) in Hz1. rewrite is_zero_zero in Hz1. discriminate.
    + rewrite (get_write_other t p _ zero_handle N) in *. apply Hb; assumption.
  - intros id1 c Hw1. destruct (uuid_dec id1 id) as [->|Nid].
    + rewrite adel_same. split; [discriminate|].
      intros (p1 & Hv1 & H1 & _). apply write_valid in Hv1. apply Heq in H1 as [N1 H1]. exfalso. apply N1. symmetry. apply Honly; assumption.
    + rewrite (adel_other m id id1 Nid). rewrite (HR id1 c Hw1).
      assert (forall p1, holds t p1 id1 -> p <> p1) as Hne.
      { intros p1 [Hz1 Hl1] <-. destruct Hor as [Hz|[_ Hl]]; congruence. }
      split.
      * intros (p1 & Hv1 & H1 & Hc). exists p1. split; [apply write_valid; exact Hv1|]. split; [apply Heq; split; [apply Hne; exact H1|exact H1]|].
        rewrite (get_write_other t p p1 zero_handle (Hne p1 H1)). exact Hc.
      * intros (p1 & Hv1 & H1 & Hc). apply write_valid in Hv1. apply Heq in H1 as [N1 H1]. exists p1.
        rewrite (get_write_other t p p1 zero_handle N1) in Hc. auto.
Qed.

(* ------------------------------------------------------------------ the slot a write picks *)

(* the write scan reaches the stored record of id (if any) before any empty slot *)
Definition safe (hm : Z) (t : table) (id : uuid) : Prop :=
  forall q, valid_pos hm t q -> holds t q id -> find_pos true hm t id = Some q.

Lemma hazard_safe hm t id : (0 < hm)%Z -> Inv hm t -> hazard hm t id = false -> safe hm t id.
Proof.
  intros Hm HI H q Hv Hh. unfold hazard in H. rewrite (find_read_complete hm t id q Hm HI Hv Hh) in H.
  destruct (find_pos true hm t id) as [q'|]; [|discriminate].
  apply negb_false_iff in H. apply pos_eqb_eq in H. congruence.
Qed.

Lemma ext_safe hm t t' id : ext hm t t' -> safe hm t id -> safe hm t' id.
Proof.
  intros He Hs q Hv Hh. destruct (ext_holds hm t t' q id He Hv Hh) as [Hv' Hh'].
  specialize (Hs q Hv' Hh'). destruct He as [k ->]. unfold find_pos in *. apply find_seg_app. exact Hs.
Qed.

(* p is the right slot for a write of id *)
Definition tgt_ok (hm : Z) (t : table) (p : pos) (id : uuid) : Prop :=
  valid_pos hm t p /\ snd (fst p) = id_block hm id /\
  (is_zero (get_cell t p) = true \/ holds t p id) /\
  (forall q, valid_pos hm t q -> holds t q id -> q = p).

Lemma ext_tgt_ok hm t t' p id : ext hm t t' -> tgt_ok hm t p id -> tgt_ok hm t' p id.
Proof.
  intros He (Hv & Hb & Hor & Honly). split; [apply (ext_valid hm t t' p He Hv)|]. split; [exact Hb|]. split.
  - unfold holds. rewrite (ext_get hm t t' p He Hv). exact Hor.
  - intros q Hvq Hq. destruct (ext_holds hm t t' q id He Hvq Hq) as [Hv' Hq']. apply Honly; assumption.
Qed.

Lemma find_w_ok hm t id t' p : (0 < hm)%Z -> safe hm t id -> find_w hm t id = Some (t', p) ->
  ext hm t t' /\ tgt_ok hm t' p id.
Proof.
  intros Hm Hsafe H. unfold find_w in H. destruct (find_pos true hm t id) as [p0|] eqn:E.
  - injection H as <- <-. split; [apply ext_refl|].
    pose proof (find_pos_some _ _ _ _ _ Hm E) as (Hv & Hhit & Hb). apply slot_hit_write in Hhit.
    split; [exact Hv|]. split; [exact Hb|]. split; [exact Hhit|].
    intros q Hvq Hq. specialize (Hsafe q Hvq Hq). congruence.
  - destruct (length t <? maxSegments)%nat; [|discriminate]. injection H as <- <-.
    pose proof (ext_snoc hm t) as He. split; [exact He|].
    assert (~ valid_pos hm t (length t, id_block hm id, id_slot hm id)) as Hn by (unfold valid_pos; lia).
    assert (valid_pos hm (t ++ [empty_segment hm]) (length t, id_block hm id, id_slot hm id)) as Hv.
    { unfold valid_pos. rewrite app_length. cbn [length]. split; [lia|]. split; [apply id_block_lt; exact Hm|apply id_slot_lt]. }
    split; [exact Hv|]. split; [reflexivity|]. split; [left; apply (ext_new_zero hm t _ _ He Hn Hv)|].
    intros q Hvq Hq. destruct (ext_holds hm t _ q id He Hvq Hq) as [Hv' Hq'].
    specialize (Hsafe q Hv' Hq'). congruence.
Qed.

Definition frd_ok (hm : Z) (t : table) (id : uuid) (frd : pos * handle) : Prop :=
  tgt_ok hm t (fst frd) id /\ snd frd = frd_handle (get_cell t (fst frd)).

Lemma ffr_ok hm : (0 < hm)%Z -> forall ids t t' r, (forall id, In id ids -> safe hm t id) ->
  find_file_region hm t ids = (t', r) ->
  ext hm t t' /\ match r with None => True | Some frds => Forall2 (frd_ok hm t') ids frds end.
Proof.
  intros Hm. induction ids as [|id ids IH]; intros t t' r Hsafe H; cbn [find_file_region] in H.
  - injection H as <- <-. split; [apply ext_refl|constructor].
  - destruct (find_w hm t id) as [[t1 p]|] eqn:E.
    + destruct (find_w_ok hm t id t1 p Hm (Hsafe id (or_introl eq_refl)) E) as [He1 Ht1].
      destruct (find_file_region hm t1 ids) as [t2 fr] eqn:E2. injection H as <- <-.
      destruct (IH t1 t2 fr) as [He2 Hfr]; [|exact E2|].
      { intros id' Hin. apply (ext_safe hm t t1 id' He1). apply Hsafe. right. exact Hin. }
      split; [apply (ext_trans hm t t1 t2 He1 He2)|]. destruct fr as [frds|]; [|exact I]. cbn [option_map].
      constructor; [|exact Hfr]. split; cbn [fst snd].
      * apply (ext_tgt_ok hm t1 t2 p id He2 Ht1).
      * destruct Ht1 as (Hv & _). rewrite (ext_get hm t1 t2 p He2 Hv). reflexivity.
    + injection H as <- <-. split; [apply ext_refl|exact I].
Qed.

Lemma tgt_present hm t m p id : R hm t m -> wf_id id -> tgt_ok hm t p id -> is_some (m id) = true -> holds t p id.
Proof.
  intros HR Hw (Hv & _ & Hor & Honly) Hs. destruct (m id) as [c|] eqn:E; [|discriminate].
  apply HR in E as (q & Hvq & Hq & _); [|exact Hw]. rewrite <- (Honly q Hvq Hq). exact Hq.
Qed.

Lemma tgt_absent hm t m p id : R hm t m -> wf_id id -> tgt_ok hm t p id -> m id = None -> is_zero (get_cell t p) = true.
Proof.
  intros HR Hw (Hv & _ & Hor & _) Hn. destruct Hor as [Hz|Hh]; [exact Hz|].
  exfalso. apply (R_absent hm t m id HR Hw Hn p Hv Hh).
Qed.

Lemma holds_present hm t m p id : R hm t m -> wf_id id -> valid_pos hm t p -> holds t p id -> is_some (m id) = true.
Proof.
  intros HR Hw Hv Hh. assert (m id = Some (get_cell t p)) as -> by (apply HR; [exact Hw|exists p; auto]). reflexivity.
Qed.

(* ------------------------------------------------------------------ add *)

Lemma find_and_add_ok hm t m h t' e : (0 < hm)%Z -> Inv hm t -> R hm t m -> wf_h h -> safe hm t (LogicalID h) ->
  find_and_add hm t h = (t', e) -> e <> Some EMaxSeg ->
  Inv hm t' /\ (if is_some (m (LogicalID h)) then e = Some EBusy /\ R hm t' m else e = None /\ R hm t' (aset m h)).
Proof.
  intros Hm HI HR Hw Hsafe H Hne. unfold find_and_add in H.
  destruct (find_w hm t (LogicalID h)) as [[t1 p]|] eqn:E; [|injection H as <- <-; contradiction].
  destruct (find_w_ok hm t _ t1 p Hm Hsafe E) as [He Ht].
  pose proof (ext_Inv hm t t1 He HI) as HI1. pose proof (ext_R hm t t1 m He HR) as HR1.
  destruct (is_some (m (LogicalID h))) eqn:Es.
  - pose proof (tgt_present hm t1 m p _ HR1 Hw Ht Es) as Hh. pose proof Hh as [Hz Hl].
    unfold frd_handle in H. rewrite Hz in H. rewrite h_is_empty_wf in H by (rewrite Hl; exact Hw).
    injection H as <- <-. auto.
  - assert (m (LogicalID h) = None) as Hn by (destruct (m (LogicalID h)); [discriminate|reflexivity]).
    pose proof (tgt_absent hm t1 m p _ HR1 Hw Ht Hn) as Hz.
    unfold frd_handle in H. rewrite Hz, h_is_empty_zero in H. injection H as <- <-.
    destruct Ht as (Hv & Hb & _).
    destruct (insert_ok hm t1 m p h Hm HI1 HR1 Hv Hz Hb Hw Hn) as [HI2 HR2]. auto.
Qed.

Lemma rm_add_ok hm : (0 < hm)%Z -> forall hs t m, Inv hm t -> R hm t m -> Forall wf_h hs -> add_ok hm t hs = true ->
  snd (rm_add hm t hs) = snd (spec_add m hs) /\ Inv hm (fst (rm_add hm t hs)) /\ R hm (fst (rm_add hm t hs)) (fst (spec_add m hs)).
Proof.
  intros Hm. induction hs as [|h hs IH]; intros t m HI HR Hw Hok.
  - cbn. auto.
  - inversion Hw as [|? ? Hwh Hws]; subst. cbn [add_ok rm_add spec_add] in *.
    apply andb_true_iff in Hok as [Hhz Hok]. apply negb_true_iff in Hhz.
    pose proof (hazard_safe hm t _ Hm HI Hhz) as Hsafe.
    destruct (find_and_add hm t h) as [t1 e] eqn:E.
    assert (e <> Some EMaxSeg) as Hne.
    { destruct e as [[]|]; cbn in Hok; try discriminate; intros X; discriminate X. }
    destruct (find_and_add_ok hm t m h t1 e Hm HI HR Hwh Hsafe E Hne) as [HI1 Hcase].
    destruct (is_some (m (LogicalID h))).
    + destruct Hcase as [-> HR1]. cbn [fst snd]. auto.
    + destruct Hcase as [-> HR1]. apply IH; assumption.
Qed.

(* ------------------------------------------------------------------ set *)

Lemma set_differs_false hm t : forall hs frds, Forall wf_h hs -> Forall2 (frd_ok hm t) (map LogicalID hs) frds ->
  existsb set_differs (combine frds hs) = false.
Proof.
  induction hs as [|h hs IH]; intros frds Hw H; inversion H; subst; [reflexivity|].
  inversion Hw; subst. cbn [combine existsb]. rewrite IH by assumption. rewrite orb_false_r.
  destruct y as [p f]. match goal with X : frd_ok _ _ _ _ |- _ => destruct X as [(Hv & _ & Hor & _) Hf] end.
  cbn [fst snd] in *. subst f. unfold set_differs, frd_handle. destruct Hor as [Hz|[Hz Hl]]; rewrite Hz.
  - rewrite h_is_empty_zero. reflexivity.
  - rewrite Hl, uuid_eqb_refl. apply andb_false_r.
Qed.

Lemma Forall2_imp {A B} (P Q : A -> B -> Prop) : (forall a b, P a b -> Q a b) -> forall l l', Forall2 P l l' -> Forall2 Q l l'.
Proof. intros H l l' HF. induction HF; constructor; auto. Qed.

Definition wr (t : table) (x : (pos * handle) * handle) : table := write_cell t (fst (fst x)) (snd x).

Lemma set_fold_ok hm : (0 < hm)%Z -> forall hs frds t m, Inv hm t -> R hm t m ->
  Forall2 (fun h (frd : pos * handle) => valid_pos hm t (fst frd) /\ holds t (fst frd) (LogicalID h) /\ wf_h h) hs frds ->
  Inv hm (fold_left wr (combine frds hs) t) /\ R hm (fold_left wr (combine frds hs) t) (fold_left aset hs m).
Proof.
  intros Hm. induction hs as [|h hs IH]; intros frds t m HI HR H; inversion H; subst.
  - cbn. auto.
  - destruct y as [p f]. match goal with X : _ /\ _ /\ _ |- _ => destruct X as (Hv & Hh & Hw) end. cbn [fst snd] in *.
    cbn [combine fold_left]. unfold wr at 2 4. cbn [fst snd].
    destruct (overwrite_ok hm t m p h Hm HI HR Hv Hh Hw) as [HI1 HR1].
    apply IH; [exact HI1|exact HR1|].
    destruct HI as (Hs & _). pose proof (overwrite_holds hm t p h Hs Hv Hh Hw) as Heq.
    match goal with X : Forall2 _ hs _ |- _ => revert X end. apply Forall2_imp.
    intros h' frd' (Hv' & Hh' & Hw'). split; [apply write_valid; exact Hv'|]. split; [apply Heq; exact Hh'|exact Hw'].
Qed.

(* every id of the batch is stored *)
Lemma rm_set_present_ok hm t m hs : (0 < hm)%Z -> Inv hm t -> R hm t m -> Forall wf_h hs ->
  (forall h, In h hs -> safe hm t (LogicalID h)) ->
  forallb (fun h => is_some (m (LogicalID h))) hs = true ->
  no_maxseg (snd (rm_set hm t hs)) = true ->
  snd (rm_set hm t hs) = None /\ Inv hm (fst (rm_set hm t hs)) /\ R hm (fst (rm_set hm t hs)) (fold_left aset hs m).
Proof.
  intros Hm HI HR Hw Hsafe Hpres Hcap. unfold rm_set in *.
  destruct (find_file_region hm t (map LogicalID hs)) as [t1 r] eqn:E.
  assert (forall id, In id (map LogicalID hs) -> safe hm t id) as Hsafe'.
  { intros id Hin. apply in_map_iff in Hin as (h & <- & Hin). apply Hsafe. exact Hin. }
  destruct (ffr_ok hm Hm _ t t1 r Hsafe' E) as [He Hfr].
  destruct r as [frds|]; [|cbn in Hcap; discriminate].
  rewrite (set_differs_false hm t1 hs frds Hw Hfr) in *. cbn [fst snd].
  pose proof (ext_Inv hm t t1 He HI) as HI1. pose proof (ext_R hm t t1 m He HR) as HR1.
  split; [reflexivity|]. apply (set_fold_ok hm Hm hs frds t1 m HI1 HR1).
  clear E Hcap Hsafe Hsafe'. revert frds Hfr. induction hs as [|h hs IH]; intros frds Hfr; inversion Hfr; subst; constructor.
  - inversion Hw as [|? ? Hwh Hws]; subst. cbn [forallb] in Hpres. apply andb_true_iff in Hpres as [Hp _].
    match goal with X : frd_ok _ _ _ _ |- _ => destruct X as [Ht _] end.
    pose proof (tgt_present hm t1 m _ _ HR1 Hwh Ht Hp) as Hh. destruct Ht as (Hv & _). auto.
  - inversion Hw as [|? ? Hwh Hws]; subst. cbn [forallb] in Hpres. apply andb_true_iff in Hpres as [_ Hp]. apply IH; assumption.
Qed.

(* one handle: update in place or insert *)
Lemma rm_set_single_ok hm t m h : (0 < hm)%Z -> Inv hm t -> R hm t m -> wf_h h -> safe hm t (LogicalID h) ->
  no_maxseg (snd (rm_set hm t [h])) = true ->
  snd (rm_set hm t [h]) = None /\ Inv hm (fst (rm_set hm t [h])) /\ R hm (fst (rm_set hm t [h])) (aset m h).
Proof.
  intros Hm HI HR Hw Hsafe Hcap. unfold rm_set in *.
  destruct (find_file_region hm t (map LogicalID [h])) as [t1 r] eqn:E.
  assert (forall id, In id (map LogicalID [h]) -> safe hm t id) as Hsafe'.
  { intros id [<-|[]]. exact Hsafe. }
  destruct (ffr_ok hm Hm _ t t1 r Hsafe' E) as [He Hfr].
  destruct r as [frds|]; [|cbn in Hcap; discriminate].
  rewrite (set_differs_false hm t1 [h] frds (Forall_cons _ Hw (Forall_nil _)) Hfr) in *. cbn [fst snd].
  pose proof (ext_Inv hm t t1 He HI) as HI1. pose proof (ext_R hm t t1 m He HR) as HR1.
  split; [reflexivity|]. cbn [map] in Hfr. inversion Hfr as [|? [p f] ? ? [Ht _] Hnil]; subst. inversion Hnil; subst.
  cbn [combine fold_left fst snd].
  destruct (is_some (m (LogicalID h))) eqn:Es.
  - pose proof (tgt_present hm t1 m p _ HR1 Hw Ht Es) as Hh. destruct Ht as (Hv & _).
    apply (overwrite_ok hm t1 m p h Hm HI1 HR1 Hv Hh Hw).
  - assert (m (LogicalID h) = None) as Hn by (destruct (m (LogicalID h)); [discriminate|reflexivity]).
    pose proof (tgt_absent hm t1 m p _ HR1 Hw Ht Hn) as Hz. destruct Ht as (Hv & Hb & _).
    apply (insert_ok hm t1 m p h Hm HI1 HR1 Hv Hz Hb Hw Hn).
Qed.

Lemma reg_update_ok hm : (0 < hm)%Z -> forall hs t m, Inv hm t -> R hm t m -> Forall wf_h hs -> update_ok hm t hs = true ->
  snd (reg_update hm t hs) = None /\ Inv hm (fst (reg_update hm t hs)) /\ R hm (fst (reg_update hm t hs)) (fold_left aset hs m).
Proof.
  intros Hm. induction hs as [|h hs IH]; intros t m HI HR Hw Hok.
  - cbn. auto.
  - inversion Hw as [|? ? Hwh Hws]; subst. cbn [update_ok reg_update fold_left] in *.
    apply andb_true_iff in Hok as [Hhz Hok]. apply negb_true_iff in Hhz.
    pose proof (hazard_safe hm t _ Hm HI Hhz) as Hsafe.
    assert (no_maxseg (snd (rm_set hm t [h])) = true) as Hcap.
    { destruct (rm_set hm t [h]) as [t1 [e|]]; [exact Hok|reflexivity]. }
    destruct (rm_set_single_ok hm t m h Hm HI HR Hwh Hsafe Hcap) as (He & HI1 & HR1).
    destruct (rm_set hm t [h]) as [t1 e]. cbn [fst snd] in *. subst e. apply IH; assumption.
Qed.

(* ------------------------------------------------------------------ remove *)

Lemma remove_check_spec hm t m : Inv hm t -> R hm t m -> forall ids frds, Forall wf_id ids -> Forall2 (frd_ok hm t) ids frds ->
  remove_check frds ids = if forallb (fun id => is_some (m id)) ids then None else Some ENotFound.
Proof.
  intros HI HR. induction ids as [|id ids IH]; intros frds Hw H; inversion H; subst; [reflexivity|].
  inversion Hw; subst. destruct y as [p f]. match goal with X : frd_ok _ _ _ _ |- _ => destruct X as [Ht Hf] end.
  cbn [fst snd] in *. subst f. cbn [remove_check forallb].
  destruct (is_some (m id)) eqn:Es.
  - pose proof (tgt_present hm t m p id HR ltac:(assumption) Ht Es) as [Hz Hl].
    unfold frd_handle. rewrite Hz. rewrite h_is_empty_wf by (rewrite Hl; assumption).
    rewrite Hl, uuid_eqb_refl. cbn [negb andb]. apply IH; assumption.
  - assert (m id = None) as Hn by (destruct (m id); [discriminate|reflexivity]).
    pose proof (tgt_absent hm t m p id HR ltac:(assumption) Ht Hn) as Hz.
    unfold frd_handle. rewrite Hz, h_is_empty_zero. reflexivity.
Qed.

Definition er (t : table) (x : pos * handle) : table := write_cell t (fst x) zero_handle.

Lemma remove_fold_ok hm : (0 < hm)%Z -> forall ids frds t m, Inv hm t -> R hm t m ->
  Forall2 (fun id (frd : pos * handle) => wf_id id /\ valid_pos hm t (fst frd) /\
             (is_zero (get_cell t (fst frd)) = true \/ holds t (fst frd) id) /\
             (forall q, valid_pos hm t q -> holds t q id -> q = fst frd)) ids frds ->
  Inv hm (fold_left er frds t) /\ R hm (fold_left er frds t) (fold_left adel ids m).
Proof.
  intros Hm. induction ids as [|id ids IH]; intros frds t m HI HR H; inversion H; subst.
  - cbn. auto.
  - destruct y as [p f]. match goal with X : _ /\ _ /\ _ /\ _ |- _ => destruct X as (Hw & Hv & Hor & Honly) end. cbn [fst snd] in *.
    cbn [fold_left]. unfold er at 2 4. cbn [fst].
    destruct (erase_ok hm t m p id Hm HI HR Hv Hw Hor Honly) as [HI1 HR1].
    apply IH; [exact HI1|exact HR1|].
    destruct HI as (Hs & _). pose proof (erase_holds hm t p Hs Hv) as Heq.
    match goal with X : Forall2 _ ids _ |- _ => revert X end. apply Forall2_imp.
    intros id' [p' f'] (Hw' & Hv' & Hor' & Honly'). cbn [fst] in *.
    split; [exact Hw'|]. split; [apply write_valid; exact Hv'|]. split.
    + destruct (pos_dec p p') as [<-|N].
      * left. rewrite (get_write_same hm t p zero_handle Hs Hv). apply is_zero_zero.
      * unfold holds. rewrite (get_write_other t p p' zero_handle N). exact Hor'.
    + intros q Hvq Hq. apply write_valid in Hvq. apply Heq in Hq as [_ Hq]. apply Honly'; assumption.
Qed.

Lemma rm_remove_ok hm t m ids : (0 < hm)%Z -> Inv hm t -> R hm t m -> Forall wf_id ids ->
  (forall id, In id ids -> safe hm t id) -> no_maxseg (snd (rm_remove hm t ids)) = true ->
  snd (rm_remove hm t ids) = snd (spec_remove m ids) /\
  Inv hm (fst (rm_remove hm t ids)) /\ R hm (fst (rm_remove hm t ids)) (fst (spec_remove m ids)).
Proof.
  intros Hm HI HR Hw Hsafe Hcap. unfold rm_remove, spec_remove in *.
  destruct (find_file_region hm t ids) as [t1 r] eqn:E.
  destruct (ffr_ok hm Hm _ t t1 r Hsafe E) as [He Hfr].
  destruct r as [frds|]; [|cbn in Hcap; discriminate].
  pose proof (ext_Inv hm t t1 He HI) as HI1. pose proof (ext_R hm t t1 m He HR) as HR1.
  rewrite (remove_check_spec hm t1 m HI1 HR1 ids frds Hw Hfr) in *.
  destruct (forallb (fun id => is_some (m id)) ids) eqn:Ep; cbn [fst snd]; [|auto].
  split; [reflexivity|]. apply (remove_fold_ok hm Hm ids frds t1 m HI1 HR1).
  clear E Hcap Hsafe Ep. revert frds Hfr. induction ids as [|id ids IH]; intros frds Hfr; inversion Hfr; subst; constructor.
  - inversion Hw; subst. match goal with X : frd_ok _ _ _ _ |- _ => destruct X as [(Hv & _ & Hor & Honly) _] end. auto.
  - inversion Hw; subst. apply IH; assumption.
Qed.

(* ------------------------------------------------------------------ get, step, run *)

Lemma rm_fetch_ok hm t m ids : (0 < hm)%Z -> Inv hm t -> R hm t m -> Forall wf_id ids -> rm_fetch hm t ids = spec_get m ids.
Proof.
  intros Hm HI HR Hw. unfold rm_fetch, spec_get. induction Hw as [|id ids Hid Hids IH]; [reflexivity|].
  cbn [flat_map]. rewrite IH. rewrite (lookup_eq hm t m id Hm HI HR Hid). reflexivity.
Qed.

Lemma forallb_ext_in {A} (f g : A -> bool) l : (forall x, In x l -> f x = g x) -> forallb f l = forallb g l.
Proof.
  induction l as [|x l IH]; intros H; [reflexivity|]. cbn. rewrite (H x (or_introl eq_refl)), IH; [reflexivity|].
  intros y Hy. apply H. right. exact Hy.
Qed.

Lemma step_ok hm t m o : (0 < hm)%Z -> Inv hm t -> R hm t m -> wf_op o -> op_ok hm t o = true ->
  snd (step hm t o) = snd (spec_step m o) /\ Inv hm (fst (step hm t o)) /\ R hm (fst (step hm t o)) (fst (spec_step m o)).
Proof.
  intros Hm HI HR Hw Hok. destruct o as [hs|hs|hs|ids|ids]; cbn [step spec_step wf_op op_ok] in *.
  - destruct (rm_add_ok hm Hm hs t m HI HR Hw Hok) as (He & HI1 & HR1).
    destruct (rm_add hm t hs) as [t1 e], (spec_add m hs) as [m1 e1]. cbn [fst snd] in *. subst. auto.
  - destruct (reg_update_ok hm Hm hs t m HI HR Hw Hok) as (He & HI1 & HR1).
    destruct (reg_update hm t hs) as [t1 e]. unfold spec_set. cbn [fst snd] in *. subst. auto.
  - apply andb_true_iff in Hok as [Hok Hcap]. apply andb_true_iff in Hok as [Hhz Hdom].
    assert (forall h, In h hs -> safe hm t (LogicalID h)) as Hsafe.
    { intros h Hin. rewrite forallb_forall in Hhz. specialize (Hhz h Hin). apply negb_true_iff in Hhz.
      apply (hazard_safe hm t _ Hm HI Hhz). }
    assert (snd (rm_set hm t hs) = None /\ Inv hm (fst (rm_set hm t hs)) /\ R hm (fst (rm_set hm t hs)) (fold_left aset hs m)) as (He & HI1 & HR1).
    { apply orb_true_iff in Hdom as [Hpres|Hlen].
      - apply rm_set_present_ok; try assumption. rewrite <- Hpres. apply forallb_ext_in.
        intros h Hin. rewrite Forall_forall in Hw. rewrite (lookup_eq hm t m _ Hm HI HR (Hw h Hin)). reflexivity.
      - destruct hs as [|h [|h' hs]]; [|inversion Hw; subst; apply rm_set_single_ok; auto; apply Hsafe; left; reflexivity|cbn in Hlen; discriminate].
        cbn. auto. }
    destruct (rm_set hm t hs) as [t1 e]. unfold spec_set. cbn [fst snd] in *. subst. auto.
  - apply andb_true_iff in Hok as [Hhz Hcap].
    assert (forall id, In id ids -> safe hm t id) as Hsafe.
    { intros id Hin. rewrite forallb_forall in Hhz. specialize (Hhz id Hin). apply negb_true_iff in Hhz.
      apply (hazard_safe hm t _ Hm HI Hhz). }
    destruct (rm_remove_ok hm t m ids Hm HI HR Hw Hsafe Hcap) as (He & HI1 & HR1).
    destruct (rm_remove hm t ids) as [t1 e], (spec_remove m ids) as [m1 e1]. cbn [fst snd] in *. subst. auto.
  - cbn [fst snd]. rewrite (rm_fetch_ok hm t m ids Hm HI HR Hw). auto.
Qed.

Lemma run_ok hm : (0 < hm)%Z -> forall ops t m, Inv hm t -> R hm t m -> Forall wf_op ops -> hazard_free hm t ops = true ->
  snd (run hm t ops) = snd (spec_run m ops) /\ Inv hm (fst (run hm t ops)) /\ R hm (fst (run hm t ops)) (fst (spec_run m ops)).
Proof.
  intros Hm. induction ops as [|o ops IH]; intros t m HI HR Hw Hok.
  - cbn. auto.
  - inversion Hw as [|? ? Hwo Hws]; subst. cbn [hazard_free run spec_run] in *.
    apply andb_true_iff in Hok as [Hok1 Hok2].
    destruct (step_ok hm t m o Hm HI HR Hwo Hok1) as (He & HI1 & HR1).
    destruct (step hm t o) as [t1 x], (spec_step m o) as [m1 x1]. cbn [fst snd] in *. subst x1.
    destruct (IH t1 m1 HI1 HR1 Hws Hok2) as (He2 & HI2 & HR2).
    destruct (run hm t1 ops) as [t2 xs], (spec_run m1 ops) as [m2 xs1]. cbn [fst snd] in *. subst. auto.
Qed.

(* ------------------------------------------------------------------ the hazard is exactly the failing pattern *)

Lemma hazard_target hm t id : (0 < hm)%Z -> Inv hm t -> hazard hm t id = true ->
  exists p q, p <> q /\ valid_pos hm t p /\ holds t p id /\ valid_pos hm t q /\ is_zero (get_cell t q) = true /\
              find_w hm t id = Some (t, q).
Proof.
  intros Hm HI H. unfold hazard in H. destruct (find_pos false hm t id) as [p|] eqn:Er; [|discriminate].
  pose proof (find_pos_some _ _ _ _ _ Hm Er) as (Hvp & Hhp & Hbp). apply slot_hit_read in Hhp.
  destruct (find_pos true hm t id) as [q|] eqn:Ew.
  - apply negb_true_iff in H. assert (p <> q) as Hne by (intros <-; rewrite (proj2 (pos_eqb_eq p p) eq_refl) in H; discriminate).
    pose proof (find_pos_some _ _ _ _ _ Hm Ew) as (Hvq & Hhq & _). apply slot_hit_write in Hhq.
    exists p, q. repeat split; try assumption; try apply Hhp.
    + destruct Hhq as [Hz|Hq]; [exact Hz|]. exfalso. apply Hne. destruct HI as (_ & Hu & _). apply (Hu p q id); assumption.
    + unfold find_w. rewrite Ew. reflexivity.
  - exfalso. destruct p as [[i b] j]. cbn [fst snd] in Hbp. subst b. destruct Hvp as (Hi & _ & Hj).
    pose proof (find_pos_none _ _ _ _ Ew i j Hi Hj) as Hn. destruct Hhp as [Hz Hl].
    unfold slot_hit in Hn. rewrite Hz, Hl, uuid_eqb_refl in Hn. discriminate.
Qed.

Lemma hazard_breaks hm t h : (0 < hm)%Z -> Inv hm t -> wf_h h -> hazard hm t (LogicalID h) = true ->
  (exists c, lookup hm t (LogicalID h) = Some c) /\
  snd (rm_remove hm t [LogicalID h]) = Some ENotFound /\
  snd (rm_set hm t [h]) = None /\
  (exists p q, p <> q /\ valid_pos hm (fst (rm_set hm t [h])) p /\ valid_pos hm (fst (rm_set hm t [h])) q /\
               holds (fst (rm_set hm t [h])) p (LogicalID h) /\ holds (fst (rm_set hm t [h])) q (LogicalID h)) /\
  snd (find_and_add hm t h) = None.
Proof.
  intros Hm HI Hw Hhz. destruct (hazard_target hm t _ Hm HI Hhz) as (p & q & Hne & Hvp & Hhp & Hvq & Hzq & Efw).
  pose proof HI as (Hs & _).
  split; [exists (get_cell t p); apply lookup_holds; assumption|].
  split; [unfold rm_remove; cbn [find_file_region]; rewrite Efw; cbn [option_map remove_check snd]; unfold frd_handle; rewrite Hzq, h_is_empty_zero; reflexivity|].
  assert (rm_set hm t [h] = (write_cell t q h, None)) as Eset.
  { unfold rm_set. cbn [map find_file_region]. rewrite Efw. cbn [option_map combine existsb]. unfold set_differs, frd_handle.
    rewrite Hzq, h_is_empty_zero. reflexivity. }
  rewrite Eset. cbn [fst snd]. split; [reflexivity|]. split.
  - exists q, p. split; [congruence|]. split; [apply write_valid; exact Hvq|]. split; [apply write_valid; exact Hvp|].
    split; [apply (holds_write_same hm t q h _ Hs Hvq); split; [apply is_zero_wf; exact Hw|reflexivity]|].
    apply holds_write_other; [congruence|exact Hhp].
  - unfold find_and_add. rewrite Efw. unfold frd_handle. rewrite Hzq, h_is_empty_zero. reflexivity.
Qed.

(* ------------------------------------------------------------------ packaged statements used by Props/C21.v *)

Lemma map_partial hm ops : (0 < hm)%Z -> Forall wf_op ops -> hazard_free hm [] ops = true ->
  snd (run hm [] ops) = snd (spec_run aempty ops) /\
  Inv hm (fst (run hm [] ops)) /\
  forall id, wf_id id -> lookup hm (fst (run hm [] ops)) id = fst (spec_run aempty ops) id.
Proof.
  intros Hm Hw Hok. destruct (run_ok hm Hm ops [] aempty (Inv_nil hm) (R_nil hm) Hw Hok) as (He & HI & HR).
  split; [exact He|]. split; [exact HI|]. intros id Hid. apply lookup_eq; assumption.
Qed.

Lemma run_partial hm t ops : (0 < hm)%Z -> Inv hm t -> Forall wf_op ops -> hazard_free hm t ops = true ->
  snd (run hm t ops) = snd (spec_run (lookup hm t) ops) /\
  Inv hm (fst (run hm t ops)) /\
  forall id, wf_id id -> lookup hm (fst (run hm t ops)) id = fst (spec_run (lookup hm t) ops) id.
Proof.
  intros Hm HI Hw Hok. destruct (run_ok hm Hm ops t (lookup hm t) HI (R_lookup hm t Hm HI) Hw Hok) as (He & HI1 & HR).
  split; [exact He|]. split; [exact HI1|]. intros id Hid. apply lookup_eq; assumption.
Qed.

Lemma step_partial hm t o : (0 < hm)%Z -> Inv hm t -> wf_op o -> op_ok hm t o = true ->
  snd (step hm t o) = snd (spec_step (lookup hm t) o) /\
  Inv hm (fst (step hm t o)) /\
  forall id, wf_id id -> lookup hm (fst (step hm t o)) id = fst (spec_step (lookup hm t) o) id.
Proof.
  intros Hm HI Hw Hok. destruct (step_ok hm t (lookup hm t) o Hm HI (R_lookup hm t Hm HI) Hw Hok) as (He & HI1 & HR).
  split; [exact He|]. split; [exact HI1|]. intros id Hid. apply lookup_eq; assumption.
Qed.

(* ids an operation writes *)
Definition writes (o : op) : list uuid :=
  match o with
  | Add hs | Update hs | UpdateNoLocks hs => map LogicalID hs
  | Remove _ | Get _ => []
  end.

Lemma fold_aset_none hs : forall m id, m id = None -> ~ In id (map LogicalID hs) -> fold_left aset hs m id = None.
Proof.
  induction hs as [|h hs IH]; intros m id Hn Hnot; [exact Hn|]. cbn [fold_left]. apply IH.
  - rewrite aset_other; [exact Hn|]. intros E. apply Hnot. left. congruence.
  - intros Hin. apply Hnot. right. exact Hin.
Qed.

Lemma fold_adel_none ids : forall m id, m id = None -> fold_left adel ids m id = None.
Proof.
  induction ids as [|k ids IH]; intros m id Hn; [exact Hn|]. cbn [fold_left]. apply IH.
  unfold adel. destruct (uuid_eqb id k); [reflexivity|exact Hn].
Qed.

Lemma spec_add_none hs : forall m id, m id = None -> ~ In id (map LogicalID hs) -> fst (spec_add m hs) id = None.
Proof.
  induction hs as [|h hs IH]; intros m id Hn Hnot; [exact Hn|]. cbn [spec_add].
  destruct (is_some (m (LogicalID h))); [exact Hn|]. apply IH.
  - rewrite aset_other; [exact Hn|]. intros E. apply Hnot. left. congruence.
  - intros Hin. apply Hnot. right. exact Hin.
Qed.

Lemma spec_run_none ops : forall m id, m id = None -> (forall o, In o ops -> ~ In id (writes o)) ->
  fst (spec_run m ops) id = None.
Proof.
  induction ops as [|o ops IH]; intros m id Hn Hnot; [exact Hn|]. cbn [spec_run].
  assert (fst (spec_step m o) id = None) as H1.
  { pose proof (Hnot o (or_introl eq_refl)) as Ho. destruct o as [hs|hs|hs|ids|ids]; cbn [spec_step writes] in *.
    - pose proof (spec_add_none hs m id Hn Ho). destruct (spec_add m hs); exact H.
    - apply fold_aset_none; assumption.
    - apply fold_aset_none; assumption.
    - unfold spec_remove. destruct (forallb _ ids); cbn [fst]; [apply fold_adel_none|]; exact Hn.
    - exact Hn. }
  destruct (spec_step m o) as [m1 x]. cbn [fst] in H1.
  specialize (IH m1 id H1 (fun o' Hin => Hnot o' (or_intror Hin))).
  destruct (spec_run m1 ops) as [m2 xs]. exact IH.
Qed.

(* boolean well-formedness, for closed examples *)
Definition wf_idb (id : uuid) : bool := Nat.eqb (length id) 16 && negb (uuid_eqb id nil_uuid).
Definition wf_opb (o : op) : bool :=
  match o with
  | Add hs | Update hs | UpdateNoLocks hs => forallb (fun h => wf_idb (LogicalID h)) hs
  | Remove ids | Get ids => forallb wf_idb ids
  end.

Lemma wf_idb_ok id : wf_idb id = true -> wf_id id.
Proof.
  unfold wf_idb. intros H. apply andb_true_iff in H as [H1 H2]. apply Nat.eqb_eq in H1.
  apply negb_true_iff in H2. split; [exact H1|apply uuid_eqb_false; exact H2].
Qed.

Lemma wf_opb_ok ops : forallb wf_opb ops = true -> Forall wf_op ops.
Proof.
  intros H. apply Forall_forall. intros o Hin. rewrite forallb_forall in H. specialize (H o Hin).
  destruct o; cbn [wf_opb wf_op] in *; apply Forall_forall; intros x Hx; rewrite forallb_forall in H;
    apply wf_idb_ok; apply (H x Hx).
Qed.
(* ------------------------------------------------------------------ is_zero is isZeroData on the encoded record *)

Lemma all_zero_le_val l : all_zero l = true -> le_val l = 0%N.
Proof.
  unfold all_zero. induction l as [|x l IH]; cbn [forallb le_val]; intros H; [reflexivity|].
  apply andb_true_iff in H as [H1 H2]. apply N.eqb_eq in H1. subst x. rewrite (IH H2). reflexivity.
Qed.

Lemma all_zero_le_bytes n v : (v < 256 ^ N.of_nat n)%N -> all_zero (le_bytes n v) = N.eqb v 0.
Proof.
  intros Hv. destruct (N.eqb v 0) eqn:E.
  - apply N.eqb_eq in E. subst v. unfold all_zero. clear Hv. induction n as [|n IH]; [reflexivity|].
    cbn [le_bytes forallb]. change (0 / 256)%N with 0%N. change (0 mod 256)%N with 0%N. rewrite IH. reflexivity.
  - destruct (all_zero (le_bytes n v)) eqn:A; [|reflexivity].
    apply all_zero_le_val in A. rewrite (le_val_le_bytes n v Hv) in A. subst v. discriminate.
Qed.

Lemma all_zero_i32 z : (- 2 ^ 31 <= z < 2 ^ 31)%Z -> all_zero (enc_i32 z) = Z.eqb z 0.
Proof.
  intros Hz. unfold enc_i32. rewrite all_zero_le_bytes.
  - destruct (Z.eqb z 0) eqn:E.
    + apply Z.eqb_eq in E. subst z. reflexivity.
    + apply Z.eqb_neq in E. apply N.eqb_neq. intros H.
      assert (z mod 2 ^ 32 = 0)%Z as Hm by (pose proof (Z.mod_pos_bound z (2 ^ 32) ltac:(lia)); lia).
      apply Z.mod_divide in Hm; [|lia]. destruct Hm as [k Hk]. lia.
  - pose proof (Z.mod_pos_bound z (2 ^ 32) ltac:(lia)) as Hb. change (256 ^ N.of_nat 4)%N with 4294967296%N.
    change (2 ^ 32)%Z with 4294967296%Z in *. lia.
Qed.

Lemma all_zero_i64 z : (- 2 ^ 63 <= z < 2 ^ 63)%Z -> all_zero (enc_i64 z) = Z.eqb z 0.
Proof.
  intros Hz. unfold enc_i64. rewrite all_zero_le_bytes.
  - destruct (Z.eqb z 0) eqn:E.
    + apply Z.eqb_eq in E. subst z. reflexivity.
    + apply Z.eqb_neq in E. apply N.eqb_neq. intros H.
      assert (z mod 2 ^ 64 = 0)%Z as Hm by (pose proof (Z.mod_pos_bound z (2 ^ 64) ltac:(lia)); lia).
      apply Z.mod_divide in Hm; [|lia]. destruct Hm as [k Hk]. lia.
  - pose proof (Z.mod_pos_bound z (2 ^ 64) ltac:(lia)) as Hb. change (256 ^ N.of_nat 8)%N with 18446744073709551616%N.
    change (2 ^ 64)%Z with 18446744073709551616%Z in *. lia.
Qed.

Lemma all_zero_app a b : all_zero (a ++ b) = all_zero a && all_zero b.
Proof. unfold all_zero. apply forallb_app. Qed.

(* Go's isZeroData on the 62 bytes of a slot = the model's field-wise test *)
Lemma is_zero_bytes c : wf_handle c -> is_zero c = forallb (N.eqb 0) (encode c).
Proof.
  intros (_ & _ & _ & Hv & Hw & _). change (forallb (N.eqb 0) (encode c)) with (all_zero (encode c)).
  unfold encode, is_zero, enc_uuid. rewrite !all_zero_app, (all_zero_i32 _ Hv), (all_zero_i64 _ Hw).
  unfold enc_bool.
  destruct (all_zero (LogicalID c)), (all_zero (PhysicalIDA c)), (all_zero (PhysicalIDB c)), (IsActiveIDB c),
    (Version c =? 0)%Z, (WorkInProgressTimestamp c =? 0)%Z, (IsDeleted c); reflexivity.
Qed.

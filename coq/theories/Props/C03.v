(* C03 -- uncommitted and rolled-back writes are never visible to other transactions. *)
From Coq Require Import List NArith Bool.
From SopVerif Require Import History Conc ConcProofs ConcBounded.
Import ListNotations.
Local Open Scope N_scope.

(* What another transaction can read of the store in the model of Conc.v is [s_sto] (items and
   values, through the registry's active ids), [s_ver] (item versions) and [s_cnt] (Count()). *)

(* ITEMS AND VALUES (count excluded), every system, every schedule, any number of writers and
   readers interleaved at micro-step granularity: as long as no transaction has executed a phase-2
   flip micro-step, the visible items, values and versions are exactly the initial ones -- whatever
   the writers staged, locked, validated, or merged into the store count so far. *)
Theorem C03_partial_staged_invisible : forall s sched,
  flippers s sched = [] ->
  s_sto (run s sched) = s_sto s /\ s_ver (run s sched) = s_ver s /\
  (forall k, sval (run s sched) k = sval s k).
Proof.
  intros s sched H. destruct (run_no_flip_sto sched s H) as [A [B _]].
  repeat split; auto. intros k. unfold sval. now rewrite A.
Qed.
Print Assumptions C03_partial_staged_invisible.

(* a transaction that is not past its flip at the end of a run (still working, in phase 1, or
   ended rolled back / failed: Done false) has never executed a flip micro-step ... *)
Theorem C03_unfinished_or_aborted_never_flipped : forall s sched j u,
  find_tx (run s sched) j = Some u -> started u = false -> ~ In j (flippers s sched).
Proof. intros s sched j u. exact (not_started_never_flipped sched s j u). Qed.
Print Assumptions C03_unfinished_or_aborted_never_flipped.

(* ... hence: one writer [w] among read-only transactions; if at the end of ANY schedule the
   writer is still before its flip or was rolled back, every reader saw, and the store still has,
   exactly the pre-writer items and values *)
Theorem C03_partial_after_abort : forall s sched w u,
  (forall j t, find_tx s j = Some t -> reader_pc t = true) ->
  (forall j t, find_tx s j = Some t -> x_mode t = MW -> j = w) ->
  find_tx (run s sched) w = Some u -> started u = false ->
  s_sto (run s sched) = s_sto s /\ s_ver (run s sched) = s_ver s.
Proof.
  intros s sched w u Hr Hw Hu Hs.
  assert (F : flippers s sched = []).
  { destruct (flippers s sched) as [|j r] eqn:E; [reflexivity|]. exfalso.
    assert (Hj : In j (flippers s sched)) by (rewrite E; now left).
    destruct (flippers_writers sched s Hr j Hj) as [t [Ft Hm]].
    pose proof (Hw j t Ft Hm) as Ej. subst j.
    exact (not_started_never_flipped sched s w u Hu Hs Hj). }
  destruct (run_no_flip_sto sched s F) as [A [B _]]. now split.
Qed.
Print Assumptions C03_partial_after_abort.

(* rollback releases every lock record and node lock of the transaction *)
Theorem C03_abort_releases_locks : forall s t,
  (forall k o a, aget k (s_rec (abort_tx s t)) = Some (o, a) -> o <> x_id t) /\
  (forall n o, aget n (s_nlk (abort_tx s t)) = Some o -> o <> x_id t).
Proof. exact abort_releases. Qed.
Print Assumptions C03_abort_releases_locks.

(* THE COUNT: the full statement (also Count() is the pre-writer one before any flip) is false of
   the faithful model: commitStores merges the delta into storeinfo.txt in phase 1.  Reproduced on
   the real code (findings/C03.json, uncommitted-count-visible:after-commitStores-before-flip). *)
Definition C03_count_full : Prop :=
  forall s sched, flippers s sched = [] -> s_cnt (run s sched) = s_cnt s.

Theorem C03_count_refuted : ~ C03_count_full.
Proof.
  intros F. destruct w4_count_visible as [Hf [_ [H1 H3]]].
  pose proof (F w4_sys w4_sched Hf) as F'. rewrite H3 in F'. rewrite H1 in F'. discriminate F'.
Qed.
Print Assumptions C03_count_refuted.

(* the rollback path re-applies the negated delta (shown on the witness of ConcBounded) *)
Theorem C03_count_restored_by_rollback_bounded :
  s_cnt (run w5_sys w5_pre) = 3 /\ flippers w5_sys w5_pre = [] /\
  (exists u, find_tx (run w5_sys w5_sched) 1 = Some u /\ x_pc u = Done false) /\
  s_cnt (run w5_sys w5_sched) = 1 /\ s_sto (run w5_sys w5_sched) = s_sto w5_sys.
Proof. exact w5_rollback_restores_count. Qed.
Print Assumptions C03_count_restored_by_rollback_bounded.

(* non-vacuity: a writer that staged two adds and an update, holds its locks and has merged the
   count is covered by the hypotheses of C03_partial_staged_invisible *)
Example C03_nonvacuous :
  flippers w4_sys w4_sched = [] /\
  (exists u, find_tx (run w4_sys w4_sched) 1 = Some u /\ x_pc u = Check /\ x_wbuf u <> []) /\
  s_cnt (run w4_sys w4_sched) <> s_cnt w4_sys.
Proof.
  vm_compute. repeat split; try discriminate. eexists. repeat split; try reflexivity. discriminate.
Qed.

(* C11 — finished transactions leave no orphaned blobs, registry entries or logs.
   Over Proto.run. After a successful commit exactly the superseded data is gone and nothing but the new data was
   added; after a failed commit outside the leak windows of the rollback the durable state is restored exactly.
   The full statement is FALSE of the code inside the leak windows (witnesses reproduced on the real code), and
   — outside this model — for value blobs of stores that keep values outside the node (see the findings). *)
From Coq Require Import List ZArith NArith Bool.
From SopVerif Require Import Proto ProtoProofs ProtoSuccess ProtoSuccess2 ProtoUndo Corr.Proto.
Import ListNotations.
Local Open Scope N_scope.

Theorem C11_commit_leaves_no_superseded_data :
  forall d t d' tr, SW d t -> run t d None = (Committed, d', tr) ->
  (forall l v p h, In (l, v, p) (updated t) -> lookup (reg d) l = Some h -> ~ In (active h) (blobs d'))
  /\ (forall l v h, In (l, v) (removed t) -> lookup (reg d) l = Some h -> ~ In (active h) (blobs d'))
  /\ (forall i, In i (obsolete t) -> ~ In i (blobs d'))
  /\ (forall i, In i (blobs d') -> In i (blobs d) \/ In i (vals t ++ roots t ++ added t ++ map snd (updated t))).
Proof. exact commit_success_removes_superseded. Qed.
Print Assumptions C11_commit_leaves_no_superseded_data.

(* no registry entry of a removed node and no log survives a commit *)
Theorem C11_commit_leaves_no_entries_or_logs :
  forall d t d' tr, SW d t -> run t d None = (Committed, d', tr) ->
  (forall l v, In (l, v) (removed t) -> lookup (reg d') l = None) /\ tlog d' = false /\ plog d' = None.
Proof.
  intros d t d' tr H1 H2. destruct (commit_success_view d t d' tr H1 H2) as [_ [B [_ [_ [E1 [E2 _]]]]]].
  exact (conj B (conj E1 E2)).
Qed.
Print Assumptions C11_commit_leaves_no_entries_or_logs.

(* failed commit, failure anywhere but the leak windows: nothing is left behind *)
Theorem C11_failed_commit_leaves_nothing_partial :
  forall t d n o d' tr', wf t d -> run t d (Some n) = (o, d', tr') -> o = Failed -> leaky t d n = false ->
  disk_equiv d' d.
Proof. exact failed_commit_restores_exactly. Qed.
Print Assumptions C11_failed_commit_leaves_nothing_partial.

(* inside the windows: an orphaned registry entry (B), an orphaned root blob (C), a staged node blob (A) *)
Theorem C11_orphan_registry_entry_refuted :
  exists t d n d1 tr1, run t d (Some n) = (Failed, d1, tr1)
    /\ lookup (reg d) 30 = None /\ lookup (reg d1) 30 = Some (added_handle 30) /\ ~ In 30 (blobs d1)
    /\ leaky t d n = true.
Proof. exact leak_B_orphan_registry_entry. Qed.
Print Assumptions C11_orphan_registry_entry_refuted.

Theorem C11_orphan_root_blob_refuted :
  exists t d n d1 tr1, run t d (Some n) = (Failed, d1, tr1)
    /\ ~ In 20 (blobs d) /\ In 20 (blobs d1) /\ lookup (reg d1) 20 = None
    /\ leaky t d n = true.
Proof. exact leak_C_orphan_root_blob. Qed.
Print Assumptions C11_orphan_root_blob_refuted.

Example C11_nonvacuous : SW ProtoSuccess.d_ex ProtoSuccess.t_ex /\ wf ProtoUndo.t_ex ProtoUndo.d_ex.
Proof. exact (conj SW_nonvacuous wf_nonvacuous). Qed.

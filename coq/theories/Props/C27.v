(* C27 — the passive copy stays a faithful replica and can be reinstated.
   Model: Repl.v (two folders restricted to what is replicated: store list, store infos,
   registry map; replication status; phase-2 Replicate; store create/drop through
   fileIOWithReplication; ReinstateFailedDrives; failover).  Blobs are not replicated by this
   mechanism (they are erasure coded across drives) and are outside these statements. *)
From Coq Require Import List ZArith NArith Bool.
From SopVerif Require Import Repl ReplProofs.
Import ListNotations.
Local Open Scope N_scope.

(* Every fault-free history of store creations, commits and store drops, started in a state
   where the passive folder equals the active one, ends (and passes through) states where the
   passive folder equals the active one pointwise — store list, store infos, every registry
   entry — with replication still on, and every operation succeeds.
   wf_run: creations name a store that is not listed, every commit is applicable on the active side. *)
Theorem C27_replica : forall ops w, synced w -> wf_run w ops ->
  synced (fst (run w ops)) /\ Forall (fun r => r = ROk) (snd (run w ops)).
Proof. exact run_synced. Qed.
Print Assumptions C27_replica.

Lemma synced_empty : synced empty_world.
Proof. repeat split. Qed.

Corollary C27_replica_from_empty : forall ops, wf_run empty_world ops ->
  side_eq (active (fst (run empty_world ops))) (passive (fst (run empty_world ops)))
  /\ w_failed (fst (run empty_world ops)) = false.
Proof.
  intros ops WF. destruct (C27_replica ops empty_world synced_empty WF) as [(F & _ & _ & E) _]. split; assumption.
Qed.
Print Assumptions C27_replica_from_empty.

(* Failure isolation, full statement: replacing the fault script of an operation by "no fault"
   changes neither its result nor the active side, and if FailedToReplicate is still off
   afterwards the passive side is the fault-free one as well (every divergence is flagged). *)
Definition strip (o : op) : op :=
  match o with
  | OCreate n si _ => OCreate n si nofault
  | OCommit c l _ _ => OCommit c l nofault nofault
  | ODrop n _ => ODrop n nofault
  | o => o
  end.
Definition isolated (w : world) (o : op) : Prop :=
  snd (step w o) = snd (step w (strip o))
  /\ active (fst (step w o)) = active (fst (step w (strip o)))
  /\ (w_failed (fst (step w o)) = false ->
      passive (fst (step w o)) = passive (fst (step w (strip o))) /\ w_failed (fst (step w (strip o))) = false).
Definition C27_failure_isolated_full : Prop := forall w o, w_failed w = false -> isolated w o.

(* It holds for commits (the phase-2 Replicate path), for every fault script and either order
   of the two concurrent Replicate calls ... *)
Theorem C27_failure_isolated_partial : forall w o, w_failed w = false ->
  match o with OCreate _ _ _ => False | ODrop _ _ => False | _ => True end -> isolated w o.
Proof.
  intros w o F K. destruct o as [n si f|c late f g|n f|b| |]; try contradiction.
  - destruct (commit_fault_isolated w c late f g F) as (R1 & R0 & A & _ & _ & _ & P).
    unfold isolated, strip. rewrite R1, R0. repeat split; auto; apply P; auto.
  - unfold isolated, strip. repeat split; auto.
  - unfold isolated, strip. repeat split; auto.
  - unfold isolated, strip. repeat split; auto.
Qed.
Print Assumptions C27_failure_isolated_partial.

(* ... and is false for store creation and store drop, which replicate through
   fileIOWithReplication: that path neither looks at FailedToReplicate nor sets it, and its
   error is returned to the caller. *)
Definition si1 : sinfo := mkSI 1 0 7 100.
Definition allfail : faults := fun _ => true.

Theorem C27_failure_isolated_refuted : ~ C27_failure_isolated_full.
Proof.
  intros H. destruct (H empty_world (OCreate 1 si1 allfail) eq_refl) as [R _]. vm_compute in R. discriminate.
Qed.
Print Assumptions C27_failure_isolated_refuted.

(* store creation fails on a passive-side error even when replication is already marked failed *)
Theorem C27_create_fails_when_passive_down : exists w n si f,
  w_failed w = true /\ snd (step w (OCreate n si f)) = RErr /\ snd (step w (OCreate n si nofault)) = ROk.
Proof. exists (mkW empty_side empty_side true true false [] (fun _ => None)), 1, si1, allfail. vm_compute. auto. Qed.

(* a passive-side error during a store drop is not flagged: replication stays on while the
   passive folder still lists the store *)
Definition side1 : side :=
  mkSide (fun n => n =? 1) (fun n => if n =? 1 then Some si1 else None)
         (fun t l => if (t =? 1) && (l =? 7) then Some (mkH 7 8 0 false 0%Z 0 false) else None).
Theorem C27_drop_fault_unflagged : exists w n f,
  synced w /\ let w1 := fst (step w (ODrop n f)) in
  snd (step w (ODrop n f)) = ROk /\ w_failed w1 = false /\ s_has (active w1) n = false /\ s_has (passive w1) n = true.
Proof.
  exists (mkW side1 side1 true false false [] (fun _ => None)), 1, allfail. split.
  - repeat split.
  - vm_compute. auto.
Qed.
Print Assumptions C27_drop_fault_unflagged.

(* Reinstate, full strength: from ANY state with replication marked failed - whatever the passive
   folder holds for the listed stores (a wiped replacement drive, a stale copy, a half-written one)
   and whatever store infos the L2 cache holds under the passive folder's key - with no pending
   commit logs, nothing left over outside the listed stores (tidy_outside) and every listed store
   having its info on the active side, ReinstateFailedDrives succeeds, switches replication back on,
   leaves the active folder untouched and the passive folder pointwise equal to it (store list, every
   store info, every registry entry). *)
Definition tidy_outside (w : world) : Prop :=
  forall n, s_has (active w) n = false ->
    s_info (passive w) n = s_info (active w) n /\ forall l, s_reg (passive w) n l = s_reg (active w) n l.
Theorem C27_reinstate : forall w,
  w_failed w = true -> w_logs w = [] -> tidy_outside w ->
  (forall n, s_has (active w) n = true -> isSome (s_info (active w) n) = true) ->
  snd (step w (OReinstate false)) = ROk /\ synced (fst (step w (OReinstate false)))
  /\ active (fst (step w (OReinstate false))) = active w.
Proof. intros w F G T H. apply reinstate_ok; auto. Qed.
Print Assumptions C27_reinstate.

(* the cache entries "<passive folder>:<store>" of the listed stores are evicted, whatever they held *)
Theorem C27_reinstate_evicts_passive_cache : forall w n, w_failed w = true ->
  s_has (active w) n = true -> w_pcache (fst (step w (OReinstate false))) n = None.
Proof. exact reinstate_evicts. Qed.
Print Assumptions C27_reinstate_evicts_passive_cache.

(* ... and the folders stay equal under any further fault-free operations *)
Corollary C27_reinstate_then_replica : forall w ops,
  w_failed w = true -> w_logs w = [] -> tidy_outside w ->
  (forall n, s_has (active w) n = true -> isSome (s_info (active w) n) = true) ->
  wf_run (fst (step w (OReinstate false))) ops ->
  synced (fst (run w (OReinstate false :: ops))).
Proof.
  intros w ops F G T H WF. destruct (C27_reinstate w F G T H) as (_ & S & _).
  cbn [run]. destruct (step w (OReinstate false)) as [w1 x]. cbn [fst] in *.
  destruct (C27_replica ops w1 S WF) as [S2 _]. destruct (run w1 ops) as [w2 xs]. exact S2.
Qed.
Print Assumptions C27_reinstate_then_replica.

(* the former counterexamples, now instances: a wiped replacement drive, and a perfect copy with an
   old store info cached under the passive folder's key (second reinstate within the cache TTL) *)
Definition w_wiped : world := mkW side1 empty_side true true false [] (fun _ => None).
Definition si1_old : sinfo := mkSI 1 (-5) 7 50.
Definition w_cached : world := mkW side1 side1 true true false [] (fun n => if n =? 1 then Some si1_old else None).
Example C27_reinstate_wiped_drive :
  let w1 := fst (step w_wiped (OReinstate false)) in
  snd (step w_wiped (OReinstate false)) = ROk /\ w_failed w1 = false
  /\ s_info (passive w1) 1 = Some si1 /\ s_reg (passive w1) 1 7 = s_reg (active w1) 1 7
  /\ isSome (s_reg (passive w1) 1 7) = true.
Proof. vm_compute. repeat split. Qed.
Example C27_reinstate_stale_cache_entry :
  let w1 := fst (step w_cached (OReinstate false)) in
  snd (step w_cached (OReinstate false)) = ROk /\ w_failed w1 = false
  /\ s_info (passive w1) 1 = Some si1 /\ w_pcache w1 1 = None.
Proof. vm_compute. repeat split. Qed.

(* non-vacuity: a concrete well-formed history (create, first root, split with update+add, removal) *)
Definition hroot := mkH 7 8 0 false 0%Z 0 false.
Definition hroot2 := mkH 7 8 9 true 1%Z 1 false.
Definition hleaf := mkH 10 11 0 false 1%Z 0 false.
Definition hleafdel := mkH 10 11 0 false 2%Z 0 true.
Definition hist : list op :=
  [ OCreate 1 si1 nofault;
    OCommit (mkC [(1, [hroot])] [] [] [] [mkSI 1 3 7 101]) false nofault nofault;
    OCommit (mkC [] [(1, [hleaf])] [(1, [hroot2])] [] [mkSI 1 9 7 102]) false nofault nofault;
    OCommit (mkC [] [] [(1, [hroot])] [(1, [hleafdel])] [mkSI 1 2 7 103]) false nofault nofault;
    ODrop 1 nofault ].
Example C27_nonvacuous : wf_run empty_world hist /\ s_reg (passive (fst (run empty_world (firstn 3 hist)))) 1 10 = Some hleaf.
Proof. split; [cbn; repeat split; reflexivity|vm_compute; reflexivity]. Qed.

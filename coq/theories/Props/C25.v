(* C25 — erasure-coded blobs survive up to p damaged shards; reads never crash the process; excess damage gives
   an error, not wrong bytes; a write succeeds iff at most p shard writes fail.

   The theorems are about the model EC.v of the code AS REPAIRED by fixes/C25-ec-damaged-shards.patch
   (getOne / decode / add), for every d >= 1, p, blob size >= 1 and every state of the d+p shard files.
   Reed–Solomon and md5 are parameters: `rs_contract` (EC.v) is the library contract the theorems assume,
   `md5_detects` says no damaged shard on the disk passes its own checksum.
   Corr.C25 is imported so that the correspondence checker is part of this file's build cone. *)
From Coq Require Import List NArith Bool Arith Lia.
From SopVerif Require Import EC ECProofs Corr.C25.
Import ListNotations.

Section C25.
  Variables (d p : nat) (size : N) (md5 : sdata -> N).
  Variable rs_verify : list (option sdata) -> bool.
  Variable rs_reconstruct : list (option sdata) -> option (list (option sdata)).
  Hypothesis Hd : 1 <= d.
  Hypothesis Hsize : (1 <= size)%N.
  Hypothesis rs_ok : rs_contract d p rs_verify rs_reconstruct.
  Notation getOne := (getOne d size md5 rs_verify rs_reconstruct).

  (* READ, within parity. At most p of the d+p shard files damaged in any way (missing, any truncation, content,
     checksum or pad-count bytes altered, in any combination): GetOne returns exactly the stored blob.
     _partial: the pad count of the first readable shard must be intact (refuted without: C25_read_refuted). *)
  Theorem C25_read_partial : forall repairOn wfail disk,
    length disk = d + p -> damaged d size md5 disk <= p -> md5_detects md5 disk ->
    first_pad_intact d size disk ->
    fst (getOne repairOn wfail disk) = Ok (original d size).
  Proof. intros rep wf disk Hl Hdm Hm Hp. exact (read_ok d p size md5 rs_verify rs_reconstruct Hd Hsize rs_ok rep wf disk Hl Hdm Hm Hp). Qed.

  (* NO PANIC: whatever is on the disk (any number of files, any lengths, any bytes) *)
  Theorem C25_no_panic : forall repairOn wfail disk, fst (getOne repairOn wfail disk) <> Panic.
  Proof. intros rep wf disk. eapply no_panic; eassumption. Qed.

  (* EXCESS. _partial: under the idealised Verify of DESIGN.md (`rs_verify_exact`: only a complete genuine set
     verifies; refuted for the real library by C25_excess_refuted). Any damage at all: what GetOne returns is
     the genuine data, stripped by the first readable shard's pad count; never other bytes. *)
  Theorem C25_excess_never_wrong_partial : forall repairOn wfail disk j pad,
    rs_verify_exact d p rs_verify ->
    length disk = d + p -> md5_detects md5 disk -> first_pad_intact d size disk ->
    fst (getOne repairOn wfail disk) = Ok (j, pad) -> (j, pad) = original d size.
  Proof.
    intros rep wf disk j pad Hx Hl Hm Hp H.
    destruct (read_safe d p size md5 rs_verify rs_reconstruct Hd Hsize rs_ok rep wf disk j pad Hl Hm Hx H) as [-> Hf].
    unfold original. now rewrite (Hp pad Hf).
  Qed.

  (* … and when the content of more than p shards is lost the read is an error *)
  Theorem C25_excess_error_partial : forall repairOn wfail disk,
    rs_verify_exact d p rs_verify ->
    length disk = d + p -> md5_detects md5 disk -> p < data_damaged_count disk ->
    exists e, fst (getOne repairOn wfail disk) = Err e.
  Proof. intros rep wf disk Hx Hl Hm Hdd. exact (excess_err d p size md5 rs_verify rs_reconstruct Hd Hsize rs_ok rep wf disk Hl Hm Hx Hdd). Qed.

  (* WRITE: Add of a non-empty blob succeeds iff at most p of the d+p shard writes fail … *)
  Theorem C25_write : forall wfail disk, length disk = d + p ->
    (fst (add d p size md5 wfail disk) = Ok tt <-> count_fail (d + p) wfail <= p).
  Proof. intros wf disk Hl. rewrite <- Hl. apply add_ok_iff; assumption. Qed.

  (* … and a blob whose Add succeeded on fresh shard files reads back exactly *)
  Theorem C25_write_then_read : forall wfail repairOn wf2,
    fst (add d p size md5 wfail (repeat SMissing (d + p))) = Ok tt ->
    fst (getOne repairOn wf2 (snd (add d p size md5 wfail (repeat SMissing (d + p))))) = Ok (original d size).
  Proof.
    intros wf rep wf2 H. pose proof (proj1 (add_ok_iff d p size md5 Hd Hsize wf _) H) as Hc. rewrite repeat_length in Hc.
    unfold add. destruct (size =? 0)%N eqn:E; [apply N.eqb_eq in E; lia|]. cbn [snd].
    apply (read_ok d p size md5 rs_verify rs_reconstruct Hd Hsize rs_ok).
    - now rewrite write_all_length, repeat_length.
    - pose proof (write_all_damaged d size md5 Hd Hsize 0 wf (repeat SMissing (d + p))) as Hw.
      rewrite repeat_length in Hw. unfold count_fail in Hc. lia.
    - apply fresh_md5_detects.
    - now apply fresh_pad_intact.
  Qed.
End C25.

Print Assumptions C25_read_partial.
Print Assumptions C25_no_panic.
Print Assumptions C25_excess_never_wrong_partial.
Print Assumptions C25_excess_error_partial.
Print Assumptions C25_write.
Print Assumptions C25_write_then_read.

(* an empty blob is never stored: reedsolomon.Split rejects it before any shard is written (guard of C25_write) *)
Theorem C25_write_empty : forall d p md5 wfail disk, fst (add d p 0 md5 wfail disk) = Err EShortData /\ snd (add d p 0 md5 wfail disk) = disk.
Proof. intros. apply add_empty. Qed.
Print Assumptions C25_write_empty.

(* the stripped length is the blob length: pad count < d and d * perShard - pad = size *)
Theorem C25_geometry : forall d size, 1 <= d -> (1 <= size)%N ->
  (truepad d size < N.of_nat d)%N /\ (perShard d size * N.of_nat d - truepad d size = size)%N.
Proof. intros d size Hd Hs. split; [now apply truepad_lt|now apply truepad_exact]. Qed.
Print Assumptions C25_geometry.

(* ------------------------------------------------------------------ refutations (concrete symbolic Reed–Solomon
   c_verify / c_reconstruct, validated case by case against klauspost/reedsolomon by the harness) *)

(* the full read statement is false: one flipped pad-count byte (1 <= p damaged shards), wrong length returned.
   Reproduced on the real code: findings/C25.json `padflip-first-readable`. *)
Theorem C25_read_refuted : exists disk,
  length disk = 3 /\ damaged 2 9 c_md5 disk <= 1 /\ md5_detects c_md5 disk /\
  exists j pad, fst (c_getOne 2 1 9 false disk) = Ok (j, pad) /\ (j, pad) <> original 2 9.
Proof.
  exists (apply_dmgs [KFlipPad 0; KGood; KGood] (repeat (good_file 2 9 c_md5) 3)).
  split; [reflexivity|]. split; [vm_compute; lia|]. split.
  - intros len pad sum data Hin _ Hs. cbn in Hin. destruct Hin as [H|[H|[H|[]]]]; injection H as _ _ _ <-; reflexivity.
  - exists [DGood; DGood], 0%N. split; [vm_compute; reflexivity|]. vm_compute. discriminate.
Qed.
Print Assumptions C25_read_refuted.

(* the full excess statement is false for a Verify that, like the library's, accepts every codeword: all three
   shard files cut to the same length verify; their prefixes are returned as the blob.
   Reproduced on the real code: findings/C25.json `excess-undetected-codeword`. *)
Theorem C25_excess_refuted : exists disk,
  length disk = 3 /\ data_damaged_count disk = 3 /\ md5_detects c_md5 disk /\ first_pad_intact 2 4099 disk /\
  exists j pad, fst (c_getOne 2 1 4099 false disk) = Ok (j, pad) /\ (j, pad) <> original 2 4099.
Proof.
  exists (apply_dmgs [KTrunc 2066; KTrunc 2066; KTrunc 2066] (repeat (good_file 2 4099 c_md5) 3)).
  split; [reflexivity|]. split; [vm_compute; reflexivity|]. split.
  - intros len pad sum data Hin _ Hs. cbn in Hin. destruct Hin as [H|[H|[H|[]]]]; injection H as _ _ <- <-; vm_compute in Hs; discriminate.
  - split; [intros v Hv; vm_compute in Hv; injection Hv as <-; reflexivity|].
    exists [DTrunc 2049; DTrunc 2049], 1%N. split; [vm_compute; reflexivity|]. vm_compute. discriminate.
Qed.
Print Assumptions C25_excess_refuted.

(* suspect S6, the code BEFORE the patch (getOne_orig): each of these held of /repo at 8351bbba *)
Definition orig (d p : nat) (size : N) (dmg : list kdmg) :=
  getOne_orig d size c_md5 (c_verify (d + p) (perShard d size)) (c_reconstruct d (d + p) (perShard d size))
              (c_reconstructSome d (d + p) (perShard d size)) (apply_dmgs dmg (repeat (good_file d size c_md5) (d + p))).

Theorem C25_unpatched_refuted :
  (* a shard file shorter than its metadata: panic in the reader goroutine *)
  orig 2 2 9 [KTrunc 5; KGood; KGood; KGood] = Panic /\
  (* one missing + one corrupted, within parity: nil metadata indexed *)
  orig 2 2 9 [KMissing; KFlipData; KGood; KGood] = Panic /\
  (* one truncated shard, within parity: error *)
  (exists e, orig 2 2 9 [KGood; KTrunc 20; KGood; KGood] = Err e).
  (* (the fourth defect of the unpatched code, parity missing + data shard corrupted => the corrupted data is
     returned, needs a Verify that accepts a set rebuilt from a corrupted shard; the symbolic c_verify cannot
     express that, the harness reproduces it on the real code: corpus case 4) *)
Proof. repeat split; try (vm_compute; reflexivity). eexists. vm_compute. reflexivity. Qed.
Print Assumptions C25_unpatched_refuted.

(* non-vacuity: the hypotheses of C25_read_partial hold of a mixed damage pattern with the concrete instance,
   and the repaired code reads it *)
Example C25_nonvacuous :
  let disk := apply_dmgs [KMissing; KFlipData; KGood; KGood] (repeat (good_file 2 9 c_md5) 4) in
  length disk = 4 /\ damaged 2 9 c_md5 disk = 2 /\ first_pad_intact 2 9 disk /\
  fst (c_getOne 2 2 9 false disk) = Ok (original 2 9).
Proof.
  cbv zeta. split; [reflexivity|]. split; [vm_compute; reflexivity|]. split.
  - intros v Hv. vm_compute in Hv. injection Hv as <-. reflexivity.
  - vm_compute. reflexivity.
Qed.

From Coq Require Import List NArith.
From SopVerif Require Import EC Corr.C25.
Import ListNotations.
Example C25_placeholder : class_of 2 9 (fst (c_getOne 2 1 9 false (repeat (good_file 2 9 c_md5) 3))) = 0%N.
Proof. vm_compute. reflexivity. Qed.

(* C07 — a commit that fails on an I/O or lock error leaves no trace and no blockage.
   Over Proto.run (commit of common.Transaction at storage-interface-call granularity, one injected failure at
   any call). The full statement is FALSE of the code: rollback undoes only the steps completed before the
   failing one, so the partial effects of the failing step itself stay (leak windows A, B, C below, and E). The
   theorems give (1) what always holds, (2) exact restoration and a successful retry for every other failure
   position, (3) witnesses, reproduced on the real code, for the leak windows. *)
From Coq Require Import List ZArith NArith Bool.
From SopVerif Require Import Proto ProtoProofs ProtoUndo Corr.Proto.
Import ListNotations.
Local Open Scope N_scope.

(* (1) always: the stores read exactly as before, wherever the failure is *)
Theorem C07_failed_commit_reads_as_before :
  forall t d f o d' tr', wf_disk d -> W d t -> run t d f = (o, d', tr') -> o <> Committed ->
  forall l h0, lookup (reg d) l = Some h0 ->
    resolve d' l = Some (active h0)
    /\ (exists h, lookup (reg d') l = Some h /\ ver h = ver h0)
    /\ (In (active h0) (blobs d) -> In (active h0) (blobs d')).
Proof. exact failed_commit_preserves_view. Qed.
Print Assumptions C07_failed_commit_reads_as_before.

(* (2) outside the leak windows nothing at all is left: registry (up to expired inactive ids), blobs, counts, logs *)
Theorem C07_no_trace_partial :
  forall t d n o d' tr', wf t d -> run t d (Some n) = (o, d', tr') -> o = Failed -> leaky t d n = false ->
  disk_equiv d' d.
Proof. exact failed_commit_restores_exactly. Qed.
Print Assumptions C07_no_trace_partial.

(* ... and the same changes, re-issued with no fault, commit at once and end in an equivalent state *)
Theorem C07_retry_commits_partial :
  forall t d n d' tr' d1 tr1,
  wf t d -> run t d (Some n) = (Failed, d', tr') -> leaky t d n = false -> run t d None = (Committed, d1, tr1) ->
  exists d2 tr2, run t d' None = (Committed, d2, tr2) /\ disk_equiv d2 d1.
Proof. exact retry_commits. Qed.
Print Assumptions C07_retry_commits_partial.

(* what "leaky" means: phase 1 stopped at the registry add of a new root after its blob was written (C), at the
   blob write or the log write that follows the registry claim of the updated nodes (A), or at the blob write
   that follows the registry add of the added nodes (B) *)
Theorem C07_leaky_positions_are_exactly :
  forall t d n, leaky t d n = true ->
  exists s1 c rest, phase1 t (init d (Some n)) = (Stop, s1) /\ tr s1 = (c, false) :: rest
    /\ ((exists hs, c = RegAdd hs /\ cs s1 = commitNewRootNodes)
        \/ (exists ids, c = BlobAdd ids /\ (cs s1 = areFetchedItemsIntact \/ cs s1 = commitAddedNodes))
        \/ (exists f, c = TlogAdd f /\ cs s1 = commitUpdatedNodes /\ updated t <> [])).
Proof. exact leaky_spec. Qed.
Print Assumptions C07_leaky_positions_are_exactly.

(* (3) the restriction is needed: inside window A the claimed inactive id stays and the retry is refused *)
Theorem C07_no_blockage_refuted :
  exists t d n d1 tr1, run t d (Some n) = (Failed, d1, tr1) /\ (exists d2 tr2, run t d1 None = (Conflicted, d2, tr2)).
Proof. exact leak_A_blocks_retry. Qed.
Print Assumptions C07_no_blockage_refuted.

Theorem C07_no_trace_refuted :
  exists t d n d1 tr1, wf t d /\ run t d (Some n) = (Failed, d1, tr1) /\ ~ disk_equiv d1 d.
Proof. exact unrestricted_statement_refuted. Qed.
Print Assumptions C07_no_trace_refuted.

Example C07_nonvacuous : wf t_ex d_ex.
Proof. exact wf_nonvacuous. Qed.

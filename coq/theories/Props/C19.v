(* C19 — persisted stores hold exactly what was written, under every storage option. *)
From Coq Require Import List ZArith NArith Bool.
From SopVerif Require Import Tracker TrackerProofs.
Import ListNotations.
Local Open Scope N_scope.

(* Value placements in node / separate segment / separate segment + globally cached (every option
   combination with IsValueDataActivelyPersisted = false), ANY history of transactions (any batching of
   any add/update/remove/get sequence, commits and rollbacks), any B-tree shape (the item the B-tree
   reports to the tracker on Remove, [rep], is arbitrary): what a fresh process reads from the persisted
   store is the ordered-map semantics of the committed operations, in key order, every value present.
   Hypothesis [guarded]: every commit passes the guard of phase1Commit (the tracker holds an item, or the
   transaction changed nothing). C19_lost_commit_refuted shows the hypothesis is needed. *)
Theorem C19_batching_partial : forall o h, activelyP o = false -> guarded o d0 h ->
  view (history o d0 h) = map (fun p => (fst p, Some (snd p))) (mrun [] (committed_ops h)).
Proof.
  intros o h Ha Hg.
  destruct (history_passive o h d0 Ha (Forall_nil _) Hg) as [H1 H2].
  rewrite (view_novnf _ H2), H1. reflexivity.
Qed.
Print Assumptions C19_batching_partial.

(* one transaction on any persisted state without out-of-node values *)
Theorem C19_value_roundtrip_partial : forall o d ps, activelyP o = false -> novnf (fst d) ->
  tracked_or_unchanged o d ps ->
  let d' := fst (fst (txn o d ps true)) in
  view d' = map (fun p => (fst p, Some (snd p))) (mrun (mview (fst d)) ps) /\ novnf (fst d').
Proof.
  intros o d ps Ha Hn Ht d'. destruct (txn_passive o d ps Ha Hn Ht) as [H1 H2]. fold d' in H1, H2.
  split; [|exact H2]. rewrite (view_novnf _ H2), H1. reflexivity.
Qed.
Print Assumptions C19_value_roundtrip_partial.

(* a rolled-back transaction leaves the persisted slots alone, in every mode *)
Theorem C19_rollback_keeps_slots : forall o d ps, fst (fst (fst (txn o d ps false))) = fst d.
Proof.
  intros o d ps. unfold txn. destruct (steps o (begin d) ps) as [s rs]. cbn [fst]. apply rollback_disk.
Qed.
Print Assumptions C19_rollback_keeps_slots.

(* every requested slot length is normalised to an even effective length in [2, 20000]; the node split
   (btree/node.go, slotsHalf = SlotLength >> 1) keeps all SlotLength+1 items only for an even length. The B-tree
   itself is not in this model: the tie is SlotNorm correspondence cases + the split-forcing corpus of harness/c19. *)
Theorem C19_slot_length_even : forall n, Z.even (slot_norm n) = true /\ (2 <= slot_norm n <= 20000)%Z.
Proof. exact slot_norm_even. Qed.
Print Assumptions C19_slot_length_even.

(* The full statement is FALSE of the faithful model; each witness is reproduced on the implementation
   by the corpus of harness/c19 (findings/C19.json). *)

(* every mode, here in-node: Add(51) + Remove(50) where the B-tree reports the successor item to the
   tracker: both operations succeed, Commit succeeds, nothing is persisted *)
Theorem C19_lost_commit_refuted : exists o h,
  view (history o d0 h) <> map (fun p => (fst p, Some (snd p))) (mrun [] (committed_ops h)).
Proof.
  exists o_innode, h_lost. destruct lost_commit_witness as [H1 H2]. rewrite H1, H2. discriminate.
Qed.
Print Assumptions C19_lost_commit_refuted.

(* actively persisted store: a transaction that only removes is not committed, but the value blob of
   the removed item is deleted: the key stays and can no longer be read *)
Theorem C19_value_roundtrip_refuted : exists h,
  view (history o_active d0 h) <> map (fun p => (fst p, Some (snd p))) (mrun [] (committed_ops h)) /\
  In (1%Z, None) (view (history o_active d0 h)).
Proof.
  exists h_remove_only. destruct remove_only_witness as [H1 H2]. rewrite H1, H2. split; [discriminate|now left].
Qed.
Print Assumptions C19_value_roundtrip_refuted.

(* actively persisted store: get + update overwrites the committed value blob in place before commit,
   and the rollback deletes it: committed data is lost by a transaction that never committed *)
Theorem C19_rollback_refuted : exists h,
  In (1%Z, None) (view (history o_active d0 h)) /\ In (1%Z, 7) (mrun [] (committed_ops h)).
Proof.
  exists h_rollback. destruct rollback_witness as [H1 H2]. rewrite H1, H2. split; now left.
Qed.
Print Assumptions C19_rollback_refuted.

(* actively persisted store: a key-only update (UpdateKey) of an out-of-node value, in a transaction that also actively
   persisted an add, then rollback: the committed value blob is deleted *)
Theorem C19_rollback_keyonly_refuted : exists h,
  In (1%Z, None) (view (history o_active d0 h)) /\ In (1%Z, 7) (mrun [] (committed_ops h)).
Proof.
  exists h_rollback_keyonly. destruct rollback_keyonly_witness as [H1 H2]. rewrite H1, H2. split; now left.
Qed.
Print Assumptions C19_rollback_keyonly_refuted.

(* "obsolete(t) = exactly the superseded blob ids" is false: the superseded blob (id 1) of an actively
   persisted update survives every later commit, the live item is id 2 *)
Theorem C19_obsolete_refuted : exists h,
  let d := history o_active d0 h in map iid (fst d) = [2] /\ In 1 (map fst (blobs (snd d))).
Proof. exists h_leak. destruct leak_witness as [H1 H2]. split; [exact H1|rewrite H2; right; now left]. Qed.
Print Assumptions C19_obsolete_refuted.

(* non-vacuity: a three-transaction history in a separate-segment, globally cached store meets the guard *)
Example C19_nonvacuous :
  let o := mkOpts false false true in
  let h := [([OAdd 3%Z 5; OAdd 1%Z 6; OGet 3%Z], true); ([OUpdate 3%Z 7; ORemove 1%Z 1%Z; OAdd 9%Z 8; OUpdKey 9%Z; OUpdKey 5%Z], true);
            ([OUpdate 9%Z 4], false)] in
  guarded o d0 h /\ view (history o d0 h) = [(3%Z, Some 7); (9%Z, Some 8)].
Proof.
  cbv zeta. split.
  - cbn [guarded]. repeat split; try discriminate; intros _; left; vm_compute; discriminate.
  - vm_compute. reflexivity.
Qed.

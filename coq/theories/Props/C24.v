(* C24 — handle records round-trip and fit their disk block without overlap. *)
From Coq Require Import List ZArith NArith.
From SopVerif Require Import Lib.Bytes Gen.Consts Gen.HandleCodec Layout HandleCodecProofs.
Import ListNotations.
Local Open Scope Z_scope.

(* every handle is encoded into a fixed-size record that decodes back to an identical handle *)
Theorem C24_roundtrip : forall h, wf_handle h ->
  decode (encode h) = Some h /\ Z.of_nat (length (encode h)) = HandleSizeInBytes.
Proof. intros h H. split; [exact (decode_encode h H)|exact (encode_length h H)]. Qed.
Print Assumptions C24_roundtrip.

Theorem C24_encode_injective : forall h1 h2, wf_handle h1 -> wf_handle h2 -> encode h1 = encode h2 -> h1 = h2.
Proof. exact encode_injective. Qed.
Print Assumptions C24_encode_injective.

(* slots and checksum occupy disjoint byte ranges inside one block *)
Theorem C24_layout :
  handlesPerBlock * S_ + crc_len <= B_ /\
  (forall i j, 0 <= i < handlesPerBlock -> 0 <= j < handlesPerBlock -> i <> j ->
     disjoint (slot_range i) (slot_range j)) /\
  (forall i, 0 <= i < handlesPerBlock ->
     disjoint (slot_range i) crc_range /\ inside (slot_range i) (0, B_ - crc_len)).
Proof.
  split; [exact layout_fits|]. split.
  - intros i j Hi Hj Hne. apply slots_disjoint; [apply Hi|apply Hj|exact Hne].
  - intros i Hi. split; [exact (slot_crc_disjoint i Hi)|exact (slot_inside_data i Hi)].
Qed.
Print Assumptions C24_layout.

(* every id maps to a slot of the block, for every id *)
Theorem C24_offset_in_range : forall low, 0 <= low ->
  exists i, 0 <= i < handlesPerBlock /\ handleInBlockOffset low = fst (slot_range i)
            /\ handleInBlockOffset low + S_ <= B_ - crc_len.
Proof. exact offset_is_slot. Qed.
Print Assumptions C24_offset_in_range.

(* writing one slot never changes another slot or the checksum area *)
Theorem C24_write_local : forall b i h k x, wf_handle h -> Z.of_nat (length b) = B_ ->
  0 <= i < handlesPerBlock -> 0 <= k -> ~ (fst (slot_range i) <= k < snd (slot_range i)) ->
  nth (Z.to_nat k) (write_slot b i (encode h)) x = nth (Z.to_nat k) b x.
Proof. exact write_slot_local. Qed.
Print Assumptions C24_write_local.

Theorem C24_write_other_slot : forall b i j h k x, wf_handle h -> Z.of_nat (length b) = B_ ->
  0 <= i < handlesPerBlock -> 0 <= j < handlesPerBlock -> i <> j ->
  fst (slot_range j) <= k < snd (slot_range j) ->
  nth (Z.to_nat k) (write_slot b i (encode h)) x = nth (Z.to_nat k) b x.
Proof. exact write_slot_other_slot. Qed.
Print Assumptions C24_write_other_slot.

Theorem C24_write_crc_untouched : forall b i h k x, wf_handle h -> Z.of_nat (length b) = B_ ->
  0 <= i < handlesPerBlock -> fst crc_range <= k < snd crc_range ->
  nth (Z.to_nat k) (write_slot b i (encode h)) x = nth (Z.to_nat k) b x.
Proof. exact write_slot_crc_untouched. Qed.
Print Assumptions C24_write_crc_untouched.

Theorem C24_crc_write_keeps_slots : forall b c k x, Z.of_nat (length b) = B_ -> 0 <= k < B_ - crc_len ->
  nth (Z.to_nat k) (write_crc b c) x = nth (Z.to_nat k) b x.
Proof. exact write_crc_data_untouched. Qed.
Print Assumptions C24_crc_write_keeps_slots.

(* non-vacuity: a concrete handle with extreme field values meets the hypotheses *)
Example C24_nonvacuous :
  let h := mkHandle (repeat 255%N 16) (repeat 1%N 16) nil_uuid true (- 2 ^ 31) (2 ^ 63 - 1) true in
  wf_handle h /\ decode (encode h) = Some h.
Proof.
  cbv zeta. split.
  - unfold wf_handle, wf_uuid, wf_bytes, wf_byte; cbn; repeat split;
      try (repeat constructor; fail); try discriminate; intros; discriminate.
  - vm_compute. reflexivity.
Qed.

(* C10 — no live item or node ever refers to deleted or partially written data.
   Over Proto.run: neither a successful commit (with its cleanup) nor a failed one (with its rollback, failure
   injected at any interface call) ever removes the blob a registered node resolves to, and every node a commit
   registers or re-points has its blob written before it becomes visible. Contents of nodes (child links, value
   ids) are opaque in this model; that the B-tree only links to registered nodes is C17/C19 territory, and the
   fresh-process oracle of the harness loads every reachable node and value after every run. *)
From Coq Require Import List ZArith NArith Bool.
From SopVerif Require Import Proto ProtoProofs ProtoSuccess ProtoSuccess2 Corr.Proto.
Import ListNotations.
Local Open Scope N_scope.

(* failed commit or conflict: every pre-existing node keeps resolving to a blob that is still present *)
Theorem C10_failed_commit_keeps_referenced_blobs :
  forall t d f o d' tr', wf_disk d -> W d t -> run t d f = (o, d', tr') -> o <> Committed ->
  forall l h0, lookup (reg d) l = Some h0 ->
    resolve d' l = Some (active h0) /\ (In (active h0) (blobs d) -> In (active h0) (blobs d')).
Proof.
  intros t d f o d' tr' H1 H2 H3 H4 l h0 H5.
  destruct (failed_commit_preserves_view t d f o d' tr' H1 H2 H3 H4 l h0 H5) as [A [_ B]]. exact (conj A B).
Qed.
Print Assumptions C10_failed_commit_keeps_referenced_blobs.

(* successful commit: cleanup deletes only superseded data — every node registered afterwards has its blob *)
Theorem C10_commit_keeps_every_registered_blob :
  forall d t d' tr, SW d t -> uniq_active d -> obs_fresh d t -> run t d None = (Committed, d', tr) ->
  (forall l h, lookup (reg d) l = Some h -> In (active h) (blobs d)) ->
  forall l h', lookup (reg d') l = Some h' -> In (active h') (blobs d').
Proof. exact commit_success_all_registered_blobs_present. Qed.
Print Assumptions C10_commit_keeps_every_registered_blob.

Theorem C10_cleanup_spares_untouched_nodes :
  forall d t d' tr, SW d t -> uniq_active d -> obs_fresh d t -> run t d None = (Committed, d', tr) ->
  forall l h, ~ In l (map (fun x => fst (fst x)) (updated t)) -> ~ In l (map fst (removed t)) ->
    lookup (reg d) l = Some h -> In (active h) (blobs d) -> In (active h) (blobs d').
Proof. exact commit_success_keeps_live_blobs. Qed.
Print Assumptions C10_cleanup_spares_untouched_nodes.

Example C10_nonvacuous :
  SW d_ex t_ex /\ uniq_active d_ex /\ obs_fresh d_ex t_ex /\ (forall l h, lookup (reg d_ex) l = Some h -> In (active h) (blobs d_ex)).
Proof. exact hyps2_nonvacuous. Qed.

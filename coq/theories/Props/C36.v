(* C36 — concurrent use of the library is free of data races (PARTIAL).

   What is a theorem here: (1) the locking discipline excludes data races on every
   well-formed trace (general, unbounded); (2) for each shared object the property names,
   the site table regenerated from the Go sources on every run satisfies the discipline
   (vm_compute over the finite table), entirely or outside the committed baseline of
   known-unguarded sites (corpus/C36/sites.json).  Whether the compiled program races is
   observed by the Go race detector (harness/c36), used as search, not as proof. *)
From Coq Require Import List Arith Bool String.
From SopVerif Require Import RaceDiscipline RaceDisciplineProofs Gen.AccessSites.
(* the correspondence checker is required here only so that it is rebuilt with the table (dependency cone) *)
From SopVerif Require Import Corr.C36.
Import ListNotations.

(* (1) the discipline is sound: on every trace that respects mutex semantics (a writer lock is
   exclusive, read locks are shared among readers, only a holder unlocks), if every access to x
   is made while holding one common mutex m — writes exclusively, reads exclusively or shared —
   no two conflicting accesses to x are unordered by happens-before *)
Theorem C36_discipline_sound : forall (tr : trace) (x : var) (m : mutex),
  wf tr -> disciplined tr x m -> ~ race tr x.
Proof. exact discipline_sound. Qed.
Print Assumptions C36_discipline_sound.

(* table form: a table whose sites are all guarded by g, realised by an execution (the hypothesis
   `realises` is what the syntactic lockset pass is trusted for), excludes races on the object *)
Theorem C36_table_sound : forall (mu_of : string -> mutex) (g : string) (sites : list site) (tr : trace) (x : var),
  wf tr -> forallb (guarded g) sites = true -> realises mu_of sites tr x -> ~ race tr x.
Proof. exact table_sound. Qed.
Print Assumptions C36_table_sound.

(* (2) objects whose every site is guarded on the current sources *)
Theorem C36_sites_guarded_L1Cache_lookup : forallb (guarded guard_L1Cache_lookup) sites_L1Cache_lookup = true.
Proof. vm_compute. reflexivity. Qed.
Print Assumptions C36_sites_guarded_L1Cache_lookup.

Theorem C36_sites_guarded_L1Cache_mru : forallb (guarded guard_L1Cache_mru) sites_L1Cache_mru = true.
Proof. vm_compute. reflexivity. Qed.
Print Assumptions C36_sites_guarded_L1Cache_mru.

Theorem C36_sites_guarded_shard_items : forallb (guarded guard_shard_items) sites_shard_items = true.
Proof. vm_compute. reflexivity. Qed.
Print Assumptions C36_sites_guarded_shard_items.

Theorem C36_sites_guarded_globalL1CacheRegistry :
  forallb (guarded guard_globalL1CacheRegistry) sites_globalL1CacheRegistry = true.
Proof. vm_compute. reflexivity. Qed.
Print Assumptions C36_sites_guarded_globalL1CacheRegistry.

Theorem C36_sites_guarded_GlobalReplicationDetails :
  forallb (guarded guard_GlobalReplicationDetails) sites_GlobalReplicationDetails = true.
Proof. vm_compute. reflexivity. Qed.
Print Assumptions C36_sites_guarded_GlobalReplicationDetails.

Theorem C36_sites_guarded_jitterRNG : forallb (guarded guard_jitterRNG) sites_jitterRNG = true.
Proof. vm_compute. reflexivity. Qed.
Print Assumptions C36_sites_guarded_jitterRNG.

(* the two results combined for those objects: every execution realising the table is race free *)
Theorem C36_guarded_objects_race_free : forall (mu_of : string -> mutex) (tr : trace) (x : var) (o : sobject),
  In o [obj_L1Cache_lookup; obj_L1Cache_mru; obj_shard_items; obj_globalL1CacheRegistry;
        obj_GlobalReplicationDetails; obj_jitterRNG] ->
  wf tr -> realises mu_of (o_sites o) tr x -> ~ race tr x.
Proof.
  intros mu_of tr x o Hin Hwf Hre.
  apply (table_sound mu_of (o_guard o) (o_sites o) tr x Hwf); [|exact Hre].
  cbn in Hin.
  destruct Hin as [<-|[<-|[<-|[<-|[<-|[<-|[]]]]]]]; vm_compute; reflexivity.
Qed.
Print Assumptions C36_guarded_objects_race_free.

(* objects with sites known to be unguarded on the unchanged tree get NO guardedness theorem
   (they are listed in the evidence); what is proved is that nothing outside the committed
   baseline is unguarded, so a new unguarded site breaks the proof *)
Theorem C36_sites_guarded_outside_baseline_sync_cache_Cache :
  guarded_except guard_sync_cache_Cache baseline_sync_cache_Cache sites_sync_cache_Cache = true.
Proof. vm_compute. reflexivity. Qed.
Print Assumptions C36_sites_guarded_outside_baseline_sync_cache_Cache.

Theorem C36_sites_guarded_outside_baseline_lastOnIdleRunTime :
  guarded_except guard_lastOnIdleRunTime baseline_lastOnIdleRunTime sites_lastOnIdleRunTime = true.
Proof. vm_compute. reflexivity. Qed.
Print Assumptions C36_sites_guarded_outside_baseline_lastOnIdleRunTime.

Theorem C36_sites_guarded_outside_baseline_hourBeingProcessed :
  guarded_except guard_hourBeingProcessed baseline_hourBeingProcessed sites_hourBeingProcessed = true.
Proof. vm_compute. reflexivity. Qed.
Print Assumptions C36_sites_guarded_outside_baseline_hourBeingProcessed.

Theorem C36_sites_guarded_outside_baseline_onStartUpFlag :
  guarded_except guard_onStartUpFlag baseline_onStartUpFlag sites_onStartUpFlag = true.
Proof. vm_compute. reflexivity. Qed.
Print Assumptions C36_sites_guarded_outside_baseline_onStartUpFlag.

Theorem C36_sites_guarded_outside_baseline_lastPriorityOnIdleTime :
  guarded_except guard_lastPriorityOnIdleTime baseline_lastPriorityOnIdleTime sites_lastPriorityOnIdleTime = true.
Proof. vm_compute. reflexivity. Qed.
Print Assumptions C36_sites_guarded_outside_baseline_lastPriorityOnIdleTime.

Theorem C36_sites_guarded_outside_baseline_priorityLogFound :
  guarded_except guard_priorityLogFound baseline_priorityLogFound sites_priorityLogFound = true.
Proof. vm_compute. reflexivity. Qed.
Print Assumptions C36_sites_guarded_outside_baseline_priorityLogFound.

(* every object of the table is covered by one of the theorems above *)
Theorem C36_all_objects_covered :
  map o_name all_objects =
  ["L1Cache_lookup"; "L1Cache_mru"; "shard_items"; "globalL1CacheRegistry"; "sync_cache_Cache";
   "GlobalReplicationDetails"; "jitterRNG"; "lastOnIdleRunTime"; "hourBeingProcessed"; "onStartUpFlag";
   "lastPriorityOnIdleTime"; "priorityLogFound"]%string.
Proof. vm_compute. reflexivity. Qed.
Print Assumptions C36_all_objects_covered.

(* ---------------------------------------------------------------- non-vacuity *)

(* goroutine 0 forks 1 and 2; 1 writes x = 0 under Lock(m = 7); 2 reads x under RLock; 1 locks again
   and reads and writes; 0 joins both and reads x under the lock: the hypotheses of
   C36_discipline_sound hold of this trace *)
Definition tr_good : trace :=
  [ (0, Fork 1); (0, Fork 2);
    (1, Acq 7); (1, Wr 0); (1, Rel 7);
    (2, RAcq 7); (2, Rd 0); (2, RRel 7);
    (1, Acq 7); (1, Rd 0); (1, Wr 0); (1, Rel 7);
    (0, Join 1); (0, Join 2);
    (0, Acq 7); (0, Rd 0); (0, Rel 7) ].

Example C36_nonvacuous_disciplined : wf tr_good /\ disciplined tr_good 0 7 /\ ~ race tr_good 0.
Proof.
  assert (Hw : wf tr_good) by (apply wfb_sound; vm_compute; reflexivity).
  assert (Hd : disciplined tr_good 0 7) by (apply disciplinedb_sound; vm_compute; reflexivity).
  split; [exact Hw|]. split; [exact Hd|]. exact (C36_discipline_sound tr_good 0 7 Hw Hd).
Qed.

(* the double-checked read of the maintenance globals: goroutine 2 reads x before taking the
   lock while goroutine 1 writes it under the lock: well-formed, violates the discipline, and races *)
Definition tr_bad : trace :=
  [ (0, Fork 1); (0, Fork 2);
    (1, Rd 0); (1, Acq 7); (1, Rd 0); (1, Wr 0); (1, Rel 7);
    (2, Rd 0); (2, Acq 7); (2, Rd 0); (2, Rel 7) ].

Example C36_nonvacuous_violation : wf tr_bad /\ disciplinedb tr_bad 0 7 = false /\ race tr_bad 0.
Proof.
  split; [apply wfb_sound; vm_compute; reflexivity|].
  split; [vm_compute; reflexivity|].
  apply raceb_sound. vm_compute. reflexivity.
Qed.

(* the same two goroutines with the unlocked reads removed are ordered by the lock *)
Example C36_nonvacuous_lock_orders : hb tr_bad 5 9 /\ ~ hb tr_bad 5 7.
Proof.
  split.
  - apply hbb_iff. vm_compute. reflexivity.
  - intros H. apply hbb_iff in H. vm_compute in H. discriminate.
Qed.

(* the table checker distinguishes: an unguarded site and a write under a read lock are rejected *)
Local Open Scope string_scope.
Example C36_guarded_rejects :
  guarded "mu" (mkSite "f.go" "F" AWr [("mu", LShared)] "") = false /\
  guarded "mu" (mkSite "f.go" "F" ARd [("other", LExcl)] "") = false /\
  guarded "mu" (mkSite "f.go" "F" ARd [("mu", LShared)] "") = true /\
  guarded_except "mu" ["f.go:F:rd"] [mkSite "f.go" "F" ARd [] ""; mkSite "f.go" "G" ARd [] ""] = false.
Proof. vm_compute. repeat split; reflexivity. Qed.

(* the hypothesis of C36_table_sound is satisfiable: a two-site table (a writer site under the
   exclusive lock, a reader site under the read lock) is realised by tr_good *)
Definition demo_sites : list site :=
  [ mkSite "f.go" "W" AWr [("mu", LExcl)] ""; mkSite "f.go" "R" ARd [("mu", LShared)] "" ].

Example C36_nonvacuous_realises :
  forallb (guarded "mu") demo_sites = true /\ realises (fun _ => 7) demo_sites tr_good 0.
Proof.
  split; [vm_compute; reflexivity|].
  intros n g e Hn Ha.
  do 17 (destruct n as [|n];
    [ cbn in Hn; injection Hn as <- <-; try discriminate Ha;
      first
        [ exists (mkSite "f.go" "W" AWr [("mu", LExcl)] ""); split; [left; reflexivity|];
          split; [reflexivity|]; intros l md [H|[]]; injection H as <- <-; vm_compute; reflexivity
        | exists (mkSite "f.go" "R" ARd [("mu", LShared)] ""); split; [right; left; reflexivity|];
          split; [intros Hw; discriminate Hw|]; intros l md [H|[]]; injection H as <- <-; cbv; auto ]
    | ]).
  destruct n; discriminate Hn.
Qed.

(* C16 — external two-phase participants follow SOP's commit outcome.
   Model: TwoPC.v (sop.SinglePhaseTransaction Begin / Commit / Rollback). Every theorem below holds for
   ANY number of participants and ANY behaviour of SOP's transaction and of each participant (they are
   arbitrary state machines sstep / pstep), hence for every combination of failure positions.
   Vocabulary (TwoPCProofs.v):
     before a b L        a occurs in the call log L and b occurs later
     parts_ev o ok i n   participants i..i+n-1 called once each, in order, with operation o and outcome ok
     all_shape o i n l   l = participants i..i+n-1 called exactly once each, in order, with operation o
     rollback_shape n rb rb = SOP's Rollback followed by the Rollback of every one of the n participants
     commit_shape / begin_shape   the complete list of possible call logs of Commit / Begin *)
From Coq Require Import List Bool Arith Lia.
From SopVerif Require Import TwoPC TwoPCProofs.
Import ListNotations.

Section C16.
  Variables SS PS : Type.
  Variable sstep : SS -> op -> bool * SS.
  Variable pstep : PS -> op -> bool * PS.
  Notation commit := (w_commit SS PS sstep pstep).
  Notation rollback := (w_rollback SS PS sstep pstep).
  Notation begin := (w_begin SS PS sstep pstep).

  (* The complete characterisation of what Commit does: one of four call logs. *)
  Theorem C16_commit_log : forall s ps,
    commit_shape (length ps) (o_log (commit s ps)) (o_ok (commit s ps)).
  Proof. intros s ps. apply (w_commit_spec SS PS sstep pstep s ps). Qed.

  Lemma in_prefix_cases : forall e b k x,
    In e (Ev Sop OP1 b :: parts_ev OP1 true 0 k ++ [x]) ->
    e = Ev Sop OP1 b \/ (exists j, j < k /\ e = Ev (Part j) OP1 true) \/ e = x.
  Proof.
    intros e b k x [H|H]; [left; congruence|]. apply in_app_or in H. destruct H as [H|[H|[]]].
    - right. left. apply parts_ev_In in H. destruct H as [j [Hj He]]. exists j. split; [lia|exact He].
    - right. right. congruence.
  Qed.

  (* No participant's second phase runs unless every first phase succeeded and SOP's own second phase
     succeeded — and they all did so BEFORE it; the only failures in such a log are second phases of
     participants (which Commit ignores by design). *)
  Theorem C16_p2_guard : forall s ps i ok,
    let L := o_log (commit s ps) in
    In (Ev (Part i) OP2 ok) L ->
    o_ok (commit s ps) = true
    /\ before (Ev Sop OP1 true) (Ev Sop OP2 true) L
    /\ (forall j, j < length ps -> before (Ev (Part j) OP1 true) (Ev Sop OP2 true) L)
    /\ before (Ev Sop OP2 true) (Ev (Part i) OP2 ok) L
    /\ (forall e, In e L -> e_ok e = false -> e_op e = OP2 /\ e_who e <> Sop).
  Proof.
    intros s ps i ok L Hin. subst L. destruct (C16_commit_log s ps) as [H|[H|[H|H]]].
    - exfalso. destruct H as [_ [rb [HL Hsh]]]. rewrite HL in Hin. destruct Hin as [Hin|Hin]; [discriminate|].
      apply (rollback_shape_ops _ _ _ Hsh) in Hin. discriminate.
    - exfalso. destruct H as [_ [k [rb [_ [HL Hsh]]]]]. rewrite HL in Hin. apply in_app_or in Hin. destruct Hin as [Hin|Hin].
      + apply in_prefix_cases in Hin. destruct Hin as [Hin|[[j [_ Hin]]|Hin]]; discriminate.
      + apply (rollback_shape_ops _ _ _ Hsh) in Hin. discriminate.
    - exfalso. destruct H as [_ [rb [HL Hsh]]]. rewrite HL in Hin. apply in_app_or in Hin. destruct Hin as [Hin|Hin].
      + apply in_prefix_cases in Hin. destruct Hin as [Hin|[[j [_ Hin]]|Hin]]; discriminate.
      + apply (rollback_shape_ops _ _ _ Hsh) in Hin. discriminate.
    - destruct H as [Hok [l2 [HL Hsh]]]. rewrite HL in *. split; [exact Hok|].
      set (P := parts_ev OP1 true 0 (length ps)) in *.
      assert (Hl2 : In (Ev (Part i) OP2 ok) l2).
      { destruct Hin as [Hin|Hin]; [discriminate|]. apply in_app_or in Hin. destruct Hin as [Hin|[Hin|Hin]]; [|discriminate|exact Hin].
        apply parts_ev_In in Hin. destruct Hin as [j [_ Hin]]. discriminate. }
      split; [exists [], P, l2; reflexivity|]. split.
      { intros j Hj. assert (Hp : In (Ev (Part j) OP1 true) P) by (apply parts_ev_In; exists j; split; [lia|reflexivity]).
        apply in_split in Hp. destruct Hp as [u [v Hp]]. exists (Ev Sop OP1 true :: u), v, l2. rewrite Hp.
        cbn [app]. rewrite <- app_assoc. reflexivity. }
      split.
      { replace (Ev Sop OP1 true :: P ++ Ev Sop OP2 true :: l2) with ((Ev Sop OP1 true :: P ++ [Ev Sop OP2 true]) ++ l2)
          by (cbn [app]; rewrite <- app_assoc; reflexivity).
        apply before_intro; [|exact Hl2]. right. apply in_or_app. right. left. reflexivity. }
      intros e He Hf. destruct He as [He|He]; [subst; discriminate|]. apply in_app_or in He. destruct He as [He|[He|He]].
      + apply parts_ev_In in He. destruct He as [j [_ He]]. subst. discriminate.
      + subst. discriminate.
      + destruct (all_shape_op _ _ _ _ _ Hsh He) as [Ho [j [_ Hw]]]. split; [exact Ho|]. rewrite Hw. discriminate.
  Qed.

  (* If anything fails before that (SOP's first phase, a participant's first phase, SOP's second phase):
     Commit reports an error, SOP's Rollback is called and every participant is asked to roll back, all
     AFTER the failure; no participant's second phase runs and SOP's second phase has not succeeded. *)
  Theorem C16_rollback_fanout : forall s ps,
    let L := o_log (commit s ps) in
    o_ok (commit s ps) = false ->
    exists f, In f L /\ e_ok f = false /\ (e_op f = OP1 \/ (e_op f = OP2 /\ e_who f = Sop))
      /\ (exists okr, before f (Ev Sop ORollback okr) L)
      /\ (forall j, j < length ps -> exists okj, before f (Ev (Part j) ORollback okj) L)
      /\ (forall i ok, ~ In (Ev (Part i) OP2 ok) L)
      /\ ~ In (Ev Sop OP2 true) L.
  Proof.
    intros s ps L Hok.
    assert (Hno : forall i ok, ~ In (Ev (Part i) OP2 ok) L).
    { intros i ok Hin. destruct (C16_p2_guard s ps i ok Hin) as [H _]. congruence. }
    subst L. destruct (C16_commit_log s ps) as [H|[H|[H|H]]].
    - destruct H as [_ [rb [HL Hsh]]]. exists (Ev Sop OP1 false). rewrite HL in *.
      split; [left; reflexivity|]. split; [reflexivity|]. split; [left; reflexivity|]. split.
      { destruct (rollback_shape_sop _ _ Hsh) as [okr Hr]. exists okr. apply before_intro; [left; reflexivity|exact Hr]. }
      split.
      { intros j Hj. destruct (rollback_shape_part _ _ j Hsh Hj) as [okj Hr]. exists okj. apply before_intro; [left; reflexivity|exact Hr]. }
      split; [exact Hno|]. intros [Hin|Hin]; [discriminate|]. apply (rollback_shape_ops _ _ _ Hsh) in Hin. discriminate.
    - destruct H as [_ [k [rb [Hk [HL Hsh]]]]]. exists (Ev (Part k) OP1 false). rewrite HL in *.
      assert (Hf : In (Ev (Part k) OP1 false) (Ev Sop OP1 true :: parts_ev OP1 true 0 k ++ [Ev (Part k) OP1 false]))
        by (right; apply in_or_app; right; left; reflexivity).
      split; [apply in_or_app; left; exact Hf|]. split; [reflexivity|]. split; [left; reflexivity|]. split.
      { destruct (rollback_shape_sop _ _ Hsh) as [okr Hr]. exists okr. apply before_intro; assumption. }
      split.
      { intros j Hj. destruct (rollback_shape_part _ _ j Hsh Hj) as [okj Hr]. exists okj. apply before_intro; assumption. }
      split; [exact Hno|]. intro Hin. apply in_app_or in Hin. destruct Hin as [Hin|Hin].
      + apply in_prefix_cases in Hin. destruct Hin as [Hin|[[j [_ Hin]]|Hin]]; discriminate.
      + apply (rollback_shape_ops _ _ _ Hsh) in Hin. discriminate.
    - destruct H as [_ [rb [HL Hsh]]]. exists (Ev Sop OP2 false). rewrite HL in *.
      assert (Hf : In (Ev Sop OP2 false) (Ev Sop OP1 true :: parts_ev OP1 true 0 (length ps) ++ [Ev Sop OP2 false]))
        by (right; apply in_or_app; right; left; reflexivity).
      split; [apply in_or_app; left; exact Hf|]. split; [reflexivity|]. split; [right; split; reflexivity|]. split.
      { destruct (rollback_shape_sop _ _ Hsh) as [okr Hr]. exists okr. apply before_intro; assumption. }
      split.
      { intros j Hj. destruct (rollback_shape_part _ _ j Hsh Hj) as [okj Hr]. exists okj. apply before_intro; assumption. }
      split; [exact Hno|]. intro Hin. apply in_app_or in Hin. destruct Hin as [Hin|Hin].
      + apply in_prefix_cases in Hin. destruct Hin as [Hin|[[j [_ Hin]]|Hin]]; discriminate.
      + apply (rollback_shape_ops _ _ _ Hsh) in Hin. discriminate.
    - destruct H as [Ht _]. congruence.
  Qed.

  (* Commit fails exactly when a first phase or SOP's second phase fails; when it succeeds every
     participant's second phase has run exactly once and nobody was rolled back. *)
  Theorem C16_commit_outcome : forall s ps,
    let L := o_log (commit s ps) in
    (o_ok (commit s ps) = false <->
       exists f, In f L /\ e_ok f = false /\ (e_op f = OP1 \/ (e_op f = OP2 /\ e_who f = Sop))) /\
    (o_ok (commit s ps) = true ->
       (exists l2, L = Ev Sop OP1 true :: parts_ev OP1 true 0 (length ps) ++ Ev Sop OP2 true :: l2
                   /\ all_shape OP2 0 (length ps) l2)
       /\ forall e, In e L -> e_op e <> ORollback).
  Proof.
    intros s ps L. split; [split|].
    - intro Hok. destruct (C16_rollback_fanout s ps Hok) as [f [H1 [H2 [H3 _]]]]. exists f. auto.
    - intros [f [Hin [Hf Hop]]]. destruct (o_ok (commit s ps)) eqn:Hok; [|reflexivity]. exfalso.
      subst L. destruct (C16_commit_log s ps) as [H|[H|[H|H]]]; try (destruct H as [H _]; congruence).
      destruct H as [_ [l2 [HL Hsh]]]. rewrite HL in Hin.
      destruct Hin as [Hin|Hin]; [subst; discriminate|]. apply in_app_or in Hin. destruct Hin as [Hin|[Hin|Hin]].
      + apply parts_ev_In in Hin. destruct Hin as [j [_ Hin]]. subst. discriminate.
      + subst. discriminate.
      + destruct (all_shape_op _ _ _ _ _ Hsh Hin) as [Ho [j [_ Hw]]]. destruct Hop as [Hop|[_ Hop]]; congruence.
    - intro Hok. subst L. destruct (C16_commit_log s ps) as [H|[H|[H|H]]]; try (destruct H as [H _]; congruence).
      destruct H as [_ [l2 [HL Hsh]]]. split; [exists l2; split; assumption|]. rewrite HL.
      intros e Hin. destruct Hin as [Hin|Hin]; [subst; discriminate|]. apply in_app_or in Hin. destruct Hin as [Hin|[Hin|Hin]].
      + apply parts_ev_In in Hin. destruct Hin as [j [_ Hin]]. subst. discriminate.
      + subst. discriminate.
      + destruct (all_shape_op _ _ _ _ _ Hsh Hin) as [Ho _]. congruence.
  Qed.

  (* Rollback itself reaches SOP and every participant exactly once, in order, whichever rollbacks fail;
     it reports success exactly when all of them succeeded. *)
  Theorem C16_rollback_reaches_all : forall s ps,
    rollback_shape (length ps) (o_log (rollback s ps)) /\
    (o_ok (rollback s ps) = true <-> Forall (fun e => e_ok e = true) (o_log (rollback s ps))).
  Proof. intros s ps. destruct (w_rollback_spec SS PS sstep pstep s ps) as [H1 [_ [_ H2]]]. split; assumption. Qed.

  (* Begin: the complete list of call logs ... *)
  Theorem C16_begin_log : forall s ps,
    begin_shape (length ps) (o_log (begin s ps)) (o_ok (begin s ps)) /\ length (o_parts (begin s ps)) = length ps.
  Proof. intros s ps. destruct (w_begin_spec SS PS sstep pstep s ps) as [H1 [H2 _]]. split; assumption. Qed.

  (* ... none of which contains a Rollback: when a participant's Begin fails, SOP's transaction and the
     participants before it have begun and NOBODY is asked to roll back (suspect S16, decided: the
     statement "if anything fails before that ... every participant is asked to roll back" is false
     for failures in Begin). *)
  Theorem C16_begin_failure_no_fanout : forall s ps k,
    let L := o_log (begin s ps) in
    In (Ev (Part k) OBegin false) L ->
    o_ok (begin s ps) = false
    /\ In (Ev Sop OBegin true) L
    /\ (forall j, j < k -> In (Ev (Part j) OBegin true) L)
    /\ (forall e, In e L -> e_op e = OBegin).
  Proof.
    intros s ps k L Hin. subst L. destruct (C16_begin_log s ps) as [[H|[H|H]] _].
    - exfalso. destruct H as [_ HL]. rewrite HL in Hin. destruct Hin as [Hin|Hin]; [discriminate|].
      apply parts_ev_In in Hin. destruct Hin as [j [_ Hin]]. discriminate.
    - exfalso. destruct H as [_ HL]. rewrite HL in Hin. destruct Hin as [Hin|[]]. discriminate.
    - destruct H as [Hok [k' [Hk HL]]]. rewrite HL in *.
      assert (k = k').
      { destruct Hin as [Hin|Hin]; [discriminate|]. apply in_app_or in Hin. destruct Hin as [Hin|[Hin|[]]].
        - apply parts_ev_In in Hin. destruct Hin as [j [_ Hin]]. discriminate.
        - congruence. }
      subst k'. split; [exact Hok|]. split; [left; reflexivity|]. split.
      + intros j Hj. right. apply in_or_app. left. apply parts_ev_In. exists j. split; [lia|reflexivity].
      + intros e He. destruct He as [He|He]; [subst; reflexivity|]. apply in_app_or in He. destruct He as [He|[He|[]]].
        * apply parts_ev_In in He. destruct He as [j [_ He]]. subst. reflexivity.
        * subst. reflexivity.
  Qed.

  (* The sessions of run_session are just these pieces glued: under the hypothesis that Begin succeeded
     (which excludes exactly the refuting pattern) the log of the session is Begin's log followed by the
     log of Commit over the same n participants, to which C16_p2_guard / C16_rollback_fanout apply; and a
     caller who answers a failed Begin with Rollback does reach SOP and every participant. *)
  Theorem C16_session_partial : forall cleanup s ps,
    let b := begin s ps in
    (o_ok b = true ->
       fst (fst (fst (run_session SS PS sstep pstep SCommit cleanup s ps)))
         = o_log b ++ o_log (commit (o_sop b) (o_parts b))
       /\ length (o_parts b) = length ps) /\
    (o_ok b = false ->
       fst (fst (fst (run_session SS PS sstep pstep SCommit true s ps)))
         = o_log b ++ o_log (rollback (o_sop b) (o_parts b))
       /\ rollback_shape (length ps) (o_log (rollback (o_sop b) (o_parts b)))).
  Proof.
    intros cleanup s ps b. destruct (C16_begin_log s ps) as [_ Hlen]. fold b in Hlen. split; intro Hok.
    - unfold run_session. fold b. rewrite Hok. cbn [fst]. split; [reflexivity|exact Hlen].
    - unfold run_session. fold b. rewrite Hok. cbn [fst]. split; [reflexivity|].
      rewrite <- Hlen. apply C16_rollback_reaches_all.
  Qed.
End C16.

Print Assumptions C16_commit_log.
Print Assumptions C16_p2_guard.
Print Assumptions C16_rollback_fanout.
Print Assumptions C16_commit_outcome.
Print Assumptions C16_rollback_reaches_all.
Print Assumptions C16_begin_log.
Print Assumptions C16_begin_failure_no_fanout.
Print Assumptions C16_session_partial.

(* SOP's own outcome, with the phase state machine of common.Transaction as SOP's participant and any
   participants: after a Commit that reports an error the transaction has ended without being committed
   (its Rollback has run), after a successful Commit it is committed. Excluded: a second phase that
   commits and then reports failure, and a Rollback that is not executed at all (faults of the test
   decorator that no real transaction has). *)
Theorem C16_sop_outcome : forall (PS : Type) (pstep : PS -> op -> bool * PS) sc ps committed0,
  sf_p2 sc <> FAfter -> sf_rollback sc <> FBefore ->
  let r := w_commit sop_state PS lifecycle pstep (SopState Begun committed0 sc) ps in
  s_phase (o_sop r) = Done /\
  (o_ok r = true -> s_committed (o_sop r) = true) /\
  (o_ok r = false -> s_committed (o_sop r) = committed0).
Proof.
  intros PS pstep sc ps c0 H2 Hr r. subst r. unfold w_commit, fail_with, w_rollback.
  destruct sc as [fb f1 f2 fr]. cbn [sf_p2 sf_rollback] in H2, Hr.
  destruct (until_fail PS pstep OP1 0 ps) as [[l1 okp] ps1] eqn:Eu.
  destruct f1, okp, f2, fr; try congruence; cbn -[for_all until_fail];
    rewrite ?Eu; cbn -[for_all until_fail];
    repeat match goal with
    | |- context [for_all ?a ?b ?c ?d ?e] => destruct (for_all a b c d e) as [[? ?] ?]
    end; cbn; repeat split; intros; congruence.
Qed.
Print Assumptions C16_sop_outcome.

(* The refutation on the faithful instance: two well-behaved participants except that the second one's
   Begin fails. Begin returns an error, SOP's transaction and participant 0 are left begun, no Rollback
   is issued (reproduced on the implementation: finding begin-failure-no-rollback-fanout). *)
Definition ok_part : pscript := PScript false false false false.
Definition no_faults : sscript := SScript FNone FNone FNone FNone.

Theorem C16_begin_fanout_refuted :
  exists sc ps,
    let '(log, results, s, _) := run_scripted SCommit false sc ps in
    results = [false]
    /\ In (Ev Sop OBegin true) log /\ In (Ev (Part 0) OBegin true) log
    /\ (forall e, In e log -> e_op e <> ORollback)
    /\ has_begun (s_phase s) = true.
Proof.
  exists no_faults, [ok_part; PScript true false false false]. vm_compute.
  repeat split; auto. intros e [H|[H|[H|[]]]]; subst; discriminate.
Qed.
Print Assumptions C16_begin_fanout_refuted.

(* ------------------------------------------------------------------ non-vacuity *)
Example C16_nonvacuous :
  (* a commit over three participants that succeeds although two second phases fail *)
  (let '(log, results, s, _) := run_scripted SCommit false no_faults [ok_part; PScript false false true false; PScript false false true true] in
   results = [true; true] /\ s_committed s = true /\ length log = 12) /\
  (* the second participant's first phase fails: everybody is rolled back, even though a rollback fails *)
  (let '(log, results, s, _) := run_scripted SCommit false no_faults [PScript false false false true; PScript false true false false; ok_part] in
   results = [true; false] /\ s_committed s = false /\ s_phase s = Done
   /\ log = [Ev Sop OBegin true; Ev (Part 0) OBegin true; Ev (Part 1) OBegin true; Ev (Part 2) OBegin true;
             Ev Sop OP1 true; Ev (Part 0) OP1 true; Ev (Part 1) OP1 false;
             Ev Sop ORollback true; Ev (Part 0) ORollback false; Ev (Part 1) ORollback true; Ev (Part 2) ORollback true]).
Proof. vm_compute. repeat split. Qed.

(* C16 — external two-phase participants follow SOP's commit outcome.
   Model: TwoPC.v (sop.SinglePhaseTransaction Begin / Commit / Rollback). Every theorem below holds for
   ANY number of participants and ANY behaviour of SOP's transaction and of each participant (they are
   arbitrary state machines sstep / pstep), hence for every combination of failure positions.
   Proofs: TwoPCProofs.v (induction on the participant list). Vocabulary (TwoPCProofs.v):
     before a b L        a occurs in the call log L and b occurs later
     parts_ev o ok i n   participants i..i+n-1 called once each, in order, with operation o and outcome ok
     all_shape o i n l   l = participants i..i+n-1 called exactly once each, in order, with operation o
     rollback_shape n rb rb = SOP's Rollback followed by the Rollback of each of the participants 0..n-1
     commit_shape / begin_shape   the complete list of possible call logs of Commit / Begin *)
From Coq Require Import List Bool Arith Lia.
From SopVerif Require Import TwoPC TwoPCProofs.
Import ListNotations.

(* The complete characterisation of what Commit does: one of four call logs. *)
Theorem C16_commit_log : forall (SS PS : Type) (sstep : SS -> op -> bool * SS) (pstep : PS -> op -> bool * PS) s ps,
  commit_shape (length ps) (o_log (w_commit SS PS sstep pstep s ps)) (o_ok (w_commit SS PS sstep pstep s ps)).
Proof. exact c16_commit_log. Qed.
Print Assumptions C16_commit_log.

(* No participant's second phase runs unless every first phase succeeded and SOP's own second phase
   succeeded — and they all did so BEFORE it; the only failures in such a log are second phases of
   participants (which Commit ignores by design). *)
Theorem C16_p2_guard : forall (SS PS : Type) (sstep : SS -> op -> bool * SS) (pstep : PS -> op -> bool * PS) s ps i ok,
  let L := o_log (w_commit SS PS sstep pstep s ps) in
  In (Ev (Part i) OP2 ok) L ->
  o_ok (w_commit SS PS sstep pstep s ps) = true
  /\ before (Ev Sop OP1 true) (Ev Sop OP2 true) L
  /\ (forall j, j < length ps -> before (Ev (Part j) OP1 true) (Ev Sop OP2 true) L)
  /\ before (Ev Sop OP2 true) (Ev (Part i) OP2 ok) L
  /\ (forall e, In e L -> e_ok e = false -> e_op e = OP2 /\ e_who e <> Sop).
Proof. exact c16_p2_guard. Qed.
Print Assumptions C16_p2_guard.

(* If anything fails before that (SOP's first phase, a participant's first phase, SOP's second phase):
   Commit reports an error, SOP's Rollback is called and every participant is asked to roll back, all
   AFTER the failure; no participant's second phase runs and SOP's second phase has not succeeded. *)
Theorem C16_rollback_fanout : forall (SS PS : Type) (sstep : SS -> op -> bool * SS) (pstep : PS -> op -> bool * PS) s ps,
  let L := o_log (w_commit SS PS sstep pstep s ps) in
  o_ok (w_commit SS PS sstep pstep s ps) = false ->
  exists f, In f L /\ e_ok f = false /\ (e_op f = OP1 \/ (e_op f = OP2 /\ e_who f = Sop))
    /\ (exists okr, before f (Ev Sop ORollback okr) L)
    /\ (forall j, j < length ps -> exists okj, before f (Ev (Part j) ORollback okj) L)
    /\ (forall i ok, ~ In (Ev (Part i) OP2 ok) L)
    /\ ~ In (Ev Sop OP2 true) L.
Proof. exact c16_rollback_fanout. Qed.
Print Assumptions C16_rollback_fanout.

(* Commit fails exactly when a first phase or SOP's second phase fails; when it succeeds every
   participant's second phase has run exactly once and nobody was rolled back. *)
Theorem C16_commit_outcome : forall (SS PS : Type) (sstep : SS -> op -> bool * SS) (pstep : PS -> op -> bool * PS) s ps,
  let L := o_log (w_commit SS PS sstep pstep s ps) in
  (o_ok (w_commit SS PS sstep pstep s ps) = false <->
     exists f, In f L /\ e_ok f = false /\ (e_op f = OP1 \/ (e_op f = OP2 /\ e_who f = Sop))) /\
  (o_ok (w_commit SS PS sstep pstep s ps) = true ->
     (exists l2, L = Ev Sop OP1 true :: parts_ev OP1 true 0 (length ps) ++ Ev Sop OP2 true :: l2
                 /\ all_shape OP2 0 (length ps) l2)
     /\ forall e, In e L -> e_op e <> ORollback).
Proof. exact c16_commit_outcome. Qed.
Print Assumptions C16_commit_outcome.

(* Rollback itself reaches SOP and every participant exactly once, in order, whichever rollbacks fail;
   it reports success exactly when all of them succeeded. *)
Theorem C16_rollback_reaches_all : forall (SS PS : Type) (sstep : SS -> op -> bool * SS) (pstep : PS -> op -> bool * PS) s ps,
  rollback_shape (length ps) (o_log (w_rollback SS PS sstep pstep s ps)) /\
  (o_ok (w_rollback SS PS sstep pstep s ps) = true <->
   Forall (fun e => e_ok e = true) (o_log (w_rollback SS PS sstep pstep s ps))).
Proof. exact c16_rollback_reaches_all. Qed.
Print Assumptions C16_rollback_reaches_all.

(* Begin: the complete list of call logs — all succeed; SOP's own Begin fails and nothing else is
   called; participant k's Begin fails and then SOP's transaction and the participants 0..k-1 are rolled back. *)
Theorem C16_begin_log : forall (SS PS : Type) (sstep : SS -> op -> bool * SS) (pstep : PS -> op -> bool * PS) s ps,
  begin_shape (length ps) (o_log (w_begin SS PS sstep pstep s ps)) (o_ok (w_begin SS PS sstep pstep s ps))
  /\ length (o_parts (w_begin SS PS sstep pstep s ps)) = length ps.
Proof. exact c16_begin_log. Qed.
Print Assumptions C16_begin_log.

(* A failure in Begin is also "anything fails before that": when participant k's Begin fails, Begin
   reports the error, and AFTER the failure SOP's transaction and every participant that had begun
   (0..k-1) are asked to roll back; the participants from k on never began and receive no other call.
   (Was refuted before the repair of SinglePhaseTransaction.Begin: finding begin-failure-no-rollback-fanout.) *)
Theorem C16_begin_fanout : forall (SS PS : Type) (sstep : SS -> op -> bool * SS) (pstep : PS -> op -> bool * PS) s ps k,
  let L := o_log (w_begin SS PS sstep pstep s ps) in
  let f := Ev (Part k) OBegin false in
  In f L ->
  o_ok (w_begin SS PS sstep pstep s ps) = false
  /\ In (Ev Sop OBegin true) L
  /\ (exists okr, before f (Ev Sop ORollback okr) L)
  /\ (forall j, j < k -> In (Ev (Part j) OBegin true) L /\ exists okj, before f (Ev (Part j) ORollback okj) L)
  /\ (forall j o ok, k <= j -> In (Ev (Part j) o ok) L -> Ev (Part j) o ok = f).
Proof. exact c16_begin_fanout. Qed.
Print Assumptions C16_begin_fanout.

(* When SOP's own Begin fails nothing has begun and nothing else is called. *)
Theorem C16_begin_sop_failure : forall (SS PS : Type) (sstep : SS -> op -> bool * SS) (pstep : PS -> op -> bool * PS) s ps,
  In (Ev Sop OBegin false) (o_log (w_begin SS PS sstep pstep s ps)) ->
  o_ok (w_begin SS PS sstep pstep s ps) = false /\ o_log (w_begin SS PS sstep pstep s ps) = [Ev Sop OBegin false].
Proof. exact c16_begin_sop_failure. Qed.
Print Assumptions C16_begin_sop_failure.

(* The whole session Begin; Commit (with or without an extra Rollback by the caller after a failed
   Begin), no hypothesis on where the failure is: whenever a top-level call reports an error, SOP's
   transaction and every participant that had begun successfully are asked to roll back afterwards. *)
Theorem C16_session : forall (SS PS : Type) (sstep : SS -> op -> bool * SS) (pstep : PS -> op -> bool * PS) cleanup s ps w,
  let '(L, res, _, _) := run_session SS PS sstep pstep SCommit cleanup s ps in
  In false res ->
  In (Ev w OBegin true) (o_log (w_begin SS PS sstep pstep s ps)) ->
  exists ok, before (Ev w OBegin true) (Ev w ORollback ok) L.
Proof. exact c16_session. Qed.
Print Assumptions C16_session.

(* SOP's own outcome, with the phase state machine of common.Transaction as SOP's participant and any
   participants: after a Commit that reports an error the transaction has ended without being committed
   (its Rollback has run), after a successful Commit it is committed. Excluded: a second phase that
   commits and then reports failure, and a Rollback that is not executed at all (faults of the test
   decorator that no real transaction has). *)
Theorem C16_sop_outcome : forall (PS : Type) (pstep : PS -> op -> bool * PS) sc ps committed0,
  sf_p2 sc <> FAfter -> sf_rollback sc <> FBefore ->
  let r := w_commit sop_state PS lifecycle pstep (SopState Begun committed0 sc) ps in
  s_phase (o_sop r) = Done /\
  (o_ok r = true -> s_committed (o_sop r) = true) /\
  (o_ok r = false -> s_committed (o_sop r) = committed0).
Proof. exact c16_sop_outcome. Qed.
Print Assumptions C16_sop_outcome.

(* ... and after a Begin that reports an error SOP's transaction is not left begun (same exclusions:
   a Begin that starts and then reports failure, a Rollback that is not executed). *)
Theorem C16_begin_sop_outcome : forall (PS : Type) (pstep : PS -> op -> bool * PS) sc ps,
  sf_begin sc <> FAfter -> sf_rollback sc <> FBefore ->
  let r := w_begin sop_state PS lifecycle pstep (sop_init sc) ps in
  o_ok r = false -> has_begun (s_phase (o_sop r)) = false /\ s_committed (o_sop r) = false.
Proof. exact c16_begin_sop_outcome. Qed.
Print Assumptions C16_begin_sop_outcome.

(* ------------------------------------------------------------------ non-vacuity *)
Definition ok_part : pscript := PScript false false false false.
Definition no_faults : sscript := SScript FNone FNone FNone FNone.

Example C16_nonvacuous :
  (* a commit over three participants that succeeds although two second phases fail *)
  (let '(log, results, s, _) := run_scripted SCommit false no_faults [ok_part; PScript false false true false; PScript false false true true] in
   results = [true; true] /\ s_committed s = true /\ length log = 12) /\
  (* the second participant's first phase fails: everybody is rolled back, even though a rollback fails *)
  (let '(log, results, s, _) := run_scripted SCommit false no_faults [PScript false false false true; PScript false true false false; ok_part] in
   results = [true; false] /\ s_committed s = false /\ s_phase s = Done
   /\ log = [Ev Sop OBegin true; Ev (Part 0) OBegin true; Ev (Part 1) OBegin true; Ev (Part 2) OBegin true;
             Ev Sop OP1 true; Ev (Part 0) OP1 true; Ev (Part 1) OP1 false;
             Ev Sop ORollback true; Ev (Part 0) ORollback false; Ev (Part 1) ORollback true; Ev (Part 2) ORollback true]) /\
  (* the second participant's Begin fails: SOP's transaction and participant 0 are rolled back, nothing stays begun *)
  (let '(log, results, s, _) := run_scripted SCommit false no_faults [ok_part; PScript true false false false; ok_part] in
   results = [false] /\ has_begun (s_phase s) = false
   /\ log = [Ev Sop OBegin true; Ev (Part 0) OBegin true; Ev (Part 1) OBegin false;
             Ev Sop ORollback true; Ev (Part 0) ORollback true]).
Proof. vm_compute. repeat split. Qed.

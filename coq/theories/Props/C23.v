(* C23 — corrupted registry data is reported, never served.

   Model: BlockIO.v.  fx = false (= reader_in_repo) is readAndRestoreBlock as it is in /repo,
   fx = true the reader of fixes/C23-report-unverifiable-block.patch.  "Corrupted" = the block
   fails the unmarshalData rule (not all-zero and CRC trailer mismatch); whether a given bit flip
   or burst makes a block fail that rule is the CRC's business and is measured by the harness. *)
From Coq Require Import List ZArith NArith Bool.
From SopVerif Require Import Lib.Bytes Gen.Consts BlockIO BlockIOProofs BlockIOWitness.
Import ListNotations.

(* The full statement is FALSE for the code in /repo: one flipped bit in a stored version field
   (3 -> 7), no backup file: the lookup decodes and returns the flipped record without error and
   an update of ANOTHER record re-checksums the corrupted block, making it valid for ever. *)
Theorem C23_reported_refuted : exists d id ideal,
  length (blk d) = BSZ /\ valid crc32 (blk d) = false /\ cow_valid crc32 (cow d) = false /\
  reg_get crc32 reader_in_repo d id ideal = (d, GFound (w_handle 17 7)) /\
  w_handle 17 7 <> w_handle 17 3 /\
  let r := reg_update crc32 reader_in_repo d (w_id 18) 0 (w_handle 18 1) in
  snd r = UOk /\ valid crc32 (blk (fst r)) = true /\ slot_at (blk (fst r)) w_off = w_handle 17 7.
Proof.
  exists (mkDisk w_corrupt None), (w_id 17), w_off.
  destruct w_corrupt_facts as (Hl & Hv & _). destruct w_update_launders_corrupt as (U1 & U2 & U3 & _).
  split; [exact Hl|]. split; [exact Hv|]. split; [reflexivity|]. split; [exact w_get_serves_corrupt|].
  split; [apply list_eqb_neq; vm_compute; reflexivity|]. cbv zeta. auto.
Qed.
Print Assumptions C23_reported_refuted.

(* What does hold for the code in /repo: a block is served unverified in exactly one situation —
   checksum failed and no valid backup (missing, empty, wrong size or bad checksum) ... *)
Theorem C23_partial_only_pattern : forall crc d, length (blk d) = BSZ ->
  ((exists d' v, read_restore crc reader_in_repo d = (d', ROk v) /\ valid crc v = false) <->
   (valid crc (blk d) = false /\ cow_valid crc (cow d) = false)).
Proof. exact repo_serves_unverified_iff. Qed.
Print Assumptions C23_partial_only_pattern.

(* ... and outside it (valid block, or corrupted block with a valid backup) what is returned is
   checksum-valid, is the stored block resp. the backup, and is what is on disk afterwards *)
Theorem C23_partial : forall crc fx d, length (blk d) = BSZ ->
  (valid crc (blk d) || cow_valid crc (cow d)) = true ->
  exists v d', read_restore crc fx d = (d', ROk v) /\ valid crc v = true /\ blk d' = v /\ length v = BSZ /\
               (valid crc (blk d) = true -> v = blk d) /\ (valid crc (blk d) = false -> cow d = Some v).
Proof. exact read_verified. Qed.
Print Assumptions C23_partial.

(* The full statement for the PATCHED reader: checksum mismatch and no valid backup => the block
   read, the lookup and the update all fail with the corruption error and the disk state (block
   and backup file) is exactly as before: nothing decoded, nothing overwritten. *)
Theorem C23_reported_patched : forall crc d,
  length (blk d) = BSZ -> valid crc (blk d) = false -> cow_valid crc (cow d) = false ->
  read_restore crc true d = (d, RErr ECorrupt) /\
  (forall id ideal, reg_get crc true d id ideal = (d, GErr ECorrupt)) /\
  (forall off data, update_block crc true d off data = (d, UErr ECorrupt)) /\
  (forall id ideal data, reg_update crc true d id ideal data = (d, UErr ECorrupt)).
Proof. exact reported_patched. Qed.
Print Assumptions C23_reported_patched.

(* and the patched reader never hands out a buffer that fails the checksum rule *)
Theorem C23_patched_serves_only_verified : forall crc d d' v,
  read_restore crc true d = (d', ROk v) ->
  valid crc v = true /\ blk d' = v /\ (v = blk d \/ cow d = Some v).
Proof. exact patched_serves_verified. Qed.
Print Assumptions C23_patched_serves_only_verified.

(* non-vacuity: the hypotheses of C23_reported_patched are met by a real corrupted block, with no
   backup and with a backup file that is itself damaged *)
Example C23_nonvacuous :
  length w_corrupt = BSZ /\ valid crc32 w_corrupt = false /\
  cow_valid crc32 None = false /\ cow_valid crc32 (Some (firstn 100 w_old)) = false /\
  cow_valid crc32 (Some w_corrupt) = false /\ cow_valid crc32 (Some w_old) = true.
Proof. destruct w_corrupt_facts as (Hl & Hv & _). repeat split; auto; vm_compute; reflexivity. Qed.

(* C21 — the on-disk registry behaves as a map from id to handle.
   Model: Hashmap.v (transcription of fs/hashmap.go, hashmap.fileregion.go, registrymap.go, registry.go
   with cold lookups). Specification: a finite map (spec_add / spec_set / spec_remove / spec_get).
   The full statement is FALSE of the code (C21_*_refuted; reproduced on the implementation, see
   findings/C21.json); it holds for every history outside one exactly characterised pattern
   (C21_map_partial, C21_hazard_is_exact). *)
From Coq Require Import List ZArith NArith Bool Lia.
From SopVerif Require Import Lib.Bytes Gen.Consts Gen.HandleCodec Layout Hashmap HashmapProofs.
Import ListNotations.
Local Open Scope Z_scope.

(* ------------------------------------------------------------------ what holds *)

(* Map refinement for ALL op sequences (any length, any ids, any hash modulus, full blocks, any number
   of segment files) in which [hazard_free] holds, i.e.
     - no Add/Update/UpdateNoLocks/Remove names an id that is stored while an EMPTY slot precedes its
       record in the id's scan order (ideal slot, slots 0..65, next segment) at that moment;
     - UpdateNoLocks with several handles names stored ids only (it resolves all slots before writing);
     - the 1000-segment-file limit is not hit.
   Every API result equals the map's, the invariant holds at the end (no id in two slots, every record in
   the block its id hashes to), and every cold lookup returns exactly what the map holds. *)
Theorem C21_map_partial : forall hm ops, 0 < hm -> Forall wf_op ops -> hazard_free hm [] ops = true ->
  snd (run hm [] ops) = snd (spec_run aempty ops) /\
  Inv hm (fst (run hm [] ops)) /\
  forall id, wf_id id -> lookup hm (fst (run hm [] ops)) id = fst (spec_run aempty ops) id.
Proof. exact map_partial. Qed.
Print Assumptions C21_map_partial.

(* the same from any state that satisfies the invariant, the map being the state's own content *)
Theorem C21_run_partial : forall hm t ops, 0 < hm -> Inv hm t -> Forall wf_op ops -> hazard_free hm t ops = true ->
  snd (run hm t ops) = snd (spec_run (lookup hm t) ops) /\
  Inv hm (fst (run hm t ops)) /\
  forall id, wf_id id -> lookup hm (fst (run hm t ops)) id = fst (spec_run (lookup hm t) ops) id.
Proof. exact run_partial. Qed.
Print Assumptions C21_run_partial.

(* "a lookup returns exactly the last written handle": after Update of h (h's id not in the hazardous
   position), the lookup of that id gives h and every other id is unaffected *)
Theorem C21_lookup_last_written_partial : forall hm t h, 0 < hm -> Inv hm t -> wf_h h ->
  hazard hm t (LogicalID h) = false -> no_maxseg (snd (rm_set hm t [h])) = true ->
  let t' := fst (step hm t (Update [h])) in
  snd (step hm t (Update [h])) = RDone None /\ Inv hm t' /\
  lookup hm t' (LogicalID h) = Some h /\
  forall id, wf_id id -> id <> LogicalID h -> lookup hm t' id = lookup hm t id.
Proof.
  intros hm t h Hm HI Hw Hhz Hcap. cbv zeta.
  assert (op_ok hm t (Update [h]) = true) as Hok.
  { cbn [op_ok update_ok]. rewrite Hhz. cbn [negb andb]. destruct (rm_set hm t [h]) as [t1 [e|]]; [exact Hcap|reflexivity]. }
  destruct (step_partial hm t (Update [h]) Hm HI (Forall_cons _ Hw (Forall_nil _)) Hok) as (He & HI1 & Hl).
  split; [rewrite He; reflexivity|]. split; [exact HI1|]. split.
  - rewrite (Hl _ Hw). apply (aset_same (lookup hm t) h).
  - intros id Hid Hne. rewrite (Hl id Hid). apply (aset_other (lookup hm t) h id Hne).
Qed.
Print Assumptions C21_lookup_last_written_partial.

(* "removing a present id succeeds" and "nothing for absent ones": a stored id that is not in the
   hazardous position is removed with success, is absent afterwards, nothing else changes *)
Theorem C21_remove_present_succeeds_partial : forall hm t id c, 0 < hm -> Inv hm t -> wf_id id ->
  hazard hm t id = false -> lookup hm t id = Some c ->
  let t' := fst (step hm t (Remove [id])) in
  snd (step hm t (Remove [id])) = RDone None /\ Inv hm t' /\
  lookup hm t' id = None /\
  forall id', wf_id id' -> id' <> id -> lookup hm t' id' = lookup hm t id'.
Proof.
  intros hm t id c Hm HI Hw Hhz Hl. cbv zeta.
  assert (no_maxseg (snd (rm_remove hm t [id])) = true) as Hcap.
  { pose proof (hazard_safe hm t id Hm HI Hhz) as Hsafe.
    destruct (lookup_some hm t id c Hm Hl) as (p & Hv & Hh & _).
    unfold rm_remove. cbn [find_file_region]. unfold find_w. rewrite (Hsafe p Hv Hh). cbn [option_map remove_check].
    destruct Hh as [Hz Hlid]. unfold frd_handle. rewrite Hz. rewrite h_is_empty_wf by (rewrite Hlid; exact Hw).
    rewrite Hlid, uuid_eqb_refl. reflexivity. }
  assert (op_ok hm t (Remove [id]) = true) as Hok.
  { cbn [op_ok forallb]. rewrite Hhz, Hcap. reflexivity. }
  destruct (step_partial hm t (Remove [id]) Hm HI (Forall_cons _ Hw (Forall_nil _)) Hok) as (He & HI1 & Hlk).
  assert (spec_step (lookup hm t) (Remove [id]) = (adel (lookup hm t) id, RDone None)) as Es.
  { cbn [spec_step]. unfold spec_remove. cbn [forallb]. rewrite Hl. reflexivity. }
  rewrite Es in *. cbn [fst snd] in *.
  split; [exact He|]. split; [exact HI1|]. split.
  - rewrite (Hlk id Hw). apply adel_same.
  - intros id' Hid Hne. rewrite (Hlk id' Hid). apply adel_other. exact Hne.
Qed.
Print Assumptions C21_remove_present_succeeds_partial.

(* "a removed id never reappears": an absent id stays absent through every hazard-free history that
   does not add or update it *)
Theorem C21_removed_never_reappears_partial : forall hm t ops id, 0 < hm -> Inv hm t -> Forall wf_op ops ->
  hazard_free hm t ops = true -> wf_id id -> lookup hm t id = None ->
  (forall o, In o ops -> ~ In id (writes o)) ->
  lookup hm (fst (run hm t ops)) id = None.
Proof.
  intros hm t ops id Hm HI Hw Hok Hid Hn Hnot.
  destruct (run_partial hm t ops Hm HI Hw Hok) as (_ & _ & Hl). rewrite (Hl id Hid).
  apply spec_run_none; assumption.
Qed.
Print Assumptions C21_removed_never_reappears_partial.

(* ------------------------------------------------------------------ the excluded pattern is exactly the failing one *)

(* If the hazard holds for a stored id (its record is displaced and an earlier slot of its scan order has
   been vacated) then, from a state satisfying the invariant: the id is visible to lookups, yet Remove
   reports it missing, Update reports success but leaves the id in two slots (the invariant is lost), and
   Add accepts the already stored id. So [hazard] excludes nothing that works. *)
Theorem C21_hazard_is_exact : forall hm t h, 0 < hm -> Inv hm t -> wf_h h -> hazard hm t (LogicalID h) = true ->
  (exists c, lookup hm t (LogicalID h) = Some c) /\
  snd (rm_remove hm t [LogicalID h]) = Some ENotFound /\
  snd (rm_set hm t [h]) = None /\
  (exists p q, p <> q /\ valid_pos hm (fst (rm_set hm t [h])) p /\ valid_pos hm (fst (rm_set hm t [h])) q /\
               holds (fst (rm_set hm t [h])) p (LogicalID h) /\ holds (fst (rm_set hm t [h])) q (LogicalID h)) /\
  snd (find_and_add hm t h) = None.
Proof. exact hazard_breaks. Qed.
Print Assumptions C21_hazard_is_exact.

(* ------------------------------------------------------------------ what does not hold (witnesses by vm_compute) *)

(* Two ids that hash to block 1 (of 2) and ideal slot 5. *)
Definition idX : uuid := [0;0;0;0;0;0;0;1; 0;0;0;0;0;0;0;5]%N.
Definition idY : uuid := [0;0;0;0;0;0;0;3; 0;0;0;0;0;0;0;71]%N.
Definition hOf (id : uuid) (v : Z) : handle := mkHandle id idX nil_uuid false v 0 false.

(* S2: Y is displaced by X, X is removed, Y is updated (the write takes the vacated ideal slot: second
   copy), Y is removed (one copy zeroed): the lookup returns the stale first copy, a map returns nothing. *)
Definition s2_ops : list op :=
  [Add [hOf idX 1]; Add [hOf idY 2]; Remove [idX]; Update [hOf idY 7]; Remove [idY]; Get [idY]].

Theorem C21_map_refuted :
  exists hm ops, 0 < hm /\ Forall wf_op ops /\ snd (run hm [] ops) <> snd (spec_run aempty ops).
Proof.
  exists 2, s2_ops. split; [reflexivity|]. split; [apply wf_opb_ok; reflexivity|].
  vm_compute. intro H. discriminate H.
Qed.
Print Assumptions C21_map_refuted.

(* the removed id reappears: after the successful Remove of Y its lookup still answers *)
Theorem C21_removed_reappears_refuted :
  exists hm ops id, 0 < hm /\ Forall wf_op (ops ++ [Remove [id]]) /\
    snd (step hm (fst (run hm [] ops)) (Remove [id])) = RDone None /\
    lookup hm (fst (run hm [] (ops ++ [Remove [id]]))) id = Some (hOf idY 2).
Proof.
  exists 2, [Add [hOf idX 1]; Add [hOf idY 2]; Remove [idX]; Update [hOf idY 7]], idY.
  split; [reflexivity|]. split; [apply wf_opb_ok; reflexivity|]. split; vm_compute; reflexivity.
Qed.
Print Assumptions C21_removed_reappears_refuted.

(* removing a present id fails *)
Theorem C21_remove_present_refuted :
  exists hm ops id c, 0 < hm /\ Forall wf_op ops /\
    lookup hm (fst (run hm [] ops)) id = Some c /\
    snd (step hm (fst (run hm [] ops)) (Remove [id])) = RDone (Some ENotFound).
Proof.
  exists 2, [Add [hOf idX 1; hOf idY 2]; Remove [idX]], idY, (hOf idY 2).
  split; [reflexivity|]. split; [apply wf_opb_ok; reflexivity|]. split; vm_compute; reflexivity.
Qed.
Print Assumptions C21_remove_present_refuted.

(* the invariant fails: one id in two slots *)
Theorem C21_invariant_refuted :
  exists hm ops, 0 < hm /\ Forall wf_op ops /\ ~ Inv hm (fst (run hm [] ops)).
Proof.
  exists 2, [Add [hOf idX 1]; Add [hOf idY 2]; Remove [idX]; Update [hOf idY 7]].
  split; [reflexivity|]. split; [apply wf_opb_ok; reflexivity|].
  intros (_ & Hu & _). specialize (Hu (0, 1, 5)%nat (0, 1, 0)%nat idY).
  assert ((0, 1, 5)%nat = (0, 1, 0)%nat) as E; [|discriminate E].
  apply Hu; vm_compute; repeat split; auto; try lia.
Qed.
Print Assumptions C21_invariant_refuted.

(* ------------------------------------------------------------------ non-vacuity *)

(* ids with ideal slot 3 of the single block of a modulus-1 table *)
Definition eid (k : N) : uuid := repeat 0%N 8 ++ rev (le_bytes 8 (66 * k + 3)%N).
Definition eh (k : N) (v : Z) : handle := mkHandle (eid k) (eid 1) nil_uuid true v 5 false.
Definition ks (a n : nat) : list N := map N.of_nat (seq a n).

(* 70 colliding ids: the block fills (66), four overflow into a second segment file; updates and removals in
   both segments, a busy Add, a Remove of an absent id, batches: all inside the hypothesis of C21_map_partial *)
Definition overflow_ops : list op :=
  [Add (map (fun k => eh k 1) (ks 1 40)); Add (map (fun k => eh k 2) (ks 41 30));
   UpdateNoLocks [eh 70 3; eh 1 3; eh 67 3]; Update [eh 66 4; eh 68 4];
   Add [eh 5 9]; Remove [eid 99]; Remove [eid 70; eid 69]; Update [eh 70 5];
   Get (map eid (ks 1 71))].

Example C21_partial_nonvacuous :
  Forall wf_op overflow_ops /\ hazard_free 1 [] overflow_ops = true /\
  length (fst (run 1 [] overflow_ops)) = 2%nat /\
  lookup 1 (fst (run 1 [] overflow_ops)) (eid 70) = Some (eh 70 5) /\
  lookup 1 (fst (run 1 [] overflow_ops)) (eid 69) = None /\
  nth 4 (snd (run 1 [] overflow_ops)) (RGot []) = RDone (Some EBusy) /\
  nth 5 (snd (run 1 [] overflow_ops)) (RGot []) = RDone (Some ENotFound).
Proof.
  split; [apply wf_opb_ok; vm_compute; reflexivity|]. repeat split; vm_compute; reflexivity.
Qed.

(* the hazard hypothesis of C21_hazard_is_exact is met by the state before the 4th op of S2 *)
Example C21_hazard_nonvacuous :
  let t := fst (run 2 [] [Add [hOf idX 1]; Add [hOf idY 2]; Remove [idX]]) in
  Inv 2 t /\ hazard 2 t idY = true.
Proof.
  cbv zeta. split; [|vm_compute; reflexivity].
  apply (C21_map_partial 2 [Add [hOf idX 1]; Add [hOf idY 2]; Remove [idX]]);
    [reflexivity|apply wf_opb_ok; reflexivity|vm_compute; reflexivity].
Qed.

(* Why UpdateNoLocks with several handles is restricted to stored ids: all slots are resolved before any
   is written, so two absent ids of one block get the same empty slot and the first handle is lost
   (registryMap.set "updates existing handle records"; every caller in /repo passes stored ids). *)
Example C21_batch_upsert_outside_domain :
  let t := fst (run 2 [] [UpdateNoLocks [hOf idX 1; hOf idY 2]]) in
  snd (run 2 [] [UpdateNoLocks [hOf idX 1; hOf idY 2]]) = [RDone None] /\
  lookup 2 t idX = None /\ lookup 2 t idY = Some (hOf idY 2).
Proof. cbv zeta. repeat split; vm_compute; reflexivity. Qed.

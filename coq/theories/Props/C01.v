(* C01 — a committed transaction's changes appear all-or-nothing across every store.
   Statements are about Proto.run: the commit of common.Transaction over the storage interfaces with an
   injected failure at ANY interface call (fault position f : option nat), for EVERY transaction t
   (node sets of any size over any number of stores) and EVERY well-formed pre-commit state d. *)
From Coq Require Import List ZArith NArith Bool.
From SopVerif Require Import Proto ProtoProofs ProtoSuccess Corr.Proto.
Import ListNotations.
Local Open Scope N_scope.

(* When Commit returns an error (or gives up on a conflict), every node that existed before the commit still
   resolves to the same blob, with the same version, and that blob is still there: the stores read as before. *)
Theorem C01_failed_commit_changes_nothing_visible :
  forall t d f o d' tr', wf_disk d -> W d t -> run t d f = (o, d', tr') -> o <> Committed ->
  forall l h0, lookup (reg d) l = Some h0 ->
    resolve d' l = Some (active h0)
    /\ (exists h, lookup (reg d') l = Some h /\ ver h = ver h0)
    /\ (In (active h0) (blobs d) -> In (active h0) (blobs d')).
Proof. exact failed_commit_preserves_view. Qed.
Print Assumptions C01_failed_commit_changes_nothing_visible.

(* A consistent transaction with no failure commits ... *)
Theorem C01_commit_succeeds :
  forall d t, SW d t -> exists d' tr, run t d None = (Committed, d', tr).
Proof. exact commit_success_outcome. Qed.
Print Assumptions C01_commit_succeeds.

(* ... and then ALL of its changes are visible: every updated node resolves to its new content (version + 1),
   every removed node is gone, every new node resolves to its blob, every other node is untouched, the logs are
   gone and every store's count moved by exactly its delta. *)
Theorem C01_committed_changes_all_visible :
  forall d t d' tr, SW d t -> run t d None = (Committed, d', tr) ->
  (forall l v p, In (l, v, p) (updated t) ->
     resolve d' l = Some p /\ (exists h, lookup (reg d') l = Some h /\ ver h = (v + 1)%Z) /\ In p (blobs d'))
  /\ (forall l v, In (l, v) (removed t) -> lookup (reg d') l = None)
  /\ (forall l, In l (roots t ++ added t) -> resolve d' l = Some l /\ In l (blobs d'))
  /\ (forall l, ~ In l (roots t) -> ~ In l (map (fun x => fst (fst x)) (updated t)) ->
                ~ In l (map fst (removed t)) -> ~ In l (added t) -> lookup (reg d') l = lookup (reg d) l)
  /\ tlog d' = false /\ plog d' = None
  /\ (forall s, count_of d' s = (count_of d s + delta_of (deltas t) s)%Z).
Proof. exact commit_success_view. Qed.
Print Assumptions C01_committed_changes_all_visible.

(* the counts are also untouched by a commit that does not succeed, wherever the failure is injected *)
Theorem C01_failed_commit_keeps_counts :
  forall t d f o d' tr',
  (tracked t = true \/ forall s, delta_of (deltas t) s = 0%Z) ->
  (forall s, delta_of (rb_stores t) s = (- delta_of (deltas t) s)%Z) ->
  run t d f = (o, d', tr') -> o <> Committed -> forall s, count_of d' s = count_of d s.
Proof. exact failed_commit_preserves_counts. Qed.
Print Assumptions C01_failed_commit_keeps_counts.

(* non-vacuity: a transaction with an updated, a removed and an added node, a new root, a value blob and two
   count deltas meets the hypotheses, and its run is computed *)
Example C01_nonvacuous : SW d_ex t_ex.
Proof. exact SW_nonvacuous. Qed.

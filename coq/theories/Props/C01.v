(* C01 — a committed transaction's changes appear all-or-nothing across every store.
   Statements are about Proto.run: the commit of common.Transaction over the storage interfaces with an
   injected failure at ANY interface call (fault position f : option nat), for EVERY transaction t
   (node sets of any size over any number of stores) and EVERY well-formed pre-commit state d. *)
From Coq Require Import List ZArith NArith Bool.
From SopVerif Require Import Proto ProtoProofs.
Import ListNotations.
Local Open Scope N_scope.

(* When Commit returns an error (or gives up on a conflict), every node that existed before the commit still
   resolves to the same blob, with the same version, and that blob is still there: the stores read as before. *)
Theorem C01_failed_commit_changes_nothing_visible :
  forall t d f o d' tr', wf_disk d -> W d t -> run t d f = (o, d', tr') -> o <> Committed ->
  forall l h0, lookup (reg d) l = Some h0 ->
    resolve d' l = Some (active h0)
    /\ (exists h, lookup (reg d') l = Some h /\ ver h = ver h0)
    /\ (In (active h0) (blobs d) -> In (active h0) (blobs d')).
Proof. exact failed_commit_preserves_view. Qed.
Print Assumptions C01_failed_commit_changes_nothing_visible.

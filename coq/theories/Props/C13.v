(* C13 — committing changes never alters or corrupts a store's configuration.
   The patcher modelled is the one REPAIRED by fixes/C13-patch-top-level-key.patch. *)
From Coq Require Import List ZArith NArith Bool Lia.
From SopVerif Require Import Lib.Bytes StoreInfoPatchLib Gen.StoreInfoFields StoreInfoPatch StoreInfoPatchProofs StoreInfoPatchUpdateProofs.
(* the correspondence checker is imported only so that it is part of the cone ./check rebuilds *)
From SopVerif Require Import Corr.C13.
Import ListNotations.
Local Open Scope Z_scope.

Definition in_i64 (z : Z) : Prop := - 2 ^ 63 <= z < 2 ^ 63.

(* Patching "count" or "timestamp" in the marshalled bytes of ANY StoreInfo (any name, description,
   table names, options, relations, custom data; no side condition) yields exactly the bytes
   json.Marshal produces for the same record with the new number. *)
Theorem C13_patch_is_remarshal : forall s v,
  patch_num (ser s) fieldCount v = Some (ser (set_count_timestamp s v (si_timestamp_field s))) /\
  patch_num (ser s) fieldTimestamp v = Some (ser (set_count_timestamp s (si_count_field s) v)).
Proof.
  intros s v. split; rewrite (ser_self s) at 1; [apply patch_count_remarshal|apply patch_timestamp_remarshal].
Qed.
Print Assumptions C13_patch_is_remarshal.

(* One StoreRepository.Update on the file written for s. Fast path: whatever record the caller
   passes, only count and timestamp change. Any path (metadata save requested, store not cached):
   the same, provided the caller's record carries the stored configuration. *)
Theorem C13_update_preserves : forall s cur caller,
  (si_Name cur <> [] /\ si_NeedsMetaDataSave caller = false) \/ same_members_config caller s ->
  update_bytes (ser s) cur caller =
  ser (set_count_timestamp s (si_count_field cur + si_CountDelta caller) (si_timestamp_field caller)).
Proof.
  intros s cur caller H. rewrite (ser_self s) at 1.
  destruct H as [[Hn Hs]|Hc]; [apply update_fast_path; assumption|apply update_any_path; assumption].
Qed.
Print Assumptions C13_update_preserves.

(* Any history of commits (count deltas, timestamps, metadata-save flags) on a store created with
   configuration cfg: the file always holds the marshalling of cfg with the summed count and the
   last timestamp. *)
Theorem C13_history_bytes : forall cfg cs,
  fst (run_commits update_bytes cfg cs) =
  ser (set_count_timestamp cfg (si_count_field cfg + sum_deltas cs) (last_ts (si_timestamp_field cfg) cs)).
Proof. intros. rewrite run_commits_bytes. reflexivity. Qed.
Print Assumptions C13_history_bytes.

Lemma wf_set : forall s c t, wf_storeinfo s -> in_i64 c -> in_i64 t -> wf_storeinfo (set_count_timestamp s c t).
Proof.
  unfold wf_storeinfo, in_i64. intros s c t H Hc Ht. cbn. intuition.
Qed.

(* THE PROPERTY. Reopening = parsing the file. json.Unmarshal is not modelled: it enters as any
   function that inverts json.Marshal on well-formed records (trusted base). Then, for every
   configuration and every history of commits, reopening yields the original configuration with
   the correct count and the last timestamp. *)
Theorem C13_config_preserved :
  forall (parse : list N -> option storeinfo),
  (forall s, wf_storeinfo s -> parse (ser s) = Some s) ->
  forall cfg cs, wf_storeinfo cfg ->
  in_i64 (si_count_field cfg + sum_deltas cs) -> in_i64 (last_ts (si_timestamp_field cfg) cs) ->
  parse (fst (run_commits update_bytes cfg cs)) =
  Some (set_count_timestamp cfg (si_count_field cfg + sum_deltas cs) (last_ts (si_timestamp_field cfg) cs)).
Proof.
  intros parse Hrt cfg cs Hwf Hc Ht. rewrite C13_history_bytes. apply Hrt, wf_set; assumption.
Qed.
Print Assumptions C13_config_preserved.

(* Independent of any parser: the file after the history is byte-identical to what a fresh
   Add of the updated record would have written. *)
Corollary C13_history_equals_fresh_write : forall cfg cs (parse : list N -> option storeinfo),
  parse (fst (run_commits update_bytes cfg cs)) =
  parse (ser (set_count_timestamp cfg (si_count_field cfg + sum_deltas cs) (last_ts (si_timestamp_field cfg) cs))).
Proof. intros. rewrite C13_history_bytes. reflexivity. Qed.
Print Assumptions C13_history_equals_fresh_write.

(* The code BEFORE the repair (patch_num_v0: first occurrence of the quoted name, next ':')
   violates the statement: a store named "count" gets its slot_length overwritten. *)
Definition s4_store : storeinfo :=
  mkStoreInfo [99;111;117;110;116]%N 8 false [100]%N [99;111;117;110;116]%N [99;111;117;110;116]%N (repeat 0%N 16) 3 0 1790036301493
    false false false false (mkStoreCacheConfig 0 false 0 false 0 false 0 false) [] [] true [] [] [] [] [] false [50;46;51;46;51]%N.

Theorem C13_unrepaired_refuted : exists s c,
  wf_storeinfo s /\ update_bytes_v0 (ser s) s (caller_of s c) <>
  ser (set_count_timestamp s (si_count_field s + c_delta c) (c_ts c)).
Proof.
  exists s4_store, (mkCommit 3 1790036301495 false). split.
  - unfold wf_storeinfo, wf_uuid, wf_bytes, wf_byte. cbn. repeat split; try reflexivity; try lia; repeat constructor.
  - vm_compute. discriminate.
Qed.
Print Assumptions C13_unrepaired_refuted.

(* non-vacuity: the same store, three commits, with the repaired patcher *)
Example C13_nonvacuous :
  wf_storeinfo s4_store /\
  fst (run_commits update_bytes s4_store [mkCommit 3 10 false; mkCommit 3 20 true; mkCommit (-1) 30 false]) =
  ser (set_count_timestamp s4_store 8 30).
Proof.
  split.
  - unfold wf_storeinfo, wf_uuid, wf_bytes, wf_byte. cbn. repeat split; try reflexivity; try lia; repeat constructor.
  - vm_compute. reflexivity.
Qed.

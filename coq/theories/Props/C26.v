(* C26 — shard auto-repair restores full redundancy.

   About the model EC.v of the code as repaired by fixes/C25-ec-damaged-shards.patch: getOne with
   RepairCorruptedShards on and all repair writes succeeding (wfail = never). Reed–Solomon and md5 enter as in
   Props/C25.v (rs_contract, md5_detects). Corr.C26 is imported so that the checker is in this file's build cone. *)
From Coq Require Import List NArith Bool Arith Lia.
From SopVerif Require Import EC ECProofs ECRepairProofs Corr.C26.
Import ListNotations.

Section C26.
  Variables (d p : nat) (size : N) (md5 : sdata -> N).
  Variable rs_verify : list (option sdata) -> bool.
  Variable rs_reconstruct : list (option sdata) -> option (list (option sdata)).
  Hypothesis Hd : 1 <= d.
  Hypothesis Hsize : (1 <= size)%N.
  Hypothesis rs_ok : rs_contract d p rs_verify rs_reconstruct.
  Notation getOne := (getOne d size md5 rs_verify rs_reconstruct).

  (* REPAIR. At most p shard files damaged, each damaged one in its content (missing, truncated anywhere,
     content bytes altered, alone or together with its metadata): the repairing read returns the blob and
     afterwards EVERY shard file is intact (readable, genuine content, checksum and pad count).
     _partial: damage confined to the 17 metadata bytes of a shard whose content is genuine is excluded
     (last hypothesis); refuted without it: C26_repair_refuted. *)
  Theorem C26_repair_partial : forall disk,
    length disk = d + p -> damaged d size md5 disk <= p -> md5_detects md5 disk -> first_pad_intact d size disk ->
    (forall s, In s disk -> intact d size md5 s = true \/ data_damaged s = true) ->
    fst (getOne true never disk) = Ok (original d size) /\
    length (snd (getOne true never disk)) = d + p /\
    damaged d size md5 (snd (getOne true never disk)) = 0.
  Proof.
    intros disk Hl Hdm Hm Hpad Hmeta.
    destruct (repair_restores d p size md5 rs_verify rs_reconstruct Hd Hsize rs_ok disk Hl Hdm Hm Hpad Hmeta) as [H1 [H2 H3]].
    split; [exact H1|]. split; [exact H2|].
    unfold damaged. set (l := snd (getOne true never disk)) in *. clearbody l. clear - H3.
    induction l as [|s r IH]; [reflexivity|].
    cbn. rewrite (H3 s (or_introl eq_refl)). cbn. apply IH. intros s' Hs'. apply H3. now right.
  Qed.

  (* … hence p NEW failures of any kind are tolerated: any disk that differs from a fully intact one in at most
     p shard files reads back exactly (pad count of its first readable shard intact, see C25_read_partial) *)
  Theorem C26_then_tolerates_p_failures : forall repaired later repairOn wfail,
    damaged d size md5 repaired = 0 -> length repaired = d + p -> length later = d + p ->
    diff_count dshard_eqb repaired later <= p -> md5_detects md5 later -> first_pad_intact d size later ->
    fst (getOne repairOn wfail later) = Ok (original d size).
  Proof.
    intros a b rep wf H0 Ha Hb Hdiff Hm Hpad.
    apply (repaired_tolerates d p size md5 rs_verify rs_reconstruct Hd Hsize rs_ok a b rep wf); try assumption.
    intros s Hs. unfold damaged in H0. destruct (intact d size md5 s) eqn:E; [reflexivity|]. exfalso.
    clear - H0 Hs E. induction a as [|x r IH]; [destruct Hs|]. cbn in H0. destruct Hs as [->|Hs].
    - rewrite E in H0. discriminate.
    - destruct (negb (intact d size md5 x)); [discriminate|]. exact (IH H0 Hs).
  Qed.
End C26.
Print Assumptions C26_repair_partial.
Print Assumptions C26_then_tolerates_p_failures.

(* the full statement is false: a flipped checksum byte in one shard's metadata (1 <= p damaged) is never
   noticed by a read (Verify passes), so it is not repaired, and one further lost shard makes the blob unreadable.
   Reproduced on the real code: findings/C26.json `repair-skips-metadata-only-damage`. *)
Theorem C26_repair_refuted : exists disk,
  length disk = 3 /\ damaged 2 9 c_md5 disk = 1 /\ md5_detects c_md5 disk /\ first_pad_intact 2 9 disk /\
  fst (c_getOne 2 1 9 true disk) = Ok (original 2 9) /\
  snd (c_getOne 2 1 9 true disk) = disk /\
  exists e, fst (c_getOne 2 1 9 false (apply_dmgs [KGood; KMissing; KGood] (snd (c_getOne 2 1 9 true disk)))) = Err e.
Proof.
  exists (apply_dmgs [KFlipSum; KGood; KGood] (repeat (good_file 2 9 c_md5) 3)).
  split; [reflexivity|]. split; [vm_compute; reflexivity|]. split.
  - intros len pad sum data Hin _ Hs. cbn in Hin. destruct Hin as [H|[H|[H|[]]]]; injection H as _ _ _ <-; reflexivity.
  - split; [intros v Hv; vm_compute in Hv; injection Hv as <-; reflexivity|].
    split; [vm_compute; reflexivity|]. split; [vm_compute; reflexivity|]. eexists. vm_compute. reflexivity.
Qed.
Print Assumptions C26_repair_refuted.

(* non-vacuity: a mixed pattern (one shard missing, one corrupted; p = 2) meets the hypotheses, is repaired by the
   concrete instance, and the repaired disk is byte-for-byte the freshly encoded one *)
Example C26_nonvacuous :
  let disk := apply_dmgs [KMissing; KFlipData; KGood; KGood] (repeat (good_file 2 9 c_md5) 4) in
  damaged 2 9 c_md5 disk = 2 /\ (forall s, In s disk -> intact 2 9 c_md5 s = true \/ data_damaged s = true) /\
  c_getOne 2 2 9 true disk = (Ok (original 2 9), repeat (good_file 2 9 c_md5) 4).
Proof.
  cbv zeta. split; [vm_compute; reflexivity|]. split.
  - intros s Hs. cbn in Hs. destruct Hs as [<-|[<-|[<-|[<-|[]]]]]; vm_compute; tauto.
  - vm_compute. reflexivity.
Qed.

(* C29 - built-in key comparison is a total order consistent with natural order.
   Model: Compare.v (btree.Compare / btree.CoerceComparer, /repo/btree/comparer.go).
   [fmtv] is fmt's %v rendering of the values whose formatting is not modelled; every
   theorem holds for all renderings. A key type [kty] says which Go type a key has;
   []any keys are typed per position (homogeneous slices and composite keys). *)
From Coq Require Import List ZArith NArith Reals.
From Flocq Require Import IEEE754.Binary IEEE754.Bits.
From SopVerif Require Import FloatCmp Compare CompareLib FloatCmpProofs CompareProofs Corr.C29.
Import ListNotations.
Local Open Scope Z_scope.

(* ---- order laws, for every key type and all values of it *)

Theorem C29_range : forall fmtv ty x y, has_ty x ty = true -> has_ty y ty = true ->
  compare fmtv x y = -1 \/ compare fmtv x y = 0 \/ compare fmtv x y = 1.
Proof. intros fmtv ty x y. exact (cl_range _ _ (typed_laws fmtv ty) x y). Qed.
Print Assumptions C29_range.

Theorem C29_refl : forall fmtv ty x, has_ty x ty = true -> compare fmtv x x = 0.
Proof. intros fmtv ty x. exact (cl_refl _ _ (typed_laws fmtv ty) x). Qed.
Print Assumptions C29_refl.

Theorem C29_antisym : forall fmtv ty x y, has_ty x ty = true -> has_ty y ty = true ->
  compare fmtv x y = - compare fmtv y x.
Proof. intros fmtv ty x y. exact (cl_antisym _ _ (typed_laws fmtv ty) x y). Qed.
Print Assumptions C29_antisym.

Theorem C29_trans : forall fmtv ty x y z, has_ty x ty = true -> has_ty y ty = true -> has_ty z ty = true ->
  compare fmtv x y <= 0 -> compare fmtv y z <= 0 -> compare fmtv x z <= 0.
Proof. intros fmtv ty x y z. exact (cl_trans _ _ (typed_laws fmtv ty) x y z). Qed.
Print Assumptions C29_trans.

(* consequences a B-tree relies on: strict transitivity, and keys that compare equal are interchangeable *)
Theorem C29_trans_strict : forall fmtv ty x y z, has_ty x ty = true -> has_ty y ty = true -> has_ty z ty = true ->
  compare fmtv x y < 0 -> compare fmtv y z <= 0 -> compare fmtv x z < 0.
Proof. intros fmtv ty x y z. exact (cl_lt_trans _ _ (typed_laws fmtv ty) x y z). Qed.
Print Assumptions C29_trans_strict.

Theorem C29_equal_compat : forall fmtv ty x y z, has_ty x ty = true -> has_ty y ty = true -> has_ty z ty = true ->
  compare fmtv x y = 0 -> compare fmtv x z = compare fmtv y z.
Proof. intros fmtv ty x y z. exact (cl_eq_l _ _ (typed_laws fmtv ty) x y z). Qed.
Print Assumptions C29_equal_compat.

(* CoerceComparer(w), for w of the key type, is Compare on that type *)
Theorem C29_coerce_agrees : forall fmtv ty w x y, has_ty w ty = true -> has_ty x ty = true ->
  apply_ck fmtv (coerce w) x y = compare fmtv x y.
Proof.
  intros fmtv ty w x y Hw Hx. rewrite (coerce_typed ty w x Hw Hx). apply apply_coerce_self.
Qed.
Print Assumptions C29_coerce_agrees.

(* ---- the full statement over []any with unrelated element types is false:
   the type switch looks at x only, a failed assertion on y yields the zero value *)
Theorem C29_any_mixed_refuted : forall fmtv, exists x y,
  wf_key x = true /\ wf_key y = true /\
  compare fmtv x y = 1 /\ compare fmtv y x = 1 /\ compare fmtv x y <> - compare fmtv y x.
Proof.
  intros. exists (KAny [KInt TI 5]), (KAny [KStr [97%N]]).
  repeat split; try (vm_compute; reflexivity). vm_compute. discriminate.
Qed.
Print Assumptions C29_any_mixed_refuted.

Theorem C29_any_nullable_refuted : forall fmtv, exists x y,
  compare fmtv x y = -1 /\ compare fmtv y x = 0.
Proof. intros. exists (KAny [KNil]), (KAny [KStr []]). split; vm_compute; reflexivity. Qed.
Print Assumptions C29_any_nullable_refuted.

(* ---- agreement with the natural order of each type *)

Theorem C29_natural_int : forall fmtv t a b,
  (compare fmtv (KInt t a) (KInt t b) = -1 <-> a < b) /\
  (compare fmtv (KInt t a) (KInt t b) = 0 <-> a = b) /\
  (compare fmtv (KInt t a) (KInt t b) = 1 <-> a > b).
Proof. intros. simpl. rewrite ity_eqb_refl. apply zcmp_spec. Qed.
Print Assumptions C29_natural_int.

(* strings, []byte and both UUID types: bytewise lexicographic, a proper prefix first *)
Definition byte_lt (a b : N) : Prop := (a < b)%N.
Inductive bytes_lt : list N -> list N -> Prop :=
| blt_nil : forall y m, bytes_lt [] (y :: m)
| blt_lt : forall x y l m, byte_lt x y -> bytes_lt (x :: l) (y :: m)
| blt_eq : forall x l m, bytes_lt l m -> bytes_lt (x :: l) (x :: m).

Lemma bytes_cmp_natural : forall a b,
  (bytes_cmp a b = -1 <-> bytes_lt a b) /\ (bytes_cmp a b = 0 <-> a = b).
Proof.
  intros a b. split; [|apply bytes_cmp_eq].
  assert (R : forall x y, sgn3 (ncmp x y)) by (intros x y; apply (cl_range _ _ ncmp_laws); exact I).
  rewrite (proj1 (slice_cmp_lex ncmp R a b)). split.
  - induction 1 as [y m|x y l m H|x y l m H _ IH].
    + constructor.
    + apply blt_lt. apply ncmp_spec. exact H.
    + apply ncmp_spec in H. subst. apply blt_eq. exact IH.
  - induction 1 as [y m|x y l m H|x l m _ IH].
    + constructor.
    + apply slex_lt. apply ncmp_spec. exact H.
    + apply slex_eq; [apply ncmp_spec; reflexivity|exact IH].
Qed.

Theorem C29_natural_bytes : forall fmtv a b,
  (compare fmtv (KStr a) (KStr b) = -1 <-> bytes_lt a b) /\ (compare fmtv (KStr a) (KStr b) = 0 <-> a = b) /\
  (compare fmtv (KBytes a) (KBytes b) = -1 <-> bytes_lt a b) /\ (compare fmtv (KBytes a) (KBytes b) = 0 <-> a = b) /\
  (compare fmtv (KGUuid a) (KGUuid b) = -1 <-> bytes_lt a b) /\ (compare fmtv (KGUuid a) (KGUuid b) = 0 <-> a = b) /\
  (compare fmtv (KSUuid a) (KSUuid b) = -1 <-> bytes_lt a b) /\ (compare fmtv (KSUuid a) (KSUuid b) = 0 <-> a = b).
Proof. intros. simpl. pose proof (bytes_cmp_natural a b) as [H1 H2]. tauto. Qed.
Print Assumptions C29_natural_bytes.

(* time.Time (wall clock): chronological *)
Theorem C29_natural_time : forall fmtv s n s' n', 0 <= n < 1000000000 -> 0 <= n' < 1000000000 ->
  let t := s * 1000000000 + n in let t' := s' * 1000000000 + n' in
  (compare fmtv (KTime s n) (KTime s' n') = -1 <-> t < t') /\
  (compare fmtv (KTime s n) (KTime s' n') = 0 <-> t = t') /\
  (compare fmtv (KTime s n) (KTime s' n') = 1 <-> t > t').
Proof. intros fmtv s n s' n' Hn Hn'. simpl. apply time_cmp_chrono; assumption. Qed.
Print Assumptions C29_natural_time.

(* floats: NaN (any payload) below everything and equal to NaN; otherwise the order
   of the real numbers denoted (so -0 = +0); infinities at the ends *)
Theorem C29_natural_float64 : forall fmtv a b,
  let x := f64 a in let y := f64 b in
  let r := compare fmtv (KF64 a) (KF64 b) in
  (is_nan _ _ x = true -> r = if is_nan _ _ y then 0 else -1) /\
  (is_nan _ _ x = false -> is_nan _ _ y = true -> r = 1) /\
  (is_finite _ _ x = true -> is_finite _ _ y = true ->
     (r = -1 <-> (B2R _ _ x < B2R _ _ y)%R) /\ (r = 0 <-> B2R _ _ x = B2R _ _ y) /\ (r = 1 <-> (B2R _ _ x > B2R _ _ y)%R)) /\
  (forall s, x = B754_infinity _ _ s -> is_finite _ _ y = true -> r = if s then -1 else 1).
Proof.
  intros fmtv a b x y r. subst r. simpl. unfold fcmp64. fold x y. repeat split.
  - apply go_fcmp_nan_l.
  - apply go_fcmp_nan_r.
  - apply go_fcmp_finite_lt; assumption.
  - apply go_fcmp_finite_lt; assumption.
  - apply go_fcmp_finite_lt; assumption.
  - apply go_fcmp_finite_lt; assumption.
  - apply go_fcmp_finite_lt; assumption.
  - apply go_fcmp_finite_lt; assumption.
  - intros s Hs Hy. rewrite Hs, go_fcmp_inf by (destruct y; try discriminate; reflexivity).
    destruct y; try discriminate; reflexivity.
Qed.
Print Assumptions C29_natural_float64.

Theorem C29_natural_float32 : forall fmtv a b,
  let x := f32 a in let y := f32 b in
  let r := compare fmtv (KF32 a) (KF32 b) in
  (is_nan _ _ x = true -> r = if is_nan _ _ y then 0 else -1) /\
  (is_nan _ _ x = false -> is_nan _ _ y = true -> r = 1) /\
  (is_finite _ _ x = true -> is_finite _ _ y = true ->
     (r = -1 <-> (B2R _ _ x < B2R _ _ y)%R) /\ (r = 0 <-> B2R _ _ x = B2R _ _ y) /\ (r = 1 <-> (B2R _ _ x > B2R _ _ y)%R)).
Proof.
  intros fmtv a b x y r. subst r. simpl. unfold fcmp32. fold x y. repeat split;
    first [apply go_fcmp_nan_l|apply go_fcmp_nan_r|apply go_fcmp_finite_lt; assumption].
Qed.
Print Assumptions C29_natural_float32.

(* slices ([]any, []string, []int, []float64, []float32): element-wise lexicographic, then by length *)
Theorem C29_natural_slices : forall fmtv,
  (forall l m, compare fmtv (KAny l) (KAny m) = slice_cmp (compare fmtv) l m) /\
  (forall l m, compare fmtv (KStrs l) (KStrs m) = slice_cmp bytes_cmp l m) /\
  (forall l m, compare fmtv (KInts l) (KInts m) = slice_cmp zcmp l m) /\
  (forall l m, compare fmtv (KF64s l) (KF64s m) = slice_cmp fcmp64 l m) /\
  (forall l m, compare fmtv (KF32s l) (KF32s m) = slice_cmp fcmp32 l m) /\
  (forall A (c : A -> A -> Z), (forall a b, c a b = -1 \/ c a b = 0 \/ c a b = 1) -> forall l m,
     (slice_cmp c l m = -1 <-> slex c l m) /\ (slice_cmp c l m = 0 <-> sleq c l m)).
Proof. intros. repeat split; try reflexivity; apply (slice_cmp_lex c H l m). Qed.
Print Assumptions C29_natural_slices.

(* ---- non-vacuity: a composite key type with values; signed zeros and NaN payloads *)
Example C29_nonvacuous :
  let ty := TyAny [TyStr; TyInt TI64] TyF64 in
  let x := KAny [KStr [97%N]; KInt TI64 (- 2 ^ 63); KF64 9221120237041090560%N] in   (* "a", MinInt64, NaN *)
  let y := KAny [KStr [97%N]; KInt TI64 (- 2 ^ 63); KF64 18444492273895866369%N; KF64 0%N] in (* other NaN payload, longer *)
  has_ty x ty = true /\ has_ty y ty = true /\ wf_key x = true /\ wf_key y = true /\
  compare (fun _ => []) x y = -1 /\ compare (fun _ => []) y x = 1 /\
  compare (fun _ => []) (KF64 9223372036854775808%N) (KF64 0%N) = 0.     (* -0 vs +0 *)
Proof. vm_compute. repeat split; reflexivity. Qed.

(* C28 — a lock is held by at most one owner and only its owner can release it.

   Model: Locks.v (in-memory lock table with bounded shards; Redis adapter over a
   string table with TTLs).  One service command = one atomic step; a run is ANY
   list of commands by any number of owners over any keys (im_run / rd_run
   enumerate every outcome, including every eviction-victim choice).
     heldb t now k o        the table records an unexpired entry for k owned by o
     believerb b now o k    o's last Lock/DualLock/IsLocked/IsLockedTTL call covering k
                            answered true, o has not unlocked k since, and the expiry the
                            service had recorded for o at that answer has not elapsed. *)
From Coq Require Import List NArith Bool Lia.
From SopVerif Require Import Locks LocksProofs Corr.C28.
Import ListNotations.
Local Open Scope N_scope.

(* ---------------------------------------------------------------- both services *)

(* at any moment a key is held, unexpired, by at most one owner *)
Theorem C28_one_holder : forall (t : table) now k o1 o2,
  heldb t now k o1 = true -> heldb t now k o2 = true -> o1 = o2.
Proof. exact heldb_unique. Qed.
Print Assumptions C28_one_holder.

(* ---------------------------------------------------------------- in-memory service *)

(* FULL: over all interleavings of commands by any owners, EVERY shard capacity and
   every eviction-victim choice: every owner that was told it holds k and whose recorded
   TTL has not elapsed is the holder, so no two owners ever believe to hold the same key
   at the same time.  (Before the repair "never evict a held lock" this was refuted by
   filling a shard, DESIGN S7; loadOrStore now only evicts expired entries and lets the
   shard grow when there is none.) *)
Theorem C28_mutex_inmem : forall cfg ops s b,
  In (s, b) (im_run cfg ops im_init no_belief) ->
  forall k o1 o2,
    (believerb b (im_now s) o1 k = true -> heldb (im_tbl s) (im_now s) k o1 = true) /\
    (believerb b (im_now s) o1 k = true -> believerb b (im_now s) o2 k = true -> o1 = o2).
Proof. exact im_mutex. Qed.
Print Assumptions C28_mutex_inmem.

(* FULL: a Lock by one owner never makes the unexpired lock of another owner disappear,
   however full the shard is (any state, reachable or not) *)
Theorem C28_lock_never_evicts_held : forall cfg s o d ks s' rs k1 o1,
  In (s', rs) (im_step cfg s (OLock o d ks)) -> o1 <> o ->
  heldb (im_tbl s) (im_now s) k1 o1 = true -> heldb (im_tbl s') (im_now s') k1 o1 = true.
Proof. exact im_lock_keeps_foreign. Qed.
Print Assumptions C28_lock_never_evicts_held.

(* FULL: a Lock that answers true holds every key it was asked for, also when several
   new keys of one call fall into one full shard (no self-eviction) *)
Theorem C28_lock_true_holds_all : forall cfg s o d ks s' rs k,
  In (s', rs) (im_step cfg s (OLock o d ks)) -> fst rs = true -> In k ks ->
  heldb (im_tbl s') (im_now s') k o = true.
Proof. exact im_lock_true_holds. Qed.
Print Assumptions C28_lock_true_holds_all.

(* the two former counterexamples, capacity 1 and one shard, now end well on every
   outcome: owner 2 is refused key 0 while owner 1 holds it; Lock [0;1] holds both keys *)
Definition s7_cfg := mkImCfg 1 (fun _ => 0) 0.
Definition s7_ops := [OLock 1 10 [0]; OLock 2 10 [1]; OLock 2 10 [0]].
Example C28_former_counterexamples :
  forallb (fun x : imrun => believerb (snd x) (im_now (fst x)) 1 0 && negb (believerb (snd x) (im_now (fst x)) 2 0)
                            && heldb (im_tbl (fst x)) (im_now (fst x)) 0 1 && heldb (im_tbl (fst x)) (im_now (fst x)) 1 2)
          (im_run s7_cfg s7_ops im_init no_belief) = true /\
  length (im_run s7_cfg s7_ops im_init no_belief) = 1%nat /\
  forallb (fun x : imstate * resp => fst (snd x) && heldb (im_tbl (fst x)) 0 0 1 && heldb (im_tbl (fst x)) 0 1 1)
          (im_step s7_cfg im_init (OLock 1 10 [0; 1])) = true.
Proof. repeat split; vm_compute; reflexivity. Qed.

(* FULL: Unlock by anyone but the holder never frees the holder's lock — any state
   (reachable or not), any capacity, any key set *)
Theorem C28_release_inmem : forall cfg s o' ks k o s' rs,
  In (s', rs) (im_step cfg s (OUnlock o' ks)) -> o' <> o ->
  heldb (im_tbl s) (im_now s) k o = true -> heldb (im_tbl s') (im_now s') k o = true.
Proof. exact im_unlock_foreign. Qed.
Print Assumptions C28_release_inmem.

(* ---------------------------------------------------------------- Redis adapter *)

(* PARTIAL (full statement refuted below): over all interleavings, as long as no Unlock
   deletes — through a stale local IsLockOwner flag — and no IsLockedTTL shortens the TTL
   of a live entry owned by somebody else (second component of a run = those keys). *)
Theorem C28_mutex_redis_partial : forall ops,
  snd (rd_run ops rd_init no_belief) = [] ->
  let s := fst (fst (rd_run ops rd_init no_belief)) in
  let b := snd (fst (rd_run ops rd_init no_belief)) in
  forall k o1 o2,
    (believerb b (rd_now s) o1 k = true -> heldb (rd_tbl s) (rd_now s) k o1 = true) /\
    (believerb b (rd_now s) o1 k = true -> believerb b (rd_now s) o2 k = true -> o1 = o2).
Proof.
  intros ops Hev s b k o1 o2.
  pose proof (rd_run_inv ops rd_init no_belief (inv_init 0) Hev) as Hi. fold s b in Hi.
  split.
  - apply inv_believer_held. exact Hi.
  - intros H1 H2. eapply heldb_unique; eapply inv_believer_held; eauto.
Qed.
Print Assumptions C28_mutex_redis_partial.

(* PARTIAL, in terms the callers control ("no unlock after own expiry"): if every Unlock
   (for the keys whose flag is set) and every IsLockedTTL is issued only for keys the caller
   currently believes to hold — never after its own TTL elapsed, never a second time — then
   no hazard can occur and the property holds for every interleaving. *)
Theorem C28_mutex_redis_polite_partial : forall ops,
  rd_polite ops rd_init no_belief = true ->
  let s := fst (fst (rd_run ops rd_init no_belief)) in
  let b := snd (fst (rd_run ops rd_init no_belief)) in
  snd (rd_run ops rd_init no_belief) = [] /\
  forall k o1 o2,
    (believerb b (rd_now s) o1 k = true -> heldb (rd_tbl s) (rd_now s) k o1 = true) /\
    (believerb b (rd_now s) o1 k = true -> believerb b (rd_now s) o2 k = true -> o1 = o2).
Proof.
  intros ops Hp s b.
  pose proof (rd_polite_no_hazard ops rd_init no_belief (inv_init 0) Hp) as Hev.
  split; auto. apply C28_mutex_redis_partial. exact Hev.
Qed.
Print Assumptions C28_mutex_redis_polite_partial.

(* PARTIAL: an Unlock that meets no live foreign entry under a set flag frees nobody else *)
Theorem C28_release_redis_partial : forall s o' ks k o,
  rd_hazard s (OUnlock o' ks) = [] -> o' <> o ->
  heldb (rd_tbl s) (rd_now s) k o = true ->
  heldb (rd_tbl (fst (rd_step s (OUnlock o' ks)))) (rd_now (fst (rd_step s (OUnlock o' ks)))) k o = true.
Proof. exact rd_unlock_foreign. Qed.
Print Assumptions C28_release_redis_partial.

(* REFUTED (reproduced on the real adapter over the RESP stand-in): owner 1 locks key 0
   for 2 ticks, 3 ticks pass, owner 2 locks key 0, owner 1 calls Unlock: the DEL removes
   owner 2's entry because IsLockOwner is a flag local to owner 1's LockKey. *)
Definition r1_ops := [OLock 1 2 [0]; OTick 3; OLock 2 10 [0]].
Theorem C28_release_redis_refuted : exists ops o' ks k o,
  let s := fst (fst (rd_run ops rd_init no_belief)) in
  o' <> o /\ heldb (rd_tbl s) (rd_now s) k o = true /\
  heldb (rd_tbl (fst (rd_step s (OUnlock o' ks)))) (rd_now (fst (rd_step s (OUnlock o' ks)))) k o = false.
Proof.
  exists r1_ops, 1, [0], 0, 2. cbv zeta. split; [discriminate|]. split; vm_compute; reflexivity.
Qed.
Print Assumptions C28_release_redis_refuted.

(* ... after which a third owner acquires the key while owner 2 still believes to hold it *)
Theorem C28_mutex_redis_refuted : exists ops k o1 o2,
  let s := fst (fst (rd_run ops rd_init no_belief)) in
  let b := snd (fst (rd_run ops rd_init no_belief)) in
  o1 <> o2 /\ believerb b (rd_now s) o1 k = true /\ believerb b (rd_now s) o2 k = true.
Proof.
  exists (r1_ops ++ [OUnlock 1 [0]; OLock 3 10 [0]]), 0, 2, 3.
  cbv zeta. split; [discriminate|]. split; vm_compute; reflexivity.
Qed.
Print Assumptions C28_mutex_redis_refuted.

(* the flag is never reset by Unlock either: a second Unlock of the same LockKey deletes
   the successor's lock even without any TTL expiry *)
Theorem C28_release_redis_double_unlock_refuted : exists ops o' ks k o,
  let s := fst (fst (rd_run ops rd_init no_belief)) in
  o' <> o /\ heldb (rd_tbl s) (rd_now s) k o = true /\
  heldb (rd_tbl (fst (rd_step s (OUnlock o' ks)))) (rd_now (fst (rd_step s (OUnlock o' ks)))) k o = false.
Proof.
  exists [OLock 1 10 [0]; OUnlock 1 [0]; OLock 2 10 [0]], 1, [0], 0, 2.
  cbv zeta. split; [discriminate|]. split; vm_compute; reflexivity.
Qed.
Print Assumptions C28_release_redis_double_unlock_refuted.

(* REFUTED, second pattern (reproduced): IsLockedTTL issues GETEX before it compares the
   value, so a caller that no longer owns the key rewrites the holder's TTL; with a
   shorter duration the holder's lock expires early and a third owner gets in. *)
Theorem C28_mutex_redis_ttl_refuted : exists ops k o1 o2,
  let s := fst (fst (rd_run ops rd_init no_belief)) in
  let b := snd (fst (rd_run ops rd_init no_belief)) in
  o1 <> o2 /\ believerb b (rd_now s) o1 k = true /\ believerb b (rd_now s) o2 k = true.
Proof.
  exists [OLock 1 2 [0]; OTick 3; OLock 2 100 [0]; OIsLockedTTL 1 1 [0]; OTick 2; OLock 3 5 [0]], 0, 2, 3.
  cbv zeta. split; [discriminate|]. split; vm_compute; reflexivity.
Qed.
Print Assumptions C28_mutex_redis_ttl_refuted.

(* DualLock is Lock followed by IsLocked; the theorems above cover the two halves as
   separate steps too, i.e. with other owners' commands in between *)
Theorem C28_duallock_redis_is_lock_then_islocked : forall s o d ks,
  rd_step s (ODualLock o d ks) =
  (if fst (snd (rd_step s (OLock o d ks)))
   then rd_step (fst (rd_step s (OLock o d ks))) (OIsLocked o ks)
   else rd_step s (OLock o d ks)).
Proof. reflexivity. Qed.

(* ---------------------------------------------------------------- non-vacuity *)

(* an in-memory run over a FULL shard (capacity 2, three keys): owner 1 believes and holds,
   owner 2 was refused key 1 and then took key 2, which made the shard grow to 3 entries *)
Example C28_inmem_nonvacuous :
  let cfg := mkImCfg 2 (fun _ => 0) 0 in
  let ops := [OLock 1 5 [0; 1]; OTick 5; OLock 2 5 [1]; OUnlock 2 [1]; OLock 2 5 [2]] in
  let x := nth 0 (im_run cfg ops im_init no_belief) (im_init, no_belief) in
  In x (im_run cfg ops im_init no_belief) /\
  believerb (snd x) (im_now (fst x)) 1 1 = true /\
  believerb (snd x) (im_now (fst x)) 2 1 = false /\
  believerb (snd x) (im_now (fst x)) 2 2 = true /\
  heldb (im_tbl (fst x)) (im_now (fst x)) 1 1 = true /\
  length (im_tbl (fst x)) = 3%nat.
Proof. cbv zeta. split; [apply nth_In; vm_compute; lia|]. repeat split; vm_compute; reflexivity. Qed.

Example C28_redis_nonvacuous :
  let ops := [OLock 1 5 [0; 1]; OTick 5; OLock 2 5 [1]; OUnlock 2 [1]; OIsLockedTTL 1 9 [0; 1]; OTick 6] in
  let x := rd_run ops rd_init no_belief in
  rd_polite ops rd_init no_belief = true /\
  snd x = [] /\ believerb (snd (fst x)) (rd_now (fst (fst x))) 1 1 = true /\
  heldb (rd_tbl (fst (fst x))) (rd_now (fst (fst x))) 1 1 = true.
Proof. cbv zeta. repeat split; vm_compute; reflexivity. Qed.

(* the correspondence checker is not vacuous: it accepts what the model does and rejects a
   wrong answer, a wrong table, a wrong expiry, a wrong flag and the eviction of a held lock *)
Example C28_checker_discriminates :
  c28_check (RdScript [RS (OLock 1 5 [0]) true 0 [0;1;1;5] [1;0]]) = true /\
  c28_check (RdScript [RS (OLock 1 5 [0]) false 0 [0;1;1;5] [1;0]]) = false /\
  c28_check (RdScript [RS (OLock 1 5 [0]) true 0 [] [1;0]]) = false /\
  c28_check (RdScript [RS (OLock 1 5 [0]) true 0 [0;1;1;6] [1;0]]) = false /\
  c28_check (RdScript [RS (OLock 1 5 [0]) true 0 [0;1;1;5] []]) = false /\
  (* full shard of held locks: nothing is evicted, the shard grows *)
  c28_check (ImScript 2 [7;7;7] 0 [IS (OLock 1 9 [0]) true 0 [0;1;1;9]; IS (OLock 2 5 [1]) true 0 [0;1;1;9;1;2;1;5];
                                   IS (OLock 3 7 [2]) true 0 [0;1;1;9;1;2;1;5;2;3;1;7]]) = true /\
  c28_check (ImScript 2 [7;7;7] 0 [IS (OLock 1 9 [0]) true 0 [0;1;1;9]; IS (OLock 2 5 [1]) true 0 [0;1;1;9;1;2;1;5];
                                   IS (OLock 3 7 [2]) true 0 [0;1;1;9;2;3;1;7]]) = false /\
  (* full shard with an expired entry: that one is evicted, never the held one *)
  c28_check (ImScript 2 [7;7;7] 0 [IS (OLock 1 2 [0]) true 0 [0;1;1;2]; IS (OLock 2 9 [1]) true 0 [0;1;1;2;1;2;1;9];
                                   IS (OTick 3) true 0 [0;1;1;2;1;2;1;9]; IS (OLock 3 7 [2]) true 0 [1;2;1;9;2;3;1;10]]) = true /\
  c28_check (ImScript 2 [7;7;7] 0 [IS (OLock 1 2 [0]) true 0 [0;1;1;2]; IS (OLock 2 9 [1]) true 0 [0;1;1;2;1;2;1;9];
                                   IS (OTick 3) true 0 [0;1;1;2;1;2;1;9]; IS (OLock 3 7 [2]) true 0 [0;1;1;2;2;3;1;10]]) = false.
Proof. repeat split; vm_compute; reflexivity. Qed.

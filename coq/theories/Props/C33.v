(* C33 — the vector store returns live items and correctly ranked query hits.
   Bookkeeping model of ai/vector (Vector.v); centroid assignment, probed centroids and
   similarity scores are oracles: the theorems hold for every answer they may give.

   [run close init ops] is the model state after the operation sequence [ops];
   [rrun [] ops] the reference semantics id |-> (latest vector, payload), deletes removing the id.
   [forallb op_index_dedup ops = true] restricts a run to the default configuration: index mode
   (Config.EnableIngestionBuffer = false), deduplication on, and an assignment oracle that never
   answers centroid id 0 (centroid ids start at 1; -1 is the answer over an empty centroid set).
   The statements WITHOUT that restriction are false of the model and of the code: see the
   _refuted theorems (each witness is replayed on the real store by the harness corpus). *)
From Coq Require Import List ZArith NArith Bool Sorting.Sorted.
From SopVerif Require Import Gen.VectorConsts Vector VectorProofs VectorRefineProofs VectorQueryProofs Corr.C33.
Import ListNotations.
Local Open Scope Z_scope.

(* Get returns the latest vector and payload of a live id, and an error for a deleted or unknown id,
   after any sequence of upserts, deletes and optimizations *)
Theorem C33_get_partial : forall close, (forall d, close d d = true) ->
  forall ops id, forallb op_index_dedup ops = true ->
  strip (get false (run close init ops) id) = rfind (rrun [] ops) id.
Proof.
  intros close Hcl ops id Hok. apply inv_get. apply inv_run; [exact Hcl|apply inv_init|exact Hok].
Qed.
Print Assumptions C33_get_partial.

(* what the reference semantics says, spelled out: the last write to an id wins *)
Theorem C33_reference_latest : forall ops r id id' buf dedup v p a cs mig,
  rfind (rrun r (ops ++ [OUpsert buf dedup id v p a])) id = Some (v, p)
  /\ rfind (rrun r (ops ++ [ODelete buf id])) id = None
  /\ (id' <> id -> rfind (rrun r (ops ++ [OUpsert buf dedup id v p a])) id' = rfind (rrun r ops) id'
               /\ rfind (rrun r (ops ++ [ODelete buf id])) id' = rfind (rrun r ops) id')
  /\ rfind (rrun r (ops ++ [OOptimize buf dedup cs mig])) id' = rfind (rrun r ops) id'.
Proof.
  intros. unfold rrun. rewrite !fold_left_app. cbn [fold_left rstep rfind].
  rewrite N.eqb_refl, !rfind_filter, N.eqb_refl.
  split; [reflexivity|]. split; [reflexivity|]. split; [|reflexivity].
  intros Hne. apply N.eqb_neq in Hne. rewrite N.eqb_sym, Hne. split; reflexivity.
Qed.
Print Assumptions C33_reference_latest.

(* a full Content scan lists exactly the live ids, each once *)
Theorem C33_live_set_partial : forall close, (forall d, close d d = true) ->
  forall ops, forallb op_index_dedup ops = true ->
  NoDup (live_ids (run close init ops))
  /\ forall id, In id (live_ids (run close init ops)) <-> exists v p, rfind (rrun [] ops) id = Some (v, p).
Proof.
  intros close Hcl ops Hok.
  assert (I : Inv (run close init ops) (rrun [] ops)) by (apply inv_run; [exact Hcl|apply inv_init|exact Hok]).
  split; [eapply live_ids_nodup; exact I|]. intros id. apply live_ids_in, I.
Qed.
Print Assumptions C33_live_set_partial.

(* Optimize never loses, duplicates or resurrects an item: whatever happened before it and whatever
   the k-means oracle answers, every Get and the live set are the same before and after *)
Theorem C33_optimize_preserves_partial : forall close, (forall d, close d d = true) ->
  forall ops cs mig, forallb op_index_dedup (ops ++ [OOptimize false true cs mig]) = true ->
  let before := run close init ops in
  let after := run close init (ops ++ [OOptimize false true cs mig]) in
  (forall id, strip (get false after id) = strip (get false before id))
  /\ (forall id, In id (live_ids after) <-> In id (live_ids before))
  /\ NoDup (live_ids after).
Proof.
  intros close Hcl ops cs mig Hok. cbv zeta.
  assert (Hok' : forallb op_index_dedup ops = true).
  { rewrite forallb_app in Hok. apply andb_true_iff in Hok. tauto. }
  assert (I1 : Inv (run close init ops) (rrun [] ops)) by (apply inv_run; [exact Hcl|apply inv_init|exact Hok']).
  assert (I2 : Inv (run close init (ops ++ [OOptimize false true cs mig])) (rrun [] (ops ++ [OOptimize false true cs mig])))
    by (apply inv_run; [exact Hcl|apply inv_init|exact Hok]).
  assert (Hr : rrun [] (ops ++ [OOptimize false true cs mig]) = rrun [] ops).
  { unfold rrun. rewrite fold_left_app. reflexivity. }
  rewrite Hr in I2. split; [|split].
  - intros id. rewrite (inv_get _ _ id I2), (inv_get _ _ id I1). reflexivity.
  - intros id. rewrite (live_ids_in _ _ id I2), (live_ids_in _ _ id I1). reflexivity.
  - eapply live_ids_nodup; exact I2.
Qed.
Print Assumptions C33_optimize_preserves_partial.

(* a query returns at most k hits with distinct ids; every hit is live, passes the filter, and carries
   the similarity of its stored (latest) vector; scores are non-increasing; and no surviving candidate of the
   probed centroids that was left out scores higher than a hit. For every probe set without repetition. *)
Theorem C33_query_partial : forall close, (forall d, close d d = true) ->
  forall ops probes sim k flt, forallb op_index_dedup ops = true -> NoDup probes ->
  let s := run close init ops in
  let R := query false s probes sim k flt in
  (length R <= Z.to_nat k)%nat
  /\ NoDup (map fst R)
  /\ (forall id sc, In (id, sc) R ->
        exists v p, rfind (rrun [] ops) id = Some (v, p) /\ flt p = true /\ sc = sim v)
  /\ StronglySorted (fun a b => snd b <= snd a) R
  /\ (forall h h', In h R -> In h' (ranked false s probes sim flt) -> ~ In h' R -> snd h' <= snd h).
Proof.
  intros close Hcl ops probes sim k flt Hok Hnd. cbv zeta.
  assert (I : Inv (run close init ops) (rrun [] ops)) by (apply inv_run; [exact Hcl|apply inv_init|exact Hok]).
  destruct (query_sound _ _ I probes sim k flt Hnd) as [H1 [H2 [H3 H4]]].
  split; [exact H1|]. split; [exact H2|]. split; [exact H3|]. split; [exact H4|].
  intros h h'. apply query_best.
Qed.
Print Assumptions C33_query_partial.

(* the at-most-k bound needs no hypothesis at all (any mode, any state) *)
Theorem C33_query_at_most_k : forall buf s probes sim k flt,
  (length (query buf s probes sim k flt) <= Z.to_nat k)%nat.
Proof. exact query_length. Qed.
Print Assumptions C33_query_at_most_k.

(* the shapes of the source the model was transcribed from, as re-read by the translator on this run:
   Optimize leaves TempVectors to Consolidate (phase 3b is dead code), Consolidate handles 100 entries per call *)
Theorem C33_translated_constants :
  vector_phase3_migrates_temp = false /\ consolidate_batch = 100%nat /\ vector_query_nprobe = 2%nat.
Proof. repeat split; reflexivity. Qed.
Print Assumptions C33_translated_constants.

(* ------------------------------------------------------------------ refutations of the unrestricted statements *)

(* staged ingestion (EnableIngestionBuffer): a staged item deleted before Optimize is live again afterwards *)
Definition resurrect_ops : list op :=
  [OUpsert true true 0%N [1; 0] 1%N (0, 0); OUpsert true true 1%N [0; 1] 2%N (0, 0); ODelete true 1%N;
   OOptimize true true [(0%N, (1, 0)); (1%N, (1, 0))] []].
Theorem C33_optimize_resurrects_refuted :
  rfind (rrun [] resurrect_ops) 1%N = None
  /\ get true (run Z.eqb init (removelast resurrect_ops)) 1%N = None
  /\ get false (run Z.eqb init resurrect_ops) 1%N = Some ([], 2%N, -1)
  /\ In 1%N (live_ids (run Z.eqb init resurrect_ops)).
Proof. vm_compute. repeat split; auto. Qed.
Print Assumptions C33_optimize_resurrects_refuted.

(* the same resurrected entry seen through Query: it sits in a bucket with its nil vector and is returned as a hit,
   although the reference semantics has no such id *)
Theorem C33_query_returns_resurrected_refuted :
  rfind (rrun [] resurrect_ops) 1%N = None
  /\ query false (run Z.eqb init resurrect_ops) [-1] (fun v => Z.of_nat (length v)) 10 (fun _ => true)
     = [(0%N, 2); (1%N, 0)].
Proof. vm_compute. split; reflexivity. Qed.
Print Assumptions C33_query_returns_resurrected_refuted.

(* staged ingestion: Consolidate moves 100 staged entries, phase 4 drops the TempVectors store with the rest *)
Definition staged_ops (n : nat) : list op :=
  map (fun i => OUpsert true true (N.of_nat i) [Z.of_nat i + 1] 7%N (0, 0)) (seq 0 n) ++ [OOptimize true true [] []].
Theorem C33_optimize_loses_staged_refuted :
  rfind (rrun [] (staged_ops 101)) 100%N = Some ([101], 7%N)
  /\ get true (run Z.eqb init (removelast (staged_ops 101))) 100%N = Some ([101], 7%N, 0)
  /\ get false (run Z.eqb init (staged_ops 101)) 100%N = None
  /\ get true (run Z.eqb init (staged_ops 101)) 100%N = None
  /\ strip (get false (run Z.eqb init (staged_ops 101)) 99%N) = Some ([100], 7%N).
Proof. vm_compute. repeat split; reflexivity. Qed.
Print Assumptions C33_optimize_loses_staged_refuted.

(* deduplication off on an id that is already stored (documented by SetDeduplication as leaving ghost
   vectors): the query lists the id twice, once with the score of the stale vector *)
Definition ghost_ops : list op :=
  [OUpsert false false 0%N [1; 0] 1%N (1, 5); OUpsert false false 0%N [0; 1] 1%N (1, 7)].
Theorem C33_query_distinct_dedup_off_refuted :
  map fst (query false (run Z.eqb init ghost_ops) [1] (fun v => nth 0 v 0) 10 (fun _ => true)) = [0%N; 0%N].
Proof. vm_compute. reflexivity. Qed.
Print Assumptions C33_query_distinct_dedup_off_refuted.

(* ------------------------------------------------------------------ non-vacuity *)
(* a run in the class of the theorems: upserts, a delete, a re-upsert over the tombstone, two optimizations,
   a delete resolved through the Next fields; ties in the scores *)
Definition sample_ops : list op :=
  [OUpsert false true 0%N [1; 0] 1%N (1, 10); OUpsert false true 1%N [0; 1] 2%N (1, 20);
   OUpsert false true 2%N [1; 1] 3%N (1, 30); ODelete false 1%N;
   OOptimize false true [] [((0%N, [1; 0]), (2, 11)); ((2%N, [1; 1]), (1, 31))];
   OUpsert false true 1%N [2; 2] 4%N (2, 40); ODelete false 0%N; OUpsert false true 0%N [3; 0] 5%N (1, 50);
   OOptimize false true [] [((0%N, [3; 0]), (1, 12)); ((1%N, [2; 2]), (1, 41)); ((2%N, [1; 1]), (3, 32))];
   ODelete false 2%N].
Example C33_nonvacuous :
  forallb op_index_dedup sample_ops = true
  /\ map (fun id => strip (get false (run Z.eqb init sample_ops) id)) [0%N; 1%N; 2%N; 3%N]
     = [Some ([3; 0], 5%N); Some ([2; 2], 4%N); None; None]
  /\ live_ids (run Z.eqb init sample_ops) = [0%N; 1%N]
  /\ query false (run Z.eqb init sample_ops) [1; 3] (fun v => nth 1 v 0) 5 (fun p => N.even p) = [(1%N, 2)]
  /\ query false (run Z.eqb init sample_ops) [1; 3] (fun v => nth 1 v 0) 5 (fun _ => true) = [(1%N, 2); (0%N, 0)].
Proof. vm_compute. repeat split; reflexivity. Qed.

(* the correspondence checker accepts the model's own answer (so a mismatch is never an artefact of the checker)
   and rejects a hit list that skips the best candidate *)
Example C33_checker_sane :
  c33_check (map EOp sample_ops ++
     [EGet false 1%N (get false (run close_f32 init sample_ops) 1%N);
      ELive (live_ids (run close_f32 init sample_ops));
      EQuery false [1; 3] [([2; 2], 9); ([3; 0], 4)] 5 (0%N, 0%N) [(1%N, 9); (0%N, 4)]]) = true
  /\ c33_check (map EOp sample_ops ++ [EQuery false [1; 3] [([2; 2], 9); ([3; 0], 4)] 1 (0%N, 0%N) [(0%N, 4)]]) = false
  /\ c33_check (map EOp sample_ops ++ [EGet false 2%N (Some ([1; 1], 3%N, 3))]) = false.
Proof. vm_compute. repeat split; reflexivity. Qed.

(* C31 — streamed values read back exactly as written.
   Model: Stream.v (streamingdata reader/writer/Encoder.Close/store over an ordered
   collection with a cursor). The reader is the REPAIRED one
   (fixes/C31-reader-advance-chunk.patch); the reader of the unchanged repository is
   [read false] and is refuted below. Every theorem holds for EVERY cursor oracle
   [orc] (where the B-tree leaves its cursor after a Find miss / an Add). *)
From Coq Require Import List ZArith NArith Bool Lia.
From SopVerif Require Import Stream StreamProofs Corr.C31.
Import ListNotations.

(* The shortcut "GetCurrentKey()+1 == wanted ? Next : Find" of reader.Read and writer.Write
   is a lookup: Next from (k,i) lands on (k,i+1) exactly when (k,i+1) is stored. *)
Theorem C31_shortcut_is_lookup : forall (s : items) (k : N) (i : Z),
  succ_key s (k, i) = Some (k, (i + 1)%Z) <-> lookup s (k, (i + 1)%Z) <> None.
Proof. intros s k i. rewrite <- mem_lookup. apply succ_key_adjacent. Qed.
Print Assumptions C31_shortcut_is_lookup.

(* READ. For every store s in which key k holds exactly the chunks cs (indices 0..|cs|-1; s may
   hold any other keys), every cursor position, and EVERY sequence of buffer sizes >= 1, the
   successive Reads return  datas_1 .. datas_m  (no EOF) followed only by (0, io.EOF) results;
   the bytes delivered are always a prefix of concat cs; EOF appears only after ALL of concat cs
   has been delivered; each Read returns at most len(p) bytes; and at most
   |concat cs| + |cs| Reads can precede EOF (so any longer buffer sequence delivers everything). *)
Theorem C31_read : forall (orc : oracle) (s : items) (k : N) (cs : list chunk)
                          (cur : option sdk) (tick : nat) (sizes : list nat),
  has_chunks s k cs -> Forall (fun p => 1 <= p) sizes ->
  exists (datas : list chunk) (n : nat),
    reads orc true (mkBt s cur tick) (new_reader k 0%Z) sizes
      = map (fun d => (d, false)) datas ++ repeat ([], true) n
    /\ (exists rest, concat cs = concat datas ++ rest)
    /\ (0 < n -> concat datas = concat cs)
    /\ length datas <= length (concat cs) + length cs
    /\ Forall2 (fun d p => length d <= p) datas (firstn (length datas) sizes).
Proof.
  intros orc s k cs cur tick sizes Hcs Hsz.
  destruct (reads_spec orc s k cs Hcs sizes (mkBt s cur tick) (new_reader k 0%Z) 0) as (datas & n & H1 & H2 & H3 & H4 & H5).
  - unfold rinv, new_reader. cbn [bitems rkey ridx rchunk rcount]. repeat split; try lia.
    intros _ _ E. inversion E.
  - exact Hsz.
  - exists datas, n. unfold mu, remaining, new_reader in H2, H3, H4. cbn [rchunk skipn] in H2, H3, H4.
    split; [exact H1|]. split; [exact H3|]. split; [exact H4|]. split; [|exact H5].
    rewrite Nat.sub_0_r in H2. exact H2.
Qed.
Print Assumptions C31_read.

(* ... hence: with more Reads than |concat cs| + |cs| the data arrives complete and the last Read is EOF *)
Theorem C31_read_all : forall (orc : oracle) (s : items) (k : N) (cs : list chunk)
                              (cur : option sdk) (tick : nat) (sizes : list nat),
  has_chunks s k cs -> Forall (fun p => 1 <= p) sizes -> length (concat cs) + length cs < length sizes ->
  let res := reads orc true (mkBt s cur tick) (new_reader k 0%Z) sizes in
  concat (map fst res) = concat cs /\ last res ([], false) = ([], true).
Proof.
  intros orc s k cs cur tick sizes Hcs Hsz Hlen res.
  destruct (C31_read orc s k cs cur tick sizes Hcs Hsz) as (datas & n & H1 & H2 & H3 & H4 & H5).
  assert (Hl : length res = length sizes).
  { unfold res. clear. generalize (mkBt s cur tick) (new_reader k 0%Z).
    induction sizes as [|p t IH]; intros b r; [reflexivity|]. cbn [reads].
    destruct (read orc true b r p) as [[x b1] r1]. cbn [length]. f_equal. apply IH. }
  fold res in H1. rewrite H1, app_length, map_length, repeat_length in Hl.
  assert (Hn : 0 < n) by lia. rewrite H1. split.
  - assert (Hz : forall (ds : list chunk) m, concat (map fst (map (fun d : chunk => (d, false)) ds ++ repeat (@nil N, true) m)) = concat ds).
    { clear. induction ds as [|d ds IH]; intros m.
      - cbn [map app concat]. induction m as [|m IHm]; [reflexivity|]. cbn. exact IHm.
      - cbn [map app concat fst]. f_equal. apply IH. }
    rewrite Hz. apply H3. exact Hn.
  - destruct n as [|n]; [lia|]. clear. replace (repeat (@nil N, true) (S n)) with (repeat (@nil N, true) n ++ [([], true)]).
    + rewrite app_assoc. apply last_last.
    + induction n as [|n IH]; [reflexivity|]. cbn [repeat app]. f_equal. exact IH.
Qed.
Print Assumptions C31_read_all.

(* UPDATE. Update(k) + one Encode per new chunk + Close on an entry that holds old <> []:
   no error, afterwards key k holds EXACTLY the chunks news at indices 0..|news|-1 (nothing left over
   when |news| < |old|, extended when |news| > |old|), every other key is untouched. *)
Theorem C31_update_replaces : forall (orc : oracle) (b : bt) (k : N) (old news : list chunk),
  has_chunks (bitems b) k old -> old <> [] ->
  exists b', sd_update orc b k news = (StOk, b')
    /\ has_chunks (bitems b') k news
    /\ others_same (bitems b) (bitems b') k.
Proof. intros orc b k. apply sd_update_spec. Qed.
Print Assumptions C31_update_replaces.

Theorem C31_update_missing : forall (orc : oracle) (b : bt) (k : N) (news : list chunk),
  has_chunks (bitems b) k [] ->
  exists b', sd_update orc b k news = (StNotFound, b') /\ bitems b' = bitems b.
Proof. intros orc b k. apply sd_update_missing. Qed.
Print Assumptions C31_update_missing.

(* ADD / UPSERT. *)
Theorem C31_add_creates : forall (orc : oracle) (b : bt) (k : N) (news : list chunk),
  has_chunks (bitems b) k [] ->
  exists b', sd_add orc b k news = (StOk, b')
    /\ has_chunks (bitems b') k news /\ others_same (bitems b) (bitems b') k.
Proof. intros orc b k. apply sd_add_spec. Qed.
Print Assumptions C31_add_creates.

Theorem C31_upsert_replaces : forall (orc : oracle) (b : bt) (k : N) (old news : list chunk),
  has_chunks (bitems b) k old ->
  exists b', sd_upsert orc b k news = (StOk, b')
    /\ has_chunks (bitems b') k news /\ others_same (bitems b) (bitems b') k.
Proof. intros orc b k. apply sd_upsert_spec. Qed.
Print Assumptions C31_upsert_replaces.

(* REMOVE. Remove(k) of an entry deletes every chunk of k and nothing of any other key. *)
Theorem C31_remove_local : forall (orc : oracle) (b : bt) (k : N) (cs : list chunk),
  has_chunks (bitems b) k cs -> cs <> [] ->
  exists b', sd_remove orc b k = (StOk, b')
    /\ (forall i, lookup (bitems b') (k, i) = None)
    /\ others_same (bitems b) (bitems b') k.
Proof.
  intros orc b k cs Hv Hne. destruct (sd_remove_spec orc k b cs Hv Hne) as (b' & H1 & H2 & H3).
  exists b'. split; [exact H1|]. split; [|exact H3]. intros i. rewrite (H2 i). apply nthZ_nil.
Qed.
Print Assumptions C31_remove_local.

Theorem C31_remove_missing : forall (orc : oracle) (b : bt) (k : N),
  has_chunks (bitems b) k [] ->
  exists b', sd_remove orc b k = (StNotFound, b') /\ bitems b' = bitems b.
Proof. intros orc b k. apply sd_remove_missing. Qed.
Print Assumptions C31_remove_missing.

(* ROUND TRIP: what Add/Upsert/Update wrote is what FindOne + GetCurrentValue's reader delivers. *)
Theorem C31_roundtrip : forall (orc : oracle) (b : bt) (k : N) (old news : list chunk) (sizes : list nat),
  has_chunks (bitems b) k old -> news <> [] -> Forall (fun p => 1 <= p) sizes ->
  length (concat news) + length news < length sizes ->
  exists b1, sd_upsert orc b k news = (StOk, b1) /\
    let '(found, b2) := sd_find_one orc b1 k in
    found = true /\ concat (map fst (reads orc true b2 (sd_reader b2) sizes)) = concat news.
Proof.
  intros orc b k old news sizes Hv Hne Hsz Hlen.
  destruct (sd_upsert_spec orc k b old news Hv) as (b1 & H1 & H2 & _).
  exists b1. split; [exact H1|]. unfold sd_find_one.
  rewrite (bt_find_hit orc b1 _ (has_chunks_first _ _ _ H2 Hne)). split; [reflexivity|].
  unfold sd_reader, bt_curkey. cbn [bcur fst snd].
  apply (C31_read_all orc (bitems b1) k news (Some (k, 0%Z)) (btick b1) sizes H2 Hsz Hlen).
Qed.
Print Assumptions C31_roundtrip.

(* THE DEFECT of the unchanged repository: the unrepaired reader (chunkIndex not advanced after
   the buffered remainder of a chunk is drained) delivers a chunk twice: one 3-byte chunk, 2-byte
   buffers; three Reads return 1 2 | 3 | 1 2. *)
Theorem C31_read_v0_refuted : forall orc : oracle, exists (s : items) (k : N) (cs : list chunk) (sizes : list nat),
  has_chunks s k cs /\ Forall (fun p => 1 <= p) sizes /\
  concat (map fst (reads orc false (mkBt s None 0) (new_reader k 0%Z) sizes)) = [1; 2; 3; 1; 2]%N /\
  concat cs = [1; 2; 3]%N.
Proof.
  intros orc. exists [((1%N, 0%Z), [1; 2; 3]%N)], 1%N, [[1; 2; 3]%N], [2; 2; 2].
  split.
  - intros i. unfold lookup, sdk_eqb, nthZ. cbn [fst snd]. cbn [N.eqb Pos.eqb andb].
    destruct (0 =? i)%Z eqn:E.
    + apply Z.eqb_eq in E. subst i. reflexivity.
    + apply Z.eqb_neq in E. destruct (i <? 0)%Z eqn:L; [reflexivity|]. apply Z.ltb_ge in L.
      destruct (Z.to_nat i) eqn:T; [lia|]. destruct n; reflexivity.
  - split; [repeat constructor|]. split; vm_compute; reflexivity.
Qed.
Print Assumptions C31_read_v0_refuted.

(* non-vacuity: a store with three keys built by the model's own Add; update with fewer / equal /
   more chunks; remove; and a read with 2-byte buffers through chunks of 3, 0 and 2 bytes *)
Example C31_nonvacuous :
  let orc := orc_succ in
  let b0 := mkBt [] None 0 in
  let b1 := snd (sd_add orc b0 1%N [[1;2;3]; []; [4;5]]%N) in
  let b2 := snd (sd_add orc b1 0%N [[7]]%N) in
  let b3 := snd (sd_add orc b2 2%N [[8]; [9]]%N) in
  map fst (reads orc true b3 (new_reader 1%N 0%Z) [2;2;2;2;2;2]) = [[1;2]; [3]; []; [4;5]; []; []]%N /\
  sort_items (bitems (snd (sd_update orc b3 1%N [[6]]%N))) =
    [((0,0%Z),[7]); ((1,0%Z),[6]); ((2,0%Z),[8]); ((2,1%Z),[9])]%N /\
  sort_items (bitems (snd (sd_update orc b3 2%N [[6]; [6]]%N))) =
    [((0,0%Z),[7]); ((1,0%Z),[1;2;3]); ((1,1%Z),[]); ((1,2%Z),[4;5]); ((2,0%Z),[6]); ((2,1%Z),[6])]%N /\
  sort_items (bitems (snd (sd_update orc b3 0%N [[6]; [6]; [6]]%N))) =
    [((0,0%Z),[6]); ((0,1%Z),[6]); ((0,2%Z),[6]); ((1,0%Z),[1;2;3]); ((1,1%Z),[]); ((1,2%Z),[4;5]); ((2,0%Z),[8]); ((2,1%Z),[9])]%N /\
  sort_items (bitems (snd (sd_remove orc b3 1%N))) = [((0,0%Z),[7]); ((2,0%Z),[8]); ((2,1%Z),[9])]%N.
Proof. vm_compute. repeat split. Qed.

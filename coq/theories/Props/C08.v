(* C08 — a crash during commit leaves all-or-nothing, with earlier commits intact.
   Over ProtoCrash: the durable state when the committing process dies just before any storage-interface call of
   its commit, or in the middle of a batched registry update. "The recovery the system performs" is the identity
   on the public path of the unchanged code (C09: maintenance never runs), so the crash state is what later
   transactions see. The full statement is FALSE of the code (three refutations below, reproduced on the real
   code); what holds for every transaction, state and crash point is the first theorem. *)
From Coq Require Import List ZArith NArith Bool.
From SopVerif Require Import Proto ProtoProofs ProtoCrash Corr.Proto Corr.C08.
Import ListNotations.
Local Open Scope N_scope.

(* dying anywhere before the phase-2 registry update: every node that existed before the commit (in particular every
   node written by an earlier committed transaction) still resolves to the same, still present blob at the same
   version: none of the transaction's changes to existing data is visible and earlier commits are intact *)
Theorem C08_crash_before_flip_shows_nothing :
  forall t d k d', wf_disk d -> W d t -> crash t d k = (false, d') ->
  forall l h0, lookup (reg d) l = Some h0 ->
    resolve d' l = Some (active h0)
    /\ (exists h, lookup (reg d') l = Some h /\ ver h = ver h0)
    /\ (In (active h0) (blobs d) -> In (active h0) (blobs d')).
Proof. exact crash_before_flip_keeps_view. Qed.
Print Assumptions C08_crash_before_flip_shows_nothing.

(* BOUNDED (one concrete transaction with two updated, one removed and one added node; all 41 crash points, by
   computation): at every crash point the nodes resolve as before the transaction or as after it *)
Theorem C08_crash_points_view_bounded :
  forallb (fun k => let '(_, d') := crash t_c d_c k in
                    list_optN_eqb (view_of d') old_view || list_optN_eqb (view_of d') old_view_staged
                    || list_optN_eqb (view_of d') new_view || list_optN_eqb (view_of d') new_view_pending)
          (List.seq 0%nat 41%nat) = true.
Proof. exact crash_points_view_bounded. Qed.
Print Assumptions C08_crash_points_view_bounded.

(* refuted: the item count is persisted before the flip — dying in between shows the new count with the old items *)
Theorem C08_count_ahead_of_items_refuted :
  exists t d k d', wf_disk d /\ W d t /\ crash t d k = (false, d')
    /\ view_of d' = old_view_staged /\ count_of d 1 = 7%Z /\ count_of d' 1 = 9%Z.
Proof. exact crash_count_ahead_of_items_refuted. Qed.
Print Assumptions C08_count_ahead_of_items_refuted.

(* refuted: the phase-2 registry update is written one handle at a time — dying inside it shows a mixture *)
Theorem C08_torn_flip_refuted :
  exists t d j d', torn_flip t d j = Some d' /\ view_of d' <> old_view /\ view_of d' <> old_view_staged
    /\ view_of d' <> new_view /\ view_of d' <> new_view_pending
    /\ resolve d' 10 = Some 30 /\ resolve d' 13 = Some 13.
Proof. exact torn_flip_mixed_view_refuted. Qed.
Print Assumptions C08_torn_flip_refuted.

(* refuted ("the stores remain writable"): dying during phase 1 leaves a claimed inactive id with a current
   timestamp; the next writer of that node is refused until the one-hour expiry *)
Theorem C08_next_writer_blocked_refuted :
  exists t d k d', crash t d k = (false, d') /\ (exists d1 tr1, run t d None = (Committed, d1, tr1))
    /\ (exists d2 tr2, run t d' None = (Conflicted, d2, tr2)).
Proof. exact crash_leaves_claim_blocking_next_writer_refuted. Qed.
Print Assumptions C08_next_writer_blocked_refuted.

(* C08 — a crash during commit leaves all-or-nothing, with earlier commits intact.
   Over ProtoCrash: the durable state when the committing process dies just before any storage-interface call of
   its commit, or in the middle of a batched registry update. "The recovery the system performs" is the identity
   on the public path of the unchanged code (C09: maintenance never runs), so the crash state is what later
   transactions see. The full statement is FALSE of the code (three refutations below, reproduced on the real
   code); what holds for every transaction, state and crash point is the first theorem. *)
From Coq Require Import List ZArith NArith Bool.
From SopVerif Require Import Proto ProtoProofs ProtoSuccess ProtoCrash ProtoRecover Corr.Proto Corr.C08.
Import ListNotations.
Local Open Scope N_scope.

(* dying anywhere before the phase-2 registry update: every node that existed before the commit (in particular every
   node written by an earlier committed transaction) still resolves to the same, still present blob at the same
   version: none of the transaction's changes to existing data is visible and earlier commits are intact *)
Theorem C08_crash_before_flip_shows_nothing :
  forall t d k d', wf_disk d -> W d t -> crash t d k = (false, d') ->
  forall l h0, lookup (reg d) l = Some h0 ->
    resolve d' l = Some (active h0)
    /\ (exists h, lookup (reg d') l = Some h /\ ver h = ver h0)
    /\ (In (active h0) (blobs d) -> In (active h0) (blobs d')).
Proof. exact crash_before_flip_keeps_view. Qed.
Print Assumptions C08_crash_before_flip_shows_nothing.

(* BOUNDED (one concrete transaction with two updated, one removed and one added node; all 41 crash points, by
   computation): at every crash point the nodes resolve as before the transaction or as after it *)
Theorem C08_crash_points_view_bounded :
  forallb (fun k => let '(_, d') := crash t_c d_c k in
                    list_optN_eqb (view_of d') old_view || list_optN_eqb (view_of d') old_view_staged
                    || list_optN_eqb (view_of d') new_view || list_optN_eqb (view_of d') new_view_pending)
          (List.seq 0%nat 41%nat) = true.
Proof. exact crash_points_view_bounded. Qed.
Print Assumptions C08_crash_points_view_bounded.

(* refuted: the item count is persisted before the flip — dying in between shows the new count with the old items *)
Theorem C08_count_ahead_of_items_refuted :
  exists t d k d', wf_disk d /\ W d t /\ crash t d k = (false, d')
    /\ view_of d' = old_view_staged /\ count_of d 1 = 7%Z /\ count_of d' 1 = 9%Z.
Proof. exact crash_count_ahead_of_items_refuted. Qed.
Print Assumptions C08_count_ahead_of_items_refuted.

(* refuted: the phase-2 registry update is written one handle at a time — dying inside it shows a mixture *)
Theorem C08_torn_flip_refuted :
  exists t d j d', torn_flip t d j = Some d' /\ view_of d' <> old_view /\ view_of d' <> old_view_staged
    /\ view_of d' <> new_view /\ view_of d' <> new_view_pending
    /\ resolve d' 10 = Some 30 /\ resolve d' 13 = Some 13.
Proof. exact torn_flip_mixed_view_refuted. Qed.
Print Assumptions C08_torn_flip_refuted.

(* refuted ("the stores remain writable"): dying during phase 1 leaves a claimed inactive id with a current
   timestamp; the next writer of that node is refused until the one-hour expiry *)
Theorem C08_next_writer_blocked_refuted :
  exists t d k d', crash t d k = (false, d') /\ (exists d1 tr1, run t d None = (Committed, d1, tr1))
    /\ (exists d2 tr2, run t d' None = (Conflicted, d2, tr2)).
Proof. exact crash_leaves_claim_blocking_next_writer_refuted. Qed.
Print Assumptions C08_next_writer_blocked_refuted.

(* PARTIAL ("after the recovery the system performs"): the recovery the code CONTAINS for a torn phase-2 update —
   priorityRollback / doPriorityRollbacks write the images of the priority log back — restores, for every consistent
   transaction and EVERY subset of flipped handles that reached the registry before the crash, the registry of the
   end of phase 1 exactly: every node that existed before the commit resolves to the blob and version it had
   (nothing of the transaction is visible, earlier commits intact). Partial because that recovery is not started on
   the public path of the unchanged code (C09_public_path_never_recovers), so the torn state of
   C08_torn_flip_refuted is what later transactions see. The premise "the log holds the pre-activation images"
   is the model's PlogAdd payload, compared with the implementation's on every run (Corr.Proto.call_eqb/disk_eqb). *)
Theorem C08_torn_flip_recovered_partial :
  forall t d written, SW d t -> wf_disk d -> W d t ->
  exists d1, torn_flip_sub t d written = Some d1 /\
  exists d2, recover d1 = Some d2 /\
    (forall l, lookup (reg d2) l = lookup (reg4 d t) l) /\ plog d2 = None /\
    forall l h0, lookup (reg d) l = Some h0 ->
      resolve d2 l = Some (active h0)
      /\ (exists h, lookup (reg d2) l = Some h /\ ver h = ver h0)
      /\ (In (active h0) (blobs d) -> In (active h0) (blobs d2)).
Proof.
  intros t d written HS Hwf HW.
  destruct (torn_flip_sub_defined d t HS written) as [d1 H1]. exists d1. split; [exact H1|].
  destruct (recover_defined d1) as [d2 H2]. exists d2. split; [exact H2|].
  destruct (torn_flip_recover_registry d t HS written d1 d2 H1 H2) as [Hreg [_ Hpl]].
  split; [exact Hreg|]. split; [exact Hpl|].
  exact (torn_flip_recover_view d t HS written d1 d2 Hwf HW H1 H2).
Qed.
Print Assumptions C08_torn_flip_recovered_partial.

(* the same for the prefix form of the torn update used in C08_torn_flip_refuted *)
Theorem C08_torn_prefix_recovered_partial :
  forall t d j d1 d2, SW d t -> wf_disk d -> W d t -> torn_flip t d j = Some d1 -> recover d1 = Some d2 ->
  forall l h0, lookup (reg d) l = Some h0 ->
    resolve d2 l = Some (active h0)
    /\ (exists h, lookup (reg d2) l = Some h /\ ver h = ver h0)
    /\ (In (active h0) (blobs d) -> In (active h0) (blobs d2)).
Proof. intros t d j d1 d2 HS Hwf HW. exact (torn_prefix_recover_view d t HS j d1 d2 Hwf HW). Qed.
Print Assumptions C08_torn_prefix_recovered_partial.

(* hypotheses satisfiable; the torn flip of the concrete transaction recovered for all 8 subsets; and what happens
   if the log held the activated images instead (recovery completes the flip of a commit that never committed) *)
Example C08_recovery_nonvacuous : SW d_ex t_ex /\ wf_disk d_ex /\ W d_ex t_ex.
Proof. exact recover_hyps_nonvacuous. Qed.
Example C08_torn_flip_recovered_ex :
  forallb (fun written =>
    match torn_flip_sub t_c d_c written with
    | Some d1 => match recover d1 with
                 | Some d2 => list_optN_eqb (view_of d2) old_view_staged
                 | None => false
                 end
    | None => false
    end) [[]; [10]; [13]; [11]; [10; 13]; [10; 11]; [13; 11]; [10; 13; 11]] = true
  /\ (exists d1, torn_flip_sub t_c d_c [10] = Some d1 /\ resolve d1 10 = Some 30 /\ resolve d1 13 = Some 13).
Proof. exact torn_flip_recovered_ex. Qed.
Example C08_activated_images_do_not_restore :
  exists d1 d2 s1 s2, torn_flip_sub t_c d_c [10] = Some d1
    /\ phase1 t_c (init d_c None) = (Go, s1) /\ log finalizeCommit s1 = (true, s2)
    /\ recover_with (to_flip t_c s2) d1 = Some d2
    /\ resolve d2 10 = Some 30 /\ resolve d2 13 = Some 33.
Proof. exact activated_images_do_not_restore. Qed.

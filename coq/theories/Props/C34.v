(* C34 — access-control decisions respect system, ownership and grant rules.
   All theorems quantify over every caller, resource name, ACL (visibility, owner, both grant maps),
   action and blueprint; strings are arbitrary byte lists, no finiteness bound. *)
From Coq Require Import List NArith Bool.
From SopVerif Require Import Gen.RbacConsts Rbac RbacProofs.
Import ListNotations.

(* Vocabulary of the statements (defined in RbacProofs.v):
     core_name n      := n = "SOP" \/ n = "LongTermMemory"
     destructive a    := a = ActionWrite \/ a = ActionDelete
     blocked n a      := core_name n /\ destructive a
     owner_rule c acc := a_owner acc <> "" /\ c_user c = a_owner acc
     public_rule acc a:= (a_vis acc = "public" \/ a_vis acc = "") /\ (a = ActionRead \/ a = ActionList)
     grants_prop l a  := In a l \/ In "*" l
     role_granted_prop c acc a := exists role l, In role (c_roles c) /\ lookup role (a_roles acc) = Some l /\ grants_prop l a
     user_granted_prop c acc a := exists l, lookup (c_user c) (a_users acc) = Some l /\ grants_prop l a
     entitled c acc a := In "Admin" (c_roles c) \/ owner_rule c acc \/ public_rule acc a
                         \/ role_granted_prop c acc a \/ user_granted_prop c acc a
   Edge cases visible in these definitions: an empty visibility counts as public; an empty owner id
   never matches; a caller with an empty user id (e.g. a context without AuthContext) holds the
   grant stored under the key ""; role and action names are compared byte for byte. *)

(* The set of core names is exactly {"SOP", "LongTermMemory"}. *)
Theorem C34_core_names : forall name, is_system_readonly name = true <-> core_name name.
Proof. exact is_system_readonly_spec. Qed.
Print Assumptions C34_core_names.

(* Core system resources can never be written or deleted, by anyone:
   whatever the caller (admin, owner, system) and whatever the ACL grants. *)
Theorem C34_core_readonly : forall c name acc action,
  core_name name -> destructive action ->
  check_policy c name acc action = DeniedReadOnly /\ can_perform c name acc action = false.
Proof.
  intros c name acc action Hn Ha.
  assert (B : blocked name action) by (split; assumption).
  split; [apply check_policy_blocked; exact B|].
  unfold can_perform. rewrite (check_policy_blocked _ _ _ _ B). reflexivity.
Qed.
Print Assumptions C34_core_readonly.

(* System-visibility resources are accessible only to system callers (and to all of them, except
   for the read-only rule above); roles, ownership and grants play no part. *)
Theorem C34_system_only : forall c name acc action, a_vis acc = VisibilitySystem ->
  (authorize c acc action = true <-> c_system c = true) /\
  (can_perform c name acc action = true <-> c_system c = true /\ ~ blocked name action).
Proof.
  intros c name acc action Hv. rewrite can_perform_spec, (authorize_system _ _ _ Hv). tauto.
Qed.
Print Assumptions C34_system_only.

(* Otherwise an action is allowed exactly to the entitled. *)
Theorem C34_characterisation : forall c acc action, a_vis acc <> VisibilitySystem ->
  (authorize c acc action = true <-> entitled c acc action).
Proof. exact authorize_characterisation. Qed.
Print Assumptions C34_characterisation.

(* The complete decision, for every input: CheckPolicy / EnforcePolicy / CanPerformAction allow iff ... *)
Theorem C34_decision : forall c name acc action,
  can_perform c name acc action = true <->
  ~ blocked name action /\
  ((a_vis acc = VisibilitySystem /\ c_system c = true) \/ (a_vis acc <> VisibilitySystem /\ entitled c acc action)).
Proof.
  intros c name acc action. rewrite can_perform_spec.
  destruct (str_eq_dec (a_vis acc) VisibilitySystem) as [E|E].
  - rewrite (authorize_system _ _ _ E). tauto.
  - rewrite (authorize_characterisation _ _ _ E). tauto.
Qed.
Print Assumptions C34_decision.

(* the error value distinguishes the two refusals *)
Theorem C34_verdicts : forall c name acc action,
  (check_policy c name acc action = DeniedReadOnly <-> blocked name action) /\
  (check_policy c name acc action = Allowed <-> can_perform c name acc action = true) /\
  (check_policy c name acc action = DeniedUnauthorized <-> ~ blocked name action /\ authorize c acc action = false).
Proof.
  intros c name acc action. rewrite can_perform_check. destruct (blocked_dec name action) as [B|B].
  - rewrite (check_policy_blocked _ _ _ _ B).
    split; [|split]; split; intro H; try discriminate H; try reflexivity; try exact B.
    destruct H as [H _]. contradiction.
  - rewrite (check_policy_not_blocked _ _ _ _ B).
    destruct (authorize c acc action) eqn:Ea; (split; [|split]); split; intro H;
      try discriminate H; try reflexivity; try contradiction; try (destruct H as [_ H]; discriminate H).
    split; [exact B|reflexivity].
Qed.
Print Assumptions C34_verdicts.

(* The UI capability map agrees with the decision for every action of the blueprint, provided no two
   different actions of the blueprint share a capability key. decision = the evaluator's answer when the
   blueprint has one, CanPerformAction otherwise. *)
Theorem C34_ui_agrees_partial : forall reg assetType acts ev c asset local,
  caps_distinct acts ->
  forall a, In a acts ->
  lookup (action_to_ui_capability a)
         (resolve_rbac_map (register assetType (mkBlueprint acts ev) reg) c assetType asset local)
  = Some (decision ev c asset (match local with Some l => l | None => zero_access end) a).
Proof.
  intros reg assetType acts ev c asset local Hd a Hin.
  unfold resolve_rbac_map, register. cbn [lookup]. rewrite str_eqb_refl. cbn [bp_eval bp_actions].
  apply resolve_agrees; assumption.
Qed.
Print Assumptions C34_ui_agrees_partial.

(* ... and the map has no other keys; an unregistered asset type yields the empty map *)
Theorem C34_ui_keys : forall reg assetType acts ev c asset local k,
  lookup k (resolve_rbac_map (register assetType (mkBlueprint acts ev) reg) c assetType asset local) <> None
  <-> exists a, In a acts /\ action_to_ui_capability a = k.
Proof.
  intros. unfold resolve_rbac_map, register. cbn [lookup]. rewrite str_eqb_refl. cbn [bp_eval bp_actions].
  apply resolve_keys.
Qed.
Print Assumptions C34_ui_keys.

Theorem C34_ui_unregistered : forall reg c assetType asset local,
  lookup assetType reg = None -> resolve_rbac_map reg c assetType asset local = [].
Proof. intros reg c assetType asset local H. unfold resolve_rbac_map. rewrite H. reflexivity. Qed.
Print Assumptions C34_ui_unregistered.

(* The hypothesis of C34_ui_agrees_partial holds for every blueprint made of the declared actions (in any
   order, with repeats) and of any other actions whose text is not one of the capability keys. *)
Theorem C34_ui_vocabulary : forall acts,
  (forall a, In a acts -> In a declared_actions \/ ~ In a declared_capabilities) -> caps_distinct acts.
Proof. exact vocabulary_caps_distinct. Qed.
Print Assumptions C34_ui_vocabulary.

(* In general the key holds the decision of the LAST blueprint action that maps to it. *)
Theorem C34_ui_last_wins : forall ev c asset acc l1 a l2,
  (forall b, In b l2 -> action_to_ui_capability b <> action_to_ui_capability a) ->
  lookup (action_to_ui_capability a) (resolve_actions ev c asset acc (l1 ++ a :: l2)) = Some (decision ev c asset acc a).
Proof. exact resolve_last_wins. Qed.
Print Assumptions C34_ui_last_wins.

(* Without the hypothesis "always agrees" is false: a blueprint listing the action "can_edit" after
   ActionWrite shows can_edit = true to a user who may not write (reproduced on the implementation,
   finding ui-map-alias-last-wins). *)
Definition s_bob : str := [98; 111; 98]%N.
Definition s_alice : str := [97; 108; 105; 99; 101]%N.
Definition s_kb1 : str := [107; 98; 49]%N.

Theorem C34_ui_agrees_refuted : exists c asset acc acts a,
  In a acts /\
  lookup (action_to_ui_capability a) (resolve_actions None c asset acc acts) = Some true /\
  can_perform c asset acc a = false.
Proof.
  exists (mkCaller s_bob [] false), s_kb1,
         (mkAccess VisibilityPrivate s_alice [] [(s_bob, [UICapabilityEdit])]),
         [ActionWrite; UICapabilityEdit], ActionWrite.
  split; [left; reflexivity|]. split; vm_compute; reflexivity.
Qed.
Print Assumptions C34_ui_agrees_refuted.

(* ------------------------------------------------------------------ non-vacuity *)

(* every clause of `entitled` is inhabited on its own, and so is its negation *)
Example C34_nonvacuous :
  let acc := mkAccess VisibilityPrivate s_alice [(RoleUser, [ActionWrite])] [(s_bob, [grant_wildcard])] in
  authorize (mkCaller s_kb1 [RoleGuest; RoleAdmin] false) acc ActionDelete = true /\      (* admin *)
  authorize (mkCaller s_alice [] false) acc ActionDelete = true /\                         (* owner *)
  authorize (mkCaller s_kb1 [RoleUser] false) acc ActionWrite = true /\                    (* role grant *)
  authorize (mkCaller s_kb1 [RoleUser] false) acc ActionDelete = false /\
  authorize (mkCaller s_bob [] false) acc ActionAISelect = true /\                         (* user grant, wildcard *)
  authorize anonymous acc ActionRead = false /\                                            (* private: nothing *)
  authorize anonymous zero_access ActionRead = true /\                                     (* empty visibility = public *)
  authorize anonymous zero_access ActionWrite = false /\
  authorize (mkCaller s_alice [RoleAdmin] false) (mkAccess VisibilitySystem s_alice [] []) ActionRead = false /\
  authorize (mkCaller [] [] true) (mkAccess VisibilitySystem s_alice [] []) ActionRead = true /\
  can_perform (mkCaller s_alice [RoleAdmin] true) [83; 79; 80]%N acc ActionWrite = false /\
  can_perform (mkCaller s_alice [RoleAdmin] true) [83; 79; 80]%N acc ActionRead = true /\
  caps_distinct declared_actions.
Proof. cbv zeta. repeat split; try (vm_compute; reflexivity). exact declared_caps_distinct_closed. Qed.

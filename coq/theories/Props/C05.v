(* C05 — a unique-key store never ends up with two items under the same key. *)
From Coq Require Import List ZArith NArith Bool Permutation.
From SopVerif Require Import Merge MergeProofs.
Import ListNotations.
Local Open Scope Z_scope.

(* one transaction: whatever Add / AddIfNotExist / Upsert / Update / UpdateKey / Remove / Get calls it makes
   on a view with distinct keys, its view keeps distinct keys (duplicate check of node.add) *)
Theorem C05_seq : forall os snap nid res w,
  nodupk snap -> run_ops true snap nid os = (res, w) -> nodupk (wlocal w) /\ adjacent_dup (keys (wlocal w)) = false.
Proof.
  intros os snap nid res w Hn Hrun. unfold run_ops in Hrun.
  assert (H : nodupk (wlocal w)) by (eapply exec_ops_nodup in Hrun; eauto).
  split; [exact H|apply nodup_no_adjacent; exact H].
Qed.
Print Assumptions C05_seq.

(* a refetch-and-merge round: ANY tracker, in ANY order, replayed on a store with distinct keys either
   returns a merge error (no commit) or leaves a store with distinct keys *)
Theorem C05_replay : forall innode es es' s t, Permutation es es' -> nodupk s ->
  match replay true innode es' (s, t) with
  | inl _ => True
  | inr (s', _) => nodupk s'
  end.
Proof.
  intros innode es es' s t _ Hn. destruct (replay true innode es' (s, t)) as [x|[s' t']] eqn:E; auto.
  eapply replay_nodup; eauto.
Qed.
Print Assumptions C05_replay.

(* the direct commit path *)
Theorem C05_install : forall local t s, nodupk local -> nodupk s -> nodupk (install local t s).
Proof. exact nodupk_install. Qed.
Print Assumptions C05_install.

(* any number of writers, any interleaving of their commits: every writer reads some earlier committed
   store, makes any calls, and commits directly or after refetch rounds (any tracker, any replay order);
   the committed store of a unique store never holds two equal keys, and its ordered scan never shows two
   adjacent equal keys *)
Theorem C05_conc : forall innode init s, nodupk init -> reach innode init s ->
  nodupk s /\ adjacent_dup (keys s) = false.
Proof.
  intros innode init s Hi Hr. assert (H : nodupk s) by (eapply reach_nodup; eauto).
  split; [exact H|apply nodup_no_adjacent; exact H].
Qed.
Print Assumptions C05_conc.

(* the very first items of an empty store: whatever the first-root race of C04 does, the root blob holds
   the items of ONE writer's view, which has distinct keys *)
Theorem C05_first_root : forall sch os nid res w b,
  r_blob (root_run sch) = Some b -> run_ops true [] nid os = (res, w) -> nodupk (wlocal w).
Proof.
  intros sch os nid res w b _ Hrun. eapply C05_seq; eauto. constructor.
Qed.
Print Assumptions C05_first_root.

(* non-vacuity: two writers adding the same key; the second one's replay is refused, the store is reachable
   and has 4 distinct keys *)
Example C05_nonvacuous :
  let init := [(10, mkItem 1 0 10); (20, mkItem 2 0 20); (30, mkItem 3 0 30)] in
  let w1 := snd (run_ops true init 1000 [mkOp OAdd 5 1]) in
  let w2 := snd (run_ops true init 2000 [mkOp OAdd 5 2]) in
  let cur := install (wlocal w1) (wtrk w1) init in
  reach true init cur /\ length cur = 4%nat /\ replay true true (wtrk w2) (cur, []) = inl EAddDup.
Proof.
  cbv zeta. split; [|split; vm_compute; reflexivity].
  eapply reach_direct with (snap := [(10, mkItem 1 0 10); (20, mkItem 2 0 20); (30, mkItem 3 0 30)]) (os := [mkOp OAdd 5 1]) (nid := 1000%N).
  - constructor.
  - constructor.
  - reflexivity.
Qed.

(* C09 — work left by a crashed transaction is recovered by later transactions.

   Statement: once the documented ages have passed, starting new transactions rolls back what a
   crashed transaction left half-finished; its logs are removed and the data it staged no longer
   blocks other writers.

   Result on the unchanged tree: REFUTED for the public path (C09_recovered_refuted,
   C09_public_path_keeps_logs: Begin is the only caller of onIdle and onIdle returns while no
   B-tree is open, which is always the case in Begin), PROVED for the maintenance routine entered
   behind that guard (C09_partial_...), PROVED for the inactive-id part (C09_inactive_id_...), and
   two further defects of the recovery logic behind the guard are exhibited (C09_hook_..._refuted). *)
From Coq Require Import List ZArith NArith Bool.
From SopVerif Require Import Gen.Consts Gen.MaintConsts Maintenance MaintenanceProofs.
Import ListNotations.
Local Open Scope Z_scope.

(* ------------------------------------------------------------------ public path: refuted *)

(* Begin, as written, never performs maintenance: for every state and instant it is the identity. *)
Theorem C09_begin_is_identity : forall now st, begin_txn now st = st.
Proof. exact begin_txn_id. Qed.
Print Assumptions C09_begin_is_identity.

(* For EVERY durable state, every crashed transaction id whose log files exist, every number of
   later public-path transactions at arbitrary instants (each: Begin, then a body that leaves
   foreign log files alone — the commit protocol only adds/removes files named by its own id,
   checked on every recorded trace): the crashed transaction's .log and .plg are still there. *)
Theorem C09_public_path_keeps_logs : forall bodies tid d m,
  Forall (fun nb => keeps_tlog tid (snd nb) /\ keeps_plog tid (snd nb)) bodies ->
  (has_tlog d tid = true -> has_tlog (fst (public_seq bodies (d, m))) tid = true) /\
  (has_plog d tid = true -> has_plog (fst (public_seq bodies (d, m))) tid = true) /\
  snd (public_seq bodies (d, m)) = m.
Proof.
  intros bodies tid d m HF. split; [|split].
  - apply public_seq_keeps_tlog. eapply Forall_impl; [|exact HF]. intros a [H _]; exact H.
  - apply public_seq_keeps_plog. eapply Forall_impl; [|exact HF]. intros a [_ H]; exact H.
  - apply public_seq_maint.
Qed.
Print Assumptions C09_public_path_keeps_logs.

(* The full statement is false of the model: a crash right after the first TlogAdd leaves a log
   that survives arbitrarily many later transactions, however far the clock is advanced. *)
Definition crashed_after_first_tlog_add : disk :=
  mkDisk [] [] [mkStoreS 1 12 true true true] [mkTLog 7 0 [mkEntry lockTrackedItems false 0 [] [] [] []]] [].

Theorem C09_recovered_refuted :
  exists d tid, has_tlog d tid = true /\
    forall (nows : list Z) m,
      (* n transactions that do nothing but Begin ... Commit of an unrelated store *)
      has_tlog (fst (public_seq (map (fun now => (now, fun x : disk => x)) nows) (d, m))) tid = true.
Proof.
  exists crashed_after_first_tlog_add, 7%N. split; [reflexivity|].
  intros nows m. apply public_seq_keeps_tlog; [|reflexivity].
  induction nows as [|n r IH]; cbn [map]; constructor; [intros d H; exact H|exact IH].
Qed.
Print Assumptions C09_recovered_refuted.

(* ------------------------------------------------------------------ behind the guard: partial *)

(* C09_partial (transaction logs): the maintenance routine ENTERED with a non-empty store list, in
   a fresh process (lastOnIdleRunTime = 0, no hour being processed, hour lock free), at any instant
   at which some transaction log is old enough: one eligible log is rolled back and removed —
   whatever the log contains and whatever the durable state is — and no other log is touched. *)
Theorem C09_partial_log_removed : forall nbtrees cs now d m,
  (0 < nbtrees)%nat ->
  m_lastIdle m = 0 -> m_hour m = None -> m_hbp m = false -> cleanupCheckIntervalMinutes * minMs < now ->
  (exists t, In t (d_tlogs d) /\ tlog_eligible now (tl_mtime t) = true) ->
  exists t, In t (d_tlogs d) /\ tlog_eligible now (tl_mtime t) = true /\
    has_tlog (fst (on_idle nbtrees cs now (d, m))) (tl_tid t) = false /\
    (forall u, u <> tl_tid t -> has_tlog (fst (on_idle nbtrees cs now (d, m))) u = has_tlog d u).
Proof.
  intros nb cs now d m Hnb. destruct nb as [|n]; [inversion Hnb|]. cbn [on_idle]. apply maintenance_fresh_removes_one.
Qed.
Print Assumptions C09_partial_log_removed.

(* the same with the only crashed transaction's log: after one entry no transaction log is left *)
Corollary C09_partial_single_log_gone : forall cs now d m t,
  d_tlogs d = [t] -> tlog_eligible now (tl_mtime t) = true ->
  m_lastIdle m = 0 -> m_hour m = None -> m_hbp m = false -> cleanupCheckIntervalMinutes * minMs < now ->
  has_tlog (fst (on_idle 1 cs now (d, m))) (tl_tid t) = false.
Proof.
  intros cs now d m t Hd He Hl Hh Hb Hn.
  destruct (C09_partial_log_removed 1 cs now d m ltac:(constructor) Hl Hh Hb Hn) as [u [Hin [_ [Hgone _]]]].
  { exists t. rewrite Hd. split; [left; reflexivity|exact He]. }
  rewrite Hd in Hin. destruct Hin as [->|[]]. exact Hgone.
Qed.
Print Assumptions C09_partial_single_log_gone.

(* C09_partial (priority log): first entry of a freshly started standalone process sweeps the
   crashed transaction's priority log whatever its age: every registry handle it names gets the
   logged (pre-commit) image back, and the .plg file is removed. *)
Theorem C09_partial_priority_log_swept : forall now d m p,
  m_startup m = true -> d_plogs d = [p] -> forallb (ver_repairable d) (pl_handles p) = true ->
  fst (proc_restart now (d, m)) = plog_remove (reg_put d (pl_handles p)) (pl_tid p) /\
  d_plogs (fst (proc_restart now (d, m))) = [] /\ m_startup (snd (proc_restart now (d, m))) = false.
Proof. exact restart_sweeps_single_plog. Qed.
Print Assumptions C09_partial_priority_log_swept.

(* What "the documented ages" are in the code: hour buckets, not minutes.  A transaction log is
   eligible iff it was last written at least two clock hours before the current clock hour, a
   priority log iff in an earlier clock hour.  3 h (resp. 1 h) of age always suffice. *)
Theorem C09_age_thresholds : forall now mtime,
  (tlog_eligible now mtime = true <-> hour_of mtime + 2 <= hour_of now) /\
  (plog_eligible now mtime = true <-> hour_of mtime + 1 <= hour_of now) /\
  (mtime + 3 * hourMs <= now -> tlog_eligible now mtime = true) /\
  (mtime + hourMs <= now -> plog_eligible now mtime = true).
Proof.
  intros. split; [apply tlog_eligible_iff|]. split; [apply plog_eligible_iff|]. split; [apply tlog_age_sufficient|apply plog_age_sufficient].
Qed.
Print Assumptions C09_age_thresholds.

(* "about 5 minutes" / "about an hour" do not suffice: a priority log 59 minutes old and a
   transaction log 2 h 59 min old can both be skipped. *)
Example C09_documented_ages_not_sufficient :
  plog_eligible (10 * hourMs + 59 * minMs + 59000) (10 * hourMs) = false /\
  tlog_eligible (12 * hourMs + 59 * minMs) (11 * hourMs) = false.
Proof. split; reflexivity. Qed.

(* ------------------------------------------------------------------ the inactive-id part *)

(* A handle on which a crashed writer staged an inactive id (both physical ids in use, stamp > 0):
   the next writer that read the current version is refused while the stamp is younger than one
   hour, and admitted afterwards by the clear-and-reallocate branch of commitUpdatedNodes: the
   stale inactive id is replaced by the writer's own, the active id and version are untouched. *)
Theorem C09_inactive_id_unblocks : forall now nid rv h,
  a_and_b_in_use h = true -> h_del h = false -> h_ver h = rv -> 0 < h_wip h ->
  (now - handleInactiveExpiryHours * hourMs <= h_wip h -> stage_update now nid rv h = None) /\
  (h_wip h < now - handleInactiveExpiryHours * hourMs ->
     exists h', stage_update now nid rv h = Some h' /\ h_inactive h' = nid /\ h_active h' = h_active h /\ h_wip h' = now
                /\ h_ver h' = h_ver h /\ h_lid h' = h_lid h).
Proof. exact stage_update_blocked_then_free. Qed.
Print Assumptions C09_inactive_id_unblocks.

(* a handle a crashed remover marked deleted is un-deleted by an UPDATING writer after the hour
   (commitRemovedNodes has no such branch: a removing writer stays refused, see design/C09.md) *)
Theorem C09_deleted_mark_heals_for_updates : forall now nid rv h,
  h_del h = true -> h_ver h = rv -> 0 < h_wip h -> h_wip h < now - handleInactiveExpiryHours * hourMs ->
  a_and_b_in_use h = false ->
  exists h', stage_update now nid rv h = Some h' /\ h_del h' = false.
Proof. exact stage_update_deleted_heals. Qed.
Print Assumptions C09_deleted_mark_heals_for_updates.

(* ------------------------------------------------------------------ defects of the logic behind the guard *)

(* The log-driven rollback treats a transaction whose last logged step is finalizeCommit as
   uncommitted.  If the crash came after the phase-2 registry flip (and the removal of the
   priority log) it deletes the blob that is now ACTIVE: a committed node becomes unreadable. *)
Theorem C09_hook_commit_point_refuted :
  exists d t, d_tlogs d = [t] /\ dangling_handles d = [] /\
    dangling_handles (tlog_rollback unknown d t) <> [] /\ has_tlog (tlog_rollback unknown d t) (tl_tid t) = false.
Proof.
  eexists wit_commit_point, _. split; [reflexivity|]. split; [reflexivity|]. split; [vm_compute; discriminate|reflexivity].
Qed.
Print Assumptions C09_hook_commit_point_refuted.

(* rollbackNewRootNodes, run by a maintenance transaction (logger state "unknown"), removes the
   root blob but leaves the root handle registered; a transaction past commitNewRootNodes would
   have unregistered it. *)
Theorem C09_hook_new_root_handle_left_refuted :
  exists d t, d_tlogs d = [t] /\ d_reg d <> [] /\
    d_reg (tlog_rollback unknown d t) = d_reg d /\ d_blobs (tlog_rollback unknown d t) = [] /\
    d_reg (tlog_rollback (commitNewRootNodes + 1) d t) = [].
Proof.
  destruct new_root_witness as [t [Ht [A [B C]]]]. exists wit_new_root, t.
  split; [exact Ht|]. split; [discriminate|]. repeat split; assumption.
Qed.
Print Assumptions C09_hook_new_root_handle_left_refuted.

(* ------------------------------------------------------------------ non-vacuity *)

(* the hypotheses of C09_partial_single_log_gone are met by a concrete crash state (the
   commit-point witness, 3 h old), and the conclusion is computed *)
Example C09_nonvacuous :
  let d := wit_commit_point in
  let now := 5 * hourMs in
  (exists t, d_tlogs d = [t] /\ tlog_eligible now (tl_mtime t) = true) /\
  has_tlog (fst (on_idle 1 unknown now (d, fresh_maint))) 7 = false /\
  has_tlog (fst (on_idle 0 unknown now (d, fresh_maint))) 7 = true.
Proof. cbv zeta. split; [eexists; split; reflexivity|]. split; vm_compute; reflexivity. Qed.

Example C09_inactive_nonvacuous :
  let h := mkMH 1 10 11 12 false 3 1000 false in
  stage_update (1000 + hourMs) 99 3 h = None /\
  exists h', stage_update (1002 + hourMs) 99 3 h = Some h' /\ h_b h' = 99%N.
Proof. cbv zeta. split; [reflexivity|]. eexists; split; reflexivity. Qed.

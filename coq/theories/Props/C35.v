(* C35 — session tokens cannot be forged, outlive expiry, or survive logout.

   Model: Session.v (tools/httpserver/auth.go). HMAC-SHA256, base64url and the
   JSON codec of the claims are parameters; what is assumed of them is written
   in each theorem: base64 and the claims codec round-trip (b64_rt, c_rt), and
   the presented token is not a forgery (`not_forged`: if its signature verifies
   under the server's current secret, the server itself MACed that
   header.payload with that secret — HMAC unforgeability plus secrecy of the
   configured secret, a condition on what an adversary can present).
   Histories: any list of CreateSession / CreateToken / Refresh / ValidateToken /
   RevokeToken / secret-change operations with arbitrary clock readings and
   arbitrary presented tokens (`run`). *)
From Coq Require Import List NArith Bool.
From SopVerif Require Import Session SessionProofs Corr.C35.
Import ListNotations.
Local Open Scope N_scope.

(* Accept => issued by this server, unmodified, for that user/role, unexpired, and either
   signed with the CURRENT secret (fast path) or still in the session table. Full strength
   for "issued / current secret / unmodified / unexpired"; the "not revoked, not rotated
   away" part of the property holds only on the session-table branch (see _refuted below). *)
Theorem C35_accept_sound :
  forall mac b64 b64d cenc cdec header nonce,
  (forall x, b64d (b64 x) = Some x) -> (forall c, cdec (cenc c) = Some c) ->
  forall sec0 ops t n1 n2 s' u ro,
  let s := run mac b64 b64d cenc cdec header nonce (init sec0) ops in
  not_forged mac b64 s t -> n1 <= n2 ->
  validate mac b64 b64d cdec s t n1 n2 = (s', ROk (u, ro)) ->
  exists i, In i (log s) /\ (t = i_access i \/ i_refresh i = Some t) /\
            u = i_user i /\ ro = i_role i /\ n1 <= i_exp i /\
            ((t = i_access i /\ i_secret i = secret s /\ unix n1 < unix (i_exp i)) \/
             (exists r, find (store s) t = Some r /\ n2 <= r_exp r)).
Proof.
  intros mac b64 b64d cenc cdec header nonce Hb Hc sec0 ops t n1 n2 s' u ro s Hnf Hle Hv.
  eapply accept_sound; eauto. apply Inv_run; auto. apply Inv_init.
Qed.
Print Assumptions C35_accept_sound.

(* Full statement "accept => not revoked" is false: a revoked session's signed access
   token is still accepted (reproduced on the implementation: finding
   revoked-signed-token-accepted). Witness with the stand-in codecs of Corr/C35.v. *)
Definition h_revoke : list (cop * cres * list N) :=
  [ (CCreateSession [97] [117] 60000000000 600000000000 1000000000, XIssued, [0; 1]);
    (CRevoke (PTok 0 true), XDone, []);
    (CValidate (PTok 0 true) 2000000000 2000000000, XOk [97] [117], []) ].
Theorem C35_revocation_refuted : crun (init [115]) h_revoke = true.
Proof. vm_compute. reflexivity. Qed.
Print Assumptions C35_revocation_refuted.

(* ... and so is the access token rotated away by Refresh (finding rotated-signed-token-accepted) *)
Definition h_rotate : list (cop * cres * list N) :=
  [ (CCreateSession [97] [117] 60000000000 600000000000 1000000000, XIssued, [0; 1]);
    (CRefresh (PTok 0 false) 60000000000 2000000000 2000000000, XIssued, [2; 3]);
    (CValidate (PTok 0 true) 3000000000 3000000000, XOk [97] [117], [2; 3]) ].
Theorem C35_rotation_refuted : crun (init [115]) h_rotate = true.
Proof. vm_compute. reflexivity. Qed.
Print Assumptions C35_rotation_refuted.

(* Partial: revocation removes the session (both keys) from the table, and after it ONLY the
   signature fast path can accept the token: a token whose signature does not verify under
   the current secret (every refresh token; every access token after a secret change) is dead. *)
Theorem C35_revocation_partial :
  forall mac b64 b64d cenc cdec header nonce,
  (forall x, b64d (b64 x) = Some x) -> (forall c, cdec (cenc c) = Some c) ->
  forall sec0 ops t r,
  let s := run mac b64 b64d cenc cdec header nonce (init sec0) ops in
  find (store s) t = Some r ->
  find (store (revoke s t)) t = None /\ find (store (revoke s t)) (r_tok r) = None /\
  (forall rt, r_ref r = Some rt -> find (store (revoke s t)) rt = None) /\
  (forall n1 n2 s' x, validate mac b64 b64d cdec (revoke s t) t n1 n2 = (s', ROk x) ->
                      sig_valid mac b64 (secret s) t = true).
Proof.
  intros mac b64 b64d cenc cdec header nonce Hb Hc sec0 ops t r s Ft.
  assert (HI : Inv mac b64 cenc header s) by (apply Inv_run; auto; apply Inv_init).
  destruct (revoke_removes mac b64 cenc header s t r HI Ft) as (H1 & H2 & H3).
  repeat split; auto. intros n1 n2 s' x Hv.
  eapply revoked_only_fast_path; eauto.
Qed.
Print Assumptions C35_revocation_partial.

(* Full: a successful refresh returns an access token that is valid when issued. Refresh opens a
   new access window n2 + ttl (n2 = the clock reading it signs with, ttl = the store's access
   TTL): the returned token carries exactly that expiry and validates, for the session's user and
   role, at every instant up to it - in particular at the instant of the refresh, also when the
   old access token had already expired. The two inequations say the new token is a fresh
   string (newToken draws 24 random bytes). *)
Theorem C35_refresh_fresh :
  forall mac b64 b64d cenc cdec header nonce,
  (forall x, b64d (b64 x) = Some x) -> (forall c, cdec (cenc c) = Some c) ->
  forall s t ttl n1 n2 s' a rt,
  refresh mac b64 cenc header nonce s t ttl n1 n2 = (s', ROk (a, rt)) ->
  exists r, find (store s) t = Some r /\
    (exists i, log s' = log s ++ [i] /\ i_access i = a /\ i_exp i = n2 + ttl) /\
    (token_eqb a (r_tok r) = false ->
     match r_ref r with Some x => token_eqb a x = false | None => True end ->
     forall m1 m2, m2 <= n2 + ttl ->
       validate mac b64 b64d cdec s' a m1 m2 = (s', ROk (r_user r, r_role r))).
Proof. intros. eapply refresh_fresh; eauto. Qed.
Print Assumptions C35_refresh_fresh.

Theorem C35_refresh_valid_when_issued :
  forall mac b64 b64d cenc cdec header nonce,
  (forall x, b64d (b64 x) = Some x) -> (forall c, cdec (cenc c) = Some c) ->
  forall s t ttl n1 n2 s' a rt,
  refresh mac b64 cenc header nonce s t ttl n1 n2 = (s', ROk (a, rt)) ->
  exists r, find (store s) t = Some r /\
    (token_eqb a (r_tok r) = false ->
     match r_ref r with Some x => token_eqb a x = false | None => True end ->
     validate mac b64 b64d cdec s' a n2 n2 = (s', ROk (r_user r, r_role r))).
Proof. intros. eapply refresh_valid_when_issued; eauto. Qed.
Print Assumptions C35_refresh_valid_when_issued.

(* the history that used to refute it (refresh 1.5 s after the access expiry, then validate
   the new token at the same instant) now ends in acceptance; 4 s later the token is still good *)
Definition h_refresh_after_expiry : list (cop * cres * list N) :=
  [ (CCreateSession [97] [117] 2000000000 600000000000 1000000000, XIssued, [0; 1]);
    (CRefresh (PTok 0 false) 5000000000 4500000000 4500000000, XIssued, [2; 3]);
    (CValidate (PTok 1 true) 4500000000 4500000000, XOk [97] [117], [2; 3]);
    (CValidate (PTok 1 true) 8500000000 8500000000, XOk [97] [117], [2; 3]);
    (CValidate (PTok 1 true) 9600000000 9600000000, XErr true, []) ].
Example C35_refresh_after_expiry : crun (init [115]) h_refresh_after_expiry = true.
Proof. vm_compute. reflexivity. Qed.

(* Full: the old refresh token stops working. After a successful Refresh in any reachable state
   the presented token is no longer in the session table and presenting it again fails. *)
Theorem C35_refresh_rotates :
  forall mac b64 b64d cenc cdec header nonce,
  (forall x, b64d (b64 x) = Some x) -> (forall c, cdec (cenc c) = Some c) ->
  forall sec0 ops t ttl n1 n2 s' a rt,
  let s := run mac b64 b64d cenc cdec header nonce (init sec0) ops in
  refresh mac b64 cenc header nonce s t ttl n1 n2 = (s', ROk (a, rt)) ->
  token_eqb t a = false -> token_eqb t rt = false ->
  find (store s') t = None /\
  (forall ttl' m1 m2, fst (refresh mac b64 cenc header nonce s' t ttl' m1 m2) = s' /\
                      snd (refresh mac b64 cenc header nonce s' t ttl' m1 m2) = RErr EInvalid).
Proof.
  intros mac b64 b64d cenc cdec header nonce Hb Hc sec0 ops t ttl n1 n2 s' a rt s H Ha Hr.
  eapply refresh_rotates; eauto. apply Inv_run; auto. apply Inv_init.
Qed.
Print Assumptions C35_refresh_rotates.

(* With the constant default secret the `not_forged` premise is not available to anybody: the
   stand-in history below — a client-minted admin token signed with the server's (known)
   secret — is accepted (finding forged-token-accepted/default-secret). *)
Definition h_forge : list (cop * cres * list N) :=
  [ (CCreateSession [97] [117] 60000000000 600000000000 1000000000, XIssued, [0; 1]);
    (CValidate (PResign 0 [115] [65] 100000) 2000000000 2000000000, XOk [97] [65], [0; 1]) ].
Theorem C35_known_secret_forgery : crun (init [115]) h_forge = true.
Proof. vm_compute. reflexivity. Qed.
Print Assumptions C35_known_secret_forgery.

(* non-vacuity: the codec hypotheses are satisfiable (by the stand-ins used for the
   correspondence) and an honest token is accepted *)
Lemma firstn_app_exact : forall (A : Type) (a b : list A), firstn (length a) (a ++ b) = a.
Proof. induction a; cbn; intros; [reflexivity|]. f_equal. apply IHa. Qed.
Lemma skipn_app_exact : forall (A : Type) (a b : list A), skipn (length a) (a ++ b) = b.
Proof. induction a; cbn; intros; [reflexivity|]. apply IHa. Qed.

Example C35_hypotheses_satisfiable :
  (forall x, t_b64d (t_b64 x) = Some x) /\ (forall c, t_cdec (t_cenc c) = Some c).
Proof.
  split; [reflexivity|]. intros [sub role iat exp jti]. unfold t_cdec, t_cenc. cbn [c_sub c_role c_iat c_exp c_jti].
  rewrite !Nnat.Nat2N.id. rewrite firstn_app_exact, skipn_app_exact.
  rewrite !Nnat.Nat2N.id. rewrite firstn_app_exact, skipn_app_exact. reflexivity.
Qed.

Example C35_nonvacuous :
  crun (init [115])
    [ (CCreateSession [97] [117] 60000000000 600000000000 1000000000, XIssued, [0; 1]);
      (CValidate (PTok 0 true) 2000000000 2000000000, XOk [97] [117], [0; 1]);
      (CValidate (PFlip 0 true 1%nat) 2000000000 2000000000, XErr false, [0; 1]);
      (CValidate (PTok 0 true) 61000000000 61000000001, XErr true, []) ] = true.
Proof. vm_compute. reflexivity. Qed.

(* C06 — a store's item count always equals the number of items it contains.
   At the level of the commit protocol the persisted count (storeinfo) is what a new transaction reports. The
   B-tree layer hands each commit the delta (#items added - #items removed) of every store (that the in-memory
   count equals the number of items is C17's refinement). The theorems say: for every history of committed and
   failed commits, with failures injected at any interface call, the persisted count of every store is the
   initial count plus the deltas of exactly the transactions that committed. *)
From Coq Require Import List ZArith NArith Bool.
From SopVerif Require Import Proto ProtoProofs ProtoSuccess ProtoHistory Corr.Proto.
Import ListNotations.
Local Open Scope N_scope.

Theorem C06_commit_applies_delta :
  forall d t d' tr, SW d t -> run t d None = (Committed, d', tr) ->
  forall s, count_of d' s = (count_of d s + delta_of (deltas t) s)%Z.
Proof. intros d t d' tr H1 H2. exact (proj2 (proj2 (proj2 (proj2 (proj2 (proj2 (commit_success_view d t d' tr H1 H2))))))). Qed.
Print Assumptions C06_commit_applies_delta.

Theorem C06_failed_commit_keeps_count :
  forall t d f o d' tr',
  (tracked t = true \/ forall s, delta_of (deltas t) s = 0%Z) ->
  (forall s, delta_of (rb_stores t) s = (- delta_of (deltas t) s)%Z) ->
  run t d f = (o, d', tr') -> o <> Committed -> forall s, count_of d' s = count_of d s.
Proof. exact failed_commit_preserves_counts. Qed.
Print Assumptions C06_failed_commit_keeps_count.

(* any history *)
Theorem C06_history :
  forall h d, hist_ok d h ->
  forall s, count_of (fst (run_history h d)) s = (count_of d s + committed_delta h (snd (run_history h d)) s)%Z.
Proof. exact history_counts. Qed.
Print Assumptions C06_history.

(* the hypothesis "the transaction has tracked items or all its deltas are zero" cannot be dropped: the model of
   the code rolls the count back even though phase 1 never applied it (witness by computation) *)
Theorem C06_untracked_refuted :
  exists t d f o d' tr',
    (forall s, delta_of (rb_stores t) s = (- delta_of (deltas t) s)%Z)
    /\ run t d f = (o, d', tr') /\ o <> Committed /\ count_of d 1 = 7%Z /\ count_of d' 1 = 6%Z.
Proof. exact untracked_counts_refuted. Qed.
Print Assumptions C06_untracked_refuted.

Example C06_nonvacuous : SW d_ex t_ex /\ (forall s, delta_of (rb_stores t_ex) s = (- delta_of (deltas t_ex) s)%Z).
Proof. split; [exact SW_nonvacuous|exact (proj2 counts_hyp_nonvacuous)]. Qed.

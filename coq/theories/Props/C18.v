(* C18 — key search positions the cursor so range scans return exactly the range.

   FULL theorems are about the specification OMap (every item list reachable by any accepted
   run, every probe key); the node-level model is tied to it by the refinement statement of
   C17 (sim_run; Props/C17.v: transfer FULL, induction PARTIAL + BOUNDED) and to the code by the
   correspondence check.  REFUTED statements are false of the faithful model and of the code. *)
From Coq Require Import List ZArith NArith Bool.
From SopVerif Require Import OMap OMapProofs OMapProofs2 Btree BtreeSim BtreeProofs BtreeProofs2
  BtreeBounded2 BtreeShape BtreeFind BtreeNext BtreePrev BtreeFindLoc Corr.C17 Corr.C18.
Import ListNotations.
Local Open Scope Z_scope.

(* Find(k, true): hit -> the least index holding k; miss -> adjacent to the insertion point *)
Theorem C18_find_first : forall u s k h s' r, Inv u s -> items s <> [] ->
  ostep u s (OFind k true) h = Some (s', r) ->
  let l := items s in
  items s' = l /\
  (has_key l k = true ->
     rok r = true /\ cur s' = CAt (lb l k) /\ key_at l (lb l k) = k /\ (lb l k < length l)%nat /\
     forall j, (j < lb l k)%nat -> key_at l j < k) /\
  (has_key l k = false ->
     rok r = false /\ exists i, cur s' = CAt i /\ (i < length l)%nat /\ (i = lb l k \/ S i = lb l k) /\
     (forall j, (j < lb l k)%nat -> key_at l j < k) /\
     (forall j, (lb l k <= j < length l)%nat -> k < key_at l j)).
Proof. exact find_first_spec. Qed.
Print Assumptions C18_find_first.

(* FindInDescendingOrder(k): hit -> the greatest index holding k; miss -> adjacent *)
Theorem C18_find_descending : forall u s k h s' r, Inv u s -> items s <> [] ->
  ostep u s (OFindDesc k) h = Some (s', r) ->
  let l := items s in
  items s' = l /\
  (has_key l k = true ->
     rok r = true /\ cur s' = CAt (pred (ub l k)) /\ key_at l (pred (ub l k)) = k /\ (0 < ub l k <= length l)%nat /\
     forall j, (ub l k <= j < length l)%nat -> k < key_at l j) /\
  (has_key l k = false ->
     rok r = false /\ exists i, cur s' = CAt i /\ (i < length l)%nat /\ (i = ub l k \/ S i = ub l k) /\
     (forall j, (j < ub l k)%nat -> key_at l j < k) /\
     (forall j, (ub l k <= j < length l)%nat -> k < key_at l j)).
Proof. exact find_desc_spec. Qed.
Print Assumptions C18_find_descending.

(* Find(k, false): an item with that key.  PARTIAL: the cursor must not be on an emptied slot *)
Theorem C18_find_any_partial : forall u s k h s' r, Inv u s -> items s <> [] -> cur s <> CGhost ->
  ostep u s (OFind k false) h = Some (s', r) ->
  items s' = items s /\ rok r = has_key (items s) k /\
  (rok r = true -> exists i x, cur s' = CAt i /\ nth_error (items s) i = Some x /\ ikey x = k).
Proof. exact find_any_spec. Qed.
Print Assumptions C18_find_any_partial.

(* REFUTED without that hypothesis: Find(0,false) = true although key 0 is not stored
   (finding find-ghost-hit; the specification carries the same behaviour as CGhost) *)
Theorem C18_find_any_refuted : exists cfg ops,
  let '(b, rs) := brun cfg empty_bstate ops in
  rok (last rs (mkRes false ENone [])) = true /\
  match last ops OFirst with OFind k false => ~ In k (map ikey (b_inorder b)) | _ => False end.
Proof.
  exists (mkCfg 2 false false), ghost_witness.
  pose proof find_ghost_witness as H.
  destruct (brun (mkCfg 2 false false) empty_bstate ghost_witness) as [b rs] eqn:E.
  destruct H as [H1 [H2 _]]. split.
  - destruct rs as [|r1 [|r2 [|r3 [|r4 [|r5 [|]]]]]]; try discriminate. cbn in *. congruence.
  - change (~ In 0 (map ikey (b_inorder b))). rewrite H2. cbn. intuition discriminate.
Qed.
Print Assumptions C18_find_any_refuted.

(* FindWithID(k, id): true -> on the item with that id; the stored pair (k, id) is always found;
   a missing key fails *)
Theorem C18_find_with_id : forall u s k id h s' r, Inv u s ->
  ostep u s (OFindWithID k id) h = Some (s', r) ->
  let l := items s in
  items s' = l /\
  (rok r = true -> exists j x, cur s' = CAt j /\ nth_error l j = Some x /\ iid x = id /\ k <= ikey x) /\
  (forall j x, nth_error l j = Some x -> iid x = id -> ikey x = k -> rok r = true /\ cur s' = CAt j) /\
  (has_key l k = false -> rok r = false).
Proof. exact find_with_id_spec. Qed.
Print Assumptions C18_find_with_id.

(* REFUTED: "or fails" — an id stored under a greater key is accepted (finding findwithid-foreign-key) *)
Theorem C18_find_with_id_refuted : exists cfg ops,
  let '(b, rs) := brun cfg empty_bstate ops in
  rok (last rs (mkRes false ENone [])) = true /\
  match last ops OFirst with OFindWithID k _ => ikey (bcurrent_key b) <> k | _ => False end.
Proof.
  exists (mkCfg 4 false false), foreign_witness.
  pose proof find_id_foreign_witness as H.
  destruct (brun (mkCfg 4 false false) empty_bstate foreign_witness) as [b rs] eqn:E.
  destruct H as [H1 H2]. split.
  - destruct rs as [|r1 [|r2 [|r3 [|]]]]; try discriminate. cbn in *. congruence.
  - change (ikey (bcurrent_key b) <> 1). rewrite H2. cbn. discriminate.
Qed.
Print Assumptions C18_find_with_id_refuted.

(* Range / RangeDesc of inmemory/iterate.go: exactly the stored items inside the bounds, in
   ascending order / its reverse — for every stored list and every pair of bounds *)
Theorem C18_range : forall u s from to h s' r, Inv u s ->
  ostep u s (ORange from to) h = Some (s', r) ->
  rout r = map kv (filter (in_range from to) (items s)) /\ items s' = items s.
Proof. exact C18_range_spec. Qed.
Print Assumptions C18_range.

Theorem C18_range_desc : forall u s from to h s' r, Inv u s ->
  ostep u s (ORangeDesc from to) h = Some (s', r) ->
  rout r = map kv (rev (filter (in_range to from) (items s))) /\ items s' = items s.
Proof. exact C18_range_desc_spec. Qed.
Print Assumptions C18_range_desc.

(* transfer: on every simulated run the node-level model returns exactly these results *)
Theorem C18_btree_results : forall cfg ops b s, sim_from cfg b s ops = true ->
  exists hs s' rs,
    length hs = length ops /\
    orun (cunique cfg) s (combine ops hs) = Some (s', rs) /\
    let '(b', rbs) := brun cfg b ops in
    map rok rs = map rok rbs /\ map rerr rs = map rerr rbs /\ map rout rs = map rout rbs /\
    (ops <> [] -> items s' = b_inorder b' /\ ocount s' = bcount b' /\ current_key s' = bcurrent_key b').
Proof. exact sim_from_orun. Qed.
Print Assumptions C18_btree_results.

(* NODE LEVEL, closed for every tree-shaped state (stage 1 of the inductive refinement): on every pair
   of states related by RelT (the node map forms a tree - BtreeShape.shape: any height, any slot
   length, nil children, unbalanced branches - whose in-order walk is the specification's sorted item
   list), Find(key, true) on a stored key simulates: the descent of node.find (binary search per
   node, "found so far" carried down to the leftmost duplicate) ends on the FIRST item with the key.
   Not closed at node level: the miss position, Find(key,false), FindInDescendingOrder, FindWithID,
   Next/Previous (C17_refines_partial + bounded + per-run evaluation cover them). *)
Theorem C18_btree_find_first_hit : forall cfg b s k, RelT b s -> sorted (items s) -> has_key (items s) k = true ->
  exists b' s', sim_step cfg b s (OFind k true) = Some (b', s') /\ RelT b' s' /\
                cur s' = CAt (lb (items s) k) /\ items s' = items s.
Proof. exact find_first_hit_sim. Qed.
Print Assumptions C18_btree_find_first_hit.

(* the node-level core of range scans: on every pair of states related by RelN (tree with correct
   parent links, see Props/C17.v C17_refines_navigation) with a sorted list, Find(key, true) on a stored
   key lands on a LOCATED slot at position lb(list, key) and any sequence of Next / Previous / First /
   Last calls after it simulates - so scanning from the found position visits exactly the
   specification's items, in both directions *)
Theorem C18_btree_find_then_scan : forall cfg b s k ops, RelN (cL cfg) b s -> sorted (items s) ->
  has_key (items s) k = true -> Forall is_nav_op ops ->
  sim_from cfg b s (OFind k true :: ops) = true.
Proof. exact find_then_navigate. Qed.
Print Assumptions C18_btree_find_then_scan.

Theorem C18_btree_find_first_located : forall cfg b s k, RelN (cL cfg) b s -> sorted (items s) -> has_key (items s) k = true ->
  exists b' s', sim_step cfg b s (OFind k true) = Some (b', s') /\ RelN (cL cfg) b' s' /\
                cur s' = CAt (lb (items s) k) /\ items s' = items s.
Proof. exact find_first_hit_simN. Qed.
Print Assumptions C18_btree_find_first_located.

(* First / Last on every tree-shaped state *)
Theorem C18_btree_first_last : forall cfg b s ops, RelT b s -> Forall is_first_last ops ->
  sim_from cfg b s ops = true.
Proof. exact first_last_refines. Qed.
Print Assumptions C18_btree_first_last.

(* BOUNDED (not the claim): searches and navigation inside every call sequence of length <= 5 *)
Theorem C18_bounded_L2_mixed_5 : forall ops, (length ops <= 5)%nat -> Forall (fun o => In o alpha_mixed) ops ->
  sim_run (mkCfg 2 false false) ops = true.
Proof. exact bounded_L2_dup_mixed. Qed.
Print Assumptions C18_bounded_L2_mixed_5.

(* non-vacuity: probes before, between, after and on duplicated keys, both range directions *)
Example C18_nonvacuous :
  let ops := [OAdd 4 1; OAdd 2 2; OAdd 4 3; OAdd 6 4; OAdd 4 5; OFind 4 true; OFindDesc 4; OFind 3 true;
              OFind 9 true; OFind 0 true; ORange 3 5; ORangeDesc 6 3; ORange 7 9] in
  sim_run (mkCfg 2 false false) ops = true /\
  map rout (skipn 10 (snd (brun (mkCfg 2 false false) empty_bstate ops))) =
    [[mkItem 0 4 5; mkItem 0 4 3; mkItem 0 4 1];
     [mkItem 0 6 4; mkItem 0 4 1; mkItem 0 4 3; mkItem 0 4 5];
     []].
Proof. vm_compute. split; reflexivity. Qed.

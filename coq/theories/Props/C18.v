(* C18 — key search positions the cursor so range scans return exactly the range. (in progress) *)
From Coq Require Import List ZArith NArith.
From SopVerif Require Import OMap Btree Corr.C17 Corr.C18.

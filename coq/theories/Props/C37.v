(* C37 — the commit protocol never installs two successors of one node version. *)
From Coq Require Import List ZArith NArith Bool.
From SopVerif Require Import Proto HandleProto HandleProtoProofs HandleProtoInv HandleProtoThms HandleProtoBounded HandleProtoBounded1 HandleProtoBounded2 HandleProtoBounded3.
Import ListNotations.
Local Open Scope N_scope.

(* ---- the tie: a recorded run that the checker accepts is an execution of the model *)
Theorem C37_accepts_sound : forall hy s0 tr s', accepts_run hy s0 tr = Some s' -> reachable hy s0 s'.
Proof. exact accepts_reachable. Qed.
Print Assumptions C37_accepts_sound.

(* ---- the invariant theorems: every state reachable under the hypotheses `strict` (LockHeldUntilUnlock,
   RecoveryWithinTheHour, MarkRespectsClaim) from a well-formed initial state: any registry, any blob set, ANY NUMBER of
   transactions each updating any set of distinct nodes (wf_init: no transaction removes nodes — the _partial in the
   names; removals are in the model, the refutations and the conformance runs, not in these proofs), any schedule of
   any length including crashes at every step, torn batches, rollbacks, lock expiry of crashed owners, ageing of
   timestamps and priority rollbacks. *)

(* the history is most recent first. Between two phase-2 installs of a successor of the SAME version v of node l (by
   whichever transactions, also by the same one) a logged image has been written back over l (priority rollback / the
   committer's own restore after a failed phase-2 write). In particular two commits that read the same version never
   both have their successor in force. *)
Theorem C37_single_successor_partial : forall s0 s, wf_init s0 -> reachable strict s0 s ->
  forall post e2 mid e1 pre i j l v,
    shist s = post ++ e2 :: mid ++ e1 :: pre -> succ_of e1 = Some (i, l, v) -> succ_of e2 = Some (j, l, v) ->
    exists c, In (EUndo c l) mid.
Proof. exact single_successor_thm. Qed.
Print Assumptions C37_single_successor_partial.

(* one step changes the registered version of a node only by +1 together with an install event of exactly the version
   that was registered, or by writing back a logged image (undo event); every other step leaves it as it is *)
Theorem C37_version_monotone_partial : forall s0 s lab s' l h h', wf_init s0 -> reachable strict s0 s -> step strict s lab = Some s' ->
  lookup (sreg s) l = Some h -> lookup (sreg s') l = Some h' ->
  ver h' = ver h
  \/ (ver h' = (ver h + 1)%Z /\ exists i, lab = LWrite i /\ (exists p, shist s' = EInstall i l (ver h) p :: shist s))
  \/ (ver h' = (ver h + 1)%Z /\ exists i, lab = LWrite i /\ shist s' = ERemove i l (ver h) :: shist s)
  \/ (exists c rest, shist s' = rest ++ shist s /\ In (EUndo c l) rest).
Proof. exact version_step_thm. Qed.
Print Assumptions C37_version_monotone_partial.

(* claimants are exclusive: two live transactions inside the locked part of their commit never share a node, and a live
   transaction between its claim and its flip holds the node's lock and read the version that is registered.
   Missing for the full statement: that EVERY unexpired inactive id in the registry belongs to such a claimant or to a
   crashed one (needs a ghost owner per handle; covered by the bounded exploration and the conformance runs only). *)
Theorem C37_claim_exclusive_partial : forall s0 s, wf_init s0 -> reachable strict s0 s ->
  (forall i j ti tj l, get_tx s i = Some ti -> get_tx s j = Some tj ->
     t_crashed ti = false -> hold_pc (t_pc ti) = true -> In l (upd_lids ti) ->
     t_crashed tj = false -> hold_pc (t_pc tj) = true -> In l (upd_lids tj) -> i = j)
  /\ (forall i t c, get_tx s i = Some t -> t_crashed t = false -> img_pc (t_pc t) = true -> In c (t_claimed t) ->
        lock_of (slocks s) (lid c) = Some i
        /\ exists h0, lookup (sreg s) (lid c) = Some h0 /\ ver h0 = ver c).
Proof. exact claim_exclusive_thm. Qed.
Print Assumptions C37_claim_exclusive_partial.

(* non-vacuity: the hypotheses are met by a run in which two transactions install successive versions of one node *)
Example C37_nonvacuous :
  wf_init s_uu /\
  exists s, exec strict s_uu (commit_steps 0) = Some s /\
            shist s = [EInstall 0 10 3%Z 30] /\ (exists h, lookup (sreg s) 10 = Some h /\ ver h = 4%Z).
Proof.
  split.
  - split; [reflexivity|]. split; [reflexivity|]. intros t [<-|[<-|[]]]; cbn; repeat split; repeat constructor; cbn; intuition discriminate.
  - eexists. split; [vm_compute; reflexivity|]. split; [reflexivity|]. eexists. split; reflexivity.
Qed.

(* ---- bounded, by exhaustive computation (labelled as such): EVERY state reachable under `strict` by any interleaving of
   two transactions over node 10 — all 15 step kinds per transaction including crash at every point, rollback, failed
   phase-2 write, priority rollback, plus lock expiry and ageing — has every non-deleted handle pointing at a present
   blob and a history without two successors of one version. Configuration 1: both update the node; configuration 2: one
   updates, one removes it (removals are not covered by the unbounded theorems). The search is complete (empty frontier)
   within the fuel: 5224 and 5403 distinct states. *)
Theorem C37_points_at_data_and_single_successor_bounded :
  complete_and_ok (explore strict (all_labels 2 [10]) 60 s_uu chk_all) = true
  /\ complete_and_ok (explore strict (all_labels 2 [10]) 60 s_ur chk_all) = true
  (* configuration 3: two nodes, T0 updates both, T1 updates one and removes the other; all interleavings of the
     transactions' own steps (no crash / environment steps): 616 states *)
  /\ complete_and_ok (explore strict labs_nocrash 80 s22 chk_all) = true.
Proof. split; [exact bounded_uu|split; [exact bounded_ur|exact bounded_22]]. Qed.
Print Assumptions C37_points_at_data_and_single_successor_bounded.

(* ---- recovery: one priority rollback. When the version precondition (logged version = current or current - 1)
   holds, every handle listed in the crashed committer's priority log equals its logged image afterwards, nothing else
   in the registry changes, no blob is touched and the log is gone; otherwise (failover branch) nothing changes at all. *)
Theorem C37_recovery : forall hy s c s', step hy s (LPrio c) = Some s' ->
  exists t imgs, get_tx s c = Some t /\ t_plog t = Some imgs
    /\ (prio_ver_ok (sreg s) imgs = true ->
          (NoDup (map lid imgs) -> forall h, In h imgs -> lookup (sreg s') (lid h) = Some h)
          /\ (forall l, ~ In l (map lid imgs) -> lookup (sreg s') l = lookup (sreg s) l)
          /\ sblobs s' = sblobs s
          /\ (exists t', get_tx s' c = Some t' /\ t_plog t' = None))
    /\ (prio_ver_ok (sreg s) imgs = false -> sreg s' = sreg s /\ sblobs s' = sblobs s /\ stxs s' = stxs s /\ shist s' = EFailover c :: shist s).
Proof. exact prio_step_spec. Qed.
Print Assumptions C37_recovery.

(* the logged image of an updated node is the claim of the handle the committer read: it resolves to the same blob, at the
   same version, so restoring it returns the node to its pre-commit version and content *)
Theorem C37_logged_image_is_precommit : forall h v p h', claim h v p = Some h' ->
  lid h' = lid h /\ active h' = active h /\ ver h' = v /\ ver h = v /\ del h' = false /\ inactive h' = p /\ wip h' = 2.
Proof. exact claim_image. Qed.
Print Assumptions C37_logged_image_is_precommit.

(* ---- refutations without the environment hypotheses (each schedule is not executable under all three) *)

(* LockHeldUntilUnlock dropped: two live committers both install a successor of version 3 of node 10 *)
Theorem C37_expiry_refuted : exists s0 ls s',
  exec no_lock_hyp s0 ls = Some s' /\ single_successor s' = false /\ exec strict s0 ls = None.
Proof.
  exists s_uu, sched_expiry. destruct (exec no_lock_hyp s_uu sched_expiry) as [s'|] eqn:E; [|vm_compute in E; discriminate].
  exists s'. split; [reflexivity|]. split.
  - pose proof (proj1 expiry_witness) as W. unfold final_bad in W. rewrite E in W. apply negb_true_iff in W. exact W.
  - pose proof (proj2 expiry_witness) as W. unfold blocked in W. destruct (exec strict s_uu sched_expiry); [discriminate|reflexivity].
Qed.
Print Assumptions C37_expiry_refuted.

(* RecoveryWithinTheHour dropped: a priority log restored over a later committed successor leaves the node pointing at a removed blob *)
Theorem C37_points_at_data_stale_log_refuted : exists s0 ls s',
  points_at_data s0 = true /\ exec no_recov_hyp s0 ls = Some s' /\ points_at_data s' = false /\ exec strict s0 ls = None.
Proof.
  exists s_uu, sched_stale_log. destruct (exec no_recov_hyp s_uu sched_stale_log) as [s'|] eqn:E; [|vm_compute in E; discriminate].
  exists s'. split; [vm_compute; reflexivity|]. split; [reflexivity|]. split.
  - pose proof (proj1 stale_log_witness) as W. unfold final_bad in W. rewrite E in W. apply negb_true_iff in W. exact W.
  - pose proof (proj2 stale_log_witness) as W. unfold blocked in W. destruct (exec strict s_uu sched_stale_log); [discriminate|reflexivity].
Qed.
Print Assumptions C37_points_at_data_stale_log_refuted.

(* MarkRespectsClaim dropped: a removal over a dead committer's unexpired claim, then the priority rollback *)
Theorem C37_points_at_data_mark_over_claim_refuted : exists s0 ls s',
  points_at_data s0 = true /\ exec no_mark_hyp s0 ls = Some s' /\ points_at_data s' = false /\ exec strict s0 ls = None.
Proof.
  exists s_ur, sched_mark_over_claim. destruct (exec no_mark_hyp s_ur sched_mark_over_claim) as [s'|] eqn:E; [|vm_compute in E; discriminate].
  exists s'. split; [vm_compute; reflexivity|]. split; [reflexivity|]. split.
  - pose proof (proj1 mark_over_claim_witness) as W. unfold final_bad in W. rewrite E in W. apply negb_true_iff in W. exact W.
  - pose proof (proj2 mark_over_claim_witness) as W. unfold blocked in W. destruct (exec strict s_ur sched_mark_over_claim); [discriminate|reflexivity].
Qed.
Print Assumptions C37_points_at_data_mark_over_claim_refuted.

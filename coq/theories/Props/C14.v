(* C14 — transaction modes and lifecycle are enforced.
   All statements quantify over every transaction mode, every initial stored state, every call
   list (with every pattern of environment failures carried by the calls' flags).
   [result_at s0 a c] is the result call c gets when issued after the calls a. *)
From Coq Require Import List ZArith NArith Bool Lia.
From SopVerif Require Import Lifecycle LifecycleProofs Corr.C14. (* Corr.C14: keeps the correspondence checker in the build cone *)
Import ListNotations.
Local Open Scope Z_scope.

(* Operations on stores (Add/Find/Update/Remove/NewBtree/OpenBtree) succeed only between a
   successful Begin and the end of the transaction. *)
Theorem C14_ops_need_begun : forall m d0 a c,
  is_store_op c = true ->
  is_success (result_at (init m d0) a c) = true ->
  (exists a1 a2, a = a1 ++ CBegin :: a2 /\ result_at (init m d0) a1 CBegin = ROk) /\
  (forall a1 e a2, a = a1 ++ e :: a2 -> is_end e = true -> result_at (init m d0) a1 e <> ROk).
Proof.
  intros m d0 a c Hop Hs. unfold result_at in Hs.
  pose proof (step_op_begun _ _ Hop Hs) as Hb. apply hb_true in Hb. split.
  - apply begun_has_begin; [apply inv_init|reflexivity|lia].
  - intros a1 e a2 -> He Hr.
    destruct (ended_is_final a1 e a2 (init m d0) (inv_init m d0) He Hr) as [H2 _]. lia.
Qed.
Print Assumptions C14_ops_need_begun.

(* Read-only and no-check transactions never change stored data: FALSE as stated. NewBtree
   registers the store on disk before any mode check and a reader's Commit keeps it. *)
Theorem C14_readonly_inert_refuted : exists m cs,
  m <> ForWriting /\
  results (init m None) cs = [ROk; ROk; ROk] /\
  disk (state_after (init m None) cs) <> None.
Proof.
  exists ForReading, [CBegin; CNewBtree; CCommit PNone false]. vm_compute.
  split; [discriminate|]. split; [reflexivity|discriminate].
Qed.
Print Assumptions C14_readonly_inert_refuted.

(* ... and TRUE whenever the store already exists (nothing to create) ... *)
Theorem C14_readonly_inert_partial : forall m d0 cs,
  m <> ForWriting -> d0 <> None ->
  disk (state_after (init m d0) cs) = d0.
Proof.
  intros m d0 cs Hm Hd.
  apply (run_ro d0 cs (init m d0) Hd). repeat split; try reflexivity. exact Hm.
Qed.
Print Assumptions C14_readonly_inert_partial.

(* ... and over an absent store the only possible change is the creation of the empty store:
   no item is ever written. *)
Theorem C14_readonly_inert_partial_absent : forall m cs,
  m <> ForWriting ->
  disk (state_after (init m None) cs) = None \/ disk (state_after (init m None) cs) = Some (0, []).
Proof.
  intros m cs Hm.
  destruct (run_ro0 cs (init m None)) as (_ & _ & [H|[H _]]); auto.
  repeat split; auto.
Qed.
Print Assumptions C14_readonly_inert_partial_absent.

(* A committed transaction cannot be rolled back: after a successful Commit / Phase2Commit every
   Rollback fails and nothing changes any more. *)
Theorem C14_no_rollback_after_commit : forall m d0 a e b f,
  is_commit e = true -> result_at (init m d0) a e = ROk ->
  result_at (init m d0) (a ++ e :: b) (CRollback f) = RErr /\
  state_after (init m d0) (a ++ e :: b ++ [CRollback f]) = state_after (init m d0) (a ++ [e]).
Proof.
  intros m d0 a e b f Hc Hr.
  assert (He : is_end e = true) by (destruct e; try discriminate; reflexivity).
  destruct (ended_is_final a e b _ (inv_init m d0) He Hr) as (H2 & Hs & Hcm).
  pose proof (inv_run _ (a ++ e :: b) (inv_init m d0)) as Hi.
  destruct (step_rollback_committed _ f Hi (Hcm Hc)) as [Hr2 Hs2].
  split; [exact Hr2|].
  replace (a ++ e :: b ++ [CRollback f]) with ((a ++ e :: b) ++ [CRollback f]) by (rewrite <- app_assoc; reflexivity).
  rewrite state_after_app, state_after_cons, state_after_nil, Hs2. exact Hs.
Qed.
Print Assumptions C14_no_rollback_after_commit.

(* A finished transaction (phaseDone = 2, however it got there: commit, rollback, or a failed
   call that rolled it back) is final: no call changes anything, Begin and Commit fail, no
   store operation succeeds. *)
Theorem C14_done_is_final : forall m d0 a c,
  phase (state_after (init m d0) a) = 2 ->
  state_after (init m d0) (a ++ [c]) = state_after (init m d0) a /\
  (c = CBegin -> result_at (init m d0) a c = RErr) /\
  (forall f1 f2, c = CCommit f1 f2 -> result_at (init m d0) a c = RErr) /\
  (is_store_op c = true -> is_success (result_at (init m d0) a c) = false).
Proof.
  intros m d0 a c H2. destruct (step_fin _ c H2) as (Hs & Hb & Hc & Ho).
  split; [rewrite state_after_app, state_after_cons, state_after_nil; exact Hs|].
  unfold result_at. auto.
Qed.
Print Assumptions C14_done_is_final.

(* The same in observable terms: once Commit, Phase2Commit or Rollback has succeeded, the
   transaction cannot be started or committed again, and no later call has any effect. *)
Theorem C14_finished_is_final : forall m d0 a e b c,
  is_end e = true -> result_at (init m d0) a e = ROk ->
  state_after (init m d0) (a ++ e :: b ++ [c]) = state_after (init m d0) (a ++ [e]) /\
  (c = CBegin -> result_at (init m d0) (a ++ e :: b) c = RErr) /\
  (forall f1 f2, c = CCommit f1 f2 -> result_at (init m d0) (a ++ e :: b) c = RErr) /\
  (is_store_op c = true -> is_success (result_at (init m d0) (a ++ e :: b) c) = false).
Proof.
  intros m d0 a e b c He Hr.
  destruct (ended_is_final a e b _ (inv_init m d0) He Hr) as (H2 & Hs & _).
  destruct (C14_done_is_final m d0 (a ++ e :: b) c H2) as (Hs2 & Hrest).
  split; [|exact Hrest].
  replace (a ++ e :: b ++ [c]) with ((a ++ e :: b) ++ [c]) by (rewrite <- app_assoc; reflexivity).
  rewrite Hs2. exact Hs.
Qed.
Print Assumptions C14_finished_is_final.

(* Ends by a failing call.  Rollback and Commit end a begun transaction whatever they return —
   in particular a Rollback whose undo fails (store-repository step or any other step) and a Commit
   whose phase 1 or phase 2 fails: afterwards the transaction is finished (phaseDone = 2), so by
   C14_done_is_final no later call on it changes the stored data, Begin and Commit fail and no store
   operation succeeds.  Nothing of a rolled back or failed transaction can be persisted by a later
   Commit on the same object. *)
Theorem C14_failed_rollback_still_ends : forall m d0 a c c',
  has_begun (state_after (init m d0) a) = true ->
  match c with CRollback _ | CCommit _ _ => True | _ => False end ->
  phase (state_after (init m d0) (a ++ [c])) = 2 /\
  state_after (init m d0) ((a ++ [c]) ++ [c']) = state_after (init m d0) (a ++ [c]) /\
  (c' = CBegin -> result_at (init m d0) (a ++ [c]) c' = RErr) /\
  (forall f1 f2, c' = CCommit f1 f2 -> result_at (init m d0) (a ++ [c]) c' = RErr) /\
  (is_store_op c' = true -> is_success (result_at (init m d0) (a ++ [c]) c') = false).
Proof.
  intros m d0 a c c' Hb Hc.
  assert (H2 : phase (state_after (init m d0) (a ++ [c])) = 2).
  { rewrite state_after_app, state_after_cons, state_after_nil. apply step_always_ends; assumption. }
  split; [exact H2|]. exact (C14_done_is_final m d0 (a ++ [c]) c' H2).
Qed.
Print Assumptions C14_failed_rollback_still_ends.

(* Likewise a Phase1Commit that fails, and a Phase2Commit that fails after phase 1 was started.
   (Phase2Commit called before Phase1Commit is refused without ending the transaction.) *)
Theorem C14_failed_phase_still_ends : forall m d0 a c c',
  has_begun (state_after (init m d0) a) = true ->
  result_at (init m d0) a c = RErr ->
  match c with CP1 _ => True | CP2 _ => phase (state_after (init m d0) a) = 1 | _ => False end ->
  phase (state_after (init m d0) (a ++ [c])) = 2 /\
  state_after (init m d0) ((a ++ [c]) ++ [c']) = state_after (init m d0) (a ++ [c]) /\
  (is_store_op c' = true -> is_success (result_at (init m d0) (a ++ [c]) c') = false).
Proof.
  intros m d0 a c c' Hb Hr Hc.
  assert (H2 : phase (state_after (init m d0) (a ++ [c])) = 2).
  { rewrite state_after_app, state_after_cons, state_after_nil. apply step_failed_phase_ends; assumption. }
  split; [exact H2|]. destruct (C14_done_is_final m d0 (a ++ [c]) c' H2) as (Hs & _ & _ & Ho). split; assumption.
Qed.
Print Assumptions C14_failed_phase_still_ends.

(* The lifecycle state only moves forward: -1 -> 0 -> 1 -> 2. *)
Theorem C14_phase_monotone : forall m d0 a c,
  phase (state_after (init m d0) a) <= phase (state_after (init m d0) (a ++ [c])) /\
  tmode (state_after (init m d0) (a ++ [c])) = m.
Proof.
  intros m d0 a c. pose proof (inv_run _ a (inv_init m d0)) as Hi.
  rewrite state_after_app, state_after_cons, state_after_nil.
  destruct (step_inv _ c Hi) as (_ & Hle & Hm). split; [exact Hle|].
  rewrite Hm. apply (mode_run _ a (inv_init m d0)).
Qed.
Print Assumptions C14_phase_monotone.

(* Found on the way (reproduced on the real code, findings/C14.json): a writer that keeps working
   after a successful Phase1Commit and then rolls back leaves a wrong item count behind although
   nothing was ever committed. *)
Theorem C14_uncommitted_inert_refuted : exists d0 cs,
  disk_wf d0 /\ forallb (fun c => negb (is_commit c)) cs = true /\
  disk (state_after (init ForWriting d0) cs) <> d0 /\ ~ disk_wf (disk (state_after (init ForWriting d0) cs)).
Proof.
  exists (Some (1, [(1%N, 10%N)])),
    [CBegin; COpenBtree; CUpdate 1 102 false; CP1 PNone; CRemove 1 false; CRollback RbNone].
  vm_compute. repeat split; try discriminate.
Qed.
Print Assumptions C14_uncommitted_inert_refuted.

(* Same defect class, found by the thorough run: Phase1Commit followed by Commit (which runs phase 1
   again).  When only newly added items are tracked the second phase 1 "succeeds" after its internal
   refetch-and-merge has dropped them: every call, including Commit, reports success, yet the added
   item is not stored and the recorded count says it is. *)
Theorem C14_repeated_phase1_loses_adds_refuted : exists d0 cs,
  disk_wf d0 /\
  results (init ForWriting d0) cs = [ROk; ROk; ROk; ROk; ROk] /\
  committed (state_after (init ForWriting d0) cs) = true /\
  disk (state_after (init ForWriting d0) cs) = Some (2, [(1%N, 10%N)]).
Proof.
  exists (Some (1, [(1%N, 10%N)])), [CBegin; CNewBtree; CAdd 2 102 false; CP1 PNone; CCommit PNone false].
  vm_compute. repeat split.
Qed.
Print Assumptions C14_repeated_phase1_loses_adds_refuted.

(* ... whereas a transaction (any mode) over an existing store that never enters the commit
   protocol leaves the stored data exactly as it was, whatever else it does. *)
Theorem C14_uncommitted_inert_partial : forall m d0 cs,
  d0 <> None -> forallb (fun c => negb (is_commit_phase c)) cs = true ->
  disk (state_after (init m d0) cs) = d0.
Proof.
  intros m d0 cs Hd Hc. apply (run_nc d0 cs (init m d0) Hd Hc). repeat split.
Qed.
Print Assumptions C14_uncommitted_inert_partial.

(* non-vacuity: the model is not inert — an ordinary writer life cycle stores an item, after
   which Rollback fails; and the same calls in a read-only transaction store nothing. *)
Example C14_nonvacuous :
  let cs := [CBegin; CNewBtree; CAdd 1 5 false; CCommit PNone false; CRollback RbNone] in
  run (init ForWriting None) cs = ([ROk; ROk; ROk; ROk; RErr], state_after (init ForWriting None) cs) /\
  disk (state_after (init ForWriting None) cs) = Some (1, [(1%N, 5%N)]) /\
  results (init ForReading None) cs = [ROk; ROk; RErr; RErr; ROk] /\
  disk (state_after (init ForReading None) cs) = None.
Proof. vm_compute. repeat split. Qed.

(* C04 — concurrent transactions with disjoint changes to one store all commit; the store is the union. *)
From Coq Require Import List ZArith NArith Bool Permutation.
From SopVerif Require Import Gen.Consts Merge MergeProofs.
Import ListNotations.
Local Open Scope Z_scope.

(* Replaying a transaction's tracked actions (pairwise distinct keys, any order) on a store that holds,
   under each of those keys, what the transaction read — whatever other transactions did to OTHER keys —
   never returns "failed to merge add item" / "failed to find item" / "detected a newer version", gives
   every tracked key its intended content and leaves all other keys alone. *)
Theorem C04_merge_disjoint_ok : forall unique innode es s t,
  nodupk s -> NoDup (map tkey es) -> Forall (fun e => reads_hold e s) es ->
  exists s' t', replay unique innode es (s, t) = inr (s', t')
    /\ (forall e, In e es -> lookup (tkey e) s' = effect e s)
    /\ (forall k, ~ In k (map tkey es) -> lookup k s' = lookup k s)
    /\ nodupk s'.
Proof. exact replay_ok. Qed.
Print Assumptions C04_merge_disjoint_ok.

(* ... and this holds for every order in which Go's map iteration presents the actions *)
Theorem C04_merge_any_order : forall unique innode es es' s t,
  Permutation es es' -> nodupk s -> NoDup (map tkey es) -> Forall (fun e => reads_hold e s) es ->
  exists s' t', replay unique innode es' (s, t) = inr (s', t')
    /\ (forall e, In e es -> lookup (tkey e) s' = effect e s)
    /\ (forall k, ~ In k (map tkey es) -> lookup k s' = lookup k s).
Proof.
  intros unique innode es es' s t Hp Hn Hnd Hall.
  assert (Hnd' : NoDup (map tkey es')) by (eapply Permutation_NoDup; [apply Permutation_map; exact Hp|exact Hnd]).
  assert (Hall' : Forall (fun e => reads_hold e s) es') by (eapply Permutation_Forall; eauto).
  destruct (replay_ok unique innode es' s t Hn Hnd' Hall') as (s' & t' & E & Hin & Hout & _).
  exists s', t'. split; [exact E|]. split.
  - intros e He. apply Hin. eapply Permutation_in; eauto.
  - intros k Hk. apply Hout. intros H. apply Hk. eapply Permutation_in; [apply Permutation_sym, Permutation_map; exact Hp|exact H].
Qed.
Print Assumptions C04_merge_any_order.

(* Progress of the phase-1 loop under the sorted all-or-nothing try-lock (no faults, no lock expiry): in
   every round at least one contender gets all its node keys and finishes, so k contenders are done after at
   most k rounds, whatever order the scheduler presents them in each round; k <= phase1CommitMaxRetryCount
   contenders therefore stay within the retry limit. Liveness against a scheduler that keeps one writer off
   the lock until maxTime is not claimed. *)
Theorem C04_progress : forall cs,
  (exists n, finishes cs n) /\
  (forall n, finishes cs n -> (n <= length cs)%nat) /\
  (Z.of_nat (length cs) <= phase1CommitMaxRetryCount -> forall n, finishes cs n -> Z.of_nat n <= phase1CommitMaxRetryCount).
Proof.
  intros cs. split; [apply (finishes_exists (length cs)); auto|]. split; [apply finishes_bound|].
  intros Hk n Hf. apply finishes_bound in Hf. apply Nat2Z.inj_le in Hf. eapply Z.le_trans; eauto.
Qed.
Print Assumptions C04_progress.

(* ---------------------------------------------------------------- the full statement is false (each witness reproduced on the real code) *)

Definition it0 (id : N) (v : N) := mkItem id 0 v.
Definition init3 : store := [(10, it0 1 10); (20, it0 2 20); (30, it0 3 30)].
Definition wst (os : list op) : wstate := snd (run_ops true init3 2000 os).

(* the first root of an empty store: both writers see an empty root; W0 registers it and commits, the root
   blob holds W1's items *)
Theorem C04_first_root_refuted : exists sch, let st := root_run sch in
  r_ok st = [0%nat] /\ r_failed st = [1%nat] /\ r_blob st = Some 1%nat.
Proof. exists [(0,RGet);(1,RGet);(0,RBlob);(1,RBlob);(0,RReg);(1,RReg)]%nat. vm_compute. auto. Qed.
(* once the store has a root the race cannot start: Get finds it and the writer goes to the merge path *)
Theorem C04_first_root_partial : forall st i c, r_reg st <> None -> ~ In i (r_saw_empty st) ->
  root_step st (i, c) = st.
Proof.
  intros st i c Hreg Hni. destruct c; cbn.
  - destruct (r_reg st); [reflexivity|congruence].
  - assert (memb i (r_saw_empty st) = false) as ->; [|reflexivity].
    unfold memb. apply not_true_is_false. intros H. apply existsb_exists in H. destruct H as (x & Hx & He).
    apply Nat.eqb_eq in He. subst. auto.
  - assert (memb i (r_saw_empty st) = false) as ->; [|reflexivity].
    unfold memb. apply not_true_is_false. intros H. apply existsb_exists in H. destruct H as (x & Hx & He).
    apply Nat.eqb_eq in He. subst. auto.
Qed.

(* a writer that needs two refetch rounds on a values-in-node store commits "successfully" without its adds *)
Theorem C04_double_merge_refuted : exists cur s,
  (forall k, k <> 40 -> k <> 50 -> k <> 15 -> lookup k cur = lookup k init3) /\
  commit_writer true true init3 cur (wst [mkOp OAdd 25 25]) 2 = Some s /\ lookup 25 s = None /\
  (* one round would have kept it; stores with values outside the node keep it in both *)
  (exists s1, commit_writer true true init3 cur (wst [mkOp OAdd 25 25]) 1 = Some s1 /\ vlookup 25 s1 = Some 25%N) /\
  (exists s2, commit_writer true false init3 cur (wst [mkOp OAdd 25 25]) 2 = Some s2 /\ vlookup 25 s2 = Some 25%N).
Proof.
  exists (ins 15 (it0 3001 15) (ins 40 (it0 1001 40) (ins 50 (it0 1002 50) init3))).
  eexists. split.
  - intros k H1 H2 H3. rewrite !lookup_ins_other; auto.
  - vm_compute. split; [reflexivity|]. split; [reflexivity|]. split; eexists; split; reflexivity.
Qed.

(* add k then update k in one transaction: after a refetch round the store holds the value of the add *)
Theorem C04_add_then_update_refuted : exists cur s, let w := wst [mkOp OAdd 5 5; mkOp OUpdate 5 55] in
  (forall k, k <> 40 -> lookup k cur = lookup k init3) /\
  vlookup 5 (wlocal w) = Some 55%N /\ commit_writer true true init3 cur w 1 = Some s /\ vlookup 5 s = Some 5%N.
Proof.
  exists (ins 40 (it0 1001 40) init3). eexists. cbv zeta. split.
  - intros k H1. rewrite !lookup_ins_other; auto.
  - vm_compute. auto.
Qed.

(* update k then remove k: the refetch round reports a newer version although nobody else touched k *)
Theorem C04_update_then_remove_refuted : exists cur, let w := wst [mkOp OUpdate 10 11; mkOp ORemove 10 0] in
  (forall k, k <> 40 -> lookup k cur = lookup k init3) /\
  merges true true 1 cur (wtrk w) = inl ENewer /\ commit_writer true true init3 cur w 1 = None.
Proof.
  exists (ins 40 (it0 1001 40) init3). cbv zeta. split.
  - intros k H1. rewrite !lookup_ins_other; auto.
  - vm_compute. auto.
Qed.

(* remove k then add k in a unique store: one of the two orders Go's map iteration can take fails *)
Theorem C04_remove_then_add_refuted : exists cur es, let w := wst [mkOp ORemove 10 0; mkOp OAdd 10 99] in
  (forall k, k <> 40 -> lookup k cur = lookup k init3) /\ Permutation (wtrk w) es /\
  replay true true es (cur, []) = inl EAddDup /\
  exists s t, replay true true (wtrk w) (cur, []) = inr (s, t) /\ vlookup 10 s = Some 99%N.
Proof.
  exists (ins 40 (it0 1001 40) init3). eexists (rev (wtrk (wst [mkOp ORemove 10 0; mkOp OAdd 10 99]))). cbv zeta.
  split; [intros k H1; rewrite !lookup_ins_other; auto|].
  split; [apply Permutation_rev|]. split; [vm_compute; reflexivity|].
  eexists _, _. vm_compute. split; reflexivity.
Qed.

(* ---------------------------------------------------------------- union, away from those patterns (bounded evaluation only) *)

(* two writers, one call each on different keys (insert a new key / update / remove an existing one), the
   second possibly through one refetch round, in both commit orders: both commit, both orders give the same
   contents, and each writer's change is in them *)
Definition one_ops1 : list op := [mkOp OAdd 5 105; mkOp OUpsert 6 106; mkOp OUpdate 10 110; mkOp ORemove 20 0; mkOp OUpsert 10 111].
Definition one_ops2 : list op := [mkOp OAdd 7 207; mkOp OAddNE 8 208; mkOp OUpdate 30 230; mkOp ORemove 30 0; mkOp OUpdKey 30 0].
Definition expect_after (o : op) (s : store) : bool :=
  match okind o with
  | ORemove => match lookup (okey o) s with None => true | Some _ => false end
  | OUpdKey => match lookup (okey o) s with Some _ => true | None => false end
  | _ => match vlookup (okey o) s with Some v => N.eqb v (oval o) | None => false end
  end.
Definition union_case (u n : bool) (o1 o2 : op) (m1 m2 : nat) : bool :=
  let w1 := (0%nat, mkWriter [o1] m1) in let w2 := (1%nat, mkWriter [o2] m2) in
  match run_seq u n init3 1000 [w1; (1%nat, mkWriter [o2] (S m2))] init3, run_seq u n init3 1000 [w2; (0%nat, mkWriter [o1] (S m1))] init3 with
  | Some a, Some b =>
      expect_after o1 a && expect_after o2 a && expect_after o1 b && expect_after o2 b &&
      forallb (fun k => match vlookup k a, vlookup k b with
                        | Some x, Some y => N.eqb x y | None, None => true | _, _ => false end) [5;6;7;8;10;20;30]
  | _, _ => false
  end.
Theorem C04_union_partial_bounded :
  forallb (fun u => forallb (fun n => forallb (fun o1 => forallb (fun o2 => union_case u n o1 o2 0 0)
    one_ops2) one_ops1) [true; false]) [true; false] = true.
Proof. vm_compute. reflexivity. Qed.
Print Assumptions C04_first_root_refuted.
Print Assumptions C04_double_merge_refuted.
Print Assumptions C04_union_partial_bounded.

(* non-vacuity of the merge lemma: a tracker produced by real calls meets its hypotheses on a store that
   another writer changed elsewhere *)
Example C04_nonvacuous :
  let w := wst [mkOp OAdd 5 5; mkOp OUpdate 20 21; mkOp ORemove 30 0] in
  let cur := ins 40 (it0 1001 40) init3 in
  NoDup (map tkey (wtrk w)) /\ Forall (fun e => reads_hold e cur) (wtrk w) /\ length (wtrk w) = 3%nat.
Proof.
  cbv zeta. split; [vm_compute; repeat constructor; cbn; intuition congruence|].
  split; [|reflexivity]. vm_compute. repeat constructor; cbn; eauto.
Qed.

(* C15 — commits end within their time budget and never deadlock (PARTIAL by nature).
   The theorems bound the LOGICAL clock of the model Timeout.v: phase-1 retry loop, every call with an
   adversarial duration within a bound, every lock acquisition a try-lock.  Real I/O latency,
   goroutine scheduling and GC pauses are not in the model; the harness compares measured wall-clock
   durations with the bound below instantiated with measured per-call maxima. *)
From Coq Require Import ZArith Bool List Lia ZifyNat ZifyBool.
From SopVerif Require Import Gen.Consts Gen.TimeoutConsts Timeout TimeoutProofs.
Local Open Scope Z_scope.

(* Phase1Commit called at t0 (deadline, if any, not yet over) returns, for every behaviour of the
   environment (round outcomes and durations within their bounds: any contention pattern, any schedule),
   by min(deadline, t0 + maxTime) + B, B = overheadB c = pre + one loop round + one sleep + post + rollback,
   an explicit expression in the per-call bound, the number of handles, the file-region lock wait and
   the retry backoff.  After an error return no node lock and no item lock record is owned. *)
Theorem C15_bounded : forall c maxTime D t0 pre post rb post_ok fuel adv,
  wf_cost c -> 0 <= maxTime -> (match D with Some d => t0 <= d | None => True end) ->
  0 <= pre <= preBound c -> 0 <= post <= postBound c -> 0 <= rb <= rollbackBound c ->
  (forall k, wf_round (mkLP maxTime D (iterBound c) sleepMin sleepMax) (adv k)) ->
  let '(e, ok, held) := phase1 c maxTime D t0 pre post rb post_ok fuel adv in
  e <= (match D with Some d => Z.min d (t0 + maxTime) | None => t0 + maxTime end) + overheadB c.
Proof.
  intros. pose proof (phase1_bounded c maxTime D t0 pre post rb post_ok fuel adv) as P.
  destruct (phase1 c maxTime D t0 pre post rb post_ok fuel adv) as [[e ok] held]. apply P; auto.
Qed.
Print Assumptions C15_bounded.

(* giving up releases the NODE locks: every error path of Phase1Commit runs rollback, which calls
   unlockNodesKeys unconditionally (held = node locks owned at return) *)
Theorem C15_giveup_releases_partial : forall c maxTime D t0 pre post rb post_ok fuel adv,
  let '(e, ok, held) := phase1 c maxTime D t0 pre post rb post_ok fuel adv in ok = false -> held = false.
Proof.
  intros. unfold phase1.
  destruct (loop _ _ _ _ _ _ _) as [[[e o] kf] hh]. destruct o as [|[|]|]; try destruct post_ok; intros; auto; discriminate.
Qed.
Print Assumptions C15_giveup_releases_partial.

(* ... but NOT the item lock records.  Full statement for them: after lock() and unlock() no record of
   this transaction is left.  False: a record written by lock() for an item that comes after the first
   conflicting item is never marked isLockOwner, so unlock() skips it and it stays until its TTL
   (= maxTime), failing every later writer of that item with "detected conflict" (reproduced: finding). *)
Definition C15_item_locks_released_full : Prop := forall mine, forallb negb (item_leftover mine) = true.
Theorem C15_item_locks_released_refuted : ~ C15_item_locks_released_full.
Proof. intros H. specialize (H (false :: true :: nil)). vm_compute in H. discriminate. Qed.
Print Assumptions C15_item_locks_released_refuted.
(* it holds when lock() succeeded (then every record is marked and later deleted) *)
Theorem C15_item_locks_released_partial : forall mine,
  snd (item_verify mine) = true -> forallb negb (item_leftover mine) = true.
Proof. exact item_no_leftover_on_success. Qed.
Print Assumptions C15_item_locks_released_partial.

(* the number of loop rounds that pass the time check is at most limit / minimum sleep + 1:
   timedOut is tested first, and every unsuccessful round sleeps at least sleepMin unless the deadline cut the sleep *)
Theorem C15_iterations : forall p start adv fuel, wf_lp p -> (forall k, wf_round p (adv k)) ->
  let '(_, _, k, _) := loop p start start fuel 0%nat false adv in Z.of_nat k <= lT p / lm p + 1.
Proof.
  intros p start adv fuel WP W.
  pose proof (loop_iters p start adv WP W fuel start 0%nat false (progressed_start p start)) as H.
  assert (K0 : Z.of_nat 0 <= lT p / lm p + 1).
  { destruct WP as (Hm & HA & HT). assert (0 <= lT p / lm p) by (apply Z.div_pos; lia). lia. }
  specialize (H K0). destruct (loop p start start fuel 0%nat false adv) as [[[e o] k] hh]. apply H.
Qed.
Print Assumptions C15_iterations.

Corollary C15_iterations_commit : forall c maxTime D start adv fuel, wf_cost c -> 0 <= maxTime ->
  (forall k, wf_round (mkLP maxTime D (iterBound c) sleepMin sleepMax) (adv k)) ->
  let '(_, _, k, _) := loop (mkLP maxTime D (iterBound c) sleepMin sleepMax) start start fuel 0%nat false adv in
  Z.of_nat k <= maxTime / randomSleepUnit_ms + 1.
Proof.
  intros c maxTime D start adv fuel WC HT W.
  apply (C15_iterations (mkLP maxTime D (iterBound c) sleepMin sleepMax) start adv fuel); auto.
  destruct (bounds_nonneg c WC) as (_ & B2 & _). unfold wf_lp; cbn [lm lM lA lT]. pose proof sleep_consts. lia.
Qed.

(* no deadlock: no transaction can wait forever, whatever the others do.  Every step of the loop is a
   call that returns (try-locks included) or a bounded sleep, so for EVERY environment the loop has left
   (time-out or done) after at most limit/sleepMin + 2 rounds; hence in a system of any number of
   transactions there is no reachable state in which all of them wait. *)
Theorem C15_no_deadlock : forall p start adv fuel, wf_lp p -> (forall k, wf_round p (adv k)) ->
  lT p / lm p + 1 < Z.of_nat fuel ->
  let '(_, o, _, _) := loop p start start fuel 0%nat false adv in o <> Running.
Proof. exact (fun p start adv fuel => loop_terminates p start adv fuel). Qed.
Print Assumptions C15_no_deadlock.

Theorem C15_no_deadlock_system : forall (txs : list (lp * Z * (nat -> round))),
  Forall (fun t => wf_lp (fst (fst t)) /\ forall k, wf_round (fst (fst t)) (snd t k)) txs ->
  Forall (fun t => let p := fst (fst t) in
            let '(_, o, _, _) := loop p (snd (fst t)) (snd (fst t)) (Z.to_nat (lT p / lm p + 2)) 0%nat false (snd t) in
            o <> Running) txs.
Proof.
  intros txs H. eapply Forall_impl; [|exact H]. intros [[p s] adv] [WP W]. cbn [fst snd] in *.
  apply C15_no_deadlock; [exact WP|exact W|].
  destruct WP as (Hm & HA & HT). assert (Q : 0 <= lT p / lm p) by (apply Z.div_pos; lia).
  generalize dependent (lT p / lm p). intros q Q. rewrite Z2Nat.id; lia.
Qed.

(* the inner file-region lock loop (hashmap.fileregion.go) ends by start + lockSectorRetryTimeout + one try + one sleep *)
Theorem C15_region_wait_bounded : forall cc D start fuel adv,
  0 <= cc -> (forall k, wf_round (mkLP lockSectorRetryTimeout_ms D cc sleepMin sleepMax) (adv k)) ->
  let '(e, o, _, _) := loop (mkLP lockSectorRetryTimeout_ms D cc sleepMin sleepMax) start start fuel 0%nat false adv in
  e <= start + regionWaitProd cc.
Proof. exact region_wait_bounded. Qed.
Print Assumptions C15_region_wait_bounded.

(* B with the production constants, per-call bound 50 ms, 10 handles, 40 calls: about 2 hours when every
   file-region lock holder is dead, about 38 s when none stalls (24 s of it the two store-info lock retry backoffs) — reported, not judged *)
Example C15_B_production_dead_holders :
  overheadB (mkCost 50 10 40 (regionWaitProd 50) retryStartDuration_ms) = 7243280.
Proof. vm_compute. reflexivity. Qed.
Example C15_B_production_no_stall :
  overheadB (mkCost 50 10 40 0 retryStartDuration_ms) = 38080.
Proof. vm_compute. reflexivity. Qed.

(* non-vacuity: an environment that fails twice (second time still holding locks) and then times out *)
Example C15_nonvacuous :
  let c := mkCost 5 2 10 0 1 in
  let adv := fun k => match k with O => RFail 30 40 false | _ => RFail 30 80 true end in
  wf_cost c /\ (forall k, wf_round (mkLP 100 None (iterBound c) sleepMin sleepMax) (adv k))
  /\ phase1 c 100 None 0 3 0 7 true 50 adv = (190, false, false).
Proof.
  cbv zeta. split; [unfold wf_cost; cbn; lia|]. split.
  - intros [|k]; vm_compute; repeat split; discriminate.
  - vm_compute. reflexivity.
Qed.

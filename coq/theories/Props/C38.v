(* C38 — values returned by reads are private to the caller.

   Full statement: the store behaves like the copy semantics `spec_run` of
   Alias.v (a read hands out a private deep copy of the committed value;
   in-place writes change that copy only; only a committed write-back changes
   what is read) for EVERY program of reads, in-place writes, write-backs,
   commits/rollbacks, L1 evictions and process restarts:
       forall d evs, snd (run (init_state d) evs) = snd (spec_run (spec_init d) evs).
   It is false of the faithful model and of the implementation (findings/C38.json). *)
From Coq Require Import List NArith Bool Arith.
From SopVerif Require Import Alias AliasProofs.
Import ListNotations.
Local Open Scope N_scope.

Definition d0 : data := [(0, [0; 11]); (1, [0; 22])].          (* two []byte-like values *)

(* read a []byte through GetCurrentValue, overwrite it in place, roll back:
   the next transaction of the process reads the modification from the L1 MRU clone *)
Theorem C38_private_refuted : exists d evs,
  snd (run (init_state d) evs) <> snd (spec_run (spec_init d) evs) /\
  evs = [ETx [ARead 0 ApiValue; AMut 0%nat 1%nat 99] false; ETx [ARead 0 ApiValue] true] /\
  snd (run (init_state d) evs) = [(true, [0; 11]); (true, [0; 99]); (true, [0; 99])] /\
  snd (spec_run (spec_init d) evs) = [(true, [0; 11]); (true, [0; 99]); (true, [0; 11])].
Proof.
  exists d0, [ETx [ARead 0 ApiValue; AMut 0%nat 1%nat 99] false; ETx [ARead 0 ApiValue] true].
  split; [vm_compute; discriminate|]. split; [reflexivity|]. split; vm_compute; reflexivity.
Qed.
Print Assumptions C38_private_refuted.

(* the same within one transaction *)
Theorem C38_same_tx_refuted : exists d evs,
  evs = [ETx [ARead 0 ApiValue; AMut 0%nat 1%nat 99; ARead 0 ApiValue] false] /\
  nth 2 (snd (run (init_state d) evs)) (false, []) = (true, [0; 99]) /\
  nth 2 (snd (spec_run (spec_init d) evs)) (false, []) = (true, [0; 11]).
Proof. exists d0. eexists. split; [reflexivity|]. split; vm_compute; reflexivity. Qed.
Print Assumptions C38_same_tx_refuted.

(* a value type read through GetCurrentItem is no better: the Item carries the slot's pointer *)
Theorem C38_item_pointer_refuted : exists d evs,
  d = [(0, [11])] /\
  evs = [ETx [ARead 0 ApiItem; AMut 0%nat 0%nat 99] false; ETx [ARead 0 ApiValue] true] /\
  nth 2 (snd (run (init_state d) evs)) (false, []) = (true, [99]) /\
  nth 2 (snd (spec_run (spec_init d) evs)) (false, []) = (true, [11]).
Proof. eexists. eexists. split; [reflexivity|]. split; [reflexivity|]. split; vm_compute; reflexivity. Qed.
Print Assumptions C38_item_pointer_refuted.

(* and the unwritten modification becomes durable when another key of the node is written back:
   after a process restart key 0 reads 99 although only key 1 was ever updated *)
Theorem C38_durable_refuted : exists d evs,
  evs = [ETx [ARead 0 ApiValue; AMut 0%nat 1%nat 99] false;
         ETx [ARead 1 ApiValue; AReplace 1%nat [0; 77]; AUpdate 1 1%nat] true;
         ERestart; ETx [ARead 0 ApiValue] true] /\
  last (snd (run (init_state d) evs)) (false, []) = (true, [0; 99]) /\
  last (snd (spec_run (spec_init d) evs)) (false, []) = (true, [0; 11]) /\
  lookup (dur (fst (run (init_state d) evs))) 0 = Some [0; 99].
Proof. exists d0. eexists. split; [reflexivity|]. repeat split; vm_compute; reflexivity. Qed.
Print Assumptions C38_durable_refuted.

(* ---- what does hold, for every state and every action (unbounded) ---- *)

(* Partial 1 (value-typed TV through GetCurrentValue; any TV as long as the caller
   writes only to its own copy): in any state whose heap is closed, a caller that
   holds only GetCurrentValue results and performs a read, an assignment to its
   own copy (depth 0), a replacement of its variable or a write-back never changes
   the deep content of ANY existing cell — whatever a node, the L1 entry or another
   reader holds keeps its content. Excluded: exactly the refuting patterns above
   (writes at depth >= 1 through a returned reference, writes through an Item). *)
Theorem C38_private_partial : forall s a i,
  closed (hp s) -> all_value_handles (hs s) -> private_act a = true ->
  (i < length (hp s))%nat ->
  snapshot (hp (fst (step s a))) i = snapshot (hp s) i.
Proof. exact private_step_preserves. Qed.
Print Assumptions C38_private_partial.

(* Partial 2 (reads not served by the L1 cache): with no L1 entry (first read of a
   process, after eviction) a read through either API returns exactly the data in
   the blob store / L2 cache, whatever happened to earlier copies. *)
Theorem C38_cold_read_partial : forall s k v a,
  closed (hp s) -> l1 s = None -> txn s = None ->
  lookup (dur s) k = Some v -> (1 <= length v <= chain_fuel)%nat ->
  snd (step s (ARead k a)) = (true, v).
Proof. exact cold_read_committed. Qed.
Print Assumptions C38_cold_read_partial.

(* decode/encode of a value chain round-trips and allocates only fresh cells *)
Theorem C38_decode_fresh : forall d h, closed h ->
  exists t, fst (alloc_chain h d) = h ++ t /\ closed (h ++ t) /\
            (forall f, (length d <= f)%nat -> snap_from f (h ++ t) (snd (alloc_chain h d)) = d).
Proof.
  intros d h Hc. destruct (alloc_chain_spec d h Hc) as (t & H1 & H2 & _ & H4). exists t. auto.
Qed.
Print Assumptions C38_decode_fresh.

(* non-vacuity: a reachable state meets the hypotheses of the partial theorems *)
Example C38_nonvacuous :
  let s := fst (run (init_state d0) [ETx [ARead 0 ApiValue; AMut 0%nat 0%nat 5] false]) in
  closed (hp s) /\ all_value_handles (hs s) /\ (0 < length (hp s))%nat /\ l1 s <> None /\
  private_act (AReplace 0%nat [0; 7]) = true.
Proof.
  cbv zeta. repeat split.
  - vm_compute hp. intros i c j Hn Hj.
    destruct i as [|[|[|[|i]]]]; cbn in Hn.
    + injection Hn as <-. discriminate Hj.
    + injection Hn as <-. injection Hj as <-. cbn. repeat constructor.
    + injection Hn as <-. discriminate Hj.
    + injection Hn as <-. injection Hj as <-. cbn. repeat constructor.
    + destruct i; discriminate Hn.
  - vm_compute hs. intros i x Hn. destruct i as [|i]; cbn in Hn.
    + injection Hn as <-. eauto.
    + destruct i; discriminate Hn.
  - vm_compute. repeat constructor.
  - vm_compute. discriminate.
Qed.

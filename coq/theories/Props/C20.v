(* C20 — caches never serve stale data. *)
From Coq Require Import List NArith Bool.
From SopVerif Require Import CacheCoh CacheCohProofs.
Import ListNotations.
Local Open Scope N_scope.

(* One process (P = 1), standalone or clustered L2, after ANY history of its own commits and reads and of
   adversarial evictions of any L1-handle / L1-node / L2-handle / L2-node entry (any capacity, TTL, clear):
   a read of any node, with or without the phase-0 fast path, returns the blob stored under the active id of
   the registry's current handle. *)
Theorem C20_single_process : forall cfg p es l fast,
  shared cfg (cfg p) -> Forall (by_p p) es ->
  let s := fst (run cfg st0 es) in
  fst (read cfg s p l fast) = latest s l.
Proof.
  intros cfg p es l fast Hsh Hb s.
  assert (Hi : solo_inv (cfg p) p s).
  { apply solo_run; auto. split; [apply coherent0|]. intros l0 h0 X. discriminate. }
  destruct Hi as [Hc Hf].
  destruct (read cfg s p l fast) as [r s1] eqn:Hr. cbn [fst].
  destruct fast.
  - now destruct (read_fast_ok _ _ _ _ _ _ _ Hsh Hc Hf Hr) as [_ [H _]].
  - now destruct (read_slow_ok _ _ _ _ _ _ _ Hsh Hc Hr) as [_ [H _]].
Qed.
Print Assumptions C20_single_process.

(* Any number of processes sharing one L2 (clustered), any interleaving of their commits, registry-path reads
   (phase >= 1, i.e. nodeRepositoryBackend.get without the fast path) and evictions: the invariant Coherent
   holds throughout and EVERY such read returns the latest committed blob. *)
Theorem C20_clustered_partial : forall cfg c0 es, shared cfg c0 -> Forall no_fast es ->
  Coherent c0 (fst (run cfg st0 es)) /\
  forall pre p l f post, es = pre ++ Read p l f :: post ->
    nth (length (snd (run cfg st0 pre))) (snd (run cfg st0 es)) None = latest (fst (run cfg st0 pre)) l.
Proof. intros cfg c0 es Hsh Hnf. apply run_slow_fresh; auto. apply coherent0. Qed.
Print Assumptions C20_clustered_partial.

(* Coherent is preserved by every protocol step and every eviction (clustered) *)
Theorem C20_coherent_step : forall cfg c0 s e, shared cfg c0 -> Coherent c0 s ->
  match e with Read _ _ true => True | _ => Coherent c0 (fst (step cfg s e)) end.
Proof.
  intros cfg c0 s e Hsh Hc. destruct e as [p l c|p l f|p l|p x|i l|i x].
  - cbn. now apply write_ok.
  - destruct f; [exact I|]. unfold step. destruct (read cfg s p l false) as [r s1] eqn:Hr. cbn [fst].
    now destruct (read_slow_ok _ _ _ _ _ _ _ Hsh Hc Hr).
  - exact (evict_ok cfg c0 s (EvL1h p l) Hc).
  - exact (evict_ok cfg c0 s (EvL1n p x) Hc).
  - exact (evict_ok cfg c0 s (EvL2h i l) Hc).
  - exact (evict_ok cfg c0 s (EvL2n i x) Hc).
Qed.
Print Assumptions C20_coherent_step.

(* The full statement for P > 1 is FALSE (DESIGN.md suspect S10, reproduced on the implementation with two OS
   processes sharing one RESP server): the phase-0 fast path consults the per-process L1 handle MRU before
   the registry, so after ANOTHER process commits, a process that had written the node itself is served the
   old node from its L1 — although docs/ARCHITECTURE.md states that handles are not cached in L1. *)
Theorem C20_clustered_refuted : exists es p l,
  shared clustered 0 /\
  let s := fst (run clustered st0 es) in
  fst (read clustered s p l true) <> latest s l /\ fst (read clustered s p l false) = latest s l.
Proof.
  exists [Write 0 7 11; Read 0 7 true; Write 1 7 22], 0, 7.
  split; [intros q; reflexivity|]. vm_compute. split; [discriminate|reflexivity].
Qed.
Print Assumptions C20_clustered_refuted.

(* two standalone processes (one in-memory L2 each) on one folder: the reader's own L2 keeps the old handle.
   config.go / ARCHITECTURE.md define Standalone as single-process, so this is a documented limit, not a finding. *)
Theorem C20_two_standalone_processes_refuted : exists es,
  let s := fst (run standalone st0 es) in fst (read standalone s 1 7 false) <> latest s 7.
Proof. exists [Write 0 7 11; Read 1 7 false; Write 0 7 22]. vm_compute. discriminate. Qed.
Print Assumptions C20_two_standalone_processes_refuted.

(* non-vacuity: a single-process history with commits, reads and evictions ends in a state with a live node *)
Example C20_nonvacuous :
  let es := [Write 0 7 11; Read 0 7 true; EvL1n 0 1; Write 0 7 22; EvL2h 0 7; Read 0 7 true; EvL1h 0 7] in
  Forall (by_p 0) es /\ latest (fst (run clustered st0 es)) 7 = Some 22 /\
  snd (run clustered st0 es) = [Some 11; Some 22].
Proof. cbv zeta. split; [repeat constructor|]. vm_compute. split; reflexivity. Qed.

(* C17 — a B-tree store behaves as a correctly ordered collection.

   Layers: OMap (specification: key-sorted item list + cursor), Btree (node-level
   model transcribed from btree.go / node.go / node.handlenilchild.go), BtreeSim
   (the refinement statement sim_run).  Status of the theorems below:
     FULL      proved for every input, unbounded      (spec layer, lifting, transfer)
     REFUTED   the full statement is false of the faithful model; witness reproduced on the real code
     PARTIAL   the refinement with an explicit hypothesis for what is not proved by induction
     BOUNDED   vm_compute over a finite domain, bound in the statement; not the claim *)
From Coq Require Import List ZArith NArith Bool.
From SopVerif Require Import OMap OMapProofs OMapProofs2 Btree BtreeSim BtreeProofs BtreeProofs2
  BtreeBounded1 BtreeBounded2 BtreeBounded3 BtreeBounded4 BtreeWF BtreeLemmas BtreeCount BtreeShape BtreeFind BtreeNext BtreePrev BtreeFindLoc Corr.C17.
Import ListNotations.
Local Open Scope Z_scope.

(* ---------------------------------------------------------------- FULL: the specification *)

(* every accepted run of the specification, whatever the calls and the resolved choices:
   keys sorted, ids distinct, keys distinct in a unique store, cursor inside the list *)
Theorem C17_spec_ordered : forall u ops s rs, orun u empty_omap ops = Some (s, rs) ->
  sorted (items s) /\ NoDup (map iid (items s)) /\ (u = true -> NoDup (map ikey (items s))) /\
  (forall i, cur s = CAt i -> (i < length (items s))%nat).
Proof.
  intros u ops s rs H. destruct (orun_inv u ops _ _ _ (Inv_empty u) H) as [H1 [H2 _] H3 H4]. auto.
Qed.
Print Assumptions C17_spec_ordered.

(* First then Next.. returns exactly the items in stored (key) order; Last then Previous.. the reverse *)
Theorem C17_forward_scan : forall u s, scan_forward u s = map key_id (items s).
Proof. exact scan_forward_spec. Qed.
Print Assumptions C17_forward_scan.

Theorem C17_backward_scan : forall u s, scan_backward u s = map key_id (rev (items s)).
Proof. exact scan_backward_spec. Qed.
Print Assumptions C17_backward_scan.

(* results and count of adds, conditional adds and removals *)
Theorem C17_add_result : forall u s k v h s' r, ostep u s (OAdd k v) h = Some (s', r) ->
  ocount s' = ocount s + (if rok r then 1 else 0) /\
  (u = true -> rok r = negb (has_key (items s) k)) /\ (u = false -> rok r = true).
Proof. exact count_add. Qed.
Print Assumptions C17_add_result.

Theorem C17_add_if_not_exist_result : forall u s k v h s' r, ostep u s (OAddIfNotExist k v) h = Some (s', r) ->
  ocount s' = ocount s + (if rok r then 1 else 0) /\ rok r = negb (has_key (items s) k).
Proof. exact count_add_if_not_exist. Qed.
Print Assumptions C17_add_if_not_exist_result.

Theorem C17_remove_result : forall u s k h s' r, ostep u s (ORemove k) h = Some (s', r) ->
  ocount s' = ocount s - (if rok r then 1 else 0).
Proof. exact count_remove. Qed.
Print Assumptions C17_remove_result.

Theorem C17_remove_current_result : forall u s h s' r, ostep u s ORemoveCurrent h = Some (s', r) ->
  ocount s' = ocount s - (if rok r then 1 else 0).
Proof. exact count_remove_current. Qed.
Print Assumptions C17_remove_current_result.

(* updates: no update call changes a key, an id or the order; a key comparing unequal is rejected *)
Theorem C17_update_keeps_order : forall u s o h s' r, Inv u s -> is_update o = true ->
  ostep u s o h = Some (s', r) -> map key_id (items s') = map key_id (items s).
Proof. exact update_keeps_keys. Qed.
Print Assumptions C17_update_keeps_order.

Theorem C17_key_change_rejected : forall s i x k v, cur s = CAt i -> nth_error (items s) i = Some x -> ikey x <> k ->
  update_current s k v = (s, reject s) /\ rok (reject s) = false /\ rerr (reject s) <> ENone.
Proof.
  intros s i x k v H1 H2 H3. split; [eapply reject_key_change; eauto|apply reject_not_ok].
Qed.
Print Assumptions C17_key_change_rejected.

(* ---------------------------------------------------------------- FULL: transfer to the node level *)

(* whenever the node-level run simulates (sim_run = true) it IS an accepted specification run
   with the same results, outputs and errors, and the node structure is an ordered collection *)
Theorem C17_sim_is_spec_run : forall cfg ops b s, sim_from cfg b s ops = true ->
  exists hs s' rs,
    length hs = length ops /\
    orun (cunique cfg) s (combine ops hs) = Some (s', rs) /\
    let '(b', rbs) := brun cfg b ops in
    map rok rs = map rok rbs /\ map rerr rs = map rerr rbs /\ map rout rs = map rout rbs /\
    (ops <> [] -> items s' = b_inorder b' /\ ocount s' = bcount b' /\ current_key s' = bcurrent_key b').
Proof. exact sim_from_orun. Qed.
Print Assumptions C17_sim_is_spec_run.

Theorem C17_sim_ordered : forall cfg ops, sim_run cfg ops = true ->
  let b := fst (brun cfg empty_bstate ops) in
  sorted (b_inorder b) /\ bcount b = Z.of_nat (length (b_inorder b)) /\
  NoDup (map iid (b_inorder b)) /\ (cunique cfg = true -> NoDup (map ikey (b_inorder b))).
Proof. exact sim_run_ordered. Qed.
Print Assumptions C17_sim_ordered.

(* ---------------------------------------------------------------- FULL: facts about the node-level model itself *)

(* Count() bookkeeping for EVERY state, configuration (load balancing included) and call:
   +1 exactly on a successful add, -1 exactly on a successful removal, unchanged otherwise *)
Theorem C17_count_bookkeeping : forall cfg b o,
  count_delta o (snd (bstep cfg b o)) (bcount b) (bcount (fst (bstep cfg b o))).
Proof. exact bstep_count. Qed.
Print Assumptions C17_count_bookkeeping.

(* the transcribed binary search (sort.Search) of add/find is the lower bound, of
   findInDescendingOrder the upper bound, on every node whose occupied slots are sorted *)
Theorem C17_node_search : forall n key, 0 <= ncount n <= Z.of_nat (length (nslots n)) ->
  sorted (occupied n) ->
  sort_search (ncount n) (fun i => key <=? ikey (slot n i)) = Z.of_nat (lb (occupied n) key) /\
  sort_search (ncount n) (fun i => key <? ikey (slot n i)) = Z.of_nat (ub (occupied n) key).
Proof. intros n key H1 H2. split; [apply node_search_is_lb|apply node_search_is_ub]; auto. Qed.
Print Assumptions C17_node_search.

(* ---------------------------------------------------------------- the refinement statement *)

Definition valid_cfg (cfg : bcfg) : Prop := 2 <= cL cfg /\ Z.even (cL cfg) = true.

(* the full claim: every call sequence, every even slot length >= 2, unique and duplicate,
   with and without leaf load balancing *)
Definition C17_full : Prop := forall cfg ops, valid_cfg cfg -> sim_run cfg ops = true.

(* REFUTED with leaf load balancing on (slot length 2): unsorted scan; ghost zero item and wrong
   count; wrong order among duplicates.  Each witness runs through the harness corpus on the
   real code on every check (findings lb:add:unsorted / lb:add:ghost-item / lb:add:content). *)
Theorem C17_lb_refuted : ~ C17_full.
Proof.
  intros H. specialize (H cfg_lb2 lb_witness_content ltac:(split; [cbn; discriminate|reflexivity])).
  destruct lb_content_witness as [Hf _]. congruence.
Qed.
Print Assumptions C17_lb_refuted.

Theorem C17_lb_refuted_unsorted : exists ops,
  sortedb (b_inorder (fst (brun cfg_lb2 empty_bstate ops))) = false.
Proof. exists lb_witness_unsorted. exact (proj1 lb_unsorted_witness). Qed.
Print Assumptions C17_lb_refuted_unsorted.

Theorem C17_lb_refuted_ghost : exists ops,
  let b := fst (brun cfg_lb2 empty_bstate ops) in
  existsb (fun x => N.eqb (iid x) 0) (b_inorder b) = true /\
  Z.eqb (bcount b) (Z.of_nat (length (b_inorder b))) = false.
Proof. exists lb_witness_ghost. destruct lb_ghost_witness as [H1 [H2 _]]. split; assumption. Qed.
Print Assumptions C17_lb_refuted_ghost.

(* REFUTED: "updates that would change the order are rejected" — the rejection right after a
   failed unique Add is a nil-dereference panic, not an error (finding update-reject-nil-deref) *)
Theorem C17_reject_refuted : exists cfg ops, In EPanic (map rerr (snd (brun cfg empty_bstate ops))).
Proof.
  exists (mkCfg 4 true false), reject_witness.
  pose proof reject_panic_witness as H. destruct (brun (mkCfg 4 true false) empty_bstate reject_witness) as [b rs].
  destruct H as [H _]. cbn [snd]. rewrite H. cbn. auto.
Qed.
Print Assumptions C17_reject_refuted.

(* the claim for the default configuration (leaf load balancing off): stated, tested (harness),
   bounded below, and reduced to a per-call simulation by C17_refines_partial; its inductive
   proof (invariant WF + one simulation lemma per call) is NOT closed *)
Definition C17_full_nolb : Prop :=
  forall cfg ops, valid_cfg cfg -> clb cfg = false -> sim_run cfg ops = true.

(* PARTIAL: refinement of whole runs from the per-call simulation.  The hypothesis names exactly
   what is assumed: a relation R between node-level and specification states that holds initially
   and is re-established by every allowed call together with agreement of all observables
   (sim_step).  Proved by induction on the call list for every configuration. *)
Theorem C17_refines_partial : forall cfg (R : bstate -> omap -> Prop) (allowed : op -> Prop),
  R empty_bstate empty_omap ->
  (forall b s o, R b s -> allowed o -> exists b' s', sim_step cfg b s o = Some (b', s') /\ R b' s') ->
  forall ops, Forall allowed ops -> sim_run cfg ops = true.
Proof.
  intros cfg R allowed H0 Hstep ops Hall. unfold sim_run. eapply sim_lift; eauto.
Qed.
Print Assumptions C17_refines_partial.

(* PARTIAL, stage 1 of the inductive refinement, first part (closed): on EVERY pair of states related
   by RelT - the node map forms a tree (BtreeShape.shape: any height, any slot length, nil children
   and unbalanced branches allowed) whose in-order walk is the specification's item list - every
   sequence of First / Last calls simulates.  Instance of C17_refines_partial with R = RelT.
   Props/C18.v C18_btree_find_first_hit adds Find(key,true) on a stored key (same relation + sorted).
   Not covered: Next/Previous, the other searches and the miss position (stage 1, rest), Add (2), Remove (3). *)
Theorem C17_refines_first_last : forall cfg b s ops, RelT b s -> Forall is_first_last ops ->
  sim_from cfg b s ops = true.
Proof. exact first_last_refines. Qed.
Print Assumptions C17_refines_first_last.

(* PARTIAL, stage 1, scans (closed): on every pair of states related by RelN - the node map forms a
   tree with correct parent links (BtreeNext.pshape: every node names its parent and getIndexOfChild
   finds every child at its own position; any height, slot length, nil children, unbalanced
   branches), its in-order walk is the specification's item list with distinct item ids, and the
   cursor is none, on an emptied slot, or on a located slot - every sequence of First / Next calls
   simulates: moveToNext (descent to the first item of the right child, or the climb through parent
   pointers) lands exactly on the next item of the list, and reports the end after the last one.
   With C17_sim_is_spec_run and C17_forward_scan: a forward scan of any such tree returns exactly its
   in-order list.  Not covered at node level: add, removal (the relation is not shown preserved by them). *)
Theorem C17_refines_scan : forall cfg b s ops, RelN (cL cfg) b s -> Forall is_scan_op ops ->
  sim_from cfg b s ops = true.
Proof. exact scan_refines. Qed.
Print Assumptions C17_refines_scan.

(* the same for all four navigation calls: every sequence of First / Last / Next / Previous simulates
   (BtreePrev.v mirrors the climb and the descent).  Forward and backward scans of any such tree
   return exactly its in-order list and its reverse. *)
Theorem C17_refines_navigation : forall cfg b s ops, RelN (cL cfg) b s -> Forall is_nav_op ops ->
  sim_from cfg b s ops = true.
Proof. exact nav_refines. Qed.
Print Assumptions C17_refines_navigation.

(* node level, same relation: an update whose key compares unequal to the current item's key changes
   nothing and is refused (UpdateCurrentItem with Some v, UpdateCurrentKey with None) *)
Theorem C17_btree_key_change_rejected : forall L b s i x k v, RelN L b s -> cur s = CAt i ->
  nth_error (items s) i = Some x -> ikey x <> k ->
  b_update_current b k v = (b, b_reject b) /\ rok (b_reject b) = false /\ rerr (b_reject b) <> ENone.
Proof. exact key_change_rejected_node. Qed.
Print Assumptions C17_btree_key_change_rejected.

Theorem C17_scan_nonvacuous :
  let cfg := mkCfg 2 false false in
  let b := fst (brun cfg empty_bstate [OAdd 1 1; OAdd 2 2; OAdd 3 3]) in
  exists s, RelN 2 b s /\ sim_from cfg b s [OFirst; ONext; ONext; ONext; ONext] = true.
Proof. exact scan_state. Qed.
Print Assumptions C17_scan_nonvacuous.

(* RelT is inhabited by a reachable three-node state (root split), and First/Last simulate there *)
Theorem C17_first_last_nonvacuous :
  let b := fst (brun (mkCfg 2 false false) empty_bstate [OAdd 1 1; OAdd 2 2; OAdd 3 3]) in
  exists s, RelT b s /\ sim_from (mkCfg 2 false false) b s [OFirst; OLast; OLast; OFirst] = true.
Proof. exact shaped_state. Qed.
Print Assumptions C17_first_last_nonvacuous.

(* BOUNDED (not the claim): every call sequence up to the stated length over the stated alphabet,
   by exhaustive evaluation inside Coq *)
Theorem C17_bounded_L2_7 : forall ops, (length ops <= 7)%nat -> Forall (fun o => In o alpha_mut) ops ->
  sim_run (mkCfg 2 false false) ops = true.
Proof. exact bounded_L2_dup_mut. Qed.
Print Assumptions C17_bounded_L2_7.

Theorem C17_bounded_L2_unique_5 : forall ops, (length ops <= 5)%nat -> Forall (fun o => In o alpha_mut_u) ops ->
  sim_run (mkCfg 2 true false) ops = true.
Proof. exact bounded_L2_unique_mut. Qed.
Print Assumptions C17_bounded_L2_unique_5.

Theorem C17_bounded_L2_mixed_5 : forall ops, (length ops <= 5)%nat -> Forall (fun o => In o alpha_mixed) ops ->
  sim_run (mkCfg 2 false false) ops = true.
Proof. exact bounded_L2_dup_mixed. Qed.
Print Assumptions C17_bounded_L2_mixed_5.

Theorem C17_bounded_L4_7 : forall ops, (length ops <= 7)%nat -> Forall (fun o => In o alpha_L4) ops ->
  sim_run (mkCfg 4 false false) ops = true.
Proof. exact bounded_L4_dup. Qed.
Print Assumptions C17_bounded_L4_7.

(* BOUNDED (not the claim): the structural invariant wfb (BtreeWF.v) in every reachable state *)
Theorem C17_bounded_wf_L2_7 : forall ops, (length ops <= 7)%nat -> Forall (fun o => In o alpha_mut) ops ->
  run_wf (mkCfg 2 false false) empty_bstate ops = true.
Proof. exact bounded_wf_L2. Qed.
Print Assumptions C17_bounded_wf_L2_7.

Theorem C17_bounded_wf_L4_7 : forall ops, (length ops <= 7)%nat -> Forall (fun o => In o alpha_L4) ops ->
  run_wf (mkCfg 4 false false) empty_bstate ops = true.
Proof. exact bounded_wf_L4. Qed.
Print Assumptions C17_bounded_wf_L4_7.

(* non-vacuity: a run with a root split, a removal through the successor swap and both scans is
   accepted by the specification and simulated by the node-level model *)
Example C17_nonvacuous :
  let ops := [OAdd 5 1; OAdd 3 2; OAdd 8 3; OAdd 5 4; OAdd 1 5; ORemove 5; OFirst; ONext; ONext; OLast; OPrev] in
  sim_run (mkCfg 2 false false) ops = true /\
  map ikey (b_inorder (fst (brun (mkCfg 2 false false) empty_bstate ops))) = [1; 3; 5; 8].
Proof. vm_compute. split; reflexivity. Qed.

(* C17 — a B-tree store behaves as a correctly ordered collection. (in progress) *)
From Coq Require Import List ZArith NArith.
From SopVerif Require Import OMap Btree.
Import ListNotations.

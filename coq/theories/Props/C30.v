(* C30 - JSON map-key stores order keys consistently, regardless of history.
   Model: MapKey.v (IndexSpecification.Comparer in /repo/jsondb/mapkey.indexspec.go,
   defaultComparer in /repo/jsondb/mapkey.go) over Compare.v. The comparers are
   stateful: run_spec / run_def replay the comparisons made earlier on the same
   comparer object. [typed ft m]: every field f of key m (a missing field reads as
   nil) is a value of the one key type [ft f] - e.g. JSON null / bool / number / string. *)
From Coq Require Import List ZArith NArith.
From SopVerif Require Import FloatCmp Compare CompareLib CompareProofs MapKey MapKeyProofs Corr.C30.
Import ListNotations.
Local Open Scope Z_scope.

Definition spec_after fmtv fields (h : list (jmap * jmap)) (x y : jmap) : Z :=
  fst (spec_cmp fmtv (run_spec fmtv (spec_init fields) h) x y).
Definition def_after fmtv (h : list (jmap * jmap)) (x y : jmap) : Z :=
  fst (def_cmp fmtv (run_def fmtv None h) x y).

(* ================= the full statement is false of the code (reproduced on the implementation) *)

(* index specification on field "a": after comparing two strings, cmp({a:null},{a:""}) = 0;
   on a fresh comparer (another process, or the next transaction) it is -1 *)
Theorem C30_spec_history_free_refuted : forall fmtv, exists fields h x y,
  spec_after fmtv fields h x y <> spec_after fmtv fields [] x y.
Proof.
  intros. exists [([97%N], true)], [([([97%N], KStr [115%N])], [([97%N], KStr [115%N])])],
    [([97%N], KNil)], [([97%N], KStr [])].
  vm_compute. discriminate.
Qed.
Print Assumptions C30_spec_history_free_refuted.

(* default comparer: the field list is frozen from the first key: after cmp({a:1},{a:1}),
   {a:1,b:2} and {a:1,b:3} compare equal; on a fresh comparer the first is smaller *)
Theorem C30_default_history_free_refuted : forall fmtv, exists h x y,
  def_after fmtv h x y <> def_after fmtv [] x y.
Proof.
  intros. pose (one := KF64 4607182418800017408%N).
  exists [([([97%N], one)], [([97%N], one)])],
    [([97%N], one); ([98%N], KF64 4611686018427387904%N)], [([97%N], one); ([98%N], KF64 4613937818241073152%N)].
  vm_compute. discriminate.
Qed.
Print Assumptions C30_default_history_free_refuted.

(* even with an empty history neither comparer is a preorder on keys whose field types differ *)
Theorem C30_preorder_refuted : forall fmtv, exists x y,
  spec_after fmtv [([97%N], true)] [] x y = -1 /\ spec_after fmtv [([97%N], true)] [] y x = 0 /\
  def_after fmtv [] x y = -1 /\ def_after fmtv [] y x = 0.
Proof. intros. exists [([97%N], KNil)], [([97%N], KStr [])]. repeat split; vm_compute; reflexivity. Qed.
Print Assumptions C30_preorder_refuted.

(* ================= what does hold: uniformly typed keys *)

(* index specification: the result never depends on the comparisons made before,
   for every history whose x keys are typed (y keys are unrestricted) *)
Theorem C30_spec_history_free_partial : forall fmtv ft fields h x y,
  (forall p, In p h -> typed ft (fst p)) -> typed ft x ->
  spec_after fmtv fields h x y = spec_after fmtv fields [] x y.
Proof.
  intros fmtv ft fields h x y Hh Hx. unfold spec_after.
  rewrite (spec_typed fmtv ft fields h x y Hh Hx).
  rewrite (spec_typed fmtv ft fields [] x y (fun p H => match H with end) Hx). reflexivity.
Qed.
Print Assumptions C30_spec_history_free_partial.

(* and it is a total preorder, whatever (typed) histories the individual comparisons were made after *)
Theorem C30_spec_preorder_partial : forall fmtv ft fields h1 h2 h3 x y z,
  (forall p, In p (h1 ++ h2 ++ h3) -> typed ft (fst p)) -> typed ft x -> typed ft y -> typed ft z ->
  let c := spec_after fmtv fields in
  (c h1 x y = -1 \/ c h1 x y = 0 \/ c h1 x y = 1) /\
  c h1 x x = 0 /\
  c h1 x y = - c h2 y x /\
  (c h1 x y <= 0 -> c h2 y z <= 0 -> c h3 x z <= 0) /\
  (c h1 x y = 0 -> c h2 x z = c h3 y z).
Proof.
  intros fmtv ft fields h1 h2 h3 x y z Hh Hx Hy Hz c. subst c. unfold spec_after.
  assert (H1 : forall p, In p h1 -> typed ft (fst p)) by (intros; apply Hh; apply in_or_app; auto).
  assert (H2 : forall p, In p h2 -> typed ft (fst p)) by (intros; apply Hh; apply in_or_app; right; apply in_or_app; auto).
  assert (H3 : forall p, In p h3 -> typed ft (fst p)) by (intros; apply Hh; apply in_or_app; right; apply in_or_app; auto).
  rewrite !(spec_typed fmtv ft fields h1) by assumption.
  rewrite !(spec_typed fmtv ft fields h2) by assumption.
  rewrite !(spec_typed fmtv ft fields h3) by assumption.
  pose proof (lex_ref_laws fmtv ft fields) as L. repeat split.
  - apply (cl_range _ _ L); assumption.
  - apply (cl_refl _ _ L); assumption.
  - apply (cl_antisym _ _ L); assumption.
  - apply (cl_trans _ _ L); assumption.
  - apply (cl_eq_l _ _ L); assumption.
Qed.
Print Assumptions C30_spec_preorder_partial.

(* default comparer: same, for keys that all carry the field set F *)
Definition keyF ft F (m : jmap) : Prop := typed ft m /\ sorted_fields m = F.

Theorem C30_default_history_free_partial : forall fmtv ft F h x y,
  (forall p, In p h -> keyF ft F (fst p)) -> keyF ft F x ->
  def_after fmtv h x y = def_after fmtv [] x y.
Proof.
  intros fmtv ft F h x y Hh [Hx HF]. unfold def_after.
  rewrite (def_typed fmtv ft F h x y Hh Hx HF).
  rewrite (def_typed fmtv ft F [] x y (fun p H => match H with end) Hx HF). reflexivity.
Qed.
Print Assumptions C30_default_history_free_partial.

Theorem C30_default_preorder_partial : forall fmtv ft F h1 h2 h3 x y z,
  (forall p, In p (h1 ++ h2 ++ h3) -> keyF ft F (fst p)) -> keyF ft F x -> keyF ft F y -> keyF ft F z ->
  let c := def_after fmtv in
  (c h1 x y = -1 \/ c h1 x y = 0 \/ c h1 x y = 1) /\
  c h1 x x = 0 /\
  c h1 x y = - c h2 y x /\
  (c h1 x y <= 0 -> c h2 y z <= 0 -> c h3 x z <= 0) /\
  (c h1 x y = 0 -> c h2 x z = c h3 y z).
Proof.
  intros fmtv ft F h1 h2 h3 x y z Hh [Hx Fx] [Hy Fy] [Hz Fz] c. subst c. unfold def_after.
  assert (H1 : forall p, In p h1 -> keyF ft F (fst p)) by (intros; apply Hh; apply in_or_app; auto).
  assert (H2 : forall p, In p h2 -> keyF ft F (fst p)) by (intros; apply Hh; apply in_or_app; right; apply in_or_app; auto).
  assert (H3 : forall p, In p h3 -> keyF ft F (fst p)) by (intros; apply Hh; apply in_or_app; right; apply in_or_app; auto).
  rewrite !(def_typed fmtv ft F h1) by assumption.
  rewrite !(def_typed fmtv ft F h2) by assumption.
  rewrite !(def_typed fmtv ft F h3) by assumption.
  pose proof (lex_ref_laws fmtv ft (map (fun f => (f, true)) F)) as L. repeat split.
  - apply (cl_range _ _ L); assumption.
  - apply (cl_refl _ _ L); assumption.
  - apply (cl_antisym _ _ L); assumption.
  - apply (cl_trans _ _ L); assumption.
  - apply (cl_eq_l _ _ L); assumption.
Qed.
Print Assumptions C30_default_preorder_partial.

(* the order both comparers implement on typed keys: field by field (spec order / sorted names),
   btree.Compare on the field values (C29), reversed for descending fields *)
Theorem C30_typed_order_is_fieldwise : forall fmtv ft fields F h x y,
  (forall p, In p h -> typed ft (fst p) /\ sorted_fields (fst p) = F) -> typed ft x -> sorted_fields x = F ->
  spec_after fmtv fields h x y = lex_ref fmtv fields x y /\
  def_after fmtv h x y = lex_ref fmtv (map (fun f => (f, true)) F) x y.
Proof.
  intros fmtv ft fields F h x y Hh Hx HF. split.
  - apply (spec_typed fmtv ft); [intros p Hp; apply (Hh p Hp)|exact Hx].
  - apply (def_typed fmtv ft F); assumption.
Qed.
Print Assumptions C30_typed_order_is_fieldwise.

(* ---- non-vacuity: JSON keys {a: number, b: string} with a typed history; descending a *)
Example C30_nonvacuous :
  let ft := fun f : list N => match f with [97%N] => TyF64 | [98%N] => TyStr | _ => TyNil end in
  let k := fun (a : N) (b : list N) => [([97%N], KF64 a); ([98%N], KStr b)] : jmap in
  let x := k 4621819117588971520%N [120%N] in      (* {a:10, b:"x"} *)
  let y := k 4621256167635550208%N [] in           (* {a:9,  b:""}  *)
  let h := [(y, x); (x, x)] in
  (forall f, has_ty (lookup f x) (ft f) = true) /\ sorted_fields x = [[97%N]; [98%N]] /\ sorted_fields y = sorted_fields x /\
  spec_after (fun _ => []) [([97%N], false); ([98%N], true)] h x y = -1 /\
  def_after (fun _ => []) h x y = 1.
Proof.
  cbv zeta. split; [|vm_compute; repeat split; reflexivity].
  intros f. destruct f as [|a [|b r]]; try reflexivity.
  - destruct a as [|p]; try reflexivity.
    repeat (destruct p as [p|p|]; try reflexivity).
  - destruct a as [|p]; try reflexivity.
    repeat (destruct p as [p|p|]; try reflexivity).
Qed.

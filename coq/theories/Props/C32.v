(* C32 — text search returns exactly the matching documents, ranked by BM25.
   What is proved here (unbounded) and what is only validated is listed in design/C32.md. *)
From Coq Require Import List ZArith NArith Bool Sorted Permutation.
From SopVerif Require Import Search SearchProofs Corr.C32. (* Corr.C32: keeps the correspondence checker in the build cone *)
Import ListNotations.

(* The prefix scan of Index.Search — position the cursor with Find(term|, first), handle the miss
   (the cursor may sit on the predecessor OR the successor, whatever the shape of the tree), walk
   while the prefix matches — returns exactly the postings whose key starts with "term|", for
   every key-sorted postings map, every term and both cursor positions. *)
Theorem C32_prefix_scan_exact : forall o t m, sorted m ->
  scan_term o t m = map (strip (t ++ [bar])) (filter (fun e => is_prefix (t ++ [bar]) (fst e)) m).
Proof. exact scan_term_exact. Qed.
Print Assumptions C32_prefix_scan_exact.

(* "term|docID" keys are unambiguous although document ids may contain '|' (terms never do): the
   prefix "t|" selects exactly the keys of term t, and what follows the prefix is the document id. *)
Theorem C32_posting_key_unambiguous : forall t t' d, ~ In bar t -> ~ In bar t' ->
  (is_prefix (t ++ [bar]) (pkey t' d) = true <-> t = t') /\
  skipn (length (t ++ [bar])) (pkey t d) = d.
Proof. intros t t' d Ht Ht'. split; [apply prefix_pkey; assumption|apply strip_pkey]. Qed.
Print Assumptions C32_posting_key_unambiguous.

(* Membership, per query term: the documents (with their frequency) a term contributes are exactly
   those that have a posting for that term.  PARTIAL with respect to the property: that Index.Add
   keeps the postings sorted, well formed and equal to the corpus' term occurrences, and that the
   statistics maps hold the true corpus statistics, is not proved here; it is compared with an
   independent reference on every correspondence case. *)
Theorem C32_membership_partial : forall o t m d f,
  sorted m -> ~ In bar t -> Forall (fun e => wf_key (fst e)) m ->
  (In (d, f) (scan_term o t m) <-> In (pkey t d, f) m).
Proof. exact term_hits_exact. Qed.
Print Assumptions C32_membership_partial.

(* ... and over a whole query: a document is in the result iff one of the query terms that has a
   term-statistics entry contributes it; *)
Theorem C32_result_ids : forall o ix h t x,
  In x (map fst (search_term o ix h t)) <->
  In x (map fst h) \/ (om_find t (term_stats ix) <> None /\ In x (map fst (scan_term o t (postings ix)))).
Proof. exact search_term_ids. Qed.
Print Assumptions C32_result_ids.

(* each document is returned once, for every index state, query and cursor behaviour. *)
Theorem C32_each_once : forall os ix q, NoDup (map fst (idx_search os ix q)).
Proof. exact search_each_once. Qed.
Print Assumptions C32_each_once.

(* The final sort returns the same hits in non-increasing score order, for any total comparison of
   scores (float64 >= without NaN is one). *)
Theorem C32_sorted : forall (A : Type) (geb : A -> A -> bool),
  (forall a b, geb a b = true \/ geb b a = true) ->
  forall l, Sorted (fun a b => geb a b = true) (sort_desc geb l) /\ Permutation (sort_desc geb l) l.
Proof. intros A geb Ht l. split; [apply sort_sorted; exact Ht|apply sort_perm]. Qed.
Print Assumptions C32_sorted.

(* non-vacuity: a corpus with ids containing '|' and a term that is a prefix of another one *)
Local Open Scope N_scope.
Example C32_nonvacuous :
  let s := fun (l : list N) => l in
  let ix := idx_add_all empty_index
              [ (s [98;124;120], [s [97;49]; s [97;98]]);          (* "b|x": a1 ab *)
                (s [120],        [s [97;49]; s [98]; s [99]]);     (* "x":   a1 b c *)
                (s [],           [s [97;98]; s [97;98;99]]) ] in   (* "":    ab abc *)
  sorted (postings ix) /\
  map fst (idx_search [true] ix [s [97;49]]) = [s [98;124;120]; s [120]] /\
  map fst (idx_search [false] ix [s [97;98]]) = [s []; s [98;124;120]].
Proof.
  cbv zeta. split; [|split; vm_compute; reflexivity].
  vm_compute. repeat (constructor; try reflexivity).
Qed.

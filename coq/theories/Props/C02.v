(* C02 -- successfully committed transactions are serializable. *)
From Coq Require Import List NArith Bool Permutation.
From SopVerif Require Import History HistoryProofs Conc ConcProofs ConcBounded ConcBounded2.
Import ListNotations.
Local Open Scope N_scope.

(* ---- the oracle: the serializability checker run on every recorded history is exact ---- *)

(* some order of the committed transactions (readers included) reproduces every recorded answer
   and the final content  <->  the checker says true; for every history, no side condition *)
Theorem C02_checker_exact : forall h, ser_check h = true <-> serializable h.
Proof. exact ser_check_correct. Qed.
Print Assumptions C02_checker_exact.

(* the half the oracle relies on: a reported violation is a real one *)
Theorem C02_checker_false_is_violation : forall h, ser_check h = false -> ~ serializable h.
Proof. exact ser_check_false. Qed.
Print Assumptions C02_checker_false_is_violation.

(* ---- the protocol model (Conc.v) ---- *)

(* the full statement: every terminated run of every well-formed system, whatever the schedule of
   micro-steps, leaves a serializable history *)
Definition C02_full (atomic_lock : bool) : Prop :=
  forall span sto txs sched,
    let s := init_sys span atomic_lock sto txs in
    wf_sys s = true -> all_done (run s sched) = true -> serializable (hist (run s sched)).

(* (i) refuted even with atomic item-lock acquisition: a ForReading transaction (validates node/item
   versions only, takes no lock records) runs between two handle flips of one committing writer and
   commits having read one new and one old value.  Reproduced on the real code (findings/C02.json,
   signature nonserializable:readonly-txn-inconsistent-snapshot:mode-reading). *)
Theorem C02_reader_between_flips_refuted : ~ C02_full true.
Proof.
  intros F. destruct w1_refutes as [Hw [Hd [_ Hs]]].
  assert (E : init_sys 10 true sto3 (s_txs w1_sys) = w1_sys) by reflexivity.
  pose proof (F 10 sto3 (s_txs w1_sys) w1_sched) as F'. cbv zeta in F'. rewrite E in F'.
  specialize (F' Hw Hd). apply ser_check_complete in F'. rewrite Hs in F'. discriminate.
Qed.
Print Assumptions C02_reader_between_flips_refuted.

(* (iii) refuted with writers only, atomic lock acquisition and commits that do not even overlap:
   a Find that does not find its key registers nothing, so two writers that each looked up the key
   the other one adds both commit.  Reproduced (signature nonserializable:untracked-negative-lookup). *)
Theorem C02_untracked_negative_lookup_refuted :
  exists s sched, wf_sys s = true /\ s_atomic s = true /\
    (forall t, In t (s_txs s) -> x_mode t = MW) /\
    all_done (run s sched) = true /\ ~ serializable (hist (run s sched)).
Proof.
  exists w3_sys, w3_sched. destruct w3_refutes as [Hw [Hd [_ Hs]]].
  split; [exact Hw|]. split; [reflexivity|]. split.
  - intros t [H|[H|[]]]; subst; reflexivity.
  - split; [exact Hd|]. apply ser_check_false. exact Hs.
Qed.
Print Assumptions C02_untracked_negative_lookup_refuted.

(* (ii) without the hypothesis "atomic item-lock acquisition": write skew.  The second writer's lock
   records land after the first writer's checkTrackedItems and before its flip.  Reproduced
   (signature nonserializable:write-skew-stale-read). *)
Theorem C02_write_skew_refuted :
  exists s sched, wf_sys s = true /\ s_atomic s = false /\
    (forall t, In t (s_txs s) -> x_mode t = MW) /\
    all_done (run s sched) = true /\ ~ serializable (hist (run s sched)).
Proof.
  exists w2_sys, w2_sched. destruct w2_refutes as [Hw [Hd [_ Hs]]].
  split; [exact Hw|]. split; [reflexivity|]. split.
  - intros t [H|[H|[]]]; subst; reflexivity.
  - split; [exact Hd|]. apply ser_check_false. exact Hs.
Qed.
Print Assumptions C02_write_skew_refuted.

(* ---- what holds: writers, atomic item-lock acquisition, no lock expiry (the model has none),
        programs without negative lookups ---- *)

(* Exhaustive over ALL schedules (any length, any interleaving of micro-steps) for every system of
   the family: first writer = any 2-operation program over {read 0, read 10, write 0, write 10}
   (keys 0 and 10 live in different nodes), second writer = one of the five [partners] (write-skew
   partner, read-modify-write, blind two-node writer, read-only program in a ForWriting transaction,
   a writer of another key of the same node).  Bounded in the PROGRAMS, not in the schedules. *)
Theorem C02_writers_partial_bounded : forall p q sched,
  In p (progs2 alpha1) -> In q partners ->
  Forall (fun i => In i [1; 2]) sched ->
  all_done (run (pair_sys p q) sched) = true ->
  serializable (hist (run (pair_sys p q) sched)).
Proof. exact pairs_all_schedules. Qed.
Print Assumptions C02_writers_partial_bounded.

(* Unbounded facts about every system and every schedule used above and by C03: exploring the
   step relation to a fixed point decides a property of all schedules ... *)
Theorem C02_exploration_sound : forall P ts fuel s0,
  explore P ts fuel s0 = true ->
  forall sched, Forall (fun i => In i ts) sched ->
    all_done (run s0 sched) = true -> P (run s0 sched) = true.
Proof. exact explore_sound. Qed.
Print Assumptions C02_exploration_sound.

(* ... committed content and item versions change ONLY in a phase-2 flip micro-step ... *)
Theorem C02_only_flips_change_the_store : forall s sched, flippers s sched = [] ->
  s_sto (run s sched) = s_sto s /\ s_ver (run s sched) = s_ver s.
Proof. intros s sched H. destruct (run_no_flip_sto sched s H) as [A [B _]]. now split. Qed.
Print Assumptions C02_only_flips_change_the_store.

(* ... and read-only (ForReading) transactions never flip anything. *)
Theorem C02_readers_never_flip : forall s sched,
  (forall j u, find_tx s j = Some u -> reader_pc u = true) ->
  forall j, In j (flippers s sched) -> exists u, find_tx s j = Some u /\ x_mode u = MW.
Proof. intros s sched H. exact (flippers_writers sched s H). Qed.
Print Assumptions C02_readers_never_flip.

(* non-vacuity: in the explored family both transactions of the write-skew pair really commit under
   some schedule (one after the other), and the history is the expected one *)
Example C02_nonvacuous :
  let s := run (pair_sys [PRd 0; PWr 10 6] [PRd 10; PWr 10 8])
               [1;1;1;1;1;1;1;1;1;1;1; 2;2;2;2;2;2;2;2;2;2;2] in
  all_done s = true /\ forallb is_committed (s_txs s) = true /\ ser_check (hist s) = true /\
  In [PRd 0; PWr 10 6] (progs2 alpha1) /\ In [PRd 10; PWr 10 8] partners.
Proof.
  cbv zeta. split; [vm_compute; reflexivity|]. split; [vm_compute; reflexivity|].
  split; [vm_compute; reflexivity|]. split; [vm_compute; tauto|vm_compute; tauto].
Qed.

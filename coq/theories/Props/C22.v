(* C22 — registry block writes survive a crash as either the old or the new block.

   Model: BlockIO.v (state = block bytes + optional .cow backup bytes).  All theorems hold for
   both readers (fx = false: readAndRestoreBlock as in /repo; fx = true: with
   fixes/C23-report-unverifiable-block.patch) unless fx is fixed in the statement.
   [crc] is universally quantified; [detects crc a b] is the per-pair checksum assumption
   "a byte-wise mixture of a and b that passes the checksum rule is a or b". *)
From Coq Require Import List ZArith NArith Bool.
From SopVerif Require Import Lib.Bytes Gen.Consts BlockIO BlockIOProofs BlockIOWitness.
Import ListNotations.

(* An update (backup -> write -> remove backup, under the block lock) of an intact block dies at
   ANY point: inside the backup write after k bytes, inside the block write after k bytes (every
   torn prefix length), before the backup removal, or not at all.  The next reader returns the
   block entirely as before or entirely as written, that block is valid and is what the reader
   leaves on disk. *)
Theorem C22_crash : forall crc fx old d off data p,
  length old = BSZ -> valid crc old = true -> blk d = old -> slot_ok off data ->
  detects crc old (new_block crc old off data) ->
  exists v d', read_restore crc fx (crash_state crc fx d off data p) = (d', ROk v) /\
               (v = old \/ v = new_block crc old off data) /\ blk d' = v /\ valid crc v = true /\
               (p = WP_done -> v = new_block crc old off data).
Proof. exact crash_then_read_stable. Qed.
Print Assumptions C22_crash.

(* The same from any state an earlier crash may have left (block = a, or b, or any byte-wise
   mixture of the two with the backup holding a), including a process dying k bytes into the
   restore write of its own read (WP_restore k): recovery can itself be interrupted any number
   of times. *)
Theorem C22_crash_from_recoverable : forall crc fx a b d off data p,
  Rec crc a b d -> detects crc a b -> slot_ok off data ->
  (forall v, v = a \/ v = b -> detects crc v (new_block crc v off data)) ->
  exists old, (old = a \/ old = b) /\
  exists v d', read_restore crc fx (crash_state crc fx d off data p) = (d', ROk v) /\
               (v = old \/ v = new_block crc old off data) /\ blk d' = v /\ valid crc v = true /\
               (p = WP_done -> v = new_block crc old off data).
Proof. exact crash_then_read. Qed.
Print Assumptions C22_crash_from_recoverable.

(* the invariant behind both: every crash point keeps the state recoverable *)
Theorem C22_recoverable_invariant : forall crc fx a b d off data,
  Rec crc a b d -> detects crc a b -> slot_ok off data ->
  (forall k, Rec crc a b (restore_crash crc d k)) /\
  (forall p, (forall k, p <> WP_restore k) ->
     exists v, (v = a \/ v = b) /\ Rec crc v (new_block crc v off data) (crash_state crc fx d off data p)).
Proof.
  intros crc fx a b d off data HR Hd Hs. split.
  - intros k. now apply restore_crash_rec.
  - intros p Hp. destruct (crash_rec crc fx a b d off data p HR Hd Hs Hp) as (v & Hv & HR' & _). eauto.
Qed.
Print Assumptions C22_recoverable_invariant.

(* and a reader of a recoverable state returns a or b and repairs the file to that block *)
Theorem C22_reader_repairs : forall crc fx a b d, Rec crc a b d -> detects crc a b ->
  exists v d', read_restore crc fx d = (d', ROk v) /\ (v = a \/ v = b) /\ blk d' = v /\ valid crc v = true.
Proof.
  intros crc fx a b d HR Hd. destruct (read_rec crc fx a b d HR Hd) as (v & d' & H1 & H2 & H3 & H4 & _). eauto 10.
Qed.
Print Assumptions C22_reader_repairs.

(* READ-ONLY readers (registry opened with readWrite=false, as every non-writing transaction does):
   restoreFromCow copies the backup into the buffer, the write-back fails on the O_RDONLY handle
   and is ignored.  Such a reader of any recoverable state still returns a or b (the restored
   image, never the torn bytes); it does NOT repair the file (a torn block stays torn, with its
   backup) and leaves the state recoverable, so a later read-write reader repairs it
   (C22_reader_repairs). *)
Theorem C22_readonly_reader : forall crc fx a b d, Rec crc a b d -> detects crc a b ->
  exists v d', read_restore_ro crc fx d = (d', ROk v) /\ (v = a \/ v = b) /\ valid crc v = true /\
               Rec crc a b d' /\ (valid crc (blk d) = false -> d' = d /\ cow d = Some v).
Proof. exact read_rec_ro. Qed.
Print Assumptions C22_readonly_reader.

(* in particular after an update of an intact block died at ANY point: the read-only reader
   returns the block entirely as before or entirely as written *)
Theorem C22_crash_readonly_reader : forall crc fx old d off data p,
  length old = BSZ -> valid crc old = true -> blk d = old -> slot_ok off data ->
  detects crc old (new_block crc old off data) ->
  exists v d', read_restore_ro crc fx (crash_state crc fx d off data p) = (d', ROk v) /\
               (v = old \/ v = new_block crc old off data) /\ valid crc v = true /\
               Rec crc old (new_block crc old off data) d'.
Proof.
  intros crc fx old d off data p Hl Hv Hb Hs Hd.
  pose proof (crash_state_rec_stable crc fx old d off data p Hl Hv Hb Hs) as HR.
  destruct (read_rec_ro crc fx _ _ _ HR Hd) as (v & d' & H1 & H2 & H3 & H4 & _). eauto 10.
Qed.
Print Assumptions C22_crash_readonly_reader.

(* A reader WITHOUT the block lock (findOneFileRegion) next to a writer that does not crash: it
   reads the block while the writer is at p1 and, if the checksum failed, looks for the backup at
   p2 >= p1.  It returns old or new — except in one window: it saw the torn block and the writer
   removed the backup before the reader looked for it.  There the patched reader reports an
   error; the reader in /repo returns the torn block.  [conc_read] is the value returned; it is
   the same for read-only and read-write readers (they differ only in writing the restored image
   back). *)
Theorem C22_concurrent : forall crc fx old c0 new p1 p2,
  length old = BSZ -> length new = BSZ -> valid crc old = true -> valid crc new = true ->
  detects crc old new -> phase_le p1 p2 = true ->
  (exists v, conc_read crc fx old c0 new p1 p2 = ROk v /\ (v = old \/ v = new)) \/
  (exists k, p1 = Ph_blk k /\ p2 = Ph_done /\ valid crc (mix k new old) = false /\
             conc_read crc fx old c0 new p1 p2 = if fx then RErr ECorrupt else ROk (mix k new old)).
Proof. exact conc_read_cases. Qed.
Print Assumptions C22_concurrent.

(* patched reader: a concurrent reader never returns a mixture *)
Theorem C22_concurrent_no_mixture_patched : forall crc old c0 new p1 p2 v,
  length old = BSZ -> length new = BSZ -> valid crc old = true -> valid crc new = true ->
  detects crc old new -> phase_le p1 p2 = true ->
  conc_read crc true old c0 new p1 p2 = ROk v -> v = old \/ v = new.
Proof.
  intros crc old c0 new p1 p2 v Hlo Hln Hvo Hvn Hd Hle H.
  destruct (conc_read_cases crc true old c0 new p1 p2 Hlo Hln Hvo Hvn Hd Hle) as [(w & E & Hw)|(k & _ & _ & _ & E)];
    rewrite E in H; [now inversion H; subst|discriminate].
Qed.
Print Assumptions C22_concurrent_no_mixture_patched.

(* reader in /repo: the full statement is false — a concurrent reader is handed a torn block *)
Theorem C22_concurrent_refuted : exists old new p1 p2,
  length old = BSZ /\ length new = BSZ /\ valid crc32 old = true /\ valid crc32 new = true /\
  phase_le p1 p2 = true /\
  exists m, conc_read crc32 reader_in_repo old None new p1 p2 = ROk m /\ m <> old /\ m <> new /\
            slot_at m w_off = w_handle 17 7 /\ valid crc32 m = false.
Proof.
  exists w_old, w_new, (Ph_blk 200), Ph_done.
  destruct w_old_facts as (H1 & H2 & _). destruct w_new_facts as (H3 & H4 & _).
  destruct w_corrupt_facts as (_ & H5 & H6 & H7 & H8).
  repeat (split; [assumption || reflexivity|]).
  exists w_corrupt. split.
  - unfold conc_read, reader_in_repo. cbn [disk_at blk cow check_cow]. now rewrite H8, H5.
  - split; [now apply list_eqb_neq|]. split; [now apply list_eqb_neq|]. split; [vm_compute; reflexivity|exact H5].
Qed.
Print Assumptions C22_concurrent_refuted.

(* ... and it holds for the reader in /repo whenever the reader looks for the backup before the
   writer has removed it (exactly the complement of the refuting window) *)
Theorem C22_concurrent_partial : forall crc old c0 new p1 p2,
  length old = BSZ -> length new = BSZ -> valid crc old = true -> valid crc new = true ->
  detects crc old new -> phase_le p1 p2 = true -> p2 <> Ph_done ->
  exists v, conc_read crc reader_in_repo old c0 new p1 p2 = ROk v /\ (v = old \/ v = new).
Proof.
  intros crc old c0 new p1 p2 Hlo Hln Hvo Hvn Hd Hle Hne.
  destruct (conc_read_cases crc reader_in_repo old c0 new p1 p2 Hlo Hln Hvo Hvn Hd Hle) as [H|(k & _ & E & _)];
    [exact H|contradiction].
Qed.
Print Assumptions C22_concurrent_partial.

(* Crash AND a reader without the lock.  A reader that read the (still intact) block before the
   writer started removes the writer's live backup as "stale"; the writer dies k bytes into the
   block write: a torn block without backup.  No later reader returns old or new: the patched
   reader reports an error for ever, the reader in /repo serves the mixture. *)
Theorem C22_crash_with_reader_refuted : exists old new k,
  length old = BSZ /\ valid crc32 old = true /\ new = new_block crc32 old w_off (w_handle 17 7) /\
  let d := crash_with_reader crc32 old None new Ph_start (Ph_blk k) in
  d = mkDisk (mix k new old) None /\ valid crc32 (mix k new old) = false /\
  mix k new old <> old /\ mix k new old <> new /\
  forall fx, read_restore crc32 fx d = (d, if fx then RErr ECorrupt else ROk (mix k new old)).
Proof.
  exists w_old, w_new, 200%nat.
  destruct w_old_facts as (H1 & H2 & _). destruct w_corrupt_facts as (Hl & H5 & H6 & H7 & H8).
  split; [exact H1|]. split; [exact H2|]. split; [reflexivity|]. cbv zeta.
  rewrite (crash_with_early_reader crc32 w_old None w_new 200 H2). rewrite H8.
  split; [reflexivity|]. split; [exact H5|]. split; [now apply list_eqb_neq|]. split; [now apply list_eqb_neq|].
  intros fx. now apply unrecoverable_read.
Qed.
Print Assumptions C22_crash_with_reader_refuted.

(* it holds when the reader's two steps are not separated by writer steps (what holding the
   block lock during readAndRestoreBlock would give): wherever the writer dies, the state stays
   recoverable between old and new *)
Theorem C22_crash_with_reader_partial : forall crc fx old c0 new pc,
  length old = BSZ -> length new = BSZ -> valid crc old = true -> valid crc new = true ->
  detects crc old new ->
  exists v d', read_restore crc fx (crash_with_reader crc old c0 new pc pc) = (d', ROk v) /\
               (v = old \/ v = new) /\ blk d' = v /\ valid crc v = true.
Proof.
  intros crc fx old c0 new pc Hlo Hln Hvo Hvn Hd.
  pose proof (crash_with_atomic_reader_rec crc old c0 new pc Hlo Hln Hvo Hvn Hd) as HR.
  destruct (read_rec crc fx old new _ HR Hd) as (v & d' & H1 & H2 & H3 & H4 & _). eauto 10.
Qed.
Print Assumptions C22_crash_with_reader_partial.

(* Not a mixture, hence not a violation of C22's wording, but recorded: a lock-free reader that
   saw the torn block writes the OLD image back after the writer's block write; the writer
   removes the backup and reports success while the block on disk is entirely the old one. *)
Theorem C22_writer_undone_by_reader : forall crc old new k,
  length old = BSZ -> valid crc old = true -> valid crc (mix k new old) = false ->
  writer_done_after_reader crc old new (Ph_blk k) = mkDisk old None.
Proof. exact writer_undone. Qed.
Print Assumptions C22_writer_undone_by_reader.

(* non-vacuity: a real block, a real update, real CRC-32; rewriting a record with identical
   contents meets [detects] outright, and the hypotheses of C22_concurrent are met by the
   blocks of the refutation *)
Example C22_nonvacuous :
  length w_old = BSZ /\ valid crc32 w_old = true /\ slot_ok w_off (w_handle 17 3) /\
  new_block crc32 w_old w_off (w_handle 17 3) = w_old /\
  detects crc32 w_old (new_block crc32 w_old w_off (w_handle 17 3)) /\
  valid crc32 (mix 200 w_new w_old) = false.
Proof.
  destruct w_old_facts as (H1 & H2 & _). destruct w_corrupt_facts as (_ & H5 & _ & _ & H8).
  assert (E : new_block crc32 w_old w_off (w_handle 17 3) = w_old) by (vm_compute; reflexivity).
  split; [exact H1|]. split; [exact H2|]. split; [vm_compute; split; [Lia.lia|reflexivity]|].
  split; [exact E|]. split; [rewrite E; apply detects_same|now rewrite H8].
Qed.

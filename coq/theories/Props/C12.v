(* C12 — creating and removing stores is transactional and complete.

   A store created inside a transaction that rolls back or fails does not exist afterwards;
   concurrent attempts to create one name yield a single store; removing a store deletes all of
   it, so a new store of that name starts empty with the new options.

   Result: the first and the third part are proved in full (the first since Transaction.rollback
   removes the created stores in its addActivelyPersistedItem branch as well).  The second part is
   REFUTED by the faithful model, the witness reproduces on the implementation
   (findings/C12.json), and it is proved under the hypothesis that excludes exactly the refuting
   pattern. *)
From Coq Require Import List ZArith NArith Bool Lia.
From SopVerif Require Import Gen.MaintConsts StoreCatalog StoreCatalogProofs.
Import ListNotations.
Local Open Scope Z_scope.

(* ------------------------------------------------------------------ abort *)

(* Full: for every catalog, name, options and every logger state a transaction that created a store
   can be in when it is rolled back (from createStore on; this includes the pre-commit state
   addActivelyPersistedItem = 99 of stores with actively persisted values, whose branch of
   Transaction.rollback removes the created stores too), the roll back removes the store — list
   entry, store info and folder — and leaves every other store exactly as it was. *)
Theorem C12_abort_no_store : forall c n o cs,
  sr_get c n = None -> createStore <= cs ->
  let c1 := fst (new_btree c n o) in
  snd (new_btree c n o) = Created /\
  sr_get (txn_rollback cs c1 [n]) n = None /\ count_name (txn_rollback cs c1 [n]) n = 0%nat /\
  (forall m, m <> n -> sr_get (txn_rollback cs c1 [n]) m = sr_get c m).
Proof. exact abort_no_store. Qed.
Print Assumptions C12_abort_no_store.

(* in particular in the pre-commit state of an actively persisted item (the former refuting pattern) *)
Theorem C12_abort_no_store_actively_persisted : forall c n o,
  sr_get c n = None ->
  sr_get (txn_rollback addActivelyPersistedItem (fst (new_btree c n o)) [n]) n = None.
Proof. exact abort_no_store_state99. Qed.
Print Assumptions C12_abort_no_store_actively_persisted.

(* every way such a transaction can end without committing (explicit Rollback, failing NewBtree,
   failing item operation, failing commit; with or without an actively persisted add) *)
Theorem C12_abort_no_store_all_endings : forall actively_persisted_add phase,
  phase <> 4%nat -> exists_after actively_persisted_add phase = false.
Proof. exact exists_after_abort. Qed.
Print Assumptions C12_abort_no_store_all_endings.

(* Commits that fail after any number of conflict retry rounds: for every sequence of rounds of
   phase1Commit's loop (conflict in any logger state from createStore on — 99 included —, with the merge of the
   other stores succeeding or not; an error return from any such state; the loop running out), if
   the commit does not succeed the created store is gone and every other store is as before.
   (The partial rollback between retries runs the createStore clean-up too and rewinds the state to
   `unknown`; the final rollback then runs below createStore — both are in the model.) *)
Theorem C12_abort_no_store_after_retries : forall rs c n,
  Forall round_state_ok rs -> snd (commit_loop rs c [n]) = false ->
  sr_get (fst (commit_loop rs c [n])) n = None /\
  (forall m, m <> n -> sr_get (fst (commit_loop rs c [n])) m = sr_get c m).
Proof. exact commit_loop_failed_no_store. Qed.
Print Assumptions C12_abort_no_store_after_retries.

(* Consequence of the same two facts, observed on the implementation as well: a creator whose
   first round meets a conflict never commits, even when the conflict is mergeable ("store ... not
   found (maybe deleted by rollback?)").  Not a violation of C12 (the store is gone, the commit
   reports failure); recorded in design/C12.md. *)
Theorem C12_creator_conflict_never_commits : forall s ok rest c n,
  createStore <= s ->
  snd (commit_loop (RoundConflict s ok :: rest) c [n]) = false.
Proof. exact creator_conflict_never_commits. Qed.
Print Assumptions C12_creator_conflict_never_commits.

(* NewBtree's own failure path (StoreRepository.Add returned an error after doing part or all of
   its work): Remove is called before the roll back, nothing of the store is left. *)
Theorem C12_newbtree_failure_leaves_nothing : forall c n, sr_get (sr_remove c n) n = None /\ count_name (sr_remove c n) n = 0%nat.
Proof. intros. split; [apply sr_get_remove|apply count_name_remove]. Qed.
Print Assumptions C12_newbtree_failure_leaves_nothing.

(* ------------------------------------------------------------------ concurrent creation *)

(* Refuted: two creators that both ran StoreRepository.Get before either ran Add.  The first Add
   wins and reports Created; the second Add is refused under the store-list lock, and NewBtree's
   error path then calls StoreRepository.Remove(name): the WINNER's store is deleted.  Zero stores. *)
Theorem C12_single_create_refuted :
  exists sched, let '(c, k1, k2) := run_two sched 1 4 ([], idle, idle) in
    cr_out k1 = Some Created /\ cr_out k2 = Some Failed /\ count_name c 1 = 0%nat.
Proof. exists [true; false; false; true]. vm_compute. repeat split. Qed.
Print Assumptions C12_single_create_refuted.

(* Partial: any number k >= 1 of creators of one name whose NewBtree calls do not overlap (Get and
   Add of one creator are not separated by another creator's step): exactly one store-list entry and
   one store info; the first reports Created, all others open the winner's store. *)
Theorem C12_single_create_partial : forall k c n o,
  sr_get c n = None ->
  let '(c', outs) := serial (S k) c n o in
  count_name c' n = 1%nat /\ sr_get c' n = Some (fresh_store n o) /\ outs = Created :: repeat Opened k /\
  (forall m, m <> n -> sr_get c' m = sr_get c m).
Proof.
  intros k c n o H. rewrite (serial_single k c n o H).
  split.
  - rewrite count_name_app. cbn [fresh_store s_name]. rewrite N.eqb_refl.
    apply sr_get_none_count in H. rewrite H. reflexivity.
  - split; [apply (sr_get_app_absent c (fresh_store n o)); exact H|]. split; [reflexivity|].
    intros m Hm. apply sr_get_app_other. cbn [fresh_store s_name]. exact Hm.
Qed.
Print Assumptions C12_single_create_partial.

(* the unique-name check itself: Add never produces a second entry of a name *)
Theorem C12_add_keeps_names_unique : forall c s c', sr_add c s = Some c' -> count_name c (s_name s) = 0%nat /\ count_name c' (s_name s) = 1%nat.
Proof.
  intros c s c' H. unfold sr_add in H. destruct (sr_get c (s_name s)) eqn:E; [discriminate|]. inversion H; subst.
  apply sr_get_none_count in E. split; [exact E|]. rewrite count_name_app, N.eqb_refl, E. reflexivity.
Qed.
Print Assumptions C12_add_keeps_names_unique.

(* ------------------------------------------------------------------ removal *)

(* Full: after RemoveBtree n nothing of n is left, other stores are untouched, and NewBtree n with
   any options creates a store with count 0 and exactly those options. *)
Theorem C12_remove_complete : forall c n o',
  sr_get (sr_remove c n) n = None /\ count_name (sr_remove c n) n = 0%nat /\
  (forall m, m <> n -> sr_get (sr_remove c n) m = sr_get c m) /\
  let '(c2, out) := new_btree (sr_remove c n) n o' in
  out = Created /\ sr_get c2 n = Some (fresh_store n o') /\ s_count (fresh_store n o') = 0 /\ s_opts (fresh_store n o') = o' /\
  count_name c2 n = 1%nat.
Proof.
  intros c n o'. split; [apply sr_get_remove|]. split; [apply count_name_remove|].
  split; [intros m Hm; apply sr_get_remove_other; exact Hm|].
  rewrite (new_btree_creates _ n o' (sr_get_remove c n)).
  split; [reflexivity|]. split; [apply (sr_get_app_absent (sr_remove c n) (fresh_store n o')); apply sr_get_remove|].
  split; [reflexivity|]. split; [reflexivity|].
  rewrite count_name_app, count_name_remove. cbn [fresh_store s_name]. rewrite N.eqb_refl. reflexivity.
Qed.
Print Assumptions C12_remove_complete.

(* non-vacuity: a populated catalog, removal and re-creation with other options *)
Example C12_nonvacuous :
  let c := [mkStore 1 4 12 9; mkStore 2 8 3 1] in
  sr_get c 1 <> None /\ sr_get (sr_remove c 1) 1 = None /\ sr_get (sr_remove c 1) 2 = Some (mkStore 2 8 3 1) /\
  sr_get (fst (new_btree (sr_remove c 1) 1 16)) 1 = Some (mkStore 1 16 0 0) /\
  exists_after true 0 = false /\ exists_after false 0 = false /\ exists_after true 2 = false /\ exists_after true 4 = true /\
  commit_loop [RoundConflict commitUpdatedNodes true; RoundCommitted] (c ++ [fresh_store 7 4]) [7%N] = (c, false) /\
  commit_loop [RoundCommitted] (c ++ [fresh_store 7 4]) [7%N] = (c ++ [fresh_store 7 4], true).
Proof. cbv zeta. repeat split; try reflexivity. discriminate. Qed.

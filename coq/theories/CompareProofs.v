(* Proofs about the comparer model (Compare.v): order laws per key type,
   agreement with the natural orders, Compare vs CoerceComparer. *)
From Coq Require Import List ZArith NArith Bool Lia.
From SopVerif Require Import FloatCmp Compare CompareLib FloatCmpProofs.
Import ListNotations.
Local Open Scope Z_scope.

(* ---------------------------------------------------------------- primitives *)

Lemma zcmp_laws : cmp_laws (fun _ : Z => True) zcmp.
Proof.
  constructor; unfold zcmp, sgn3.
  - intros a b _ _. destruct (Z.compare_spec a b); lia.
  - intros a _. rewrite Z.compare_refl. reflexivity.
  - intros a b _ _. destruct (Z.compare_spec a b); destruct (Z.compare_spec b a); lia.
  - intros a b d _ _ _. destruct (Z.compare_spec a b); destruct (Z.compare_spec b d);
      destruct (Z.compare_spec a d); lia.
Qed.

Lemma zcmp_spec : forall a b,
  (zcmp a b = -1 <-> a < b) /\ (zcmp a b = 0 <-> a = b) /\ (zcmp a b = 1 <-> a > b).
Proof. intros a b. unfold zcmp. destruct (Z.compare_spec a b); repeat split; intros; try lia; discriminate. Qed.

Lemma ncmp_laws : cmp_laws (fun _ : N => True) ncmp.
Proof. apply (laws_via _ (fun _ => True) Z.of_N ncmp zcmp); auto. apply zcmp_laws. Qed.

Lemma ncmp_spec : forall a b,
  (ncmp a b = -1 <-> (a < b)%N) /\ (ncmp a b = 0 <-> a = b) /\ (ncmp a b = 1 <-> (a > b)%N).
Proof. intros a b. unfold ncmp. pose proof (zcmp_spec (Z.of_N a) (Z.of_N b)). lia. Qed.

Lemma time_cmp_laws : cmp_laws (fun _ : Z * Z => True) time_cmp.
Proof.
  constructor; unfold time_cmp, zcmp, sgn3.
  - intros [a1 a2] [b1 b2] _ _; simpl. destruct (Z.eqb_spec a1 b1);
      [destruct (Z.compare_spec a2 b2)|destruct (Z.compare_spec a1 b1)]; lia.
  - intros [a1 a2] _; simpl. rewrite Z.eqb_refl, Z.compare_refl. reflexivity.
  - intros [a1 a2] [b1 b2] _ _; simpl. destruct (Z.eqb_spec a1 b1); destruct (Z.eqb_spec b1 a1); try lia;
      [destruct (Z.compare_spec a2 b2); destruct (Z.compare_spec b2 a2)
      |destruct (Z.compare_spec a1 b1); destruct (Z.compare_spec b1 a1)]; lia.
  - intros [a1 a2] [b1 b2] [d1 d2] _ _ _; simpl.
    destruct (Z.eqb_spec a1 b1); destruct (Z.eqb_spec b1 d1); destruct (Z.eqb_spec a1 d1); try lia;
      repeat match goal with |- context [Z.compare ?x ?y] => destruct (Z.compare_spec x y) end; lia.
Qed.

(* ---------------------------------------------------------------- slices, typed per position *)

Definition PL {A : Type} (Ps : nat -> A -> Prop) (l : list A) : Prop :=
  forall i a, nth_error l i = Some a -> Ps i a.

Lemma PL_cons : forall {A} (Ps : nat -> A -> Prop) a l,
  PL Ps (a :: l) -> Ps O a /\ PL (fun i => Ps (S i)) l.
Proof.
  intros A Ps a l H. split.
  - apply (H O). reflexivity.
  - intros i x Hi. apply (H (S i)). exact Hi.
Qed.

Section SliceLaws.
  Context {A : Type} (c : A -> A -> Z).

  Lemma slice_range : forall l m (Ps : nat -> A -> Prop), (forall i, cmp_laws (Ps i) c) ->
    PL Ps l -> PL Ps m -> sgn3 (slice_cmp c l m).
  Proof.
    induction l as [|a l IH]; intros [|b m] Ps L Hl Hm; simpl; unfold sgn3; try lia.
    apply PL_cons in Hl. apply PL_cons in Hm. destruct Hl as [Ha Hl], Hm as [Hb Hm].
    destruct (Z.eqb_spec (c a b) 0) as [E|E].
    - apply (IH m (fun i => Ps (S i))); auto.
    - apply (cl_range _ _ (L O)); assumption.
  Qed.

  Lemma slice_refl : forall l (Ps : nat -> A -> Prop), (forall i, cmp_laws (Ps i) c) ->
    PL Ps l -> slice_cmp c l l = 0.
  Proof.
    induction l as [|a l IH]; intros Ps L Hl; simpl; [reflexivity|].
    apply PL_cons in Hl. destruct Hl as [Ha Hl].
    rewrite (cl_refl _ _ (L O) a Ha). simpl. apply (IH (fun i => Ps (S i))); auto.
  Qed.

  Lemma slice_antisym : forall l m (Ps : nat -> A -> Prop), (forall i, cmp_laws (Ps i) c) ->
    PL Ps l -> PL Ps m -> slice_cmp c l m = - slice_cmp c m l.
  Proof.
    induction l as [|a l IH]; intros [|b m] Ps L Hl Hm; simpl; try reflexivity.
    apply PL_cons in Hl. apply PL_cons in Hm. destruct Hl as [Ha Hl], Hm as [Hb Hm].
    pose proof (cl_antisym _ _ (L O) a b Ha Hb) as Hab.
    destruct (Z.eqb_spec (c a b) 0) as [E|E]; destruct (Z.eqb_spec (c b a) 0) as [E'|E']; try lia.
    apply (IH m (fun i => Ps (S i))); auto.
  Qed.

  Lemma slice_trans : forall l m n (Ps : nat -> A -> Prop), (forall i, cmp_laws (Ps i) c) ->
    PL Ps l -> PL Ps m -> PL Ps n ->
    slice_cmp c l m <= 0 -> slice_cmp c m n <= 0 -> slice_cmp c l n <= 0.
  Proof.
    induction l as [|a l IH]; intros [|b m] [|d n] Ps L Hl Hm Hn; simpl; try lia.
    apply PL_cons in Hl. apply PL_cons in Hm. apply PL_cons in Hn.
    destruct Hl as [Ha Hl], Hm as [Hb Hm], Hn as [Hd Hn].
    destruct (Z.eqb_spec (c a b) 0) as [E1|E1].
    - rewrite (cl_eq_l _ _ (L O) a b d Ha Hb Hd E1).
      destruct (Z.eqb_spec (c b d) 0) as [E2|E2]; [|lia].
      apply (IH m n (fun i => Ps (S i))); auto.
    - destruct (Z.eqb_spec (c b d) 0) as [E2|E2].
      + intros H1 _. rewrite <- (cl_eq_r _ _ (L O) a b d Ha Hb Hd E2).
        destruct (Z.eqb_spec (c a b) 0); lia.
      + intros H1 H2. pose proof (cl_lt_trans _ _ (L O) a b d Ha Hb Hd ltac:(lia) H2) as H3.
        destruct (Z.eqb_spec (c a d) 0); lia.
  Qed.

  Theorem slice_laws : forall (Ps : nat -> A -> Prop), (forall i, cmp_laws (Ps i) c) ->
    cmp_laws (PL Ps) (slice_cmp c).
  Proof.
    intros Ps L. constructor.
    - intros; apply (slice_range _ _ Ps); assumption.
    - intros; apply (slice_refl _ Ps); assumption.
    - intros; apply (slice_antisym _ _ Ps); assumption.
    - intros a b d; intros; apply (slice_trans a b d Ps); assumption.
  Qed.

  Corollary slice_laws_uniform : forall (P : A -> Prop), cmp_laws P c ->
    cmp_laws (fun l => forall a, In a l -> P a) (slice_cmp c).
  Proof.
    intros P L. apply (laws_weaken _ (PL (fun _ => P))); [|apply slice_laws; auto].
    intros l H i a Hi. apply H. eapply nth_error_In; eauto.
  Qed.

  Corollary slice_laws_all : cmp_laws (fun _ => True) c -> cmp_laws (fun _ : list A => True) (slice_cmp c).
  Proof.
    intros L. apply (laws_weaken _ (PL (fun _ _ => True))); [|apply slice_laws; auto].
    intros l _ i a _. exact I.
  Qed.

  (* the order slice_cmp computes: lexicographic by element, a proper prefix sorts first *)
  Inductive slex : list A -> list A -> Prop :=
  | slex_nil : forall y m, slex [] (y :: m)
  | slex_lt : forall x y l m, c x y = -1 -> slex (x :: l) (y :: m)
  | slex_eq : forall x y l m, c x y = 0 -> slex l m -> slex (x :: l) (y :: m).

  Inductive sleq : list A -> list A -> Prop :=
  | sleq_nil : sleq [] []
  | sleq_cons : forall x y l m, c x y = 0 -> sleq l m -> sleq (x :: l) (y :: m).

  Lemma slice_cmp_lex : (forall a b, sgn3 (c a b)) -> forall l m,
    (slice_cmp c l m = -1 <-> slex l m) /\ (slice_cmp c l m = 0 <-> sleq l m).
  Proof.
    intros R. induction l as [|a l IH]; intros [|b m]; simpl.
    - split; split; intros H; try discriminate; try constructor. inversion H.
    - split; split; intros H; try discriminate; try constructor. inversion H.
    - split; split; intros H; try discriminate; inversion H.
    - destruct (IH m) as [IH1 IH2]. destruct (Z.eqb_spec (c a b) 0) as [E|E].
      + split; split; intros H.
        * apply slex_eq; [exact E|apply IH1; exact H].
        * inversion H; subst; [lia|apply IH1; assumption].
        * apply sleq_cons; [exact E|apply IH2; exact H].
        * inversion H; subst. apply IH2; assumption.
      + split; split; intros H.
        * apply slex_lt; exact H.
        * inversion H; subst; [assumption|contradiction].
        * contradiction.
        * inversion H; subst. contradiction.
  Qed.
End SliceLaws.

Lemma bytes_cmp_laws : cmp_laws (fun _ : list N => True) bytes_cmp.
Proof. apply slice_laws_all. apply ncmp_laws. Qed.

Lemma sleq_ncmp_eq : forall l m, sleq ncmp l m -> l = m.
Proof. induction 1 as [|x y l m E _ IH]; [reflexivity|]. apply ncmp_spec in E. subst. reflexivity. Qed.

Lemma bytes_cmp_eq : forall a b, bytes_cmp a b = 0 <-> a = b.
Proof.
  intros a b. split.
  - intros H. apply sleq_ncmp_eq. apply (slice_cmp_lex ncmp); [|exact H].
    intros x y. apply (cl_range _ _ ncmp_laws); exact I.
  - intros ->. apply (cl_refl _ _ bytes_cmp_laws). exact I.
Qed.

(* ---------------------------------------------------------------- typed keys *)

Lemma ity_eqb_eq : forall a b, ity_eqb a b = true -> a = b.
Proof. intros [] []; simpl; intros H; try discriminate; reflexivity. Qed.
Lemma ity_eqb_refl : forall a, ity_eqb a a = true.
Proof. intros []; reflexivity. Qed.

Lemma has_ty_any : forall l ts rest, has_ty (KAny l) (TyAny ts rest) = true ->
  PL (fun i a => has_ty a (nth i ts rest) = true) l.
Proof.
  induction l as [|a l IH]; intros ts rest H i x Hi.
  - destruct i; discriminate.
  - simpl in H. destruct ts as [|t ts]; apply andb_true_iff in H; destruct H as [H1 H2].
    + change (has_ty (KAny l) (TyAny [] rest) = true) in H2.
      destruct i; simpl in Hi.
      * inversion Hi; subst. exact H1.
      * specialize (IH [] rest H2 i x Hi). simpl. destruct i; exact IH.
    + change (has_ty (KAny l) (TyAny ts rest) = true) in H2.
      destruct i; simpl in Hi.
      * inversion Hi; subst. exact H1.
      * exact (IH ts rest H2 i x Hi).
Qed.

Section KtyInd.
  Variable P : kty -> Prop.
  Hypothesis Hbase : forall ty, match ty with TyAny _ _ => False | _ => True end -> P ty.
  Hypothesis Hany : forall ts rest, Forall P ts -> P rest -> P (TyAny ts rest).
  Fixpoint kty_ind' (ty : kty) : P ty :=
    match ty with
    | TyAny ts rest =>
        Hany ts rest ((fix go (ts : list kty) : Forall P ts :=
                         match ts with
                         | [] => Forall_nil P
                         | t :: r => Forall_cons t (kty_ind' t) (go r)
                         end) ts) (kty_ind' rest)
    | TyNil => Hbase TyNil I | TyBool => Hbase TyBool I | TyOther => Hbase TyOther I
    | TyInt t => Hbase (TyInt t) I | TyF32 => Hbase TyF32 I | TyF64 => Hbase TyF64 I
    | TyStr => Hbase TyStr I | TyGUuid => Hbase TyGUuid I | TySUuid => Hbase TySUuid I
    | TyTime => Hbase TyTime I | TyBytes => Hbase TyBytes I | TyStrs => Hbase TyStrs I
    | TyInts => Hbase TyInts I | TyF64s => Hbase TyF64s I | TyF32s => Hbase TyF32s I
    end.
End KtyInd.

Lemma nth_Forall_default : forall {A} (P : A -> Prop) l d i, Forall P l -> P d -> P (nth i l d).
Proof.
  intros A P l d i Hl Hd. revert i. induction Hl as [|x l Hx Hl IH]; intros [|i]; simpl; auto.
Qed.

Section Typed.
  Variable fmtv : key -> list N.
  Notation cmp := (compare fmtv).
  Notation T ty := (fun k : key => has_ty k ty = true).

  Ltac via f cB L :=
    apply (laws_via _ (fun _ => True) f cmp cB); [auto| |exact L];
    let a := fresh "a" in let b := fresh "b" in let Ha := fresh "Ha" in let Hb := fresh "Hb" in
    intros a b Ha Hb; destruct a; simpl in Ha; try discriminate Ha;
    destruct b; simpl in Hb; try discriminate Hb.

  Lemma laws_nil : cmp_laws (T TyNil) cmp.
  Proof.
    constructor; unfold sgn3.
    - intros a b Ha Hb; destruct a; try discriminate Ha; destruct b; try discriminate Hb; simpl; lia.
    - intros a Ha; destruct a; try discriminate Ha; reflexivity.
    - intros a b Ha Hb; destruct a; try discriminate Ha; destruct b; try discriminate Hb; reflexivity.
    - intros a b d Ha Hb Hd; destruct a; try discriminate Ha; destruct d; try discriminate Hd; simpl; lia.
  Qed.

  Lemma laws_bool : cmp_laws (T TyBool) cmp.
  Proof. via (sprintv fmtv) bytes_cmp bytes_cmp_laws. reflexivity. Qed.
  Lemma laws_other : cmp_laws (T TyOther) cmp.
  Proof. via (sprintv fmtv) bytes_cmp bytes_cmp_laws. reflexivity. Qed.
  Lemma laws_int : forall t, cmp_laws (T (TyInt t)) cmp.
  Proof.
    intros t. via (as_int t) zcmp zcmp_laws.
    apply ity_eqb_eq in Ha. apply ity_eqb_eq in Hb. subst. simpl. rewrite !ity_eqb_refl. reflexivity.
  Qed.
  Lemma laws_f32 : cmp_laws (T TyF32) cmp.
  Proof. via as_f32 fcmp32 fcmp32_laws. reflexivity. Qed.
  Lemma laws_f64 : cmp_laws (T TyF64) cmp.
  Proof. via as_f64 fcmp64 fcmp64_laws. reflexivity. Qed.
  Lemma laws_str : cmp_laws (T TyStr) cmp.
  Proof. via as_str bytes_cmp bytes_cmp_laws. reflexivity. Qed.
  Lemma laws_guuid : cmp_laws (T TyGUuid) cmp.
  Proof. via as_guuid bytes_cmp bytes_cmp_laws. reflexivity. Qed.
  Lemma laws_suuid : cmp_laws (T TySUuid) cmp.
  Proof. via as_suuid bytes_cmp bytes_cmp_laws. reflexivity. Qed.
  Lemma laws_time : cmp_laws (T TyTime) cmp.
  Proof. via as_time time_cmp time_cmp_laws. reflexivity. Qed.
  Lemma laws_bytes : cmp_laws (T TyBytes) cmp.
  Proof. via as_bytes bytes_cmp bytes_cmp_laws. reflexivity. Qed.
  Lemma laws_strs : cmp_laws (T TyStrs) cmp.
  Proof. via as_strs (slice_cmp bytes_cmp) (slice_laws_all _ bytes_cmp_laws). reflexivity. Qed.
  Lemma laws_ints : cmp_laws (T TyInts) cmp.
  Proof. via as_ints (slice_cmp zcmp) (slice_laws_all _ zcmp_laws). reflexivity. Qed.
  Lemma laws_f64s : cmp_laws (T TyF64s) cmp.
  Proof. via as_f64s (slice_cmp fcmp64) (slice_laws_all _ fcmp64_laws). reflexivity. Qed.
  Lemma laws_f32s : cmp_laws (T TyF32s) cmp.
  Proof. via as_f32s (slice_cmp fcmp32) (slice_laws_all _ fcmp32_laws). reflexivity. Qed.

  (* the main result: on the values of ANY key type, Compare satisfies the order laws *)
  Theorem typed_laws : forall ty, cmp_laws (T ty) cmp.
  Proof.
    induction ty as [ty Hb|ts rest IHts IHrest] using kty_ind'.
    - destruct ty; try contradiction;
        first [apply laws_nil|apply laws_bool|apply laws_other|apply laws_int|apply laws_f32|apply laws_f64
              |apply laws_str|apply laws_guuid|apply laws_suuid|apply laws_time|apply laws_bytes
              |apply laws_strs|apply laws_ints|apply laws_f64s|apply laws_f32s].
    - apply (laws_via _ (PL (fun i a => has_ty a (nth i ts rest) = true)) as_any cmp (slice_cmp cmp)).
      + intros a Ha. destruct a; simpl in Ha; try discriminate Ha. apply has_ty_any. exact Ha.
      + intros a b Ha Hb. destruct a; simpl in Ha; try discriminate Ha.
        destruct b; simpl in Hb; try discriminate Hb. reflexivity.
      + apply slice_laws. intros i. apply (nth_Forall_default (fun t => cmp_laws (T t) cmp)); assumption.
  Qed.

  (* ---- Compare and the comparer CoerceComparer returns *)
  Lemma apply_coerce_self : forall x y, apply_ck fmtv (coerce x) x y = cmp x y.
  Proof. intros x y. destruct x; simpl; try reflexivity. rewrite ity_eqb_refl. reflexivity. Qed.

  Lemma coerce_typed : forall ty w x, has_ty w ty = true -> has_ty x ty = true -> coerce w = coerce x.
  Proof.
    intros ty w x Hw Hx. destruct ty; destruct w; simpl in Hw; try discriminate Hw;
      destruct x; simpl in Hx; try discriminate Hx; try reflexivity.
    apply ity_eqb_eq in Hw. apply ity_eqb_eq in Hx. subst. reflexivity.
  Qed.

  Definition ck_of_ty (ty : kty) : ckind :=
    match ty with
    | TyNil | TyBool | TyOther => CDefault
    | TyInt t => CInt t | TyF32 => CF32 | TyF64 => CF64 | TyStr => CStr | TyGUuid => CGUuid
    | TySUuid => CSUuid | TyTime => CTime | TyBytes => CBytes | TyStrs => CStrs | TyInts => CInts
    | TyF64s => CF64s | TyF32s => CF32s | TyAny _ _ => CAny
    end.

  Lemma coerce_of_ty : forall ty x, has_ty x ty = true -> coerce x = ck_of_ty ty.
  Proof.
    intros ty x Hx. destruct ty; destruct x; simpl in Hx; try discriminate Hx; try reflexivity.
    apply ity_eqb_eq in Hx. subst. reflexivity.
  Qed.

  Lemma apply_ck_typed : forall ty x y, has_ty x ty = true ->
    apply_ck fmtv (ck_of_ty ty) x y = cmp x y.
  Proof. intros ty x y Hx. rewrite <- (coerce_of_ty ty x Hx). apply apply_coerce_self. Qed.
End Typed.

(* ---------------------------------------------------------------- natural orders *)

Lemma time_cmp_chrono : forall s n s' n', 0 <= n < 1000000000 -> 0 <= n' < 1000000000 ->
  let t := s * 1000000000 + n in let t' := s' * 1000000000 + n' in
  (time_cmp (s, n) (s', n') = -1 <-> t < t') /\ (time_cmp (s, n) (s', n') = 0 <-> t = t') /\
  (time_cmp (s, n) (s', n') = 1 <-> t > t').
Proof.
  intros s n s' n' Hn Hn'. unfold time_cmp; simpl.
  destruct (Z.eqb_spec s s') as [E|E].
  - subst. pose proof (zcmp_spec n n'). lia.
  - pose proof (zcmp_spec s s'). lia.
Qed.

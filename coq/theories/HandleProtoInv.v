(* Proofs about HandleProto, part 2: the unbounded invariant behind C37_single_successor, C37_version_monotone and
   C37_claim_exclusive, for any number of transactions and nodes and any schedule allowed by the hypotheses `strict`,
   for systems whose transactions update nodes (no node removals: t_rem = []; removals are covered by the bounded
   exploration and the refutations only). *)
From Coq Require Import List ZArith NArith Bool Lia PeanoNat.
From SopVerif Require Import Proto ProtoProofs HandleProto HandleProtoProofs.
Import ListNotations.
Local Open Scope N_scope.

(* ------------------------------------------------------------------ small facts *)

Lemma pc_eqb_eq a b : pc_eqb a b = true -> a = b.
Proof. destruct a, b; cbn; intros H; try discriminate; reflexivity. Qed.

Lemma nth_set_same {A} (l : list A) : forall i x y, nth_error l i = Some x -> nth_error (set_nth l i y) i = Some y.
Proof. induction l as [|z l IH]; intros [|i] x y H; cbn in *; try discriminate; [reflexivity|eapply IH; exact H]. Qed.
Lemma nth_set_other {A} (l : list A) : forall i j y, i <> j -> nth_error (set_nth l i y) j = nth_error l j.
Proof.
  induction l as [|z l IH]; intros [|i] [|j] y H; cbn; try reflexivity; try congruence.
  apply IH. congruence.
Qed.
Lemma nth_set_none {A} (l : list A) : forall i y, nth_error l i = None -> set_nth l i y = l.
Proof. induction l as [|z l IH]; intros [|i] y H; cbn in *; try discriminate; try reflexivity. rewrite IH by exact H. reflexivity. Qed.

Lemma lock_of_filter f lk l : (forall o, f (l, o) = true) -> lock_of (filter f lk) l = lock_of lk l.
Proof.
  intros Hf. induction lk as [|[l' o] r IH]; cbn [filter lock_of]; [reflexivity|].
  destruct (f (l', o)) eqn:E; cbn [lock_of].
  - destruct (l' =? l); [reflexivity|exact IH].
  - destruct (N.eqb_spec l' l) as [El|El]; [subst; rewrite Hf in E; discriminate|exact IH].
Qed.

Lemma lock_of_filter_some f lk l o : lock_of (filter f lk) l = Some o -> exists o', lock_of lk l = Some o'.
Proof.
  induction lk as [|[l' o'] r IH]; cbn [filter lock_of]; [discriminate|].
  destruct (f (l', o')); cbn [lock_of].
  - destruct (l' =? l); [eauto|exact IH].
  - destruct (l' =? l); [eauto|exact IH].
Qed.

Lemma lock_of_filter_keep f lk l o : lock_of lk l = Some o -> (forall o', f (l, o') = true) -> lock_of (filter f lk) l = Some o.
Proof. intros H Hf. rewrite lock_of_filter; assumption. Qed.

Lemma lock_of_acquire ks : forall lk i l,
  lock_of (acquire lk i ks) l = match lock_of lk l with Some o => Some o | None => if mem l ks then Some i else None end.
Proof.
  unfold acquire. induction ks as [|k ks IH]; intros lk i l; cbn [fold_left mem existsb].
  - destruct (lock_of lk l); reflexivity.
  - rewrite IH. destruct (lock_of lk k) eqn:Ek.
    + destruct (lock_of lk l) eqn:El; [reflexivity|].
      destruct (N.eqb_spec l k) as [E|E]; [subst; congruence|]. cbn [orb]. reflexivity.
    + cbn [lock_of]. destruct (N.eqb_spec k l) as [E|E].
      * subst. rewrite Ek. rewrite N.eqb_refl. cbn [orb]. reflexivity.
      * destruct (lock_of lk l); [reflexivity|]. destruct (N.eqb_spec l k); [congruence|]. cbn [orb]. reflexivity.
Qed.

Lemma forallb_In {A} (f : A -> bool) l x : forallb f l = true -> In x l -> f x = true.
Proof. intros H Hin. rewrite forallb_forall in H. exact (H _ Hin). Qed.

Lemma lookup_app_some r r' l h : lookup r l = Some h -> lookup (r ++ r') l = Some h.
Proof. induction r as [|x r IH]; cbn [lookup app]; [discriminate|]. destruct (lid x =? l); [tauto|exact IH]. Qed.

Lemma lookup_none_notin r l : lookup r l = None -> forall h, In h r -> lid h <> l.
Proof.
  induction r as [|x r IH]; cbn [lookup]; intros H h Hin; [destruct Hin|].
  destruct (N.eqb_spec (lid x) l) as [E|E]; [discriminate|]. destruct Hin as [<-|Hin]; [exact E|exact (IH H _ Hin)].
Qed.

(* ------------------------------------------------------------------ history: installs that no restore has undone *)

Fixpoint live_installs (h : list event) : list (nat * N * Z) :=
  match h with
  | [] => []
  | EInstall i l v _ :: r => (i, l, v) :: live_installs r
  | ERemove i l v :: r => (i, l, v) :: live_installs r
  | EUndo _ l :: r => filter (fun x => negb (snd (fst x) =? l)) (live_installs r)
  | EFailover _ :: r => live_installs r
  end.

Fixpoint hist_ok (h : list event) : Prop :=
  match h with
  | [] => True
  | e :: r => hist_ok r /\ (forall j l v, succ_of e = Some (j, l, v) -> forall j', ~ In (j', l, v) (live_installs r))
  end.

Lemma live_installs_no_undo mid : forall i l v rest,
  existsb (is_undo_of l) mid = false -> In (i, l, v) (live_installs rest) -> In (i, l, v) (live_installs (mid ++ rest)).
Proof.
  induction mid as [|e mid IH]; intros i l v rest Hn Hin; [exact Hin|].
  cbn [existsb] in Hn. apply orb_false_iff in Hn. destruct Hn as [He Hn]. cbn [app].
  destruct e; cbn [live_installs is_undo_of] in *.
  - right. apply IH; assumption.
  - right. apply IH; assumption.
  - apply filter_In. split; [apply IH; assumption|]. cbn. rewrite N.eqb_sym. rewrite He. reflexivity.
  - apply IH; assumption.
Qed.

(* the reading of hist_ok used by the property: between two installs of a successor of the same version of a node
   there is a restore of a logged image over that node *)
Lemma hist_ok_between h : hist_ok h -> forall post e2 mid e1 pre i j l v,
  h = post ++ e2 :: mid ++ e1 :: pre -> succ_of e1 = Some (i, l, v) -> succ_of e2 = Some (j, l, v) ->
  existsb (is_undo_of l) mid = true.
Proof.
  intros Hok post. revert h Hok. induction post as [|p post IH]; intros h Hok e2 mid e1 pre i j l v Hh H1 H2; subst h.
  - cbn [app] in Hok. destruct Hok as [_ Hn].
    destruct (existsb (is_undo_of l) mid) eqn:E; [reflexivity|exfalso].
    apply (Hn _ _ _ H2 i). apply live_installs_no_undo; [exact E|].
    destruct e1; cbn [succ_of] in H1; inversion H1; subst; cbn [live_installs]; left; reflexivity.
  - cbn [app] in Hok. destruct Hok as [Hok _]. eapply IH; [exact Hok|reflexivity|eassumption|eassumption].
Qed.

(* ------------------------------------------------------------------ the invariant *)

Definition hold_pc (p : pcT) : bool :=
  match p with PLocked | PClaiming | PStaged | PMarking | PLogged | PFlipping | PInstalled | PRestoring | PRolling => true | _ => false end.
Definition img_pc (p : pcT) : bool :=
  match p with PClaiming | PStaged | PMarking | PLogged => true | _ => false end.
Definition kind_ok (p : pcT) (k : wkind) : bool :=
  match p, k with
  | PFlipping, (WFlip | WTouch) => true
  | PRestoring, WRestore => true
  | (PClaiming | PMarking | PRolling), (WClaim | WMark | WUndo) => true
  | _, _ => false
  end.
Definition delta_ok (k : wkind) (h0 h : handle) : Prop :=
  match k with
  | WFlip | WTouch => ver h = (ver h0 + 1)%Z
  | WRestore => True
  | _ => ver h = ver h0
  end.

Lemma kind_ok_hold p k : kind_ok p k = true -> hold_pc p = true.
Proof. destruct p, k; cbn; intros H; try discriminate; reflexivity. Qed.

Record txn_ok (s : state) (i : nat) (t : txn) : Prop := {
  o_norem : t_rem t = [] /\ t_marked t = [];
  o_nd : NoDup (upd_lids t);
  o_lock : t_crashed t = false -> hold_pc (t_pc t) = true -> forall l, In l (upd_lids t) -> lock_of (slocks s) l = Some i;
  o_pend : t_crashed t = false -> forall k h, In (k, h) (t_pend t) ->
             kind_ok (t_pc t) k = true /\ In (lid h) (upd_lids t)
             /\ exists h0, lookup (sreg s) (lid h) = Some h0 /\ delta_ok k h0 h;
  o_pend_nd : t_pc t = PFlipping -> NoDup (map (fun p => lid (snd p)) (t_pend t));
  o_pres : t_crashed t = false -> hold_pc (t_pc t) = true -> forall c, In c (t_claimed t) ->
             In (lid c) (upd_lids t) /\ exists h0, lookup (sreg s) (lid c) = Some h0;
  o_img : t_crashed t = false -> img_pc (t_pc t) = true -> forall c h0, In c (t_claimed t) ->
             lookup (sreg s) (lid c) = Some h0 -> ver h0 = ver c;
  o_img_nd : img_pc (t_pc t) = true -> NoDup (map lid (t_claimed t));
  o_plog : forall hs, t_plog t = Some hs -> forall h, In h hs -> In h (t_claimed t);
  o_start : t_pc t = PStart \/ t_pc t = PLocked -> t_claimed t = []
}.

Record Inv (s : state) : Prop := {
  i_tx : forall i t, get_tx s i = Some t -> txn_ok s i t;
  i_hist : forall j l v, In (j, l, v) (live_installs (shist s)) -> exists h0, lookup (sreg s) l = Some h0 /\ (v < ver h0)%Z;
  i_hok : hist_ok (shist s)
}.

(* well-formed initial states: fresh transactions that only update, each over distinct nodes; empty lock table and history *)
Definition wf_init (s : state) : Prop :=
  slocks s = [] /\ shist s = [] /\
  forall t, In t (stxs s) ->
    t_rem t = [] /\ NoDup (upd_lids t) /\ t_pc t = PStart /\ t_crashed t = false /\ t_pend t = [] /\ t_claimed t = [] /\ t_marked t = [] /\ t_plog t = None.

Lemma inv_init s : wf_init s -> Inv s.
Proof.
  intros (Hl & Hh & Ht). constructor.
  - intros i t Hg. apply nth_error_In in Hg. destruct (Ht _ Hg) as (R & ND & PC & CR & PD & CL & MK & PL).
    constructor; rewrite ?PC, ?PD, ?CL, ?PL, ?MK, ?R; cbn; intros; try tauto; try discriminate; try contradiction; try (constructor; fail).
    all: try exact ND.
  - rewrite Hh. intros j l v [].
  - rewrite Hh. exact I.
Qed.

(* BOUNDED: the structural invariant BtreeWF.wfb holds in every state reachable by the stated
   call sequences (load balancing off).  Not the claim; it documents and exercises the
   invariant the inductive refinement proof needs. *)
From Coq Require Import List ZArith NArith Bool.
From SopVerif Require Import OMap Btree BtreeSim BtreeWF BtreeBounded1 BtreeBounded2 BtreeBounded3.
Import ListNotations.
Local Open Scope Z_scope.

Lemma explore_wf_sound : forall cfg alpha n b, explore_wf cfg alpha n b = true ->
  forall ops, (length ops <= n)%nat -> Forall (fun o => In o alpha) ops -> run_wf cfg b ops = true.
Proof.
  intros cfg alpha n. induction n as [|n IH]; intros b He ops Hl Hin.
  - destruct ops; [|cbn in Hl; inversion Hl]. cbn in *. rewrite andb_true_iff in *. tauto.
  - cbn [explore_wf] in He. apply andb_true_iff in He as [Hw He].
    destruct ops as [|o r]; cbn [run_wf]; rewrite Hw; [reflexivity|].
    inversion Hin as [|? ? Ho Hr]; subst. rewrite forallb_forall in He.
    apply IH; auto. cbn in Hl. apply le_S_n. exact Hl.
Qed.

Theorem bounded_wf_L2 : forall ops, (length ops <= 7)%nat -> Forall (fun o => In o alpha_mut) ops ->
  run_wf (mkCfg 2 false false) empty_bstate ops = true.
Proof. apply explore_wf_sound. vm_cast_no_check (eq_refl true). Qed.

Theorem bounded_wf_L2_mixed : forall ops, (length ops <= 5)%nat -> Forall (fun o => In o alpha_mixed) ops ->
  run_wf (mkCfg 2 false false) empty_bstate ops = true.
Proof. apply explore_wf_sound. vm_cast_no_check (eq_refl true). Qed.

Theorem bounded_wf_L4 : forall ops, (length ops <= 7)%nat -> Forall (fun o => In o alpha_L4) ops ->
  run_wf (mkCfg 4 false false) empty_bstate ops = true.
Proof. apply explore_wf_sound. vm_cast_no_check (eq_refl true). Qed.

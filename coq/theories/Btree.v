(* Btree — node-level model of /repo/btree (btree.go, node.go,
   node.handlenilchild.go) over an in-memory node repository, transcribed
   function by function, including the code's defects.  Definitions only.

   Go pointers to nodes become node ids looked up in the node map; every
   mutation writes through (the in-memory repositories hand out shared
   pointers, so saveNode is not what makes a change visible).  Loops run on
   fuel.  Places where the Go code would panic on a nil node that a well-formed
   tree never produces return the state unchanged (the correspondence check
   would show a difference if one were ever reached). *)
From Coq Require Import List ZArith NArith Bool Lia.
From SopVerif Require Import OMap.
Import ListNotations.
Local Open Scope Z_scope.

(* ------------------------------------------------------------------ arrays *)
Definition zget {A} (d : A) (l : list A) (i : Z) : A :=
  if i <? 0 then d else nth (Z.to_nat i) l d.

Fixpoint set_nth {A} (l : list A) (n : nat) (x : A) : list A :=
  match l, n with
  | [], _ => []
  | _ :: r, O => x :: r
  | y :: r, S n' => y :: set_nth r n' x
  end.

Definition zset {A} (l : list A) (i : Z) (x : A) : list A :=
  if i <? 0 then l else set_nth l (Z.to_nat i) x.

(* Go: copy(dst[doff:], src) *)
Fixpoint copy_nat {A} (dst : list A) (doff : nat) (src : list A) : list A :=
  match dst with
  | [] => []
  | d :: dr =>
      match doff with
      | S k => d :: copy_nat dr k src
      | O => match src with
             | [] => dst
             | s :: sr => s :: copy_nat dr O sr
             end
      end
  end.

(* Go: l[a:b] (clamped) *)
Definition zslice {A} (l : list A) (a b : Z) : list A :=
  firstn (Z.to_nat (b - a)) (skipn (Z.to_nat a) l).

(* node.go moveArrayElements *)
Definition move_elems {A} (arr : list A) (dest src count : Z) : list A :=
  let len := Z.of_nat (length arr) in
  if (count <=? 0) || (len <=? dest) || (len <=? src) || (dest <? 0) || (src <? 0) then arr
  else copy_nat arr (Z.to_nat dest) (zslice arr src (Z.min (src + count) len)).

(* node.go shiftSlots *)
Definition shift_slots {A} (arr : list A) (position occupied : Z) : list A :=
  if position <? occupied then move_elems arr (position + 1) position (occupied - position) else arr.

(* pad / cut to an exact length *)
Definition fit {A} (d : A) (n : Z) (l : list A) : list A :=
  firstn (Z.to_nat n) (l ++ repeat d (Z.to_nat n)).

(* Go: sort.Search(n, f) — the binary search itself, not "first index" *)
Fixpoint bsearch (f : Z -> bool) (i j : Z) (fuel : nat) : Z :=
  match fuel with
  | O => i
  | S fu =>
      if i <? j then
        let h := (i + j) / 2 in
        if f h then bsearch f i h fu else bsearch f (h + 1) j fu
      else i
  end.
Definition sort_search (n : Z) (f : Z -> bool) : Z := bsearch f 0 n (S (Z.to_nat n)).

(* ------------------------------------------------------------------ state *)
Record node := mkNode {
  nparent : N;
  nslots : list item;              (* always L entries; emptied slots hold zero_item *)
  ncount : Z;
  nchildren : option (list N)      (* None: ChildrenIDs == nil; Some: L+1 entries, 0 = nil child *)
}.

Definition nodemap := list (N * node).

Fixpoint nm_get (m : nodemap) (id : N) : option node :=
  match m with
  | [] => None
  | (k, n) :: r => if N.eqb k id then Some n else nm_get r id
  end.

Fixpoint nm_set (m : nodemap) (id : N) (n : node) : nodemap :=
  match m with
  | [] => [(id, n)]
  | (k, x) :: r => if N.eqb k id then (k, n) :: r else (k, x) :: nm_set r id n
  end.

Fixpoint nm_remove (m : nodemap) (id : N) : nodemap :=
  match m with
  | [] => []
  | (k, x) :: r => if N.eqb k id then r else (k, x) :: nm_remove r id
  end.

Record bcfg := mkCfg { cL : Z; cunique : bool; clb : bool }.

Record bstate := mkB {
  bnodes : nodemap;
  broot : N;            (* StoreInfo.RootNodeID *)
  bcount : Z;           (* StoreInfo.Count *)
  bcur_node : N;        (* currentItemRef *)
  bcur_idx : Z;
  bcached : bool;       (* currentItem != nil *)
  bnext_nid : N;
  bnext_iid : N
}.

Definition empty_bstate : bstate := mkB [] 0 0 0 0 false 1 1.

Definition with_nodes (s : bstate) (m : nodemap) : bstate :=
  mkB m (broot s) (bcount s) (bcur_node s) (bcur_idx s) (bcached s) (bnext_nid s) (bnext_iid s).
Definition with_count (s : bstate) (c : Z) : bstate :=
  mkB (bnodes s) (broot s) c (bcur_node s) (bcur_idx s) (bcached s) (bnext_nid s) (bnext_iid s).
(* setCurrentItemID: also drops the cached item pointer *)
Definition set_current (s : bstate) (id : N) (i : Z) : bstate :=
  mkB (bnodes s) (broot s) (bcount s) id i false (bnext_nid s) (bnext_iid s).
Definition with_cached (s : bstate) (c : bool) : bstate :=
  mkB (bnodes s) (broot s) (bcount s) (bcur_node s) (bcur_idx s) c (bnext_nid s) (bnext_iid s).

Definition getn (s : bstate) (id : N) : option node :=
  if N.eqb id 0 then None else nm_get (bnodes s) id.
Definition putn (s : bstate) (id : N) (n : node) : bstate := with_nodes s (nm_set (bnodes s) id n).
Definition deln (s : bstate) (id : N) : bstate := with_nodes s (nm_remove (bnodes s) id).

Definition fresh_node (s : bstate) : bstate * N :=
  (mkB (bnodes s) (broot s) (bcount s) (bcur_node s) (bcur_idx s) (bcached s) (N.succ (bnext_nid s)) (bnext_iid s),
   bnext_nid s).

Definition zero_slots (L : Z) : list item := repeat zero_item (Z.to_nat L).
Definition zero_children (L : Z) : list N := repeat 0%N (Z.to_nat (L + 1)).
Definition empty_node (L : Z) (parent : N) : node := mkNode parent (zero_slots L) 0 None.

Definition has_children (n : node) : bool :=
  match nchildren n with Some (_ :: _) => true | _ => false end.
Definition child_id (n : node) (i : Z) : N :=
  match nchildren n with Some ch => zget 0%N ch i | None => 0%N end.
Definition slot (n : node) (i : Z) : item := zget zero_item (nslots n) i.
Definition is_root (n : node) : bool := N.eqb (nparent n) 0.
Definition is_full (n : node) : bool := Z.of_nat (length (nslots n)) <=? ncount n.

Definition set_slots (n : node) (sl : list item) : node := mkNode (nparent n) sl (ncount n) (nchildren n).
Definition set_count (n : node) (c : Z) : node := mkNode (nparent n) (nslots n) c (nchildren n).
Definition set_children (n : node) (ch : option (list N)) : node := mkNode (nparent n) (nslots n) (ncount n) ch.
Definition set_parent (n : node) (p : N) : node := mkNode p (nslots n) (ncount n) (nchildren n).

Definition is_nil_children (n : node) : bool :=
  match nchildren n with Some ch => forallb (fun c => N.eqb c 0) ch | None => true end.

(* nodeHasNilChild: a nil child among positions 0..Count *)
Definition node_has_nil_child (n : node) : bool :=
  has_children n &&
  existsb (fun i => N.eqb (child_id n (Z.of_nat i)) 0) (seq 0 (Z.to_nat (ncount n + 1))).

(* first nil child position in 0..Count *)
Definition first_nil_child (n : node) : option Z :=
  match filter (fun i => N.eqb (child_id n (Z.of_nat i)) 0) (seq 0 (Z.to_nat (ncount n + 1))) with
  | i :: _ => Some (Z.of_nat i)
  | [] => None
  end.

(* getIndexOfChild: first position 0..L holding the child's id, L+1 when absent *)
Definition index_of_child (L : Z) (p : node) (cid : N) : Z :=
  match nchildren p with
  | None => -1
  | Some ch =>
      match filter (fun i => negb (N.eqb (zget 0%N ch (Z.of_nat i)) 0) && N.eqb (zget 0%N ch (Z.of_nat i)) cid)
                   (seq 0 (Z.to_nat (L + 1))) with
      | i :: _ => Z.of_nat i
      | [] => L + 1
      end
  end.

(* getIndexOfNode *)
Definition index_of_node (L : Z) (s : bstate) (id : N) (n : node) : Z :=
  match getn s (nparent n) with
  | Some p => index_of_child L p id
  | None => 0
  end.

Definition left_sibling (L : Z) (s : bstate) (id : N) (n : node) : N :=
  let index := index_of_node L s id n in
  match getn s (nparent n) with
  | Some p => if (0 <? index) && (index <=? ncount p) then child_id p (index - 1) else 0%N
  | None => 0%N
  end.

Definition right_sibling (L : Z) (s : bstate) (id : N) (n : node) : N :=
  let index := index_of_node L s id n in
  match getn s (nparent n) with
  | Some p => if (0 <=? index) && (index <? ncount p) then child_id p (index + 1) else 0%N
  | None => 0%N
  end.

(* updateChildrenParent *)
Definition update_children_parent (s : bstate) (id : N) (n : node) : bstate :=
  match nchildren n with
  | Some ch =>
      if has_children n then
        fold_left (fun acc c => match getn acc c with
                                | Some cn => putn acc c (set_parent cn id)
                                | None => acc
                                end) ch s
      else s
  | None => s
  end.

(* ------------------------------------------------------------------ navigation *)

Fixpoint move_to_first_loop (fuel : nat) (s : bstate) (id : N) : N :=
  match fuel with
  | O => id
  | S f =>
      match getn s id with
      | Some n =>
          match nchildren n with
          | Some _ =>
              let cid := child_id n 0 in
              if N.eqb cid 0 then id
              else match getn s cid with
                   | Some _ => move_to_first_loop f s cid
                   | None => id
                   end
          | None => id
          end
      | None => id
      end
  end.

Definition fuel_of (s : bstate) : nat := S (S (length (bnodes s))).

Definition move_to_first (s : bstate) (root : N) : bstate * bool :=
  (set_current s (move_to_first_loop (fuel_of s) s root) 0, true).

(* returns the node reached, or None when a child id does not resolve *)
Fixpoint move_to_last_loop (fuel : nat) (s : bstate) (id : N) : option N :=
  match fuel with
  | O => Some id
  | S f =>
      match getn s id with
      | Some n =>
          match nchildren n with
          | Some _ =>
              let cid := child_id n (ncount n) in
              if N.eqb cid 0 then Some id
              else match getn s cid with
                   | Some _ => move_to_last_loop f s cid
                   | None => None
                   end
          | None => Some id
          end
      | None => Some id
      end
  end.

Definition move_to_last (s : bstate) (root : N) : bstate * bool :=
  match move_to_last_loop (fuel_of s) s root with
  | Some id =>
      match getn s id with
      | Some n => (set_current s id (ncount n - 1), negb (N.eqb id 0))
      | None => (s, false)
      end
  | None => (s, false)
  end.

(* the climbing loop shared by moveToNext and goRightUpItemOnNodeWithNilChild *)
Fixpoint climb_right (fuel : nat) (L : Z) (s : bstate) (id : N) (i : Z) : bstate * bool :=
  match fuel with
  | O => (s, false)
  | S f =>
      match getn s id with
      | None => (set_current s 0 0, false)
      | Some n =>
          if i <? ncount n then (set_current s id i, true)
          else if is_root n then (set_current s 0 0, false)
          else match getn s (nparent n) with
               | Some p => climb_right f L s (nparent n) (index_of_child L p id)
               | None => (s, false)
               end
      end
  end.

Fixpoint go_right_down (fuel : nat) (L : Z) (s : bstate) (id : N) (slotIndex : Z) : bstate * bool :=
  match fuel with
  | O => (s, false)
  | S f =>
      match getn s id with
      | None => (set_current s 0 0, false)
      | Some n =>
          if has_children n then
            if N.eqb (child_id n slotIndex) 0 then
              (* goRightUpItemOnNodeWithNilChild; on reaching the end the caller's next
                 iteration sees a nil child and clears the cursor as well *)
              climb_right (fuel_of s) L s id slotIndex
            else go_right_down f L s (child_id n slotIndex) 0
          else (set_current s id 0, true)
      end
  end.

Definition move_to_next (L : Z) (s : bstate) (id : N) : bstate * bool :=
  match getn s id with
  | None => (s, false)
  | Some n =>
      let slotIndex := bcur_idx s + 1 in
      if has_children n then go_right_down (fuel_of s) L s id slotIndex
      else climb_right (fuel_of s) L s id slotIndex
  end.

Fixpoint climb_left (fuel : nat) (L : Z) (s : bstate) (id : N) (i : Z) : bstate * bool :=
  match fuel with
  | O => (s, false)
  | S f =>
      if 0 <=? i then (set_current s id i, true)
      else match getn s id with
           | None => (s, false)
           | Some n =>
               if is_root n then (set_current s 0 0, false)
               else match getn s (nparent n) with
                    | Some p => climb_left f L s (nparent n) (index_of_child L p id - 1)
                    | None => (s, false)
                    end
           end
  end.

Fixpoint go_left_down (fuel : nat) (L : Z) (s : bstate) (id : N) (slotIndex : Z) : bstate * bool :=
  match fuel with
  | O => (s, false)
  | S f =>
      match getn s id with
      | None => (set_current s 0 0, false)
      | Some n =>
          if has_children n then
            if N.eqb (child_id n slotIndex) 0 then climb_left (fuel_of s) L s id (slotIndex - 1)
            else match getn s (child_id n slotIndex) with
                 | Some c => go_left_down f L s (child_id n slotIndex) (ncount c)
                 | None => (set_current s 0 0, false)
                 end
          else (set_current s id (slotIndex - 1), true)
      end
  end.

Definition move_to_previous (L : Z) (s : bstate) (id : N) : bstate * bool :=
  match getn s id with
  | None => (s, false)
  | Some n =>
      let slotIndex := bcur_idx s in
      if has_children n then go_left_down (fuel_of s) L s id slotIndex
      else climb_left (fuel_of s) L s id (slotIndex - 1)
  end.

(* ------------------------------------------------------------------ find *)

(* the descent of node.find: returns (found node, found index, last node, last index) *)
Fixpoint find_loop (fuel : nat) (s : bstate) (key : Z) (first : bool) (id : N)
         (fnode : N) (fidx : Z) : N * Z * N * Z :=
  match fuel with
  | O => (fnode, fidx, id, 0)
  | S f =>
      match getn s id with
      | None => (fnode, fidx, id, 0)
      | Some n =>
          let index := if 0 <? ncount n
                       then sort_search (ncount n) (fun i => key <=? ikey (slot n i)) else 0 in
          let hit := (0 <? ncount n) && (index <? ncount n) && (ikey (slot n index) =? key) in
          let fnode' := if hit then id else fnode in
          let fidx' := if hit then index else fidx in
          if hit && negb first then (fnode', fidx', id, index)
          else if has_children n then
            if N.eqb (child_id n index) 0 then (fnode', fidx', id, index)
            else find_loop f s key first (child_id n index) fnode' fidx'
          else (fnode', fidx', id, index)
      end
  end.

Fixpoint find_desc_loop (fuel : nat) (s : bstate) (key : Z) (id : N)
         (fnode : N) (fidx : Z) : N * Z * N * Z :=
  match fuel with
  | O => (fnode, fidx, id, 0)
  | S f =>
      match getn s id with
      | None => (fnode, fidx, id, 0)
      | Some n =>
          let index := if 0 <? ncount n
                       then sort_search (ncount n) (fun i => key <? ikey (slot n i)) else 0 in
          let hit := (0 <? ncount n) && (0 <? index) && (ikey (slot n (index - 1)) =? key) in
          let fnode' := if hit then id else fnode in
          let fidx' := if hit then index - 1 else fidx in
          if has_children n then
            if N.eqb (child_id n index) 0 then (fnode', fidx', id, index)
            else find_desc_loop f s key (child_id n index) fnode' fidx'
          else (fnode', fidx', id, index)
      end
  end.

(* the common tail of find / findInDescendingOrder *)
Definition find_finish (L : Z) (s : bstate) (r : N * Z * N * Z) : bstate * bool :=
  let '(fnode, fidx, lid, index) := r in
  if negb (N.eqb fnode 0) then (set_current s fnode fidx, true)
  else
    match getn s lid with
    | None => (s, false)
    | Some n =>
        let index := if index =? ncount n then index - 1 else index in
        if (0 <=? index) && (index <? ncount n) then (set_current s lid index, false)
        else
          let s1 := set_current s lid (index - 1) in
          (fst (move_to_next L s1 lid), false)
    end.

(* ------------------------------------------------------------------ add *)

(* getIndexToInsertTo *)
Definition index_to_insert (uq : bool) (n : node) (key : Z) : Z * bool :=
  if ncount n =? 0 then (0, false)
  else
    let index := sort_search (ncount n) (fun i => key <=? ikey (slot n i)) in
    if uq then
      let i := if ncount n <=? index then index - 1 else index in
      (index, ikey (slot n i) =? key)
    else (index, false).

(* pending controller actions of Btree.distribute / Btree.promote *)
Record dist_action := mkDist { d_src : N; d_item : item; d_left : bool }.
Record prom_action := mkProm { p_target : N; p_index : Z; p_item : item; p_c0 : N; p_c1 : N }.

Fixpoint vacant_left (fuel : nat) (L : Z) (s : bstate) (id : N) : bool * bool :=
  match fuel with
  | O => (false, false)
  | S f =>
      match getn s id with
      | None => (false, false)
      | Some n =>
          if node_has_nil_child n then (true, false)
          else match nchildren n with
               | Some _ => (false, true)
               | None => if negb (is_full n) then (true, false)
                         else vacant_left f L s (left_sibling L s id n)
               end
      end
  end.

Fixpoint vacant_right (fuel : nat) (L : Z) (s : bstate) (id : N) : bool * bool :=
  match fuel with
  | O => (false, false)
  | S f =>
      match getn s id with
      | None => (false, false)
      | Some n =>
          if node_has_nil_child n then (true, false)
          else match nchildren n with
               | Some _ => (false, true)
               | None => if negb (is_full n) then (true, false)
                         else vacant_right f L s (right_sibling L s id n)
               end
      end
  end.

Definition children_with (L : Z) (a b : N) : option (list N) :=
  Some (zset (zset (zero_children L) 0 a) 1 b).

(* addOnLeaf *)
Definition add_on_leaf (cfg : bcfg) (s : bstate) (id : N) (n : node) (it : item) (index : Z)
  : bstate * option dist_action * option prom_action :=
  let L := cL cfg in
  if ncount n <? L then
    (* insertSlotItem *)
    let sl := zset (copy_nat (nslots n) (Z.to_nat (index + 1)) (zslice (nslots n) index L)) index it in
    (putn s id (set_count (set_slots n sl) (ncount n + 1)), None, None)
  else
    let t0 := nslots n ++ [zero_item] in
    let temp := zset (copy_nat t0 (Z.to_nat (index + 1)) (zslice t0 index (L + 1))) index it in
    let half := L / 2 in
    if negb (is_root n) then
      let '(vl, _) := if clb cfg then vacant_left (fuel_of s) L s id else (false, false) in
      let '(vr, unb) := if clb cfg then vacant_right (fuel_of s) L s id else (false, false) in
      if vl || vr then
        let b := if vl then 0 else 1 in
        let s1 := putn s id (set_slots n (fit zero_item L (zslice temp b (b + L)))) in
        if vl then (s1, Some (mkDist id (zget zero_item temp L) true), None)
        else (s1, Some (mkDist id (zget zero_item temp 0) false), None)
      else if unb then
        let '(s1, rid) := fresh_node s in
        let '(s2, lid) := fresh_node s1 in
        let ln := mkNode id (fit zero_item L (zslice temp 0 half)) half None in
        let rn := mkNode id (fit zero_item L (zslice temp (half + 1) (half + 1 + half))) half None in
        (* the node keeps its old Count: node.Count = 1 is missing in the Go code *)
        let n' := set_children (set_slots n (fit zero_item L [zget zero_item temp half])) (children_with L lid rid) in
        (putn (putn (putn s2 lid ln) rid rn) id n', None, None)
      else
        let '(s1, rid) := fresh_node s in
        let n' := set_count (set_slots n (fit zero_item L (zslice temp 0 half))) half in
        let rn := mkNode (nparent n) (fit zero_item L (zslice temp (half + 1) (half + 1 + half))) half None in
        match getn s1 (nparent n) with
        | None => (s, None, None)
        | Some p =>
            let s2 := putn (putn s1 id n') rid rn in
            (s2, None, Some (mkProm (nparent n) (index_of_child L p id) (zget zero_item temp half) id rid))
        end
    else
      let '(s1, rid) := fresh_node s in
      let '(s2, lid) := fresh_node s1 in
      let ln := mkNode id (fit zero_item L (zslice temp 0 half)) half None in
      let rn := mkNode id (fit zero_item L (zslice temp (half + 1) (half + 1 + half))) half None in
      let n' := mkNode (nparent n) (fit zero_item L [zget zero_item temp half]) 1 (children_with L lid rid) in
      (putn (putn (putn s2 lid ln) rid rn) id n', None, None).

(* addItemOnNodeWithNilChild / distributeItemOnNodeWithNilChild: new child with one item *)
Definition new_child_with_item (L : Z) (s : bstate) (id : N) (n : node) (i : Z) (it : item) : bstate :=
  let '(s1, cid) := fresh_node s in
  let n' := set_children n (match nchildren n with Some ch => Some (zset ch i cid) | None => None end) in
  let c := mkNode id (zset (zero_slots L) 0 it) 1 None in
  putn (putn s1 id n') cid c.

(* Node.add: the descent *)
Fixpoint add_loop (fuel : nat) (cfg : bcfg) (uq : bool) (s : bstate) (id : N) (it : item)
  : bstate * bool * option dist_action * option prom_action :=
  match fuel with
  | O => (s, false, None, None)
  | S f =>
      match getn s id with
      | None => (s, false, None, None)
      | Some n =>
          let '(index, exists_) := index_to_insert uq n (ikey it) in
          if exists_ then (set_current s id index, false, None, None)
          else if has_children n then
            if N.eqb (child_id n index) 0 then
              (new_child_with_item (cL cfg) s id n index it, true, None, None)
            else add_loop f cfg uq s (child_id n index) it
          else
            let ci := if (0 <? index) && (ncount n <=? index) then index - 1 else index in
            if uq && (0 <? ncount n) && (ikey (slot n ci) =? ikey it)
            then (set_current s id ci, false, None, None)
            else let '(s', d, p) := add_on_leaf cfg s id n it index in (s', true, d, p)
      end
  end.

(* distributeToLeft / distributeToRight driven by Btree.distribute *)
Definition distribute_step (L : Z) (s : bstate) (a : dist_action) : bstate * option dist_action :=
  let id := d_src a in
  match getn s id with
  | None => (s, None)
  | Some n =>
      match (if has_children n then first_nil_child n else None) with
      | Some i => (new_child_with_item L s id n i (d_item a), None)
      | None =>
          if d_left a then
            if is_full n then
              match getn s (nparent n) with
              | None => (s, None)
              | Some p =>
                  let ion := index_of_child L p id in
                  if ncount p <? ion then (s, None)
                  else
                    let src' := left_sibling L s id n in
                    let it' := slot p (ion - 1) in
                    let p' := set_slots p (zset (nslots p) (ion - 1) (slot n 0)) in
                    let s1 := putn s (nparent n) p' in
                    let sl := zset (move_elems (nslots n) 0 1 (L - 1)) (ncount n - 1) (d_item a) in
                    (putn s1 id (set_slots n sl),
                     if N.eqb src' 0 then None else Some (mkDist src' it' true))
              end
            else
              let n' := set_count n (ncount n + 1) in
              (putn s id (set_slots n' (zset (nslots n') (ncount n' - 1) (d_item a))), None)
          else
            if is_full n then
              match getn s (nparent n) with
              | None => (s, None)
              | Some p =>
                  let i := index_of_child L p id in
                  let src' := right_sibling L s id n in
                  let it' := slot p i in
                  let p' := set_slots p (zset (nslots p) i (slot n (ncount n - 1))) in
                  let s1 := putn s (nparent n) p' in
                  let sl := zset (move_elems (nslots n) 1 0 (L - 1)) 0 (d_item a) in
                  (putn s1 id (set_slots n sl),
                   if N.eqb src' 0 then None else Some (mkDist src' it' false))
              end
            else
              let n' := set_count n (ncount n + 1) in
              (putn s id (set_slots n' (zset (move_elems (nslots n') 1 0 (L - 1)) 0 (d_item a))), None)
      end
  end.

Fixpoint distribute_loop (fuel : nat) (L : Z) (s : bstate) (a : option dist_action) : bstate :=
  match fuel, a with
  | _, None => s
  | O, _ => s
  | S f, Some act => let '(s', a') := distribute_step L s act in distribute_loop f L s' a'
  end.

(* Node.promote *)
Definition promote_step (L : Z) (s : bstate) (a : prom_action) : bstate * option prom_action :=
  let id := p_target a in
  match getn s id with
  | None => (s, None)
  | Some n =>
      let occ := ncount n in
      let index := p_index a in
      let ch := match nchildren n with Some c => c | None => [] end in
      if occ <? L then
        let sl := shift_slots (nslots n) index occ in
        let index := if occ <? index then occ else index in
        let sl := zset sl index (p_item a) in
        let ch1 := zset ch index (p_c0 a) in
        let ch2 := shift_slots ch1 (index + 1) (occ + 1) in
        let ch3 := zset ch2 (index + 1) (p_c1 a) in
        (putn s id (mkNode (nparent n) sl (occ + 1) (match nchildren n with Some _ => Some ch3 | None => None end)), None)
      else
        let ts := zset (shift_slots (nslots n ++ [zero_item]) index L) index (p_item a) in
        let tc0 := zset (ch ++ [0%N]) index (p_c0 a) in
        let tc := zset (shift_slots tc0 (index + 1) (occ + 1)) (index + 1) (p_c1 a) in
        let half := L / 2 in
        let lslots := fit zero_item L (zslice ts 0 half) in
        let rslots := fit zero_item L (zslice ts (half + 1) (half + 1 + half)) in
        let lch := fit 0%N (L + 1) (zslice tc 0 (half + 1)) in
        let rch := fit 0%N (L + 1) (zslice tc (half + 1) (half + 1 + half + 1)) in
        if is_root n then
          let '(s1, lid) := fresh_node s in
          let '(s2, rid) := fresh_node s1 in
          let ln := mkNode id lslots half (Some lch) in
          let rn := mkNode id rslots half (Some rch) in
          let s3 := update_children_parent s2 lid ln in
          let s4 := update_children_parent s3 rid rn in
          let n' := mkNode (nparent n) (fit zero_item L [zget zero_item ts half]) 1 (children_with L lid rid) in
          (putn (putn (putn s4 id n') lid ln) rid rn, None)
        else
          let '(s1, rid) := fresh_node s in
          let rn := mkNode (nparent n) rslots half (Some rch) in
          let n' := mkNode (nparent n) lslots half (Some lch) in
          let s2 := putn (update_children_parent s1 rid rn) rid rn in
          let s3 := putn (update_children_parent s2 id n') id n' in
          match getn s3 (nparent n) with
          | None => (s3, None)
          | Some p => (s3, Some (mkProm (nparent n) (index_of_child L p id) (zget zero_item ts half) id rid))
          end
  end.

Fixpoint promote_loop (fuel : nat) (L : Z) (s : bstate) (a : option prom_action) : bstate :=
  match fuel, a with
  | _, None => s
  | O, _ => s
  | S f, Some act => let '(s', a') := promote_step L s act in promote_loop f L s' a'
  end.

(* getRootNode (only reached with Count = 0 from Add; otherwise the stored root) *)
Definition get_root (L : Z) (s : bstate) : bstate * N :=
  if N.eqb (broot s) 0 then
    let '(s1, id) := fresh_node s in
    (mkB (nm_set (bnodes s1) id (empty_node L 0)) id (bcount s1) (bcur_node s1) (bcur_idx s1) (bcached s1) (bnext_nid s1) (bnext_iid s1), id)
  else
    match getn s (broot s) with
    | Some _ => (s, broot s)
    | None => if bcount s =? 0 then (putn s (broot s) (empty_node L 0), broot s) else (s, broot s)
    end.

(* Btree.Add (uq: IsUnique as seen by this call) *)
Definition b_add (cfg : bcfg) (uq : bool) (s : bstate) (k v : Z) : bstate * bool :=
  let it := mkItem (bnext_iid s) k v in
  let '(s0, root) := get_root (cL cfg) s in
  let '(s1, ok, d, p) := add_loop (fuel_of s0) cfg uq s0 root it in
  if ok then
    let s2 := distribute_loop (fuel_of s1) (cL cfg) s1 d in
    let s3 := promote_loop (fuel_of s2) (cL cfg) s2 p in
    (mkB (bnodes s3) (broot s3) (bcount s3 + 1) (bcur_node s3) (bcur_idx s3) (bcached s3) (bnext_nid s3) (N.succ (bnext_iid s3)), true)
  else (s1, false).

(* ------------------------------------------------------------------ cursor reads *)
Definition is_selected (s : bstate) : bool := negb (N.eqb (bcur_node s) 0) && (0 <=? bcur_idx s).

(* the item the cursor reference designates (what &n.Slots[index] reads) *)
Definition cursor_item (s : bstate) : item :=
  match getn s (bcur_node s) with
  | Some n => slot n (bcur_idx s)
  | None => zero_item
  end.

(* getCurrentItem: caches the pointer (or clears it when nothing is selected) *)
Definition load_current (s : bstate) : bstate :=
  if N.eqb (bcur_node s) 0 then with_cached s false else with_cached s true.

Definition bcurrent_key (s : bstate) : item :=
  if bcached s then let x := cursor_item s in mkItem (iid x) (ikey x) 0 else zero_item.

(* ------------------------------------------------------------------ public calls *)

Definition b_find (cfg : bcfg) (s : bstate) (k : Z) (first : bool) : bstate * bool :=
  if bcount s =? 0 then (s, false)
  else
    let s0 := if is_selected s then load_current s else s in
    if is_selected s && negb first && (ikey (cursor_item s0) =? k) then (s0, true)
    else
      let '(s1, r) := find_finish (cL cfg) s0 (find_loop (fuel_of s0) s0 k first (broot s0) 0 0) in
      (load_current s1, r).

Definition b_find_desc (cfg : bcfg) (s : bstate) (k : Z) : bstate * bool :=
  if bcount s =? 0 then (s, false)
  else
    let '(s1, r) := find_finish (cL cfg) s (find_desc_loop (fuel_of s) s k (broot s) 0 0) in
    (load_current s1, r).

Definition b_first (cfg : bcfg) (s : bstate) : bstate * bool :=
  if bcount s =? 0 then (s, false)
  else let '(s1, r) := move_to_first s (broot s) in (load_current s1, r).

Definition b_last (cfg : bcfg) (s : bstate) : bstate * bool :=
  if bcount s =? 0 then (s, false)
  else let '(s1, r) := move_to_last s (broot s) in (load_current s1, r).

Definition b_next (cfg : bcfg) (s : bstate) : bstate * bool :=
  if (bcount s =? 0) || negb (is_selected s) then (s, false)
  else match getn s (bcur_node s) with
       | None => (s, false)
       | Some n =>
           if ncount n <=? bcur_idx s then (s, false)
           else let '(s1, r) := move_to_next (cL cfg) s (bcur_node s) in (load_current s1, r)
       end.

Definition b_prev (cfg : bcfg) (s : bstate) : bstate * bool :=
  if (bcount s =? 0) || negb (is_selected s) then (s, false)
  else match getn s (bcur_node s) with
       | None => (s, false)
       | Some n =>
           if ncount n <=? bcur_idx s then (s, false)
           else let '(s1, r) := move_to_previous (cL cfg) s (bcur_node s) in (load_current s1, r)
       end.

Definition b_reject (s : bstate) : result := mkRes false (if bcached s then EErr else EPanic) [].

(* UpdateCurrentItem (v = Some) / UpdateCurrentKey (v = None) *)
Definition b_update_current (s : bstate) (k : Z) (v : option Z) : bstate * result :=
  if N.eqb (bcur_node s) 0 then (s, ok_res false)
  else match getn s (bcur_node s) with
       | None => (s, ok_res false)
       | Some n =>
           if ncount n <=? bcur_idx s then (s, ok_res false)
           else
             let x := slot n (bcur_idx s) in
             if negb (ikey x =? k) then (s, b_reject s)
             else match v with
                  | Some v' => (putn s (bcur_node s) (set_slots n (zset (nslots n) (bcur_idx s) (mkItem (iid x) k v'))), ok_res true)
                  | None => (s, ok_res true)
                  end
       end.

Definition b_update_current_value (s : bstate) (v : Z) : bstate * result :=
  if N.eqb (bcur_node s) 0 then (s, ok_res false)
  else match getn s (bcur_node s) with
       | None => (s, ok_res false)
       | Some n =>
           if ncount n <=? bcur_idx s then (s, ok_res false)
           else
             let x := slot n (bcur_idx s) in
             (putn s (bcur_node s) (set_slots n (zset (nslots n) (bcur_idx s) (mkItem (iid x) (ikey x) v))), ok_res true)
       end.

(* unlink *)
Definition unlink (L : Z) (s : bstate) (id : N) (n : node) : bstate :=
  match getn s (nparent n) with
  | None => s
  | Some p =>
      if negb (has_children p) then s
      else
        let i := index_of_child L p id in
        let p1 := set_children p (match nchildren p with Some ch => Some (zset ch i 0%N) | None => None end) in
        let p2 := if is_nil_children p1 then set_children p1 None else p1 in
        deln (putn s (nparent n) p2) id
  end.

(* promoteSingleChildAsParentChild *)
Definition promote_single_child (L : Z) (s : bstate) (id : N) (n : node) : bstate * bool :=
  match getn s (nparent n) with
  | None => (s, false)
  | Some p =>
      let ion := index_of_child L p id in
      let c0 := child_id n 0 in
      let p' := set_children p (match nchildren p with Some ch => Some (zset ch ion c0) | None => None end) in
      let s1 := putn s (nparent n) p' in
      match getn s1 c0 with
      | None => (s1, false)
      | Some nc => (deln (putn s1 c0 (set_parent nc (nparent n))) id, true)
      end
  end.

(* removeItemOnNodeWithNilChild *)
Definition remove_on_nil_child (L : Z) (s : bstate) (id : N) (n : node) (index : Z) : bstate * bool :=
  if negb (has_children n) || (negb (N.eqb (child_id n index) 0) && negb (N.eqb (child_id n (index + 1)) 0))
  then (s, false)
  else
    let ch := match nchildren n with Some c => c | None => [] end in
    let cnt := ncount n in
    let '(sl, ch') :=
      if N.eqb (child_id n index) 0 then
        if index <? cnt then (move_elems (nslots n) index (index + 1) (cnt - index),
                              move_elems ch index (index + 1) (cnt - index + 1))
        else (nslots n, ch)
      else
        if index <? cnt then (move_elems (nslots n) index (index + 1) (cnt - index),
                              move_elems ch (index + 1) (index + 2) (cnt - index + 1))
        else (nslots n, ch) in
    let sl := zset sl (cnt - 1) zero_item in
    let ch' := zset ch' cnt 0%N in
    let n1 := mkNode (nparent n) sl (cnt - 1) (Some ch') in
    let s1 := putn s id n1 in
    if (ncount n1 =? 0) && negb (N.eqb (child_id n1 0) 0) then
      if is_root n1 then
        match getn s1 (child_id n1 0) with
        | None => (s1, false)
        | Some nc =>
            let cid := child_id n1 0 in
            if has_children nc then
              let n2 := mkNode (nparent n1) (nslots nc) (ncount nc) (nchildren nc) in
              let s2 := putn s1 id n2 in
              let s3 := update_children_parent s2 id n2 in
              (deln s3 cid, true)
            else
              let n2 := mkNode (nparent n1) (nslots nc) (ncount nc) (Some (zset ch' 0 0%N)) in
              let n3 := if is_nil_children n2 then set_children n2 None else n2 in
              (deln (putn s1 id n3) cid, true)
        end
      else promote_single_child L s1 id n1
    else if ncount n1 =? 0 then (unlink L s1 id n1, true)
    else (s1, true).

(* fixVacatedSlot *)
Definition fix_vacated_slot (L : Z) (s : bstate) (id : N) (n : node) : bstate :=
  let position := bcur_idx s in
  if 1 <? ncount n then
    let sl := if position <? ncount n - 1
              then move_elems (nslots n) position (position + 1) (ncount n - position - 1)
              else nslots n in
    let c := ncount n - 1 in
    putn s id (mkNode (nparent n) (zset sl c zero_item) c (nchildren n))
  else if is_root n then
    set_current (putn s id (mkNode (nparent n) (zset (nslots n) 0 zero_item) 0 (nchildren n))) 0 0
  else if negb (is_nil_children n) then fst (promote_single_child L s id n)
  else unlink L s id n.

Definition b_remove_current (cfg : bcfg) (s : bstate) : bstate * bool :=
  let L := cL cfg in
  if N.eqb (bcur_node s) 0 then (s, false)
  else match getn s (bcur_node s) with
       | None => (s, false)
       | Some n =>
           if ncount n <=? bcur_idx s then (s, false)
           else if N.eqb (iid (slot n (bcur_idx s))) 0 then (s, false)
           else
             let id := bcur_node s in
             let done (st : bstate) := (with_count (set_current st 0 0) (bcount st - 1), true) in
             if has_children n then
               let index := bcur_idx s in
               let '(s1, ok) := remove_on_nil_child L s id n index in
               if ok then done s1
               else
                 let '(s2, ok2) := move_to_next L s1 id in
                 if negb ok2 then (s2, false)
                 else match getn s2 (bcur_node s2), getn s2 id with
                      | Some cn, Some n2 =>
                          let cid := bcur_node s2 in
                          let s3 := putn s2 id (set_slots n2 (zset (nslots n2) index (slot cn (bcur_idx s2)))) in
                          (* the successor may live in the node just changed *)
                          match getn s3 cid with
                          | None => (s3, false)
                          | Some cn3 =>
                              let '(s4, ok4) := remove_on_nil_child L s3 cid cn3 (bcur_idx s3) in
                              if ok4 then done s4
                              else done (fix_vacated_slot L s4 cid cn3)
                          end
                      | _, _ => (s2, false)
                      end
             else done (fix_vacated_slot L s id n)
       end.

Definition b_get_current (s : bstate) (full : bool) : bstate * result :=
  let s1 := load_current s in
  if N.eqb (bcur_node s) 0 then (s1, mkRes true ENone [zero_item])
  else let x := cursor_item s in
       (s1, mkRes true ENone [if full then x else mkItem 0%N 0 (ival x)]).

(* FindWithID: Find(key,true) then Next until the id matches *)
Fixpoint find_id_loop (fuel : nat) (cfg : bcfg) (s : bstate) (id : N) : bstate * bool :=
  match fuel with
  | O => (s, false)
  | S f =>
      let s1 := load_current s in
      if N.eqb (iid (cursor_item s1)) id then (s1, true)
      else let '(s2, ok) := b_next cfg s1 in
           if ok then find_id_loop f cfg s2 id else (s2, false)
  end.

(* inmemory Range *)
Fixpoint range_skip (fuel : nat) (cfg : bcfg) (s : bstate) (from : Z) : bstate * bool :=
  match fuel with
  | O => (s, false)
  | S f =>
      if ikey (bcurrent_key s) <? from then
        let '(s1, ok) := b_next cfg s in
        if ok then range_skip f cfg s1 from else (s1, false)
      else (s, true)
  end.

Fixpoint range_collect (fuel : nat) (cfg : bcfg) (s : bstate) (to : Z) (acc : list item) : bstate * list item :=
  match fuel with
  | O => (s, rev acc)
  | S f =>
      let k := ikey (bcurrent_key s) in
      if to <? k then (s, rev acc)
      else
        let '(s1, r) := b_get_current s false in
        let v := match rout r with x :: _ => ival x | [] => 0 end in
        let '(s2, ok) := b_next cfg s1 in
        if ok then range_collect f cfg s2 to (mkItem 0%N k v :: acc)
        else (s2, rev (mkItem 0%N k v :: acc))
  end.

Definition b_range (cfg : bcfg) (s : bstate) (from to : Z) : bstate * result :=
  let fuel := S (S (Z.to_nat (bcount s))) in
  let '(s1, found) := b_find cfg s from true in
  if found then let '(s2, out) := range_collect fuel cfg s1 to [] in (s2, mkRes true ENone out)
  else if N.eqb (iid (bcurrent_key s1)) 0 then (s1, mkRes true ENone [])
  else
    let '(s2, ok) := range_skip fuel cfg s1 from in
    if ok then let '(s3, out) := range_collect fuel cfg s2 to [] in (s3, mkRes true ENone out)
    else (s2, mkRes true ENone []).

Fixpoint range_skip_desc (fuel : nat) (cfg : bcfg) (s : bstate) (from : Z) : bstate * bool :=
  match fuel with
  | O => (s, false)
  | S f =>
      if from <? ikey (bcurrent_key s) then
        let '(s1, ok) := b_prev cfg s in
        if ok then range_skip_desc f cfg s1 from else (s1, false)
      else (s, true)
  end.

Fixpoint range_collect_desc (fuel : nat) (cfg : bcfg) (s : bstate) (to : Z) (acc : list item) : bstate * list item :=
  match fuel with
  | O => (s, rev acc)
  | S f =>
      let k := ikey (bcurrent_key s) in
      if k <? to then (s, rev acc)
      else
        let '(s1, r) := b_get_current s false in
        let v := match rout r with x :: _ => ival x | [] => 0 end in
        let '(s2, ok) := b_prev cfg s1 in
        if ok then range_collect_desc f cfg s2 to (mkItem 0%N k v :: acc)
        else (s2, rev (mkItem 0%N k v :: acc))
  end.

Definition b_range_desc (cfg : bcfg) (s : bstate) (from to : Z) : bstate * result :=
  let fuel := S (S (Z.to_nat (bcount s))) in
  let '(s1, found) := b_find_desc cfg s from in
  if found then let '(s2, out) := range_collect_desc fuel cfg s1 to [] in (s2, mkRes true ENone out)
  else if N.eqb (iid (bcurrent_key s1)) 0 then (s1, mkRes true ENone [])
  else
    let '(s2, ok) := range_skip_desc fuel cfg s1 from in
    if ok then let '(s3, out) := range_collect_desc fuel cfg s2 to [] in (s3, mkRes true ENone out)
    else (s2, mkRes true ENone []).

Definition bres (p : bstate * bool) : bstate * result := (fst p, ok_res (snd p)).

Definition b_update (cfg : bcfg) (s : bstate) (k : Z) (v : option Z) : bstate * result :=
  let '(s1, ok) := b_find cfg s k false in
  if ok then b_update_current s1 k v else (s1, ok_res false).

Definition bstep (cfg : bcfg) (s : bstate) (o : op) : bstate * result :=
  match o with
  | OAdd k v => bres (b_add cfg (cunique cfg) s k v)
  | OAddIfNotExist k v => bres (b_add cfg true s k v)
  | OUpsert k v =>
      let '(s1, ok) := b_add cfg true s k v in
      if ok then (s1, ok_res true) else b_update cfg s1 k (Some v)
  | OUpdate k v => b_update cfg s k (Some v)
  | OUpdateKey k => b_update cfg s k None
  | OUpdateCurrentItem k v => b_update_current s k (Some v)
  | OUpdateCurrentValue v => b_update_current_value s v
  | OUpdateCurrentKey k => b_update_current s k None
  | ORemove k =>
      let '(s1, ok) := b_find cfg s k false in
      if ok then bres (b_remove_current cfg s1) else (s1, ok_res false)
  | ORemoveCurrent => bres (b_remove_current cfg s)
  | OFirst => bres (b_first cfg s)
  | OLast => bres (b_last cfg s)
  | ONext => bres (b_next cfg s)
  | OPrev => bres (b_prev cfg s)
  | OFind k first => bres (b_find cfg s k first)
  | OFindDesc k => bres (b_find_desc cfg s k)
  | OFindWithID k id =>
      let '(s1, ok) := b_find cfg s k true in
      if ok then bres (find_id_loop (S (S (Z.to_nat (bcount s)))) cfg s1 id) else (s1, ok_res false)
  | OGetCurrentValue => b_get_current s false
  | OGetCurrentItem => b_get_current s true
  | ORange from to => b_range cfg s from to
  | ORangeDesc from to => b_range_desc cfg s from to
  end.

Fixpoint brun (cfg : bcfg) (s : bstate) (ops : list op) : bstate * list result :=
  match ops with
  | [] => (s, [])
  | o :: r => let '(s1, x) := bstep cfg s o in
              let '(s2, xs) := brun cfg s1 r in (s2, x :: xs)
  end.

(* in-order walk of the node structure (nil children skipped) *)
Fixpoint inorder (fuel : nat) (m : nodemap) (id : N) : list item :=
  match fuel with
  | O => []
  | S f =>
      if N.eqb id 0 then [] else
      match nm_get m id with
      | None => []
      | Some n =>
          let cnt := Z.to_nat (ncount n) in
          flat_map (fun i =>
                      (match nchildren n with
                       | Some ch => inorder f m (nth i ch 0%N)
                       | None => []
                       end)
                      ++ (if Nat.ltb i cnt then [nth i (nslots n) zero_item] else []))
                   (seq 0 (S cnt))
      end
  end.

Definition b_inorder (s : bstate) : list item := inorder (fuel_of s) (bnodes s) (broot s).

(* BtreeWF — decidable structural well-formedness of a node-level state: the invariant
   the refinement proof by induction needs.  Definitions only.  It is checked on every
   state the correspondence harness reaches (Corr/C17.v, load balancing off) and on every
   state of the bounded explorations. *)
From Coq Require Import List ZArith NArith Bool.
From SopVerif Require Import OMap Btree.
Import ListNotations.
Local Open Scope Z_scope.

Fixpoint nodup_N (l : list N) : bool :=
  match l with
  | [] => true
  | x :: r => negb (existsb (N.eqb x) r) && nodup_N r
  end.

(* one node: array shapes, count bounds, occupied slots carry an id, emptied slots are zero,
   child pointers beyond Count are nil (a child array may be all nil: the code leaves such arrays behind) *)
Definition wf_node (L : Z) (root : N) (id : N) (n : node) : bool :=
  Z.eqb (Z.of_nat (length (nslots n))) L
  && (0 <=? ncount n) && (ncount n <=? L)
  && (N.eqb id root || (1 <=? ncount n))
  && forallb (fun i => let x := nth i (nslots n) zero_item in
                       if Z.of_nat i <? ncount n then negb (N.eqb (iid x) 0) else item_eqb x zero_item)
             (seq 0 (Z.to_nat L))
  && match nchildren n with
     | None => true
     | Some ch =>
         Z.eqb (Z.of_nat (length ch)) (L + 1)
         && forallb (fun i => (Z.of_nat i <=? ncount n) || N.eqb (nth i ch 0%N) 0) (seq 0 (Z.to_nat (L + 1)))
     end.

(* links: every non-nil child exists and names this node as its parent *)
Definition wf_links (m : nodemap) (id : N) (n : node) : bool :=
  match nchildren n with
  | None => true
  | Some ch => forallb (fun c => N.eqb c 0 ||
                                 match nm_get m c with
                                 | Some cn => N.eqb (nparent cn) id
                                 | None => false
                                 end) ch
  end.

(* number of nodes an in-order walk visits (to exclude unreachable nodes) *)
Fixpoint reach (fuel : nat) (m : nodemap) (id : N) : list N :=
  match fuel with
  | O => []
  | S f =>
      if N.eqb id 0 then [] else
      match nm_get m id with
      | None => []
      | Some n => id :: match nchildren n with
                        | Some ch => flat_map (reach f m) ch
                        | None => []
                        end
      end
  end.

Definition wfb (cfg : bcfg) (b : bstate) : bool :=
  let m := bnodes b in
  let L := cL cfg in
  nodup_N (map fst m) && negb (existsb (fun p => N.eqb (fst p) 0) m)
  && forallb (fun p => wf_node L (broot b) (fst p) (snd p) && wf_links m (fst p) (snd p)) m
  && match m with
     | [] => Z.eqb (bcount b) 0
     | _ => match nm_get m (broot b) with
            | Some r => N.eqb (nparent r) 0 && ((bcount b =? 0) || (1 <=? ncount r))
            | None => false
            end
     end
  && (let rs := reach (S (length m)) m (broot b) in
      nodup_N rs && Nat.eqb (length rs) (length m))
  && sortedb (b_inorder b)
  && Z.eqb (bcount b) (Z.of_nat (length (b_inorder b)))
  && nodup_N (map iid (b_inorder b))
  && (N.eqb (bcur_node b) 0 || match nm_get m (bcur_node b) with Some _ => true | None => false end)
  && forallb (fun p => N.ltb (fst p) (bnext_nid b)) m
  && forallb (fun x => N.ltb (iid x) (bnext_iid b)) (b_inorder b).

(* every state along a run is well-formed *)
Fixpoint run_wf (cfg : bcfg) (b : bstate) (ops : list op) : bool :=
  wfb cfg b && match ops with
               | [] => true
               | o :: r => run_wf cfg (fst (bstep cfg b o)) r
               end.

Fixpoint explore_wf (cfg : bcfg) (alpha : list op) (n : nat) (b : bstate) : bool :=
  wfb cfg b && match n with
               | O => true
               | S n' => forallb (fun o => explore_wf cfg alpha n' (fst (bstep cfg b o))) alpha
               end.

(* Registry block I/O: checksum rule, copy-on-write backup, reader and writer of one
   4096-byte registry block.  Model of

     fs/marshaldata.go          marshalData, unmarshalData, isZeroData
     fs/hashmap.cow.go          createCow, checkCow, restoreFromCow, deleteCow
     fs/hashmap.fileregion.go   readAndRestoreBlock, writeBlockRegionPayload, updateFileBlockRegion
     fs/hashmap.go              the in-block part of findOneFileRegion (slot lookup)
     fs/registrymap.go          set / fetch for one id

   Definitions only (total, computable); lemmas are in BlockIOProofs.v.

   The state of one block is (bytes of the block region in the segment file, optional bytes of
   its <segment>_<offset>.cow file).  Every function takes the checksum function [crc] as an
   argument: the theorems quantify over it, the correspondence check instantiates it with
   [crc32] below (bitwise CRC-32/IEEE, compared with hash/crc32 by the harness on every case).

   [fx] selects the reader:  fx = false  is readAndRestoreBlock as it is in /repo (returns nil,
   i.e. hands the unverified buffer to its caller, when the checksum fails and checkCow finds
   nothing to restore);  fx = true  is the reader of fixes/C23-report-unverifiable-block.patch
   (returns an error in exactly that case).  [reader_in_repo] names the one the correspondence
   checks compare the implementation with. *)
From Coq Require Import List ZArith NArith Bool Arith.
From SopVerif Require Import Lib.Bytes Gen.Consts.
Import ListNotations.

Definition BSZ : nat := Z.to_nat blockSize.            (* 4096 *)
Definition DSZ : nat := (BSZ - 4)%nat.                 (* data area, followed by the CRC trailer *)
Definition HSZ : nat := Z.to_nat HandleSizeInBytes.    (* 62 *)
Definition NSLOT : nat := Z.to_nat handlesPerBlock.    (* 66 *)

Definition reader_in_repo : bool := false.

(* ---------------------------------------------------------------- CRC-32 (IEEE, reflected) *)
Definition crc_poly : N := 3988292384%N.               (* 0xEDB88320 *)
Definition crc_bit (c : N) : N :=
  if N.odd c then N.lxor (N.shiftr c 1) crc_poly else N.shiftr c 1.
Definition crc_byte (c b : N) : N :=
  let c := N.lxor c b in
  crc_bit (crc_bit (crc_bit (crc_bit (crc_bit (crc_bit (crc_bit (crc_bit c))))))).
Definition crc32 (data : list N) : N :=
  N.lxor (fold_left crc_byte data 4294967295%N) 4294967295%N.

(* ---------------------------------------------------------------- byte-list helpers *)
Fixpoint list_eqb (a b : list N) : bool :=
  match a, b with
  | [], [] => true
  | x :: a', y :: b' => N.eqb x y && list_eqb a' b'
  | _, _ => false
  end.
Definition is_zero (l : list N) : bool := forallb (N.eqb 0%N) l.
Definition zeros (n : nat) : list N := repeat 0%N n.
(* first k bytes of src written over dst: a write of src that stopped after k bytes *)
Definition mix (k : nat) (src dst : list N) : list N := firstn k src ++ skipn k dst.

(* every byte comes from a or from b *)
Inductive mixture : list N -> list N -> list N -> Prop :=
| mx_nil : mixture [] [] []
| mx_a x y m a b : mixture m a b -> mixture (x :: m) (x :: a) (y :: b)
| mx_b x y m a b : mixture m a b -> mixture (y :: m) (x :: a) (y :: b).

(* ---------------------------------------------------------------- marshaldata.go *)
(* unmarshalData: len >= 4, and all-zero (sparse block) or CRC trailer matches *)
Definition valid (crc : list N -> N) (b : list N) : bool :=
  (4 <=? length b)%nat &&
  (is_zero b ||
   N.eqb (crc (firstn (length b - 4) b) mod 4294967296)%N (le_val (skipn (length b - 4) b))).
(* marshalData(block[:len-4], block) *)
Definition marshal (crc : list N -> N) (data : list N) : list N :=
  if is_zero data then data ++ [0; 0; 0; 0]%N else data ++ le_bytes 4 (crc data mod 4294967296)%N.

(* the assumption about the checksum, per pair of blocks: a byte-wise mixture of a and b that
   passes the checksum rule is a or b *)
Definition detects (crc : list N -> N) (a b : list N) : Prop :=
  forall m, mixture m a b -> valid crc m = true -> m = a \/ m = b.

(* ---------------------------------------------------------------- disk state of one block *)
Record disk := mkDisk { blk : list N; cow : option (list N) }.

Inductive rerr := EEof | ECorrupt.
Inductive rres := ROk (buf : list N) | RErr (e : rerr).

(* hashmap.cow.go checkCow (+ the len(cowData)==0 early return of restoreFromCow) *)
Inductive cow_class := CowMissing | CowEmpty | CowWrongSize | CowBad | CowValid (c : list N).
Definition check_cow (crc : list N -> N) (c : option (list N)) : cow_class :=
  match c with
  | None => CowMissing
  | Some c =>
      if (length c =? 0)%nat then CowEmpty
      else if negb (length c =? BSZ)%nat then CowWrongSize
      else if valid crc c then CowValid c else CowBad
  end.
Definition cow_valid (crc : list N -> N) (c : option (list N)) : bool :=
  match check_cow crc c with CowValid _ => true | _ => false end.

(* hashmap.fileregion.go readAndRestoreBlock: new disk state and (buffer | error) *)
Definition read_restore (crc : list N -> N) (fx : bool) (d : disk) : disk * rres :=
  if negb (length (blk d) =? BSZ)%nat then (d, RErr EEof)
  else if valid crc (blk d) then (mkDisk (blk d) None, ROk (blk d))      (* stale cow deleted *)
  else match check_cow crc (cow d) with
       | CowValid c => (mkDisk c (cow d), ROk c)                          (* restoreFromCow *)
       | _ => (d, if fx then RErr ECorrupt else ROk (blk d))
       end.

(* the same through a hashmap opened read-only (readWrite=false: what every non-writing
   transaction uses; segment file opened O_RDONLY).  restoreFromCow copies the backup into the
   buffer, attempts the write-back, the write fails on the read-only handle and that failure is
   ignored: the restored image is RETURNED, the file is NOT repaired.  deleteCow of a stale backup
   is a plain file removal and still happens. *)
Definition read_restore_ro (crc : list N -> N) (fx : bool) (d : disk) : disk * rres :=
  if negb (length (blk d) =? BSZ)%nat then (d, RErr EEof)
  else if valid crc (blk d) then (mkDisk (blk d) None, ROk (blk d))
  else match check_cow crc (cow d) with
       | CowValid c => (d, ROk c)
       | _ => (d, if fx then RErr ECorrupt else ROk (blk d))
       end.

(* writeBlockRegionPayload: copy the 62-byte record into the buffer, re-checksum *)
Definition new_block (crc : list N -> N) (buf : list N) (off : nat) (data : list N) : list N :=
  marshal crc (splice (firstn DSZ buf) off data).

Inductive ures := UOk | UErr (e : rerr) | UFull.

(* updateFileBlockRegion (block lock held): read/restore, backup, write, remove backup *)
Definition update_block (crc : list N -> N) (fx : bool) (d : disk) (off : nat) (data : list N) : disk * ures :=
  match read_restore crc fx d with
  | (d1, RErr e) => (d1, UErr e)
  | (d1, ROk buf) => (mkDisk (new_block crc buf off data) None, UOk)
  end.

(* ---------------------------------------------------------------- crash points of one update *)
Inductive wpoint :=
| WP_restore (k : nat)   (* inside the restore write of the update's own read: k bytes of the backup written *)
| WP_cow (k : nat)       (* inside createCow: file created/truncated, k bytes written (0 = empty file) *)
| WP_block (k : nat)     (* backup complete; k bytes of the new block written (BSZ = before deleteCow) *)
| WP_done.               (* completed, backup removed *)

(* a process dies k bytes into the restore write of readAndRestoreBlock *)
Definition restore_crash (crc : list N -> N) (d : disk) (k : nat) : disk :=
  if (length (blk d) =? BSZ)%nat && negb (valid crc (blk d)) then
    match check_cow crc (cow d) with
    | CowValid c => mkDisk (mix k c (blk d)) (cow d)
    | _ => d
    end
  else d.

Definition crash_state (crc : list N -> N) (fx : bool) (d : disk) (off : nat) (data : list N) (p : wpoint) : disk :=
  match p with
  | WP_restore k => restore_crash crc d k
  | _ =>
      match read_restore crc fx d with
      | (d1, RErr _) => d1
      | (d1, ROk buf) =>
          let nb := new_block crc buf off data in
          match p with
          | WP_cow k => mkDisk (blk d1) (Some (firstn k buf))
          | WP_block k => mkDisk (mix k nb (blk d1)) (Some buf)
          | _ => mkDisk nb None
          end
      end
  end.

(* states from which recovery yields a or b: the block is a, or b, or any byte-wise mixture of
   the two with the backup holding a *)
Definition Rec (crc : list N -> N) (a b : list N) (d : disk) : Prop :=
  length a = BSZ /\ length b = BSZ /\ valid crc a = true /\ valid crc b = true /\
  (blk d = a \/ blk d = b \/ (mixture (blk d) a b /\ cow d = Some a)).

Definition slot_ok (off : nat) (data : list N) : Prop := (off + HSZ <= DSZ)%nat /\ length data = HSZ.

(* ---------------------------------------------------------------- a reader without the block lock *)
(* what a non-crashing writer (old -> new) makes visible over time *)
Inductive wphase :=
| Ph_start                (* before createCow; c0 = whatever backup file was lying around *)
| Ph_cow (j : nat)        (* backup file holds j bytes of old *)
| Ph_blk (k : nat)        (* backup complete, block holds k bytes of new *)
| Ph_done.                (* block new, backup removed *)
Definition phase_rank (p : wphase) : nat * nat :=
  match p with Ph_start => (0, 0) | Ph_cow j => (1, j) | Ph_blk k => (2, k) | Ph_done => (3, 0) end%nat.
Definition phase_le (p q : wphase) : bool :=
  let '(a, x) := phase_rank p in let '(b, y) := phase_rank q in
  (a <? b)%nat || ((a =? b)%nat && (x <=? y)%nat).
Definition disk_at (old : list N) (c0 : option (list N)) (new : list N) (ph : wphase) : disk :=
  match ph with
  | Ph_start => mkDisk old c0
  | Ph_cow j => mkDisk old (Some (firstn j old))
  | Ph_blk k => mkDisk (mix k new old) (Some old)
  | Ph_done => mkDisk new None
  end.
(* findOneFileRegion calls readAndRestoreBlock without the block lock: it reads the block while
   the writer is in phase p1 and looks at the backup (only if the checksum failed) in phase p2 *)
Definition conc_read (crc : list N -> N) (fx : bool) (old : list N) (c0 : option (list N)) (new : list N)
                     (p1 p2 : wphase) : rres :=
  let b := blk (disk_at old c0 new p1) in
  if valid crc b then ROk b
  else match check_cow crc (cow (disk_at old c0 new p2)) with
       | CowValid c => ROk c
       | _ => if fx then RErr ECorrupt else ROk b
       end.
(* the second step of that reader changes the disk: it removes the backup ("stale") when the
   block it read was valid, and writes the backup over the block otherwise *)
Definition reader_finish (crc : list N -> N) (b : list N) (d : disk) : disk :=
  if valid crc b then mkDisk (blk d) None
  else match check_cow crc (cow d) with
       | CowValid c => mkDisk c (cow d)
       | _ => d
       end.
(* the writer dies in phase pc; a reader that read the block in phase p1 finishes afterwards *)
Definition crash_with_reader (crc : list N -> N) (old : list N) (c0 : option (list N)) (new : list N)
                             (p1 pc : wphase) : disk :=
  reader_finish crc (blk (disk_at old c0 new p1)) (disk_at old c0 new pc).
(* a reader that read the block in phase p1 finishes when the block write is complete and the
   backup not yet removed; then the writer removes the backup and reports success *)
Definition writer_done_after_reader (crc : list N -> N) (old new : list N) (p1 : wphase) : disk :=
  mkDisk (blk (reader_finish crc (blk (disk_at old None new p1)) (disk_at old None new (Ph_blk BSZ)))) None.

(* ---------------------------------------------------------------- slot lookup inside a block *)
Definition slot_at (buf : list N) (off : nat) : list N := firstn HSZ (skipn off buf).
Definition lid_of (s : list N) : list N := firstn 16 s.
Definition slot_matches (buf id : list N) (off : nat) : bool :=
  let s := slot_at buf off in negb (is_zero s) && list_eqb (lid_of s) id.
(* findOneFileRegion(forWriting=false) within one block: ideal slot, then scan skipping it *)
Definition find_read (buf id : list N) (ideal : nat) : option (list N) :=
  if slot_matches buf id ideal then Some (slot_at buf ideal)
  else match find (fun i => negb (i * HSZ =? ideal)%nat && slot_matches buf id (i * HSZ)) (seq 0 NSLOT) with
       | Some i => Some (slot_at buf (i * HSZ))
       | None => None
       end.
(* findOneFileRegion(forWriting=true): empty ideal slot, matching ideal slot, else first slot that
   is empty or matches *)
Definition find_write (buf id : list N) (ideal : nat) : option nat :=
  if is_zero (slot_at buf ideal) || slot_matches buf id ideal then Some ideal
  else match find (fun i => negb (i * HSZ =? ideal)%nat &&
                            (is_zero (slot_at buf (i * HSZ)) || slot_matches buf id (i * HSZ))) (seq 0 NSLOT) with
       | Some i => Some (i * HSZ)%nat
       | None => None
       end.

Inductive gres := GFound (slot : list N) | GNotFound | GErr (e : rerr).
(* registry Get of one id whose table has a single segment file *)
Definition reg_get (crc : list N -> N) (fx : bool) (d : disk) (id : list N) (ideal : nat) : disk * gres :=
  match read_restore crc fx d with
  | (d1, RErr EEof) => (d1, GNotFound)
  | (d1, RErr e) => (d1, GErr e)
  | (d1, ROk buf) => (d1, match find_read buf id ideal with Some s => GFound s | None => GNotFound end)
  end.
(* registry Get through a read-only registry *)
Definition reg_get_ro (crc : list N -> N) (fx : bool) (d : disk) (id : list N) (ideal : nat) : disk * gres :=
  match read_restore_ro crc fx d with
  | (d1, RErr EEof) => (d1, GNotFound)
  | (d1, RErr e) => (d1, GErr e)
  | (d1, ROk buf) => (d1, match find_read buf id ideal with Some s => GFound s | None => GNotFound end)
  end.
(* registry Update of one id: findFileRegion (lock-free read), then updateFileBlockRegion *)
Definition reg_update (crc : list N -> N) (fx : bool) (d : disk) (id : list N) (ideal : nat) (data : list N) : disk * ures :=
  match read_restore crc fx d with
  | (d1, RErr e) => (d1, UErr e)
  | (d1, ROk buf) =>
      match find_write buf id ideal with
      | None => (d1, UFull)
      | Some off => update_block crc fx d1 off data
      end
  end.
(* the same update dying at point p of its updateFileBlockRegion *)
Definition reg_update_crash (crc : list N -> N) (fx : bool) (d : disk) (id : list N) (ideal : nat) (data : list N) (p : wpoint) : disk :=
  match p with
  | WP_restore k => restore_crash crc d k      (* the restore happens in the lock-free first read *)
  | _ =>
      match read_restore crc fx d with
      | (d1, RErr _) => d1
      | (d1, ROk buf) =>
          match find_write buf id ideal with
          | None => d1
          | Some off => crash_state crc fx d1 off data p
          end
      end
  end.

(* ---------------------------------------------------------------- compact files for cases_*.v *)
(* a file of n bytes, zero except for the listed (offset, bytes) segments *)
Definition file_of (n : N) (segs : list (N * list N)) : list N :=
  fold_left (fun b s => splice b (N.to_nat (fst s)) (snd s)) segs (zeros (N.to_nat n)).
Definition mkdisk_of (b : N * list (N * list N)) (c : option (N * list (N * list N))) : disk :=
  mkDisk (file_of (fst b) (snd b)) (match c with Some c => Some (file_of (fst c) (snd c)) | None => None end).
Definition disk_eqb (a b : disk) : bool :=
  list_eqb (blk a) (blk b) &&
  match cow a, cow b with
  | None, None => true
  | Some x, Some y => list_eqb x y
  | _, _ => false
  end.

(* C32: byte order, prefix scan and sort lemmas. *)
From Coq Require Import List ZArith NArith Bool Lia Sorted Permutation.
From SopVerif Require Import Search.
Import ListNotations.

Lemma beqb_eq a b : beqb a b = true <-> a = b.
Proof.
  revert b. induction a as [|x a IH]; destruct b as [|y b]; cbn; try (split; [discriminate|discriminate]); try tauto.
  rewrite andb_true_iff, N.eqb_eq, IH. split; [intros [-> ->]; reflexivity|intros H; inversion H; auto].
Qed.
Lemma beqb_refl a : beqb a a = true.
Proof. apply beqb_eq. reflexivity. Qed.

Lemma blt_nil_r k : blt k [] = false.
Proof. destruct k; reflexivity. Qed.

Lemma blt_irrefl k : blt k k = false.
Proof. induction k as [|x k IH]; [reflexivity|]. cbn. rewrite N.ltb_irrefl, N.eqb_refl. exact IH. Qed.

Ltac ncases a b :=
  destruct (N.ltb_spec a b); destruct (N.eqb_spec a b); try lia.

(* a key that has prefix p is not smaller than p *)
Lemma prefix_not_lt p : forall k, is_prefix p k = true -> blt k p = false.
Proof.
  induction p as [|a p IH]; intros k H; [apply blt_nil_r|].
  destruct k as [|b k]; [discriminate|]. cbn in *. apply andb_true_iff in H as [Hab Hp].
  apply N.eqb_eq in Hab. subst b. rewrite N.ltb_irrefl, N.eqb_refl. apply IH. exact Hp.
Qed.

(* the keys with prefix p form an interval that starts at p *)
Lemma prefix_convex p : forall k k', blt k p = false -> blt k' k = false -> is_prefix p k' = true -> is_prefix p k = true.
Proof.
  induction p as [|a p IH]; intros k k' H1 H2 H3; [reflexivity|].
  destruct k' as [|c k']; [discriminate|]. cbn in H3. apply andb_true_iff in H3 as [Hac Hp].
  apply N.eqb_eq in Hac. subst c.
  destruct k as [|b k]; [discriminate|]. cbn in *.
  ncases b a; try discriminate; ncases a b; try discriminate; subst.
  cbn. eapply IH; eauto.
Qed.

Lemma blt_ge_trans p : forall e e', blt e p = false -> blt e e' = true -> blt e' p = false.
Proof.
  induction p as [|a p IH]; intros e e' H1 H2; [apply blt_nil_r|].
  destruct e' as [|c e']; [rewrite blt_nil_r in H2; discriminate|].
  destruct e as [|b e]; [discriminate|]. cbn in *.
  ncases b a; try discriminate; ncases b c; try discriminate; ncases c a; try reflexivity; subst; try lia.
  eapply IH; eauto.
Qed.

Lemma blt_trans a : forall b c, blt a b = true -> blt b c = true -> blt a c = true.
Proof.
  induction a as [|x a IH]; intros b c H1 H2.
  - destruct b; [discriminate|]. destruct c; [rewrite blt_nil_r in H2; discriminate|reflexivity].
  - destruct b as [|y b]; [discriminate|]. destruct c as [|z c]; [discriminate|]. cbn in *.
    ncases x y; try discriminate; ncases y z; try discriminate; ncases x z; try reflexivity; subst; try lia.
    eapply IH; eauto.
Qed.

Lemma blt_total a : forall b, blt a b = false -> a <> b -> blt b a = true.
Proof.
  induction a as [|x a IH]; intros b H Hne.
  - destruct b; [congruence|discriminate].
  - destruct b as [|y b]; [reflexivity|]. cbn in *.
    ncases x y; try discriminate; ncases y x; try reflexivity; subst. apply IH; [assumption|congruence].
Qed.

(* ---------------------------------------------------------------- sorted postings *)
Definition klt (x y : bytes * Z) : Prop := blt (fst x) (fst y) = true.
Definition sorted (m : omap) : Prop := StronglySorted klt m.

Fixpoint take_while {A} (f : A -> bool) (l : list A) : list A :=
  match l with [] => [] | x :: r => if f x then x :: take_while f r else [] end.
Fixpoint drop_while {A} (f : A -> bool) (l : list A) : list A :=
  match l with [] => [] | x :: r => if f x then drop_while f r else l end.

Section Scan.
  Variable p : bytes.
  Let P (e : bytes * Z) : bool := is_prefix p (fst e).
  Let L (e : bytes * Z) : bool := blt (fst e) p.

  Lemma no_prefix_after e m : Forall (klt e) m -> L e = false -> P e = false -> filter P m = [].
  Proof.
    intros Hall He Pe. induction m as [|e' m IH]; [reflexivity|]. cbn.
    pose proof (Forall_inv Hall) as He'. pose proof (Forall_inv_tail Hall) as Hall'.
    destruct (P e') eqn:Pe'; [|apply IH; exact Hall'].
    exfalso. unfold P, L, klt in *.
    assert (H : blt (fst e') (fst e) = false).
    { destruct (blt (fst e') (fst e)) eqn:E; [|reflexivity].
      pose proof (blt_trans _ _ _ He' E) as Hc. rewrite blt_irrefl in Hc. discriminate. }
    rewrite (prefix_convex p (fst e) (fst e') He H Pe') in Pe. discriminate.
  Qed.

  Lemma take_filter_ge m : sorted m -> Forall (fun e => L e = false) m -> take_while P m = filter P m.
  Proof.
    induction m as [|e m IH]; intros Hs Hge; [reflexivity|].
    apply StronglySorted_inv in Hs as [Hs' Hall].
    pose proof (Forall_inv Hge) as He. pose proof (Forall_inv_tail Hge) as Hge'. cbn.
    destruct (P e) eqn:Pe; [rewrite (IH Hs' Hge'); reflexivity|].
    symmetry. apply (no_prefix_after e m Hall He Pe).
  Qed.

  (* in a sorted map the items smaller than p come first *)
  Lemma ge_after e m : Forall (klt e) m -> L e = false -> Forall (fun x => L x = false) m.
  Proof.
    intros Hall He. induction m as [|e' m IH]; constructor.
    - unfold L, klt in *. eapply blt_ge_trans; [exact He|]. exact (Forall_inv Hall).
    - apply IH. exact (Forall_inv_tail Hall).
  Qed.

  Lemma drop_ge m : sorted m -> Forall (fun x => L x = false) (drop_while L m) /\ sorted (drop_while L m).
  Proof.
    induction m as [|e m IH]; intros Hs; [split; constructor|].
    pose proof Hs as Hs0. apply StronglySorted_inv in Hs as [Hs' Hall]. cbn.
    destruct (L e) eqn:Le; [apply IH; exact Hs'|].
    split; [constructor; [exact Le|apply (ge_after e m Hall Le)]|exact Hs0].
  Qed.

  Lemma filter_drop m : filter P (drop_while L m) = filter P m.
  Proof.
    induction m as [|e m IH]; [reflexivity|]. cbn. destruct (L e) eqn:Le; [|reflexivity].
    rewrite IH. destruct (P e) eqn:Pe; [|reflexivity].
    unfold P, L in *. rewrite (prefix_not_lt p _ Pe) in Le. discriminate.
  Qed.

  (* the prefix scan: skip what is smaller than p, take while the prefix matches = all items with the prefix *)
  Lemma scan_exact m : sorted m -> take_while P (drop_while L m) = filter P m.
  Proof.
    intros Hs. destruct (drop_ge m Hs) as [Hge Hs']. rewrite take_filter_ge by assumption. apply filter_drop.
  Qed.

  Lemma filter_lt_take m : sorted m -> filter L m = take_while L m.
  Proof.
    induction m as [|e m IH]; intros Hs; [reflexivity|].
    apply StronglySorted_inv in Hs as [Hs' Hall]. cbn.
    destruct (L e) eqn:Le; [rewrite IH by assumption; reflexivity|].
    pose proof (ge_after e m Hall Le) as Hge. clear -Hge.
    induction m as [|x m IH]; [reflexivity|]. cbn. rewrite (Forall_inv Hge). apply IH. exact (Forall_inv_tail Hge).
  Qed.

  Lemma take_drop_app {A} (f : A -> bool) l : take_while f l ++ drop_while f l = l.
  Proof. induction l as [|x l IH]; [reflexivity|]. cbn. destruct (f x); [cbn; rewrite IH|]; reflexivity. Qed.

  Lemma skipn_nlt m : sorted m -> skipn (n_lt p m) m = drop_while L m /\ firstn (n_lt p m) m = take_while L m.
  Proof.
    intros Hs. unfold n_lt. change (fun e : bytes * Z => blt (fst e) p) with L.
    rewrite (filter_lt_take m Hs).
    pose proof (take_drop_app L m) as E.
    set (tk := take_while L m) in *. set (dk := drop_while L m) in *.
    rewrite <- E. split.
    - rewrite skipn_app, skipn_all, Nat.sub_diag. reflexivity.
    - rewrite firstn_app, firstn_all, Nat.sub_diag. cbn. rewrite app_nil_r. reflexivity.
  Qed.
End Scan.

(* ---------------------------------------------------------------- the cursor loop of Index.Search *)
Lemma skipn_nth {A} (m : list A) : forall i, skipn i m = match nth_error m i with Some x => x :: skipn (S i) m | None => [] end.
Proof.
  induction m as [|x m IH]; intros i; destruct i; cbn; try reflexivity. apply IH.
Qed.

Lemma take_while_all {A} (f : A -> bool) l : Forall (fun x => f x = true) (take_while f l).
Proof. induction l as [|x l IH]; cbn; [constructor|]. destruct (f x) eqn:E; constructor; assumption. Qed.

Definition strip (p : bytes) (e : bytes * Z) : bytes * Z := (skipn (length p) (fst e), snd e).

Lemma scan_loop_spec p m : forall fuel i emit, (length m - i <= fuel)%nat ->
  scan_loop fuel p m i emit = emit ++ map (strip p) (take_while (fun e => is_prefix p (fst e)) (skipn i m)).
Proof.
  induction fuel as [|fuel IH]; intros i emit Hf.
  - cbn. rewrite skipn_all2 by lia. cbn. rewrite app_nil_r. reflexivity.
  - cbn. rewrite (skipn_nth m i). destruct (nth_error m i) as [[k f]|] eqn:E; [|cbn; rewrite app_nil_r; reflexivity].
    cbn. destruct (is_prefix p k) eqn:Pk; [|cbn; rewrite app_nil_r; reflexivity].
    assert (i < length m)%nat by (apply nth_error_Some; congruence).
    rewrite IH by lia. cbn. rewrite <- app_assoc. reflexivity.
Qed.

Theorem scan_term_exact o t m : sorted m ->
  scan_term o t m = map (strip (t ++ [bar])) (filter (fun e => is_prefix (t ++ [bar]) (fst e)) m).
Proof.
  intros Hs. unfold scan_term. set (p := t ++ [bar]).
  destruct m as [|e0 m0] eqn:Em; [reflexivity|]. rewrite <- Em in *. clear e0 m0 Em.
  pose proof (skipn_nlt p m Hs) as [Hsk Hfi].
  pose proof (scan_exact p m Hs) as Hex.
  pose proof (drop_ge p m Hs) as [Hge _].
  assert (Hfrom : scan_loop (length m) p m (n_lt p m) [] = map (strip p) (filter (fun e => is_prefix p (fst e)) m)).
  { rewrite scan_loop_spec by lia. cbn. rewrite Hsk, Hex. reflexivity. }
  assert (Hn : (n_lt p m <= length m)%nat).
  { unfold n_lt. generalize (fun e : bytes * Z => blt (fst e) p). intros g. clear.
    induction m as [|x m IH]; cbn; [lia|]. destruct (g x); cbn; lia. }
  assert (Hlt : forall i k f, (i < n_lt p m)%nat -> nth_error m i = Some (k, f) -> blt k p = true).
  { intros i k f Hi Hnth.
    assert (Hin : In (k, f) (firstn (n_lt p m) m)).
    { rewrite <- (firstn_skipn (n_lt p m) m) in Hnth. rewrite nth_error_app1 in Hnth by (rewrite firstn_length; lia).
      eapply nth_error_In; eauto. }
    rewrite Hfi in Hin. pose proof (take_while_all (fun e => blt (fst e) p) m) as Hall.
    rewrite Forall_forall in Hall. apply (Hall _ Hin). }
  assert (Hat : forall k f, nth_error m (n_lt p m) = Some (k, f) -> blt k p = false).
  { intros k f Hnth. rewrite (skipn_nth m (n_lt p m)), Hnth in Hsk. rewrite <- Hsk in Hge.
    exact (Forall_inv Hge). }
  assert (Hend : (length m <= n_lt p m)%nat -> map (strip p) (filter (fun e => is_prefix p (fst e)) m) = []).
  { intros Hle. rewrite <- Hex, <- Hsk, skipn_all2 by lia. reflexivity. }
  destruct (om_find p m); [exact Hfrom|].
  unfold cursor_on_miss.
  assert (Hpred : (0 < n_lt p m)%nat ->
    match nth_error m (n_lt p m - 1) with
    | Some (k, _) => if blt k p then if Nat.ltb (S (n_lt p m - 1)) (length m) then scan_loop (length m) p m (S (n_lt p m - 1)) [] else []
                     else scan_loop (length m) p m (n_lt p m - 1) []
    | None => []
    end = map (strip p) (filter (fun e => is_prefix p (fst e)) m)).
  { intros Hpos. destruct (nth_error m (n_lt p m - 1)) as [[k f]|] eqn:E.
    - assert (Hi : (n_lt p m - 1 < n_lt p m)%nat) by lia. rewrite (Hlt _ k f Hi E). replace (S (n_lt p m - 1)) with (n_lt p m) by lia.
      destruct (Nat.ltb_spec (n_lt p m) (length m)); [exact Hfrom|symmetry; apply Hend; lia].
    - apply nth_error_None in E. symmetry. apply Hend. lia. }
  destruct (o && Nat.ltb 0 (n_lt p m))%bool eqn:Eo.
  - apply andb_true_iff in Eo as [_ Hpos]. apply Nat.ltb_lt in Hpos. apply Hpred. exact Hpos.
  - destruct (Nat.ltb_spec (n_lt p m) (length m)) as [Hl|Hl].
    + destruct (nth_error m (n_lt p m)) as [[k f]|] eqn:E.
      * rewrite (Hat k f eq_refl). exact Hfrom.
      * apply nth_error_None in E. lia.
    + destruct (n_lt p m) eqn:En.
      * (* length m = 0 *) destruct m; [reflexivity|cbn in Hl; lia].
      * rewrite <- En in *. apply Hpred. lia.
Qed.

(* ---------------------------------------------------------------- posting keys "term|docID" *)
Lemma is_prefix_cons a p b k : is_prefix (a :: p) (b :: k) = (N.eqb a b && is_prefix p k)%bool.
Proof. reflexivity. Qed.

Lemma prefix_pkey t : forall t' d, ~ In bar t -> ~ In bar t' ->
  (is_prefix (t ++ [bar]) (pkey t' d) = true <-> t = t').
Proof.
  unfold pkey. induction t as [|a t IH]; intros t' d Ht Ht'.
  - destruct t' as [|x t']; rewrite <- ?app_comm_cons, ?app_nil_l, is_prefix_cons.
    + rewrite N.eqb_refl. cbn. tauto.
    + assert (x <> bar) by (intros ->; apply Ht'; left; reflexivity).
      destruct (N.eqb_spec bar x); [congruence|]. cbn. split; discriminate.
  - assert (a <> bar) by (intros ->; apply Ht; left; reflexivity).
    destruct t' as [|x t']; rewrite <- ?app_comm_cons, ?app_nil_l, is_prefix_cons.
    + destruct (N.eqb_spec a bar); [congruence|]. cbn. split; discriminate.
    + rewrite andb_true_iff, N.eqb_eq, (IH t' d); [|intros Hc; apply Ht; right; exact Hc|intros Hc; apply Ht'; right; exact Hc].
      split; [intros [-> ->]; reflexivity|intros E; inversion E; auto].
Qed.

Lemma strip_pkey t d : skipn (length (t ++ [bar])) (pkey t d) = d.
Proof. induction t as [|a t IH]; [reflexivity|exact IH]. Qed.

Definition wf_key (k : bytes) : Prop := exists t d, k = pkey t d /\ ~ In bar t.

(* per term: the scan yields exactly the (docID, frequency) of the postings of that term *)
Theorem term_hits_exact o t m d f : sorted m -> ~ In bar t -> Forall (fun e => wf_key (fst e)) m ->
  (In (d, f) (scan_term o t m) <-> In (pkey t d, f) m).
Proof.
  intros Hs Ht Hwf. rewrite (scan_term_exact o t m Hs), in_map_iff. rewrite Forall_forall in Hwf. split.
  - intros ([k f'] & E & Hin). apply filter_In in Hin as [Hin Hp]. cbn in *.
    pose proof (Hwf _ Hin) as W. cbn in W. destruct W as (t' & d' & Ek & Ht'). subst k. cbn in *.
    apply (prefix_pkey t t' d' Ht Ht') in Hp. subst t'. unfold strip in E. cbn in E.
    rewrite strip_pkey in E. inversion E; subst. exact Hin.
  - intros Hin. exists (pkey t d, f). split.
    + unfold strip. cbn. rewrite strip_pkey. reflexivity.
    + apply filter_In. split; [exact Hin|]. cbn. apply (prefix_pkey t t d Ht Ht). reflexivity.
Qed.

(* ---------------------------------------------------------------- accumulation: each document once *)
Lemma acc_add_ids d c h x : In x (map fst (acc_add d c h)) <-> x = d \/ In x (map fst h).
Proof.
  induction h as [|[d' cs] h IH]; cbn; [intuition|].
  destruct (beqb d d') eqn:E; cbn.
  - apply beqb_eq in E. subst. intuition.
  - rewrite IH. intuition.
Qed.

Lemma acc_add_nodup d c h : NoDup (map fst h) -> NoDup (map fst (acc_add d c h)).
Proof.
  induction h as [|[d' cs] h IH]; cbn; intros Hn.
  - constructor; [intros []|constructor].
  - inversion Hn as [|? ? Hni Hn']; subst. destruct (beqb d d') eqn:E; cbn.
    + constructor; assumption.
    + constructor; [|apply IH; exact Hn'].
      rewrite acc_add_ids. intros [->|Hin]; [rewrite beqb_refl in E; discriminate|contradiction].
Qed.

Lemma search_term_nodup o ix h t : NoDup (map fst h) -> NoDup (map fst (search_term o ix h t)).
Proof.
  unfold search_term. destruct (om_find t (term_stats ix)); [|auto].
  generalize (scan_term o t (postings ix)). intros l. revert h.
  induction l as [|x l IH]; intros h Hn; cbn; [exact Hn|]. apply IH. apply acc_add_nodup. exact Hn.
Qed.

Theorem search_each_once os ix q : NoDup (map fst (idx_search os ix q)).
Proof.
  unfold idx_search. destruct q as [|t0 q0]; [constructor|].
  destruct (Z.eqb (total_docs ix) 0); [constructor|].
  generalize (t0 :: q0). intros q. assert (Hn : NoDup (map fst (@nil (bytes * list contrib)))) by constructor.
  revert Hn. generalize (@nil (bytes * list contrib)). revert os.
  induction q as [|t q IH]; intros os h Hn; cbn; [exact Hn|]. apply IH. apply search_term_nodup. exact Hn.
Qed.

(* the ids a term adds to the hits are those of its scan *)
Lemma search_term_ids o ix h t x :
  In x (map fst (search_term o ix h t)) <->
  In x (map fst h) \/ (om_find t (term_stats ix) <> None /\ In x (map fst (scan_term o t (postings ix)))).
Proof.
  unfold search_term. destruct (om_find t (term_stats ix)) as [nq|]; [|intuition congruence].
  generalize (scan_term o t (postings ix)). intros l. revert h.
  induction l as [|y l IH]; intros h; cbn; [intuition|].
  rewrite IH, acc_add_ids. intuition (try congruence); subst; auto.
Qed.

(* ---------------------------------------------------------------- the final sort *)
Section SortProofs.
  Variable A : Type.
  Variable geb : A -> A -> bool.
  Hypothesis geb_total : forall a b, geb a b = true \/ geb b a = true.

  Lemma insert_perm x l : Permutation (insert_desc geb x l) (x :: l).
  Proof.
    induction l as [|y l IH]; cbn; [reflexivity|]. destruct (geb x y); [reflexivity|].
    rewrite IH. apply perm_swap.
  Qed.
  Lemma sort_perm l : Permutation (sort_desc geb l) l.
  Proof. induction l as [|x l IH]; cbn; [reflexivity|]. rewrite insert_perm, IH. reflexivity. Qed.

  Lemma insert_sorted x l : Sorted (fun a b => geb a b = true) l -> Sorted (fun a b => geb a b = true) (insert_desc geb x l).
  Proof.
    induction l as [|y l IH]; cbn; intros Hs; [repeat constructor|].
    destruct (geb x y) eqn:E; [constructor; [exact Hs|constructor; exact E]|].
    apply Sorted_inv in Hs as [Hs Hhd]. constructor; [apply IH; exact Hs|].
    destruct l as [|z l]; cbn.
    - constructor. destruct (geb_total x y); congruence.
    - destruct (geb x z); constructor; [destruct (geb_total x y); congruence|exact (HdRel_inv Hhd)].
  Qed.
  Lemma sort_sorted l : Sorted (fun a b => geb a b = true) (sort_desc geb l).
  Proof. induction l as [|x l IH]; cbn; [constructor|]. apply insert_sorted. exact IH. Qed.
End SortProofs.

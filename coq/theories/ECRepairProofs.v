(* Proofs about the repair loop of the EC model (C26). *)
From Coq Require Import List NArith Bool Arith Lia.
From SopVerif Require Import EC ECProofs.
Import ListNotations.

(* ------------------------------------------------------------------ the repair loop (C26) *)
Fixpoint patch (ks : list (option sdata)) (f : dshard) (disk : list dshard) : list dshard :=
  match ks, disk with
  | k :: kr, s :: r => (match k with None => f | Some _ => s end) :: patch kr f r
  | _, _ => disk
  end.

Lemma write_at_app pre f s r : write_at (length pre) f (pre ++ s :: r) = pre ++ f :: r.
Proof. induction pre as [|x pre IH]; cbn; [reflexivity|now rewrite IH]. Qed.

Lemma repair_patch ks f : forall pre disk, length ks = length disk ->
  repair (nil_positions (length pre) ks) never f (pre ++ disk) = pre ++ patch ks f disk.
Proof.
  induction ks as [|k kr IH]; intros pre disk Hl.
  - destruct disk; [reflexivity|discriminate].
  - destruct disk as [|s r]; [discriminate|]. cbn in Hl. injection Hl as Hl.
    destruct k as [x|]; cbn [nil_positions patch].
    + specialize (IH (pre ++ [s]) r Hl). rewrite app_length in IH. cbn [length] in IH. rewrite Nat.add_1_r in IH.
      rewrite <- !app_assoc in IH. cbn [app] in IH. exact IH.
    + cbn [repair].
      replace (if never (length pre) then pre ++ s :: r else write_at (length pre) f (pre ++ s :: r)) with (pre ++ f :: r)
        by (unfold never; now rewrite write_at_app).
      specialize (IH (pre ++ [f]) r Hl). rewrite app_length in IH. cbn [length] in IH. rewrite Nat.add_1_r in IH.
      rewrite <- !app_assoc in IH. cbn [app] in IH. exact IH.
Qed.

Lemma patch_length ks f disk : length (patch ks f disk) = length disk.
Proof. revert disk; induction ks as [|k kr IH]; intros [|s r]; cbn; try reflexivity. now rewrite IH. Qed.

Lemma sdata_eqb_eq a b : sdata_eqb a b = true -> a = b.
Proof. destruct a, b; cbn; try discriminate; try reflexivity. intros H. apply N.eqb_eq in H. now subst. Qed.

Lemma dshard_eqb_eq a b : dshard_eqb a b = true -> a = b.
Proof.
  destruct a as [|l1 p1 s1 d1], b as [|l2 p2 s2 d2]; cbn; try discriminate; [reflexivity|].
  intros H. apply andb_prop in H as [H H4]. apply andb_prop in H as [H H3]. apply andb_prop in H as [H1 H2].
  apply N.eqb_eq in H1, H2, H3. apply sdata_eqb_eq in H4. now subst.
Qed.

Section Repair.
  Variables (d p : nat) (size : N) (md5 : sdata -> N).
  Variable rs_verify : list (option sdata) -> bool.
  Variable rs_reconstruct : list (option sdata) -> option (list (option sdata)).
  Hypothesis Hd : 1 <= d.
  Hypothesis Hsize : (1 <= size)%N.
  Hypothesis HC : rs_contract d p rs_verify rs_reconstruct.
  Notation n := (d + p).
  Notation tp := (truepad d size).
  Notation gf := (good_file d size md5).
  Notation getOne := (getOne d size md5 rs_verify rs_reconstruct).
  Notation decode := (decode d size md5 rs_verify rs_reconstruct).
  Notation intact := (intact d size md5).
  Notation kept := (kept d size md5).
  Notation kept1 := (kept1 d size md5).

  Lemma decode_ok disk :
    length disk = n -> damaged d size md5 disk <= p -> md5_detects md5 disk -> first_pad_intact d size disk ->
    decode (map sv disk) (map mv disk) =
      Ok (repeat DGood d, tp, if rs_verify (map sv disk) then [] else nil_positions 0 (kept disk)).
  Proof.
    intros Hl Hdm Hm Hpad.
    pose proof (intact_count d p size md5 Hd Hsize disk Hl Hdm) as Hi.
    assert (Hr : forallb (fun s => negb (readable s)) disk = false) by (apply (some_readable d size md5 Hd Hsize); lia).
    assert (Hne : map sv disk <> []) by (destruct disk; [cbn in Hl; lia|discriminate]).
    rewrite (decode_unfold d size md5 rs_verify rs_reconstruct _ _ Hne).
    assert (Hfm : exists sum, first_meta (map mv disk) = Some (tp, sum)).
    { pose proof (first_meta_pad d size Hd Hsize disk) as E. destruct (first_meta (map mv disk)) as [[pad sum]|] eqn:Ef.
      - cbn in E. exists sum. now rewrite (Hpad pad (eq_sym E)).
      - rewrite (first_meta_none d size Hd Hsize disk Ef) in Hr. discriminate. }
    destruct Hfm as [sum Hfm].
    pose proof (truepad_lt d size Hd) as Htp.
    assert (Hfin : forall idx, finish d size (map mv disk) (repeat (Some DGood) n) idx = Ok (repeat DGood d, tp, idx)).
    { intros idx. rewrite (finish_good d p size Hd Hsize _ idx _ _ Hfm). destruct (N.of_nat d <=? tp)%N eqn:E; [apply N.leb_le in E; lia|reflexivity]. }
    destruct (rs_verify (map sv disk)) eqn:Hv.
    - assert (Hg : map sv disk = repeat (Some DGood) n).
      { apply (rs_V2 _ _ _ _ HC); [now rewrite map_length| |exact Hv]. pose proof (count_notgood_sv d size md5 Hd Hsize disk). lia. }
      cbn [bind]. rewrite Hg, Hfin. reflexivity.
    - rewrite (slow_path d p size md5 rs_verify rs_reconstruct HC disk Hl Hm Hv).
      pose proof (count_present_kept d size md5 Hd Hsize disk) as Hc.
      destruct (count_present (kept disk) <? d) eqn:Ec; [apply Nat.ltb_lt in Ec; lia|].
      cbn [bind]. rewrite Hfin. reflexivity.
  Qed.

  Lemma is_original_true : is_original d size (repeat DGood d) tp = true.
  Proof.
    unfold is_original. rewrite repeat_length, Nat.eqb_refl, N.eqb_refl, !andb_true_r.
    clear. induction d as [|k IH]; [reflexivity|exact IH].
  Qed.

  Lemma post_disk disk :
    length disk = n -> damaged d size md5 disk <= p -> md5_detects md5 disk -> first_pad_intact d size disk ->
    snd (getOne true never disk) = if rs_verify (map sv disk) then disk else patch (kept disk) gf disk.
  Proof.
    intros Hl Hdm Hm Hpad.
    pose proof (intact_count d p size md5 Hd Hsize disk Hl Hdm) as Hi.
    assert (Hr : forallb (fun s => negb (readable s)) disk = false) by (apply (some_readable d size md5 Hd Hsize); lia).
    unfold EC.getOne. rewrite (mapM_read d size Hd Hsize), !map_map.
    change (map (fun x => option_map snd (view x)) disk) with (map sv disk).
    change (map (fun x => option_map fst (view x)) disk) with (map mv disk).
    rewrite (all_nil_sv d size Hd Hsize), Hr, (decode_ok disk Hl Hdm Hm Hpad). cbn [snd].
    rewrite is_original_true. unfold fresh_file.
    destruct (rs_verify (map sv disk)); [reflexivity|].
    apply (repair_patch (kept disk) gf [] disk). unfold ECProofs.kept. now rewrite map_length.
  Qed.

  Lemma patch_intact disk : md5_detects md5 disk ->
    (forall s, In s disk -> intact s = true \/ data_damaged s = true) ->
    forall l, (forall s, In s l -> In s disk) -> forall s', In s' (patch (map kept1 l) gf l) -> intact s' = true.
  Proof.
    intros Hm Hmeta. induction l as [|s r IH]; intros Hsub s' Hin; [destruct Hin|].
    cbn [map patch] in Hin. destruct Hin as [<-|Hin].
    - destruct (kept1 s) as [x|] eqn:Ek; [|apply (good_file_intact d size md5 Hd Hsize)].
      assert (Hs : In s disk) by (apply Hsub; now left).
      rewrite (kept1_good d size md5 disk s x Hm Hs Ek) in Ek.
      pose proof (sv_good_not_dd s (kept1_sv d size md5 _ _ Ek)) as Hdd.
      destruct (Hmeta s Hs) as [H|H]; [exact H|congruence].
    - apply IH; [|exact Hin]. intros y Hy. apply Hsub. now right.
  Qed.

  (* C26_repair *)
  Lemma repair_restores disk :
    length disk = n -> damaged d size md5 disk <= p -> md5_detects md5 disk -> first_pad_intact d size disk ->
    (forall s, In s disk -> intact s = true \/ data_damaged s = true) ->
    fst (getOne true never disk) = Ok (original d size) /\
    length (snd (getOne true never disk)) = n /\
    (forall s', In s' (snd (getOne true never disk)) -> intact s' = true).
  Proof.
    intros Hl Hdm Hm Hpad Hmeta. split; [exact (read_ok d p size md5 rs_verify rs_reconstruct Hd Hsize HC true never disk Hl Hdm Hm Hpad)|].
    rewrite (post_disk disk Hl Hdm Hm Hpad).
    destruct (rs_verify (map sv disk)) eqn:Hv.
    - split; [exact Hl|]. intros s Hs.
      assert (Hg : map sv disk = repeat (Some DGood) n).
      { apply (rs_V2 _ _ _ _ HC); [now rewrite map_length| |exact Hv]. pose proof (count_notgood_sv d size md5 Hd Hsize disk). lia. }
      assert (Hsv : sv s = Some DGood) by (apply (repeat_spec n (Some DGood)); rewrite <- Hg; now apply in_map).
      destruct (Hmeta s Hs) as [H|H]; [exact H|]. rewrite (sv_good_not_dd s Hsv) in H. discriminate.
    - split; [now rewrite patch_length|]. intros s' Hin.
      apply (patch_intact disk Hm Hmeta disk (fun s H => H) s' Hin).
  Qed.

  (* damage counted against an all-intact disk *)
  Lemma damaged_le_diff a b : (forall s, In s a -> intact s = true) -> length a = length b ->
    damaged d size md5 b <= diff_count dshard_eqb a b.
  Proof.
    unfold damaged. revert b; induction a as [|x r IH]; intros [|y s] Hall Hl; try discriminate; [cbn; lia|].
    cbn in Hl. injection Hl as Hl. cbn [diff_count filter].
    assert (Hr : length (filter (fun s0 => negb (intact s0)) s) <= diff_count dshard_eqb r s)
      by (apply IH; [intros z Hz; apply Hall; now right|exact Hl]).
    destruct (dshard_eqb x y) eqn:E.
    - apply dshard_eqb_eq in E. subst y. rewrite (Hall x (or_introl eq_refl)). cbn. lia.
    - destruct (negb (intact y)); cbn [length]; lia.
  Qed.

  Lemma repaired_tolerates a b rep wf :
    (forall s, In s a -> intact s = true) -> length a = n -> length b = n ->
    diff_count dshard_eqb a b <= p -> md5_detects md5 b -> first_pad_intact d size b ->
    fst (getOne rep wf b) = Ok (original d size).
  Proof.
    intros Hall Ha Hb Hdiff Hm Hpad.
    apply (read_ok d p size md5 rs_verify rs_reconstruct Hd Hsize HC); try assumption.
    pose proof (damaged_le_diff a b Hall (eq_trans Ha (eq_sym Hb))). lia.
  Qed.
End Repair.

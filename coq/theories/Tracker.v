(* C19 model: common/itemactiontracker.go, itemactiontracker.valuedata.go and the
   B-tree glue around them (btree.Add / UpdateCurrentItem / RemoveCurrentItem /
   GetCurrentValue), plus the value-related part of Phase1Commit / Phase2Commit /
   Rollback.  Definitions only.

   What is modelled faithfully (found by reading the code and confirmed on the
   implementation, see design/C19.md):
   * Node slots are VALUES ([]Item): the tracker works on a copy of the item.
     - Add: the slot is written BEFORE tracker.Add runs, so nothing tracker.Add
       does to the item (Version++, Value=nil, ValueNeedsFetch) reaches the slot.
     - Update: the slot is written back AFTER tracker.Update, so what manage()
       does inside Update (actively persisted stores) does reach the slot.
     - Get: the tracker is handed a pointer to the real slot.
     - commitTrackedItemsValues (separate segment stores) works on the copies:
       the value stays inline in the node AND a blob is written.
   * Remove of an item that sits in an interior node hands the SUCCESSOR item to
     tracker.Remove (btree.RemoveCurrentItem / fixVacatedSlot).  The store model
     here is a key-sorted list, so the key of the reported item is an input
     ([rep] of [ORemove]) taken from the implementation in the correspondence run.
   * phase1Commit returns immediately when the tracker holds no item.
   * getForRollbackTrackedItemsValues is called on the normal commit path (to log
     the rollback data) and clears forDeletionItems as a side effect.
   Store = key-sorted list of slot items (unique keys); ids come from a counter. *)
From Coq Require Import List ZArith NArith Bool.
Import ListNotations.
Local Open Scope N_scope.

Definition id := N.
Definition val := N.       (* value token; 0 is the zero value "" *)
Definition key := Z.

Inductive action := AGet | AAdd | AUpdate | ARemove.

Record item := mkItem { iid : id; ikey : key; ival : option val; ivnf : bool; iver : Z }.
Record citem := mkC { cact : action; cit : item; cverdb : Z; cpers : bool }.
Record opts := mkOpts { inNode : bool; activelyP : bool; globalC : bool }.

Definition set_id (i : id) (x : item) := mkItem i (ikey x) (ival x) (ivnf x) (iver x).
Definition set_val (v : option val) (x : item) := mkItem (iid x) (ikey x) v (ivnf x) (iver x).
Definition set_vnf (b : bool) (x : item) := mkItem (iid x) (ikey x) (ival x) b (iver x).
Definition set_ver (z : Z) (x : item) := mkItem (iid x) (ikey x) (ival x) (ivnf x) z.
Definition set_cit (x : item) (c : citem) := mkC (cact c) x (cverdb c) (cpers c).

Section AMap.
  Variable A : Type.
  Fixpoint aget (k : N) (m : list (N * A)) : option A :=
    match m with [] => None | (k', v) :: r => if N.eqb k k' then Some v else aget k r end.
  Fixpoint adel (k : N) (m : list (N * A)) : list (N * A) :=
    match m with [] => [] | (k', v) :: r => if N.eqb k k' then adel k r else (k', v) :: adel k r end.
  Definition aset (k : N) (v : A) (m : list (N * A)) := (k, v) :: adel k m.
End AMap.
Arguments aget {A}. Arguments adel {A}. Arguments aset {A}.

(* calls on the blob store and on the value cache ("V<id>" keys of the L2 cache) *)
Inductive bcall :=
| BAdd (l : list (id * val)) | BGet (i : id) | BRemove (l : list id)
| CGet (i : id) | CSet (i : id) (v : val) | CDel (i : id).

(* [tcur] is B-tree cursor state kept here for convenience: the key of the current item
   whose value was just fetched (Item.valueWasFetched), see [unfetch] below *)
Record tracker := mkT { items : list (id * citem); forDel : list id; logged : bool; tcur : option key }.
Record world := mkW { blobs : list (id * val); vcache : list (id * val); nextid : id; trace : list bcall }.

Definition tr0 := mkT [] [] false None.
Definition set_item (u : id) (c : citem) (t : tracker) := mkT (aset u c (items t)) (forDel t) (logged t) (tcur t).
Definition del_item (u : id) (t : tracker) := mkT (adel u (items t)) (forDel t) (logged t) (tcur t).
Definition add_forDel (i : id) (t : tracker) := mkT (items t) (forDel t ++ [i]) (logged t) (tcur t).
Definition set_logged (t : tracker) := mkT (items t) (forDel t) true (tcur t).
Definition set_cur (k : option key) (t : tracker) := mkT (items t) (forDel t) (logged t) k.
Definition logc (l : list bcall) (w : world) := mkW (blobs w) (vcache w) (nextid w) (trace w ++ l).
Definition bump (w : world) := mkW (blobs w) (vcache w) (nextid w + 1) (trace w).
Definition put_blob (i : id) (v : val) (w : world) := mkW (aset i v (blobs w)) (vcache w) (nextid w) (trace w).
Definition put_cache (i : id) (v : val) (w : world) := mkW (blobs w) (aset i v (vcache w)) (nextid w) (trace w).
Definition del_blob (i : id) (w : world) := mkW (adel i (blobs w)) (vcache w) (nextid w) (trace w).
Definition del_cache (i : id) (w : world) := mkW (blobs w) (adel i (vcache w)) (nextid w) (trace w).

Definition is_some {A} (o : option A) := match o with Some _ => true | None => false end.

(* itemActionTracker.manage *)
Definition manage (uuid : id) (c : citem) (t : tracker) (w : world)
  : tracker * world * citem * option (id * val) :=
  if cpers c then (t, w, c, None) else
  let x := cit c in
  let '(t1, w1, x1) :=
    match cact c with
    | ARemove => ((if ivnf x then add_forDel (iid x) t else t), w, set_vnf false x)
    | AUpdate => if ivnf x && is_some (ival x)
                 then (add_forDel (iid x) t, bump w, set_id (nextid w) (set_vnf false x))
                 else (t, w, x)
    | _ => (t, w, x)
    end in
  match cact c with
  | AAdd | AUpdate =>
      match ival x1 with
      | Some v => let c2 := set_cit (set_vnf true (set_val None x1)) c in
                  (set_item uuid c2 t1, w1, c2, Some (iid x1, v))
      | None => let c2 := set_cit x1 c in (set_item uuid c2 t1, w1, c2, None)
      end
  | ARemove => let c2 := set_cit x1 c in (set_item uuid c2 t1, w1, c2, None)
  | AGet => (t1, w1, c, None)
  end.

(* the "actively persist" block shared by Add and Update *)
Definition actively_persist (o : opts) (uuid : id) (c : citem) (t : tracker) (w : world)
  : tracker * world * citem :=
  if activelyP o then
    let '(t2, w2, c2, r) := manage uuid c t w in
    match r with
    | Some (i, v) =>
        let w3 := put_blob i v (logc [BAdd [(i, v)]] w2) in
        let w4 := if globalC o then put_cache i v (logc [CSet i v] w3) else w3 in
        (set_logged t2, w4, c2)
    | None => (t2, w2, c2)
    end
  else (t, w, c).

(* value fetch of itemActionTracker.Get; None = error (blob missing) *)
Definition fetch (o : opts) (i : id) (w : world) : option (val * world) :=
  if globalC o then
    match aget i (vcache w) with
    | Some v => Some (v, logc [CGet i] w)
    | None =>
        match aget i (blobs w) with
        | Some v => Some (v, put_cache i v (logc [CGet i; BGet i; CSet i v] w))
        | None => None
        end
    end
  else
    match aget i (blobs w) with
    | Some v => Some (v, logc [BGet i] w)
    | None => None
    end.

Definition t_get (o : opts) (x : item) (t : tracker) (w : world) : option (tracker * world * item) :=
  let e := aget (iid x) (items t) in
  (* a get entry holds a pointer to the node slot itself, other entries hold a copy *)
  let enter := match e with
               | None => true
               | Some c => match cact c with AGet => ivnf x | _ => ivnf (cit c) end
               end in
  if negb enter then Some (t, w, x) else
  if negb (is_some (ival x)) && ivnf x then
    match fetch o (iid x) w with
    | None => None
    | Some (v, w1) =>
        let x1 := set_vnf false (set_val (Some v) x) in
        match e with
        | Some _ => Some (t, w1, x1)
        | None => Some (set_item (iid x) (mkC AGet x1 (iver x) false) t, w1, x1)
        end
    end
  else Some (set_item (iid x) (mkC AGet x (iver x) false) t, w, x).

Definition t_add (o : opts) (x : item) (t : tracker) (w : world) : tracker * world :=
  let c := mkC AAdd (set_ver (iver x + 1)%Z x) (iver x) false in
  let t1 := set_item (iid x) c t in
  let '(t2, w2, _) := actively_persist o (iid x) c t1 w in (t2, w2).

(* returns the item that btree.UpdateCurrentItem copies back into the slot *)
Definition t_update (o : opts) (x : item) (t : tracker) (w : world) : tracker * world * item :=
  match aget (iid x) (items t) with
  | Some c =>
      match cact c with
      | AAdd => let '(t1, w1, _) := actively_persist o (iid x) c t w in (t1, w1, x)
      | _ =>
          let x1 := if Z.eqb (iver x) (cverdb c) then set_ver (iver x + 1)%Z x else x in
          let c1 := mkC AUpdate x1 (cverdb c) (cpers c) in
          let '(t2, w2, c2) := actively_persist o (iid x) c1 (set_item (iid x) c1 t) w in
          (t2, w2, cit c2)
      end
  | None =>
      let c1 := mkC AUpdate (set_ver (iver x + 1)%Z x) (iver x) false in
      let '(t2, w2, c2) := actively_persist o (iid x) c1 (set_item (iid x) c1 t) w in
      (t2, w2, cit c2)
  end.

Definition t_remove (o : opts) (x : item) (t : tracker) : tracker :=
  if activelyP o then add_forDel (iid x) t else
  match aget (iid x) (items t) with
  | Some c => match cact c with
              | AAdd => del_item (iid x) t
              | _ => set_item (iid x) (mkC ARemove x (iver x) false) t
              end
  | None => set_item (iid x) (mkC ARemove x (iver x) false) t
  end.

(* commitTrackedItemsValues *)
Fixpoint commit_loop (l : list (id * citem)) (t : tracker) (w : world) (acc : list (id * val))
  : tracker * world * list (id * val) :=
  match l with
  | [] => (t, w, acc)
  | (u, c) :: r =>
      let '(t1, w1, _, a) := manage u c t w in
      commit_loop r t1 w1 (match a with Some p => acc ++ [p] | None => acc end)
  end.

Definition commit_values (o : opts) (t : tracker) (w : world) : tracker * world :=
  if inNode o || activelyP o then (t, w) else
  let '(t1, w1, adds) := commit_loop (items t) t w [] in
  match adds with
  | [] => (t1, w1)
  | _ =>
      let w2 := fold_left (fun w p => put_blob (fst p) (snd p) w) adds (logc [BAdd adds] w1) in
      let w3 := if globalC o
                then fold_left (fun w p => put_cache (fst p) (snd p) (logc [CSet (fst p) (snd p)] w)) adds w2
                else w2 in
      (t1, w3)
  end.

Definition is_addupd (a : action) := match a with AAdd | AUpdate => true | _ => false end.

(* getForRollbackTrackedItemsValues: ids to delete on rollback; restores item ids; clears forDeletionItems *)
Definition get_for_rollback (o : opts) (t : tracker) : tracker * list id :=
  if inNode o then (t, []) else
  let ids := flat_map (fun p => if is_addupd (cact (snd p)) then [iid (cit (snd p))] else []) (items t) in
  let its := map (fun p => if is_addupd (cact (snd p)) then (fst p, set_cit (set_id (fst p) (cit (snd p))) (snd p)) else p) (items t) in
  (mkT its [] (logged t) (tcur t), ids).

Definition get_obsolete (o : opts) (t : tracker) : list id := if inNode o then [] else forDel t.

(* Transaction.deleteTrackedItemsValues for one store *)
Definition delete_values (o : opts) (ids : list id) (w : world) : world :=
  match ids with
  | [] => w
  | _ =>
      let w1 := if globalC o then fold_left (fun w i => del_cache i (logc [CDel i] w)) ids w else w in
      fold_left (fun w i => del_blob i w) ids (logc [BRemove ids] w1)
  end.

(* ---------------------------------------------------------------- store glue *)

Fixpoint sfind (k : key) (s : list item) : option item :=
  match s with [] => None | x :: r => if Z.eqb k (ikey x) then Some x else sfind k r end.
Fixpoint sinsert (x : item) (s : list item) : list item :=
  match s with
  | [] => [x]
  | y :: r => if Z.ltb (ikey x) (ikey y) then x :: y :: r else y :: sinsert x r
  end.
Fixpoint sdel (k : key) (s : list item) : list item :=
  match s with [] => [] | x :: r => if Z.eqb k (ikey x) then r else x :: sdel k r end.
Fixpoint sset (x : item) (s : list item) : list item :=
  match s with [] => [] | y :: r => if Z.eqb (ikey x) (ikey y) then x :: r else y :: sset x r end.

(* OUpdKey: UpdateKey / UpdateCurrentKey with a key that compares equal (a key-only update: the value is not touched and,
   when it lives out of node, not even read) *)
Inductive op := OAdd (k : key) (v : val) | OUpdate (k : key) (v : val) | ORemove (k rep : key) | OGet (k : key) | OUpdKey (k : key).
Inductive res := RBool (b : bool) | RVal (found : bool) (v : val) | RErr.

Definition session := (list item * tracker * world)%type.

(* Btree.unfetchCurrentValue, called by setCurrentItemID whenever the cursor is repositioned:
   in an actively persisted, not globally cached store a value fetched for the current item is
   dropped again (Value=nil, ValueNeedsFetch=true). Find(k) on the key under the cursor does not
   reposition; Add always does. *)
Definition unfetch (o : opts) (moving_to : option key) (s : session) : session :=
  let '(sl, t, w) := s in
  match tcur t with
  | None => s
  | Some kc =>
      let stay := match moving_to with Some k => Z.eqb k kc | None => false end in
      if stay then s else
      if activelyP o && negb (globalC o) then
        match sfind kc sl with
        | Some x => if is_some (ival x)
                    then (sset (set_vnf true (set_val None x)) sl, set_cur None t, w)
                    else (sl, set_cur None t, w)
        | None => (sl, set_cur None t, w)
        end
      else (sl, set_cur None t, w)
  end.

Definition op_target (p : op) : option key :=
  match p with OAdd _ _ => None | OUpdate k _ => Some k | ORemove k _ => Some k | OGet k => Some k | OUpdKey k => Some k end.

Definition step (o : opts) (s0 : session) (p : op) : session * res :=
  let s := unfetch o (op_target p) s0 in
  let '(sl, t, w) := s in
  match p with
  | OAdd k v =>
      match sfind k sl with
      | Some _ => (s, RBool false)
      | None =>
          let x := mkItem (nextid w) k (Some v) false 0%Z in
          let '(t1, w1) := t_add o x t (bump w) in
          ((sinsert x sl, t1, w1), RBool true)
      end
  | OUpdate k v =>
      match sfind k sl with
      | None => (s, RBool false)
      | Some x =>
          let '(t1, w1, x1) := t_update o (set_val (Some v) x) t w in
          ((sset x1 sl, t1, w1), RBool true)
      end
  | OUpdKey k =>
      match sfind k sl with
      | None => (s, RBool false)
      | Some x =>
          let '(t1, w1, x1) := t_update o x t w in
          ((sset x1 sl, t1, w1), RBool true)
      end
  | ORemove k rep =>
      match sfind k sl with
      | None => (s, RBool false)
      | Some x =>
          let y := match sfind rep sl with Some y => y | None => x end in
          ((sdel k sl, t_remove o y t, w), RBool true)
      end
  | OGet k =>
      match sfind k sl with
      | None => (s, RVal false 0)
      | Some x =>
          match t_get o x t w with
          | None => (s, RErr)
          | Some (t1, w1, x1) =>
              let t2 := if ivnf x && negb (ivnf x1) && is_some (ival x1) then set_cur (Some k) t1 else t1 in
              ((sset x1 sl, t2, w1), RVal true (match ival x1 with Some v => v | None => 0 end))
          end
      end
  end.

Fixpoint steps (o : opts) (s : session) (ps : list op) : session * list res :=
  match ps with
  | [] => (s, [])
  | p :: r => let '(s1, a) := step o s p in let '(s2, l) := steps o s1 r in (s2, a :: l)
  end.

(* durable state: the persisted slots and the world *)
Definition dstate := (list item * world)%type.

(* Phase1Commit + Phase2Commit of a writer (no conflict, no fault) *)
Definition commit (o : opts) (disk : list item) (s0 : session) : dstate :=
  (* the cursor is assumed to have left a fetched item before commit (the harness repositions it);
     otherwise the fetched value would be persisted inline iff its node happens to be saved *)
  let '(sl, t, w) := unfetch o None s0 in
  match items t with
  | [] => (disk, delete_values o (get_obsolete o t) w)
  | _ =>
      let '(t1, _) := get_for_rollback o t in
      let '(t2, w2) := commit_values o t1 w in
      (sl, delete_values o (get_obsolete o t2) w2)
  end.

(* Transaction.Rollback before commit *)
Definition rollback (o : opts) (disk : list item) (s : session) : dstate :=
  let '(_, t, w) := s in
  if logged t then let '(_, ids) := get_for_rollback o t in (disk, delete_values o ids w)
  else (disk, w).

Definition begin (d : dstate) : session := (fst d, tr0, snd d).

(* one transaction: ops then commit (true) or rollback (false) *)
Definition txn (o : opts) (d : dstate) (ps : list op) (cm : bool) : dstate * session * list res :=
  let '(s, rs) := steps o (begin d) ps in
  ((if cm then commit o (fst d) s else rollback o (fst d) s), s, rs).

Fixpoint history (o : opts) (d : dstate) (h : list (list op * bool)) : dstate :=
  match h with
  | [] => d
  | (ps, cm) :: r => history o (fst (fst (txn o d ps cm))) r
  end.

(* what a fresh process reads for one slot: None = error (blob missing) *)
Definition fresh_read (w : world) (x : item) : option val :=
  match ival x with
  | Some v => Some v
  | None => if ivnf x then aget (iid x) (blobs w) else Some 0
  end.
Definition view (d : dstate) : list (key * option val) := map (fun x => (ikey x, fresh_read (snd d) x)) (fst d).

(* ---------------------------------------------------------------- reference: ordered map *)
Fixpoint mfind (k : key) (m : list (key * val)) : option val :=
  match m with [] => None | (k', v) :: r => if Z.eqb k k' then Some v else mfind k r end.
Fixpoint minsert (k : key) (v : val) (m : list (key * val)) :=
  match m with
  | [] => [(k, v)]
  | (k', v') :: r => if Z.ltb k k' then (k, v) :: (k', v') :: r else (k', v') :: minsert k v r
  end.
Fixpoint mdel (k : key) (m : list (key * val)) :=
  match m with [] => [] | (k', v') :: r => if Z.eqb k k' then r else (k', v') :: mdel k r end.
Fixpoint mset (k : key) (v : val) (m : list (key * val)) :=
  match m with [] => [] | (k', v') :: r => if Z.eqb k k' then (k, v) :: r else (k', v') :: mset k v r end.

Definition mstep (m : list (key * val)) (p : op) : list (key * val) :=
  match p with
  | OAdd k v => match mfind k m with Some _ => m | None => minsert k v m end
  | OUpdate k v => match mfind k m with Some _ => mset k v m | None => m end
  | ORemove k _ => mdel k m
  | OGet _ => m
  | OUpdKey _ => m
  end.
Definition mrun (m : list (key * val)) (ps : list op) := fold_left mstep ps m.

Definition d0 : dstate := ([], mkW [] [] 1 []).

(* sop.NewStoreInfo: the effective slot length of a store created with StoreOptions.SlotLength = n (transcribed from
   storeinfo.go: default 2000, odd lengths rounded down to even, minimum 2, maximum 20000). btree/node.go's split
   (slotsHalf := SlotLength >> 1) is only item-preserving for an even length. Nothing else in this model depends on it. *)
Definition slot_norm (n : Z) : Z :=
  let a := if Z.leb n 0 then 2000%Z else n in
  let b := if Z.odd a then (a - 1)%Z else a in
  let c := if Z.ltb b 2 then 2%Z else b in
  if Z.ltb 20000 c then 20000%Z else c.
